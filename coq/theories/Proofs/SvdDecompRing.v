(* C09, tensor ring: over an arbitrary commutative ring, the body of tensor_ring (tr_core: first SVD with
   r0*r1 kept triplets, first factor transpose(reshape(U)), remainder reshaped and transposed, then the
   sequential loop) reproduces every entry of its input through the ring contraction
   sum_a (G_0[i_0] G_1[i_1] ... G_{n-1}[i_{n-1}])[a, a]  when no SVD call discards a non-zero singular
   value; hence tensor_ring with start mode 0.  For the other start modes: cyclicity of the trace of a
   chain of cores (tr_entry_rotate). *)
From Coq Require Import List Arith Lia Bool Ring.
From TLV Require Import Base.Shape Base.PyList Base.Tensor Base.BigSum Base.Ops Model.Base Model.SvdDecomp
     Proofs.SvdDecompProofs.
Import ListNotations.


(* ------------------------------------------------------------------ rotating lists (start mode of tensor_ring) *)
Lemma firstn_app_len {A} (l1 l2 : list A) : firstn (length l1) (l1 ++ l2) = l1.
Proof. induction l1; simpl; congruence. Qed.
Lemma skipn_app_len {A} (l1 l2 : list A) : skipn (length l1) (l1 ++ l2) = l2.
Proof. induction l1; simpl; congruence. Qed.

Lemma rotate_seq n m : m <= n -> rotate m (seq 0 n) = seq m (n - m) ++ seq 0 m.
Proof.
  intros H. unfold rotate. replace n with (m + (n - m)) at 1 2 by lia. rewrite seq_app. cbn [Nat.add].
  pose proof (seq_length m 0) as Hl.
  rewrite <- Hl at 1. rewrite skipn_app_len. rewrite <- Hl at 3. rewrite firstn_app_len. reflexivity.
Qed.

Lemma map_nth_seq (s : list nat) : map (fun k => nth k s 0) (seq 0 (length s)) = s.
Proof.
  apply nth_ext with (d := 0) (d' := 0); [now rewrite map_length, seq_length|].
  intros k Hk. rewrite map_length, seq_length in Hk.
  rewrite (nth_map' _ _ _ 0) by (now rewrite seq_length). now rewrite seq_nth.
Qed.

Lemma permute_rotate (s : list nat) m : permute 0 (rotate m (seq 0 (length s))) s = rotate m s.
Proof.
  unfold permute, rotate. rewrite map_app, <- skipn_map, <- firstn_map, map_nth_seq. reflexivity.
Qed.

Lemma index_of_seq_in a : forall len s l2, s <= a -> a < s + len -> index_of a (seq s len ++ l2) = a - s.
Proof.
  induction len; intros s l2 H1 H2; [lia|]. cbn [seq app index_of].
  destruct (Nat.eqb_spec s a); [lia|]. rewrite IHlen by lia. lia.
Qed.
Lemma index_of_seq_out a : forall len s l2, (a < s \/ s + len <= a) ->
  index_of a (seq s len ++ l2) = len + index_of a l2.
Proof.
  induction len; intros s l2 H; [reflexivity|]. cbn [seq app index_of].
  destruct (Nat.eqb_spec s a); [lia|]. rewrite IHlen by lia. lia.
Qed.

Lemma scatter_rotate (idx : list nat) m : m < length idx ->
  scatter (rotate m (seq 0 (length idx))) (rotate m idx) = idx.
Proof.
  intros Hm. set (n := length idx). unfold scatter.
  assert (Hlp : length (rotate m (seq 0 n)) = n).
  { unfold rotate. rewrite app_length, skipn_length, firstn_length, seq_length. lia. }
  rewrite Hlp. rewrite rotate_seq by lia.
  apply nth_ext with (d := 0) (d' := 0); [now rewrite map_length, seq_length|].
  intros a Ha. rewrite map_length, seq_length in Ha.
  rewrite (nth_map' _ _ _ 0) by (now rewrite seq_length). rewrite seq_nth by exact Ha. cbn [Nat.add].
  unfold rotate.
  destruct (Nat.lt_ge_cases a m) as [Hlt|Hge].
  - rewrite index_of_seq_out by lia.
    rewrite <- (app_nil_r (seq 0 m)). rewrite index_of_seq_in by lia.
    rewrite app_nth2 by (rewrite skipn_length; fold n; lia).
    rewrite skipn_length. fold n. replace (n - m + (a - 0) - (n - m)) with a by lia.
    apply nth_firstn'. exact Hlt.
  - rewrite index_of_seq_in by lia.
    rewrite app_nth1 by (rewrite skipn_length; fold n; lia).
    rewrite nth_skipn'. f_equal. lia.
Qed.

Lemma inb_firstn m : forall s idx, inb s idx -> inb (firstn m s) (firstn m idx).
Proof. induction m; intros [|x s] [|i idx] H; simpl in *; try tauto. destruct H. split; auto. Qed.
Lemma inb_skipn m : forall s idx, inb s idx -> inb (skipn m s) (skipn m idx).
Proof. induction m; intros [|x s] [|i idx] H; simpl in *; try tauto. destruct H. auto. Qed.
Lemma inb_rotate m s idx : inb s idx -> inb (rotate m s) (rotate m idx).
Proof. intros H. unfold rotate. apply inb_app; [now apply inb_skipn | now apply inb_firstn]. Qed.

Section RingTR.
Context {F : Type} (Op : fops F).
Hypothesis Rth : ring_theory (f0 Op) (f1 Op) (fadd Op) (fmul Op) (fsub Op) (fopp Op) (@eq F).
Add Ring Fr4 : Rth.
Notation fz := (f0 Op).
Notation fone := (f1 Op).
Infix "+f" := (fadd Op) (at level 50, left associativity).
Infix "*f" := (fmul Op) (at level 40, left associativity).
Notation fsum := (fsumn Op).
Notation gg := (g Op).

Lemma fsumn_mul n m f : fsum (n * m) f = fsum n (fun i => fsum m (fun j => f (i * m + j))).
Proof. unfold fsumn. apply (bigsum_mul F _ _ _ _ _ _ Rth). Qed.

Lemma inb3 a b c i j k : i < a -> j < b -> k < c -> inb [a; b; c] [i; j; k].
Proof. simpl. tauto. Qed.

(* consecutive cores share their bond dimension; l = left bond of the first, r = right bond of the last *)
Fixpoint bonds (l : nat) (cores : list (tensor F)) (r : nat) : Prop :=
  match cores with
  | [] => l = r
  | G :: cs => nth 0 (shape G) 0 = l /\ bonds (nth 2 (shape G) 0) cs r
  end.

Lemma bonds_app l A : forall B r, bonds l (A ++ B) r -> exists m, bonds l A m /\ bonds m B r.
Proof.
  revert l. induction A as [|G A IH]; intros l B r H.
  - exists l. split; [reflexivity | exact H].
  - cbn [app bonds] in *. destruct H as [H1 H2]. destruct (IH _ _ _ H2) as (m & Ha & Hb).
    exists m. repeat split; assumption.
Qed.

(* the product of a concatenated chain is the product of the two partial products *)
Lemma chain_app A : forall l m B a iA iB c, bonds l A m -> a < l -> length iA = length A ->
  chain Op (A ++ B) a (iA ++ iB) c = fsum m (fun b => chain Op A a iA b *f chain Op B b iB c).
Proof.
  induction A as [|G A IH]; intros l m B a iA iB c Hb Ha Hlen.
  - destruct iA; [|discriminate]. cbn [bonds] in Hb. subst m. cbn [app].
    rewrite (fsumn_single Op Rth l a).
    + rewrite (chain_nil Op), Nat.eqb_refl. ring.
    + exact Ha.
    + intros b Hb Hne. rewrite (chain_nil Op). destruct (Nat.eqb_spec a b); [exfalso; auto | ring].
  - destruct iA as [|i iA]; [discriminate|]. cbn [bonds] in Hb. destruct Hb as [Hl Hb].
    cbn [app]. rewrite (chain_cons Op).
    transitivity (fsum (nth 2 (shape G) 0) (fun b1 => fsum m (fun b =>
       gg G [a; i; b1] *f chain Op A b1 iA b *f chain Op B b iB c))).
    + apply fsumn_ext. intros b1 Hb1.
      rewrite (IH _ m B b1 iA iB c Hb Hb1) by (simpl in Hlen; lia).
      rewrite <- (fsumn_scale_l Op Rth). apply fsumn_ext. intros b _. ring.
    + rewrite (fsumn_exchange Op Rth). apply fsumn_ext. intros b _.
      rewrite (chain_cons Op). rewrite <- (fsumn_scale_r Op Rth). reflexivity.
Qed.

(* cyclicity of the trace: rotating the ring of cores together with the index does not change the entry *)
Theorem tr_entry_rotate A B l m iA iB : A <> [] -> B <> [] -> bonds l A m -> bonds m B l ->
  length iA = length A -> length iB = length B ->
  tr_entry Op (B ++ A) (iB ++ iA) = tr_entry Op (A ++ B) (iA ++ iB).
Proof.
  intros HA HB Hba Hbb HlA HlB. unfold tr_entry.
  destruct A as [|GA A']; [contradiction|]. destruct B as [|GB B']; [contradiction|].
  cbn [app hd].
  assert (HlGA : nth 0 (shape GA) 0 = l) by (cbn [bonds] in Hba; tauto).
  assert (HlGB : nth 0 (shape GB) 0 = m) by (cbn [bonds] in Hbb; tauto).
  rewrite HlGA, HlGB.
  change (GB :: B' ++ GA :: A') with ((GB :: B') ++ (GA :: A')).
  change (GA :: A' ++ GB :: B') with ((GA :: A') ++ (GB :: B')).
  transitivity (fsum m (fun b => fsum l (fun a => chain Op (GB :: B') b iB a *f chain Op (GA :: A') a iA b))).
  - apply fsumn_ext. intros b Hb. apply (chain_app _ m l); assumption.
  - rewrite (fsumn_exchange Op Rth). apply fsumn_ext. intros a Ha.
    rewrite (chain_app _ l m _ a iA iB a Hba Ha HlA). apply fsumn_ext. intros b _. ring.
Qed.

Variable svd : nat -> tensor F -> @svdans F.

(* the contract of a tensor-ring run on the (rotated) input: the first call keeps every non-zero
   singular value among its r0*r1 triplets, and so does every call of the sequential loop *)
Definition tr_core_ok (Xp : tensor F) (rk : list nat) : Prop :=
  let s0 := hd 0 (shape Xp) in
  let rest := tl (shape Xp) in
  let r0 := nth 0 rk 0 in
  let r1 := nth 1 rk 0 in
  let n_col := prod rest in
  let M := mk [s0; n_col] (data Xp) in
  step_ok Op M s0 n_col (r0 * r1) (svd 0 M) /\
  (let '(U, Sv, V) := svd_interface Op (svd 0 M) (r0 * r1) in
   loop_ok Op svd 1 rest (skipn 2 rk) r1 r0
     (data (transpose fz [1; 2; 0] (reshape [r0; r1; n_col] (sv_mul Op Sv V))))).

Theorem tr_core_exact Xp rk cores :
  tr_core_ok Xp rk -> tr_core Op svd Xp rk = Ok cores ->
  forall idx, inb (shape Xp) idx -> tr_entry Op cores idx = gg Xp idx.
Proof.
  unfold tr_core_ok, tr_core. intros Hok Hrun idx Hidx.
  destruct (shape Xp) as [|s0 rest] eqn:Es; [destruct idx; simpl in Hidx; [|tauto];
    cbn [hd tl] in Hrun; cbv zeta in Hrun; destruct (_ <? _); [discriminate|];
    destruct (fact_shapes_ok _ _ _ _); [|discriminate];
    destruct (svd_interface _ _ _) as [[? ?] ?]; simpl in Hrun; discriminate|].
  cbn [hd tl] in Hok, Hrun. cbv zeta in Hok, Hrun.
  set (r0 := nth 0 rk 0) in *. set (r1 := nth 1 rk 0) in *. set (n_col := prod rest) in *.
  set (M := mk [s0; n_col] (data Xp)) in *.
  destruct (Nat.min s0 n_col <? r0 * r1); [discriminate|].
  destruct Hok as [Hstep Hloop].
  pose proof (svd_interface_exact Op Rth _ _ _ _ _ Hstep) as Hex.
  destruct (svd_interface Op (svd 0 M) (r0 * r1)) as [[U Sv] V] eqn:Esvd.
  destruct Hex as (HU & HV & HS & Hprod).
  destruct (fact_shapes_ok s0 n_col (r0 * r1) (U, Sv, V)); [|discriminate].
  set (W := transpose fz [1; 2; 0] (reshape [r0; r1; n_col] (sv_mul Op Sv V))) in *.
  destruct (chain_loop Op svd 1 rest (skipn 2 rk) r1 r0 (data W)) as [cs|] eqn:Ecs; [|discriminate].
  cbn [rbind] in Hrun. injection Hrun as <-.
  destruct idx as [|i idx']; [simpl in Hidx; tauto|]. destruct Hidx as [Hi Hidx'].
  set (col := ravel rest idx').
  assert (Hcol : col < n_col) by (apply ravel_lt; exact Hidx').
  unfold tr_entry. cbn [hd]. set (factor0 := transpose fz [1; 0; 2] (reshape [s0; r0; r1] U)).
  assert (Hs0 : shape factor0 = [r0; s0; r1]) by reflexivity.
  rewrite Hs0. cbn [nth].
  (* every term of the trace *)
  assert (Hterm : forall a, a < r0 -> chain Op (factor0 :: cs) a (i :: idx') a =
            fsum r1 (fun b => gg U [i; a * r1 + b] *f (nth (a * r1 + b) Sv fz *f gg V [a * r1 + b; col]))).
  { intros a Ha. rewrite (chain_cons Op). rewrite Hs0. cbn [nth]. apply fsumn_ext. intros b Hb.
    assert (Hl : a * r1 + b < r0 * r1) by nia.
    f_equal.
    - unfold factor0, g, transpose. rewrite get_tabulate by (cbn [permute map shape reshape nth]; apply inb3; assumption).
      unfold get, reshape. cbn [shape data scatter length seq map index_of Nat.eqb nth]. rewrite HU.
      cbn [ravel prod fold_right]. f_equal. ring.
    - rewrite (chain_loop_exact Op Rth svd _ _ _ _ _ _ _ Hloop Ecs b idx' a Hb Hidx' Ha).
      fold col. fold n_col.
      transitivity (get fz W [b; col; a]).
      + unfold get. f_equal. unfold W, transpose. cbn [shape tabulate permute map reshape nth ravel prod fold_right]. ring.
      + unfold W, transpose. rewrite get_tabulate by (cbn [permute map shape reshape nth]; apply inb3; assumption).
        cbn [scatter length seq map index_of Nat.eqb nth].
        transitivity (gg (sv_mul Op Sv V) [a * r1 + b; col]).
        * unfold g, get, reshape. cbn [shape data]. unfold sv_mul at 2. cbn [shape tabulate]. rewrite HV.
          cbn [ravel prod fold_right]. f_equal. ring.
        * unfold sv_mul. rewrite HV. rewrite (g_tab2 Op) by assumption. reflexivity. }
  rewrite (fsumn_ext Op r0 _ _ Hterm).
  rewrite <- (fsumn_mul r0 r1 (fun l => gg U [i; l] *f (nth l Sv fz *f gg V [l; col]))).
  rewrite (Hprod i col Hi Hcol). unfold M, g, get. cbn [shape data]. rewrite Es.
  cbn [ravel prod fold_right]. f_equal. unfold col, n_col. fold (prod rest). ring.
Qed.

(* ------------------------------------------------------------------ tensor_ring, start mode 0 *)
Definition tr_ok0 (X : tensor F) (rank : rank_spec) : Prop :=
  match validate_tr_rank (ndim X) rank with Ok rk => tr_core_ok X rk | Err => True end.

Theorem tensor_ring_exact_mode0 X rank cores :
  tr_ok0 X rank -> tensor_ring Op svd X rank 0 = Ok cores ->
  forall idx, inb (shape X) idx -> tr_entry Op cores idx = gg X idx.
Proof.
  unfold tr_ok0, tensor_ring. destruct (validate_tr_rank (ndim X) rank) as [rk|]; [|discriminate].
  cbn [rbind]. destruct (negb (0 <? ndim X)); [discriminate|]. cbn [Nat.eqb].
  intros Hok Hrun. destruct (tr_core Op svd X rk) as [fs|] eqn:E; [|discriminate].
  cbn [rbind] in Hrun. injection Hrun as <-. exact (tr_core_exact X rk fs Hok E).
Qed.

(* ------------------------------------------------------------------ bond bookkeeping of the computed cores *)
Lemma chain_loop_bonds : forall sizes k ranks rk r0 W cores,
  chain_loop Op svd k sizes ranks rk r0 W = Ok cores -> bonds rk cores r0 /\ length cores = length sizes.
Proof.
  induction sizes as [|n rest IH]; intros k ranks rk r0 W cores H; [discriminate|].
  destruct rest as [|n2 rest2].
  - simpl in H. injection H as <-. simpl. auto.
  - set (rest := n2 :: rest2) in *. cbn [chain_loop] in H. fold rest in H. cbv zeta in H.
    destruct (fact_shapes_ok _ _ _ _); [|discriminate].
    destruct (svd_interface Op _ _) as [[U Sv] V].
    destruct (chain_loop Op svd (S k) rest (tl ranks) _ r0 _) as [cs|] eqn:E; [|discriminate].
    cbn [rbind] in H. injection H as <-. destruct (IH _ _ _ _ _ _ E) as [Hb Hl].
    cbn [bonds length shape reshape nth]. rewrite Hl. auto.
Qed.

Lemma tr_core_bonds Xp rk fs : tr_core Op svd Xp rk = Ok fs ->
  bonds (nth 0 rk 0) fs (nth 0 rk 0) /\ length fs = S (length (tl (shape Xp))).
Proof.
  unfold tr_core. cbv zeta. destruct (_ <? _); [discriminate|].
  destruct (fact_shapes_ok _ _ _ _); [|discriminate].
  destruct (svd_interface Op _ _) as [[U Sv] V].
  destruct (chain_loop Op svd 1 _ _ _ _ _) as [cs|] eqn:E; [|discriminate].
  cbn [rbind]. intros H. injection H as <-. destruct (chain_loop_bonds _ _ _ _ _ _ _ E) as [Hb Hl].
  cbn [bonds length]. rewrite Hl. split; [|reflexivity]. split; [reflexivity|]. exact Hb.
Qed.

(* ------------------------------------------------------------------ tensor_ring, every start mode *)
Definition tr_ok (X : tensor F) (rank : rank_spec) (mode : nat) : Prop :=
  let n := ndim X in
  match validate_tr_rank n rank with
  | Ok rk0 =>
    tr_core_ok (if Nat.eqb mode 0 then X else transpose fz (rotate mode (seq 0 n)) X)
               (if Nat.eqb mode 0 then rk0 else tr_rotate_rank n mode rk0)
  | Err => True
  end.

Theorem tensor_ring_exact X rank mode cores :
  tr_ok X rank mode -> tensor_ring Op svd X rank mode = Ok cores ->
  forall idx, inb (shape X) idx -> tr_entry Op cores idx = gg X idx.
Proof.
  unfold tr_ok, tensor_ring. cbv zeta. set (n := ndim X).
  destruct (validate_tr_rank n rank) as [rk0|]; [|discriminate]. cbn [rbind].
  destruct (mode <? n) eqn:Emn; [|discriminate]. cbn [negb]. apply Nat.ltb_lt in Emn.
  destruct (Nat.eqb_spec mode 0) as [->|Hm0].
  - intros Hok Hrun. destruct (tr_core Op svd X rk0) as [fs|] eqn:E; [|discriminate].
    cbn [rbind] in Hrun. injection Hrun as <-. exact (tr_core_exact X rk0 fs Hok E).
  - set (Xp := transpose fz (rotate mode (seq 0 n)) X). set (rk := tr_rotate_rank n mode rk0).
    intros Hok Hrun idx Hidx.
    destruct (tr_core Op svd Xp rk) as [fs|] eqn:E; [|discriminate].
    cbn [rbind] in Hrun. injection Hrun as <-.
    pose proof (tr_core_exact Xp rk fs Hok E) as Hex.
    destruct (tr_core_bonds Xp rk fs E) as [Hb Hlen].
    assert (HsXp : shape Xp = rotate mode (shape X)).
    { unfold Xp, transpose. cbn [shape tabulate]. unfold n, ndim. apply permute_rotate. }
    assert (Hlfs : length fs = n).
    { rewrite Hlen, HsXp. unfold rotate. destruct (skipn mode (shape X) ++ firstn mode (shape X)) eqn:Er.
      - apply (f_equal (@length nat)) in Er. rewrite app_length, skipn_length, firstn_length in Er.
        cbn [length] in Er. unfold n, ndim in *. lia.
      - apply (f_equal (@length nat)) in Er. rewrite app_length, skipn_length, firstn_length in Er.
        cbn [length tl] in *. unfold n, ndim in *. lia. }
    pose proof (inb_length _ _ Hidx) as Hli. fold (ndim X) in Hli. fold n in Hli.
    set (A := firstn (n - mode) fs). set (B := lastn mode fs).
    assert (EB : B = skipn (n - mode) fs) by (unfold B, lastn; rewrite Hlfs; reflexivity).
    assert (Efs : fs = A ++ B) by (rewrite EB; unfold A; symmetry; apply firstn_skipn).
    rewrite Efs in Hb. destruct (bonds_app _ _ _ _ Hb) as (m & HbA & HbB).
    assert (HlA : length A = n - mode) by (unfold A; rewrite firstn_length; lia).
    assert (HlB : length B = mode) by (rewrite EB, skipn_length; lia).
    set (iB := firstn mode idx). set (iA := skipn mode idx).
    assert (Eidx : idx = iB ++ iA) by (symmetry; apply firstn_skipn).
    rewrite Eidx at 1.
    rewrite (tr_entry_rotate A B (nth 0 rk 0) m iA iB).
    + rewrite <- Efs. change (iA ++ iB) with (rotate mode idx).
      rewrite Hex by (rewrite HsXp; apply inb_rotate; exact Hidx).
      unfold Xp, g, transpose. rewrite get_tabulate.
      * f_equal. rewrite <- Hli. apply scatter_rotate. lia.
      * fold (ndim X). fold n. change (permute 0 (rotate mode (seq 0 n)) (shape X)) with (shape Xp).
        rewrite HsXp. apply inb_rotate. exact Hidx.
    + intros EA. rewrite EA in HlA. cbn [length] in HlA. lia.
    + intros EB'. rewrite EB' in HlB. cbn [length] in HlB. lia.
    + exact HbA.
    + exact HbB.
    + unfold iA. rewrite skipn_length. lia.
    + unfold iB. rewrite firstn_length. lia.
Qed.

End RingTR.
