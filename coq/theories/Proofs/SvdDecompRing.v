(* C09, tensor ring: over an arbitrary commutative ring, the body of tensor_ring (tr_core: first SVD with
   r0*r1 kept triplets, first factor transpose(reshape(U)), remainder reshaped and transposed, then the
   sequential loop) reproduces every entry of its input through the ring contraction
   sum_a (G_0[i_0] G_1[i_1] ... G_{n-1}[i_{n-1}])[a, a]  when no SVD call discards a non-zero singular
   value; hence tensor_ring with start mode 0.  For the other start modes: cyclicity of the trace of a
   chain of cores (tr_entry_rotate). *)
From Coq Require Import List Arith Lia Bool Ring.
From TLV Require Import Base.Shape Base.PyList Base.Tensor Base.BigSum Base.Ops Model.Base Model.SvdDecomp
     Proofs.SvdDecompProofs.
Import ListNotations.

Section RingTR.
Context {F : Type} (Op : fops F).
Hypothesis Rth : ring_theory (f0 Op) (f1 Op) (fadd Op) (fmul Op) (fsub Op) (fopp Op) (@eq F).
Add Ring Fr4 : Rth.
Notation fz := (f0 Op).
Notation fone := (f1 Op).
Infix "+f" := (fadd Op) (at level 50, left associativity).
Infix "*f" := (fmul Op) (at level 40, left associativity).
Notation fsum := (fsumn Op).
Notation gg := (g Op).

Lemma fsumn_mul n m f : fsum (n * m) f = fsum n (fun i => fsum m (fun j => f (i * m + j))).
Proof. unfold fsumn. apply (bigsum_mul F _ _ _ _ _ _ Rth). Qed.

Lemma inb3 a b c i j k : i < a -> j < b -> k < c -> inb [a; b; c] [i; j; k].
Proof. simpl. tauto. Qed.

Variable svd : nat -> tensor F -> @svdans F.

(* the contract of a tensor-ring run on the (rotated) input: the first call keeps every non-zero
   singular value among its r0*r1 triplets, and so does every call of the sequential loop *)
Definition tr_core_ok (Xp : tensor F) (rk : list nat) : Prop :=
  let s0 := hd 0 (shape Xp) in
  let rest := tl (shape Xp) in
  let r0 := nth 0 rk 0 in
  let r1 := nth 1 rk 0 in
  let n_col := prod rest in
  let M := mk [s0; n_col] (data Xp) in
  step_ok Op M s0 n_col (r0 * r1) (svd 0 M) /\
  (let '(U, Sv, V) := svd_interface Op (svd 0 M) (r0 * r1) in
   loop_ok Op svd 1 rest (skipn 2 rk) r1 r0
     (data (transpose fz [1; 2; 0] (reshape [r0; r1; n_col] (sv_mul Op Sv V))))).

Theorem tr_core_exact Xp rk cores :
  tr_core_ok Xp rk -> tr_core Op svd Xp rk = Ok cores ->
  forall idx, inb (shape Xp) idx -> tr_entry Op cores idx = gg Xp idx.
Proof.
  unfold tr_core_ok, tr_core. intros Hok Hrun idx Hidx.
  destruct (shape Xp) as [|s0 rest] eqn:Es; [destruct idx; simpl in Hidx; [|tauto];
    cbn [hd tl] in Hrun; cbv zeta in Hrun; destruct (_ <? _); [discriminate|];
    destruct (fact_shapes_ok _ _ _ _); [|discriminate];
    destruct (svd_interface _ _ _) as [[? ?] ?]; simpl in Hrun; discriminate|].
  cbn [hd tl] in Hok, Hrun. cbv zeta in Hok, Hrun.
  set (r0 := nth 0 rk 0) in *. set (r1 := nth 1 rk 0) in *. set (n_col := prod rest) in *.
  set (M := mk [s0; n_col] (data Xp)) in *.
  destruct (Nat.min s0 n_col <? r0 * r1); [discriminate|].
  destruct Hok as [Hstep Hloop].
  pose proof (svd_interface_exact Op Rth _ _ _ _ _ Hstep) as Hex.
  destruct (svd_interface Op (svd 0 M) (r0 * r1)) as [[U Sv] V] eqn:Esvd.
  destruct Hex as (HU & HV & HS & Hprod).
  destruct (fact_shapes_ok s0 n_col (r0 * r1) (U, Sv, V)); [|discriminate].
  set (W := transpose fz [1; 2; 0] (reshape [r0; r1; n_col] (sv_mul Op Sv V))) in *.
  destruct (chain_loop Op svd 1 rest (skipn 2 rk) r1 r0 (data W)) as [cs|] eqn:Ecs; [|discriminate].
  cbn [rbind] in Hrun. injection Hrun as <-.
  destruct idx as [|i idx']; [simpl in Hidx; tauto|]. destruct Hidx as [Hi Hidx'].
  set (col := ravel rest idx').
  assert (Hcol : col < n_col) by (apply ravel_lt; exact Hidx').
  unfold tr_entry. cbn [hd]. set (factor0 := transpose fz [1; 0; 2] (reshape [s0; r0; r1] U)).
  assert (Hs0 : shape factor0 = [r0; s0; r1]) by reflexivity.
  rewrite Hs0. cbn [nth].
  (* every term of the trace *)
  assert (Hterm : forall a, a < r0 -> chain Op (factor0 :: cs) a (i :: idx') a =
            fsum r1 (fun b => gg U [i; a * r1 + b] *f (nth (a * r1 + b) Sv fz *f gg V [a * r1 + b; col]))).
  { intros a Ha. rewrite (chain_cons Op). rewrite Hs0. cbn [nth]. apply fsumn_ext. intros b Hb.
    assert (Hl : a * r1 + b < r0 * r1) by nia.
    f_equal.
    - unfold factor0, g, transpose. rewrite get_tabulate by (cbn [permute map shape reshape nth]; apply inb3; assumption).
      unfold get, reshape. cbn [shape data scatter length seq map index_of Nat.eqb nth]. rewrite HU.
      cbn [ravel prod fold_right]. f_equal. ring.
    - rewrite (chain_loop_exact Op Rth svd _ _ _ _ _ _ _ Hloop Ecs b idx' a Hb Hidx' Ha).
      fold col. fold n_col.
      transitivity (get fz W [b; col; a]).
      + unfold get. f_equal. unfold W, transpose. cbn [shape tabulate permute map reshape nth ravel prod fold_right]. ring.
      + unfold W, transpose. rewrite get_tabulate by (cbn [permute map shape reshape nth]; apply inb3; assumption).
        cbn [scatter length seq map index_of Nat.eqb nth].
        transitivity (gg (sv_mul Op Sv V) [a * r1 + b; col]).
        * unfold g, get, reshape. cbn [shape data]. unfold sv_mul at 2. cbn [shape tabulate]. rewrite HV.
          cbn [ravel prod fold_right]. f_equal. ring.
        * unfold sv_mul. rewrite HV. rewrite (g_tab2 Op) by assumption. reflexivity. }
  rewrite (fsumn_ext Op r0 _ _ Hterm).
  rewrite <- (fsumn_mul r0 r1 (fun l => gg U [i; l] *f (nth l Sv fz *f gg V [l; col]))).
  rewrite (Hprod i col Hi Hcol). unfold M, g, get. cbn [shape data]. rewrite Es.
  cbn [ravel prod fold_right]. f_equal. unfold col, n_col. fold (prod rest). ring.
Qed.

(* ------------------------------------------------------------------ tensor_ring, start mode 0 *)
Definition tr_ok0 (X : tensor F) (rank : rank_spec) : Prop :=
  match validate_tr_rank (ndim X) rank with Ok rk => tr_core_ok X rk | Err => True end.

Theorem tensor_ring_exact_mode0 X rank cores :
  tr_ok0 X rank -> tensor_ring Op svd X rank 0 = Ok cores ->
  forall idx, inb (shape X) idx -> tr_entry Op cores idx = gg X idx.
Proof.
  unfold tr_ok0, tensor_ring. destruct (validate_tr_rank (ndim X) rank) as [rk|]; [|discriminate].
  cbn [rbind]. destruct (negb (0 <? ndim X)); [discriminate|]. cbn [Nat.eqb].
  intros Hok Hrun. destruct (tr_core Op svd X rk) as [fs|] eqn:E; [|discriminate].
  cbn [rbind] in Hrun. injection Hrun as <-. exact (tr_core_exact X rk fs Hok E).
Qed.

End RingTR.
