(* C09, tensor ring: the lower bound for EVERY cut of the ring (rows = modes a .. b-1, any 0 <= a < b <= n with (a, b) <> (0, n)).
   The ring contraction is invariant under a cyclic rotation of the cores together with the modes (tr_entry_rotate), hence so is
   the squared error; a cut starting at mode a of X is a cut starting at mode 0 of the rotated tensor, where
   ring_error_lower_local (Proofs/SvdDecompRingPartial.v) applies. *)
From Coq Require Import List Arith Lia Bool Ring Reals Lra.
From TLV Require Import Base.Shape Base.PyList Base.Tensor Base.BigSum Base.Ops Model.Base Model.SvdDecomp
     Proofs.SvdDecompProofs Proofs.SvdDecompProofsR Proofs.SvdDecompPyth Proofs.SvdDecompError Proofs.SvdDecompRing Proofs.SvdDecompRingErr
     Proofs.SvdDecompTails Proofs.SvdDecompErrorR Proofs.SvdDecompTuckerErr Proofs.SvdDecompHosvdBound Proofs.SvdDecompPartial
     Proofs.SvdDecompRingPartial Proofs.SvdDecompEckartYoung.
Import ListNotations.

Section Rot.
Context {F : Type} (Op : fops F).
Hypothesis Rth : ring_theory (f0 Op) (f1 Op) (fadd Op) (fmul Op) (fsub Op) (fopp Op) (@eq F).
Notation fz := (f0 Op).

(* fs: one core per mode of the rotated tensor Xp = X with the modes rotated by `mode`; putting the last `mode` cores in front
   gives cores for X with the same squared error *)
Lemma tr_err2_rotate (X : tensor F) (fs : list (tensor F)) (l mode : nat) :
  0 < mode -> mode < ndim X -> bonds l fs l -> length fs = ndim X ->
  tr_err2 Op X (lastn mode fs ++ firstn (ndim X - mode) fs)
  = tr_err2 Op (transpose fz (rotate mode (seq 0 (ndim X))) X) fs.
Proof.
  intros Hm0 Emn Hb Hlfs. set (n := ndim X) in *.
  set (Xp := transpose fz (rotate mode (seq 0 n)) X).
  assert (HsXp : shape Xp = rotate mode (shape X)).
  { unfold Xp, transpose. cbn [shape tabulate]. unfold n, ndim. apply permute_rotate. }
  set (A := firstn (n - mode) fs). set (B := lastn mode fs).
  assert (EB : B = skipn (n - mode) fs) by (unfold B, lastn; rewrite Hlfs; reflexivity).
  assert (Efs : fs = A ++ B) by (rewrite EB; unfold A; symmetry; apply firstn_skipn).
  rewrite Efs in Hb. destruct (bonds_app _ _ _ _ Hb) as (m & HbA & HbB).
  assert (HlA : length A = n - mode) by (unfold A; rewrite firstn_length; lia).
  assert (HlB : length B = mode) by (rewrite EB, skipn_length; lia).
  assert (HneA : A <> []) by (intros EA; rewrite EA in HlA; cbn [length] in HlA; lia).
  assert (HneB : B <> []) by (intros EB'; rewrite EB' in HlB; cbn [length] in HlB; lia).
  set (sB := firstn mode (shape X)). set (sA := skipn mode (shape X)).
  assert (HlsB : length sB = mode) by (unfold sB; rewrite firstn_length; unfold n, ndim in Emn; lia).
  unfold tr_err2. rewrite HsXp. unfold rotate. fold sA sB.
  rewrite <- (firstn_skipn mode (shape X)) at 1. fold sA sB.
  rewrite !(sum_idx_app_gen Op Rth). rewrite (sidx_swap Op Rth).
  apply sum_idx_ext. intros iA HiA. apply sum_idx_ext. intros iB HiB.
  assert (Hidx : inb (shape X) (iB ++ iA)).
  { rewrite <- (firstn_skipn mode (shape X)). fold sA sB. apply inb_app; assumption. }
  assert (HliB : length iB = mode) by (rewrite (inb_length _ _ HiB); exact HlsB).
  assert (Hrot : rotate mode (iB ++ iA) = iA ++ iB).
  { unfold rotate. rewrite <- HliB. rewrite skipn_app_len, firstn_app_len. reflexivity. }
  f_equal. f_equal.
  - unfold Xp, g, transpose. rewrite get_tabulate.
    + f_equal. rewrite <- Hrot. pose proof (inb_length _ _ Hidx) as Hli. fold (ndim X) in Hli. fold n in Hli.
      rewrite <- Hli. symmetry. apply scatter_rotate. lia.
    + fold (ndim X). fold n. change (permute 0 (rotate mode (seq 0 n)) (shape X)) with (shape Xp).
      rewrite HsXp. rewrite <- Hrot. apply inb_rotate. exact Hidx.
  - rewrite Efs. apply (tr_entry_rotate Op Rth A B l m iA iB); auto.
    + rewrite (inb_length _ _ HiA). unfold sA. rewrite skipn_length. unfold n, ndim in *. lia.
    + lia.
Qed.
End Rot.

Local Open Scope R_scope.

(* any cores closing into a ring, any cut a < b with a > 0 (a = 0 is ring_error_lower_local): m is the bond entering core a.
   Xp = X with the modes rotated by a; its unfolding after b - a modes has the modes a .. b-1 of X as rows. *)
Theorem ring_error_lower_any_cut (X : tensor R) (cores : list (tensor R)) (l m a b : nat) (aX : @svdans R) :
  length cores = ndim X -> (0 < a)%nat -> (a < b)%nat -> (b <= ndim X)%nat ->
  bonds l (firstn a cores) m -> bonds m (skipn a cores) l ->
  let Xp := transpose 0 (rotate a (seq 0 (ndim X))) X in
  let fs := skipn a cores ++ firstn a cores in
  let r := (m * nth 2 (shape (nth (b - a - 1) fs (mk [] []))) 0)%nat in
  ey_for (x_unfolding Xp (b - a)) (prod (firstn (b - a) (shape Xp))) (prod (skipn (b - a) (shape Xp))) r aX ->
  tail2 Rops r (snd3 aX) <= tr_err2 Rops X cores.
Proof.
  intros Hlen Ha Hab Hbn HbB HbA Xp fs r Hey.
  set (n := ndim X) in *. set (B := firstn a cores) in *. set (A := skipn a cores) in *.
  assert (Ecores : cores = B ++ A) by (symmetry; apply firstn_skipn).
  assert (HlB : length B = a) by (unfold B; rewrite firstn_length; lia).
  assert (HlA : length A = (n - a)%nat) by (unfold A; rewrite skipn_length; lia).
  assert (Hfs : bonds m fs m) by (unfold fs; eapply bonds_app_conv; eassumption).
  assert (Hlfs : length fs = n) by (unfold fs; rewrite app_length; lia).
  assert (HsXp : shape Xp = rotate a (shape X)).
  { unfold Xp, transpose. cbn [shape tabulate]. unfold n, ndim. apply permute_rotate. }
  assert (HnXp : ndim Xp = n).
  { unfold ndim. rewrite HsXp. unfold rotate. rewrite app_length, skipn_length, firstn_length. unfold n, ndim in *. lia. }
  assert (Hrot : tr_err2 Rops X cores = tr_err2 Rops Xp fs).
  { transitivity (tr_err2 Rops X (lastn a fs ++ firstn (n - a) fs)).
    - f_equal. unfold fs, lastn. rewrite app_length.
      replace (length A + length B - a)%nat with (length A) by lia. rewrite skipn_app_len.
      replace (n - a)%nat with (length A) by lia. rewrite firstn_app_len. exact Ecores.
    - exact (tr_err2_rotate Rops Rops_ring X fs m a Ha ltac:(unfold n in *; lia) Hfs Hlfs). }
  rewrite Hrot.
  replace (nth (b - a - 1) fs (mk [] [])) with (nth ((b - a) - 1) fs (mk [] [])) in * by reflexivity.
  apply (ring_error_lower_local Xp fs m (b - a)%nat aX Hfs); try lia.
  exact Hey.
Qed.

Section TRCuts.
Variable svd : nat -> tensor R -> @svdans R.

(* tensor_ring, every start mode: the squared error is at least the discarded tail of EVERY cut of the ring *)
Theorem tensor_ring_error_lower_any_cut X rank mode cores :
  tensor_ring Rops svd X rank mode = Ok cores ->
  forall a b, (0 < a)%nat -> (a < b)%nat -> (b <= ndim X)%nat ->
  exists m, forall aX,
    let Xp := transpose 0 (rotate a (seq 0 (ndim X))) X in
    let fs := skipn a cores ++ firstn a cores in
    let r := (m * nth 2 (shape (nth (b - a - 1) fs (mk [] []))) 0)%nat in
    svd_sorted_contract (x_unfolding Xp (b - a)) (prod (firstn (b - a) (shape Xp))) (prod (skipn (b - a) (shape Xp))) r aX ->
    tail2 Rops r (snd3 aX) <= tr_err2 Rops X cores.
Proof.
  intros Hrun a b Ha Hab Hbn.
  destruct (tensor_ring_bonds svd X rank mode cores Hrun) as (l & Hb & Hlen).
  rewrite <- (firstn_skipn a cores) in Hb. destruct (bonds_app _ _ _ _ Hb) as (m & HbB & HbA).
  exists m. intros aX Xp fs r Hc.
  apply (ring_error_lower_any_cut X cores l m a b aX Hlen Ha Hab Hbn HbB HbA).
  exact (eckart_young_holds _ _ _ _ _ Hc).
Qed.
End TRCuts.

(* non-vacuity: X = diag(2, 1), the cores tensor_ring returns for the request (1,1,1), the cut a = 1, b = 2 (rows = mode 1):
   all hypotheses hold and 1 <= error^2 *)
Example ring_any_cut_nonvacuous :
  let cores := [mk [1; 2; 1]%nat [1; 0]; mk [1; 2; 1]%nat [2; 0]] in
  let Xp := transpose 0 (rotate 1 (seq 0 (ndim ey_M))) ey_M in
  length cores = ndim ey_M /\ bonds 1 (firstn 1 cores) 1 /\ bonds 1 (skipn 1 cores) 1 /\
  ey_for (x_unfolding Xp 1) (prod (firstn 1 (shape Xp))) (prod (skipn 1 (shape Xp))) 1 ey_a /\
  tail2 Rops 1 (snd3 ey_a) <= tr_err2 Rops ey_M cores.
Proof.
  intros cores Xp.
  assert (Hey : ey_for (x_unfolding Xp 1) (prod (firstn 1 (shape Xp))) (prod (skipn 1 (shape Xp))) 1 ey_a).
  { exact ey_instance_holds. }
  split; [reflexivity|]. split; [cbn; auto|]. split; [cbn; auto|]. split; [exact Hey|].
  exact (ring_error_lower_any_cut ey_M cores 1 1 1 2 ey_a eq_refl ltac:(lia) ltac:(lia) ltac:(cbn; lia)
           ltac:(cbn; auto) ltac:(cbn; auto) Hey).
Qed.
