(* C09: the tensor-ring error identity under the weakest per-call contract step_proj (Proofs/SvdDecompErrorGen.v); generated from the
   proofs of Proofs/SvdDecompRingErr.v by renaming the contract and the two lemmas they use. *)
From Coq Require Import List Arith Lia Bool Ring.
From TLV Require Import Base.Shape Base.PyList Base.Tensor Base.BigSum Base.Ops Model.Base Model.SvdDecomp
     Proofs.SvdDecompProofs Proofs.SvdDecompPyth Proofs.SvdDecompError Proofs.SvdDecompRing Proofs.SvdDecompRingErr Proofs.SvdDecompErrorGen.
Import ListNotations.

Section RingErrGen.
Context {F : Type} (Op : fops F).
Hypothesis Rth : ring_theory (f0 Op) (f1 Op) (fadd Op) (fmul Op) (fsub Op) (fopp Op) (@eq F).
Add Ring Fr11g : Rth.
Notation fz := (f0 Op).
Notation fone := (f1 Op).
Infix "+f" := (fadd Op) (at level 50, left associativity).
Infix "-f" := (fsub Op) (at level 50, left associativity).
Infix "*f" := (fmul Op) (at level 40, left associativity).
Notation fsum := (fsumn Op).
Notation gg := (g Op).
Notation sidx := (sum_idx F fz (fadd Op)).
Notation sqf := (sq Op).

Variable svd : nat -> tensor F -> @svdans F.

Local Notation tr_err2 := (SvdDecompRingErr.tr_err2 Op).
Local Notation tr_core_discard := (SvdDecompRingErr.tr_core_discard Op svd).
Local Notation tr_discard := (SvdDecompRingErr.tr_discard Op svd).
Local Notation sum_idx_app_gen := (SvdDecompRingErr.sum_idx_app_gen Op Rth).
Local Notation sidx_swap := (SvdDecompRingErr.sidx_swap Op Rth).

Definition tr_core_proj (Xp : tensor F) (rk : list nat) : Prop :=
  let s0 := hd 0 (shape Xp) in
  let rest := tl (shape Xp) in
  let r0 := nth 0 rk 0 in
  let r1 := nth 1 rk 0 in
  let n_col := prod rest in
  let M := mk [s0; n_col] (data Xp) in
  step_proj Op M s0 n_col (r0 * r1) (svd 0 M) /\
  (let '(U, Sv, V) := svd_interface Op (svd 0 M) (r0 * r1) in
   loop_proj Op svd 1 rest (skipn 2 rk) r1 r0
     (data (transpose fz [1; 2; 0] (reshape [r0; r1; n_col] (sv_mul Op Sv V))))).

Theorem tr_core_error_identity_gen Xp rk cores :
  tr_core_proj Xp rk -> tr_core Op svd Xp rk = Ok cores -> tr_err2 Xp cores = tr_core_discard Xp rk.
Proof.
  unfold tr_core_proj, tr_core, tr_core_discard, tr_err2. intros Hok Hrun.
  destruct (shape Xp) as [|s0 rest] eqn:Es.
  { cbn [hd tl] in Hrun. cbv zeta in Hrun. destruct (_ <? _); [discriminate|].
    destruct (fact_shapes_ok _ _ _ _); [|discriminate].
    destruct (svd_interface _ _ _) as [[? ?] ?]. simpl in Hrun. discriminate. }
  cbn [hd tl] in Hok, Hrun |- *. cbv zeta in Hok, Hrun |- *.
  set (r0 := nth 0 rk 0) in *. set (r1 := nth 1 rk 0) in *. set (n_col := prod rest) in *.
  set (M := mk [s0; n_col] (data Xp)) in *.
  destruct (Nat.min s0 n_col <? r0 * r1); [discriminate|].
  destruct Hok as [Hstep Hloop].
  pose proof (svd_interface_proj Op Rth _ _ _ _ _ Hstep) as Hso.
  destruct (svd_interface Op (svd 0 M) (r0 * r1)) as [[U Sv] V] eqn:Esvd.
  destruct Hso as (HU & HV & HS & Horth & HWp).
  destruct (fact_shapes_ok s0 n_col (r0 * r1) (U, Sv, V)); [|discriminate].
  set (W := transpose fz [1; 2; 0] (reshape [r0; r1; n_col] (sv_mul Op Sv V))) in *.
  destruct (chain_loop Op svd 1 rest (skipn 2 rk) r1 r0 (data W)) as [cs|] eqn:Ecs; [|discriminate].
  cbn [rbind] in Hrun. injection Hrun as <-.
  rewrite <- (chain_loop_error_identity_gen Op Rth svd _ _ _ _ _ _ _ Hloop Ecs).
  set (factor0 := transpose fz [1; 0; 2] (reshape [s0; r0; r1] U)).
  assert (Hs0 : shape factor0 = [r0; s0; r1]) by reflexivity.
  (* the reconstruction of the remainder as a function of (kept triplet l = a*r1+b, column) *)
  set (T := fun l col => chain Op cs (l mod r1) (unravel rest col) (l / r1)).
  (* left-hand side as a double sum *)
  assert (HL : sidx (s0 :: rest) (fun idx => sqf (gg Xp idx -f tr_entry Op (factor0 :: cs) idx)) =
               fsum s0 (fun i => fsum n_col (fun col =>
                 sqf (gg M [i; col] -f fsum (r0 * r1) (fun l => gg U [i; l] *f T l col))))).
  { rewrite (sum_idx_cons F _ _ _ _ _ _ Rth). apply fsumn_ext. intros i Hi.
    unfold sum_idx. fold n_col. apply fsumn_ext. intros col Hcol.
    assert (Hidx' : inb rest (unravel rest col)) by (apply unravel_inb; exact Hcol).
    f_equal. f_equal.
    - unfold M, g, get. cbn [shape data]. rewrite Es. cbn [ravel prod fold_right].
      rewrite ravel_unravel by exact Hcol. f_equal. fold (prod rest). fold n_col. ring.
    - unfold tr_entry. cbn [hd]. rewrite Hs0. cbn [nth].
      rewrite (fsumn_mul Op Rth r0 r1). apply fsumn_ext. intros a Ha.
      rewrite (chain_cons Op). rewrite Hs0. cbn [nth]. apply fsumn_ext. intros b Hb.
      assert (Hl : a * r1 + b < r0 * r1) by nia.
      f_equal.
      + unfold factor0, g, transpose. rewrite get_tabulate by (cbn [permute map shape reshape nth]; apply inb3; assumption).
        unfold get, reshape. cbn [shape data scatter length seq map index_of Nat.eqb nth]. rewrite HU.
        cbn [ravel prod fold_right]. f_equal. ring.
      + unfold T. rewrite Nat.add_comm, Nat.mod_add by lia. rewrite Nat.mod_small by exact Hb.
        rewrite Nat.add_comm, Nat.div_add_l by lia. rewrite Nat.div_small by exact Hb. now rewrite Nat.add_0_r. }
  (* the error of the remainder as a double sum over (l, col) *)
  assert (HR : err2 Op rest r1 r0 (data W) cs =
               fsum (r0 * r1) (fun l => fsum n_col (fun col =>
                 sqf (nth l Sv fz *f gg V [l; col] -f T l col)))).
  { rewrite (fsumn_mul Op Rth r0 r1). unfold err2.
    rewrite (fsumn_exchange Op Rth r0 r1). apply fsumn_ext. intros b Hb.
    unfold sum_idx. fold n_col.
    rewrite (fsumn_exchange Op Rth r0 n_col). apply fsumn_ext. intros col Hcol. apply fsumn_ext. intros a Ha.
    assert (Hl : a * r1 + b < r0 * r1) by nia.
    rewrite ravel_unravel by exact Hcol. f_equal. f_equal.
    - transitivity (get fz W [b; col; a]).
      + unfold get. f_equal. unfold W, transpose. cbn [shape tabulate permute map reshape nth ravel prod fold_right].
        fold n_col. ring.
      + unfold W, transpose. rewrite get_tabulate by (cbn [permute map shape reshape nth]; apply inb3; assumption).
        cbn [scatter length seq map index_of Nat.eqb nth].
        transitivity (gg (sv_mul Op Sv V) [a * r1 + b; col]).
        * unfold g, get, reshape. cbn [shape data]. unfold sv_mul at 2. cbn [shape tabulate]. rewrite HV.
          cbn [ravel prod fold_right]. f_equal. ring.
        * unfold sv_mul. rewrite HV. rewrite (g_tab2 Op) by assumption. reflexivity.
    - unfold T. rewrite Nat.add_comm, Nat.mod_add by lia. rewrite Nat.mod_small by exact Hb.
      rewrite Nat.add_comm, Nat.div_add_l by lia. rewrite Nat.div_small by exact Hb. now rewrite Nat.add_0_r. }
  rewrite HL, HR.
  rewrite (pythagoras_mat Op Rth s0 n_col (r0 * r1) (fun i b => gg U [i; b]) (fun i col => gg M [i; col]) T Horth).
  cbv zeta. f_equal.
  - unfold disc. apply fsumn_ext. intros i Hi. apply fsumn_ext. intros col Hcol. f_equal. f_equal.
    apply fsumn_ext. intros b Hb. f_equal. apply HWp; assumption.
  - apply fsumn_ext. intros l Hl. apply fsumn_ext. intros col Hcol. f_equal. f_equal. apply HWp; assumption.
Qed.

Definition tr_proj (X : tensor F) (rank : rank_spec) (mode : nat) : Prop :=
  let n := ndim X in
  match validate_tr_rank n rank with
  | Ok rk0 =>
    tr_core_proj (if Nat.eqb mode 0 then X else transpose fz (rotate mode (seq 0 n)) X)
                 (if Nat.eqb mode 0 then rk0 else tr_rotate_rank n mode rk0)
  | Err => True
  end.

Theorem tensor_ring_error_identity_gen X rank mode cores :
  tr_proj X rank mode -> tensor_ring Op svd X rank mode = Ok cores ->
  tr_err2 X cores = tr_discard X rank mode.
Proof.
  unfold tr_proj, tr_discard, tensor_ring. cbv zeta. set (n := ndim X).
  destruct (validate_tr_rank n rank) as [rk0|]; [|discriminate]. cbn [rbind].
  destruct (mode <? n) eqn:Emn; [|discriminate]. cbn [negb]. apply Nat.ltb_lt in Emn.
  destruct (Nat.eqb_spec mode 0) as [->|Hm0].
  - intros Hok Hrun. destruct (tr_core Op svd X rk0) as [fs|] eqn:E; [|discriminate].
    cbn [rbind] in Hrun. injection Hrun as <-. exact (tr_core_error_identity_gen X rk0 fs Hok E).
  - set (Xp := transpose fz (rotate mode (seq 0 n)) X). set (rk := tr_rotate_rank n mode rk0).
    intros Hok Hrun.
    destruct (tr_core Op svd Xp rk) as [fs|] eqn:E; [|discriminate].
    cbn [rbind] in Hrun. injection Hrun as <-.
    rewrite <- (tr_core_error_identity_gen Xp rk fs Hok E).
    destruct (tr_core_bonds Op svd Xp rk fs E) as [Hb Hlen].
    assert (HsXp : shape Xp = rotate mode (shape X)).
    { unfold Xp, transpose. cbn [shape tabulate]. unfold n, ndim. apply permute_rotate. }
    assert (Hlfs : length fs = n).
    { rewrite Hlen, HsXp. unfold rotate. destruct (skipn mode (shape X) ++ firstn mode (shape X)) eqn:Er.
      - apply (f_equal (@length nat)) in Er. rewrite app_length, skipn_length, firstn_length in Er.
        cbn [length] in Er. unfold n, ndim in *. lia.
      - apply (f_equal (@length nat)) in Er. rewrite app_length, skipn_length, firstn_length in Er.
        cbn [length tl] in *. unfold n, ndim in *. lia. }
    set (A := firstn (n - mode) fs). set (B := lastn mode fs).
    assert (EB : B = skipn (n - mode) fs) by (unfold B, lastn; rewrite Hlfs; reflexivity).
    assert (Efs : fs = A ++ B) by (rewrite EB; unfold A; symmetry; apply firstn_skipn).
    rewrite Efs in Hb. destruct (bonds_app _ _ _ _ Hb) as (m & HbA & HbB).
    assert (HlA : length A = n - mode) by (unfold A; rewrite firstn_length; lia).
    assert (HlB : length B = mode) by (rewrite EB, skipn_length; lia).
    assert (HneA : A <> []) by (intros EA; rewrite EA in HlA; cbn [length] in HlA; lia).
    assert (HneB : B <> []) by (intros EB'; rewrite EB' in HlB; cbn [length] in HlB; lia).
    set (sB := firstn mode (shape X)). set (sA := skipn mode (shape X)).
    assert (HlsB : length sB = mode) by (unfold sB; rewrite firstn_length; unfold n, ndim in Emn; lia).
    unfold tr_err2. rewrite HsXp. unfold rotate. fold sA sB.
    rewrite <- (firstn_skipn mode (shape X)) at 1. fold sA sB.
    rewrite !sum_idx_app_gen. rewrite sidx_swap.
    apply sum_idx_ext. intros iA HiA. apply sum_idx_ext. intros iB HiB.
    assert (Hidx : inb (shape X) (iB ++ iA)).
    { rewrite <- (firstn_skipn mode (shape X)). fold sA sB. apply inb_app; assumption. }
    assert (HliB : length iB = mode) by (rewrite (inb_length _ _ HiB); exact HlsB).
    assert (Hrot : rotate mode (iB ++ iA) = iA ++ iB).
    { unfold rotate. rewrite <- HliB. rewrite skipn_app_len, firstn_app_len. reflexivity. }
    f_equal. f_equal.
    + (* X (iB ++ iA) = Xp (iA ++ iB) *)
      unfold Xp, g, transpose. rewrite get_tabulate.
      * f_equal. rewrite <- Hrot. pose proof (inb_length _ _ Hidx) as Hli. fold (ndim X) in Hli. fold n in Hli.
        rewrite <- Hli. symmetry. apply scatter_rotate. lia.
      * fold (ndim X). fold n. change (permute 0 (rotate mode (seq 0 n)) (shape X)) with (shape Xp).
        rewrite HsXp. rewrite <- Hrot. apply inb_rotate. exact Hidx.
    + rewrite Efs. apply (tr_entry_rotate Op Rth A B (nth 0 rk 0) m iA iB); auto.
      * rewrite (inb_length _ _ HiA). unfold sA. rewrite skipn_length. unfold n, ndim in *. lia.
      * lia.
Qed.

Lemma tr_orth_proj X rank mode : SvdDecompRingErr.tr_orth Op svd X rank mode -> tr_proj X rank mode.
Proof.
  unfold SvdDecompRingErr.tr_orth, tr_proj. cbv zeta. destruct (validate_tr_rank (ndim X) rank) as [rk0|]; [|trivial].
  unfold SvdDecompRingErr.tr_core_orth, tr_core_proj. cbv zeta. intros [H1 H2]. split.
  - now apply (step_orth_proj Op Rth).
  - destruct (svd_interface Op _ _) as [[U Sv] V]. now apply (loop_orth_proj Op Rth svd).
Qed.

End RingErrGen.
