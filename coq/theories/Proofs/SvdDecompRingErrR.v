(* C09, tensor ring over the reals: under the full SVD contract for every call of the run the squared error is the
   discarded squared singular values of the first unfolding (rank[0]*rank[1] kept) plus those of the working
   unfoldings of the sequential loop; in particular it is at least each of them. *)
From Coq Require Import List Arith Lia Bool Reals Lra RealField.
From TLV Require Import Base.Shape Base.PyList Base.Tensor Base.BigSum Base.Ops Model.Base Model.SvdDecomp
     Proofs.SvdDecompProofs Proofs.SvdDecompProofsR Proofs.SvdDecompPyth Proofs.SvdDecompError Proofs.SvdDecompTails
     Proofs.SvdDecompErrorR Proofs.SvdDecompRing Proofs.SvdDecompRingErr.
Import ListNotations.
Local Open Scope R_scope.

Section Run.
Variable svd : nat -> tensor R -> @svdans R.

Definition tr_core_full_R (Xp : tensor R) (rk : list nat) : Prop :=
  let s0 := hd 0%nat (shape Xp) in
  let rest := tl (shape Xp) in
  let r0 := nth 0 rk 0%nat in
  let r1 := nth 1 rk 0%nat in
  let n_col := prod rest in
  let M := mk [s0; n_col] (data Xp) in
  svd_full_contract M s0 n_col (r0 * r1) (svd 0%nat M) /\
  (let '(U, Sv, V) := svd_interface Rops (svd 0%nat M) (r0 * r1) in
   loop_full_R svd 1 rest (skipn 2 rk) r1 r0
     (data (transpose 0 [1; 2; 0]%nat (reshape [r0; r1; n_col] (sv_mul Rops Sv V))))).

(* discarded squared singular values, call by call *)
Definition tr_core_tail_list (Xp : tensor R) (rk : list nat) : list R :=
  let s0 := hd 0%nat (shape Xp) in
  let rest := tl (shape Xp) in
  let r0 := nth 0 rk 0%nat in
  let r1 := nth 1 rk 0%nat in
  let n_col := prod rest in
  let M := mk [s0; n_col] (data Xp) in
  let '(_, Sv0, _) := svd 0%nat M in
  let '(U, Sv, V) := svd_interface Rops (svd 0%nat M) (r0 * r1) in
  tail2 Rops (r0 * r1) Sv0 ::
  loop_tail_list svd 1 rest (skipn 2 rk) r1 r0
    (data (transpose 0 [1; 2; 0]%nat (reshape [r0; r1; n_col] (sv_mul Rops Sv V)))).

Theorem tr_core_error_sigma_R Xp rk cores :
  tr_core_full_R Xp rk -> tr_core Rops svd Xp rk = Ok cores ->
  tr_err2 Rops Xp cores = Rsum (tr_core_tail_list Xp rk).
Proof.
  intros Hfull Hrun.
  assert (Horth : tr_core_orth Rops svd Xp rk).
  { unfold tr_core_full_R, tr_core_orth in *. cbv zeta in *. destruct Hfull as [H1 H2]. split.
    - apply step_full_orth. apply svd_full_contract_step_full. exact H1.
    - destruct (svd_interface Rops _ _) as [[U Sv] V].
      apply (loop_pred_impl Rops svd _ _ (step_full_orth Rops)). apply loop_full_R_full. exact H2. }
  rewrite (tr_core_error_identity Rops Rops_ring svd Xp rk cores Horth Hrun).
  unfold tr_core_discard, tr_core_tail_list, tr_core_full_R in *. cbv zeta in *.
  destruct Hfull as [H1 H2].
  destruct (svd 0%nat _) as [[U0 Sv0] V0] eqn:Es.
  pose proof (disc_tail Rops Rops_ring _ _ _ _ _ _ _ (svd_full_contract_step_full _ _ _ _ _ H1)) as Hd.
  destruct (svd_interface Rops (U0, Sv0, V0) _) as [[U Sv] V].
  rewrite Hd. cbn [Rsum fold_right fadd Rops]. f_equal. change (f0 Rops) with 0.
  rewrite (loop_discard_tails Rops Rops_ring svd _ _ _ _ _ _ (loop_full_R_full svd _ _ _ _ _ _ H2)).
  apply loop_tails_list.
Qed.

Definition tr_full_R (X : tensor R) (rank : rank_spec) (mode : nat) : Prop :=
  let n := ndim X in
  match validate_tr_rank n rank with
  | Ok rk0 =>
    tr_core_full_R (if Nat.eqb mode 0 then X else transpose 0 (rotate mode (seq 0 n)) X)
                   (if Nat.eqb mode 0 then rk0 else tr_rotate_rank n mode rk0)
  | Err => True
  end.
Definition tr_tail_list (X : tensor R) (rank : rank_spec) (mode : nat) : list R :=
  let n := ndim X in
  match validate_tr_rank n rank with
  | Ok rk0 =>
    tr_core_tail_list (if Nat.eqb mode 0 then X else transpose 0 (rotate mode (seq 0 n)) X)
                      (if Nat.eqb mode 0 then rk0 else tr_rotate_rank n mode rk0)
  | Err => []
  end.

Lemma tr_core_full_orth Xp rk : tr_core_full_R Xp rk -> tr_core_orth Rops svd Xp rk.
Proof.
  unfold tr_core_full_R, tr_core_orth. cbv zeta. intros [H1 H2]. split.
  - apply step_full_orth. apply svd_full_contract_step_full. exact H1.
  - destruct (svd_interface Rops _ _) as [[U Sv] V].
    apply (loop_pred_impl Rops svd _ _ (step_full_orth Rops)). apply loop_full_R_full. exact H2.
Qed.

Theorem tensor_ring_error_sigma_R X rank mode cores :
  tr_full_R X rank mode -> tensor_ring Rops svd X rank mode = Ok cores ->
  tr_err2 Rops X cores = Rsum (tr_tail_list X rank mode) /\
  (forall t, In t (tr_tail_list X rank mode) -> t <= tr_err2 Rops X cores).
Proof.
  intros Hfull Hrun.
  assert (Horth : tr_orth Rops svd X rank mode).
  { unfold tr_full_R, tr_orth in *. cbv zeta in *. destruct (validate_tr_rank (ndim X) rank); [|exact I].
    apply tr_core_full_orth. exact Hfull. }
  pose proof (tensor_ring_error_identity Rops Rops_ring svd X rank mode cores Horth Hrun) as Hid.
  assert (Hs : tr_err2 Rops X cores = Rsum (tr_tail_list X rank mode)).
  { rewrite Hid. unfold tr_discard, tr_tail_list, tr_full_R, tensor_ring in *. cbv zeta in *.
    destruct (validate_tr_rank (ndim X) rank) as [rk0|]; [|discriminate]. cbn [rbind] in Hrun.
    destruct (negb (mode <? ndim X)); [discriminate|].
    destruct (tr_core Rops svd _ _) as [fs|] eqn:E; [|discriminate].
    rewrite <- (tr_core_error_sigma_R _ _ fs Hfull E).
    symmetry. apply (tr_core_error_identity Rops Rops_ring svd _ _ fs (tr_core_full_orth _ _ Hfull) E). }
  split; [exact Hs|]. intros t Ht. rewrite Hs. apply Rsum_ge_each; [|exact Ht].
  unfold tr_tail_list. cbv zeta. destruct (validate_tr_rank (ndim X) rank); [|constructor].
  unfold tr_core_tail_list. cbv zeta.
  destruct (svd 0%nat _) as [[U0 Sv0] V0]. destruct (svd_interface Rops _ _) as [[U Sv] V].
  constructor; [apply tail2_nonneg | apply loop_tail_list_nonneg].
Qed.

End Run.
