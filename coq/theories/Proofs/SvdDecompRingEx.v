(* C09: non-vacuity of the tensor-ring rank-condition theorems at ORDER 3 with a ring bond r0 = 2 > 1 and one genuine step of the
   sequential loop: the zero tensor of shape (2,2,2), request (2,1,2,2), LAPACK answering (I, [0; 0], [e0; e1]) to both calls.
   No sign of svd_flip has to be evaluated: the remainder of a call is U^T M (svd_interface_orth), hence zero. *)
From Coq Require Import List Arith Lia Bool Reals Lra RealField.
From TLV Require Import Base.Shape Base.PyList Base.Tensor Base.BigSum Base.Ops Base.RSum Model.Base Model.SvdDecomp
     Proofs.SvdDecompProofs Proofs.SvdDecompProofsR Proofs.SvdDecompPyth Proofs.SvdDecompError Proofs.SvdDecompTails Proofs.SvdDecompErrorR Proofs.SvdDecompTuckerErr Proofs.SvdDecompHosvdBound Proofs.SvdDecompPartial
     Proofs.SvdDecompRankCond Proofs.SvdDecompTTUpper Proofs.SvdDecompRingRank Proofs.SvdDecompRingUpper.
Import ListNotations.
Local Open Scope R_scope.

Definition zX : tensor R := mk [2; 2; 2]%nat [0; 0; 0; 0; 0; 0; 0; 0].
Definition zans : @svdans R := (mk [2; 2]%nat [1; 0; 0; 1], [0; 0], mk [2; 4]%nat [1; 0; 0; 0; 0; 1; 0; 0]).

Lemma zans_contract (W : list R) : (forall k, (k < 8)%nat -> nth k W 0 = 0) -> svd_sorted_contract (mk [2; 4]%nat W) 2 4 2 zans.
Proof.
  intros HW. split.
  - unfold svd_full_contract, zans. cbn [length]. split; [lia|]. split; [reflexivity|]. split; [reflexivity|].
    assert (C2 : forall x, (x < 2)%nat -> x = 0%nat \/ x = 1%nat) by (intros; lia).
    assert (C4 : forall x, (x < 4)%nat -> x = 0%nat \/ x = 1%nat \/ x = 2%nat \/ x = 3%nat) by (intros; lia).
    split; [|split].
    + intros j l Hj Hl. destruct (C2 j Hj) as [-> | ->]; destruct (C2 l Hl) as [-> | ->]; unfold fsumn, g, get; cbn; lra.
    + intros j l Hj Hl. destruct (C2 j Hj) as [-> | ->]; destruct (C2 l Hl) as [-> | ->]; unfold fsumn, g, get; cbn; lra.
    + intros i c Hi Hc. rewrite g_mk2. rewrite HW by nia.
      destruct (C2 i Hi) as [-> | ->]; destruct (C4 c Hc) as [-> | [-> | [-> | ->]]]; unfold fsumn, g, get; cbn; lra.
  - unfold sorted_nonneg, zans. cbn [snd3 length]. intros l l' H1 H2.
    assert (El' : l' = 0%nat \/ l' = 1%nat) by lia. destruct El' as [-> | ->].
    + assert (l = 0%nat) by lia. subst. cbn. lra.
    + assert (El : l = 0%nat \/ l = 1%nat) by lia. destruct El as [-> | ->]; cbn; lra.
Qed.

(* the remainder of a call answered by zans is the zero array *)
Lemma zans_remainder_zero (r0 r1 : nat) : (r0 * r1 = 2)%nat ->
  let '(U, Sv, V) := svd_interface Rops zans 2 in
  forall k, (k < 8)%nat -> nth k (data (transpose 0 [1; 2; 0]%nat (reshape [r0; r1; 4%nat] (sv_mul Rops Sv V)))) 0 = 0.
Proof.
  intros Hr. pose proof (svd_interface_orth Rops Rops_ring _ _ _ _ _
     (step_full_orth Rops _ _ _ _ _ (svd_full_contract_step_full _ _ _ _ _ (proj1 (zans_contract (repeat 0 8) ltac:(intros k Hk; do 8 (destruct k as [|k]; [reflexivity|]); lia)))))) as H.
  destruct (svd_interface Rops zans 2) as [[U' S'] V'] eqn:E.
  destruct H as (HU' & HV' & HS' & OU' & Hrem).
  intros k Hk.
  (* k = (b * 4 + col) * r0 + a *)
  assert (Hr0 : (0 < r0)%nat) by nia.
  set (a := (k mod r0)%nat). set (q := (k / r0)%nat). set (col := (q mod 4)%nat). set (b := (q / 4)%nat).
  assert (Ha : (a < r0)%nat) by (apply Nat.mod_upper_bound; lia).
  assert (Hcol : (col < 4)%nat) by (apply Nat.mod_upper_bound; lia).
  assert (Ek : k = ((b * 4 + col) * r0 + a)%nat).
  { unfold a, b, col, q. pose proof (Nat.div_mod k r0 ltac:(lia)). pose proof (Nat.div_mod (k / r0) 4 ltac:(lia)). nia. }
  assert (Hb : (b < r1)%nat).
  { unfold b, q. apply Nat.div_lt_upper_bound; [lia|]. apply Nat.div_lt_upper_bound; [lia|]. nia. }
  assert (HV2 : shape V' = [(r0 * r1)%nat; 4%nat]) by (rewrite Hr; exact HV').
  rewrite Ek. rewrite (w1_entry r0 r1 4 S' V' b col a HV2 Hb Hcol Ha).
  assert (Hl : (a * r1 + b < 2)%nat) by nia.
  pose proof (Hrem (a * r1 + b)%nat col Hl Hcol) as Hq. cbn [fmul f0 Rops] in Hq. rewrite <- Hq.
  apply (fsumn_zero Rops Rops_ring). intros i Hi. cbn [fmul f0 Rops]. rewrite g_mk2.
  replace (nth (i * 4 + col) (repeat 0 8) 0) with 0; [ring|].
  assert (Hi4 : (i * 4 + col < 8)%nat) by lia. revert Hi4. generalize (i * 4 + col)%nat. intros k0 Hk0.
  do 8 (destruct k0 as [|k0]; [reflexivity|]). lia.
Qed.

Lemma zX_zero : forall k, (k < 8)%nat -> nth k (data zX) 0 = 0.
Proof. intros k Hk. do 8 (destruct k as [|k]; [reflexivity|]). lia. Qed.

(* order 3, ring bond r0 = 2 > 1, one genuine loop step: all hypotheses of C09_tensor_ring_exact_from_x_rank_condition hold *)
Example tr_rank_condition_order3_satisfiable :
  let svd := fun (_ : nat) (_ : tensor R) => zans in
  tr_sorted svd zX (inr [2; 1; 2; 2]%nat) 0 /\ tr_x_rank_condition svd zX (inr [2; 1; 2; 2]%nat) 0.
Proof.
  cbv zeta. pose proof (zans_remainder_zero 2 1 eq_refl) as Hz. split.
  - unfold tr_sorted. cbv zeta. cbn [validate_tr_rank ndim shape zX length Nat.add Nat.eqb hd last andb].
    unfold tr_core_sorted. cbv zeta. cbn [shape zX hd tl nth].
    split; [exact (zans_contract (data zX) zX_zero)|].
    change (2 * 1)%nat with 2%nat. change (prod [2; 2]%nat) with 4%nat.
    destruct (svd_interface Rops zans 2) as [[U' S'] V'].
    cbn [skipn loop_pred]. cbv zeta. split.
    + exact (zans_contract _ Hz).
    + destruct (svd_interface Rops zans _) as [[U2 S2] V2]. exact I.
  - unfold tr_x_rank_condition. cbv zeta. cbn [validate_tr_rank ndim shape zX length Nat.add Nat.eqb hd last andb].
    split; [cbn; lia|].
    unfold tr_core_x_rank_condition. cbv zeta. cbn [shape zX hd tl nth]. split.
    + exact (factors_rows _ 2 4).
    + change (2 * 1)%nat with 2%nat. change (prod [2; 2]%nat) with 4%nat.
      destruct (svd_interface Rops zans 2) as [[U' S'] V'].
      cbn [skipn]. rewrite loop_rank_list_cons. cbv zeta.
      destruct (svd_interface Rops zans _) as [[U2 S2] V2].
      cbn [x_ring_factors_from loop_rank_list]. split; [|exact I].
      exists 1%nat. split; [unfold prod; cbn [fold_right hd]; lia|].
      exists (fun _ _ => 0), (fun _ _ => 0). intros i c Hi Hc. rewrite g_mk2.
      unfold prod in *. cbn [fold_right] in *. rewrite zX_zero by nia. unfold fsumn. cbn. lra.
Qed.
