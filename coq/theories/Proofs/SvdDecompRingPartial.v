(* C09, tensor ring lower bound as a PARTIAL theorem (Eckart-Young as the named hypothesis eckart_young_stmt):
   cutting the ring of returned cores after the first b cores writes the contraction as a matrix product with inner
   dimension (closing bond) * (bond b), hence the squared error is at least the discarded tail, at that many kept
   triplets, of the sequential unfolding (modes 0..b-1 | modes b..n-1) of X.  No contract on the run's own oracle. *)
From Coq Require Import List Arith Lia Bool Reals Lra RealField.
From TLV Require Import Base.Shape Base.PyList Base.Tensor Base.BigSum Base.Ops Model.Base Model.SvdDecomp
     Proofs.SvdDecompProofs Proofs.SvdDecompProofsR Proofs.SvdDecompPyth Proofs.SvdDecompError Proofs.SvdDecompTails
     Proofs.SvdDecompErrorR Proofs.SvdDecompRing Proofs.SvdDecompRingErr Proofs.SvdDecompHosvdBound Proofs.SvdDecompPartial.
Import ListNotations.
Local Open Scope R_scope.

Lemma bonds_app_conv {F} l (A : list (tensor F)) : forall B m r, bonds l A m -> bonds m B r -> bonds l (A ++ B) r.
Proof.
  revert l. induction A as [|G A IH]; intros l B m r Ha Hb.
  - cbn [bonds] in Ha. subst. exact Hb.
  - cbn [bonds app] in *. destruct Ha as [H1 H2]. split; [exact H1|]. eapply IH; eassumption.
Qed.

Theorem ring_error_lower_local (X : tensor R) (cores : list (tensor R)) l b aX :
  bonds l cores l -> length cores = ndim X -> (0 < b)%nat -> (b < ndim X)%nat ->
  ey_for (x_unfolding X b) (prod (firstn b (shape X))) (prod (skipn b (shape X)))
         (l * nth 2 (shape (nth (b - 1) cores (mk [] []))) 0%nat) aX ->
  tail2 Rops (l * nth 2 (shape (nth (b - 1) cores (mk [] []))) 0%nat) (snd3 aX) <= tr_err2 Rops X cores.
Proof.
  intros Hb Hlen Hb0 Hbn Hc.
  set (s := shape X) in *. set (s1 := firstn b s) in *. set (s2 := skipn b s) in *.
  unfold ndim in Hbn, Hlen. fold s in Hbn, Hlen.
  set (A := firstn b cores). set (B := skipn b cores).
  assert (Ecores : cores = A ++ B) by (symmetry; apply firstn_skipn).
  assert (HlA : length A = b) by (unfold A; rewrite firstn_length; lia).
  rewrite Ecores in Hb. destruct (bonds_app _ _ _ _ Hb) as (m & HbA & HbB).
  assert (HneA : A <> []) by (intros E; rewrite E in HlA; simpl in HlA; lia).
  assert (Hm : nth 2 (shape (nth (b - 1) cores (mk [] []))) 0%nat = m).
  { rewrite Ecores. rewrite app_nth1 by lia. rewrite <- HlA at 1. apply (bonds_last_right A l m HneA HbA). }
  rewrite Hm in *.
  set (M := x_unfolding X b) in *.
  set (P := fun row q => chain Rops A (q / m) (unravel s1 row) (q mod m)).
  set (Q := fun q col => chain Rops B (q mod m) (unravel s2 col) (q / m)).
  pose proof (Hc P Q) as Hey.
  eapply Rle_trans; [exact Hey|]. apply Req_le.
  unfold tr_err2. fold s. rewrite <- (firstn_skipn b s). fold s1 s2. rewrite sum_idx_app.
  unfold sum_idx. apply (fsumn_ext Rops). intros row Hrow. apply (fsumn_ext Rops). intros col Hcol.
  assert (Hi1 : inb s1 (unravel s1 row)) by (apply unravel_inb; exact Hrow).
  assert (Hi2 : inb s2 (unravel s2 col)) by (apply unravel_inb; exact Hcol).
  f_equal. cbn [fsub Rops]. f_equal.
  - unfold M, x_unfolding, g, get. cbn [shape data]. fold s s1 s2. rewrite <- (firstn_skipn b s) at 1. fold s1 s2.
    rewrite ravel_app by (rewrite (inb_length _ _ Hi1); reflexivity).
    rewrite !ravel_unravel by assumption. cbn [ravel prod fold_right]. f_equal. lia.
  - unfold tr_entry. rewrite Ecores.
    assert (Hhd : nth 0 (shape (hd (mk [] []) (A ++ B))) 0%nat = l).
    { destruct A as [|G A']; [contradiction|]. cbn [app hd]. cbn [bonds] in HbA. tauto. }
    rewrite Hhd. rewrite (fsumn_mul Rops Rops_ring l m). apply (fsumn_ext Rops). intros a Ha.
    rewrite (chain_app Rops Rops_ring A l m B a _ _ a HbA Ha).
    + apply (fsumn_ext Rops). intros c Hcm. unfold P, Q.
      rewrite Nat.add_comm, Nat.mod_add by lia. rewrite Nat.mod_small by exact Hcm.
      rewrite Nat.add_comm, Nat.div_add_l by lia. rewrite Nat.div_small by exact Hcm. rewrite Nat.add_0_r. reflexivity.
    + rewrite (inb_length _ _ Hi1). unfold s1. rewrite firstn_length. lia.
Qed.

(* all hypotheses of the local lower bound discharged jointly: X = diag(2, 1), a ring of two cores with closing bond 1
   (the cores tensor_ring returns for the request (1,1,1), start mode 0), the cut after one mode *)
Example ring_error_lower_nonvacuous :
  let cores := [mk [1; 2; 1]%nat [1; 0]; mk [1; 2; 1]%nat [2; 0]] in
  bonds 1 cores 1 /\ length cores = ndim ey_M /\
  svd_sorted_contract (x_unfolding ey_M 1) 2 2 (1 * 1) ey_a /\
  tail2 Rops (1 * 1) (snd3 ey_a) <= tr_err2 Rops ey_M cores.
Proof.
  intros cores. split; [cbn; auto|]. split; [reflexivity|]. split; [exact ey_instance_contract|].
  change (tail2 Rops (1 * nth 2 (shape (nth (1 - 1) cores (mk [] []))) 0%nat) (snd3 ey_a) <= tr_err2 Rops ey_M cores).
  apply (ring_error_lower_local ey_M cores 1%nat 1%nat ey_a); [cbn; auto | reflexivity | lia | cbn; lia | exact ey_instance_holds].
Qed.

Section TRPartial.
Variable svd : nat -> tensor R -> @svdans R.

(* the cores returned by tensor_ring close into a ring, one core per mode *)
Lemma tensor_ring_bonds X rank mode cores : tensor_ring Rops svd X rank mode = Ok cores ->
  exists l, bonds l cores l /\ length cores = ndim X.
Proof.
  unfold tensor_ring. cbv zeta. set (n := ndim X).
  destruct (validate_tr_rank n rank) as [rk0|]; [|discriminate]. cbn [rbind].
  destruct (mode <? n) eqn:Emn; [|discriminate]. cbn [negb]. apply Nat.ltb_lt in Emn.
  destruct (Nat.eqb_spec mode 0) as [->|Hm0].
  - intros Hrun. destruct (tr_core Rops svd X rk0) as [fs|] eqn:E; [|discriminate].
    cbn [rbind] in Hrun. injection Hrun as <-. destruct (tr_core_bonds Rops svd X rk0 fs E) as [Hb Hlen].
    exists (nth 0 rk0 0%nat). split; [exact Hb|]. rewrite Hlen. unfold n, ndim in *. destruct (shape X); [simpl in Emn; lia | reflexivity].
  - set (Xp := transpose (f0 Rops) (rotate mode (seq 0 n)) X). set (rk := tr_rotate_rank n mode rk0).
    intros Hrun. destruct (tr_core Rops svd Xp rk) as [fs|] eqn:E; [|discriminate].
    cbn [rbind] in Hrun. injection Hrun as <-.
    destruct (tr_core_bonds Rops svd Xp rk fs E) as [Hb Hlen].
    assert (HsXp : shape Xp = rotate mode (shape X)).
    { unfold Xp, transpose. cbn [shape tabulate]. unfold n, ndim. apply permute_rotate. }
    assert (Hlfs : length fs = n).
    { rewrite Hlen, HsXp. unfold rotate. destruct (skipn mode (shape X) ++ firstn mode (shape X)) eqn:Er.
      - apply (f_equal (@length nat)) in Er. rewrite app_length, skipn_length, firstn_length in Er.
        cbn [length] in Er. unfold n, ndim in *. lia.
      - apply (f_equal (@length nat)) in Er. rewrite app_length, skipn_length, firstn_length in Er.
        cbn [length tl] in *. unfold n, ndim in *. lia. }
    set (A := firstn (n - mode) fs). set (B := lastn mode fs).
    assert (EB : B = skipn (n - mode) fs) by (unfold B, lastn; rewrite Hlfs; reflexivity).
    assert (Efs : fs = A ++ B) by (rewrite EB; unfold A; symmetry; apply firstn_skipn).
    rewrite Efs in Hb. destruct (bonds_app _ _ _ _ Hb) as (m & HbA & HbB).
    exists m. split; [eapply bonds_app_conv; eassumption|].
    rewrite app_length. apply (f_equal (@length _)) in Efs. rewrite app_length in Efs. fold n. lia.
Qed.

(* tensor_ring: for every cut after b modes *)
Theorem tensor_ring_error_lower_partial (eckart_young : eckart_young_stmt) X rank mode cores :
  tensor_ring Rops svd X rank mode = Ok cores ->
  exists l, bonds l cores l /\
    forall b aX, (0 < b)%nat -> (b < ndim X)%nat ->
      svd_sorted_contract (x_unfolding X b) (prod (firstn b (shape X))) (prod (skipn b (shape X)))
                        (l * nth 2 (shape (nth (b - 1) cores (mk [] []))) 0%nat) aX ->
      tail2 Rops (l * nth 2 (shape (nth (b - 1) cores (mk [] []))) 0%nat) (snd3 aX) <= tr_err2 Rops X cores.
Proof.
  intros Hrun. destruct (tensor_ring_bonds X rank mode cores Hrun) as (l & Hb & Hlen).
  exists l. split; [exact Hb|]. intros b aX H0 H1 Hc.
  exact (ring_error_lower_local X cores l b aX Hb Hlen H0 H1 (eckart_young _ _ _ _ _ Hc)).
Qed.

End TRPartial.
