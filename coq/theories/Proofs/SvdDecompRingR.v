(* C09, tensor ring over the reals: tensor_ring (every start mode) is exact under the plain SVD contract
   (orthonormal U, U diag(S) Vh = query, discarded singular values zero) for every call of the run. *)
From Coq Require Import List Arith Lia Bool Reals Lra RealField.
From TLV Require Import Base.Shape Base.PyList Base.Tensor Base.BigSum Base.Ops Model.Base Model.SvdDecomp
     Proofs.SvdDecompProofs Proofs.SvdDecompProofsR Proofs.SvdDecompRing.
Import ListNotations.
Local Open Scope R_scope.

Section Run.
Variable svd : nat -> tensor R -> @svdans R.

Definition tr_core_contract (Xp : tensor R) (rk : list nat) : Prop :=
  let s0 := hd 0%nat (shape Xp) in
  let rest := tl (shape Xp) in
  let r0 := nth 0 rk 0%nat in
  let r1 := nth 1 rk 0%nat in
  let n_col := prod rest in
  let M := mk [s0; n_col] (data Xp) in
  svd_contract M s0 n_col (r0 * r1) (svd 0%nat M) /\
  (let '(U, Sv, V) := svd_interface Rops (svd 0%nat M) (r0 * r1) in
   loop_contract svd 1 rest (skipn 2 rk) r1 r0
     (data (transpose 0 [1; 2; 0]%nat (reshape [r0; r1; n_col] (sv_mul Rops Sv V))))).

Lemma tr_core_contract_ok Xp rk : tr_core_contract Xp rk -> tr_core_ok Rops svd Xp rk.
Proof.
  unfold tr_core_contract, tr_core_ok. cbv zeta. intros [H1 H2]. split.
  - apply svd_contract_step_ok. exact H1.
  - destruct (svd_interface Rops _ _) as [[U Sv] V].
    exact (loop_pred_impl Rops svd _ _ svd_contract_step_ok _ _ _ _ _ _ H2).
Qed.

Definition tr_contract (X : tensor R) (rank : rank_spec) (mode : nat) : Prop :=
  let n := ndim X in
  match validate_tr_rank n rank with
  | Ok rk0 =>
    tr_core_contract (if Nat.eqb mode 0 then X else transpose 0 (rotate mode (seq 0 n)) X)
                     (if Nat.eqb mode 0 then rk0 else tr_rotate_rank n mode rk0)
  | Err => True
  end.

Theorem tensor_ring_exact_R X rank mode cores :
  tr_contract X rank mode -> tensor_ring Rops svd X rank mode = Ok cores ->
  forall idx, inb (shape X) idx -> tr_entry Rops cores idx = gR X idx.
Proof.
  intros H. apply (tensor_ring_exact Rops Rops_ring svd). revert H. unfold tr_contract, tr_ok. cbv zeta.
  destruct (validate_tr_rank (ndim X) rank); [|trivial]. apply tr_core_contract_ok.
Qed.

End Run.
