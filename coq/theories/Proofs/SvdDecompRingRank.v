(* C09, tensor ring: "rank condition => per-run contract => exactness", end to end.
   The sequential loop of tensor_ring is the loop of tensor_train with a trailing bond r0 carried along on the column side.
   Frame invariant as in Proofs/SvdDecompTTUpper.v, but relative to an arbitrary reference array Y (p0 x sizes... x r0,
   row-major): the working array of step k is P^T Y_[k] for a frame P with orthonormal columns.  For the ring the reference
   is the remainder W1 of the first SVD (identity frame); its unfoldings are then related to those of X itself:
        W1_[k] = sum over the r0 column blocks a of (U_a (x) I)^T X_<k+1>   ==>   rank W1_[k] <= r0 * rank X_<k+1>. *)
From Coq Require Import List Arith Lia Bool Reals Lra RealField.
From TLV Require Import Base.Shape Base.PyList Base.Tensor Base.BigSum Base.Ops Base.RSum Model.Base Model.SvdDecomp Model.SvdDecompRingReq
     Proofs.SvdDecompProofs Proofs.SvdDecompProofsR Proofs.SvdDecompPyth Proofs.SvdDecompError Proofs.SvdDecompTails
     Proofs.SvdDecompErrorR Proofs.SvdDecompTuckerErr Proofs.SvdDecompHosvdBound Proofs.SvdDecompRing Proofs.SvdDecompRingR
     Proofs.SvdDecompPartial Proofs.SvdDecompRankCond Proofs.SvdDecompEckartYoung Proofs.SvdDecompTTUpper Proofs.SvdDecompTTRank.
Import ListNotations.
Local Open Scope R_scope.

(* ------------------------------------------------------------------ the loop with a trailing bond, generic reference array *)
Section Gen.
Variable svd : nat -> tensor R -> @svdans R.
Variable Yd : list R.
Variable r0 : nat.

(* the reference array viewed as (p * n) x (prod rest * r0) has rank at most the bond the run realises, step by step *)
Fixpoint y_factors_from (p : nat) (sizes : list nat) (rs : list nat) : Prop :=
  match sizes with
  | [] => True
  | n :: rest =>
    match rest with
    | [] => True
    | _ :: _ =>
      match rs with
      | [] => True
      | r :: rs' =>
        factors_through (mk [(p * n)%nat; (prod rest * r0)%nat] Yd) (p * n) (prod rest * r0) r /\
        y_factors_from (p * n) rest rs'
      end
    end
  end.

Lemma loop_contract_from_rank_gen : forall sizes k ranks rk W P p,
  (0 < prod sizes * r0)%nat ->
  frame_inv Yd p (prod sizes * r0) rk P W ->
  loop_pred Rops svd svd_sorted_contract k sizes ranks rk r0 W ->
  y_factors_from p sizes (loop_rank_list svd k sizes ranks rk r0 W) ->
  loop_contract svd k sizes ranks rk r0 W.
Proof.
  induction sizes as [|n rest IH]; intros k ranks rk W P p Hpos Hfr Hpred Hx; [exact I|].
  destruct rest as [|n2 rest2]; [exact I|].
  set (rest := n2 :: rest2) in *.
  rewrite prod_cons in Hpos, Hfr.
  assert (Hn : (0 < n)%nat) by nia. assert (Hrest : (0 < prod rest * r0)%nat) by nia.
  unfold rest in Hx, Hpred |- *. unfold loop_contract.
  rewrite loop_rank_list_cons in Hx. cbn [loop_pred] in Hpred |- *. cbv zeta in Hx, Hpred |- *.
  fold rest in Hx, Hpred |- *.
  set (q' := (prod rest * r0)%nat) in *.
  set (r := Nat.min (rk * n) (Nat.min q' (hd 1%nat ranks))) in *.
  set (M := mk [(rk * n)%nat; q'] W) in *.
  destruct Hpred as [Hc Hpred'].
  pose proof (frame_step Yd p n q' rk r P W (svd k M) Hn) as Hstep.
  destruct (svd_interface Rops (svd k M) r) as [[U' S'] V'] eqn:Eint.
  cbn [y_factors_from] in Hx. fold rest in Hx. destruct Hx as [HfX Hx'].
  assert (Hfr' : frame_inv Yd p (n * q') rk P W).
  { replace (n * q')%nat with (n * prod rest * r0)%nat by (unfold q'; lia). exact Hfr. }
  split.
  - apply (low_rank_svd_contract eckart_young_holds); [exact Hc|].
    exact (frame_factors Yd p n q' rk r P W Hn Hfr' HfX).
  - specialize (Hstep Hfr' (proj1 Hc)).
    apply (IH (S k) (tl ranks) r (data (sv_mul Rops S' V')) (next_frame P rk n U') (p * n)%nat).
    + exact Hrest.
    + exact Hstep.
    + exact Hpred'.
    + exact Hx'.
Qed.
End Gen.

(* the identity frame: the reference array is its own working array *)
Lemma frame_id (Yd : list R) (p q : nat) : frame_inv Yd p q p dlt Yd.
Proof.
  split.
  - intros b b' Hb Hb'.
    rewrite (fsumn_single Rops Rops_ring p b) by (first [exact Hb | intros i Hi Hne; unfold dlt;
      destruct (Nat.eqb_spec i b); [congruence | cbn [f0 fmul Rops]; ring]]).
    unfold dlt. rewrite Nat.eqb_refl. cbn [fmul f0 f1 Rops]. destruct (Nat.eqb b b'); ring.
  - intros a t Ha Ht.
    rewrite (fsumn_single Rops Rops_ring p a) by (first [exact Ha | intros i Hi Hne; unfold dlt;
      destruct (Nat.eqb_spec i a); [congruence | cbn [f0 fmul Rops]; ring]]).
    unfold dlt. rewrite Nat.eqb_refl. ring.
Qed.

(* ------------------------------------------------------------------ tensor_ring: rank condition on the remainder of the first SVD *)
Section RingRank.
Variable svd : nat -> tensor R -> @svdans R.

(* every SVD answer of the run meets LAPACK's contract with sorted singular values; NOTHING is assumed about what is discarded *)
Definition tr_core_sorted (Xp : tensor R) (rk : list nat) : Prop :=
  let s0 := hd 0%nat (shape Xp) in
  let rest := tl (shape Xp) in
  let r0 := nth 0 rk 0%nat in
  let r1 := nth 1 rk 0%nat in
  let n_col := prod rest in
  let M := mk [s0; n_col] (data Xp) in
  svd_sorted_contract M s0 n_col (r0 * r1) (svd 0%nat M) /\
  (let '(U, Sv, V) := svd_interface Rops (svd 0%nat M) (r0 * r1) in
   loop_pred Rops svd svd_sorted_contract 1 rest (skipn 2 rk) r1 r0
     (data (transpose 0 [1; 2; 0]%nat (reshape [r0; r1; n_col] (sv_mul Rops Sv V))))).

(* the first unfolding of the (rotated) input has rank <= r0 * r1, and the remainder W1 of the first SVD, viewed as
   (r1 * n_1 ... n_k) x (n_{k+1} ... n_{d-1} * r0), has rank at most the bond the run realises at step k *)
Definition tr_core_rank_condition (Xp : tensor R) (rk : list nat) : Prop :=
  let s0 := hd 0%nat (shape Xp) in
  let rest := tl (shape Xp) in
  let r0 := nth 0 rk 0%nat in
  let r1 := nth 1 rk 0%nat in
  let n_col := prod rest in
  let M := mk [s0; n_col] (data Xp) in
  factors_through M s0 n_col (r0 * r1) /\
  (let '(U, Sv, V) := svd_interface Rops (svd 0%nat M) (r0 * r1) in
   let Wd := data (transpose 0 [1; 2; 0]%nat (reshape [r0; r1; n_col] (sv_mul Rops Sv V))) in
   y_factors_from Wd r0 r1 rest (loop_rank_list svd 1 rest (skipn 2 rk) r1 r0 Wd)).

Theorem tr_core_contract_from_rank Xp rk :
  (0 < prod (tl (shape Xp)) * nth 0 rk 0)%nat ->
  tr_core_sorted Xp rk -> tr_core_rank_condition Xp rk -> tr_core_contract svd Xp rk.
Proof.
  unfold tr_core_sorted, tr_core_rank_condition, tr_core_contract. cbv zeta.
  intros Hpos [Hs1 Hs2] [Hf1 Hf2]. split.
  - apply (low_rank_svd_contract eckart_young_holds); assumption.
  - destruct (svd_interface Rops _ _) as [[U Sv] V].
    eapply loop_contract_from_rank_gen; [exact Hpos | apply frame_id | exact Hs2 | exact Hf2].
Qed.

Definition tr_sorted (X : tensor R) (rank : rank_spec) (mode : nat) : Prop :=
  let n := ndim X in
  match validate_tr_rank n rank with
  | Ok rk0 =>
    tr_core_sorted (if Nat.eqb mode 0 then X else transpose 0 (rotate mode (seq 0 n)) X)
                   (if Nat.eqb mode 0 then rk0 else tr_rotate_rank n mode rk0)
  | Err => True
  end.

Definition tr_rank_condition (X : tensor R) (rank : rank_spec) (mode : nat) : Prop :=
  let n := ndim X in
  match validate_tr_rank n rank with
  | Ok rk0 =>
    let Xp := if Nat.eqb mode 0 then X else transpose 0 (rotate mode (seq 0 n)) X in
    let rk := if Nat.eqb mode 0 then rk0 else tr_rotate_rank n mode rk0 in
    (0 < prod (tl (shape Xp)) * nth 0 rk 0)%nat /\ tr_core_rank_condition Xp rk
  | Err => True
  end.

(* tensor_ring (every start mode): LAPACK's plain contract with sorted singular values + the rank condition => exact *)
Theorem tensor_ring_exact_from_rank_condition X rank mode cores :
  tr_sorted X rank mode -> tr_rank_condition X rank mode ->
  tensor_ring Rops svd X rank mode = Ok cores ->
  forall idx, inb (shape X) idx -> tr_entry Rops cores idx = gR X idx.
Proof.
  intros Hs Hr. apply (tensor_ring_exact_R svd). revert Hs Hr.
  unfold tr_sorted, tr_rank_condition, tr_contract. cbv zeta.
  destruct (validate_tr_rank (ndim X) rank) as [rk0|]; [|trivial].
  intros Hs [Hpos Hr]. now apply tr_core_contract_from_rank.
Qed.
End RingRank.

(* ------------------------------------------------------------------ from the unfoldings of X to those of the remainder W1 *)
Lemma factors_through_mono (M : tensor R) (m n r r' : nat) : (r <= r')%nat -> factors_through M m n r -> factors_through M m n r'.
Proof.
  intros Hr (A & B & HAB).
  exists A, (fun b c => if (b <? r)%nat then B b c else 0).
  intros i c Hi Hc. rewrite (HAB i c Hi Hc). symmetry.
  rewrite (fsumn_tail_zero Rops Rops_ring r' r) by (first [exact Hr | intros l Hl1 Hl2;
    destruct (Nat.ltb_spec l r); [lia | cbn [fmul f0 Rops]; ring]]).
  apply sumR_ext. intros b Hb. destruct (Nat.ltb_spec b r); [reflexivity | lia].
Qed.

(* W1 (r1 x n_col x r0) = the r0 column blocks of U^T X_(0): entry fact Hent.  If X viewed as (s0 * m) x c has rank <= rho
   then W1 viewed as (r1 * m) x (c * r0) has rank <= rho * r0 *)
Lemma ring_factors_step (Xd Wd : list R) (u : nat -> nat -> R) (s0 r0 r1 m c rho r : nat) :
  (0 < m)%nat -> (0 < c)%nat -> (0 < r0)%nat ->
  (forall b j a, (b < r1)%nat -> (j < m * c)%nat -> (a < r0)%nat ->
     nth ((b * (m * c) + j) * r0 + a) Wd 0 = sumR s0 (fun i0 => u i0 (a * r1 + b)%nat * nth (i0 * (m * c) + j) Xd 0)) ->
  (rho * r0 <= r)%nat ->
  factors_through (mk [(s0 * m)%nat; c] Xd) (s0 * m) c rho ->
  factors_through (mk [(r1 * m)%nat; (c * r0)%nat] Wd) (r1 * m) (c * r0) r.
Proof.
  intros Hm Hc0 Hr0 Hent Hr (A & B & HAB).
  apply (factors_through_mono _ _ _ (rho * r0) r Hr).
  exists (fun row l => sumR s0 (fun i0 => u i0 ((l mod r0) * r1 + row / m)%nat * A (i0 * m + row mod m)%nat (l / r0)%nat)),
         (fun l col => B (l / r0)%nat (col / r0)%nat * dlt (l mod r0) (col mod r0)).
  intros row col Hrow Hcol.
  assert (Hb : (row / m < r1)%nat) by (apply Nat.div_lt_upper_bound; lia).
  assert (Hi : (row mod m < m)%nat) by (apply Nat.mod_upper_bound; lia).
  assert (Ht : (col / r0 < c)%nat) by (apply Nat.div_lt_upper_bound; lia).
  assert (Ha : (col mod r0 < r0)%nat) by (apply Nat.mod_upper_bound; lia).
  pose proof (Nat.div_mod row m ltac:(lia)) as Erow. pose proof (Nat.div_mod col r0 ltac:(lia)) as Ecol.
  set (b := (row / m)%nat) in *. set (i := (row mod m)%nat) in *.
  set (t := (col / r0)%nat) in *. set (a := (col mod r0)%nat) in *.
  rewrite g_mk2.
  replace (row * (c * r0) + col)%nat with ((b * (m * c) + (i * c + t)) * r0 + a)%nat by nia.
  rewrite Hent by (first [assumption | nia]).
  rewrite sumR_mul.
  (* the inner sum over a' collapses to a' = a *)
  transitivity (sumR rho (fun e => sumR s0 (fun i0 => u i0 (a * r1 + b)%nat * A (i0 * m + i)%nat e) * B e t)).
  - transitivity (sumR s0 (fun i0 => sumR rho (fun e => u i0 (a * r1 + b)%nat * A (i0 * m + i)%nat e * B e t))).
    + apply sumR_ext. intros i0 Hi0.
      replace (i0 * (m * c) + (i * c + t))%nat with ((i0 * m + i) * c + t)%nat by lia.
      rewrite <- (g_mk2 (s0 * m) c Xd (i0 * m + i) t). rewrite HAB by (first [nia | exact Ht]).
      rewrite <- sumR_scal_l. apply sumR_ext. intros e He. ring.
    + rewrite sumR_exch. apply sumR_ext. intros e He. now rewrite sumR_scal_r.
  - apply sumR_ext. intros e He. symmetry.
    rewrite (fsumn_single Rops Rops_ring r0 a).
    + destruct (divmod_lin e a r0 Ha) as [-> ->]. unfold dlt. rewrite Nat.eqb_refl. ring.
    + exact Ha.
    + intros a' Ha' Hne. destruct (divmod_lin e a' r0 Ha') as [-> ->]. unfold dlt.
      destruct (Nat.eqb_spec a' a); [congruence | cbn [f0 fmul Rops]; ring].
Qed.

Section XCond.
Variable Xd Wd : list R.
Variable u : nat -> nat -> R.
Variable s0 r0 r1 n_col : nat.
Hypothesis Hr0 : (0 < r0)%nat.
Hypothesis Hent : forall b j a, (b < r1)%nat -> (j < n_col)%nat -> (a < r0)%nat ->
  nth ((b * n_col + j) * r0 + a) Wd 0 = sumR s0 (fun i0 => u i0 (a * r1 + b)%nat * nth (i0 * n_col + j) Xd 0).

(* the property's condition for the ring: the (rotated) input viewed as (s0 n_1 ... n_k) x (n_{k+1} ...) -- its k-th sequential
   unfolding -- has a rank rho_k with rho_k * r0 at most the bond the run realises at step k *)
Fixpoint x_ring_factors_from (p : nat) (sizes : list nat) (rs : list nat) : Prop :=
  match sizes with
  | [] => True
  | n :: rest =>
    match rest with
    | [] => True
    | _ :: _ =>
      match rs with
      | [] => True
      | r :: rs' =>
        (exists rho, (rho * r0 <= r)%nat /\ factors_through (mk [(p * n)%nat; prod rest] Xd) (p * n) (prod rest) rho) /\
        x_ring_factors_from (p * n) rest rs'
      end
    end
  end.

Lemma x_ring_to_y : forall sizes m rs, (0 < m)%nat -> (0 < prod sizes)%nat -> (m * prod sizes)%nat = n_col ->
  x_ring_factors_from (s0 * m) sizes rs -> y_factors_from Wd r0 (r1 * m) sizes rs.
Proof.
  induction sizes as [|n rest IH]; intros m rs Hm Hpos Hprod Hx; [exact I|].
  destruct rest as [|n2 rest2]; [exact I|].
  set (rest := n2 :: rest2) in *.
  destruct rs as [|r rs']; [exact I|].
  rewrite prod_cons in Hpos, Hprod.
  assert (Hn : (0 < n)%nat) by nia. assert (Hrest : (0 < prod rest)%nat) by nia.
  cbn [x_ring_factors_from y_factors_from] in Hx |- *. fold rest in Hx |- *.
  destruct Hx as [(rho & Hrho & Hf) Hx']. split.
  - replace (r1 * m * n)%nat with (r1 * (m * n))%nat by lia.
    replace (s0 * m * n)%nat with (s0 * (m * n))%nat in Hf by lia.
    apply (ring_factors_step Xd Wd u s0 r0 r1 (m * n) (prod rest) rho r); try assumption; try nia.
    intros b j a Hb Hj Ha.
    replace (m * n * prod rest)%nat with n_col by (rewrite <- Hprod; lia).
    apply Hent; try assumption. rewrite <- Hprod. nia.
  - replace (r1 * m * n)%nat with (r1 * (m * n))%nat by lia.
    apply IH; try assumption; try nia.
    replace (s0 * (m * n))%nat with (s0 * m * n)%nat by lia. exact Hx'.
Qed.
End XCond.

(* entries of the remainder of the first SVD after the reshape (r0, r1, -1) and the transposition (1, 2, 0) *)
Lemma w1_entry (r0 r1 n_col : nat) (Sv : list R) (V : tensor R) b col a :
  shape V = [(r0 * r1)%nat; n_col] -> (b < r1)%nat -> (col < n_col)%nat -> (a < r0)%nat ->
  nth ((b * n_col + col) * r0 + a) (data (transpose 0 [1; 2; 0]%nat (reshape [r0; r1; n_col] (sv_mul Rops Sv V)))) 0
  = nth (a * r1 + b) Sv 0 * gR V [(a * r1 + b)%nat; col].
Proof.
  intros HV Hb Hcol Ha.
  set (W := transpose 0 [1; 2; 0]%nat (reshape [r0; r1; n_col] (sv_mul Rops Sv V))).
  assert (Hl : (a * r1 + b < r0 * r1)%nat) by nia.
  transitivity (get 0 W [b; col; a]).
  - unfold get. f_equal. unfold W, transpose. cbn [shape tabulate permute map reshape nth ravel prod fold_right]. ring.
  - unfold W, transpose. rewrite get_tabulate by (cbn [permute map shape reshape nth]; apply inb3; assumption).
    cbn [scatter length seq map index_of Nat.eqb nth].
    transitivity (gR (sv_mul Rops Sv V) [(a * r1 + b)%nat; col]).
    + unfold g, get, reshape. cbn [shape data]. unfold sv_mul at 2. cbn [shape tabulate]. rewrite HV.
      cbn [ravel prod fold_right]. f_equal. ring.
    + unfold sv_mul. rewrite HV. rewrite (g_tab2 Rops) by assumption. reflexivity.
Qed.

Section RingX.
Variable svd : nat -> tensor R -> @svdans R.

(* the condition of the property for tensor_ring, on X itself: the first unfolding has rank <= r0 * r1, and the k-th
   sequential unfolding (s0 n_1 ... n_k) x (n_{k+1} ... n_{d-1}) of the (rotated) input has a rank rho_k with
   rho_k * r0 <= the bond realised at step k (r0 = 1: exactly the TT-SVD condition) *)
Definition tr_core_x_rank_condition (Xp : tensor R) (rk : list nat) : Prop :=
  let s0 := hd 0%nat (shape Xp) in
  let rest := tl (shape Xp) in
  let r0 := nth 0 rk 0%nat in
  let r1 := nth 1 rk 0%nat in
  let n_col := prod rest in
  let M := mk [s0; n_col] (data Xp) in
  factors_through M s0 n_col (r0 * r1) /\
  (let '(U, Sv, V) := svd_interface Rops (svd 0%nat M) (r0 * r1) in
   let Wd := data (transpose 0 [1; 2; 0]%nat (reshape [r0; r1; n_col] (sv_mul Rops Sv V))) in
   x_ring_factors_from (data Xp) r0 s0 rest (loop_rank_list svd 1 rest (skipn 2 rk) r1 r0 Wd)).

Theorem tr_core_rank_condition_from_x Xp rk :
  (0 < prod (tl (shape Xp)) * nth 0 rk 0)%nat ->
  tr_core_sorted svd Xp rk -> tr_core_x_rank_condition Xp rk -> tr_core_rank_condition svd Xp rk.
Proof.
  unfold tr_core_sorted, tr_core_x_rank_condition, tr_core_rank_condition. cbv zeta.
  set (s0 := hd 0%nat (shape Xp)). set (rest := tl (shape Xp)).
  set (r0 := nth 0 rk 0%nat). set (r1 := nth 1 rk 0%nat). set (n_col := prod rest).
  set (M := mk [s0; n_col] (data Xp)).
  intros Hpos [Hs1 _] [Hf1 Hf2]. split; [exact Hf1|].
  pose proof (svd_interface_orth Rops Rops_ring _ _ _ _ _
                (step_full_orth Rops _ _ _ _ _ (svd_full_contract_step_full _ _ _ _ _ (proj1 Hs1)))) as H.
  destruct (svd_interface Rops (svd 0%nat M) (r0 * r1)) as [[U' S'] V'].
  destruct H as (HU' & HV' & HS' & OU' & Hrem).
  cbv zeta in Hf2 |- *.
  set (Wd := data (transpose 0 [1; 2; 0]%nat (reshape [r0; r1; n_col] (sv_mul Rops S' V')))) in *.
  assert (Hr0 : (0 < r0)%nat) by nia. assert (Hnc : (0 < n_col)%nat) by (unfold n_col; nia).
  assert (G : y_factors_from Wd r0 (r1 * 1) rest (loop_rank_list svd 1 rest (skipn 2 rk) r1 r0 Wd)).
  { apply (x_ring_to_y (data Xp) Wd (fun i0 l => gR U' [i0; l]) s0 r0 r1 n_col Hr0).
    - intros b j a Hb Hj Ha. unfold Wd. rewrite (w1_entry r0 r1 n_col S' V' b j a HV' Hb Hj Ha).
      assert (Hl : (a * r1 + b < r0 * r1)%nat) by nia.
      pose proof (Hrem (a * r1 + b)%nat j Hl Hj) as Hr. cbn [fmul f0 Rops] in Hr. rewrite <- Hr.
      apply sumR_ext. intros i0 Hi0. unfold M. rewrite g_mk2. reflexivity.
    - lia.
    - exact Hnc.
    - unfold n_col. lia.
    - rewrite Nat.mul_1_r. exact Hf2. }
  rewrite Nat.mul_1_r in G. exact G.
Qed.

Definition tr_x_rank_condition (X : tensor R) (rank : rank_spec) (mode : nat) : Prop :=
  let n := ndim X in
  match validate_tr_rank n rank with
  | Ok rk0 =>
    let Xp := if Nat.eqb mode 0 then X else transpose 0 (rotate mode (seq 0 n)) X in
    let rk := if Nat.eqb mode 0 then rk0 else tr_rotate_rank n mode rk0 in
    (0 < prod (tl (shape Xp)) * nth 0 rk 0)%nat /\ tr_core_x_rank_condition Xp rk
  | Err => True
  end.

(* the first sentence of the property for tensor_ring, end to end, every start mode *)
Theorem tensor_ring_exact_from_x_rank_condition X rank mode cores :
  tr_sorted svd X rank mode -> tr_x_rank_condition X rank mode ->
  tensor_ring Rops svd X rank mode = Ok cores ->
  forall idx, inb (shape X) idx -> tr_entry Rops cores idx = gR X idx.
Proof.
  intros Hs Hr. apply (tensor_ring_exact_from_rank_condition svd X rank mode cores Hs). revert Hs Hr.
  unfold tr_sorted, tr_x_rank_condition, tr_rank_condition. cbv zeta.
  destruct (validate_tr_rank (ndim X) rank) as [rk0|]; [|trivial].
  intros Hs [Hpos Hr]. split; [exact Hpos|]. now apply tr_core_rank_condition_from_x.
Qed.
End RingX.

(* ------------------------------------------------------------------ non-vacuity *)
(* X = diag(2, 0) (rank 1), ring request (1, 1, 1), start mode 0, LAPACK answering (I, [2; 0], I): a genuine truncation 2 -> 1 *)
Example tr_rank_condition_satisfiable :
  let svd := fun (_ : nat) (_ : tensor R) => rk1_a in
  tr_sorted svd rk1_M (inr [1; 1; 1]%nat) 0 /\ tr_x_rank_condition svd rk1_M (inr [1; 1; 1]%nat) 0.
Proof.
  cbv zeta. split.
  - unfold tr_sorted. cbv zeta. cbn [validate_tr_rank ndim shape rk1_M length Nat.add Nat.eqb hd last andb].
    unfold tr_core_sorted. cbv zeta. split; [exact rk1_contract|].
    destruct (svd_interface Rops rk1_a _) as [[U' S'] V']. exact I.
  - unfold tr_x_rank_condition. cbv zeta. cbn [validate_tr_rank ndim shape rk1_M length Nat.add Nat.eqb hd last andb].
    split; [cbn; lia|].
    unfold tr_core_x_rank_condition. cbv zeta. split.
    + exists (fun i _ => if Nat.eqb i 0 then 2 else 0), (fun _ c => if Nat.eqb c 0 then 1 else 0).
      intros i c Hi Hc. assert (Ei : i = 0%nat \/ i = 1%nat) by (cbn in Hi; lia). assert (Ec : c = 0%nat \/ c = 1%nat) by (cbn in Hc; lia).
      destruct Ei as [-> | ->]; destruct Ec as [-> | ->]; unfold fsumn, g, get, rk1_M; cbn; lra.
    + destruct (svd_interface Rops rk1_a _) as [[U' S'] V']. exact I.
Qed.

(* ------------------------------------------------------------------ requests that make the loop keep everything *)
Lemma factors_rows (M : tensor R) (m q : nat) : factors_through M m q m.
Proof.
  exists (fun i b => dlt b i), (fun b c => gR M [b; c]). intros i c Hi Hc.
  transitivity (sumR m (fun b => gR M [b; c] * dlt b i)).
  - now rewrite SvdDecompTTRank.sumR_dlt_r.
  - apply sumR_ext. intros b Hb. ring.
Qed.

(* every requested rank of the loop is at least min(n_row, n_col) of its step: the realised bond is min(n_row, n_col) *)
Fixpoint full_bonds (sizes ranks : list nat) (rk r0 : nat) : Prop :=
  match sizes with
  | [] => True
  | n :: rest =>
    match rest with
    | [] => True
    | _ :: _ =>
      let r := Nat.min (rk * n) (prod rest * r0) in
      (r <= hd 1%nat ranks)%nat /\ full_bonds rest (tl ranks) r r0
    end
  end.

Lemma full_bonds_y_factors (svd : nat -> tensor R -> @svdans R) (Yd : list R) (r0 : nat) :
  forall sizes k ranks rk W p,
  (rk = p \/ prod sizes * r0 <= rk)%nat ->
  full_bonds sizes ranks rk r0 ->
  y_factors_from Yd r0 p sizes (loop_rank_list svd k sizes ranks rk r0 W).
Proof.
  induction sizes as [|n rest IH]; intros k ranks rk W p Hinv Hfull; [exact I|].
  destruct rest as [|n2 rest2]; [exact I|].
  set (rest := n2 :: rest2) in *.
  unfold rest. rewrite loop_rank_list_cons. cbv zeta. fold rest.
  cbn [full_bonds] in Hfull. fold rest in Hfull. cbv zeta in Hfull. destruct Hfull as [Hle Hfull'].
  rewrite prod_cons in Hinv.
  set (q' := (prod rest * r0)%nat) in *.
  set (r := Nat.min (rk * n) (Nat.min q' (hd 1%nat ranks))).
  assert (Er : r = Nat.min (rk * n) q') by (unfold r; lia).
  destruct (svd_interface Rops (svd k (mk [(rk * n)%nat; q'] W)) r) as [[U' S'] V'].
  assert (Eq : q' = (prod rest * r0)%nat) by reflexivity.
  cbn [y_factors_from]. fold rest. fold q'. split.
  - destruct (Nat.le_ge_cases q' (rk * n)) as [Hc | Hc].
    + replace r with q' by lia. apply factors_cols.
    + destruct Hinv as [-> | Hbig].
      * replace r with (p * n)%nat by lia. apply factors_rows.
      * destruct (Nat.eq_dec n 0) as [-> | Hn0].
        { exists (fun _ _ => 0), (fun _ _ => 0). intros i c Hi. lia. }
        assert (r = q') by nia. rewrite H. apply factors_cols.
  - apply IH; [|rewrite Er; exact Hfull'].
    destruct (Nat.le_ge_cases q' (rk * n)) as [Hc | Hc].
    + right. lia.
    + destruct Hinv as [-> | Hbig]; [left; lia |].
      destruct (Nat.eq_dec n 0) as [-> | Hn0]; [left; lia | right; nia].
Qed.

Section RingFull.
Variable svd : nat -> tensor R -> @svdans R.

(* what the check's generator calls "sufficient" for the ring: the first unfolding has rank <= r0 * r1 (in particular when
   r0 * r1 = min(s0, n_col)) and the requests of the loop do not clip below min(n_row, n_col) *)
Definition tr_core_full_request (Xp : tensor R) (rk : list nat) : Prop :=
  let s0 := hd 0%nat (shape Xp) in
  let rest := tl (shape Xp) in
  let r0 := nth 0 rk 0%nat in
  let r1 := nth 1 rk 0%nat in
  let n_col := prod rest in
  factors_through (mk [s0; n_col] (data Xp)) s0 n_col (r0 * r1) /\ full_bonds rest (skipn 2 rk) r1 r0.

Theorem tr_core_rank_condition_full_request Xp rk :
  tr_core_full_request Xp rk -> tr_core_rank_condition svd Xp rk.
Proof.
  unfold tr_core_full_request, tr_core_rank_condition. cbv zeta. intros [H1 H2]. split; [exact H1|].
  destruct (svd_interface Rops _ _) as [[U Sv] V]. cbv zeta.
  apply full_bonds_y_factors; [left; reflexivity | exact H2].
Qed.

Definition tr_full_request (X : tensor R) (rank : rank_spec) (mode : nat) : Prop :=
  let n := ndim X in
  match validate_tr_rank n rank with
  | Ok rk0 =>
    let Xp := if Nat.eqb mode 0 then X else transpose 0 (rotate mode (seq 0 n)) X in
    let rk := if Nat.eqb mode 0 then rk0 else tr_rotate_rank n mode rk0 in
    (0 < prod (tl (shape Xp)) * nth 0 rk 0)%nat /\ tr_core_full_request Xp rk
  | Err => True
  end.

Theorem tensor_ring_exact_full_request X rank mode cores :
  tr_sorted svd X rank mode -> tr_full_request X rank mode ->
  tensor_ring Rops svd X rank mode = Ok cores ->
  forall idx, inb (shape X) idx -> tr_entry Rops cores idx = gR X idx.
Proof.
  intros Hs Hr. apply (tensor_ring_exact_from_rank_condition svd X rank mode cores Hs). revert Hr.
  unfold tr_full_request, tr_rank_condition. cbv zeta.
  destruct (validate_tr_rank (ndim X) rank) as [rk0|]; [|trivial].
  intros [Hpos Hr]. split; [exact Hpos|]. now apply tr_core_rank_condition_full_request.
Qed.
End RingFull.

(* non-vacuity of the full-request theorem: X = diag(2, 0), ring request (1, 2, 1): r0 * r1 = 2 = min(s0, n_col) *)
Lemma rk1_contract2 : svd_sorted_contract rk1_M 2 2 2 rk1_a.
Proof.
  split.
  - unfold svd_full_contract, rk1_a, rk1_M. cbn [length]. split; [lia|]. split; [reflexivity|]. split; [reflexivity|].
    split; [|split].
    + intros j l Hj Hl. assert (Ej : j = 0%nat \/ j = 1%nat) by lia. assert (El : l = 0%nat \/ l = 1%nat) by lia.
      destruct Ej as [-> | ->]; destruct El as [-> | ->]; unfold fsumn, g, get; cbn; lra.
    + intros j l Hj Hl. assert (Ej : j = 0%nat \/ j = 1%nat) by lia. assert (El : l = 0%nat \/ l = 1%nat) by lia.
      destruct Ej as [-> | ->]; destruct El as [-> | ->]; unfold fsumn, g, get; cbn; lra.
    + intros i c Hi Hc. assert (Ei : i = 0%nat \/ i = 1%nat) by lia. assert (Ec : c = 0%nat \/ c = 1%nat) by lia.
      destruct Ei as [-> | ->]; destruct Ec as [-> | ->]; unfold fsumn, g, get; cbn; lra.
  - exact (proj2 rk1_contract).
Qed.

Example tr_full_request_satisfiable :
  let svd := fun (_ : nat) (_ : tensor R) => rk1_a in
  tr_sorted svd rk1_M (inr [1; 2; 1]%nat) 0 /\ tr_full_request rk1_M (inr [1; 2; 1]%nat) 0.
Proof.
  cbv zeta. split.
  - unfold tr_sorted. cbv zeta. cbn [validate_tr_rank ndim shape rk1_M length Nat.add Nat.eqb hd last andb].
    unfold tr_core_sorted. cbv zeta. split; [exact rk1_contract2|].
    destruct (svd_interface Rops rk1_a _) as [[U' S'] V']. exact I.
  - unfold tr_full_request. cbv zeta. cbn [validate_tr_rank ndim shape rk1_M length Nat.add Nat.eqb hd last andb].
    split; [cbn; lia|]. unfold tr_core_full_request. cbv zeta. split; [|exact I].
    exact (factors_rows _ 2 2).
Qed.

(* the numeric side condition on an order-4 ring request with start bond 2: shape (4, 3, 2, 2), request (2, 2, 6, 4, 2) *)
Example full_bonds_instance : full_bonds [3; 2; 2]%nat [6; 4; 2]%nat 2 2.
Proof. cbn. lia. Qed.

(* ------------------------------------------------------------------ a decidable form of the full-request premise (evaluated by the check
   on every tensor_ring input its generator labels "sufficient") *)
Lemma full_boundsb_spec : forall sizes ranks rk r0, full_boundsb sizes ranks rk r0 = true -> full_bonds sizes ranks rk r0.
Proof.
  induction sizes as [|n rest IH]; intros ranks rk r0 H; [exact I|].
  destruct rest as [|n2 rest2]; [exact I|].
  cbn [full_boundsb full_bonds] in *. cbv zeta in *. apply andb_prop in H. destruct H as [H1 H2].
  split; [now apply Nat.leb_le | now apply IH].
Qed.

Theorem tr_full_requestb_sound (X : tensor R) (rank : rank_spec) (mode : nat) :
  tr_full_requestb X rank mode = true -> tr_full_request X rank mode.
Proof.
  unfold tr_full_requestb, tr_full_request. cbv zeta.
  destruct (validate_tr_rank (ndim X) rank) as [rk0|]; [|discriminate].
  set (Xp := if Nat.eqb mode 0 then X else transpose 0 (rotate mode (seq 0 (ndim X))) X).
  assert (Es : shape Xp = if Nat.eqb mode 0 then shape X else rotate mode (shape X)).
  { unfold Xp. destruct (Nat.eqb mode 0); [reflexivity|]. unfold transpose. cbn [shape tabulate]. unfold ndim. apply permute_rotate. }
  rewrite <- Es. set (rk := if Nat.eqb mode 0 then rk0 else tr_rotate_rank (ndim X) mode rk0).
  intros H. apply andb_prop in H. destruct H as [H H3]. apply andb_prop in H. destruct H as [H1 H2].
  apply Nat.ltb_lt in H1. apply Nat.eqb_eq in H2. split; [exact H1|].
  unfold tr_core_full_request. cbv zeta. split; [|now apply full_boundsb_spec].
  rewrite H2. destruct (Nat.le_ge_cases (hd 0%nat (shape Xp)) (prod (tl (shape Xp)))) as [Hle | Hge].
  - rewrite Nat.min_l by exact Hle. apply factors_rows.
  - rewrite Nat.min_r by exact Hge. apply factors_cols.
Qed.
