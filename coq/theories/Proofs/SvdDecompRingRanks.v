(* C09: the ranks returned by tensor_ring respect the request (any carrier, any oracle, every start mode): in the rotated frame
   (cores and request rotated to the start mode) the first core has exactly the requested bonds (rank[mode], rank[mode+1]) and every
   later bond is min(n_row, n_col, requested) <= requested. *)
From Coq Require Import List Arith Lia Bool.
From TLV Require Import Base.Shape Base.PyList Base.Tensor Base.BigSum Base.Ops Model.Base Model.SvdDecomp Proofs.SvdDecompRanks Proofs.SvdDecompRing Proofs.SvdDecompValidate.
Import ListNotations.

Section RingRanks.
Context {F : Type} (Op : fops F).
Variable svd : nat -> tensor F -> @svdans F.

Theorem tr_core_ranks_respected Xp rk fs :
  tr_core Op svd Xp rk = Ok fs ->
  exists G cs, fs = G :: cs /\ shape G = [nth 0 rk 0; hd 0 (shape Xp); nth 1 rk 0] /\ ranks_respected cs (skipn 2 rk) /\
               nth 0 rk 0 * nth 1 rk 0 <= Nat.min (hd 0 (shape Xp)) (prod (tl (shape Xp))).
Proof.
  unfold tr_core. cbv zeta. intros H.
  destruct (Nat.min (hd 0 (shape Xp)) (prod (tl (shape Xp))) <? nth 0 rk 0 * nth 1 rk 0) eqn:E; [discriminate|].
  apply Nat.ltb_ge in E.
  destruct (fact_shapes_ok _ _ _ _); [|discriminate].
  destruct (svd_interface Op _ _) as [[U Sv] V].
  destruct (chain_loop Op svd 1 _ _ _ _ _) as [cs|] eqn:Ec; [|discriminate].
  cbn [rbind] in H. injection H as <-.
  eexists. exists cs. split; [reflexivity|]. split; [reflexivity|]. split; [|exact E].
  exact (chain_loop_ranks_respected Op svd _ _ _ _ _ _ _ Ec).
Qed.

Lemma rotate_back {A} (fs : list A) (n mode : nat) : length fs = n -> mode <= n ->
  rotate mode (lastn mode fs ++ firstn (n - mode) fs) = fs.
Proof.
  intros Hl Hm. unfold rotate, lastn. rewrite Hl.
  set (B := skipn (n - mode) fs). set (A' := firstn (n - mode) fs).
  assert (L1 : length B = mode) by (unfold B; rewrite skipn_length; lia).
  rewrite <- L1. rewrite skipn_app_len, firstn_app_len. apply firstn_skipn.
Qed.

(* every start mode: rotate the returned cores back to the start mode *)
Theorem tensor_ring_ranks_respected X rank mode cores :
  tensor_ring Op svd X rank mode = Ok cores ->
  match validate_tr_rank (ndim X) rank with
  | Ok rk0 =>
    let n := ndim X in
    let rk := if Nat.eqb mode 0 then rk0 else tr_rotate_rank n mode rk0 in
    let shp := if Nat.eqb mode 0 then shape X else permute 0 (rotate mode (seq 0 n)) (shape X) in
    let fs := if Nat.eqb mode 0 then cores else rotate mode cores in
    exists G cs, fs = G :: cs /\ shape G = [nth 0 rk 0; hd 0 shp; nth 1 rk 0] /\ ranks_respected cs (skipn 2 rk) /\
                 nth 0 rk 0 * nth 1 rk 0 <= Nat.min (hd 0 shp) (prod (tl shp))
  | Err => False
  end.
Proof.
  unfold tensor_ring. cbv zeta. destruct (validate_tr_rank (ndim X) rank) as [rk0|]; [|discriminate]. cbn [rbind].
  destruct (mode <? ndim X) eqn:Emn; [|discriminate]. cbn [negb]. apply Nat.ltb_lt in Emn.
  destruct (Nat.eqb mode 0) eqn:E0.
  - intros H. destruct (tr_core Op svd X rk0) as [fs|] eqn:E; [|discriminate]. cbn [rbind] in H. injection H as <-.
    exact (tr_core_ranks_respected X rk0 fs E).
  - intros H. set (Xp := transpose (f0 Op) (rotate mode (seq 0 (ndim X))) X) in *.
    destruct (tr_core Op svd Xp (tr_rotate_rank (ndim X) mode rk0)) as [fs|] eqn:E; [|discriminate].
    cbn [rbind] in H. injection H as <-.
    destruct (tr_core_ranks_respected Xp _ fs E) as (G & cs & Efs & HG & Hr & Hle).
    assert (Hlfs : length fs = ndim X).
    { destruct (tr_core_bonds Op svd Xp _ fs E) as [_ Hl]. rewrite Hl.
      unfold Xp, transpose. cbn [shape tabulate]. unfold ndim.
      assert (Hp : length (permute 0 (rotate mode (seq 0 (length (shape X)))) (shape X)) = length (shape X)).
      { unfold permute. rewrite map_length. unfold rotate. rewrite app_length, skipn_length, firstn_length, seq_length. unfold ndim in Emn. lia. }
      destruct (permute 0 (rotate mode (seq 0 (length (shape X)))) (shape X)) as [|d rest] eqn:Ep; cbn [length tl] in *; unfold ndim in Emn; lia. }
    rewrite (rotate_back fs (ndim X) mode Hlfs ltac:(lia)).
    exists G, cs. split; [exact Efs|]. split; [exact HG|]. split; [exact Hr | exact Hle].
Qed.
End RingRanks.

(* ------------------------------------------------------------------ the closed form of the bonds the ring loop realises *)
(* min(previous bond * size, remaining size * r0, request): the trailing ring bond r0 counts on the column side *)
Fixpoint realised_body_r0 (r0 : nat) (sizes : list nat) (rk : nat) (ranks : list nat) : list nat :=
  match sizes with
  | [] => []
  | s :: rest =>
    match rest with
    | [] => []
    | _ :: _ => let r := Nat.min (rk * s) (Nat.min (prod rest * r0) (hd 1 ranks)) in r :: realised_body_r0 r0 rest r (tl ranks)
    end
  end.

Section RingRealised.
Context {F : Type} (Op : fops F).
Variable svd : nat -> tensor F -> @svdans F.

Theorem chain_loop_realised_gen : forall sizes k ranks rk r0 W cores,
  chain_loop Op svd k sizes ranks rk r0 W = Ok cores -> right_bonds cores = realised_body_r0 r0 sizes rk ranks.
Proof.
  induction sizes as [|n rest IH]; intros k ranks rk r0 W cores H; [discriminate|].
  destruct rest as [|n2 rest2].
  - simpl in H. injection H as <-. reflexivity.
  - set (rest := n2 :: rest2) in *. cbn [chain_loop] in H. fold rest in H. cbv zeta in H.
    destruct (fact_shapes_ok _ _ _ _); [|discriminate].
    destruct (svd_interface Op _ _) as [[U Sv] V].
    destruct (chain_loop Op svd (S k) rest (tl ranks) _ r0 _) as [cs|] eqn:E; [|discriminate].
    cbn [rbind] in H. injection H as <-.
    assert (Hne : cs <> []).
    { intros ->. unfold rest in E. cbn [chain_loop] in E. destruct rest2; [discriminate|].
      cbv zeta in E. destruct (fact_shapes_ok _ _ _ _); [|discriminate].
      destruct (svd_interface Op _ _) as [[? ?] ?]. destruct (chain_loop Op svd _ _ _ _ _ _); discriminate. }
    pose proof (IH _ _ _ _ _ _ E) as Hcs.
    destruct cs as [|G2 cs2]; [contradiction|].
    unfold rest at 1. cbn [realised_body_r0]. fold rest. cbn [right_bonds shape reshape nth] in *.
    f_equal. exact Hcs.
Qed.

(* tensor_ring, rotated frame: the bonds after the first core are exactly the closed form (whatever the oracle answers) *)
Theorem tr_core_realised Xp rk fs :
  tr_core Op svd Xp rk = Ok fs ->
  right_bonds (tl fs) = realised_body_r0 (nth 0 rk 0) (tl (shape Xp)) (nth 1 rk 0) (skipn 2 rk).
Proof.
  unfold tr_core. cbv zeta. intros H.
  destruct (_ <? _); [discriminate|]. destruct (fact_shapes_ok _ _ _ _); [|discriminate].
  destruct (svd_interface Op _ _) as [[U Sv] V].
  destruct (chain_loop Op svd 1 _ _ _ _ _) as [cs|] eqn:Ec; [|discriminate].
  cbn [rbind] in H. injection H as <-. cbn [tl]. exact (chain_loop_realised_gen _ _ _ _ _ _ _ Ec).
Qed.
End RingRealised.

Section RingRealisedTop.
Context {F : Type} (Op : fops F).
Variable svd : nat -> tensor F -> @svdans F.

(* every start mode: with cores and request rotated to the start mode, the bonds tensor_ring returns after the first core are
   exactly min(previous bond * size, remaining size * rank[mode], request), whatever the oracle answers *)
Theorem tensor_ring_realised X rank mode cores :
  tensor_ring Op svd X rank mode = Ok cores ->
  match validate_tr_rank (ndim X) rank with
  | Ok rk0 =>
    let n := ndim X in
    let rk := if Nat.eqb mode 0 then rk0 else tr_rotate_rank n mode rk0 in
    let shp := if Nat.eqb mode 0 then shape X else permute 0 (rotate mode (seq 0 n)) (shape X) in
    let fs := if Nat.eqb mode 0 then cores else rotate mode cores in
    right_bonds (tl fs) = realised_body_r0 (nth 0 rk 0) (tl shp) (nth 1 rk 0) (skipn 2 rk)
  | Err => False
  end.
Proof.
  unfold tensor_ring. cbv zeta. destruct (validate_tr_rank (ndim X) rank) as [rk0|]; [|discriminate]. cbn [rbind].
  destruct (mode <? ndim X) eqn:Emn; [|discriminate]. cbn [negb]. apply Nat.ltb_lt in Emn.
  destruct (Nat.eqb mode 0) eqn:E0.
  - intros H. destruct (tr_core Op svd X rk0) as [fs|] eqn:E; [|discriminate]. cbn [rbind] in H. injection H as <-.
    exact (tr_core_realised Op svd X rk0 fs E).
  - intros H. set (Xp := transpose (f0 Op) (rotate mode (seq 0 (ndim X))) X) in *.
    destruct (tr_core Op svd Xp (tr_rotate_rank (ndim X) mode rk0)) as [fs|] eqn:E; [|discriminate].
    cbn [rbind] in H. injection H as <-.
    assert (Hlfs : length fs = ndim X).
    { destruct (tr_core_bonds Op svd Xp _ fs E) as [_ Hl]. rewrite Hl.
      unfold Xp, transpose. cbn [shape tabulate]. unfold ndim.
      assert (Hp : length (permute 0 (rotate mode (seq 0 (length (shape X)))) (shape X)) = length (shape X)).
      { unfold permute. rewrite map_length. unfold rotate. rewrite app_length, skipn_length, firstn_length, seq_length. unfold ndim in Emn. lia. }
      destruct (permute 0 (rotate mode (seq 0 (length (shape X)))) (shape X)) as [|d rest] eqn:Ep; cbn [length tl] in *; unfold ndim in Emn; lia. }
    rewrite (rotate_back fs (ndim X) mode Hlfs ltac:(lia)).
    exact (tr_core_realised Op svd Xp _ fs E).
Qed.
End RingRealisedTop.

Example realised_body_r0_instance : realised_body_r0 2 [3; 2; 2] 2 [6; 1; 2] = [6; 1].
Proof. reflexivity. Qed.
