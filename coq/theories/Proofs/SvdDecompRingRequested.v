(* C09, tensor_ring: the rank condition in its LITERAL 'requested ranks' form -- a condition on X and the validated request
   only, no reference to the oracle's answers or the realised bonds: the first unfolding of the (rotated) input has rank
   <= rank[0] * rank[1], and its k-th sequential unfolding (s0 n_1 ... n_k) x (n_{k+1} ... n_{d-1}) has a rank rho_k with
   rho_k * rank[0] <= the REQUESTED rank[k+1].  It implies the condition at the realised bonds (the realised bond is
   min(previous bond * n_k, remaining columns * rank[0], request): the remainder of the first SVD factors through each of the
   three), hence exactness of tensor_ring for every start mode.  For rank[0] = 1 this is the TT-SVD requested-rank condition. *)
From Coq Require Import List Arith Lia Bool Reals Lra RealField.
From TLV Require Import Base.Shape Base.PyList Base.Tensor Base.BigSum Base.Ops Base.RSum Model.Base Model.SvdDecomp Model.SvdDecompRingReq
     Proofs.SvdDecompProofs Proofs.SvdDecompProofsR Proofs.SvdDecompPyth Proofs.SvdDecompError Proofs.SvdDecompTails
     Proofs.SvdDecompErrorR Proofs.SvdDecompTuckerErr Proofs.SvdDecompHosvdBound Proofs.SvdDecompRing Proofs.SvdDecompRingR
     Proofs.SvdDecompPartial Proofs.SvdDecompRankCond Proofs.SvdDecompEckartYoung Proofs.SvdDecompTTUpper Proofs.SvdDecompTTRank
     Proofs.SvdDecompRingRank Proofs.SvdDecompRingEx.
Import ListNotations.
Local Open Scope R_scope.

Section XReq.
Variable svd : nat -> tensor R -> @svdans R.
Variable Xd Wd : list R.
Variable u : nat -> nat -> R.
Variable s0 r0 r1 n_col : nat.
Hypothesis Hr0 : (0 < r0)%nat.
Hypothesis Hent : forall b j a, (b < r1)%nat -> (j < n_col)%nat -> (a < r0)%nat ->
  nth ((b * n_col + j) * r0 + a) Wd 0 = sumR s0 (fun i0 => u i0 (a * r1 + b)%nat * nth (i0 * n_col + j) Xd 0).

Fixpoint x_ring_requested_from (p : nat) (sizes : list nat) (reqs : list nat) : Prop :=
  match sizes with
  | [] => True
  | n :: rest =>
    match rest with
    | [] => True
    | _ :: _ =>
      (exists rho, (rho * r0 <= hd 1%nat reqs)%nat /\ factors_through (mk [(p * n)%nat; prod rest] Xd) (p * n) (prod rest) rho) /\
      x_ring_requested_from (p * n) rest (tl reqs)
    end
  end.

Lemma x_ring_requested_to_y : forall sizes m k reqs rk W, (0 < m)%nat -> (0 < prod sizes)%nat -> (m * prod sizes)%nat = n_col ->
  factors_through (mk [(r1 * m)%nat; (prod sizes * r0)%nat] Wd) (r1 * m) (prod sizes * r0) rk ->
  x_ring_requested_from (s0 * m) sizes reqs ->
  y_factors_from Wd r0 (r1 * m) sizes (loop_rank_list svd k sizes reqs rk r0 W).
Proof.
  induction sizes as [|n rest IH]; intros m k reqs rk W Hm Hpos Hprod Hinv Hx; [exact I|].
  destruct rest as [|n2 rest2]; [exact I|].
  set (rest := n2 :: rest2) in *.
  rewrite prod_cons in Hpos, Hprod, Hinv.
  assert (Hn : (0 < n)%nat) by nia. assert (Hrest : (0 < prod rest)%nat) by nia.
  cbn [x_ring_requested_from] in Hx. fold rest in Hx. destruct Hx as [(rho & Hrho & Hf) Hx'].
  unfold rest. rewrite loop_rank_list_cons. cbv zeta. fold rest.
  set (q' := (prod rest * r0)%nat). set (r := Nat.min (rk * n) (Nat.min q' (hd 1%nat reqs))).
  destruct (svd_interface Rops _ r) as [[U' S'] V'].
  assert (Hr : factors_through (mk [(r1 * m * n)%nat; q'] Wd) (r1 * m * n) q' r).
  { assert (H1 : factors_through (mk [(r1 * m * n)%nat; q'] Wd) (r1 * m * n) q' (rk * n)).
    { apply factors_kron; [exact Hn|]. unfold q'.
      replace (n * (prod rest * r0))%nat with (n * prod rest * r0)%nat by lia. exact Hinv. }
    assert (H2 : factors_through (mk [(r1 * m * n)%nat; q'] Wd) (r1 * m * n) q' q') by apply factors_cols.
    assert (H3 : factors_through (mk [(r1 * m * n)%nat; q'] Wd) (r1 * m * n) q' (hd 1%nat reqs)).
    { unfold q'. replace (r1 * m * n)%nat with (r1 * (m * n))%nat by lia.
      replace (s0 * m * n)%nat with (s0 * (m * n))%nat in Hf by lia.
      apply (ring_factors_step Xd Wd u s0 r0 r1 (m * n) (prod rest) rho (hd 1%nat reqs)); try assumption; try nia.
      intros b j a Hb Hj Ha.
      replace (m * n * prod rest)%nat with n_col by (rewrite <- Hprod; lia).
      apply Hent; try assumption. rewrite <- Hprod. nia. }
    unfold r.
    destruct (Nat.min_spec (rk * n) (Nat.min q' (hd 1%nat reqs))) as [[_ ->]|[_ ->]]; [exact H1|].
    destruct (Nat.min_spec q' (hd 1%nat reqs)) as [[_ ->]|[_ ->]]; assumption. }
  cbn [y_factors_from]. fold rest. fold q'. split; [exact Hr|].
  replace (r1 * m * n)%nat with (r1 * (m * n))%nat in * by lia.
  apply IH; try assumption; try nia.
  replace (s0 * (m * n))%nat with (s0 * m * n)%nat by lia. exact Hx'.
Qed.
End XReq.

Section RingReq.
Variable svd : nat -> tensor R -> @svdans R.

(* a condition on the (rotated) input and the (rotated) validated request ONLY *)
Definition tr_core_requested_condition (Xp : tensor R) (rk : list nat) : Prop :=
  let s0 := hd 0%nat (shape Xp) in
  let rest := tl (shape Xp) in
  let r0 := nth 0 rk 0%nat in
  let r1 := nth 1 rk 0%nat in
  let n_col := prod rest in
  let M := mk [s0; n_col] (data Xp) in
  factors_through M s0 n_col (r0 * r1) /\ x_ring_requested_from (data Xp) r0 s0 rest (skipn 2 rk).

Theorem tr_core_rank_condition_from_requested Xp rk :
  (0 < prod (tl (shape Xp)) * nth 0 rk 0)%nat ->
  tr_core_sorted svd Xp rk -> tr_core_requested_condition Xp rk -> tr_core_rank_condition svd Xp rk.
Proof.
  unfold tr_core_sorted, tr_core_requested_condition, tr_core_rank_condition. cbv zeta.
  set (s0 := hd 0%nat (shape Xp)). set (rest := tl (shape Xp)).
  set (r0 := nth 0 rk 0%nat). set (r1 := nth 1 rk 0%nat). set (n_col := prod rest).
  set (M := mk [s0; n_col] (data Xp)).
  intros Hpos [Hs1 _] [Hf1 Hf2]. split; [exact Hf1|].
  pose proof (svd_interface_orth Rops Rops_ring _ _ _ _ _
                (step_full_orth Rops _ _ _ _ _ (svd_full_contract_step_full _ _ _ _ _ (proj1 Hs1)))) as H.
  destruct (svd_interface Rops (svd 0%nat M) (r0 * r1)) as [[U' S'] V'].
  destruct H as (HU' & HV' & HS' & OU' & Hrem).
  cbv zeta.
  set (Wd := data (transpose 0 [1; 2; 0]%nat (reshape [r0; r1; n_col] (sv_mul Rops S' V')))) in *.
  assert (Hr0 : (0 < r0)%nat) by nia. assert (Hnc : (0 < n_col)%nat) by (unfold n_col; nia).
  assert (G : y_factors_from Wd r0 (r1 * 1) rest (loop_rank_list svd 1 rest (skipn 2 rk) r1 r0 Wd)).
  { apply (x_ring_requested_to_y svd (data Xp) Wd (fun i0 l => gR U' [i0; l]) s0 r0 r1 n_col Hr0).
    - intros b j a Hb Hj Ha. unfold Wd. rewrite (w1_entry r0 r1 n_col S' V' b j a HV' Hb Hj Ha).
      assert (Hl : (a * r1 + b < r0 * r1)%nat) by nia.
      pose proof (Hrem (a * r1 + b)%nat j Hl Hj) as Hr. cbn [fmul f0 Rops] in Hr. rewrite <- Hr.
      apply sumR_ext. intros i0 Hi0. unfold M. rewrite g_mk2. reflexivity.
    - lia.
    - exact Hnc.
    - unfold n_col. lia.
    - rewrite Nat.mul_1_r. apply factors_rows.
    - rewrite Nat.mul_1_r. exact Hf2. }
  rewrite Nat.mul_1_r in G. exact G.
Qed.

Definition tr_requested_condition (X : tensor R) (rank : rank_spec) (mode : nat) : Prop :=
  let n := ndim X in
  match validate_tr_rank n rank with
  | Ok rk0 =>
    let Xp := if Nat.eqb mode 0 then X else transpose 0 (rotate mode (seq 0 n)) X in
    let rk := if Nat.eqb mode 0 then rk0 else tr_rotate_rank n mode rk0 in
    (0 < prod (tl (shape Xp)) * nth 0 rk 0)%nat /\ tr_core_requested_condition Xp rk
  | Err => True
  end.

(* the first sentence of the property for tensor_ring with the condition on the REQUESTED ranks, every start mode *)
Theorem tensor_ring_exact_requested_ranks X rank mode cores :
  tr_sorted svd X rank mode -> tr_requested_condition X rank mode ->
  tensor_ring Rops svd X rank mode = Ok cores ->
  forall idx, inb (shape X) idx -> tr_entry Rops cores idx = gR X idx.
Proof.
  intros Hs Hr. apply (tensor_ring_exact_from_rank_condition svd X rank mode cores Hs). revert Hs Hr.
  unfold tr_sorted, tr_requested_condition, tr_rank_condition. cbv zeta.
  destruct (validate_tr_rank (ndim X) rank) as [rk0|]; [|trivial].
  intros Hs [Hpos Hr]. split; [exact Hpos|]. now apply tr_core_rank_condition_from_requested.
Qed.
End RingReq.

(* ------------------------------------------------------------------ non-vacuity *)
(* (a) jointly with tr_sorted: the zero tensor of order 3, ring bond 2, one genuine loop step *)
Example tr_requested_condition_order3_satisfiable :
  let svd := fun (_ : nat) (_ : tensor R) => zans in
  tr_sorted svd zX (inr [2; 1; 2; 2]%nat) 0 /\ tr_requested_condition zX (inr [2; 1; 2; 2]%nat) 0.
Proof.
  cbv zeta. split; [exact (proj1 tr_rank_condition_order3_satisfiable)|].
  unfold tr_requested_condition. cbv zeta. cbn [validate_tr_rank ndim shape zX length Nat.add Nat.eqb hd last andb].
  split; [cbn; lia|].
  unfold tr_core_requested_condition. cbv zeta. cbn [shape zX hd tl nth]. split.
  - exact (factors_rows _ 2 4).
  - cbn [skipn x_ring_requested_from hd tl]. split; [|exact I].
    exists 1%nat. split; [lia|].
    exists (fun _ _ => 0), (fun _ _ => 0). intros i c Hi Hc. rewrite g_mk2.
    unfold prod in *. cbn [fold_right] in *. rewrite zX_zero by nia. unfold fsumn. cbn. lra.
Qed.

(* (b) the condition alone on non-zero data: the all-ones tensor of shape (2,2,2) (every unfolding has rank 1), request (2,1,2,2):
   rank[0] * rank[1] = 2 >= 1 and rho_1 * rank[0] = 2 <= rank[2] = 2 *)
Definition onesX : tensor R := mk [2; 2; 2]%nat [1; 1; 1; 1; 1; 1; 1; 1].

Example tr_requested_condition_ones : tr_requested_condition onesX (inr [2; 1; 2; 2]%nat) 0.
Proof.
  unfold tr_requested_condition. cbv zeta. cbn [validate_tr_rank ndim shape onesX length Nat.add Nat.eqb hd last andb].
  split; [cbn; lia|].
  assert (Hall : forall k, (k < 8)%nat -> nth k (data onesX) 0 = 1).
  { intros k Hk. do 8 (destruct k as [|k]; [reflexivity|]). lia. }
  unfold tr_core_requested_condition. cbv zeta. cbn [shape onesX hd tl nth]. split.
  - exact (factors_rows _ 2 4).
  - cbn [skipn x_ring_requested_from hd tl]. split; [|exact I].
    exists 1%nat. split; [lia|].
    exists (fun _ _ => 1), (fun _ _ => 1). intros i c Hi Hc. rewrite g_mk2.
    unfold prod in *. cbn [fold_right] in *. rewrite Hall by nia. unfold fsumn. cbn. lra.
Qed.
