(* C09, tensor ring: an upper bound of the error in terms of the spectrum of X.
   The working unfolding of loop step k is (P (x) I)^T W1_[k] for a frame P (Proofs/SvdDecompRingRank.v), W1 being the remainder of
   the first SVD; W1_[k] consists of the r0 column blocks (U_a (x) I)^T X_<k+1> where the U_a partition the r0 * r1 orthonormal
   columns of the first U.  Projecting the best rank-rho approximation A B of X_<k+1> block by block gives an approximation of
   W1_[k] of rank <= rho * r0 whose error is at most |X_<k+1> - A B|^2 (Bessel for the WHOLE U); Eckart-Young for the working
   unfolding and Bessel for the frame then give
        discarded tail of the working unfolding at r kept  <=  discarded tail of X_<k+1> at rho kept,   whenever rho * r0 <= r. *)
From Coq Require Import List Arith Lia Bool Reals Lra RealField.
From TLV Require Import Base.Shape Base.PyList Base.Tensor Base.BigSum Base.Ops Base.RSum Model.Base Model.SvdDecomp
     Proofs.SvdDecompProofs Proofs.SvdDecompProofsR Proofs.SvdDecompPyth Proofs.SvdDecompError Proofs.SvdDecompTails
     Proofs.SvdDecompErrorR Proofs.SvdDecompTuckerErr Proofs.SvdDecompHosvdBound Proofs.SvdDecompRing Proofs.SvdDecompRingR Proofs.SvdDecompRingErr Proofs.SvdDecompRingErrR
     Proofs.SvdDecompPartial Proofs.SvdDecompRankCond Proofs.SvdDecompEckartYoung Proofs.SvdDecompTTUpper Proofs.SvdDecompTTRank
     Proofs.SvdDecompRingRank.
Import ListNotations.
Local Open Scope R_scope.

(* ------------------------------------------------------------------ Eckart-Young through a frame, for ANY approximant of the reference *)
Lemma frame_approx_le (Yd : list R) (p n q' rk r : nat) (P : nat -> nat -> R) (W : list R) (aM : @svdans R)
      (A B : nat -> nat -> R) :
  (0 < n)%nat ->
  frame_inv Yd p (n * q') rk P W ->
  svd_sorted_contract (mk [rk * n; q']%nat W) (rk * n) q' r aM ->
  tail2 Rops r (snd3 aM) <=
  sumR (p * n) (fun rho => sumR q' (fun c => sq Rops (gR (mk [p * n; q']%nat Yd) [rho; c] - sumR r (fun b => A rho b * B b c)))).
Proof.
  intros Hn [Horth Hfr] HM.
  set (Yk := mk [p * n; q']%nat Yd) in *. set (M := mk [rk * n; q']%nat W) in *.
  set (P' := fun (al b : nat) => sumR p (fun j => P j (al / n)%nat * A (j * n + al mod n)%nat b)).
  pose proof (eckart_young_holds M (rk * n)%nat q' r aM HM P' B) as EY.
  eapply Rle_trans; [exact EY|].
  set (y := fun (rho c : nat) => gR Yk [rho; c] - sumR r (fun b => A rho b * B b c)).
  assert (HA : forall a i c, (a < rk)%nat -> (i < n)%nat -> (c < q')%nat ->
            gR M [(a * n + i)%nat; c] - sumR r (fun b => P' (a * n + i)%nat b * B b c)
            = sumR p (fun j => P j a * y (j * n + i)%nat c)).
  { intros a i c Ha Hi Hc. destruct (divmod_lin a i n Hi) as [Ed Em].
    unfold M. rewrite g_mk2.
    replace ((a * n + i) * q' + c)%nat with (a * (n * q') + (i * q' + c))%nat by lia.
    rewrite Hfr by (first [exact Ha | nia]).
    transitivity (sumR p (fun j => P j a * gR Yk [(j * n + i)%nat; c]) -
                  sumR p (fun j => P j a * sumR r (fun b => A (j * n + i)%nat b * B b c))).
    - f_equal.
      + apply sumR_ext. intros j Hj. unfold Yk. rewrite g_mk2. f_equal. f_equal. lia.
      + unfold P'. rewrite Ed, Em.
        transitivity (sumR r (fun b => sumR p (fun j => P j a * (A (j * n + i)%nat b * B b c)))).
        * apply sumR_ext. intros b Hb. rewrite <- sumR_scal_r. apply sumR_ext. intros j Hj. ring.
        * rewrite sumR_exch. apply sumR_ext. intros j Hj. now rewrite sumR_scal_l.
    - rewrite <- sumR_sub. apply sumR_ext. intros j Hj. unfold y. ring. }
  rewrite (sumR_mul rk n), (sumR_mul p n).
  apply Rle_trans with (sumR n (fun i => sumR q' (fun c => sumR rk (fun a => sq Rops (sumR p (fun j => P j a * y (j * n + i)%nat c)))))).
  { apply Req_le. rewrite sumR_exch. apply sumR_ext. intros i Hi. rewrite sumR_exch. apply sumR_ext. intros c Hc.
    apply sumR_ext. intros a Ha. cbn [fsub Rops]. f_equal. now apply HA. }
  apply Rle_trans with (sumR n (fun i => sumR q' (fun c => sumR p (fun j => sq Rops (y (j * n + i)%nat c))))).
  { apply sumR_le'. intros i Hi. apply sumR_le'. intros c Hc.
    exact (bessel_sumR p rk P (fun j => y (j * n + i)%nat c) Horth). }
  apply Req_le. symmetry. rewrite sumR_exch. apply sumR_ext. intros i Hi. rewrite sumR_exch. apply sumR_ext. intros c Hc.
  apply sumR_ext. intros j Hj. reflexivity.
Qed.

(* ------------------------------------------------------------------ block-wise projection of an approximant of X_<k+1> *)
Lemma ring_block_approx (Xd Wd : list R) (u : nat -> nat -> R) (s0 r0 r1 m c rho r : nat) (A B : nat -> nat -> R) :
  (0 < m)%nat -> (0 < c)%nat -> (0 < r0)%nat ->
  orthonormal_fun Rops u s0 (r0 * r1) ->
  (forall b j a, (b < r1)%nat -> (j < m * c)%nat -> (a < r0)%nat ->
     nth ((b * (m * c) + j) * r0 + a) Wd 0 = sumR s0 (fun i0 => u i0 (a * r1 + b)%nat * nth (i0 * (m * c) + j) Xd 0)) ->
  (rho * r0 <= r)%nat ->
  exists A' B' : nat -> nat -> R,
    sumR (r1 * m) (fun row => sumR (c * r0) (fun col =>
       sq Rops (gR (mk [(r1 * m)%nat; (c * r0)%nat] Wd) [row; col] - sumR r (fun l => A' row l * B' l col))))
    <= sumR (s0 * m) (fun row => sumR c (fun t =>
       sq Rops (gR (mk [(s0 * m)%nat; c] Xd) [row; t] - sumR rho (fun e => A row e * B e t)))).
Proof.
  intros Hm Hc0 Hr0 Ou Hent Hr.
  exists (fun row l => sumR s0 (fun i0 => u i0 ((l mod r0) * r1 + row / m)%nat * A (i0 * m + row mod m)%nat (l / r0)%nat)),
         (fun l col => if (l <? rho * r0)%nat then B (l / r0)%nat (col / r0)%nat * dlt (l mod r0) (col mod r0) else 0).
  set (y := fun (row t : nat) => gR (mk [(s0 * m)%nat; c] Xd) [row; t] - sumR rho (fun e => A row e * B e t)).
  (* the residual of W1_[k], entry by entry *)
  assert (Hres : forall b i t a, (b < r1)%nat -> (i < m)%nat -> (t < c)%nat -> (a < r0)%nat ->
     gR (mk [(r1 * m)%nat; (c * r0)%nat] Wd) [(b * m + i)%nat; (t * r0 + a)%nat]
     - sumR r (fun l => sumR s0 (fun i0 => u i0 ((l mod r0) * r1 + (b * m + i) / m)%nat * A (i0 * m + (b * m + i) mod m)%nat (l / r0)%nat)
                        * (if (l <? rho * r0)%nat then B (l / r0)%nat ((t * r0 + a) / r0)%nat * dlt (l mod r0) ((t * r0 + a) mod r0) else 0))
     = sumR s0 (fun i0 => u i0 (a * r1 + b)%nat * y (i0 * m + i)%nat t)).
  { intros b i t a Hb Hi Ht Ha.
    destruct (divmod_lin b i m Hi) as [-> ->]. destruct (divmod_lin t a r0 Ha) as [-> ->].
    rewrite g_mk2.
    replace ((b * m + i) * (c * r0) + (t * r0 + a))%nat with ((b * (m * c) + (i * c + t)) * r0 + a)%nat by nia.
    rewrite Hent by (first [assumption | nia]).
    rewrite (fsumn_tail_zero Rops Rops_ring r (rho * r0)) by
      (first [exact Hr | intros l H1 H2; destruct (Nat.ltb_spec l (rho * r0)); [lia | cbn [fmul f0 Rops]; ring]]).
    rewrite sumR_mul.
    transitivity (sumR s0 (fun i0 => u i0 (a * r1 + b)%nat * gR (mk [(s0 * m)%nat; c] Xd) [(i0 * m + i)%nat; t])
                  - sumR rho (fun e => sumR s0 (fun i0 => u i0 (a * r1 + b)%nat * A (i0 * m + i)%nat e) * B e t)).
    - f_equal.
      + apply sumR_ext. intros i0 Hi0. rewrite g_mk2. f_equal. f_equal. lia.
      + apply sumR_ext. intros e He.
        rewrite (fsumn_single Rops Rops_ring r0 a).
        * destruct (divmod_lin e a r0 Ha) as [-> ->].
          destruct (Nat.ltb_spec (e * r0 + a) (rho * r0)) as [_ | Hge]; [|nia].
          unfold dlt. rewrite Nat.eqb_refl. ring.
        * exact Ha.
        * intros a' Ha' Hne. destruct (divmod_lin e a' r0 Ha') as [-> ->].
          destruct (Nat.ltb_spec (e * r0 + a') (rho * r0)); [|cbn [fmul f0 Rops]; ring].
          unfold dlt. destruct (Nat.eqb_spec a' a); [congruence | cbn [f0 fmul Rops]; ring].
    - unfold y.
      transitivity (sumR s0 (fun i0 => u i0 (a * r1 + b)%nat * gR (mk [(s0 * m)%nat; c] Xd) [(i0 * m + i)%nat; t])
                    - sumR s0 (fun i0 => u i0 (a * r1 + b)%nat * sumR rho (fun e => A (i0 * m + i)%nat e * B e t))).
      + f_equal.
        transitivity (sumR rho (fun e => sumR s0 (fun i0 => u i0 (a * r1 + b)%nat * (A (i0 * m + i)%nat e * B e t)))).
        * apply sumR_ext. intros e He. rewrite <- sumR_scal_r. apply sumR_ext. intros i0 Hi0. ring.
        * rewrite sumR_exch. apply sumR_ext. intros i0 Hi0. now rewrite sumR_scal_l.
      + rewrite <- sumR_sub. apply sumR_ext. intros i0 Hi0. ring. }
  (* both sides as sums over (i, t) of a sum over the frame index resp. over i0 *)
  rewrite (sumR_mul r1 m), (sumR_mul s0 m).
  apply Rle_trans with (sumR m (fun i => sumR c (fun t => sumR (r0 * r1) (fun l =>
          sq Rops (sumR s0 (fun i0 => u i0 l * y (i0 * m + i)%nat t)))))).
  { apply Req_le. rewrite sumR_exch. apply sumR_ext. intros i Hi.
    transitivity (sumR r1 (fun b => sumR c (fun t => sumR r0 (fun a =>
        sq Rops (sumR s0 (fun i0 => u i0 (a * r1 + b)%nat * y (i0 * m + i)%nat t)))))).
    - apply sumR_ext. intros b Hb. rewrite (sumR_mul c r0). apply sumR_ext. intros t Ht. apply sumR_ext. intros a Ha.
      cbn [fsub Rops]. f_equal. now apply Hres.
    - rewrite sumR_exch. apply sumR_ext. intros t Ht. rewrite sumR_exch. rewrite (sumR_mul r0 r1). reflexivity. }
  apply Rle_trans with (sumR m (fun i => sumR c (fun t => sumR s0 (fun i0 => sq Rops (y (i0 * m + i)%nat t))))).
  { apply sumR_le'. intros i Hi. apply sumR_le'. intros t Ht.
    exact (bessel_sumR s0 (r0 * r1) u (fun i0 => y (i0 * m + i)%nat t) Ou). }
  apply Req_le. symmetry. rewrite sumR_exch. apply sumR_ext. intros i Hi. rewrite sumR_exch. apply sumR_ext. intros t Ht.
  apply sumR_ext. intros i0 Hi0. reflexivity.
Qed.

(* ------------------------------------------------------------------ one loop step of the ring against the spectrum of X *)
Lemma ring_step_tail_le (Xd Wd : list R) (u : nat -> nat -> R) (s0 r0 r1 m n c rk r rho : nat)
      (P : nat -> nat -> R) (W : list R) (aM aX : @svdans R) :
  (0 < m)%nat -> (0 < n)%nat -> (0 < c)%nat -> (0 < r0)%nat ->
  orthonormal_fun Rops u s0 (r0 * r1) ->
  (forall b j a, (b < r1)%nat -> (j < (m * n) * c)%nat -> (a < r0)%nat ->
     nth ((b * ((m * n) * c) + j) * r0 + a) Wd 0 = sumR s0 (fun i0 => u i0 (a * r1 + b)%nat * nth (i0 * ((m * n) * c) + j) Xd 0)) ->
  frame_inv Wd (r1 * m) (n * (c * r0)) rk P W ->
  svd_sorted_contract (mk [rk * n; c * r0]%nat W) (rk * n) (c * r0) r aM ->
  svd_full_contract (mk [s0 * (m * n); c]%nat Xd) (s0 * (m * n)) c rho aX ->
  (rho * r0 <= r)%nat ->
  tail2 Rops r (snd3 aM) <= tail2 Rops rho (snd3 aX).
Proof.
  intros Hm Hn Hc Hr0 Ou Hent Hfr HM HX Hr.
  destruct aX as [[UX SX] VX]. cbn [snd3].
  pose proof (disc_tail Rops Rops_ring _ _ _ _ _ _ _ (svd_full_contract_step_full _ _ _ _ _ HX)) as Hd.
  destruct (svd_interface Rops (UX, SX, VX) rho) as [[UX' SX'] VX'].
  destruct (ring_block_approx Xd Wd u s0 r0 r1 (m * n) c rho r
              (fun row e => gR UX' [row; e]) (fun e t => nth e SX' 0 * gR VX' [e; t])
              ltac:(nia) Hc Hr0 Ou Hent Hr) as (A' & B' & Hle).
  pose proof (frame_approx_le Wd (r1 * m) n (c * r0) rk r P W aM A' B' Hn Hfr HM) as Hfa.
  rewrite <- Hd. eapply Rle_trans; [exact Hfa|].
  replace (r1 * m * n)%nat with (r1 * (m * n))%nat by lia.
  eapply Rle_trans; [exact Hle|]. apply Req_le. reflexivity.
Qed.

(* ------------------------------------------------------------------ induction over the loop *)
Section Induct.
Variable svd svdX : nat -> tensor R -> @svdans R.
Variable Xd Wd : list R.
Variable u : nat -> nat -> R.
Variable s0 r0 r1 n_col : nat.
Hypothesis Hr0 : (0 < r0)%nat.
Hypothesis Ou : orthonormal_fun Rops u s0 (r0 * r1).
Hypothesis Hent : forall b j a, (b < r1)%nat -> (j < n_col)%nat -> (a < r0)%nat ->
  nth ((b * n_col + j) * r0 + a) Wd 0 = sumR s0 (fun i0 => u i0 (a * r1 + b)%nat * nth (i0 * n_col + j) Xd 0).

(* the answers svdX gives for the sequential unfoldings (px n_1 ... n_k) x (n_{k+1} ...) of the (rotated) input meet the full
   contract at (realised bond of the step) / r0 kept triplets *)
Fixpoint x_ring_contract_from (px : nat) (sizes rs : list nat) (kx : nat) : Prop :=
  match sizes with
  | [] => True
  | n :: rest =>
    match rest with
    | [] => True
    | _ :: _ =>
      match rs with
      | [] => True
      | r :: rs' =>
        svd_full_contract (mk [(px * n)%nat; prod rest] Xd) (px * n) (prod rest) (r / r0)
                          (svdX kx (mk [(px * n)%nat; prod rest] Xd)) /\
        x_ring_contract_from (px * n) rest rs' (S kx)
      end
    end
  end.

Fixpoint x_ring_tails_from (px : nat) (sizes rs : list nat) (kx : nat) : list R :=
  match sizes with
  | [] => []
  | n :: rest =>
    match rest with
    | [] => []
    | _ :: _ =>
      match rs with
      | [] => []
      | r :: rs' =>
        tail2 Rops (r / r0) (snd3 (svdX kx (mk [(px * n)%nat; prod rest] Xd))) :: x_ring_tails_from (px * n) rest rs' (S kx)
      end
    end
  end.

Lemma ring_loop_tails_le : forall sizes k kx ranks rk W P m px pw,
  (0 < m)%nat -> (0 < prod sizes)%nat -> (m * prod sizes)%nat = n_col -> px = (s0 * m)%nat -> pw = (r1 * m)%nat ->
  frame_inv Wd pw (prod sizes * r0) rk P W ->
  loop_pred Rops svd svd_sorted_contract k sizes ranks rk r0 W ->
  x_ring_contract_from px sizes (loop_rank_list svd k sizes ranks rk r0 W) kx ->
  Forall2 Rle (loop_tail_list svd k sizes ranks rk r0 W)
              (x_ring_tails_from px sizes (loop_rank_list svd k sizes ranks rk r0 W) kx).
Proof.
  induction sizes as [|n rest IH]; intros k kx ranks rk W P m px pw Hm Hpos Hprod Epx Epw Hfr Hpred Hx; [constructor|].
  destruct rest as [|n2 rest2]; [constructor|].
  set (rest := n2 :: rest2) in *.
  rewrite prod_cons in Hpos, Hprod, Hfr.
  assert (Hn : (0 < n)%nat) by nia. assert (Hrest : (0 < prod rest)%nat) by nia.
  unfold rest in Hx, Hpred |- *.
  rewrite loop_tail_list_cons. rewrite loop_rank_list_cons in Hx |- *. cbn [loop_pred] in Hpred. cbv zeta in Hx, Hpred |- *.
  fold rest in Hx, Hpred |- *.
  set (c := prod rest) in *.
  set (q' := (c * r0)%nat) in *.
  set (r := Nat.min (rk * n) (Nat.min q' (hd 1%nat ranks))) in *.
  set (M := mk [(rk * n)%nat; q'] W) in *.
  destruct Hpred as [Hc Hpred'].
  destruct (svd k M) as [[UM SM] VM] eqn:Esvd.
  pose proof (frame_step Wd pw n q' rk r P W (UM, SM, VM) Hn) as Hstep.
  destruct (svd_interface Rops (UM, SM, VM) r) as [[U' S'] V'] eqn:Eint.
  cbn [x_ring_contract_from x_ring_tails_from] in Hx |- *. fold rest in Hx |- *. fold c in Hx |- *.
  destruct Hx as [HcX Hx'].
  assert (Hfr' : frame_inv Wd pw (n * q') rk P W).
  { replace (n * q')%nat with (n * c * r0)%nat by (unfold q'; lia). exact Hfr. }
  constructor.
  - subst px pw.
    apply (ring_step_tail_le Xd Wd u s0 r0 r1 m n c rk r (r / r0) P W (UM, SM, VM) _ Hm Hn Hrest Hr0 Ou).
    + intros b j a Hb Hj Ha. replace (m * n * c)%nat with n_col by (rewrite <- Hprod; lia).
      apply Hent; try assumption. rewrite <- Hprod. nia.
    + exact Hfr'.
    + exact Hc.
    + replace (s0 * (m * n))%nat with (s0 * m * n)%nat by lia. exact HcX.
    + rewrite Nat.mul_comm. apply Nat.mul_div_le. lia.
  - specialize (Hstep Hfr' (proj1 Hc)).
    apply (IH (S k) (S kx) (tl ranks) r (data (sv_mul Rops S' V')) (next_frame P rk n U') (m * n)%nat (px * n)%nat (pw * n)%nat).
    + nia.
    + exact Hrest.
    + rewrite <- Hprod. fold c. lia.
    + subst px. lia.
    + subst pw. lia.
    + exact Hstep.
    + exact Hpred'.
    + exact Hx'.
Qed.
End Induct.

(* ------------------------------------------------------------------ tensor_ring *)
Section Top.
Variable svd svdX : nat -> tensor R -> @svdans R.

Definition tr_core_x_contract (Xp : tensor R) (rk : list nat) : Prop :=
  let s0 := hd 0%nat (shape Xp) in
  let rest := tl (shape Xp) in
  let r0 := nth 0 rk 0%nat in
  let r1 := nth 1 rk 0%nat in
  let n_col := prod rest in
  let M := mk [s0; n_col] (data Xp) in
  let '(U, Sv, V) := svd_interface Rops (svd 0%nat M) (r0 * r1) in
  let Wd := data (transpose 0 [1; 2; 0]%nat (reshape [r0; r1; n_col] (sv_mul Rops Sv V))) in
  x_ring_contract_from svdX (data Xp) r0 s0 rest (loop_rank_list svd 1 rest (skipn 2 rk) r1 r0 Wd) 1.

(* discarded squared singular values of the FIRST unfolding (rank[0]*rank[1] kept; it is an unfolding of X itself) followed by those
   of the sequential unfoldings of the (rotated) input at (realised bond) / rank[0] kept triplets *)
Definition tr_core_x_tail_list (Xp : tensor R) (rk : list nat) : list R :=
  let s0 := hd 0%nat (shape Xp) in
  let rest := tl (shape Xp) in
  let r0 := nth 0 rk 0%nat in
  let r1 := nth 1 rk 0%nat in
  let n_col := prod rest in
  let M := mk [s0; n_col] (data Xp) in
  let '(_, Sv0, _) := svd 0%nat M in
  let '(U, Sv, V) := svd_interface Rops (svd 0%nat M) (r0 * r1) in
  let Wd := data (transpose 0 [1; 2; 0]%nat (reshape [r0; r1; n_col] (sv_mul Rops Sv V))) in
  tail2 Rops (r0 * r1) Sv0 ::
  x_ring_tails_from svdX (data Xp) r0 s0 rest (loop_rank_list svd 1 rest (skipn 2 rk) r1 r0 Wd) 1.

Lemma tr_core_tails_le Xp rk :
  (0 < prod (tl (shape Xp)) * nth 0 rk 0)%nat ->
  tr_core_sorted svd Xp rk -> tr_core_x_contract Xp rk ->
  Forall2 Rle (tr_core_tail_list svd Xp rk) (tr_core_x_tail_list Xp rk).
Proof.
  unfold tr_core_sorted, tr_core_x_contract, tr_core_tail_list, tr_core_x_tail_list. cbv zeta.
  set (s0 := hd 0%nat (shape Xp)). set (rest := tl (shape Xp)).
  set (r0 := nth 0 rk 0%nat). set (r1 := nth 1 rk 0%nat). set (n_col := prod rest).
  set (M := mk [s0; n_col] (data Xp)).
  intros Hpos [Hs1 Hs2] Hx.
  pose proof (svd_interface_orth Rops Rops_ring _ _ _ _ _
                (step_full_orth Rops _ _ _ _ _ (svd_full_contract_step_full _ _ _ _ _ (proj1 Hs1)))) as H.
  destruct (svd 0%nat M) as [[U0 Sv0] V0].
  destruct (svd_interface Rops (U0, Sv0, V0) (r0 * r1)) as [[U' S'] V'].
  destruct H as (HU' & HV' & HS' & OU' & Hrem).
  cbv zeta in Hx |- *.
  set (Wd := data (transpose 0 [1; 2; 0]%nat (reshape [r0; r1; n_col] (sv_mul Rops S' V')))) in *.
  assert (Hr0 : (0 < r0)%nat) by nia. assert (Hnc : (0 < n_col)%nat) by (unfold n_col; nia).
  constructor; [lra|].
  apply (ring_loop_tails_le svd svdX (data Xp) Wd (fun i0 l => gR U' [i0; l]) s0 r0 r1 n_col Hr0 OU'
           ) with (P := dlt) (m := 1%nat) (pw := r1).
  - intros b j a Hb Hj Ha. unfold Wd. rewrite (w1_entry r0 r1 n_col S' V' b j a HV' Hb Hj Ha).
    assert (Hl : (a * r1 + b < r0 * r1)%nat) by nia.
    pose proof (Hrem (a * r1 + b)%nat j Hl Hj) as Hr. cbn [fmul f0 Rops] in Hr. rewrite <- Hr.
    apply sumR_ext. intros i0 Hi0. unfold M. rewrite g_mk2. reflexivity.
  - lia.
  - exact Hnc.
  - unfold n_col. lia.
  - lia.
  - lia.
  - apply frame_id.
  - exact Hs2.
  - exact Hx.
Qed.

Definition tr_x_contract (X : tensor R) (rank : rank_spec) (mode : nat) : Prop :=
  let n := ndim X in
  match validate_tr_rank n rank with
  | Ok rk0 =>
    let Xp := if Nat.eqb mode 0 then X else transpose 0 (rotate mode (seq 0 n)) X in
    let rk := if Nat.eqb mode 0 then rk0 else tr_rotate_rank n mode rk0 in
    (0 < prod (tl (shape Xp)) * nth 0 rk 0)%nat /\ tr_core_x_contract Xp rk
  | Err => True
  end.

Definition tr_x_tail_list (X : tensor R) (rank : rank_spec) (mode : nat) : list R :=
  let n := ndim X in
  match validate_tr_rank n rank with
  | Ok rk0 =>
    tr_core_x_tail_list (if Nat.eqb mode 0 then X else transpose 0 (rotate mode (seq 0 n)) X)
                        (if Nat.eqb mode 0 then rk0 else tr_rotate_rank n mode rk0)
  | Err => []
  end.

Lemma tr_sorted_full X rank mode : tr_sorted svd X rank mode -> tr_full_R svd X rank mode.
Proof.
  unfold tr_sorted, tr_full_R. cbv zeta. destruct (validate_tr_rank (ndim X) rank) as [rk0|]; [|trivial].
  unfold tr_core_sorted, tr_core_full_R. cbv zeta. intros [[H1 _] H2]. split; [exact H1|].
  destruct (svd_interface Rops _ _) as [[U Sv] V].
  unfold loop_full_R. revert H2. apply (loop_pred_impl Rops svd). intros M m n r a [H _]. exact H.
Qed.

(* tensor_ring, EVERY start mode: squared error <= discarded squared singular values of the first unfolding of the rotated input
   (rank[mode] * rank[mode+1] kept) + sum over its later sequential unfoldings of their discarded squared singular values at
   (realised bond) / rank[mode] kept triplets.  For rank[mode] = 1 this is the TT-SVD root-sum-square bound. *)
Theorem tensor_ring_error_upper X rank mode cores :
  tr_sorted svd X rank mode -> tr_x_contract X rank mode ->
  tensor_ring Rops svd X rank mode = Ok cores ->
  tr_err2 Rops X cores <= Rsum (tr_x_tail_list X rank mode).
Proof.
  intros Hs Hx Hrun.
  destruct (tensor_ring_error_sigma_R svd X rank mode cores (tr_sorted_full X rank mode Hs) Hrun) as [Heq _].
  rewrite Heq. apply Rsum_le.
  revert Hs Hx. unfold tr_sorted, tr_x_contract, tr_tail_list, tr_x_tail_list. cbv zeta.
  destruct (validate_tr_rank (ndim X) rank) as [rk0|]; [|constructor].
  intros Hs [Hpos Hx]. now apply tr_core_tails_le.
Qed.
End Top.

(* non-vacuity: X = diag(2, 1), ring request (1, 1, 1), start mode 0, LAPACK answering (I, [2; 1], I): a genuine truncation *)
Example tr_upper_hypotheses_satisfiable :
  let svd := fun (_ : nat) (_ : tensor R) => ey_a in
  tr_sorted svd ey_M (inr [1; 1; 1]%nat) 0 /\ tr_x_contract svd svd ey_M (inr [1; 1; 1]%nat) 0.
Proof.
  cbv zeta. split.
  - unfold tr_sorted. cbv zeta. cbn [validate_tr_rank ndim shape ey_M length Nat.add Nat.eqb hd last andb].
    unfold tr_core_sorted. cbv zeta. split; [exact ey_instance_contract|].
    destruct (svd_interface Rops ey_a _) as [[U' S'] V']. exact I.
  - unfold tr_x_contract. cbv zeta. cbn [validate_tr_rank ndim shape ey_M length Nat.add Nat.eqb hd last andb].
    split; [cbn; lia|]. unfold tr_core_x_contract. cbv zeta.
    destruct (svd_interface Rops ey_a _) as [[U' S'] V']. exact I.
Qed.
