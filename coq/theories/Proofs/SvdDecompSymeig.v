(* C09, svd="symeig_svd":
   1. (any commutative ring) the chain induction of Proofs/SvdDecompProofs.v restated for the WEAKEST per-call
      contract -- "the truncated, sign-flipped answer multiplies back to the query" (step_exact) -- so that it applies to
      SVD methods whose discarded singular values are not zero (symeig_svd clips them at sqrt(eps));
   2. (reals) svd_interface keeps the truncated product even when a kept column of U is zero (sign 0): no
      non-zero-column / orthonormality hypothesis on U is needed (svd_interface_exact_terms);
   3. (reals) one symeig_svd call is exact as soon as eigh's eigenvector matrix is orthogonal, the clipped square
      roots are non-zero (which the clip at eps > 0 guarantees: clip_sqrt_nonzero) and the discarded eigenvectors lie in
      the null space of the query -- NOTHING is assumed about the kept null-space columns (which the code derives by
      dividing by sqrt(eps), recorded finding symeig_svd_rank_deficient of C05), both branches of the code;
   4. (reals) TT-SVD with svd="symeig_svd" reproduces X when every call of the run meets that contract. *)
From Coq Require Import List Arith Lia Bool Ring Reals Lra RealField.
From TLV Require Import Base.Shape Base.PyList Base.Tensor Base.BigSum Base.Ops Model.Base Model.SvdDecomp Model.SvdDecompSymeig
     Proofs.SvdDecompProofs Proofs.SvdDecompProofsR.
Import ListNotations.

Section Gen.
Context {F : Type} (Op : fops F).
Hypothesis Rth : ring_theory (f0 Op) (f1 Op) (fadd Op) (fmul Op) (fsub Op) (fopp Op) (@eq F).
Add Ring Fr2 : Rth.
Notation fz := (f0 Op).
Notation fone := (f1 Op).
Infix "+f" := (fadd Op) (at level 50, left associativity).
Infix "*f" := (fmul Op) (at level 40, left associativity).
Notation fsum := (fsumn Op).
Notation gg := (g Op).
Variable svd : nat -> tensor F -> @svdans F.

Definition step_exact (M : tensor F) (m n r : nat) (a : @svdans F) : Prop :=
  fact_exact Op M m n r (svd_interface Op a r).

Definition loop_exact := loop_pred Op svd step_exact.

Lemma step_ok_step_exact M m n r a : step_ok Op M m n r a -> step_exact M m n r a.
Proof. apply (svd_interface_exact Op Rth). Qed.

Theorem chain_loop_exact_gen : forall sizes k ranks rk r0 W cores,
  loop_exact k sizes ranks rk r0 W ->
  chain_loop Op svd k sizes ranks rk r0 W = Ok cores ->
  forall a idx c, a < rk -> inb sizes idx -> c < r0 ->
    chain Op cores a idx c = nth ((a * prod sizes + ravel sizes idx) * r0 + c) W fz.
Proof.
  induction sizes as [|n rest IH]; intros k ranks rk r0 W cores Hok Hrun a idx c Ha Hidx Hc.
  - simpl in Hrun. discriminate.
  - destruct rest as [|n2 rest2].
    + simpl in Hrun. injection Hrun as <-.
      destruct idx as [|i [|? ?]]; simpl in Hidx; try tauto. destruct Hidx as [Hi _].
      rewrite chain_cons. cbn [shape nth].
      rewrite (fsumn_single Op Rth r0 c) by (first [exact Hc | intros b Hb Hne; rewrite chain_nil;
        destruct (Nat.eqb_spec b c); [contradiction | ring]]).
      rewrite chain_nil, Nat.eqb_refl. unfold g, get. cbn [shape data ravel prod fold_right].
      transitivity (nth (a * (n * (r0 * 1)) + (i * (r0 * 1) + (c * 1 + 0))) W fz); [ring|].
      f_equal. ring.
    + set (rest := n2 :: rest2) in *.
      destruct idx as [|i idx']; [simpl in Hidx; tauto|]. destruct Hidx as [Hi Hidx'].
      cbn [chain_loop] in Hrun. unfold loop_exact in Hok. cbn [loop_pred] in Hok. fold rest in Hrun, Hok.
      cbv zeta in Hrun, Hok.
      set (n_row := rk * n) in *. set (n_col := prod rest * r0) in *.
      set (r := Nat.min n_row (Nat.min n_col (hd 1 ranks))) in *.
      set (M := mk [n_row; n_col] W) in *.
      destruct Hok as [Hstep Hrest].
      pose proof Hstep as Hex. unfold step_exact in Hex.
      destruct (svd_interface Op (svd k M) r) as [[U' S'] V'] eqn:Esvd.
      destruct Hex as (HU' & HV' & HS' & Hprod).
      destruct (fact_shapes_ok n_row n_col r (U', S', V')); [|discriminate].
      destruct (chain_loop Op svd (S k) rest (tl ranks) r r0 (data (sv_mul Op S' V'))) as [cs|] eqn:Ecs;
        [|discriminate].
      simpl in Hrun. injection Hrun as <-.
      rewrite chain_cons. cbn [shape reshape nth].
      set (row := a * n + i). set (col := ravel rest idx' * r0 + c).
      assert (Hrow : row < n_row) by (unfold row, n_row; nia).
      assert (Hcol : col < n_col).
      { unfold col, n_col. pose proof (ravel_lt _ _ Hidx'). nia. }
      transitivity (fsum r (fun b => gg U' [row; b] *f (nth b S' fz *f gg V' [b; col]))).
      * apply fsumn_ext. intros b Hb. f_equal.
        -- unfold g, get, reshape. cbn [shape data]. rewrite HU'. cbn [ravel prod fold_right].
           f_equal. unfold row. ring.
        -- rewrite (IH (S k) (tl ranks) r r0 _ cs Hrest Ecs b idx' c Hb Hidx' Hc).
           transitivity (gg (sv_mul Op S' V') [b; col]).
           ++ unfold g, get. unfold sv_mul at 2. cbn [shape tabulate]. rewrite HV'.
              cbn [ravel prod fold_right]. f_equal. unfold col, n_col. ring.
           ++ unfold sv_mul. rewrite HV'. rewrite g_tab2 by assumption. reflexivity.
      * rewrite (Hprod row col Hrow Hcol). unfold M, g, get. cbn [shape data ravel prod fold_right].
        f_equal. unfold row, col, n_col. fold rest. change (fold_right Nat.mul 1 rest) with (prod rest). ring.
Qed.

Definition tt_exact_calls (X : tensor F) (rank : rank_spec) : Prop :=
  match validate_tt_rank (ndim X) rank with
  | Ok rk => loop_exact 0 (shape X) (tl rk) 1 1 (data X)
  | Err => True
  end.

Theorem tensor_train_exact_gen X rank cores :
  tt_exact_calls X rank -> tensor_train Op svd X rank = Ok cores ->
  forall idx, inb (shape X) idx -> tt_entry Op cores idx = gg X idx.
Proof.
  unfold tt_exact_calls, tensor_train, tt_entry. destruct (validate_tt_rank (ndim X) rank) as [rk|]; [|discriminate].
  simpl rbind. intros Hok Hrun idx Hidx. destruct (ndim X <=? 1); [discriminate|].
  rewrite (chain_loop_exact_gen _ _ _ _ _ _ _ Hok Hrun 0 idx 0) by (auto with arith).
  unfold g, get. f_equal. lia.
Qed.

End Gen.

(* ------------------------------------------------------------------ reals: the sign flip never changes the product *)
Local Open Scope R_scope.

Definition terms_contract (M : tensor R) (m n r : nat) (a : @svdans R) : Prop :=
  let '(U, Sv, V) := a in
  exists KU KV, (r <= KU)%nat /\ (r <= KV)%nat /\ shape U = [m; KU] /\ shape V = [KV; n] /\ (r <= length Sv)%nat /\
    forall i c, (i < m)%nat -> (c < n)%nat ->
      sumR r (fun l => gR U [i; l] * (nth l Sv 0 * gR V [l; c])) = gR M [i; c].

Lemma column_all_zero (T : tensor R) (m r l : nat) :
  shape T = [m; r] -> (l < r)%nat ->
  let cl := column Rops T l in
  nth (argmax_abs Rops cl) cl 0 = 0 -> forall i, (i < m)%nat -> gR T [i; l] = 0.
Proof.
  intros HT Hl cl Hz i Hi. apply ab_zero. rewrite <- ab_0, <- Hz. apply argmax_abs_max.
  unfold cl, column, nrows. rewrite HT. cbn [nth]. apply in_map_iff. exists i. split; [reflexivity | apply in_seq; lia].
Qed.

Lemma flip_sign_nth (T : tensor R) (m r l : nat) :
  shape T = [m; r] -> (l < r)%nat ->
  nth l (flip_signs Rops T) 1 = fsign Rops (nth (argmax_abs Rops (column Rops T l)) (column Rops T l) 0).
Proof.
  intros HT Hl. unfold flip_signs, ncols. rewrite HT. cbn [nth].
  set (f := fun j => fsign Rops (nth (argmax_abs Rops (column Rops T j)) (column Rops T j) 0)).
  change (nth l (map f (seq 0 r)) 1 = f l).
  rewrite (nth_indep _ 1 (f 0%nat)) by (rewrite map_length, seq_length; exact Hl).
  rewrite map_nth. rewrite seq_nth by exact Hl. reflexivity.
Qed.

Lemma svd_interface_exact_terms M m n r a : terms_contract M m n r a -> step_exact Rops M m n r a.
Proof.
  destruct a as [[U Sv] V]. unfold terms_contract, step_exact, fact_exact, svd_interface, truncated_svd, svd_flip.
  intros (KU & KV & HrU & HrV & HU & HV & HlenS & Hprod).
  assert (EU : cols_firstn Rops r U = tabulate [m; r] (fun idx => gR U idx)).
  { unfold cols_firstn, nrows, ncols. rewrite HU. simpl nth. now rewrite Nat.min_l by exact HrU. }
  assert (EV : rows_firstn Rops r V = tabulate [r; n] (fun idx => gR V idx)).
  { unfold rows_firstn, nrows, ncols. rewrite HV. simpl nth. now rewrite Nat.min_l by exact HrV. }
  rewrite EU, EV.
  set (T := tabulate [m; r] (fun idx => gR U idx)).
  assert (HT : shape T = [m; r]) by reflexivity.
  set (sg := flip_signs Rops T).
  repeat split.
  - rewrite firstn_length. lia.
  - intros i c Hi Hc. rewrite <- (Hprod i c Hi Hc).
    apply fsumn_ext. intros l Hl. unfold scale_cols, scale_rows. cbn [shape tabulate]. rewrite HT.
    rewrite !(g_tab2 Rops) by assumption. cbn [nth fmul Rops].
    rewrite nth_firstn' by exact Hl.
    assert (ET : forall i', (i' < m)%nat -> gR T [i'; l] = gR U [i'; l]).
    { intros i' Hi'. unfold T. now rewrite (g_tab2 Rops). }
    rewrite ET by exact Hi.
    cbn [f0 f1 Rops]. unfold sg. rewrite (flip_sign_nth T m r l HT Hl).
    set (x := nth (argmax_abs Rops (column Rops T l)) (column Rops T l) 0).
    destruct (Req_dec x 0) as [Hx|Hx].
    + pose proof (column_all_zero T m r l HT Hl Hx i Hi) as Hz. rewrite ET in Hz by exact Hi. rewrite Hz. ring.
    + pose proof (fsign_sq x Hx) as Hs. cbn [fmul Rops] in Hs.
      transitivity (gR U [i; l] * (nth l Sv 0 * gR V [l; c]) * (fsign Rops x * fsign Rops x)); [ring|].
      rewrite Hs. ring.
Qed.

(* the plain SVD contract of SvdDecompProofsR.v is an instance (orthonormality of U is not needed) *)
Lemma clip_sqrt_nonzero (eps lam : R) : 0 < eps -> sqrt (clip_min Rops eps lam) <> 0.
Proof.
  intros He. unfold clip_min. destruct (fltb Rops lam eps) eqn:E.
  - intros H. apply sqrt_eq_0 in H; lra.
  - apply fltb_false in E. intros H. apply sqrt_eq_0 in H; lra.
Qed.

(* ------------------------------------------------------------------ reals: one symeig_svd call *)
Lemma sumR_shift n (h : nat -> R) : sumR (S n) h = h 0%nat + sumR n (fun k => h (S k)).
Proof.
  induction n.
  - unfold fsumn. cbn. ring.
  - rewrite (fsumn_S Rops (S n)), IHn, (fsumn_S Rops n). cbn [fadd Rops]. ring.
Qed.

Lemma sumR_rev n (h : nat -> R) : sumR n (fun l => h (n - 1 - l)%nat) = sumR n h.
Proof.
  revert h. induction n; intros h; [reflexivity|].
  rewrite (fsumn_S Rops n). cbn [fadd Rops]. replace (S n - 1 - n)%nat with 0%nat by lia.
  rewrite sumR_shift. rewrite <- (IHn (fun k => h (S k))).
  rewrite Rplus_comm. f_equal. apply fsumn_ext. intros l Hl. f_equal. lia.
Qed.

Lemma sumR_tail_zero K r (f : nat -> R) : (r <= K)%nat -> (forall l, (r <= l)%nat -> (l < K)%nat -> f l = 0) -> sumR K f = sumR r f.
Proof. exact (fsumn_tail_zero Rops Rops_ring K r f). Qed.

Definition delta (j c : nat) : R := if Nat.eqb j c then 1 else 0.

Lemma sumR_delta n c (a : nat -> R) : (c < n)%nat -> sumR n (fun j => a j * delta j c) = a c.
Proof.
  intros Hc. rewrite (fsumn_single Rops Rops_ring n c) by (first [exact Hc | intros i Hi Hne; unfold delta;
    destruct (Nat.eqb_spec i c); [contradiction | cbn [f0 Rops]; ring]]).
  unfold delta. rewrite Nat.eqb_refl. ring.
Qed.

(* branch "otherwise" of the code (dim_1 <= dim_2): S, V = eigh(M^T M); U = (M V) / S.
   W (n x n) is eigh's eigenvector matrix; what is used of eigh's contract is W W^T = I only. *)
Theorem symeig_step_exact_wide (M W : tensor R) (s : list R) (m n r : nat) :
  shape M = [m; n] -> shape W = [n; n] -> length s = n -> (m <= n)%nat -> (r <= m)%nat ->
  (forall l, (l < n)%nat -> nth l s 0 <> 0) ->
  (forall j c, (j < n)%nat -> (c < n)%nat -> sumR n (fun l => gR W [j; l] * gR W [c; l]) = delta j c) ->
  (forall l i, (l < n - r)%nat -> (i < m)%nat -> sumR n (fun j => gR M [i; j] * gR W [j; l]) = 0) ->
  step_exact Rops M m n r (symeig_ans Rops M W s).
Proof.
  intros HM HW Hs Hmn Hrm Hnz Horth Hnull. apply svd_interface_exact_terms.
  unfold symeig_ans, symeig_raw, nrows, ncols. rewrite HM. cbn [nth].
  assert (E : (n <? m) = false) by (apply Nat.ltb_ge; exact Hmn). rewrite E.
  unfold terms_contract. exists m, n.
  set (MW := matmul Rops M W). set (U0 := div_cols Rops MW s).
  assert (HMW : shape MW = [m; n]). { unfold MW, matmul, nrows, ncols. rewrite HM, HW. reflexivity. }
  assert (HU0 : shape U0 = [m; n]). { unfold U0, div_cols. cbn [shape tabulate]. exact HMW. }
  assert (gMW : forall i l, (i < m)%nat -> (l < n)%nat -> gR MW [i; l] = sumR n (fun j => gR M [i; j] * gR W [j; l])).
  { intros i l Hi Hl. unfold MW, matmul, nrows, ncols. rewrite HM, HW. cbn [nth]. rewrite (g_tab2 Rops) by assumption. reflexivity. }
  repeat split.
  - exact Hrm.
  - lia.
  - unfold cols_firstn, nrows, ncols, flip_cols. cbn [shape tabulate]. rewrite HU0. cbn [nth]. now rewrite Nat.min_l by exact Hmn.
  - unfold rows_firstn, nrows, ncols, flip_rows, mtrans. cbn [shape tabulate]. unfold nrows, ncols. rewrite HW. cbn [nth]. now rewrite Nat.min_id.
  - rewrite firstn_length, rev_length, Hs. lia.
  - intros i c Hi Hc.
    transitivity (sumR r (fun l => gR MW [i; (n - 1 - l)%nat] * gR W [c; (n - 1 - l)%nat])).
    + apply fsumn_ext. intros l Hl. cbn [fmul Rops].
      assert (Hln : (l < n)%nat) by lia. assert (Hl' : (n - 1 - l < n)%nat) by lia.
      (* U *)
      unfold cols_firstn at 1. unfold flip_cols. unfold nrows, ncols. cbn [shape tabulate]. rewrite HU0. cbn [nth].
      rewrite (g_tab2 Rops) by (first [exact Hi | lia]).
      unfold g at 1. rewrite get_tabulate by (cbn; lia). cbn [nth]. fold (gR U0 [i; (n - 1 - l)%nat]).
      unfold U0 at 1, div_cols. rewrite HMW. rewrite (g_tab2 Rops) by assumption. cbn [nth fdiv f1 Rops].
      (* S *)
      rewrite nth_firstn' by lia. rewrite rev_nth by (rewrite Hs; exact Hln). rewrite Hs.
      replace (n - S l)%nat with (n - 1 - l)%nat by lia.
      (* V *)
      unfold rows_firstn. unfold flip_rows, mtrans. unfold nrows, ncols. cbn [shape tabulate]. rewrite HW. cbn [nth].
      rewrite (g_tab2 Rops) by (first [rewrite Nat.min_id; exact Hln | exact Hc]).
      rewrite (g_tab2 Rops) by (first [exact Hln | exact Hc]). cbn [nth].
      rewrite (g_tab2 Rops) by (first [exact Hl' | exact Hc]). cbn [nth].
      rewrite (nth_indep s 1 0) by (rewrite Hs; exact Hl').
      pose proof (Hnz _ Hl') as Hne. field. exact Hne.
    + rewrite <- (sumR_tail_zero n r) by (first [lia | intros l H1 H2; rewrite gMW by lia; rewrite Hnull by lia; ring]).
      rewrite (sumR_rev n (fun l' => gR MW [i; l'] * gR W [c; l'])).
      transitivity (sumR n (fun l => sumR n (fun j => gR M [i; j] * (gR W [j; l] * gR W [c; l])))).
      { apply fsumn_ext. intros l Hl. rewrite gMW by assumption.
        rewrite <- (fsumn_scale_r Rops Rops_ring). apply fsumn_ext. intros j Hj. cbn [fmul Rops]. ring. }
      rewrite (fsumn_exchange Rops Rops_ring).
      transitivity (sumR n (fun j => gR M [i; j] * delta j c)).
      { apply fsumn_ext. intros j Hj. rewrite (fsumn_scale_l Rops Rops_ring). cbn [fmul Rops]. f_equal. now apply Horth. }
      now apply sumR_delta.
Qed.

(* entry-level readings of the matrix helpers *)
Lemma shape_matmul (A B : tensor R) a b c : shape A = [a; b] -> shape B = [b; c] -> shape (matmul Rops A B) = [a; c].
Proof. intros HA HB. unfold matmul, nrows, ncols. rewrite HA, HB. reflexivity. Qed.
Lemma g_matmul (A B : tensor R) a b c i k : shape A = [a; b] -> shape B = [b; c] -> (i < a)%nat -> (k < c)%nat ->
  gR (matmul Rops A B) [i; k] = sumR b (fun j => gR A [i; j] * gR B [j; k]).
Proof. intros HA HB Hi Hk. unfold matmul, nrows, ncols. rewrite HA, HB. cbn [nth]. rewrite (g_tab2 Rops) by assumption. reflexivity. Qed.
Lemma shape_mtrans (A : tensor R) a b : shape A = [a; b] -> shape (mtrans Rops A) = [b; a].
Proof. intros HA. unfold mtrans, nrows, ncols. rewrite HA. reflexivity. Qed.
Lemma g_mtrans (A : tensor R) a b i j : shape A = [a; b] -> (i < b)%nat -> (j < a)%nat -> gR (mtrans Rops A) [i; j] = gR A [j; i].
Proof. intros HA Hi Hj. unfold mtrans, nrows, ncols. rewrite HA. cbn [nth]. rewrite (g_tab2 Rops) by assumption. reflexivity. Qed.
Lemma g_div_cols (A : tensor R) s a b i j : shape A = [a; b] -> (i < a)%nat -> (j < b)%nat ->
  gR (div_cols Rops A s) [i; j] = gR A [i; j] / nth j s 1.
Proof. intros HA Hi Hj. unfold div_cols. rewrite HA. rewrite (g_tab2 Rops) by assumption. reflexivity. Qed.
Lemma g_flip_cols (A : tensor R) a b i j : shape A = [a; b] -> (i < a)%nat -> (j < b)%nat ->
  gR (flip_cols Rops A) [i; j] = gR A [i; (b - 1 - j)%nat].
Proof. intros HA Hi Hj. unfold flip_cols, ncols. rewrite HA. rewrite (g_tab2 Rops) by assumption. reflexivity. Qed.
Lemma g_flip_rows (A : tensor R) a b i j : shape A = [a; b] -> (i < a)%nat -> (j < b)%nat ->
  gR (flip_rows Rops A) [i; j] = gR A [(a - 1 - i)%nat; j].
Proof. intros HA Hi Hj. unfold flip_rows, nrows. rewrite HA. rewrite (g_tab2 Rops) by assumption. reflexivity. Qed.
Lemma g_cols_firstn (A : tensor R) k a b i j : shape A = [a; b] -> (i < a)%nat -> (j < Nat.min k b)%nat ->
  gR (cols_firstn Rops k A) [i; j] = gR A [i; j].
Proof. intros HA Hi Hj. unfold cols_firstn, nrows, ncols. rewrite HA. cbn [nth]. rewrite (g_tab2 Rops) by assumption. reflexivity. Qed.
Lemma g_rows_firstn (A : tensor R) k a b i j : shape A = [a; b] -> (i < Nat.min k a)%nat -> (j < b)%nat ->
  gR (rows_firstn Rops k A) [i; j] = gR A [i; j].
Proof. intros HA Hi Hj. unfold rows_firstn, nrows, ncols. rewrite HA. cbn [nth]. rewrite (g_tab2 Rops) by assumption. reflexivity. Qed.

(* branch dim_1 > dim_2 of the code: S, U = eigh(M M^T); V = M^T (U / S).  W is m x m. *)
Theorem symeig_step_exact_tall (M W : tensor R) (s : list R) (m n r : nat) :
  shape M = [m; n] -> shape W = [m; m] -> length s = m -> (n < m)%nat -> (r <= n)%nat ->
  (forall l, (l < m)%nat -> nth l s 0 <> 0) ->
  (forall i i', (i < m)%nat -> (i' < m)%nat -> sumR m (fun l => gR W [i; l] * gR W [i'; l]) = delta i i') ->
  (forall l c, (l < m - r)%nat -> (c < n)%nat -> sumR m (fun i' => gR M [i'; c] * gR W [i'; l]) = 0) ->
  step_exact Rops M m n r (symeig_ans Rops M W s).
Proof.
  intros HM HW Hs Hnm Hrn Hnz Horth Hnull. apply svd_interface_exact_terms.
  unfold symeig_ans, symeig_raw. unfold nrows at 1 2 3, ncols at 1 2 3. rewrite HM. cbn [nth].
  assert (E : (n <? m) = true) by (apply Nat.ltb_lt; exact Hnm). rewrite E.
  set (DW := div_cols Rops W s). set (V0 := matmul Rops (mtrans Rops M) DW).
  assert (HDW : shape DW = [m; m]) by (unfold DW, div_cols; cbn [shape tabulate]; exact HW).
  assert (HMt : shape (mtrans Rops M) = [n; m]) by (now apply shape_mtrans).
  assert (HV0 : shape V0 = [n; m]) by (unfold V0; now apply (shape_matmul _ _ n m m)).
  assert (HV0t : shape (mtrans Rops V0) = [m; n]) by (now apply shape_mtrans).
  assert (HFV : shape (flip_rows Rops (mtrans Rops V0)) = [m; n]) by (unfold flip_rows; cbn [shape tabulate]; exact HV0t).
  assert (HFW : shape (flip_cols Rops W) = [m; m]) by (unfold flip_cols; cbn [shape tabulate]; exact HW).
  unfold terms_contract. exists m, n.
  repeat split.
  - lia.
  - exact Hrn.
  - unfold cols_firstn, nrows, ncols. rewrite HFW. cbn [nth]. now rewrite Nat.min_id.
  - unfold rows_firstn, nrows, ncols. rewrite HFV. cbn [nth]. now rewrite Nat.min_l by lia.
  - rewrite firstn_length, rev_length, Hs. lia.
  - intros i c Hi Hc.
    set (MtW := fun l' => sumR m (fun i' => gR M [i'; c] * gR W [i'; l'])).
    transitivity (sumR r (fun l => gR W [i; (m - 1 - l)%nat] * MtW (m - 1 - l)%nat)).
    + apply fsumn_ext. intros l Hl. cbn [fmul Rops].
      assert (Hlm : (l < m)%nat) by lia. assert (Hl' : (m - 1 - l < m)%nat) by lia.
      rewrite (g_cols_firstn _ m m m) by (first [exact HFW | exact Hi | rewrite Nat.min_id; exact Hlm]).
      rewrite (g_flip_cols _ m m) by assumption.
      rewrite nth_firstn' by lia. rewrite rev_nth by (rewrite Hs; exact Hlm). rewrite Hs.
      replace (m - S l)%nat with (m - 1 - l)%nat by lia.
      rewrite (g_rows_firstn _ n m n) by (first [exact HFV | exact Hc | lia]).
      rewrite (g_flip_rows _ m n) by (first [exact HV0t | exact Hlm | exact Hc]).
      rewrite (g_mtrans _ n m) by (first [exact HV0 | exact Hl' | exact Hc]).
      unfold V0. rewrite (g_matmul _ _ n m m) by assumption.
      pose proof (Hnz _ Hl') as Hne.
      transitivity (gR W [i; (m - 1 - l)%nat] * sumR m (fun j => nth (m - 1 - l) s 0 * (gR (mtrans Rops M) [c; j] * gR DW [j; (m - 1 - l)%nat]))).
      { rewrite (fsumn_scale_l Rops Rops_ring). reflexivity. }
      f_equal. unfold MtW. apply fsumn_ext. intros j Hj. cbn [fmul Rops].
      rewrite (g_mtrans _ m n) by assumption. unfold DW. rewrite (g_div_cols _ _ m m) by assumption.
      rewrite (nth_indep s 1 0) by (rewrite Hs; exact Hl'). field. exact Hne.
    + rewrite <- (sumR_tail_zero m r) by (first [lia | intros l H1 H2; unfold MtW; rewrite Hnull by lia; ring]).
      rewrite (sumR_rev m (fun l' => gR W [i; l'] * MtW l')).
      transitivity (sumR m (fun l => sumR m (fun i' => gR M [i'; c] * (gR W [i; l] * gR W [i'; l])))).
      { apply fsumn_ext. intros l Hl. unfold MtW.
        rewrite <- (fsumn_scale_l Rops Rops_ring). apply fsumn_ext. intros j Hj. cbn [fmul Rops]. ring. }
      rewrite (fsumn_exchange Rops Rops_ring).
      transitivity (sumR m (fun i' => gR M [i'; c] * delta i' i)).
      { apply fsumn_ext. intros j Hj. rewrite (fsumn_scale_l Rops Rops_ring). cbn [fmul Rops]. f_equal.
        rewrite <- (Horth j i Hj Hi). apply fsumn_ext. intros l Hl. ring. }
      now apply sumR_delta.
Qed.

(* ------------------------------------------------------------------ the eigh-level contract of one call, both branches *)
(* eps: the clip level of the code (machine epsilon); lam: eigh's eigenvalues.  K = max(m, n) is the size of the Gram
   matrix the code diagonalises.  Discarded = the first K - r columns of W (eigh returns ascending eigenvalues, the code
   flips). *)
Definition symeig_call_ok (eps : R) (M : tensor R) (m n r : nat) (a : @svdans R) : Prop :=
  exists W s lam,
    a = symeig_ans Rops M W s /\ shape M = [m; n] /\ (r <= Nat.min m n)%nat /\
    let K := if (n <? m)%nat then m else n in
    shape W = [K; K] /\ length s = K /\
    (forall l, (l < K)%nat -> nth l s 0 = sqrt (clip_min Rops eps (nth l lam 0))) /\
    (forall j c, (j < K)%nat -> (c < K)%nat -> sumR K (fun l => gR W [j; l] * gR W [c; l]) = delta j c) /\
    (forall l, (l < K - r)%nat ->
       if (n <? m)%nat then forall c, (c < n)%nat -> sumR m (fun i' => gR M [i'; c] * gR W [i'; l]) = 0
       else forall i, (i < m)%nat -> sumR n (fun j => gR M [i; j] * gR W [j; l]) = 0).

Lemma symeig_call_ok_step_exact eps M m n r a : 0 < eps -> symeig_call_ok eps M m n r a -> step_exact Rops M m n r a.
Proof.
  intros He (W & s & lam & -> & HM & Hr & H). cbv zeta in H.
  destruct (n <? m)%nat eqn:E; destruct H as (HW & Hs & Hsq & Horth & Hnull).
  - apply Nat.ltb_lt in E. apply symeig_step_exact_tall; try assumption; try lia.
    + intros l Hl. rewrite Hsq by exact Hl. now apply clip_sqrt_nonzero.
    + intros l c Hl Hc. now apply Hnull.
  - apply Nat.ltb_ge in E. apply symeig_step_exact_wide; try assumption; try lia.
    + intros l Hl. rewrite Hsq by exact Hl. now apply clip_sqrt_nonzero.
    + intros l i Hl Hi. now apply Hnull.
Qed.

Section RunSymeig.
Variable svd : nat -> tensor R -> @svdans R.
Variable eps : R.
Hypothesis eps_pos : 0 < eps.

Definition tt_symeig_contract (X : tensor R) (rank : rank_spec) : Prop :=
  match validate_tt_rank (ndim X) rank with
  | Ok rk => loop_pred Rops svd (symeig_call_ok eps) 0 (shape X) (tl rk) 1%nat 1%nat (data X)
  | Err => True
  end.

(* TT-SVD / TT-matrix with svd="symeig_svd": exact reconstruction when every eigh answer of the run is orthogonal and the
   eigenvectors the truncation discards are null vectors of the working unfolding (requested ranks >= ranks of the working
   unfoldings); the clip at eps > 0 is what makes the divisions harmless *)
Theorem tensor_train_symeig_exact_R X rank cores :
  tt_symeig_contract X rank -> tensor_train Rops svd X rank = Ok cores ->
  forall idx, inb (shape X) idx -> tt_entry Rops cores idx = gR X idx.
Proof.
  intros H. apply (tensor_train_exact_gen Rops Rops_ring svd). revert H. unfold tt_symeig_contract, tt_exact_calls.
  destruct (validate_tt_rank (ndim X) rank) as [rk|]; [|trivial].
  apply (loop_pred_impl Rops svd). intros M m n r a. now apply symeig_call_ok_step_exact.
Qed.

(* the plain-SVD contract of SvdDecompProofsR.v also implies the weakest contract: one theorem covers both methods *)
Theorem tensor_train_exact_R_via_gen X rank cores :
  tt_contract svd X rank -> tensor_train Rops svd X rank = Ok cores ->
  forall idx, inb (shape X) idx -> tt_entry Rops cores idx = gR X idx.
Proof.
  intros H. apply (tensor_train_exact_gen Rops Rops_ring svd). revert H. unfold tt_contract, tt_exact_calls.
  destruct (validate_tt_rank (ndim X) rank) as [rk|]; [|trivial].
  apply (loop_pred_impl Rops svd). intros M m n r a Hc. apply (step_ok_step_exact Rops Rops_ring). now apply svd_contract_step_ok.
Qed.
End RunSymeig.

(* ------------------------------------------------------------------ slicing: dimensions first, then n_eigenvecs = the code's return expression *)
Section Trunc.
Context {F : Type} (Op : fops F).

Lemma inb2_inv a b idx : inb [a; b] idx -> exists i j, idx = [i; j] /\ (i < a)%nat /\ (j < b)%nat.
Proof.
  destruct idx as [|i [|j [|? ?]]]; simpl; try tauto. intros (Hi & Hj & _). exists i, j. auto.
Qed.

Lemma cols_firstn_twice k1 k2 (U : tensor F) : cols_firstn Op k2 (cols_firstn Op k1 U) = cols_firstn Op (Nat.min k1 k2) U.
Proof.
  apply (tensor_ext (f0 Op)); try apply wf_tabulate.
  - unfold cols_firstn, nrows, ncols. cbn [shape tabulate nth]. f_equal. f_equal. lia.
  - intros idx H. unfold cols_firstn at 1 in H. cbn [shape tabulate] in H.
    destruct (inb2_inv _ _ _ H) as (i & j & -> & Hi & Hj).
    unfold cols_firstn at 1. rewrite get_tabulate by exact H.
    unfold cols_firstn at 2. rewrite get_tabulate.
    2:{ do 3 (unfold nrows, ncols, cols_firstn in *; cbn [shape tabulate nth] in *). simpl. lia. }
    unfold g. unfold cols_firstn. rewrite get_tabulate; [reflexivity|].
    do 3 (unfold nrows, ncols, cols_firstn in *; cbn [shape tabulate nth] in *). simpl. lia.
Qed.

Lemma rows_firstn_twice k1 k2 (V : tensor F) : rows_firstn Op k2 (rows_firstn Op k1 V) = rows_firstn Op (Nat.min k1 k2) V.
Proof.
  apply (tensor_ext (f0 Op)); try apply wf_tabulate.
  - unfold rows_firstn, nrows, ncols. cbn [shape tabulate nth]. f_equal. lia.
  - intros idx H. unfold rows_firstn at 1 in H. cbn [shape tabulate] in H.
    destruct (inb2_inv _ _ _ H) as (i & j & -> & Hi & Hj).
    unfold rows_firstn at 1. rewrite get_tabulate by exact H.
    unfold rows_firstn at 2. rewrite get_tabulate.
    2:{ do 3 (unfold nrows, ncols, rows_firstn in *; cbn [shape tabulate nth] in *). simpl. lia. }
    unfold g. unfold rows_firstn. rewrite get_tabulate; [reflexivity|].
    do 3 (unfold nrows, ncols, rows_firstn in *; cbn [shape tabulate nth] in *). simpl. lia.
Qed.

(* truncated_svd applied to the dimension-sliced answer = the return expression of symeig_svd *)
Theorem symeig_truncation_eq (M W : tensor F) (s : list F) (ne : nat) :
  truncated_svd Op (symeig_ans Op M W s) ne = symeig_svd Op M W s ne.
Proof.
  unfold symeig_svd, symeig_ans, symeig_truncate, truncated_svd.
  destruct (symeig_raw Op M W s) as [[U Sv] V].
  rewrite cols_firstn_twice, rows_firstn_twice, firstn_firstn.
  replace (Nat.min ne (Nat.min (nrows M) (ncols M))) with (Nat.min (nrows M) (Nat.min (ncols M) ne)) by lia. reflexivity.
Qed.
End Trunc.

(* ------------------------------------------------------------------ the contract is satisfiable: a rank-1 2 x 2 query,
   truncating at the true rank (r = 1: the discarded eigenvector is a null vector) and OVER-REQUESTING (r = 2: the null
   vector is kept, its column of U is (M w) / sqrt(eps) = 0) *)
Definition exM : tensor R := mk [2; 2]%nat [3; 4; 6; 8].
Definition exW : tensor R := mk [2; 2]%nat [4/5; 3/5; -3/5; 4/5].
Definition exLam : list R := [0; 125].

Example symeig_contract_satisfiable eps r : 0 < eps -> (r = 1 \/ r = 2)%nat ->
  symeig_call_ok eps exM 2 2 r (symeig_ans Rops exM exW (map (fun x => sqrt (clip_min Rops eps x)) exLam)).
Proof.
  intros He Hr. exists exW, (map (fun x => sqrt (clip_min Rops eps x)) exLam), exLam.
  split; [reflexivity|]. split; [reflexivity|]. split; [simpl; lia|].
  cbv zeta. change (2 <? 2)%nat with false. cbv iota.
  split; [reflexivity|]. split; [reflexivity|]. split; [|split].
  - intros l Hl. destruct l as [|[|l]]; [reflexivity | reflexivity | lia].
  - intros j c Hj Hc. destruct j as [|[|j]]; [| |lia]; (destruct c as [|[|c]]; [| |lia]);
      unfold fsumn, g, get, delta, exW; cbn; lra.
  - intros l Hl i Hi. assert (r = 1 /\ l = 0)%nat as [-> ->] by lia.
    destruct i as [|[|i]]; [| |lia]; unfold fsumn, g, get, exW, exM; cbn; lra.
Qed.

Example symeig_over_requested_exact eps : 0 < eps ->
  step_exact Rops exM 2 2 2 (symeig_ans Rops exM exW (map (fun x => sqrt (clip_min Rops eps x)) exLam)).
Proof. intros He. apply (symeig_call_ok_step_exact eps); [exact He|]. apply symeig_contract_satisfiable; auto. Qed.
