(* C09, svd="symeig_svd": from the LITERAL contract of eigh -- W orthogonal and G W = W diag(lambda) for the Gram matrix G the
   model itself hands to eigh -- plus "the discarded eigenvalues are zero" (i.e. the requested rank is at least the rank of the
   working unfolding) to the per-call contract symeig_call_ok of Proofs/SvdDecompSymeig.v: an eigenvector of M^T M (or M M^T)
   for the eigenvalue 0 is a null vector of M (of M^T), because |M w|^2 = w^T (M^T M) w. *)
From Coq Require Import List Arith Lia Bool Ring Reals Lra RealField.
From TLV Require Import Base.Shape Base.PyList Base.Tensor Base.BigSum Base.Ops Model.Base Model.SvdDecomp Model.SvdDecompSymeig
     Proofs.SvdDecompProofs Proofs.SvdDecompProofsR Proofs.SvdDecompRankCond Proofs.SvdDecompSymeig.
Import ListNotations.
Local Open Scope R_scope.

Lemma gram_null (A : nat -> nat -> R) (p q : nat) (w : nat -> R) :
  (forall j, (j < q)%nat -> sumR q (fun j' => sumR p (fun i => A i j * A i j') * w j') = 0) ->
  forall i, (i < p)%nat -> sumR q (fun j => A i j * w j) = 0.
Proof.
  intros H. set (y := fun i => sumR q (fun j => A i j * w j)).
  assert (Hsq : sumR p (fun i => y i * y i) = 0).
  { transitivity (sumR p (fun i => sumR q (fun j => w j * (A i j * y i)))).
    { apply fsumn_ext. intros i Hi. unfold y at 1. rewrite <- (fsumn_scale_r Rops Rops_ring). apply fsumn_ext. intros j Hj.
      cbn [fmul Rops]. ring. }
    rewrite (fsumn_exchange Rops Rops_ring).
    apply (fsumn_zero Rops Rops_ring). intros j Hj. cbn [f0 Rops].
    rewrite (fsumn_scale_l Rops Rops_ring). cbn [fmul Rops].
    replace (sumR p (fun i => A i j * y i)) with 0; [ring|]. symmetry. rewrite <- (H j Hj).
    transitivity (sumR p (fun i => sumR q (fun j' => A i j * A i j' * w j'))).
    { apply fsumn_ext. intros i Hi. unfold y. rewrite <- (fsumn_scale_l Rops Rops_ring). apply fsumn_ext. intros j' Hj'.
      cbn [fmul Rops]. ring. }
    rewrite (fsumn_exchange Rops Rops_ring). apply fsumn_ext. intros j' Hj'.
    rewrite <- (fsumn_scale_r Rops Rops_ring). reflexivity. }
  intros i Hi. fold (y i).
  assert (Hz : y i * y i = 0).
  { apply (sumR_zero_each p (fun i => y i * y i)); [| exact Hsq | exact Hi]. intros k _. nra. }
  nra.
Qed.

(* the literal contract of eigh for the query G: K x K orthogonal eigenvector matrix, G W = W diag(lam) *)
Definition eigh_contract (G W : tensor R) (lam : list R) (K : nat) : Prop :=
  shape W = [K; K] /\ length lam = K /\
  (forall j c, (j < K)%nat -> (c < K)%nat -> sumR K (fun l => gR W [j; l] * gR W [c; l]) = delta j c) /\
  (forall j l, (j < K)%nat -> (l < K)%nat -> sumR K (fun j' => gR G [j; j'] * gR W [j'; l]) = nth l lam 0 * gR W [j; l]).

Definition symeig_call_eig_ok (eps : R) (M : tensor R) (m n r : nat) (a : @svdans R) : Prop :=
  exists W s lam,
    a = symeig_ans Rops M W s /\ shape M = [m; n] /\ (r <= Nat.min m n)%nat /\
    let K := if (n <? m)%nat then m else n in
    eigh_contract (gram_query Rops M) W lam K /\ length s = K /\
    (forall l, (l < K)%nat -> nth l s 0 = sqrt (clip_min Rops eps (nth l lam 0))) /\
    (forall l, (l < K - r)%nat -> nth l lam 0 = 0).

Lemma g_gram_wide (M : tensor R) m n j j' : shape M = [m; n] -> (m <= n)%nat -> (j < n)%nat -> (j' < n)%nat ->
  gR (gram_query Rops M) [j; j'] = sumR m (fun i => gR M [i; j] * gR M [i; j']).
Proof.
  intros HM Hmn Hj Hj'. unfold gram_query, nrows, ncols. rewrite HM. cbn [nth].
  assert (E : (n <? m)%nat = false) by (apply Nat.ltb_ge; exact Hmn). rewrite E.
  rewrite (g_matmul _ _ n m n) by (first [now apply shape_mtrans | assumption]).
  apply fsumn_ext. intros i Hi. cbn [fmul Rops]. rewrite (g_mtrans _ m n) by assumption. reflexivity.
Qed.

Lemma g_gram_tall (M : tensor R) m n i i' : shape M = [m; n] -> (n < m)%nat -> (i < m)%nat -> (i' < m)%nat ->
  gR (gram_query Rops M) [i; i'] = sumR n (fun c => gR M [i; c] * gR M [i'; c]).
Proof.
  intros HM Hnm Hi Hi'. unfold gram_query, nrows, ncols. rewrite HM. cbn [nth].
  assert (E : (n <? m)%nat = true) by (apply Nat.ltb_lt; exact Hnm). rewrite E.
  rewrite (g_matmul _ _ m n m) by (first [now apply shape_mtrans | assumption]).
  apply fsumn_ext. intros c Hc. cbn [fmul Rops]. rewrite (g_mtrans _ m n) by assumption. reflexivity.
Qed.

Theorem symeig_call_eig_ok_call_ok eps M m n r a : symeig_call_eig_ok eps M m n r a -> symeig_call_ok eps M m n r a.
Proof.
  intros (W & s & lam & Ha & HM & Hr & H). cbv zeta in H. exists W, s, lam.
  split; [exact Ha|]. split; [exact HM|]. split; [exact Hr|]. cbv zeta.
  destruct (n <? m)%nat eqn:E; destruct H as ((HW & Hlam & Horth & Heig) & Hs & Hsq & Hzero).
  - apply Nat.ltb_lt in E. repeat split; try assumption.
    intros l Hl c Hc. revert c Hc.
    apply (gram_null (fun c i' => gR M [i'; c]) n m (fun i' => gR W [i'; l])).
    intros i' Hi'. rewrite <- (Rmult_0_l (gR W [i'; l])), <- (Hzero l Hl), <- (Heig i' l) by lia.
    apply fsumn_ext. intros i'' Hi''. cbn [fmul Rops]. f_equal. rewrite (g_gram_tall M m n) by assumption. reflexivity.
  - apply Nat.ltb_ge in E. repeat split; try assumption.
    intros l Hl i Hi. revert i Hi.
    apply (gram_null (fun i j => gR M [i; j]) m n (fun j => gR W [j; l])).
    intros j Hj. rewrite <- (Rmult_0_l (gR W [j; l])), <- (Hzero l Hl), <- (Heig j l) by lia.
    apply fsumn_ext. intros j' Hj'. cbn [fmul Rops]. f_equal. rewrite (g_gram_wide M m n) by assumption. reflexivity.
Qed.

(* one symeig_svd call under the literal eigh contract and "discarded eigenvalues are zero" *)
Theorem symeig_call_eig_exact eps M m n r a : 0 < eps -> symeig_call_eig_ok eps M m n r a -> step_exact Rops M m n r a.
Proof. intros He H. apply (symeig_call_ok_step_exact eps); [exact He|]. now apply symeig_call_eig_ok_call_ok. Qed.

Section RunEig.
Variable svd : nat -> tensor R -> @svdans R.
Variable eps : R.
Hypothesis eps_pos : 0 < eps.

Definition tt_symeig_eig_contract (X : tensor R) (rank : rank_spec) : Prop :=
  match validate_tt_rank (ndim X) rank with
  | Ok rk => loop_pred Rops svd (symeig_call_eig_ok eps) 0 (shape X) (tl rk) 1%nat 1%nat (data X)
  | Err => True
  end.

Theorem tensor_train_symeig_eig_exact_R X rank cores :
  tt_symeig_eig_contract X rank -> tensor_train Rops svd X rank = Ok cores ->
  forall idx, inb (shape X) idx -> tt_entry Rops cores idx = gR X idx.
Proof.
  intros H. apply (tensor_train_symeig_exact_R svd eps eps_pos). revert H. unfold tt_symeig_eig_contract, tt_symeig_contract.
  destruct (validate_tt_rank (ndim X) rank) as [rk|]; [|trivial].
  apply (loop_pred_impl Rops svd). intros M m n r a. apply symeig_call_eig_ok_call_ok.
Qed.
End RunEig.

(* non-vacuity: the example of SvdDecompSymeig.v meets the literal eigh contract with eigenvalues (0, 125) *)
Example symeig_eig_contract_satisfiable eps r : 0 < eps -> (r = 1 \/ r = 2)%nat ->
  symeig_call_eig_ok eps exM 2 2 r (symeig_ans Rops exM exW (map (fun x => sqrt (clip_min Rops eps x)) exLam)).
Proof.
  intros He Hr. exists exW, (map (fun x => sqrt (clip_min Rops eps x)) exLam), exLam.
  split; [reflexivity|]. split; [reflexivity|]. split; [simpl; lia|].
  cbv zeta. change (2 <? 2)%nat with false. cbv iota.
  split; [|split; [reflexivity|split]].
  - split; [reflexivity|]. split; [reflexivity|]. split.
    + intros j c Hj Hc. destruct j as [|[|j]]; [| |lia]; (destruct c as [|[|c]]; [| |lia]);
        unfold fsumn, g, get, delta, exW; cbn; lra.
    + intros j l Hj Hl. destruct j as [|[|j]]; [| |lia]; (destruct l as [|[|l]]; [| |lia]);
        unfold gram_query, matmul, mtrans, nrows, ncols, fsumn, g, get, exW, exM, exLam; cbn; lra.
  - intros l Hl. destruct l as [|[|l]]; [reflexivity | reflexivity | lia].
  - intros l Hl. assert (l = 0)%nat as -> by lia. reflexivity.
Qed.
