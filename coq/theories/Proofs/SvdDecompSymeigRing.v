(* C09: tensor_ring (every start mode) under the WEAKEST per-call contract step_exact of Proofs/SvdDecompSymeig.v, hence for
   svd="symeig_svd" under the eigh-level contract symeig_call_ok.  The two proofs are those of Proofs/SvdDecompRing.v
   (tr_core_exact, tensor_ring_exact) with the per-call hypothesis weakened. *)
From Coq Require Import List Arith Lia Bool Ring Reals Lra RealField.
From TLV Require Import Base.Shape Base.PyList Base.Tensor Base.BigSum Base.Ops Model.Base Model.SvdDecomp Model.SvdDecompSymeig
     Proofs.SvdDecompProofs Proofs.SvdDecompProofsR Proofs.SvdDecompRing Proofs.SvdDecompTTM Proofs.SvdDecompSymeig.
Import ListNotations.

Section RingGen.
Context {F : Type} (Op : fops F).
Hypothesis Rth : ring_theory (f0 Op) (f1 Op) (fadd Op) (fmul Op) (fsub Op) (fopp Op) (@eq F).
Add Ring Fr5 : Rth.
Notation fz := (f0 Op).
Notation fone := (f1 Op).
Infix "+f" := (fadd Op) (at level 50, left associativity).
Infix "*f" := (fmul Op) (at level 40, left associativity).
Notation fsum := (fsumn Op).
Notation gg := (g Op).
Variable svd : nat -> tensor F -> @svdans F.

(* every SVD call of tr_core (the first one and those of the loop) satisfies P *)
Definition tr_core_pred (P : tensor F -> nat -> nat -> nat -> @svdans F -> Prop) (Xp : tensor F) (rk : list nat) : Prop :=
  let s0 := hd 0 (shape Xp) in
  let rest := tl (shape Xp) in
  let r0 := nth 0 rk 0 in
  let r1 := nth 1 rk 0 in
  let n_col := prod rest in
  let M := mk [s0; n_col] (data Xp) in
  P M s0 n_col (r0 * r1) (svd 0 M) /\
  (let '(U, Sv, V) := svd_interface Op (svd 0 M) (r0 * r1) in
   loop_pred Op svd P 1 rest (skipn 2 rk) r1 r0
     (data (transpose fz [1; 2; 0] (reshape [r0; r1; n_col] (sv_mul Op Sv V))))).

Lemma tr_core_pred_impl (P Q : tensor F -> nat -> nat -> nat -> @svdans F -> Prop) :
  (forall M m n r a, P M m n r a -> Q M m n r a) -> forall Xp rk, tr_core_pred P Xp rk -> tr_core_pred Q Xp rk.
Proof.
  intros HPQ Xp rk. unfold tr_core_pred. cbv zeta. intros [H1 H2]. split; [now apply HPQ|].
  destruct (svd_interface Op _ _) as [[U Sv] V]. exact (loop_pred_impl Op svd _ _ HPQ _ _ _ _ _ _ H2).
Qed.

Theorem tr_core_exact_gen Xp rk cores :
  tr_core_pred (step_exact Op) Xp rk -> tr_core Op svd Xp rk = Ok cores ->
  forall idx, inb (shape Xp) idx -> tr_entry Op cores idx = gg Xp idx.
Proof.
  unfold tr_core_pred, tr_core. intros Hok Hrun idx Hidx.
  destruct (shape Xp) as [|s0 rest] eqn:Es; [destruct idx; simpl in Hidx; [|tauto];
    cbn [hd tl] in Hrun; cbv zeta in Hrun; destruct (_ <? _); [discriminate|];
    destruct (fact_shapes_ok _ _ _ _); [|discriminate];
    destruct (svd_interface _ _ _) as [[? ?] ?]; simpl in Hrun; discriminate|].
  cbn [hd tl] in Hok, Hrun. cbv zeta in Hok, Hrun.
  set (r0 := nth 0 rk 0) in *. set (r1 := nth 1 rk 0) in *. set (n_col := prod rest) in *.
  set (M := mk [s0; n_col] (data Xp)) in *.
  destruct (Nat.min s0 n_col <? r0 * r1); [discriminate|].
  destruct Hok as [Hstep Hloop].
  pose proof Hstep as Hex. unfold step_exact in Hex.
  destruct (svd_interface Op (svd 0 M) (r0 * r1)) as [[U Sv] V] eqn:Esvd.
  destruct Hex as (HU & HV & HS & Hprod).
  destruct (fact_shapes_ok s0 n_col (r0 * r1) (U, Sv, V)); [|discriminate].
  set (W := transpose fz [1; 2; 0] (reshape [r0; r1; n_col] (sv_mul Op Sv V))) in *.
  destruct (chain_loop Op svd 1 rest (skipn 2 rk) r1 r0 (data W)) as [cs|] eqn:Ecs; [|discriminate].
  cbn [rbind] in Hrun. injection Hrun as <-.
  destruct idx as [|i idx']; [simpl in Hidx; tauto|]. destruct Hidx as [Hi Hidx'].
  set (col := ravel rest idx').
  assert (Hcol : col < n_col) by (apply ravel_lt; exact Hidx').
  unfold tr_entry. cbn [hd]. set (factor0 := transpose fz [1; 0; 2] (reshape [s0; r0; r1] U)).
  assert (Hs0 : shape factor0 = [r0; s0; r1]) by reflexivity.
  rewrite Hs0. cbn [nth].
  (* every term of the trace *)
  assert (Hterm : forall a, a < r0 -> chain Op (factor0 :: cs) a (i :: idx') a =
            fsum r1 (fun b => gg U [i; a * r1 + b] *f (nth (a * r1 + b) Sv fz *f gg V [a * r1 + b; col]))).
  { intros a Ha. rewrite (chain_cons Op). rewrite Hs0. cbn [nth]. apply fsumn_ext. intros b Hb.
    assert (Hl : a * r1 + b < r0 * r1) by nia.
    f_equal.
    - unfold factor0, g, transpose. rewrite get_tabulate by (cbn [permute map shape reshape nth]; apply inb3; assumption).
      unfold get, reshape. cbn [shape data scatter length seq map index_of Nat.eqb nth]. rewrite HU.
      cbn [ravel prod fold_right]. f_equal. ring.
    - rewrite (chain_loop_exact_gen Op Rth svd _ _ _ _ _ _ _ Hloop Ecs b idx' a Hb Hidx' Ha).
      fold col. fold n_col.
      transitivity (get fz W [b; col; a]).
      + unfold get. f_equal. unfold W, transpose. cbn [shape tabulate permute map reshape nth ravel prod fold_right]. ring.
      + unfold W, transpose. rewrite get_tabulate by (cbn [permute map shape reshape nth]; apply inb3; assumption).
        cbn [scatter length seq map index_of Nat.eqb nth].
        transitivity (gg (sv_mul Op Sv V) [a * r1 + b; col]).
        * unfold g, get, reshape. cbn [shape data]. unfold sv_mul at 2. cbn [shape tabulate]. rewrite HV.
          cbn [ravel prod fold_right]. f_equal. ring.
        * unfold sv_mul. rewrite HV. rewrite (g_tab2 Op) by assumption. reflexivity. }
  rewrite (fsumn_ext Op r0 _ _ Hterm).
  rewrite <- (fsumn_mul Op Rth r0 r1 (fun l => gg U [i; l] *f (nth l Sv fz *f gg V [l; col]))).
  rewrite (Hprod i col Hi Hcol). unfold M, g, get. cbn [shape data]. rewrite Es.
  cbn [ravel prod fold_right]. f_equal. unfold col, n_col. fold (prod rest). ring.
Qed.

Definition tr_pred (P : tensor F -> nat -> nat -> nat -> @svdans F -> Prop) (X : tensor F) (rank : rank_spec) (mode : nat) : Prop :=
  let n := ndim X in
  match validate_tr_rank n rank with
  | Ok rk0 =>
    tr_core_pred P (if Nat.eqb mode 0 then X else transpose fz (rotate mode (seq 0 n)) X)
                   (if Nat.eqb mode 0 then rk0 else tr_rotate_rank n mode rk0)
  | Err => True
  end.

Theorem tensor_ring_exact_gen X rank mode cores :
  tr_pred (step_exact Op) X rank mode -> tensor_ring Op svd X rank mode = Ok cores ->
  forall idx, inb (shape X) idx -> tr_entry Op cores idx = gg X idx.
Proof.
  unfold tr_pred, tensor_ring. cbv zeta. set (n := ndim X).
  destruct (validate_tr_rank n rank) as [rk0|]; [|discriminate]. cbn [rbind].
  destruct (mode <? n) eqn:Emn; [|discriminate]. cbn [negb]. apply Nat.ltb_lt in Emn.
  destruct (Nat.eqb_spec mode 0) as [->|Hm0].
  - intros Hok Hrun. destruct (tr_core Op svd X rk0) as [fs|] eqn:E; [|discriminate].
    cbn [rbind] in Hrun. injection Hrun as <-. exact (tr_core_exact_gen X rk0 fs Hok E).
  - set (Xp := transpose fz (rotate mode (seq 0 n)) X). set (rk := tr_rotate_rank n mode rk0).
    intros Hok Hrun idx Hidx.
    destruct (tr_core Op svd Xp rk) as [fs|] eqn:E; [|discriminate].
    cbn [rbind] in Hrun. injection Hrun as <-.
    pose proof (tr_core_exact_gen Xp rk fs Hok E) as Hex.
    destruct (tr_core_bonds Op svd Xp rk fs E) as [Hb Hlen].
    assert (HsXp : shape Xp = rotate mode (shape X)).
    { unfold Xp, transpose. cbn [shape tabulate]. unfold n, ndim. apply permute_rotate. }
    assert (Hlfs : length fs = n).
    { rewrite Hlen, HsXp. unfold rotate. destruct (skipn mode (shape X) ++ firstn mode (shape X)) eqn:Er.
      - apply (f_equal (@length nat)) in Er. rewrite app_length, skipn_length, firstn_length in Er.
        cbn [length] in Er. unfold n, ndim in *. lia.
      - apply (f_equal (@length nat)) in Er. rewrite app_length, skipn_length, firstn_length in Er.
        cbn [length tl] in *. unfold n, ndim in *. lia. }
    pose proof (inb_length _ _ Hidx) as Hli. fold (ndim X) in Hli. fold n in Hli.
    set (A := firstn (n - mode) fs). set (B := lastn mode fs).
    assert (EB : B = skipn (n - mode) fs) by (unfold B, lastn; rewrite Hlfs; reflexivity).
    assert (Efs : fs = A ++ B) by (rewrite EB; unfold A; symmetry; apply firstn_skipn).
    rewrite Efs in Hb. destruct (bonds_app _ _ _ _ Hb) as (m & HbA & HbB).
    assert (HlA : length A = n - mode) by (unfold A; rewrite firstn_length; lia).
    assert (HlB : length B = mode) by (rewrite EB, skipn_length; lia).
    set (iB := firstn mode idx). set (iA := skipn mode idx).
    assert (Eidx : idx = iB ++ iA) by (symmetry; apply firstn_skipn).
    rewrite Eidx at 1.
    rewrite (tr_entry_rotate Op Rth A B (nth 0 rk 0) m iA iB).
    + rewrite <- Efs. change (iA ++ iB) with (rotate mode idx).
      rewrite Hex by (rewrite HsXp; apply inb_rotate; exact Hidx).
      unfold Xp, g, transpose. rewrite get_tabulate.
      * f_equal. rewrite <- Hli. apply scatter_rotate. lia.
      * fold (ndim X). fold n. change (permute 0 (rotate mode (seq 0 n)) (shape X)) with (shape Xp).
        rewrite HsXp. apply inb_rotate. exact Hidx.
    + intros EA. rewrite EA in HlA. cbn [length] in HlA. lia.
    + intros EB'. rewrite EB' in HlB. cbn [length] in HlB. lia.
    + exact HbA.
    + exact HbB.
    + unfold iA. rewrite skipn_length. lia.
    + unfold iB. rewrite firstn_length. lia.
Qed.

End RingGen.

(* ------------------------------------------------------------------ reals: tensor_ring with svd="symeig_svd" *)
Local Open Scope R_scope.
Section RunRing.
Variable svd : nat -> tensor R -> @svdans R.
Variable eps : R.
Hypothesis eps_pos : 0 < eps.

Theorem tensor_ring_symeig_exact_R X rank mode cores :
  tr_pred Rops svd (symeig_call_ok eps) X rank mode -> tensor_ring Rops svd X rank mode = Ok cores ->
  forall idx, inb (shape X) idx -> tr_entry Rops cores idx = gR X idx.
Proof.
  intros H. apply (tensor_ring_exact_gen Rops Rops_ring svd). revert H. unfold tr_pred. cbv zeta.
  destruct (validate_tr_rank (ndim X) rank) as [rk0|]; [|trivial].
  apply tr_core_pred_impl. intros M m n r a. now apply symeig_call_ok_step_exact.
Qed.
End RunRing.

(* ------------------------------------------------------------------ tensor_train_matrix under the weakest per-call contract *)
Local Close Scope R_scope.
Section TTMGen.
Context {F : Type} (Op : fops F).
Hypothesis Rth : ring_theory (f0 Op) (f1 Op) (fadd Op) (fmul Op) (fsub Op) (fopp Op) (@eq F).
Add Ring Fr6 : Rth.
Notation fz := (f0 Op).
Notation fone := (f1 Op).
Infix "+f" := (fadd Op) (at level 50, left associativity).
Infix "*f" := (fmul Op) (at level 40, left associativity).
Notation fsum := (fsumn Op).
Notation gg := (g Op).
Variable svd : nat -> tensor F -> @svdans F.

Definition ttm_exact_calls (X : tensor F) (rank : rank_spec) : Prop :=
  let ni := ndim X / 2 in
  if Nat.eqb ni 1 then True else
  tt_exact_calls Op svd (reshape (zip2 Nat.mul (firstn ni (shape X)) (skipn ni (shape X)))
                                 (transpose fz (interleave_idx ni) X)) rank.

Theorem tensor_train_matrix_exact_gen X rank cores :
  ttm_exact_calls X rank -> tensor_train_matrix Op svd X rank = Ok cores ->
  forall is_ js, inb (firstn (ndim X / 2) (shape X)) is_ -> inb (skipn (ndim X / 2) (shape X)) js ->
  ttm_entry Op cores is_ js = gg X (is_ ++ js).
Proof.
  unfold ttm_exact_calls, tensor_train_matrix. cbv zeta. set (ni := ndim X / 2).
  destruct (Nat.eqb_spec (ndim X) (2 * ni)) as [Hord|]; [|discriminate]. cbn [negb].
  set (ins := firstn ni (shape X)). set (outs := skipn ni (shape X)).
  assert (Hlins : length ins = ni) by (unfold ins; rewrite firstn_length; unfold ndim in Hord; lia).
  assert (Hlouts : length outs = ni) by (unfold outs; rewrite skipn_length; unfold ndim in Hord; lia).
  destruct (Nat.eqb_spec ni 1) as [Hni|Hni].
  - (* a single core: the matrix itself *)
    intros _ Hrun is_ js Hi Hj. injection Hrun as <-.
    destruct ins as [|x [|? ?]] eqn:Ei; try (simpl in Hlins; lia).
    destruct outs as [|y [|? ?]] eqn:Eo; try (simpl in Hlouts; lia).
    destruct is_ as [|i [|? ?]]; simpl in Hi; try tauto. destruct js as [|j [|? ?]]; simpl in Hj; try tauto.
    destruct Hi as [Hi _]. destruct Hj as [Hj _].
    assert (EsX : shape X = [x; y]).
    { rewrite <- (firstn_skipn ni (shape X)). fold ins outs. rewrite Ei, Eo. reflexivity. }
    unfold ttm_entry. cbn [chain4 hd shape nth]. rewrite (fsumn_single Op Rth 1 0) by (try lia; intros; lia).
    cbn [Nat.eqb]. unfold g, get. cbn [shape data app]. rewrite EsX. cbn [ravel prod fold_right].
    transitivity (nth (i * (y * 1) + (j * 1 + 0)) (data X) fz *f fone); [|ring].
    first [reflexivity | f_equal; f_equal; lia | f_equal; lia].
  - set (Xt := transpose fz (interleave_idx ni) X). set (T := reshape (zip2 Nat.mul ins outs) Xt).
    intros Hok Hrun is_ js Hi Hj.
    destruct (tensor_train Op svd T rank) as [fs|] eqn:Ett; [|discriminate]. cbn [rbind] in Hrun.
    injection Hrun as <-.
    pose proof (tensor_train_exact_gen Op Rth svd T rank fs Hok Ett) as Hex.
    (* shapes of the TT cores *)
    assert (Hmid : Forall2 (fun G n => exists l r, shape G = [l; n; r]) fs (zip2 Nat.mul ins outs)).
    { unfold tensor_train in Ett. destruct (validate_tt_rank (ndim T) rank) as [rk|]; [|discriminate].
      cbn [rbind] in Ett. destruct (ndim T <=? 1); [discriminate|]. exact (chain_loop_mid Op svd _ _ _ _ _ _ _ Ett). }
    unfold ttm_entry. rewrite (chain4_reshape Op svd) by (auto; lia).
    fold (tt_entry Op fs (merge_idx is_ js outs)).
    rewrite Hex by (apply inb_merge; auto; lia).
    (* the merged, interleaved entry is X[is ++ js] *)
    assert (HsXt : shape Xt = inter ins outs).
    { unfold Xt, transpose. cbn [shape tabulate]. apply permute_interleave. exact Hord. }
    unfold T, g, get, reshape. cbn [shape data]. rewrite ravel_merge by (auto; lia).
    rewrite <- HsXt. fold (get fz Xt (inter is_ js)). unfold Xt, transpose. rewrite get_tabulate.
    + rewrite scatter_interleave; [reflexivity | |].
      * rewrite (inb_length _ _ Hi). exact Hlins.
      * rewrite (inb_length _ _ Hj). exact Hlouts.
    + change (permute 0 (interleave_idx ni) (shape X)) with (shape Xt). rewrite HsXt.
      apply inb_inter; auto. lia.
Qed.
End TTMGen.

Local Open Scope R_scope.
Section RunTTM.
Variable svd : nat -> tensor R -> @svdans R.
Variable eps : R.
Hypothesis eps_pos : 0 < eps.

Definition ttm_symeig_contract (X : tensor R) (rank : rank_spec) : Prop :=
  let ni := (ndim X / 2)%nat in
  if Nat.eqb ni 1 then True else
  tt_symeig_contract svd eps (reshape (zip2 Nat.mul (firstn ni (shape X)) (skipn ni (shape X)))
                                      (transpose 0 (interleave_idx ni) X)) rank.

Theorem tensor_train_matrix_symeig_exact_R X rank cores :
  ttm_symeig_contract X rank -> tensor_train_matrix Rops svd X rank = Ok cores ->
  forall is_ js, inb (firstn (ndim X / 2) (shape X)) is_ -> inb (skipn (ndim X / 2) (shape X)) js ->
  ttm_entry Rops cores is_ js = gR X (is_ ++ js).
Proof.
  intros H. apply (tensor_train_matrix_exact_gen Rops Rops_ring svd). revert H.
  unfold ttm_symeig_contract, ttm_exact_calls. cbv zeta. destruct (Nat.eqb (ndim X / 2) 1); [trivial|].
  unfold tt_symeig_contract, tt_exact_calls.
  destruct (validate_tt_rank _ rank) as [rk|]; [|trivial].
  apply (loop_pred_impl Rops svd). intros M m n r a. now apply symeig_call_ok_step_exact.
Qed.
End RunTTM.
