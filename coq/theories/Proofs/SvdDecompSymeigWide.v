(* C09: svd="symeig_svd" on a WIDE unfolding (dim_1 <= dim_2; for Tucker: the usual shape of a mode unfolding):
       S, V = eigh(M^T M) ; S = sqrt(clip(S, eps)) ; U = (M V) / S
   Under eigh's literal contract (W orthogonal, (M^T M) W = W diag(lambda)), s^2 = clip(lambda, eps) with every eigenvalue either 0 or
   >= eps, and the discarded eigenvectors being null vectors of M, the answer meets the weakened U-side contract svd_contract_su of
   Proofs/SvdDecompTuckerSemi.v: the columns of U belonging to non-zero eigenvalues are orthonormal, those of zero eigenvalues are
   EXACTLY zero (M v = 0, by gram_null), and U (S V) = M.  Hence tucker(svd="symeig_svd") is exact at sufficient rank for every
   shape of the mode unfoldings. *)
From Coq Require Import List Arith Lia Bool Ring Reals Lra RealField.
From TLV Require Import Base.Shape Base.PyList Base.Tensor Base.BigSum Base.Ops Model.Base Model.SvdDecomp Model.SvdDecompSymeig
     Proofs.SvdDecompProofs Proofs.SvdDecompProofsR Proofs.SvdDecompRankCond Proofs.SvdDecompSymeig Proofs.SvdDecompSymeigEig
     Proofs.SvdDecompTuckerGen Proofs.SvdDecompTTUpper Proofs.SvdDecompMethodsTucker Proofs.SvdDecompTuckerSemi.
Import ListNotations.
Local Open Scope R_scope.

Definition symeig_wide_ok (eps : R) (M : tensor R) (m n r : nat) (a : @svdans R) : Prop :=
  exists (W : tensor R) (s : list R) (lam : nat -> R),
    a = symeig_ans Rops M W s /\ shape M = [m; n] /\ (m <= n)%nat /\ shape W = [n; n] /\ length s = n /\
    (forall j c, (j < n)%nat -> (c < n)%nat -> sumR n (fun l => gR W [j; l] * gR W [c; l]) = if Nat.eqb j c then 1 else 0) /\
    (forall j l, (j < n)%nat -> (l < n)%nat ->
       sumR n (fun j' => sumR m (fun i => gR M [i; j] * gR M [i; j']) * gR W [j'; l]) = lam l * gR W [j; l]) /\
    (forall l l', (l < n)%nat -> (l' < n)%nat -> sumR n (fun j => gR W [j; l] * gR W [j; l']) = if Nat.eqb l l' then 1 else 0) /\
    (forall l, (l < n)%nat -> nth l s 0 * nth l s 0 = clip_min Rops eps (lam l) /\ nth l s 0 <> 0) /\
    (forall l, (l < n)%nat -> lam l = 0 \/ eps <= lam l) /\
    (forall l i, (l < n - Nat.min r m)%nat -> (i < m)%nat -> sumR n (fun j => gR M [i; j] * gR W [j; l]) = 0).

Theorem symeig_wide_ok_contract_su eps M m n r a : 0 < eps -> symeig_wide_ok eps M m n r a -> svd_contract_su M m n r a.
Proof.
  intros Heps (W & s & lam & -> & HM & Hmn & HW & Hs & Orow & Heig & Ocol & Hsq & Hlam & Hnull).
  set (mw := fun i l => sumR n (fun j => gR M [i; j] * gR W [j; l])).
  (* s^2 = lambda for the non-zero eigenvalues *)
  assert (Hs2 : forall l, (l < n)%nat -> lam l <> 0 -> nth l s 0 * nth l s 0 = lam l).
  { intros l Hl Hne. destruct (Hsq l Hl) as [H1 _]. rewrite H1. unfold clip_min.
    destruct (fltb Rops (lam l) eps) eqn:E; [|reflexivity].
    apply fltb_true in E. destruct (Hlam l Hl) as [H0 | H0]; [contradiction | lra]. }
  (* Gram matrix of the columns of M W *)
  assert (Hgram : forall l l', (l < n)%nat -> (l' < n)%nat ->
            sumR m (fun i => mw i l * mw i l') = lam l' * (if Nat.eqb l l' then 1 else 0)).
  { intros l l' Hl Hl'. unfold mw.
    transitivity (sumR n (fun j => gR W [j; l] * sumR n (fun j' => sumR m (fun i => gR M [i; j] * gR M [i; j']) * gR W [j'; l']))).
    - transitivity (sumR m (fun i => sumR n (fun j => sumR n (fun j' => gR W [j; l] * (gR M [i; j] * gR M [i; j'] * gR W [j'; l']))))).
      + apply sumR_ext. intros i Hi. rewrite <- sumR_scal_r. apply sumR_ext. intros j Hj.
        rewrite <- sumR_scal_l. apply sumR_ext. intros j' Hj'. ring.
      + rewrite sumR_exch. apply sumR_ext. intros j Hj.
        transitivity (sumR n (fun j' => sumR m (fun i => gR W [j; l] * (gR M [i; j] * gR M [i; j'] * gR W [j'; l'])))).
        * now rewrite sumR_exch.
        * rewrite <- sumR_scal_l. apply sumR_ext. intros j' Hj'. rewrite <- sumR_scal_r.
          rewrite <- sumR_scal_l. apply sumR_ext. intros i Hi. ring.
    - transitivity (sumR n (fun j => lam l' * (gR W [j; l] * gR W [j; l']))).
      + apply sumR_ext. intros j Hj. rewrite Heig by assumption. ring.
      + rewrite sumR_scal_l. f_equal. now apply Ocol. }
  (* zero eigenvalue => zero column of M W *)
  assert (Hz0 : forall l i, (l < n)%nat -> lam l = 0 -> (i < m)%nat -> mw i l = 0).
  { intros l i Hl H0 Hi. unfold mw.
    apply (gram_null (fun i j => gR M [i; j]) m n (fun j => gR W [j; l])); [|exact Hi].
    intros j Hj. rewrite Heig by assumption. rewrite H0. ring. }
  (* M = (M W) W^T *)
  assert (Hrec : forall i c, (i < m)%nat -> (c < n)%nat -> sumR n (fun l => mw i l * gR W [c; l]) = gR M [i; c]).
  { intros i c Hi Hc. unfold mw.
    transitivity (sumR n (fun l => sumR n (fun j => gR M [i; j] * (gR W [j; l] * gR W [c; l])))).
    { apply sumR_ext. intros l Hl. rewrite <- sumR_scal_r. apply sumR_ext. intros j Hj. ring. }
    rewrite sumR_exch.
    transitivity (sumR n (fun j => gR M [i; j] * delta j c)).
    { apply sumR_ext. intros j Hj. rewrite sumR_scal_l. f_equal. now apply Orow. }
    now apply sumR_delta. }
  (* the answer *)
  unfold symeig_ans, symeig_raw. unfold nrows at 1 2 3, ncols at 1 2 3. rewrite HM. cbn [nth].
  assert (E : (n <? m)%nat = false) by (apply Nat.ltb_ge; exact Hmn). rewrite E.
  set (MW := matmul Rops M W). set (U0 := div_cols Rops MW s).
  assert (HMW : shape MW = [m; n]) by (apply (shape_matmul M W m n n); assumption).
  assert (HU0 : shape U0 = [m; n]) by (unfold U0, div_cols; cbn [shape tabulate]; exact HMW).
  assert (HF : shape (flip_cols Rops U0) = [m; n]) by (unfold flip_cols; cbn [shape tabulate]; exact HU0).
  set (U := cols_firstn Rops m (flip_cols Rops U0)).
  assert (HU : shape U = [m; m]).
  { unfold U, cols_firstn, nrows, ncols. rewrite HF. cbn [shape tabulate nth]. now rewrite Nat.min_l by exact Hmn. }
  assert (gU : forall i b, (i < m)%nat -> (b < m)%nat -> gR U [i; b] = mw i (n - 1 - b)%nat / nth (n - 1 - b) s 0).
  { intros i b Hi Hb. unfold U. rewrite (g_cols_firstn _ m m n) by (first [assumption | lia]).
    rewrite (g_flip_cols _ m n) by (first [assumption | lia]).
    unfold U0. rewrite (g_div_cols _ _ m n) by (first [assumption | lia]).
    unfold MW. rewrite (g_matmul M W m n n) by (first [assumption | lia]).
    rewrite (nth_indep s 1 0) by (rewrite Hs; lia). reflexivity. }
  unfold svd_contract_su.
  set (z := fun b => if Req_EM_T (lam (n - 1 - b)%nat) 0 then true else false).
  exists m, m, (fun b c => if (b <? Nat.min r m)%nat then nth (n - 1 - b) s 0 * gR W [c; (n - 1 - b)%nat] else 0), z.
  split; [exact HU|]. split; [lia|]. split; [|split; [|split]].
  - intros b i Hb Hzb Hi. unfold z in Hzb. destruct (Req_EM_T (lam (n - 1 - b)%nat) 0) as [H0|]; [|discriminate].
    rewrite gU by assumption. rewrite (Hz0 (n - 1 - b)%nat i) by (first [lia | assumption]). unfold Rdiv. ring.
  - intros j l Hj Hl Hzj Hzl. unfold z in Hzj, Hzl.
    destruct (Req_EM_T (lam (n - 1 - j)%nat) 0) as [|Hnj]; [discriminate|].
    destruct (Req_EM_T (lam (n - 1 - l)%nat) 0) as [|Hnl]; [discriminate|].
    destruct (Hsq (n - 1 - j)%nat ltac:(lia)) as [_ Hsj]. destruct (Hsq (n - 1 - l)%nat ltac:(lia)) as [_ Hsl].
    transitivity (sumR m (fun i => (/ nth (n - 1 - j) s 0 * / nth (n - 1 - l) s 0) * (mw i (n - 1 - j)%nat * mw i (n - 1 - l)%nat))).
    { apply sumR_ext. intros i Hi. rewrite !gU by assumption. unfold Rdiv. ring. }
    rewrite sumR_scal_l. rewrite Hgram by lia.
    destruct (Nat.eqb_spec j l) as [->|Hne].
    + rewrite Nat.eqb_refl. rewrite <- (Hs2 (n - 1 - l)%nat) by (first [lia | assumption]). field. exact Hsl.
    + destruct (Nat.eqb_spec (n - 1 - j) (n - 1 - l)); [lia|]. ring.
  - intros i c Hi Hc.
    transitivity (sumR m (fun b => mw i (n - 1 - b)%nat * gR W [c; (n - 1 - b)%nat])).
    + apply sumR_ext. intros b Hb. rewrite gU by assumption.
      destruct (Hsq (n - 1 - b)%nat ltac:(lia)) as [_ Hsb].
      destruct (Nat.ltb_spec b (Nat.min r m)) as [Hlt | Hge].
      * field. exact Hsb.
      * assert (Hnl : sumR n (fun j => gR M [i; j] * gR W [j; (n - 1 - b)%nat]) = 0) by (apply Hnull; lia).
        fold (mw i (n - 1 - b)%nat) in Hnl. rewrite Hnl. unfold Rdiv. ring.
    + rewrite <- (Hrec i c Hi Hc).
      rewrite <- (sumR_rev n (fun l => mw i l * gR W [c; l])).
      symmetry. apply sumR_tail_zero; [exact Hmn|].
      intros b H1 H2.
      assert (Hnl : sumR n (fun j => gR M [i; j] * gR W [j; (n - 1 - b)%nat]) = 0) by (apply Hnull; lia).
      fold (mw i (n - 1 - b)%nat) in Hnl. rewrite Hnl. ring.
  - intros b c H1 H2 Hc. destruct (Nat.ltb_spec b (Nat.min r m)); [lia | reflexivity].
Qed.

(* ------------------------------------------------------------------ tucker: every method, every shape of the mode unfoldings *)
Definition method_su_ok (eps : R) (M : tensor R) (m n r : nat) (a : @svdans R) : Prop :=
  svd_contract_u M m n r a \/ symeig_wide_ok eps M m n r a.

Lemma method_su_ok_contract_su eps M m n r a : 0 < eps -> method_su_ok eps M m n r a -> svd_contract_su M m n r a.
Proof. intros Heps [H | H]; [now apply svd_contract_u_su | now apply (symeig_wide_ok_contract_su eps)]. Qed.

Section RunTucker.
Variable svd : nat -> tensor R -> @svdans R.
Variable eps : R.
Hypothesis eps_pos : 0 < eps.

Lemma hosvd_call_pred_contract_su X : forall ranks m c,
  hosvd_call_pred svd (method_su_ok eps) X ranks m c -> hosvd_contract_su svd X ranks m c.
Proof.
  induction ranks as [|r ranks IH]; intros m c H; [exact I|].
  cbn [hosvd_call_pred hosvd_contract_su] in *. destruct H as [H1 H2]. split; [|now apply IH].
  destruct (unfold 0 X m) as [Xm|]; [|exact I]. now apply (method_su_ok_contract_su eps).
Qed.

(* tucker(svd=any method, init="svd", tol=0), any number of sweeps: every call of the initialisation meets the U-side contract
   (LAPACK, randomized_svd, symeig_svd on a tall unfolding: C09_tucker_methods_exact_R's cases) OR is a symeig_svd call on a wide
   unfolding under eigh's contract; the sweeps' calls (LAPACK in the code) meet the U-side contract *)
Theorem tucker_all_methods_exact_R X rank n_iter core fs : wf X -> (0 < prod (shape X))%nat ->
  hosvd_call_pred svd (method_su_ok eps) X (validate_tucker_rank (ndim X) rank) 0 0 ->
  match hosvd_factors Rops svd X (validate_tucker_rank (ndim X) rank) 0 0 with
  | Ok fs0 => hooi_iter_contract_u svd X (validate_tucker_rank (ndim X) rank) n_iter (ndim X) fs0
  | Err => True
  end ->
  tucker Rops svd X rank n_iter = Ok (core, fs) ->
  tucker_to_tensor Rops core fs = Ok X.
Proof.
  intros WX Hpos H0 H1. apply (tucker_exact_semi_R svd X rank n_iter core fs WX Hpos); [|exact H1].
  now apply hosvd_call_pred_contract_su.
Qed.
End RunTucker.

(* ------------------------------------------------------------------ non-vacuity *)
(* M = diag(1, 0) (2 x 2: the branch dim_1 <= dim_2), both triplets requested (over-requested: rank 1): eigh(M^T M) = ([0; 1],
   columns e1, e0); eps = 1/4, s = sqrt(clip(lambda, eps)) = [1/2; 1].  The second kept column of U is exactly zero. *)
Definition wM : tensor R := mk [2; 2]%nat [1; 0; 0; 0].
Definition wW : tensor R := mk [2; 2]%nat [0; 1; 1; 0].
Definition wlam (l : nat) : R := if Nat.eqb l 1 then 1 else 0.

Example symeig_wide_satisfiable : symeig_wide_ok (/ 4) wM 2 2 2 (symeig_ans Rops wM wW [/ 2; 1]).
Proof.
  exists wW, [/ 2; 1], wlam. split; [reflexivity|]. split; [reflexivity|]. split; [lia|]. split; [reflexivity|].
  split; [reflexivity|].
  assert (C2 : forall x, (x < 2)%nat -> x = 0%nat \/ x = 1%nat) by (intros; lia).
  split; [|split; [|split; [|split; [|split]]]].
  - intros j c Hj Hc. destruct (C2 j Hj) as [-> | ->]; destruct (C2 c Hc) as [-> | ->]; unfold fsumn, g, get, wW; cbn; lra.
  - intros j l Hj Hl. destruct (C2 j Hj) as [-> | ->]; destruct (C2 l Hl) as [-> | ->]; unfold fsumn, g, get, wW, wM, wlam; cbn; lra.
  - intros l l' Hl Hl'. destruct (C2 l Hl) as [-> | ->]; destruct (C2 l' Hl') as [-> | ->]; unfold fsumn, g, get, wW; cbn; lra.
  - intros l Hl. unfold clip_min, wlam. destruct (C2 l Hl) as [-> | ->]; cbn [Nat.eqb nth].
    + destruct (fltb Rops 0 (/ 4)) eqn:E; [split; lra | apply fltb_false in E; lra].
    + destruct (fltb Rops 1 (/ 4)) eqn:E; [apply fltb_true in E; lra | split; lra].
  - intros l Hl. unfold wlam. destruct (C2 l Hl) as [-> | ->]; cbn [Nat.eqb]; [left; reflexivity | right; lra].
  - intros l i Hl Hi. cbn in Hl. lia.
Qed.
