(* C09, tensor_train_matrix (every commutative ring, every number of input/output mode pairs): when no SVD
   call of the underlying TT-SVD discards a non-zero singular value, the TT-matrix contraction
        sum over bonds of prod_k G_k[b_k, i_k, j_k, b_{k+1}]
   of the returned 4-D cores is X[i_1..i_d, j_1..j_d].  Ingredients: tensor_train_exact on the interleaved,
   pair-merged tensor; the index maps of the interleaving transposition and of the two reshapes. *)
From Coq Require Import List Arith Lia Bool Ring.
From TLV Require Import Base.Shape Base.PyList Base.Tensor Base.BigSum Base.Ops Model.Base Model.SvdDecomp
     Proofs.SvdDecompProofs.
Import ListNotations.

(* ------------------------------------------------------------------ interleaving lists *)
Fixpoint inter {A} (l1 l2 : list A) : list A :=
  match l1, l2 with a :: l1', b :: l2' => a :: b :: inter l1' l2' | _, _ => [] end.

Fixpoint merge_idx (is_ js outs : list nat) : list nat :=
  match is_, js, outs with i :: is', j :: js', b :: outs' => (i * b + j) :: merge_idx is' js' outs' | _, _, _ => [] end.

Lemma flat_map_ext_in {A B} (f h : A -> list B) l : (forall x, In x l -> f x = h x) -> flat_map f l = flat_map h l.
Proof. induction l; intros H; [reflexivity|]. cbn [flat_map]. rewrite H by (left; reflexivity). rewrite IHl; auto. intros; apply H; right; assumption. Qed.

Lemma flat_map_inter {A} (d : A) : forall (l1 l2 : list A) k, length l1 = length l2 ->
  flat_map (fun i => [nth (i - k) l1 d; nth (i - k) l2 d]) (seq k (length l1)) = inter l1 l2.
Proof.
  induction l1 as [|a l1 IH]; intros [|b l2] k H; try discriminate; [reflexivity|].
  cbn [length seq flat_map inter app]. rewrite Nat.sub_diag. cbn [nth]. f_equal. f_equal.
  rewrite <- (IH l2 (S k)) by (simpl in H; lia).
  apply flat_map_ext_in. intros x Hx. apply in_seq in Hx.
  replace (x - k) with (S (x - S k)) by lia. reflexivity.
Qed.

Lemma permute_interleave (s : list nat) ni : length s = 2 * ni ->
  permute 0 (interleave_idx ni) s = inter (firstn ni s) (skipn ni s).
Proof.
  intros Hl. unfold permute, interleave_idx.
  assert (Hf : length (firstn ni s) = ni) by (rewrite firstn_length; lia).
  assert (Hs : length (skipn ni s) = ni) by (rewrite skipn_length; lia).
  rewrite <- (flat_map_inter 0 (firstn ni s) (skipn ni s) 0) by lia. rewrite Hf.
  rewrite flat_map_concat_map, concat_map, map_map, <- flat_map_concat_map.
  apply flat_map_ext_in. intros i Hi. apply in_seq in Hi. cbn [map]. rewrite Nat.sub_0_r.
  rewrite nth_firstn' by lia. rewrite nth_skipn'. reflexivity.
Qed.

Lemma nth_inter_even {A} (d : A) : forall (l1 l2 : list A) a, length l1 = length l2 -> a < length l1 ->
  nth (2 * a) (inter l1 l2) d = nth a l1 d.
Proof.
  induction l1 as [|x l1 IH]; intros l2 a H Ha; destruct l2 as [|y l2]; try (simpl in H, Ha; lia).
  destruct a as [|a]; [reflexivity|]. replace (2 * S a) with (S (S (2 * a))) by lia. cbn [inter nth].
  apply IH; simpl in H, Ha; lia.
Qed.
Lemma nth_inter_odd {A} (d : A) : forall (l1 l2 : list A) a, length l1 = length l2 -> a < length l1 ->
  nth (2 * a + 1) (inter l1 l2) d = nth a l2 d.
Proof.
  induction l1 as [|x l1 IH]; intros l2 a H Ha; destruct l2 as [|y l2]; try (simpl in H, Ha; lia).
  destruct a as [|a]; [reflexivity|]. replace (2 * S a + 1) with (S (S (2 * a + 1))) by lia. cbn [inter nth].
  apply IH; simpl in H, Ha; lia.
Qed.
Lemma inter_length {A} : forall (l1 l2 : list A), length l1 = length l2 -> length (inter l1 l2) = 2 * length l1.
Proof. induction l1; intros [|b l2] H; simpl in *; try lia. rewrite IHl1 by lia. lia. Qed.

Lemma index_of_interleave ni : forall len k, k + len <= ni ->
  (forall a, k <= a < k + len -> index_of a (flat_map (fun i => [i; ni + i]) (seq k len)) = 2 * (a - k)) /\
  (forall i, k <= i < k + len -> index_of (ni + i) (flat_map (fun i => [i; ni + i]) (seq k len)) = 2 * (i - k) + 1).
Proof.
  induction len; intros k Hk; [split; intros; lia|].
  destruct (IHlen (S k) ltac:(lia)) as [IH1 IH2]. cbn [seq flat_map app index_of]. split.
  - intros a Ha. destruct (Nat.eqb_spec k a) as [->|Hne]; [lia|].
    destruct (Nat.eqb_spec (ni + k) a); [lia|]. rewrite IH1 by lia. lia.
  - intros i Hi. destruct (Nat.eqb_spec k (ni + i)); [lia|].
    destruct (Nat.eqb_spec (ni + k) (ni + i)) as [E|Hne]; [assert (i = k) by lia; subst; lia|].
    rewrite IH2 by lia. lia.
Qed.

Lemma interleave_idx_length ni : length (interleave_idx ni) = 2 * ni.
Proof.
  unfold interleave_idx. rewrite flat_map_concat_map.
  assert (H : forall l : list nat, length (concat (map (fun i => [i; ni + i]) l)) = 2 * length l).
  { induction l; simpl in *; lia. }
  rewrite H, seq_length. reflexivity.
Qed.

Lemma scatter_interleave (is_ js : list nat) ni : length is_ = ni -> length js = ni ->
  scatter (interleave_idx ni) (inter is_ js) = is_ ++ js.
Proof.
  intros Hi Hj. unfold scatter. rewrite interleave_idx_length.
  destruct (index_of_interleave ni ni 0 ltac:(lia)) as [I1 I2].
  apply nth_ext with (d := 0) (d' := 0); [rewrite map_length, seq_length, app_length; lia|].
  intros a Ha. rewrite map_length, seq_length in Ha.
  rewrite (nth_map' _ _ _ 0) by (now rewrite seq_length). rewrite seq_nth by exact Ha. cbn [Nat.add].
  unfold interleave_idx.
  destruct (Nat.lt_ge_cases a ni) as [Hlt|Hge].
  - rewrite I1 by lia. rewrite Nat.sub_0_r. rewrite nth_inter_even by lia. now rewrite app_nth1 by lia.
  - replace a with (ni + (a - ni)) at 1 by lia. rewrite I2 by lia. rewrite Nat.sub_0_r.
    rewrite nth_inter_odd by lia. rewrite app_nth2 by lia. f_equal. lia.
Qed.

Lemma inb_inter : forall A B is_ js, inb A is_ -> inb B js -> length A = length B -> inb (inter A B) (inter is_ js).
Proof.
  induction A as [|a A IH]; intros [|b B] [|i is_] [|j js] H1 H2 Hl; simpl in *; try tauto; try lia.
  destruct H1, H2. repeat split; auto.
Qed.

Lemma prod_zip2_inter : forall A B, length A = length B -> prod (zip2 Nat.mul A B) = prod (inter A B).
Proof.
  induction A as [|a A IH]; intros [|b B] H; try discriminate; [reflexivity|].
  cbn [zip2 inter]. change (prod (a * b :: zip2 Nat.mul A B)) with (a * b * prod (zip2 Nat.mul A B)).
  change (prod (a :: b :: inter A B)) with (a * (b * prod (inter A B))). rewrite IH by (simpl in H; lia). lia.
Qed.

Lemma ravel_merge : forall A B is_ js, inb A is_ -> inb B js -> length A = length B ->
  ravel (zip2 Nat.mul A B) (merge_idx is_ js B) = ravel (inter A B) (inter is_ js).
Proof.
  induction A as [|a A IH]; intros [|b B] [|i is_] [|j js] H1 H2 Hl; simpl in H1, H2, Hl; try tauto; try lia;
    try reflexivity.
  destruct H1 as [Hi H1]. destruct H2 as [Hj H2].
  cbn [zip2 inter merge_idx ravel]. rewrite (IH B is_ js H1 H2) by lia.
  rewrite prod_zip2_inter by lia.
  change (prod (b :: inter A B)) with (b * prod (inter A B)). lia.
Qed.

Lemma inb_merge : forall A B is_ js, inb A is_ -> inb B js -> length A = length B ->
  inb (zip2 Nat.mul A B) (merge_idx is_ js B).
Proof.
  induction A as [|a A IH]; intros [|b B] [|i is_] [|j js] H1 H2 Hl; simpl in *; try tauto; try lia.
  destruct H1, H2. split; [nia|]. apply IH; auto.
Qed.

Section TTM.
Context {F : Type} (Op : fops F).
Hypothesis Rth : ring_theory (f0 Op) (f1 Op) (fadd Op) (fmul Op) (fsub Op) (fopp Op) (@eq F).
Add Ring Fr8 : Rth.
Notation fz := (f0 Op).
Notation fone := (f1 Op).
Infix "+f" := (fadd Op) (at level 50, left associativity).
Infix "*f" := (fmul Op) (at level 40, left associativity).
Notation fsum := (fsumn Op).
Notation gg := (g Op).

(* the TT-matrix contraction (tt_matrix_to_tensor entry by entry) *)
Fixpoint chain4 (cores : list (tensor F)) (a : nat) (is_ js : list nat) (c : nat) : F :=
  match cores, is_, js with
  | [], [], [] => if Nat.eqb a c then fone else fz
  | G :: cs, i :: is', j :: js' =>
      fsum (nth 3 (shape G) 0) (fun b => gg G [a; i; j; b] *f chain4 cs b is' js' c)
  | _, _, _ => fz
  end.
Definition ttm_entry (cores : list (tensor F)) (is_ js : list nat) : F := chain4 cores 0 is_ js 0.

Variable svd : nat -> tensor F -> @svdans F.

(* shapes of the cores computed by the sequential loop: the middle dimension is the mode size *)
Lemma chain_loop_mid : forall sizes k ranks rk r0 W cores,
  chain_loop Op svd k sizes ranks rk r0 W = Ok cores ->
  Forall2 (fun G n => exists l r, shape G = [l; n; r]) cores sizes.
Proof.
  induction sizes as [|n rest IH]; intros k ranks rk r0 W cores H; [discriminate|].
  destruct rest as [|n2 rest2].
  - simpl in H. injection H as <-. constructor; [|constructor]. exists rk, r0. reflexivity.
  - set (rest := n2 :: rest2) in *. cbn [chain_loop] in H. fold rest in H. cbv zeta in H.
    destruct (fact_shapes_ok _ _ _ _); [|discriminate].
    destruct (svd_interface Op _ _) as [[U Sv] V].
    destruct (chain_loop Op svd (S k) rest (tl ranks) _ r0 _) as [cs|] eqn:E; [|discriminate].
    cbn [rbind] in H. injection H as <-. constructor; [|exact (IH _ _ _ _ _ _ E)].
    eexists _, _. reflexivity.
Qed.

(* splitting the merged middle index of every core *)
Lemma chain4_reshape : forall cores ins outs a is_ js c,
  Forall2 (fun G n => exists l r, shape G = [l; n; r]) cores (zip2 Nat.mul ins outs) ->
  length ins = length outs -> inb ins is_ -> inb outs js ->
  chain4 (zip3 (fun f x y => reshape [nth 0 (shape f) 0; x; y; nth 2 (shape f) 0] f) cores ins outs) a is_ js c =
  chain Op cores a (merge_idx is_ js outs) c.
Proof.
  induction cores as [|G cores IH]; intros ins outs a is_ js c Hsh Hl Hi Hj.
  - inversion Hsh as [E1 E2|]. destruct ins as [|x ins]; destruct outs as [|y outs]; try discriminate.
    destruct is_; destruct js; simpl in Hi, Hj; try tauto; try reflexivity.
  - inversion Hsh as [|G' n cs' ns (l & r & HG) Hrest E1 E2]. subst.
    destruct ins as [|x ins]; destruct outs as [|y outs]; try discriminate.
    cbn [zip2] in E2. injection E2 as En Ens. subst.
    destruct is_ as [|i is_]; [simpl in Hi; tauto|]. destruct js as [|j js]; [simpl in Hj; tauto|].
    destruct Hi as [Hi Hi']. destruct Hj as [Hj Hj'].
    cbn [zip3 chain4 merge_idx]. rewrite (chain_cons Op). cbn [shape reshape nth]. rewrite HG. cbn [nth].
    apply fsumn_ext. intros b Hb. f_equal.
    + unfold g, get, reshape. cbn [shape data]. rewrite HG. cbn [ravel prod fold_right]. f_equal. ring.
    + apply IH; auto; simpl in Hl; lia.
Qed.

Definition ttm_ok (X : tensor F) (rank : rank_spec) : Prop :=
  let ni := ndim X / 2 in
  if Nat.eqb ni 1 then True else
  tt_ok Op svd (reshape (zip2 Nat.mul (firstn ni (shape X)) (skipn ni (shape X)))
                        (transpose fz (interleave_idx ni) X)) rank.

Theorem tensor_train_matrix_exact X rank cores :
  ttm_ok X rank -> tensor_train_matrix Op svd X rank = Ok cores ->
  forall is_ js, inb (firstn (ndim X / 2) (shape X)) is_ -> inb (skipn (ndim X / 2) (shape X)) js ->
  ttm_entry cores is_ js = gg X (is_ ++ js).
Proof.
  unfold ttm_ok, tensor_train_matrix. cbv zeta. set (ni := ndim X / 2).
  destruct (Nat.eqb_spec (ndim X) (2 * ni)) as [Hord|]; [|discriminate]. cbn [negb].
  set (ins := firstn ni (shape X)). set (outs := skipn ni (shape X)).
  assert (Hlins : length ins = ni) by (unfold ins; rewrite firstn_length; unfold ndim in Hord; lia).
  assert (Hlouts : length outs = ni) by (unfold outs; rewrite skipn_length; unfold ndim in Hord; lia).
  destruct (Nat.eqb_spec ni 1) as [Hni|Hni].
  - (* a single core: the matrix itself *)
    intros _ Hrun is_ js Hi Hj. injection Hrun as <-.
    destruct ins as [|x [|? ?]] eqn:Ei; try (simpl in Hlins; lia).
    destruct outs as [|y [|? ?]] eqn:Eo; try (simpl in Hlouts; lia).
    destruct is_ as [|i [|? ?]]; simpl in Hi; try tauto. destruct js as [|j [|? ?]]; simpl in Hj; try tauto.
    destruct Hi as [Hi _]. destruct Hj as [Hj _].
    assert (EsX : shape X = [x; y]).
    { rewrite <- (firstn_skipn ni (shape X)). fold ins outs. rewrite Ei, Eo. reflexivity. }
    unfold ttm_entry. cbn [chain4 hd shape nth]. rewrite (fsumn_single Op Rth 1 0) by (try lia; intros; lia).
    cbn [Nat.eqb]. unfold g, get. cbn [shape data app]. rewrite EsX. cbn [ravel prod fold_right].
    transitivity (nth (i * (y * 1) + (j * 1 + 0)) (data X) fz *f fone); [|ring].
    first [reflexivity | f_equal; f_equal; lia | f_equal; lia].
  - set (Xt := transpose fz (interleave_idx ni) X). set (T := reshape (zip2 Nat.mul ins outs) Xt).
    intros Hok Hrun is_ js Hi Hj.
    destruct (tensor_train Op svd T rank) as [fs|] eqn:Ett; [|discriminate]. cbn [rbind] in Hrun.
    injection Hrun as <-.
    pose proof (tensor_train_exact Op Rth svd T rank fs Hok Ett) as Hex.
    (* shapes of the TT cores *)
    assert (Hmid : Forall2 (fun G n => exists l r, shape G = [l; n; r]) fs (zip2 Nat.mul ins outs)).
    { unfold tensor_train in Ett. destruct (validate_tt_rank (ndim T) rank) as [rk|]; [|discriminate].
      cbn [rbind] in Ett. destruct (ndim T <=? 1); [discriminate|]. exact (chain_loop_mid _ _ _ _ _ _ _ Ett). }
    unfold ttm_entry. rewrite chain4_reshape by (auto; lia).
    fold (tt_entry Op fs (merge_idx is_ js outs)).
    rewrite Hex by (apply inb_merge; auto; lia).
    (* the merged, interleaved entry is X[is ++ js] *)
    assert (HsXt : shape Xt = inter ins outs).
    { unfold Xt, transpose. cbn [shape tabulate]. apply permute_interleave. exact Hord. }
    unfold T, g, get, reshape. cbn [shape data]. rewrite ravel_merge by (auto; lia).
    rewrite <- HsXt. fold (get fz Xt (inter is_ js)). unfold Xt, transpose. rewrite get_tabulate.
    + rewrite scatter_interleave; [reflexivity | |].
      * rewrite (inb_length _ _ Hi). exact Hlins.
      * rewrite (inb_length _ _ Hj). exact Hlouts.
    + change (permute 0 (interleave_idx ni) (shape X)) with (shape Xt). rewrite HsXt.
      apply inb_inter; auto. lia.
Qed.

End TTM.
