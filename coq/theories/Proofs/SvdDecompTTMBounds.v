(* C09, tensor_train_matrix: quasi-optimality bounds.  The squared distance between X and the TT-matrix contraction of the
   returned 4-D cores IS the TT-SVD error on the interleaved, pair-merged tensor T = ttm_T X (any commutative ring, no
   hypothesis on the answers of the run); over R the root-sum-square upper bound and the per-cut lower bound of TT-SVD
   therefore hold for tensor_train_matrix, with the singular values of the sequential unfoldings of T. *)
From Coq Require Import List Arith Lia Bool Ring Reals Lra.
From TLV Require Import Base.Shape Base.PyList Base.Tensor Base.BigSum Base.Ops Model.Base Model.SvdDecomp
     Proofs.SvdDecompProofs Proofs.SvdDecompProofsR Proofs.SvdDecompPyth Proofs.SvdDecompError Proofs.SvdDecompTTM
     Proofs.SvdDecompTuckerErr Proofs.SvdDecompTTMErr Proofs.SvdDecompErrorR Proofs.SvdDecompHosvdBound
     Proofs.SvdDecompPartial Proofs.SvdDecompRankCond Proofs.SvdDecompTTUpper Proofs.SvdDecompTTRank Proofs.SvdDecompTTMRank
     Proofs.SvdDecompEckartYoung Proofs.SvdDecompTails Proofs.SvdDecompValidate Proofs.SvdDecompRanks.
Import ListNotations.

Section TTMBridge.
Context {F : Type} (Op : fops F).
Hypothesis Rth : ring_theory (f0 Op) (f1 Op) (fadd Op) (fmul Op) (fsub Op) (fopp Op) (@eq F).
Add Ring Fr12b : Rth.
Notation fz := (f0 Op).
Notation sidx := (sum_idx F fz (fadd Op)).
Variable svd : nat -> tensor F -> @svdans F.

Definition ttm_split (ins outs : list nat) (fs : list (tensor F)) : list (tensor F) :=
  zip3 (fun f a b => reshape [nth 0 (shape f) 0; a; b; nth 2 (shape f) 0] f) fs ins outs.

Lemma nth_ttm_split : forall fs ins outs k d, k < length fs -> k < length ins -> k < length outs ->
  nth 3 (shape (nth k (ttm_split ins outs fs) d)) 0 = nth 2 (shape (nth k fs d)) 0.
Proof.
  unfold ttm_split. induction fs as [|f fs IH]; intros [|a ins] [|b outs] k d H1 H2 H3; simpl in *; try lia.
  destruct k as [|k]; [reflexivity|]. apply IH; lia.
Qed.

(* the run of tensor_train_matrix with more than one mode pair is the run of tensor_train on T, cores split again;
   its error is the TT error on T *)
Theorem ttm_err2_tt_err2 X rank cores :
  ndim X / 2 <> 1 -> tensor_train_matrix Op svd X rank = Ok cores ->
  exists fs, tensor_train Op svd (ttm_T Op X) rank = Ok fs /\
             cores = ttm_split (firstn (ndim X / 2) (shape X)) (skipn (ndim X / 2) (shape X)) fs /\
             length fs = ndim X / 2 /\ ndim X = 2 * (ndim X / 2) /\
             ttm_err2 Op X cores = tt_err2 Op (ttm_T Op X) fs.
Proof.
  unfold ttm_err2, ttm_T, tensor_train_matrix, ttm_split. cbv zeta. set (ni := ndim X / 2).
  intros Hni. destruct (Nat.eqb_spec (ndim X) (2 * ni)) as [Hord|]; [|discriminate]. cbn [negb].
  set (ins := firstn ni (shape X)). set (outs := skipn ni (shape X)).
  assert (Hlins : length ins = ni) by (unfold ins; rewrite firstn_length; unfold ndim in Hord; lia).
  assert (Hlouts : length outs = ni) by (unfold outs; rewrite skipn_length; unfold ndim in Hord; lia).
  destruct (Nat.eqb_spec ni 1) as [Hni'|_]; [contradiction|].
  set (Xt := transpose fz (interleave_idx ni) X). set (T := reshape (zip2 Nat.mul ins outs) Xt).
  intros Hrun.
  destruct (tensor_train Op svd T rank) as [fs|] eqn:Ett; [|discriminate]. cbn [rbind] in Hrun.
  injection Hrun as <-. exists fs. split; [reflexivity|]. split; [reflexivity|].
  assert (Hmid : Forall2 (fun G n => exists l r, shape G = [l; n; r]) fs (zip2 Nat.mul ins outs)).
  { unfold tensor_train in Ett. destruct (validate_tt_rank (ndim T) rank) as [rk|]; [|discriminate].
    cbn [rbind] in Ett. destruct (ndim T <=? 1); [discriminate|]. exact (chain_loop_mid Op svd _ _ _ _ _ _ _ Ett). }
  assert (Hlz : forall (A B : list nat), length A = length B -> length (zip2 Nat.mul A B) = length A).
  { induction A as [|a A IH]; intros [|b B] Hl; simpl in *; try lia. rewrite IH; lia. }
  assert (HF2 : forall (A B : Type) (P : A -> B -> Prop) (l : list A) (l' : list B), Forall2 P l l' -> length l = length l').
  { intros A B P l l' H. induction H; simpl; congruence. }
  split. { rewrite (HF2 _ _ _ _ _ Hmid). rewrite Hlz; lia. }
  split; [exact Hord|].
  assert (HsXt : shape Xt = inter ins outs).
  { unfold Xt, transpose. cbn [shape tabulate]. apply permute_interleave. exact Hord. }
  unfold tt_err2. change (shape T) with (zip2 Nat.mul ins outs).
  rewrite (sum_idx_merge Op Rth) by lia.
  apply sum_idx_ext. intros is_ Hi. apply sum_idx_ext. intros js Hj. f_equal. f_equal.
  + symmetry. unfold T, g, get, reshape. cbn [shape data]. rewrite ravel_merge by (auto; lia).
    rewrite <- HsXt. fold (get fz Xt (inter is_ js)). unfold Xt, transpose. rewrite get_tabulate.
    * rewrite scatter_interleave; [reflexivity | |].
      -- rewrite (inb_length _ _ Hi). exact Hlins.
      -- rewrite (inb_length _ _ Hj). exact Hlouts.
    * change (permute 0 (interleave_idx ni) (shape X)) with (shape Xt). rewrite HsXt.
      apply inb_inter; auto. lia.
  + unfold ttm_entry. rewrite (chain4_reshape Op svd) by (auto; lia). reflexivity.
Qed.

(* the bonds of the returned 4-D cores (last dimension of every core but the last) *)
Fixpoint ttm_right_bonds (cores : list (tensor F)) : list nat :=
  match cores with
  | [] => []
  | G :: cs => match cs with [] => [] | _ :: _ => nth 3 (shape G) 0 :: ttm_right_bonds cs end
  end.

Lemma ttm_right_bonds_split : forall fs ins outs, length fs = length ins -> length fs = length outs ->
  ttm_right_bonds (ttm_split ins outs fs) = right_bonds fs.
Proof.
  unfold ttm_split. induction fs as [|f fs IH]; intros [|a ins] [|b outs] H1 H2; simpl in H1, H2; try lia; [reflexivity|].
  cbn [zip3]. destruct fs as [|f2 fs2].
  - destruct ins, outs; reflexivity.
  - destruct ins as [|a2 ins2]; [simpl in H1; lia|]. destruct outs as [|b2 outs2]; [simpl in H2; lia|].
    cbn [zip3 ttm_right_bonds right_bonds]. cbn [shape reshape nth]. f_equal.
    apply (IH (a2 :: ins2) (b2 :: outs2)); simpl in *; lia.
Qed.

Lemma ndim_ttm_T X : ndim X = 2 * (ndim X / 2) -> ndim (ttm_T Op X) = ndim X / 2.
Proof.
  intros Hord. unfold ttm_T, ndim, reshape. cbv zeta. cbn [shape].
  set (ni := length (shape X) / 2) in *.
  assert (Hlz : forall (A B : list nat), length A = length B -> length (zip2 Nat.mul A B) = length A).
  { induction A as [|a A IH]; intros [|b B] Hl; simpl in *; try lia. rewrite IH; lia. }
  unfold ndim in Hord. fold ni in Hord.
  rewrite Hlz; rewrite firstn_length; [lia|rewrite skipn_length; lia].
Qed.

(* the advertised TT-matrix ranks: with more than one mode pair, tensor_train_matrix returns EXACTLY the closed-form bonds of TT-SVD
   on the merged mode sizes in_k * out_k (any carrier, any oracle) - in particular never more than requested *)
Theorem tensor_train_matrix_realised_rank X rank cores :
  ndim X / 2 <> 1 -> tensor_train_matrix Op svd X rank = Ok cores ->
  match validate_tt_rank (ndim X / 2) rank with
  | Ok rk => 1 :: ttm_right_bonds cores ++ [1] =
             realised_tt_rank (zip2 Nat.mul (firstn (ndim X / 2) (shape X)) (skipn (ndim X / 2) (shape X))) rk
  | Err => False
  end.
Proof.
  intros E Hrun. destruct (ttm_err2_tt_err2 X rank cores E Hrun) as (fs & Htt & Hcores & Hlen & Hord & _).
  pose proof (tensor_train_realised_rank Op svd (ttm_T Op X) rank fs Htt) as H.
  rewrite (ndim_ttm_T X Hord) in H.
  destruct (validate_tt_rank (ndim X / 2) rank) as [rk|]; [|exact H].
  rewrite Hcores. rewrite ttm_right_bonds_split.
  - exact H.
  - rewrite firstn_length. unfold ndim in *. lia.
  - rewrite skipn_length. unfold ndim in *. lia.
Qed.

End TTMBridge.

Local Open Scope R_scope.

Section TTMBoundsR.
Variable svd : nat -> tensor R -> @svdans R.

Lemma ttm_T_tensor X : ttm_T Rops X = ttm_tensor X.
Proof. reflexivity. Qed.

Lemma ndim_ttm_tensor X : ndim X = (2 * (ndim X / 2))%nat -> ndim (ttm_tensor X) = (ndim X / 2)%nat.
Proof.
  intros Hord. unfold ttm_tensor, ndim, reshape. cbv zeta. cbn [shape].
  set (ni := (length (shape X) / 2)%nat) in *.
  assert (Hlz : forall (A B : list nat), length A = length B -> length (zip2 Nat.mul A B) = length A).
  { induction A as [|a A IH]; intros [|b B] Hl; simpl in *; try lia. rewrite IH; lia. }
  unfold ndim in Hord. fold ni in Hord.
  rewrite Hlz; rewrite firstn_length; [lia|rewrite skipn_length; lia].
Qed.

(* upper bound: squared error <= sum over the sequential unfoldings of T of their discarded squared singular values
   (at the bonds the run realises); a single mode pair is returned as it is (error 0) *)
Theorem tensor_train_matrix_error_upper (svdX : nat -> tensor R -> @svdans R) X rank cores :
  (0 < prod (shape (ttm_tensor X)))%nat -> tt_sorted svd (ttm_tensor X) rank ->
  x_contract_from svdX (ttm_tensor X) 1 (tt_rank_list svd (ttm_tensor X) rank) ->
  tensor_train_matrix Rops svd X rank = Ok cores ->
  ttm_err2 Rops X cores <= (if Nat.eqb (ndim X / 2) 1 then 0 else Rsum (x_tail_list svd svdX (ttm_tensor X) rank)).
Proof.
  intros Hpos Hs Hx Hrun. destruct (Nat.eqb_spec (ndim X / 2) 1) as [E|E].
  - pose proof (tensor_train_matrix_error_identity Rops Rops_ring svd X rank cores) as Hid.
    unfold ttm_orth, ttm_discard in Hid. rewrite E in Hid. cbn [Nat.eqb] in Hid.
    rewrite (Hid I Hrun). cbn [f0 Rops]. lra.
  - destruct (ttm_err2_tt_err2 Rops Rops_ring svd X rank cores E Hrun) as (fs & Htt & _ & _ & _ & Herr).
    rewrite Herr. rewrite ttm_T_tensor in *.
    exact (tt_error_root_sum_square svd svdX (ttm_tensor X) rank fs Hpos Hs Hx Htt).
Qed.

(* lower bound: for every cut after k mode pairs, the squared error is at least the discarded tail of the k-th sequential
   unfolding of T at the bond the returned core k-1 really has (its last dimension): the advertised TT-matrix ranks are respected *)
Theorem tensor_train_matrix_error_lower X rank cores k aX :
  tensor_train_matrix Rops svd X rank = Ok cores -> (0 < k)%nat -> (k < ndim X / 2)%nat ->
  svd_sorted_contract (x_unfolding (ttm_tensor X) k) (prod (firstn k (shape (ttm_tensor X))))
                      (prod (skipn k (shape (ttm_tensor X)))) (nth 3 (shape (nth (k - 1) cores (mk [] []))) 0%nat) aX ->
  tail2 Rops (nth 3 (shape (nth (k - 1) cores (mk [] []))) 0%nat) (snd3 aX) <= ttm_err2 Rops X cores.
Proof.
  intros Hrun Hk0 Hk Hc.
  assert (E : (ndim X / 2)%nat <> 1%nat) by lia.
  destruct (ttm_err2_tt_err2 Rops Rops_ring svd X rank cores E Hrun) as (fs & Htt & Hcores & Hlen & Hord & Herr).
  rewrite Herr. rewrite ttm_T_tensor in *.
  assert (Hb : nth 3 (shape (nth (k - 1) cores (mk [] []))) 0%nat = nth 2 (shape (nth (k - 1) fs (mk [] []))) 0%nat).
  { rewrite Hcores. apply nth_ttm_split.
    - lia.
    - rewrite firstn_length. unfold ndim in *. lia.
    - rewrite skipn_length. unfold ndim in *. lia. }
  rewrite Hb in *.
  apply (tt_error_lower_partial svd eckart_young_holds (ttm_tensor X) rank fs k aX Htt Hk0); [|exact Hc].
  rewrite (ndim_ttm_tensor X Hord). exact Hk.
Qed.

End TTMBoundsR.

(* ------------------------------------------------------------------ non-vacuity *)
(* the matrix diag(2, 1) tensorised with mode pairs (2 x 1), (2 x 1): T = diag(2, 1); request (1,1,1) is a genuine truncation;
   LAPACK answering (I, [2; 1], I) *)
Definition ttmB_X : tensor R := mk [2; 2; 1; 1]%nat [2; 0; 0; 1].

Lemma ttmB_tensor : ttm_tensor ttmB_X = ey_M.
Proof. vm_compute. reflexivity. Qed.

Example ttm_bounds_hypotheses_satisfiable :
  let svd := fun (_ : nat) (_ : tensor R) => ey_a in
  (ndim ttmB_X / 2)%nat <> 1%nat /\ (0 < 1 < ndim ttmB_X / 2)%nat /\
  (0 < prod (shape (ttm_tensor ttmB_X)))%nat /\ tt_sorted svd (ttm_tensor ttmB_X) (inr [1; 1; 1]%nat) /\
  x_contract_from svd (ttm_tensor ttmB_X) 1 (tt_rank_list svd (ttm_tensor ttmB_X) (inr [1; 1; 1]%nat)) /\
  svd_sorted_contract (x_unfolding (ttm_tensor ttmB_X) 1) (prod (firstn 1 (shape (ttm_tensor ttmB_X))))
                      (prod (skipn 1 (shape (ttm_tensor ttmB_X)))) 1 ey_a.
Proof.
  cbv zeta. rewrite ttmB_tensor.
  split; [cbn; lia|]. split; [cbn; lia|].
  destruct tt_upper_hypotheses_satisfiable as (H1 & H2 & H3).
  split; [exact H1|]. split; [exact H2|]. split; [exact H3|].
  destruct chain_cores_error_lower_nonvacuous as (_ & _ & H4 & _). exact H4.
Qed.
