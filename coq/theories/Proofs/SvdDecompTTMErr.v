(* C09, tensor_train_matrix error identity (every commutative ring, any number of mode pairs, no assumption on
   the discarded singular values): the squared distance between X and the TT-matrix contraction of the returned
   4-D cores is the sum over the steps of the underlying TT-SVD (on the interleaved, pair-merged tensor) of what
   each truncation discards. *)
From Coq Require Import List Arith Lia Bool Ring.
From TLV Require Import Base.Shape Base.PyList Base.Tensor Base.BigSum Base.Ops Model.Base Model.SvdDecomp
     Proofs.SvdDecompProofs Proofs.SvdDecompPyth Proofs.SvdDecompError Proofs.SvdDecompTTM Proofs.SvdDecompTuckerErr.
Import ListNotations.

Section TTMErr.
Context {F : Type} (Op : fops F).
Hypothesis Rth : ring_theory (f0 Op) (f1 Op) (fadd Op) (fmul Op) (fsub Op) (fopp Op) (@eq F).
Add Ring Fr12 : Rth.
Notation fz := (f0 Op).
Notation fone := (f1 Op).
Infix "+f" := (fadd Op) (at level 50, left associativity).
Infix "-f" := (fsub Op) (at level 50, left associativity).
Infix "*f" := (fmul Op) (at level 40, left associativity).
Notation fsum := (fsumn Op).
Notation gg := (g Op).
Notation sidx := (sum_idx F fz (fadd Op)).
Notation sqf := (sq Op).

(* a sum over the pair-merged index space is a double sum over input and output indices *)
Lemma sum_idx_merge : forall (A B : list nat) (G : list nat -> F), length A = length B ->
  sidx (zip2 Nat.mul A B) G = sidx A (fun is_ => sidx B (fun js => G (merge_idx is_ js B))).
Proof.
  induction A as [|a A IH]; intros [|b B] G Hl; try discriminate.
  - cbn [zip2]. rewrite !(sum_idx_nil F _ _ _ _ _ _ Rth). reflexivity.
  - cbn [zip2]. rewrite !(sum_idx_cons F _ _ _ _ _ _ Rth).
    fold (fsum (a * b) (fun m => sidx (zip2 Nat.mul A B) (fun idx => G (m :: idx)))).
    rewrite (fsumn_mul' Op Rth a b). apply fsumn_ext. intros i _.
    rewrite (sum_idx_ext F fz (fadd Op) A _ (fun is_ => fsum b (fun j =>
               sidx B (fun js => G ((i * b + j) :: merge_idx is_ js B))))).
    + rewrite <- (sidx_exchange Op Rth). apply fsumn_ext. intros j _.
      rewrite (IH B (fun idx => G ((i * b + j) :: idx))) by (simpl in Hl; lia). reflexivity.
    + intros is_ _. rewrite (sum_idx_cons F _ _ _ _ _ _ Rth). apply bigsum_ext. intros j _. reflexivity.
Qed.

Variable svd : nat -> tensor F -> @svdans F.

Definition ttm_err2 (X : tensor F) (cores : list (tensor F)) : F :=
  let ni := ndim X / 2 in
  sidx (firstn ni (shape X)) (fun is_ => sidx (skipn ni (shape X)) (fun js =>
    sqf (gg X (is_ ++ js) -f ttm_entry Op cores is_ js))).

Definition ttm_T (X : tensor F) : tensor F :=
  let ni := ndim X / 2 in
  reshape (zip2 Nat.mul (firstn ni (shape X)) (skipn ni (shape X))) (transpose fz (interleave_idx ni) X).

Definition ttm_orth (X : tensor F) (rank : rank_spec) : Prop :=
  if Nat.eqb (ndim X / 2) 1 then True else tt_orth Op svd (ttm_T X) rank.
Definition ttm_discard (X : tensor F) (rank : rank_spec) : F :=
  if Nat.eqb (ndim X / 2) 1 then fz else tt_discard Op svd (ttm_T X) rank.

Theorem tensor_train_matrix_error_identity X rank cores :
  ttm_orth X rank -> tensor_train_matrix Op svd X rank = Ok cores ->
  ttm_err2 X cores = ttm_discard X rank.
Proof.
  unfold ttm_orth, ttm_discard, ttm_err2, ttm_T, tensor_train_matrix. cbv zeta. set (ni := ndim X / 2).
  destruct (Nat.eqb_spec (ndim X) (2 * ni)) as [Hord|]; [|discriminate]. cbn [negb].
  set (ins := firstn ni (shape X)). set (outs := skipn ni (shape X)).
  assert (Hlins : length ins = ni) by (unfold ins; rewrite firstn_length; unfold ndim in Hord; lia).
  assert (Hlouts : length outs = ni) by (unfold outs; rewrite skipn_length; unfold ndim in Hord; lia).
  destruct (Nat.eqb_spec ni 1) as [Hni|Hni].
  - (* a single core: the matrix itself, no error *)
    intros _ Hrun. injection Hrun as <-.
    destruct ins as [|x [|? ?]] eqn:Ei; try (simpl in Hlins; lia).
    destruct outs as [|y [|? ?]] eqn:Eo; try (simpl in Hlouts; lia).
    assert (EsX : shape X = [x; y]).
    { rewrite <- (firstn_skipn ni (shape X)). fold ins outs. rewrite Ei, Eo. reflexivity. }
    unfold sum_idx. apply (fsumn_zero Op Rth). intros r Hr. apply (fsumn_zero Op Rth). intros c Hc.
    pose proof (unravel_inb _ _ Hr) as Hi. pose proof (unravel_inb _ _ Hc) as Hj.
    destruct (unravel [x] r) as [|i [|? ?]]; simpl in Hi; try tauto.
    destruct (unravel [y] c) as [|j [|? ?]]; simpl in Hj; try tauto.
    destruct Hi as [Hi _]. destruct Hj as [Hj _].
    unfold ttm_entry. cbn [chain4 hd shape nth]. rewrite (fsumn_single Op Rth 1 0) by (try lia; intros; lia).
    cbn [Nat.eqb]. unfold g, get. cbn [shape data app]. rewrite EsX. cbn [ravel prod fold_right].
    replace (0 * (x * (y * (1 * 1))) + (i * (y * (1 * 1)) + (j * (1 * 1) + (0 * 1 + 0)))) with (i * (y * 1) + (j * 1 + 0)) by lia.
    unfold sq. ring.
  - set (Xt := transpose fz (interleave_idx ni) X). set (T := reshape (zip2 Nat.mul ins outs) Xt).
    intros Hok Hrun.
    destruct (tensor_train Op svd T rank) as [fs|] eqn:Ett; [|discriminate]. cbn [rbind] in Hrun.
    injection Hrun as <-.
    rewrite <- (tensor_train_error_identity Op Rth svd T rank fs Hok Ett).
    assert (Hmid : Forall2 (fun G n => exists l r, shape G = [l; n; r]) fs (zip2 Nat.mul ins outs)).
    { unfold tensor_train in Ett. destruct (validate_tt_rank (ndim T) rank) as [rk|]; [|discriminate].
      cbn [rbind] in Ett. destruct (ndim T <=? 1); [discriminate|]. exact (chain_loop_mid Op svd _ _ _ _ _ _ _ Ett). }
    assert (HsXt : shape Xt = inter ins outs).
    { unfold Xt, transpose. cbn [shape tabulate]. apply permute_interleave. exact Hord. }
    unfold tt_err2. change (shape T) with (zip2 Nat.mul ins outs).
    rewrite sum_idx_merge by lia.
    apply sum_idx_ext. intros is_ Hi. apply sum_idx_ext. intros js Hj. f_equal. f_equal.
    + (* X (is ++ js) = T (merged index) *)
      symmetry. unfold T, g, get, reshape. cbn [shape data]. rewrite ravel_merge by (auto; lia).
      rewrite <- HsXt. fold (get fz Xt (inter is_ js)). unfold Xt, transpose. rewrite get_tabulate.
      * rewrite scatter_interleave; [reflexivity | |].
        -- rewrite (inb_length _ _ Hi). exact Hlins.
        -- rewrite (inb_length _ _ Hj). exact Hlouts.
      * change (permute 0 (interleave_idx ni) (shape X)) with (shape Xt). rewrite HsXt.
        apply inb_inter; auto. lia.
    + unfold ttm_entry. rewrite (chain4_reshape Op svd) by (auto; lia). reflexivity.
Qed.

End TTMErr.
