(* C09: tensor_train_matrix is exact under the property's literal rank condition (on the interleaved, pair-merged tensor T the
   function hands to TT-SVD), assuming only LAPACK's plain contract for the answers of the run. *)
From Coq Require Import List Arith Lia Bool Reals Lra RealField.
From TLV Require Import Base.Shape Base.PyList Base.Tensor Base.BigSum Base.Ops Model.Base Model.SvdDecomp
     Proofs.SvdDecompProofs Proofs.SvdDecompProofsR Proofs.SvdDecompTTM Proofs.SvdDecompErrorR Proofs.SvdDecompHosvdBound Proofs.SvdDecompPartial
     Proofs.SvdDecompRankCond Proofs.SvdDecompTTUpper Proofs.SvdDecompTTRank.
Import ListNotations.
Local Open Scope R_scope.

Section TTMRank.
Variable svd : nat -> tensor R -> @svdans R.

(* the derived per-run contract "every truncation of the run discards only zero singular values" *)
Lemma tt_contract_requested (X : tensor R) (rank : rank_spec) :
  (0 < prod (shape X))%nat -> tt_sorted svd X rank ->
  (forall rk, validate_tt_rank (ndim X) rank = Ok rk -> requested_rank_condition X rk) ->
  tt_contract svd X rank.
Proof.
  intros Hpos Hs Hreq. unfold tt_sorted, tt_contract in *.
  destruct (validate_tt_rank (ndim X) rank) as [rk|] eqn:E; [|exact I].
  specialize (Hreq rk eq_refl).
  apply (loop_contract_from_rank svd X (shape X) 0 (tl rk) 1 (data X) (fun _ _ => 1) 0); try assumption.
  - reflexivity.
  - cbn [firstn prod fold_right]. apply frame_init.
  - change (tl rk) with (skipn 1 rk).
    apply (x_factors_from_requested svd X rk (shape X) 0 1 (data X) 0); try assumption.
    + reflexivity.
    + cbn [firstn prod fold_right]. exists (fun _ _ => 1), (fun _ c => gR (mk [1%nat; prod (shape X)] (data X)) [0%nat; c]).
      intros i c Hi Hc. assert (i = 0%nat) by lia. subst. unfold fsumn. cbn [bigsum fadd f0 Rops]. ring.
Qed.

Definition ttm_tensor (X : tensor R) : tensor R :=
  let ni := (ndim X / 2)%nat in
  reshape (zip2 Nat.mul (firstn ni (shape X)) (skipn ni (shape X))) (transpose 0 (interleave_idx ni) X).

Theorem tensor_train_matrix_exact_requested_ranks (X : tensor R) (rank : rank_spec) (cores : list (tensor R)) :
  (0 < prod (shape (ttm_tensor X)))%nat -> tt_sorted svd (ttm_tensor X) rank ->
  (forall rk, validate_tt_rank (ndim (ttm_tensor X)) rank = Ok rk -> requested_rank_condition (ttm_tensor X) rk) ->
  tensor_train_matrix Rops svd X rank = Ok cores ->
  forall is_ js, inb (firstn (ndim X / 2) (shape X)) is_ -> inb (skipn (ndim X / 2) (shape X)) js ->
  ttm_entry Rops cores is_ js = gR X (is_ ++ js).
Proof.
  intros Hpos Hs Hreq. apply (tensor_train_matrix_exact Rops Rops_ring svd).
  unfold ttm_ok. cbv zeta. destruct (Nat.eqb (ndim X / 2) 1); [exact I|].
  pose proof (tt_contract_requested (ttm_tensor X) rank Hpos Hs Hreq) as Hc.
  unfold tt_contract in Hc. unfold tt_ok. unfold ttm_tensor in Hc. cbv zeta in Hc.
  change (f0 Rops) with 0.
  destruct (validate_tt_rank _ rank) as [rk|]; [|exact I].
  exact (loop_pred_impl Rops svd _ _ svd_contract_step_ok _ _ _ _ _ _ Hc).
Qed.
End TTMRank.

(* non-vacuity: the 2 x 2 matrix diag(2, 0) tensorised as (2,1,2,1) -> merged sizes (4,1); request (1,1,1) *)
Definition ttmX : tensor R := mk [2; 1; 2; 1]%nat [2; 0; 0; 0].
Definition ttm_a : @svdans R := (mk [4; 1]%nat [1; 0; 0; 0], [2], mk [1; 1]%nat [1]).

Example ttm_hypotheses_satisfiable :
  let svd := fun (_ : nat) (_ : tensor R) => ttm_a in
  (0 < prod (shape (ttm_tensor ttmX)))%nat /\ tt_sorted svd (ttm_tensor ttmX) (inr [1; 1; 1]%nat) /\
  requested_rank_condition (ttm_tensor ttmX) [1; 1; 1]%nat.
Proof.
  assert (ET : ttm_tensor ttmX = mk [4; 1]%nat [2; 0; 0; 0]) by (vm_compute; reflexivity).
  cbv zeta. rewrite ET. split; [cbn; lia|]. split.
  - unfold tt_sorted. cbn [validate_tt_rank ndim shape length Nat.add Nat.eqb hd last andb tl].
    cbn [loop_pred]. cbv zeta. split.
    + split.
      * unfold svd_full_contract, ttm_a. cbn [length]. split; [cbn; lia|]. split; [reflexivity|]. split; [reflexivity|].
        split; [|split].
        -- intros j l Hj Hl. assert (j = 0%nat) by lia. assert (l = 0%nat) by lia. subst. unfold fsumn, g, get; cbn; lra.
        -- intros j l Hj Hl. assert (j = 0%nat) by lia. assert (l = 0%nat) by lia. subst. unfold fsumn, g, get; cbn; lra.
        -- intros i c Hi Hc. cbn in Hi, Hc. assert (c = 0%nat) by lia. subst.
           destruct i as [|[|[|[|i]]]]; try lia; unfold fsumn, g, get; cbn; lra.
      * unfold sorted_nonneg, ttm_a. cbn [snd3 length]. intros l l' H1 H2.
        assert (l' = 0%nat) by lia. assert (l = 0%nat) by lia. subst. cbn. lra.
    + destruct (svd_interface Rops ttm_a _) as [[U' S'] V']. exact I.
  - intros k Hk Hk2. cbn in Hk2. assert (k = 1%nat) by lia. subst.
    exists (fun i _ => if Nat.eqb i 0 then 2 else 0), (fun _ _ => 1).
    intros i c Hi Hc. cbn in Hi, Hc. assert (c = 0%nat) by lia. subst.
    destruct i as [|[|[|[|i]]]]; try lia; unfold fsumn, g, get, x_unfolding; cbn; lra.
Qed.
