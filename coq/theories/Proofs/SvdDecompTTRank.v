(* C09: the rank condition of the property in its LITERAL form -- every sequential unfolding of X has rank at most the REQUESTED
   rank of that bond -- implies the condition at the realised bonds used by Proofs/SvdDecompTTUpper.v, hence exactness of TT-SVD. *)
From Coq Require Import List Arith Lia Bool Reals Lra RealField.
From TLV Require Import Base.Shape Base.PyList Base.Tensor Base.BigSum Base.Ops Model.Base Model.SvdDecomp
     Proofs.SvdDecompProofs Proofs.SvdDecompProofsR Proofs.SvdDecompPyth Proofs.SvdDecompErrorR Proofs.SvdDecompPartial
     Proofs.SvdDecompRankCond Proofs.SvdDecompTTUpper.
Import ListNotations.
Local Open Scope R_scope.

Lemma sumR_dlt_r n c (a : nat -> R) : (c < n)%nat -> sumR n (fun j => a j * dlt j c) = a c.
Proof.
  intros Hc. rewrite (fsumn_single Rops Rops_ring n c) by (first [exact Hc | intros i Hi Hne; unfold dlt;
    destruct (Nat.eqb_spec i c); [contradiction | cbn [f0 Rops]; ring]]).
  unfold dlt. rewrite Nat.eqb_refl. ring.
Qed.

(* X_(k) = A B with inner dimension rk  ==>  X_(k+1) factors through rk * n *)
Lemma factors_kron (Xd : list R) (p n q' rk : nat) : (0 < n)%nat ->
  factors_through (mk [p; n * q']%nat Xd) p (n * q') rk ->
  factors_through (mk [p * n; q']%nat Xd) (p * n) q' (rk * n).
Proof.
  intros Hn (A & B & HAB).
  exists (fun rho beta => A (rho / n)%nat (beta / n)%nat * dlt (beta mod n) (rho mod n)),
         (fun beta c => B (beta / n)%nat ((beta mod n) * q' + c)%nat).
  intros rho c Hrho Hc.
  assert (Hj : (rho / n < p)%nat) by (apply Nat.div_lt_upper_bound; lia).
  assert (Hi : (rho mod n < n)%nat) by (apply Nat.mod_upper_bound; lia).
  pose proof (Nat.div_mod rho n ltac:(lia)) as Edm.
  set (j := (rho / n)%nat) in *. set (i := (rho mod n)%nat) in *.
  rewrite g_mk2. replace (rho * q' + c)%nat with (j * (n * q') + (i * q' + c))%nat by nia.
  rewrite <- (g_mk2 p (n * q') Xd j (i * q' + c)). rewrite HAB by (first [exact Hj | nia]).
  rewrite sumR_mul. apply sumR_ext. intros b Hb.
  transitivity (sumR n (fun i' => (A j b * B b (i' * q' + c)%nat) * dlt i' i)).
  - now rewrite sumR_dlt_r.
  - apply sumR_ext. intros i' Hi'. destruct (divmod_lin b i' n Hi') as [-> ->]. ring.
Qed.

Lemma factors_cols (M : tensor R) (m q : nat) : factors_through M m q q.
Proof.
  exists (fun i c' => gR M [i; c']), (fun c' c => dlt c' c). intros i c Hi Hc. now rewrite sumR_dlt_r.
Qed.

Section Req.
Variable svd : nat -> tensor R -> @svdans R.
Variable X : tensor R.
Variable rk0 : list nat.       (* the validated request, rk0[k] = requested rank of bond k *)

Definition requested_rank_condition : Prop :=
  forall k, (0 < k)%nat -> (k < ndim X)%nat ->
    factors_through (x_unfolding X k) (prod (firstn k (shape X))) (prod (skipn k (shape X))) (nth k rk0 1%nat).

Lemma hd_skipn (l : list nat) k : hd 1%nat (skipn k l) = nth k l 1%nat.
Proof. revert l. induction k; intros [|x l]; cbn; auto. Qed.
Lemma tl_skipn (l : list nat) k : tl (skipn k l) = skipn (S k) l.
Proof. revert l. induction k; intros l; [destruct l; reflexivity|]. destruct l as [|x l]; [reflexivity|]. cbn [skipn]. rewrite IHk. reflexivity. Qed.

Lemma x_factors_from_requested : forall sizes k rk W kx,
  skipn kx (shape X) = sizes -> (0 < prod sizes)%nat ->
  factors_through (mk [prod (firstn kx (shape X)); prod sizes]%nat (data X)) (prod (firstn kx (shape X))) (prod sizes) rk ->
  requested_rank_condition ->
  x_factors_from X (S kx) (loop_rank_list svd k sizes (skipn (S kx) rk0) rk 1%nat W).
Proof.
  induction sizes as [|n rest IH]; intros k rk W kx Hsk Hpos Hinv Hreq; [exact I|].
  destruct rest as [|n2 rest2]; [exact I|].
  set (rest := n2 :: rest2) in *.
  rewrite prod_cons in Hpos, Hinv.
  assert (Hn : (0 < n)%nat) by nia. assert (Hrest : (0 < prod rest)%nat) by nia.
  destruct (skipn_cons_step (shape X) kx n rest Hsk) as [Hsk' Hfn].
  set (p := prod (firstn kx (shape X))) in *.
  assert (E1 : prod (firstn (S kx) (shape X)) = (p * n)%nat).
  { rewrite Hfn, prod_app. unfold p. cbn [prod fold_right]. lia. }
  assert (E2 : prod (skipn (S kx) (shape X)) = prod rest) by (now rewrite Hsk').
  assert (Hnd : (S kx < ndim X)%nat).
  { unfold ndim. assert (L : length (skipn (S kx) (shape X)) = length rest) by (now rewrite Hsk').
    rewrite skipn_length in L. unfold rest in L. cbn [length] in L. lia. }
  unfold rest. rewrite loop_rank_list_cons. cbv zeta. fold rest.
  rewrite hd_skipn, tl_skipn.
  set (q' := (prod rest * 1)%nat). set (r := Nat.min (rk * n) (Nat.min q' (nth (S kx) rk0 1%nat))).
  destruct (svd_interface Rops _ r) as [[U' S'] V'].
  assert (Hr : factors_through (mk [(p * n)%nat; prod rest] (data X)) (p * n) (prod rest) r).
  { assert (H1 : factors_through (mk [(p * n)%nat; prod rest] (data X)) (p * n) (prod rest) (rk * n)) by (now apply factors_kron).
    assert (H2 : factors_through (mk [(p * n)%nat; prod rest] (data X)) (p * n) (prod rest) (prod rest)) by apply factors_cols.
    pose proof (Hreq (S kx) ltac:(lia) Hnd) as H3. unfold x_unfolding in H3. rewrite E1, E2 in H3.
    unfold r, q'. rewrite Nat.mul_1_r.
    destruct (Nat.min_spec (rk * n) (Nat.min (prod rest) (nth (S kx) rk0 1%nat))) as [[_ ->]|[_ ->]]; [exact H1|].
    destruct (Nat.min_spec (prod rest) (nth (S kx) rk0 1%nat)) as [[_ ->]|[_ ->]]; assumption. }
  cbn [x_factors_from]. split.
  - unfold x_unfolding. rewrite E1, E2. exact Hr.
  - apply (IH (S k) r _ (S kx)); try assumption. rewrite E1. exact Hr.
Qed.
End Req.

(* the property's first sentence for TT-SVD, literally: requested ranks at least the ranks of the sequential unfoldings *)
Theorem tensor_train_exact_requested_ranks (svd : nat -> tensor R -> @svdans R) (X : tensor R) (rank : rank_spec) (cores : list (tensor R)) :
  (0 < prod (shape X))%nat -> tt_sorted svd X rank ->
  (forall rk, validate_tt_rank (ndim X) rank = Ok rk -> requested_rank_condition X rk) ->
  tensor_train Rops svd X rank = Ok cores ->
  forall idx, inb (shape X) idx -> tt_entry Rops cores idx = gR X idx.
Proof.
  intros Hpos Hs Hreq. apply (tensor_train_exact_from_rank_condition svd X rank cores Hpos Hs).
  unfold tt_rank_list. destruct (validate_tt_rank (ndim X) rank) as [rk|] eqn:E; [|exact I].
  specialize (Hreq rk eq_refl).
  change (tl rk) with (skipn 1 rk).
  apply (x_factors_from_requested svd X rk (shape X) 0 1 (data X) 0); try assumption.
  - reflexivity.
  - cbn [firstn prod fold_right]. exists (fun _ _ => 1), (fun _ c => gR (mk [1%nat; prod (shape X)] (data X)) [0%nat; c]).
    intros i c Hi Hc. assert (i = 0%nat) by lia. subst. unfold fsumn. cbn [bigsum fadd f0 Rops]. ring.
Qed.

Example requested_rank_condition_satisfiable : requested_rank_condition rk1_M [1; 1; 1]%nat.
Proof.
  intros k Hk Hk2. cbn in Hk2. assert (k = 1%nat) by lia. subst.
  exists (fun i _ => if Nat.eqb i 0 then 2 else 0), (fun _ c => if Nat.eqb c 0 then 1 else 0).
  intros i c Hi Hc. assert (Ei : i = 0%nat \/ i = 1%nat) by (cbn in Hi; lia). assert (Ec : c = 0%nat \/ c = 1%nat) by (cbn in Hc; lia).
  destruct Ei as [-> | ->]; destruct Ec as [-> | ->]; unfold fsumn, g, get, x_unfolding, rk1_M; cbn; lra.
Qed.
