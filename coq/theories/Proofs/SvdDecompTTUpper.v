(* C09: the TT-SVD root-sum-square upper bound as a FULL theorem, and "rank condition on X => per-run contract" for every step.
   Invariant of the sequential loop (induction over chain_loop): the working array W (rk x q) is P^T X_(k) for a frame P
   (p x rk) with orthonormal columns, where X is viewed as p x q (p = product of the consumed mode sizes).  The working
   unfolding of the next step is then (P (x) I_n)^T X_(k+1); Eckart-Young for the working unfolding (C09_eckart_young), applied to
   the projected best rank-r approximation of X_(k+1), and Bessel's inequality for the frame give
        tail_r(working unfolding) <= tail_r(X_(k+1)),
   which is the named hypothesis working_tails_le_x_tails of Proofs/SvdDecompPartial.v. *)
From Coq Require Import List Arith Lia Bool Reals Lra RealField.
From TLV Require Import Base.Shape Base.PyList Base.Tensor Base.BigSum Base.Ops Base.RSum Model.Base Model.SvdDecomp
     Proofs.SvdDecompProofs Proofs.SvdDecompProofsR Proofs.SvdDecompPyth Proofs.SvdDecompError Proofs.SvdDecompTails
     Proofs.SvdDecompErrorR Proofs.SvdDecompTuckerErr Proofs.SvdDecompHosvdBound Proofs.SvdDecompRing Proofs.SvdDecompPartial
     Proofs.SvdDecompRankCond Proofs.SvdDecompEckartYoung.
From TLV Require Proofs.SvdProofsAux Proofs.SvdEckartYoung.
Import ListNotations.
Local Open Scope R_scope.

(* ------------------------------------------------------------------ helpers *)
Lemma g_mk2 (m c : nat) (W : list R) i j : gR (mk [m; c] W) [i; j] = nth (i * c + j) W 0.
Proof. unfold g, get. cbn [shape data ravel prod fold_right]. f_equal. lia. Qed.

Lemma sumR_mul n m f : sumR (n * m) f = sumR n (fun i => sumR m (fun j => f (i * m + j)%nat)).
Proof. exact (fsumn_mul' Rops Rops_ring n m f). Qed.

Lemma sumR_ext n f h : (forall i, (i < n)%nat -> f i = h i) -> sumR n f = sumR n h.
Proof. apply fsumn_ext. Qed.

Lemma sumR_exch n m (f : nat -> nat -> R) : sumR n (fun i => sumR m (fun j => f i j)) = sumR m (fun j => sumR n (fun i => f i j)).
Proof. exact (fsumn_exchange Rops Rops_ring n m f). Qed.

Lemma sumR_scal_l n c f : sumR n (fun i => c * f i) = c * sumR n f.
Proof. exact (fsumn_scale_l Rops Rops_ring n c f). Qed.
Lemma sumR_scal_r n c f : sumR n (fun i => f i * c) = sumR n f * c.
Proof. exact (fsumn_scale_r Rops Rops_ring n c f). Qed.

Lemma sumR_le' n f h : (forall i, (i < n)%nat -> f i <= h i) -> sumR n f <= sumR n h.
Proof.
  intros H. induction n; [cbn; lra|]. rewrite !(fsumn_S Rops). cbn [fadd Rops].
  assert (sumR n f <= sumR n h) by (apply IHn; intros; apply H; lia). specialize (H n ltac:(lia)). lra.
Qed.

Lemma divmod_lin (a i n : nat) : (i < n)%nat -> ((a * n + i) / n = a /\ (a * n + i) mod n = i)%nat.
Proof.
  intros Hi. split.
  - rewrite Nat.div_add_l by lia. rewrite Nat.div_small by exact Hi. lia.
  - rewrite Nat.add_comm, Nat.mod_add by lia. now apply Nat.mod_small.
Qed.

(* Bessel's inequality for a frame with orthonormal columns, sumR form *)
Lemma bessel_sumR p rk (P : nat -> nat -> R) (x : nat -> R) : orthonormal_fun Rops P p rk ->
  sumR rk (fun a => sq Rops (sumR p (fun j => P j a * x j))) <= sumR p (fun j => sq Rops (x j)).
Proof.
  intros O.
  pose proof (SvdEckartYoung.bessel p rk P x) as B.
  assert (OC : SvdProofsAux.orthonormal_cols p rk P).
  { intros a b Ha Hb. etransitivity; [symmetry; apply sumR_rsum | exact (O a b Ha Hb)]. }
  specialize (B OC).
  eapply Rle_trans; [|eapply Rle_trans; [exact B|]]; apply Req_le.
  - etransitivity; [apply sumR_rsum|]. apply rsum_ext. intros a Ha. unfold sq. cbn [fmul Rops].
    rewrite (sumR_rsum p (fun j => P j a * x j)). ring.
  - symmetry. etransitivity; [apply sumR_rsum|]. apply rsum_ext. intros j Hj. unfold sq. cbn [fmul Rops]. ring.
Qed.

Lemma skipn_cons_step {A} (l : list A) : forall kx x rest, skipn kx l = x :: rest ->
  skipn (S kx) l = rest /\ firstn (S kx) l = firstn kx l ++ [x].
Proof.
  induction l as [|y l IH]; intros kx x rest H.
  - destruct kx; discriminate.
  - destruct kx.
    + cbn in H. injection H as -> ->. split; reflexivity.
    + cbn [skipn] in H. destruct (IH kx x rest H) as [H1 H2]. split.
      * exact H1.
      * change (firstn (S (S kx)) (y :: l)) with (y :: firstn (S kx) l). rewrite H2. reflexivity.
Qed.

Lemma prod_app (a b : list nat) : prod (a ++ b) = (prod a * prod b)%nat.
Proof. unfold prod. induction a as [|x a IH]; simpl; [lia|]. rewrite IH. lia. Qed.

(* ------------------------------------------------------------------ the frame invariant and one step *)
(* Xd: the data of X viewed as p x q; W: the working array viewed as rk x q; P: p x rk with orthonormal columns; W = P^T X *)
Definition frame_inv (Xd : list R) (p q rk : nat) (P : nat -> nat -> R) (W : list R) : Prop :=
  orthonormal_fun Rops P p rk /\
  forall a t, (a < rk)%nat -> (t < q)%nat -> nth (a * q + t) W 0 = sumR p (fun j => P j a * nth (j * q + t) Xd 0).

Lemma sumR_sub n f h : sumR n (fun i => f i - h i) = sumR n f - sumR n h.
Proof. exact (fsumn_sub Rops Rops_ring n f h). Qed.

(* the discarded tail of the working unfolding (P (x) I_n)^T X_(k) is at most that of X_(k) *)
Lemma step_tail_le (Xd : list R) (p n q' rk r : nat) (P : nat -> nat -> R) (W : list R) (aM aX : @svdans R) :
  (0 < n)%nat ->
  frame_inv Xd p (n * q') rk P W ->
  svd_sorted_contract (mk [rk * n; q']%nat W) (rk * n) q' r aM ->
  svd_full_contract (mk [p * n; q']%nat Xd) (p * n) q' r aX ->
  tail2 Rops r (snd3 aM) <= tail2 Rops r (snd3 aX).
Proof.
  intros Hn [Horth Hfr] HM HX.
  destruct aX as [[UX SX] VX]. cbn [snd3].
  pose proof (disc_tail Rops Rops_ring _ _ _ _ _ _ _ (svd_full_contract_step_full _ _ _ _ _ HX)) as Hd.
  destruct (svd_interface Rops (UX, SX, VX) r) as [[UX' SX'] VX'].
  set (Xk := mk [p * n; q']%nat Xd) in *. set (M := mk [rk * n; q']%nat W) in *.
  set (P' := fun (al b : nat) => sumR p (fun j => P j (al / n)%nat * gR UX' [(j * n + al mod n)%nat; b])).
  set (Q' := fun (b c : nat) => nth b SX' 0 * gR VX' [b; c]).
  pose proof (eckart_young_holds M (rk * n)%nat q' r aM HM P' Q') as EY.
  rewrite <- Hd. eapply Rle_trans; [exact EY|]. unfold disc.
  set (y := fun (rho c : nat) => gR Xk [rho; c] - sumR r (fun b => gR UX' [rho; b] * (nth b SX' 0 * gR VX' [b; c]))).
  (* entries of the residual of the working unfolding *)
  assert (HA : forall a i c, (a < rk)%nat -> (i < n)%nat -> (c < q')%nat ->
            gR M [(a * n + i)%nat; c] - sumR r (fun b => P' (a * n + i)%nat b * Q' b c)
            = sumR p (fun j => P j a * y (j * n + i)%nat c)).
  { intros a i c Ha Hi Hc. destruct (divmod_lin a i n Hi) as [Ed Em].
    unfold M. rewrite g_mk2.
    replace ((a * n + i) * q' + c)%nat with (a * (n * q') + (i * q' + c))%nat by lia.
    rewrite Hfr by (first [exact Ha | nia]).
    transitivity (sumR p (fun j => P j a * gR Xk [(j * n + i)%nat; c]) -
                  sumR p (fun j => P j a * sumR r (fun b => gR UX' [(j * n + i)%nat; b] * (nth b SX' 0 * gR VX' [b; c])))).
    - f_equal.
      + apply sumR_ext. intros j Hj. unfold Xk. rewrite g_mk2. f_equal. f_equal. lia.
      + unfold P', Q'. rewrite Ed, Em.
        transitivity (sumR r (fun b => sumR p (fun j => P j a * (gR UX' [(j * n + i)%nat; b] * (nth b SX' 0 * gR VX' [b; c]))))).
        * apply sumR_ext. intros b Hb. rewrite <- sumR_scal_r. apply sumR_ext. intros j Hj. ring.
        * rewrite sumR_exch. apply sumR_ext. intros j Hj. now rewrite sumR_scal_l.
    - rewrite <- sumR_sub. apply sumR_ext. intros j Hj. unfold y. ring. }
  (* both sides as sums over (frame index, i, c) *)
  rewrite (sumR_mul rk n), (sumR_mul p n).
  apply Rle_trans with (sumR n (fun i => sumR q' (fun c => sumR rk (fun a => sq Rops (sumR p (fun j => P j a * y (j * n + i)%nat c)))))).
  { apply Req_le. rewrite sumR_exch. apply sumR_ext. intros i Hi. rewrite sumR_exch. apply sumR_ext. intros c Hc.
    apply sumR_ext. intros a Ha. cbn [fsub Rops]. f_equal. now apply HA. }
  apply Rle_trans with (sumR n (fun i => sumR q' (fun c => sumR p (fun j => sq Rops (y (j * n + i)%nat c))))).
  { apply sumR_le'. intros i Hi. apply sumR_le'. intros c Hc.
    exact (bessel_sumR p rk P (fun j => y (j * n + i)%nat c) Horth). }
  apply Req_le. symmetry. rewrite sumR_exch. apply sumR_ext. intros i Hi. rewrite sumR_exch. apply sumR_ext. intros c Hc.
  apply sumR_ext. intros j Hj. reflexivity.
Qed.

Lemma g_shape2 (T : tensor R) m c i j : shape T = [m; c] -> gR T [i; j] = nth (i * c + j) (data T) 0.
Proof. intros H. unfold g, get. rewrite H. cbn [ravel prod fold_right]. f_equal. lia. Qed.

Definition dlt (a b : nat) : R := if Nat.eqb a b then 1 else 0.

(* a frame with orthonormal columns preserves inner products *)
Lemma frame_inner p rk (P : nat -> nat -> R) (u v : nat -> R) : orthonormal_fun Rops P p rk ->
  sumR p (fun j => sumR rk (fun a => P j a * u a) * sumR rk (fun a => P j a * v a)) = sumR rk (fun a => u a * v a).
Proof.
  intros O.
  transitivity (sumR p (fun j => sumR rk (fun a => sumR rk (fun a2 => (u a * v a2) * (P j a * P j a2))))).
  { apply sumR_ext. intros j Hj. rewrite <- sumR_scal_r. apply sumR_ext. intros a Ha.
    rewrite <- sumR_scal_l. apply sumR_ext. intros a2 Ha2. ring. }
  rewrite sumR_exch. apply sumR_ext. intros a Ha.
  rewrite sumR_exch.
  transitivity (sumR rk (fun a2 => (u a * v a2) * dlt a a2)).
  { apply sumR_ext. intros a2 Ha2. rewrite sumR_scal_l. f_equal. exact (O a a2 Ha Ha2). }
  rewrite (fsumn_single Rops Rops_ring rk a) by (first [exact Ha | intros i Hi Hne; unfold dlt;
    destruct (Nat.eqb_spec a i); [congruence | cbn [f0 Rops]; ring]]).
  unfold dlt. rewrite Nat.eqb_refl. ring.
Qed.

(* the frame of the next step: P'' = (P (x) I_n) U' *)
Definition next_frame (P : nat -> nat -> R) (rk n : nat) (U' : tensor R) : nat -> nat -> R :=
  fun rho b => sumR rk (fun a => P (rho / n)%nat a * gR U' [(a * n + rho mod n)%nat; b]).

Lemma frame_step (Xd : list R) (p n q' rk r : nat) (P : nat -> nat -> R) (W : list R) (aM : @svdans R) :
  (0 < n)%nat ->
  frame_inv Xd p (n * q') rk P W ->
  svd_full_contract (mk [rk * n; q']%nat W) (rk * n) q' r aM ->
  let '(U', S', V') := svd_interface Rops aM r in
  frame_inv Xd (p * n) q' r (next_frame P rk n U') (data (sv_mul Rops S' V')).
Proof.
  intros Hn [Horth Hfr] HM.
  pose proof (svd_interface_orth Rops Rops_ring _ _ _ _ _
                (step_full_orth Rops _ _ _ _ _ (svd_full_contract_step_full _ _ _ _ _ HM))) as H.
  set (M := mk [rk * n; q']%nat W) in *.
  destruct (svd_interface Rops aM r) as [[U' S'] V'].
  destruct H as (HU' & HV' & HS' & OU' & Hrem).
  assert (HP : forall j i b, (i < n)%nat -> next_frame P rk n U' (j * n + i)%nat b = sumR rk (fun a => P j a * gR U' [(a * n + i)%nat; b])).
  { intros j i b Hi. unfold next_frame. destruct (divmod_lin j i n Hi) as [-> ->]. reflexivity. }
  split.
  - intros b b2 Hb Hb2. rewrite sumR_mul.
    transitivity (sumR p (fun j => sumR n (fun i =>
        sumR rk (fun a => P j a * gR U' [(a * n + i)%nat; b]) * sumR rk (fun a => P j a * gR U' [(a * n + i)%nat; b2])))).
    { apply sumR_ext. intros j Hj. apply sumR_ext. intros i Hi. cbn [fmul Rops]. now rewrite !HP. }
    rewrite sumR_exch.
    transitivity (sumR n (fun i => sumR rk (fun a => gR U' [(a * n + i)%nat; b] * gR U' [(a * n + i)%nat; b2]))).
    { apply sumR_ext. intros i Hi. now apply frame_inner. }
    rewrite sumR_exch. rewrite <- (sumR_mul rk n (fun al => gR U' [al; b] * gR U' [al; b2])).
    exact (OU' b b2 Hb Hb2).
  - intros b t Hb Ht.
    assert (EV : shape (sv_mul Rops S' V') = [r; q']) by (unfold sv_mul; cbn [shape tabulate]; exact HV').
    rewrite <- (g_shape2 _ r q' b t EV).
    unfold sv_mul. rewrite HV'. rewrite (g_tab2 Rops) by assumption. cbn [nth fmul f0 Rops].
    pose proof (Hrem b t Hb Ht) as Hr. cbn [fmul f0 Rops] in Hr. rewrite <- Hr. rewrite sumR_mul.
    transitivity (sumR rk (fun a => sumR n (fun i => sumR p (fun j =>
                    P j a * gR U' [(a * n + i)%nat; b] * nth ((j * n + i) * q' + t) Xd 0)))).
    { apply sumR_ext. intros a Ha. apply sumR_ext. intros i Hi. unfold M. rewrite g_mk2.
      replace ((a * n + i) * q' + t)%nat with (a * (n * q') + (i * q' + t))%nat by lia.
      rewrite Hfr by (first [exact Ha | nia]). rewrite <- sumR_scal_l. apply sumR_ext. intros j Hj.
      replace (j * (n * q') + (i * q' + t))%nat with ((j * n + i) * q' + t)%nat by lia. ring. }
    symmetry. rewrite sumR_mul.
    transitivity (sumR p (fun j => sumR n (fun i => sumR rk (fun a =>
                    P j a * gR U' [(a * n + i)%nat; b] * nth ((j * n + i) * q' + t) Xd 0)))).
    { apply sumR_ext. intros j Hj. apply sumR_ext. intros i Hi. rewrite HP by exact Hi.
      rewrite <- sumR_scal_r. reflexivity. }
    rewrite sumR_exch.
    transitivity (sumR n (fun i => sumR rk (fun a => sumR p (fun j =>
                    P j a * gR U' [(a * n + i)%nat; b] * nth ((j * n + i) * q' + t) Xd 0)))).
    { apply sumR_ext. intros i Hi. now rewrite sumR_exch. }
    now rewrite sumR_exch.
Qed.

(* ------------------------------------------------------------------ induction over the loop *)
Section Induct.
Variable svd svdX : nat -> tensor R -> @svdans R.
Variable X : tensor R.

(* the answers of svdX for the sequential unfoldings of X meet the full contract at the ranks of the run *)
Fixpoint x_contract_from (k : nat) (rs : list nat) : Prop :=
  match rs with
  | [] => True
  | r :: rs' =>
    svd_full_contract (x_unfolding X k) (prod (firstn k (shape X))) (prod (skipn k (shape X))) r (svdX k (x_unfolding X k)) /\
    x_contract_from (S k) rs'
  end.

Lemma loop_rank_list_cons k n n2 rest2 ranks rk r0 W :
  loop_rank_list svd k (n :: n2 :: rest2) ranks rk r0 W =
  (let n_row := (rk * n)%nat in
   let n_col := (prod (n2 :: rest2) * r0)%nat in
   let r := Nat.min n_row (Nat.min n_col (hd 1%nat ranks)) in
   let '(U', S', V') := svd_interface Rops (svd k (mk [n_row; n_col] W)) r in
   r :: loop_rank_list svd (S k) (n2 :: rest2) (tl ranks) r r0 (data (sv_mul Rops S' V'))).
Proof. reflexivity. Qed.

Lemma prod_cons n rest : prod (n :: rest) = (n * prod rest)%nat.
Proof. reflexivity. Qed.

Lemma loop_tails_le_x : forall sizes k ranks rk W P kx,
  skipn kx (shape X) = sizes -> (0 < prod sizes)%nat ->
  frame_inv (data X) (prod (firstn kx (shape X))) (prod sizes) rk P W ->
  loop_pred Rops svd svd_sorted_contract k sizes ranks rk 1%nat W ->
  x_contract_from (S kx) (loop_rank_list svd k sizes ranks rk 1%nat W) ->
  Forall2 Rle (loop_tail_list svd k sizes ranks rk 1%nat W)
              (x_tails_from svdX X (S kx) (loop_rank_list svd k sizes ranks rk 1%nat W)).
Proof.
  induction sizes as [|n rest IH]; intros k ranks rk W P kx Hsk Hpos Hfr Hpred Hx; [constructor|].
  destruct rest as [|n2 rest2]; [constructor|].
  set (rest := n2 :: rest2) in *.
  rewrite prod_cons in Hpos, Hfr.
  assert (Hn : (0 < n)%nat) by nia. assert (Hrest : (0 < prod rest)%nat) by nia.
  destruct (skipn_cons_step (shape X) kx n rest Hsk) as [Hsk' Hfn].
  set (p := prod (firstn kx (shape X))) in *.
  assert (E1 : prod (firstn (S kx) (shape X)) = (p * n)%nat).
  { rewrite Hfn, prod_app. unfold p. cbn [prod fold_right]. lia. }
  unfold rest in Hx, Hpred |- *.
  rewrite loop_tail_list_cons. rewrite loop_rank_list_cons in Hx |- *. cbn [loop_pred] in Hpred. cbv zeta in Hx, Hpred |- *.
  fold rest in Hx, Hpred |- *.
  set (q' := (prod rest * 1)%nat) in *.
  set (r := Nat.min (rk * n) (Nat.min q' (hd 1%nat ranks))) in *.
  set (M := mk [(rk * n)%nat; q'] W) in *.
  destruct Hpred as [Hc Hpred'].
  destruct (svd k M) as [[UM SM] VM] eqn:Esvd.
  pose proof (frame_step (data X) p n q' rk r P W (UM, SM, VM) Hn) as Hstep.
  destruct (svd_interface Rops (UM, SM, VM) r) as [[U' S'] V'] eqn:Eint.
  cbn [x_contract_from] in Hx. destruct Hx as [HcX Hx'].
  cbn [x_tails_from].
  assert (E2 : prod (skipn (S kx) (shape X)) = q') by (rewrite Hsk'; unfold q'; lia).
  unfold x_unfolding in HcX |- *. rewrite E1, E2 in HcX |- *.
  assert (Hfr' : frame_inv (data X) p (n * q') rk P W).
  { replace (n * q')%nat with (n * prod rest)%nat by (unfold q'; lia). exact Hfr. }
  constructor.
  - exact (step_tail_le (data X) p n q' rk r P W (UM, SM, VM) _ Hn Hfr' Hc HcX).
  - specialize (Hstep Hfr' (proj1 Hc)).
    apply (IH (S k) (tl ranks) r (data (sv_mul Rops S' V')) (next_frame P rk n U') (S kx)).
    + exact Hsk'.
    + exact Hrest.
    + rewrite E1. replace (prod rest) with q' by (unfold q'; lia). exact Hstep.
    + exact Hpred'.
    + exact Hx'.
Qed.
End Induct.

(* ------------------------------------------------------------------ the theorems *)
Lemma frame_init (Xd : list R) (q : nat) : frame_inv Xd 1 q 1 (fun _ _ => 1) Xd.
Proof.
  split.
  - intros b b' Hb Hb'. assert (b = 0%nat) by lia. assert (b' = 0%nat) by lia. subst.
    unfold fsumn. cbn. ring.
  - intros a t Ha Ht. assert (a = 0%nat) by lia. subst. unfold fsumn. cbn [bigsum fadd f0 Rops].
    replace (0 * q + t)%nat with t by lia. ring.
Qed.

Section Top.
Variable svd svdX : nat -> tensor R -> @svdans R.

(* every SVD answer of the run meets LAPACK's contract: orthonormal U / Vh, U diag(S) Vh = query, S non-negative non-increasing.
   NOTHING is assumed about which singular values the truncations discard. *)
Definition tt_sorted (X : tensor R) (rank : rank_spec) : Prop :=
  match validate_tt_rank (ndim X) rank with
  | Ok rk => loop_pred Rops svd svd_sorted_contract 0 (shape X) (tl rk) 1%nat 1%nat (data X)
  | Err => True
  end.

Lemma tt_sorted_full X rank : tt_sorted X rank -> tt_full_R svd X rank.
Proof.
  unfold tt_sorted, tt_full_R. destruct (validate_tt_rank (ndim X) rank) as [rk|]; [|trivial].
  apply (loop_pred_impl Rops svd). intros M m n r a [H _]. exact H.
Qed.

(* the former named hypothesis *)
Theorem working_tails_le_x_tails_holds X rank :
  (0 < prod (shape X))%nat -> tt_sorted X rank ->
  x_contract_from svdX X 1 (tt_rank_list svd X rank) ->
  working_tails_le_x_tails svd svdX X rank.
Proof.
  unfold tt_sorted, working_tails_le_x_tails, tt_tail_list, x_tail_list, tt_rank_list.
  destruct (validate_tt_rank (ndim X) rank) as [rk|]; [|intros; constructor].
  intros Hpos Hs Hx.
  apply (loop_tails_le_x svd svdX X (shape X) 0 (tl rk) 1 (data X) (fun _ _ => 1) 0); try assumption.
  - reflexivity.
  - cbn [firstn prod fold_right]. apply frame_init.
Qed.

(* the literal upper bound of the property (squared) as a FULL theorem: error^2 <= sum over the sequential unfoldings of X of
   their discarded squared singular values (at the ranks the run realises) *)
Theorem tt_error_root_sum_square X rank cores :
  (0 < prod (shape X))%nat -> tt_sorted X rank ->
  x_contract_from svdX X 1 (tt_rank_list svd X rank) ->
  tensor_train Rops svd X rank = Ok cores ->
  tt_err2 Rops X cores <= Rsum (x_tail_list svd svdX X rank).
Proof.
  intros Hpos Hs Hx Hrun.
  apply (tt_error_root_sum_square_partial svd svdX X rank cores (tt_sorted_full X rank Hs) Hrun).
  now apply working_tails_le_x_tails_holds.
Qed.
End Top.

(* ------------------------------------------------------------------ rank condition on X => per-run contract, every step *)
Lemma frame_factors (Xd : list R) (p n q' rk r : nat) (P : nat -> nat -> R) (W : list R) :
  (0 < n)%nat -> frame_inv Xd p (n * q') rk P W ->
  factors_through (mk [p * n; q']%nat Xd) (p * n) q' r ->
  factors_through (mk [rk * n; q']%nat W) (rk * n) q' r.
Proof.
  intros Hn [_ Hfr] (A & B & HAB).
  exists (fun al b => sumR p (fun j => P j (al / n)%nat * A (j * n + al mod n)%nat b)), B.
  intros al c Hal Hc.
  assert (Ha : (al / n < rk)%nat) by (apply Nat.div_lt_upper_bound; lia).
  assert (Hi : (al mod n < n)%nat) by (apply Nat.mod_upper_bound; lia).
  pose proof (Nat.div_mod al n ltac:(lia)) as Edm.
  set (a := (al / n)%nat) in *. set (i := (al mod n)%nat) in *.
  rewrite g_mk2. replace (al * q' + c)%nat with (a * (n * q') + (i * q' + c))%nat by nia.
  rewrite Hfr by (first [exact Ha | nia]).
  transitivity (sumR p (fun j => sumR r (fun b => P j a * A (j * n + i)%nat b * B b c))).
  - apply sumR_ext. intros j Hj.
    replace (j * (n * q') + (i * q' + c))%nat with ((j * n + i) * q' + c)%nat by lia.
    rewrite <- (g_mk2 (p * n) q' Xd (j * n + i) c). rewrite HAB by (first [nia | exact Hc]).
    rewrite <- sumR_scal_l. apply sumR_ext. intros b Hb. ring.
  - rewrite sumR_exch. apply sumR_ext. intros b Hb. now rewrite sumR_scal_r.
Qed.

Section RankCondition.
Variable svd : nat -> tensor R -> @svdans R.
Variable X : tensor R.

(* the property's condition: the k-th sequential unfolding of X has rank at most the k-th realised bond *)
Fixpoint x_factors_from (k : nat) (rs : list nat) : Prop :=
  match rs with
  | [] => True
  | r :: rs' =>
    factors_through (x_unfolding X k) (prod (firstn k (shape X))) (prod (skipn k (shape X))) r /\ x_factors_from (S k) rs'
  end.

Lemma loop_contract_from_rank : forall sizes k ranks rk W P kx,
  skipn kx (shape X) = sizes -> (0 < prod sizes)%nat ->
  frame_inv (data X) (prod (firstn kx (shape X))) (prod sizes) rk P W ->
  loop_pred Rops svd svd_sorted_contract k sizes ranks rk 1%nat W ->
  x_factors_from (S kx) (loop_rank_list svd k sizes ranks rk 1%nat W) ->
  loop_contract svd k sizes ranks rk 1%nat W.
Proof.
  induction sizes as [|n rest IH]; intros k ranks rk W P kx Hsk Hpos Hfr Hpred Hx; [exact I|].
  destruct rest as [|n2 rest2]; [exact I|].
  set (rest := n2 :: rest2) in *.
  rewrite prod_cons in Hpos, Hfr.
  assert (Hn : (0 < n)%nat) by nia. assert (Hrest : (0 < prod rest)%nat) by nia.
  destruct (skipn_cons_step (shape X) kx n rest Hsk) as [Hsk' Hfn].
  set (p := prod (firstn kx (shape X))) in *.
  assert (E1 : prod (firstn (S kx) (shape X)) = (p * n)%nat).
  { rewrite Hfn, prod_app. unfold p. cbn [prod fold_right]. lia. }
  unfold rest in Hx, Hpred |- *. unfold loop_contract.
  rewrite loop_rank_list_cons in Hx. cbn [loop_pred] in Hpred |- *. cbv zeta in Hx, Hpred |- *.
  fold rest in Hx, Hpred |- *.
  set (q' := (prod rest * 1)%nat) in *.
  set (r := Nat.min (rk * n) (Nat.min q' (hd 1%nat ranks))) in *.
  set (M := mk [(rk * n)%nat; q'] W) in *.
  destruct Hpred as [Hc Hpred'].
  pose proof (frame_step (data X) p n q' rk r P W (svd k M) Hn) as Hstep.
  destruct (svd_interface Rops (svd k M) r) as [[U' S'] V'] eqn:Eint.
  cbn [x_factors_from] in Hx. destruct Hx as [HfX Hx'].
  assert (E2 : prod (skipn (S kx) (shape X)) = q') by (rewrite Hsk'; unfold q'; lia).
  unfold x_unfolding in HfX. rewrite E1, E2 in HfX.
  assert (Hfr' : frame_inv (data X) p (n * q') rk P W).
  { replace (n * q')%nat with (n * prod rest)%nat by (unfold q'; lia). exact Hfr. }
  split.
  - apply (low_rank_svd_contract eckart_young_holds); [exact Hc|].
    exact (frame_factors (data X) p n q' rk r P W Hn Hfr' HfX).
  - specialize (Hstep Hfr' (proj1 Hc)).
    apply (IH (S k) (tl ranks) r (data (sv_mul Rops S' V')) (next_frame P rk n U') (S kx)).
    + exact Hsk'.
    + exact Hrest.
    + rewrite E1. replace (prod rest) with q' by (unfold q'; lia). exact Hstep.
    + exact Hpred'.
    + exact Hx'.
Qed.

(* the first sentence of the property, end to end, for TT-SVD: if every sequential unfolding of X has rank at most the bond the
   run realises (= min(previous bond * mode size, remaining size, requested rank)), then -- LAPACK's answers meeting the plain
   SVD contract with sorted singular values, nothing assumed about what is discarded -- tensor_train reproduces X exactly *)
Theorem tensor_train_exact_from_rank_condition rank cores :
  (0 < prod (shape X))%nat -> tt_sorted svd X rank ->
  x_factors_from 1 (tt_rank_list svd X rank) ->
  tensor_train Rops svd X rank = Ok cores ->
  forall idx, inb (shape X) idx -> tt_entry Rops cores idx = gR X idx.
Proof.
  intros Hpos Hs Hx. apply (tensor_train_exact_R svd). revert Hs Hx.
  unfold tt_sorted, tt_contract, tt_rank_list.
  destruct (validate_tt_rank (ndim X) rank) as [rk|]; [|trivial].
  intros Hs Hx.
  apply (loop_contract_from_rank (shape X) 0 (tl rk) 1 (data X) (fun _ _ => 1) 0); try assumption.
  - reflexivity.
  - cbn [firstn prod fold_right]. apply frame_init.
Qed.
End RankCondition.

(* ------------------------------------------------------------------ non-vacuity *)
(* upper bound: X = diag(2, 1), request (1,1,1), LAPACK answering (I, [2; 1], I): all hypotheses hold (a genuine truncation) *)
Example tt_upper_hypotheses_satisfiable :
  let svd := fun (_ : nat) (_ : tensor R) => ey_a in
  (0 < prod (shape ey_M))%nat /\ tt_sorted svd ey_M (inr [1; 1; 1]%nat) /\
  x_contract_from svd ey_M 1 (tt_rank_list svd ey_M (inr [1; 1; 1]%nat)).
Proof.
  cbv zeta. split; [cbn; lia|]. split.
  - unfold tt_sorted. cbn [validate_tt_rank ndim shape ey_M length Nat.add Nat.eqb hd last andb tl].
    cbn [loop_pred]. cbv zeta. split; [exact ey_instance_contract|].
    destruct (svd_interface Rops ey_a _) as [[U' S'] V']. exact I.
  - unfold tt_rank_list. cbn [validate_tt_rank ndim shape ey_M length Nat.add Nat.eqb hd last andb tl].
    rewrite loop_rank_list_cons. cbv zeta. destruct (svd_interface Rops ey_a _) as [[U' S'] V'].
    cbn [loop_rank_list x_contract_from]. split; [|exact I]. exact (proj1 ey_instance_contract).
Qed.

(* rank condition: X = diag(2, 0) has rank 1 = the requested bond; LAPACK answering (I, [2; 0], I) *)
Definition rk1_M : tensor R := mk [2; 2]%nat [2; 0; 0; 0].
Definition rk1_a : @svdans R := (mk [2; 2]%nat [1; 0; 0; 1], [2; 0], mk [2; 2]%nat [1; 0; 0; 1]).

Lemma rk1_contract : svd_sorted_contract rk1_M 2 2 1 rk1_a.
Proof.
  split.
  - unfold svd_full_contract, rk1_a, rk1_M. cbn [length]. split; [lia|]. split; [reflexivity|]. split; [reflexivity|].
    split; [|split].
    + intros j l Hj Hl. assert (Ej : j = 0%nat \/ j = 1%nat) by lia. assert (El : l = 0%nat \/ l = 1%nat) by lia.
      destruct Ej as [-> | ->]; destruct El as [-> | ->]; unfold fsumn, g, get; cbn; lra.
    + intros j l Hj Hl. assert (Ej : j = 0%nat \/ j = 1%nat) by lia. assert (El : l = 0%nat \/ l = 1%nat) by lia.
      destruct Ej as [-> | ->]; destruct El as [-> | ->]; unfold fsumn, g, get; cbn; lra.
    + intros i c Hi Hc. assert (Ei : i = 0%nat \/ i = 1%nat) by lia. assert (Ec : c = 0%nat \/ c = 1%nat) by lia.
      destruct Ei as [-> | ->]; destruct Ec as [-> | ->]; unfold fsumn, g, get; cbn; lra.
  - unfold sorted_nonneg, rk1_a. cbn [snd3 length]. intros l l' H1 H2.
    assert (El' : l' = 0%nat \/ l' = 1%nat) by lia. destruct El' as [-> | ->].
    + assert (l = 0%nat) by lia. subst. cbn. lra.
    + assert (El : l = 0%nat \/ l = 1%nat) by lia. destruct El as [-> | ->]; cbn; lra.
Qed.

Example tt_rank_condition_satisfiable :
  let svd := fun (_ : nat) (_ : tensor R) => rk1_a in
  (0 < prod (shape rk1_M))%nat /\ tt_sorted svd rk1_M (inr [1; 1; 1]%nat) /\
  x_factors_from rk1_M 1 (tt_rank_list svd rk1_M (inr [1; 1; 1]%nat)).
Proof.
  cbv zeta. split; [cbn; lia|]. split.
  - unfold tt_sorted. cbn [validate_tt_rank ndim shape rk1_M length Nat.add Nat.eqb hd last andb tl].
    cbn [loop_pred]. cbv zeta. split; [exact rk1_contract|].
    destruct (svd_interface Rops rk1_a _) as [[U' S'] V']. exact I.
  - unfold tt_rank_list. cbn [validate_tt_rank ndim shape rk1_M length Nat.add Nat.eqb hd last andb tl].
    rewrite loop_rank_list_cons. cbv zeta. destruct (svd_interface Rops rk1_a _) as [[U' S'] V'].
    cbn [loop_rank_list x_factors_from]. split; [|exact I].
    exists (fun i _ => if Nat.eqb i 0 then 2 else 0), (fun _ c => if Nat.eqb c 0 then 1 else 0).
    intros i c Hi Hc. assert (Ei : i = 0%nat \/ i = 1%nat) by (cbn in Hi; lia). assert (Ec : c = 0%nat \/ c = 1%nat) by (cbn in Hc; lia).
    destruct Ei as [-> | ->]; destruct Ec as [-> | ->]; unfold fsumn, g, get, x_unfolding, rk1_M; cbn; lra.
Qed.
