(* C09, the TT-SVD error identity in terms of singular values (every commutative ring): under the full SVD
   contract (orthonormal columns of U, orthonormal rows of Vh, U diag(S) Vh = query) the squared norm of
   what a truncation at r discards is the sum of the squares of the discarded singular values, hence
        |X - TT(X)|^2 = sum over the steps k of sum_{l >= r_k} sigma_l(W_k)^2
   where W_k is the k-th working unfolding (W_0 = the first unfolding of X itself). *)
From Coq Require Import List Arith Lia Bool Ring.
From TLV Require Import Base.Shape Base.PyList Base.Tensor Base.BigSum Base.Ops Model.Base Model.SvdDecomp
     Proofs.SvdDecompProofs Proofs.SvdDecompPyth Proofs.SvdDecompError.
Import ListNotations.

Section Tails.
Context {F : Type} (Op : fops F).
Hypothesis Rth : ring_theory (f0 Op) (f1 Op) (fadd Op) (fmul Op) (fsub Op) (fopp Op) (@eq F).
Add Ring Fr7 : Rth.
Notation fz := (f0 Op).
Notation fone := (f1 Op).
Infix "+f" := (fadd Op) (at level 50, left associativity).
Infix "-f" := (fsub Op) (at level 50, left associativity).
Infix "*f" := (fmul Op) (at level 40, left associativity).
Notation fsum := (fsumn Op).
Notation gg := (g Op).
Notation sqf := (sq Op).

(* sum of the squares of the singular values discarded when r are kept *)
Definition tail2 (r : nat) (Sv : list F) : F :=
  fsum (length Sv) (fun l => if r <=? l then sqf (nth l Sv fz) else fz).

(* the full contract of one SVD answer (reduced SVD with K = length S triplets) *)
Definition step_full (M : tensor F) (m n r : nat) (a : @svdans F) : Prop :=
  let '(U, Sv, V) := a in
  let K := length Sv in
  r <= K /\ shape U = [m; K] /\ shape V = [K; n] /\
  (forall j l, j < K -> l < K ->
     fsum m (fun i => gg U [i; j] *f gg U [i; l]) = if Nat.eqb j l then fone else fz) /\
  (forall j l, j < K -> l < K ->
     fsum n (fun c => gg V [j; c] *f gg V [l; c]) = if Nat.eqb j l then fone else fz) /\
  (forall i c, i < m -> c < n ->
     fsum K (fun l => gg U [i; l] *f (nth l Sv fz *f gg V [l; c])) = gg M [i; c]) /\
  Forall (sq1 Op) (flip_signs Op (cols_firstn Op r U)).

Lemma step_full_orth M m n r a : step_full M m n r a -> step_orth Op M m n r a.
Proof.
  destruct a as [[U Sv] V]. unfold step_full, step_orth. cbv zeta.
  intros (H1 & H2 & H3 & H4 & H5 & H6 & H7). exists (length Sv). repeat split; assumption.
Qed.

Lemma disc_tail M m n r U Sv V : step_full M m n r (U, Sv, V) ->
  let '(U', S', V') := svd_interface Op (U, Sv, V) r in
  disc Op M U' S' V' m n r = tail2 r Sv.
Proof.
  unfold step_full, svd_interface, truncated_svd, svd_flip. cbv zeta.
  set (K := length Sv). intros (HrK & HU & HV & HorthU & HorthV & Hprod & Hsq).
  assert (EU : cols_firstn Op r U = tabulate [m; r] (fun idx => gg U idx)).
  { unfold cols_firstn, nrows, ncols. rewrite HU. simpl nth. now rewrite Nat.min_l by exact HrK. }
  assert (EV : rows_firstn Op r V = tabulate [r; n] (fun idx => gg V idx)).
  { unfold rows_firstn, nrows, ncols. rewrite HV. simpl nth. now rewrite Nat.min_l by exact HrK. }
  rewrite EU in *. rewrite EV.
  set (sg := flip_signs Op (tabulate [m; r] (fun idx => gg U idx))) in *.
  assert (Lsg : length sg = r). { unfold sg. rewrite flip_signs_length. reflexivity. }
  assert (Hsg : forall b, b < r -> nth b sg fone *f nth b sg fone = fone).
  { intros b Hb. rewrite Forall_forall in Hsq. apply (Hsq (nth b sg fone)). apply nth_In. lia. }
  set (t := fun l => if r <=? l then nth l Sv fz else fz).
  unfold disc.
  (* entrywise: the residual is the sum of the discarded triplets *)
  rewrite (fsumn_ext Op m _ (fun i => fsum n (fun c =>
             sqf (fsum K (fun l => gg U [i; l] *f (t l *f gg V [l; c])))))).
  - (* |sum_l U_l t_l V_l|^2 = sum_l t_l^2 *)
    rewrite (fsumn_exchange Op Rth).
    rewrite (fsumn_ext Op n _ (fun c => fsum K (fun l => sqf (t l *f gg V [l; c])))).
    + rewrite (fsumn_exchange Op Rth). unfold tail2. fold K. apply fsumn_ext. intros l Hl.
      rewrite (fsumn_ext Op n _ (fun c => sqf (t l) *f (gg V [l; c] *f gg V [l; c])))
        by (intros; unfold sq; ring).
      rewrite (fsumn_scale_l Op Rth). rewrite HorthV by assumption. rewrite Nat.eqb_refl.
      unfold t, sq. destruct (r <=? l); ring.
    + intros c Hc.
      exact (isometry_vec Op Rth m K (fun i l => gg U [i; l]) (fun l => t l *f gg V [l; c]) HorthU).
  - intros i Hi. apply fsumn_ext. intros c Hc. f_equal.
    rewrite <- (Hprod i c Hi Hc).
    rewrite (fsumn_tail_split Op Rth K r _ HrK).
    transitivity (fsum r (fun l => gg U [i; l] *f (nth l Sv fz *f gg V [l; c])) +f
                  fsum K (fun l => gg U [i; l] *f (t l *f gg V [l; c])) -f
                  fsum r (fun l => gg U [i; l] *f (nth l Sv fz *f gg V [l; c]))); [|ring].
    f_equal. f_equal.
    + apply fsumn_ext. intros l Hl. unfold t. destruct (r <=? l); ring.
    + apply fsumn_ext. intros b Hb. unfold scale_cols, scale_rows. cbn [shape tabulate].
      rewrite !(g_tab2 Op) by assumption. cbv beta. rewrite ?(g_tab2 Op) by assumption. cbn [nth].
      rewrite nth_firstn' by exact Hb.
      transitivity (gg U [i; b] *f (nth b Sv fz *f gg V [b; c]) *f (nth b sg fone *f nth b sg fone)); [ring|].
      rewrite Hsg by exact Hb. ring.
Qed.

Variable svd : nat -> tensor F -> @svdans F.

(* the sum over the steps of the run of the discarded squared singular values of the working unfoldings *)
Fixpoint loop_tails (k : nat) (sizes ranks : list nat) (rk r0 : nat) (W : list F) : F :=
  match sizes with
  | [] => fz
  | n :: rest =>
    match rest with
    | [] => fz
    | _ :: _ =>
      let n_row := rk * n in
      let n_col := prod rest * r0 in
      let r := Nat.min n_row (Nat.min n_col (hd 1 ranks)) in
      let M := mk [n_row; n_col] W in
      let '(_, Sv, _) := svd k M in
      let '(U', S', V') := svd_interface Op (svd k M) r in
      tail2 r Sv +f loop_tails (S k) rest (tl ranks) r r0 (data (sv_mul Op S' V'))
    end
  end.

Definition loop_full := loop_pred Op svd step_full.

Lemma loop_tails_cons k n n2 rest2 ranks rk r0 W :
  loop_tails k (n :: n2 :: rest2) ranks rk r0 W =
  (let n_row := rk * n in
   let n_col := prod (n2 :: rest2) * r0 in
   let r := Nat.min n_row (Nat.min n_col (hd 1 ranks)) in
   let M := mk [n_row; n_col] W in
   let '(_, Sv, _) := svd k M in
   let '(U', S', V') := svd_interface Op (svd k M) r in
   tail2 r Sv +f loop_tails (S k) (n2 :: rest2) (tl ranks) r r0 (data (sv_mul Op S' V'))).
Proof. reflexivity. Qed.

Lemma loop_discard_tails : forall sizes k ranks rk r0 W,
  loop_full k sizes ranks rk r0 W -> loop_discard Op svd k sizes ranks rk r0 W = loop_tails k sizes ranks rk r0 W.
Proof.
  induction sizes as [|n rest IH]; intros k ranks rk r0 W H; [reflexivity|].
  destruct rest as [|n2 rest2]; [reflexivity|].
  rewrite loop_discard_cons. unfold loop_full in H. cbn [loop_pred loop_tails] in *. cbv zeta in *.
  destruct H as [H1 H2].
  destruct (svd k _) as [[U Sv] V] eqn:Es.
  pose proof (disc_tail _ _ _ _ _ _ _ H1) as Hd.
  destruct (svd_interface Op (U, Sv, V) _) as [[U' S'] V'].
  rewrite Hd. f_equal. apply IH. exact H2.
Qed.

Theorem chain_loop_error_sigma sizes k ranks rk r0 W cores :
  loop_full k sizes ranks rk r0 W -> chain_loop Op svd k sizes ranks rk r0 W = Ok cores ->
  err2 Op sizes rk r0 W cores = loop_tails k sizes ranks rk r0 W.
Proof.
  intros H Hrun. rewrite <- loop_discard_tails by exact H.
  apply (chain_loop_error_identity Op Rth svd); [|exact Hrun].
  exact (loop_pred_impl Op svd _ _ step_full_orth _ _ _ _ _ _ H).
Qed.

Definition tt_full (X : tensor F) (rank : rank_spec) : Prop :=
  match validate_tt_rank (ndim X) rank with
  | Ok rk => loop_full 0 (shape X) (tl rk) 1 1 (data X)
  | Err => True
  end.
Definition tt_tails (X : tensor F) (rank : rank_spec) : F :=
  match validate_tt_rank (ndim X) rank with
  | Ok rk => loop_tails 0 (shape X) (tl rk) 1 1 (data X)
  | Err => fz
  end.

Theorem tensor_train_error_sigma X rank cores :
  tt_full X rank -> tensor_train Op svd X rank = Ok cores -> tt_err2 Op X cores = tt_tails X rank.
Proof.
  intros H Hrun.
  rewrite (tensor_train_error_identity Op Rth svd X rank cores); [| |exact Hrun].
  - unfold tt_discard, tt_tails, tt_full in *. destruct (validate_tt_rank (ndim X) rank); [|reflexivity].
    apply loop_discard_tails. exact H.
  - unfold tt_orth, tt_full in *. destruct (validate_tt_rank (ndim X) rank); [|exact I].
    exact (loop_pred_impl Op svd _ _ step_full_orth _ _ _ _ _ _ H).
Qed.

End Tails.
