(* C09, Tucker / HOSVD part, over an arbitrary commutative ring: projecting mode k of X on the span of
   an orthonormal U (X x_k U^T, then x_k U -- the core projection and the reconstruction of
   tucker_to_tensor along that mode) gives X back whenever the mode-k fibres of X lie in the span of
   the columns of U. *)
From Coq Require Import List Arith Lia Bool Ring.
From TLV Require Import Base.Shape Base.PyList Base.Tensor Base.BigSum Base.Ops Model.Base Model.SvdDecomp
     Proofs.SvdDecompProofs.
Import ListNotations.

Lemma set_nth_set_nth {A} k (a b : A) : forall l, set_nth k a (set_nth k b l) = set_nth k a l.
Proof. induction k; intros [|x l]; simpl; auto. now rewrite IHk. Qed.
Lemma set_nth_id {A} k (d : A) : forall l, k < length l -> set_nth k (nth k l d) l = l.
Proof. induction k; intros [|x l] H; simpl in *; try lia; auto. rewrite IHk by lia. reflexivity. Qed.
Lemma remove_nth_set_nth {A} k (a : A) : forall l, remove_nth k (set_nth k a l) = remove_nth k l.
Proof. induction k; intros [|x l]; simpl; auto. now rewrite IHk. Qed.
Lemma inb_set_nth k : forall s idx v d, inb s idx -> v < d -> inb (set_nth k d s) (set_nth k v idx).
Proof.
  induction k; intros [|x s] [|i idx] v d H Hv; simpl in *; try tauto.
  destruct H as [H1 H2]. split; [exact H1|]. now apply IHk.
Qed.
Lemma inb_set_nth_same k s idx v : inb s idx -> k < length s -> v < nth k s 0 -> inb s (set_nth k v idx).
Proof. intros H Hk Hv. rewrite <- (set_nth_id k 0 s Hk) at 1. now apply inb_set_nth. Qed.

Lemma inb_nth_lt k : forall s idx, inb s idx -> k < length s -> nth k idx 0 < nth k s 0.
Proof.
  induction k; intros [|x s] [|i idx] H Hk; simpl in *; try lia; try tauto.
  destruct H as [_ H2]. apply IHk; [exact H2 | lia].
Qed.

Section TuckerProofs.
Context {F : Type} (Op : fops F).
Hypothesis Rth : ring_theory (f0 Op) (f1 Op) (fadd Op) (fmul Op) (fsub Op) (fopp Op) (@eq F).
Add Ring Fr2 : Rth.
Notation fz := (f0 Op).
Notation fone := (f1 Op).
Infix "+f" := (fadd Op) (at level 50, left associativity).
Infix "*f" := (fmul Op) (at level 40, left associativity).
Notation fsum := (fsumn Op).
Notation gg := (g Op).

Definition orthonormal_cols (U : tensor F) (m r : nat) : Prop :=
  forall j l, j < r -> l < r -> fsum m (fun i => gg U [i; j] *f gg U [i; l]) = if Nat.eqb j l then fone else fz.

(* the mode-k fibres of X are combinations of the r columns of U *)
Definition mode_span (X U : tensor F) (k r : nat) (c : nat -> list nat -> F) : Prop :=
  forall idx, inb (shape X) idx ->
    gg X idx = fsum r (fun l => gg U [nth k idx 0; l] *f c l (remove_nth k idx)).

Theorem mode_projector_exact (X U : tensor F) (k r : nat) (c : nat -> list nat -> F) :
  wf X -> k < ndim X -> shape U = [nth k (shape X) 0; r] ->
  orthonormal_cols U (nth k (shape X) 0) r -> mode_span X U k r c ->
  exists Y, mode_dot Op X U k true = Ok Y /\ shape Y = set_nth k r (shape X) /\
            (forall idx l, inb (shape X) idx -> l < r -> gg Y (set_nth k l idx) = c l (remove_nth k idx)) /\
            mode_dot Op Y U k false = Ok X.
Proof.
  intros WX Hk HU Horth Hspan. set (s := shape X) in *. set (nk := nth k s 0) in *.
  unfold ndim in Hk. fold s in Hk.
  unfold mode_dot at 1. unfold ndim, nrows, ncols. fold s. rewrite HU. cbn [length nth].
  fold nk. replace (k <? length s) with true by (symmetry; now apply Nat.ltb_lt).
  rewrite !Nat.eqb_refl. cbn [andb].
  eexists. split; [reflexivity|]. split; [reflexivity|].
  set (Y := tabulate (set_nth k r s) _).
  assert (HY : forall idx l, inb s idx -> l < r -> gg Y (set_nth k l idx) = c l (remove_nth k idx)).
  { intros idx l Hidx Hl. unfold Y, g at 1. rewrite get_tabulate by (now apply inb_set_nth).
    pose proof (inb_length _ _ Hidx) as Hlen.
    rewrite nth_set_nth_same by lia.
    transitivity (fsum nk (fun j => gg U [j; l] *f fsum r (fun l' => gg U [j; l'] *f c l' (remove_nth k idx)))).
    - apply fsumn_ext. intros j Hj. f_equal. rewrite set_nth_set_nth.
      rewrite (Hspan (set_nth k j idx)) by (apply inb_set_nth_same; assumption).
      rewrite nth_set_nth_same by lia. rewrite remove_nth_set_nth. reflexivity.
    - transitivity (fsum r (fun l' => fsum nk (fun j => gg U [j; l] *f gg U [j; l']) *f c l' (remove_nth k idx))).
      + rewrite (fsumn_ext Op nk _ (fun j => fsum r (fun l' => gg U [j; l] *f gg U [j; l'] *f c l' (remove_nth k idx)))).
        * rewrite (fsumn_exchange Op Rth). apply fsumn_ext. intros l' _. now rewrite (fsumn_scale_r Op Rth).
        * intros j _. rewrite <- (fsumn_scale_l Op Rth). apply fsumn_ext. intros l' _. ring.
      + rewrite (fsumn_single Op Rth r l) by (first [exact Hl | intros l' Hl' Hne; rewrite Horth by assumption;
          destruct (Nat.eqb_spec l l'); [exfalso; apply Hne; auto | ring]]).
        rewrite Horth by assumption. rewrite Nat.eqb_refl. ring. }
  split; [exact HY|].
  unfold mode_dot. unfold ndim, nrows, ncols. rewrite HU. cbn [length nth].
  assert (EsY : shape Y = set_nth k r s) by reflexivity. rewrite EsY.
  rewrite set_nth_length. replace (k <? length s) with true by (symmetry; now apply Nat.ltb_lt).
  rewrite nth_set_nth_same by exact Hk. rewrite !Nat.eqb_refl. cbn [andb]. f_equal.
  rewrite set_nth_set_nth. fold nk. unfold nk. rewrite set_nth_id by exact Hk.
  apply (tensor_ext fz); [apply wf_tabulate | exact WX | reflexivity |].
  cbn [shape tabulate]. intros idx Hidx. rewrite get_tabulate by exact Hidx.
  fold (gg X idx). rewrite (Hspan idx Hidx). apply fsumn_ext. intros l Hl. f_equal.
  fold (gg Y (set_nth k l idx)). now apply HY.
Qed.

(* columns orthonormal OR ZERO (what svd="symeig_svd" returns for a wide, rank-deficient unfolding: U = (M V) / S has exact
   zero columns for the null space): U U^T is still the orthogonal projector on the span of the non-zero columns *)
Definition semi_orthonormal_cols (U : tensor F) (m r : nat) : Prop :=
  exists z : nat -> bool,
    (forall l i, l < r -> z l = true -> i < m -> gg U [i; l] = fz) /\
    (forall j l, j < r -> l < r -> z j = false -> z l = false ->
       fsum m (fun i => gg U [i; j] *f gg U [i; l]) = if Nat.eqb j l then fone else fz).

Lemma orthonormal_semi (U : tensor F) (m r : nat) : orthonormal_cols U m r -> semi_orthonormal_cols U m r.
Proof. intros H. exists (fun _ => false). split; [intros; discriminate | intros; now apply H]. Qed.

Theorem mode_projector_exact_semi (X U : tensor F) (k r : nat) (c : nat -> list nat -> F) :
  wf X -> k < ndim X -> shape U = [nth k (shape X) 0; r] ->
  semi_orthonormal_cols U (nth k (shape X) 0) r -> mode_span X U k r c ->
  exists Y, mode_dot Op X U k true = Ok Y /\ shape Y = set_nth k r (shape X) /\
            mode_dot Op Y U k false = Ok X.
Proof.
  intros WX Hk HU (z & Hzero & Horth) Hspan. set (s := shape X) in *. set (nk := nth k s 0) in *.
  unfold ndim in Hk. fold s in Hk.
  unfold mode_dot at 1. unfold ndim, nrows, ncols. fold s. rewrite HU. cbn [length nth].
  fold nk. replace (k <? length s) with true by (symmetry; now apply Nat.ltb_lt).
  rewrite !Nat.eqb_refl. cbn [andb].
  eexists. split; [reflexivity|]. split; [reflexivity|].
  set (Y := tabulate (set_nth k r s) _).
  assert (HY : forall idx l, inb s idx -> l < r -> z l = false -> gg Y (set_nth k l idx) = c l (remove_nth k idx)).
  { intros idx l Hidx Hl Hzl. unfold Y, g at 1. rewrite get_tabulate by (now apply inb_set_nth).
    pose proof (inb_length _ _ Hidx) as Hlen.
    rewrite nth_set_nth_same by lia.
    transitivity (fsum nk (fun j => gg U [j; l] *f fsum r (fun l' => gg U [j; l'] *f c l' (remove_nth k idx)))).
    - apply fsumn_ext. intros j Hj. f_equal. rewrite set_nth_set_nth.
      rewrite (Hspan (set_nth k j idx)) by (apply inb_set_nth_same; assumption).
      rewrite nth_set_nth_same by lia. rewrite remove_nth_set_nth. reflexivity.
    - transitivity (fsum r (fun l' => fsum nk (fun j => gg U [j; l] *f gg U [j; l']) *f c l' (remove_nth k idx))).
      + rewrite (fsumn_ext Op nk _ (fun j => fsum r (fun l' => gg U [j; l] *f gg U [j; l'] *f c l' (remove_nth k idx)))).
        * rewrite (fsumn_exchange Op Rth). apply fsumn_ext. intros l' _. now rewrite (fsumn_scale_r Op Rth).
        * intros j _. rewrite <- (fsumn_scale_l Op Rth). apply fsumn_ext. intros l' _. ring.
      + rewrite (fsumn_single Op Rth r l).
        * rewrite Horth by assumption. rewrite Nat.eqb_refl. ring.
        * exact Hl.
        * intros l' Hl' Hne. destruct (z l') eqn:Ezl'.
          -- rewrite (fsumn_zero Op Rth); [ring|]. intros j Hj. rewrite (Hzero l' j Hl' Ezl' Hj). ring.
          -- rewrite Horth by assumption. destruct (Nat.eqb_spec l l'); [exfalso; apply Hne; auto | ring]. }
  unfold mode_dot. unfold ndim, nrows, ncols. rewrite HU. cbn [length nth].
  assert (EsY : shape Y = set_nth k r s) by reflexivity. rewrite EsY.
  rewrite set_nth_length. replace (k <? length s) with true by (symmetry; now apply Nat.ltb_lt).
  rewrite nth_set_nth_same by exact Hk. rewrite !Nat.eqb_refl. cbn [andb]. f_equal.
  rewrite set_nth_set_nth. fold nk. unfold nk. rewrite set_nth_id by exact Hk.
  apply (tensor_ext fz); [apply wf_tabulate | exact WX | reflexivity |].
  cbn [shape tabulate]. intros idx Hidx. rewrite get_tabulate by exact Hidx.
  fold (gg X idx). rewrite (Hspan idx Hidx). apply fsumn_ext. intros l Hl.
  destruct (z l) eqn:Ezl.
  - pose proof (inb_length _ _ Hidx) as Hlen.
    assert (Hi : nth k idx 0 < nk) by (apply (inb_nth_lt k s idx); assumption).
    rewrite (Hzero l (nth k idx 0) Hl Ezl Hi). ring.
  - f_equal. fold (gg Y (set_nth k l idx)). now apply HY.
Qed.

End TuckerProofs.
