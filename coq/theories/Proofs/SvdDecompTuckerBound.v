(* C09, Tucker error bound over the reals (every order, any factors with orthonormal columns):
        |X - core x_0 U_0 ... x_{n-1} U_{n-1}|^2  <=  sum_k |X - (X x_k U_k^T) x_k U_k|^2
   the squared error of what tucker() returns is at most the sum over the modes of what the mode-k projector
   U_k U_k^T discards from X ITSELF.  From the error identity (SvdDecompTuckerErr) + Bessel's inequality for an
   n-mode product with an orthonormal factor + commutation of products along different modes.
   For the HOSVD factors the mode-k term is the discarded tail of the mode-k unfolding (hosvd_resid_is_tail). *)
From Coq Require Import List Arith Lia Bool Reals Lra RealField.
From TLV Require Import Base.Shape Base.PyList Base.Tensor Base.BigSum Base.Ops Model.Base Model.SvdDecomp
     Proofs.BaseProofs Proofs.SvdDecompProofs Proofs.SvdDecompProofsR Proofs.SvdDecompTucker Proofs.SvdDecompTuckerFull
     Proofs.SvdDecompPyth Proofs.SvdDecompError Proofs.SvdDecompErrorR Proofs.SvdDecompTuckerErr.
Import ListNotations.
Local Open Scope R_scope.

Notation sidxR := (sum_idx R 0 Rplus).
Notation sqR := (sq Rops).
Notation mdR := (md Rops).

Lemma sumR_le n f h : (forall i, (i < n)%nat -> f i <= h i) -> sumR n f <= sumR n h.
Proof.
  induction n; intros H; [unfold fsumn; simpl; lra|].
  rewrite !(fsumn_S Rops). cbn [fadd Rops]. specialize (H n (Nat.lt_succ_diag_r n)) as Hn.
  assert (sumR n f <= sumR n h) by (apply IHn; intros; apply H; lia). lra.
Qed.

Lemma sidx_le s f h : (forall idx, inb s idx -> f idx <= h idx) -> sidxR s f <= sidxR s h.
Proof. intros H. unfold sum_idx. apply (sumR_le (prod s)). intros k Hk. apply H. now apply unravel_inb. Qed.

Definition tsub (A B : tensor R) : tensor R := tabulate (shape A) (fun idx => gR A idx - gR B idx).
Definition nrm2 (A : tensor R) : R := sidxR (shape A) (fun idx => sqR (gR A idx)).

Lemma terr2_nrm2 A B : terr2 Rops A B = nrm2 (tsub A B).
Proof.
  unfold terr2, nrm2, tsub. cbn [shape tabulate]. apply sum_idx_ext. intros idx Hidx.
  unfold g at 3. rewrite get_tabulate by exact Hidx. reflexivity.
Qed.

(* n-mode products are linear in the tensor *)
Lemma md_tsub A B U k tr : (k < ndim A)%nat -> shape A = shape B ->
  mdR (tsub A B) U k tr = tsub (mdR A U k tr) (mdR B U k tr).
Proof.
  intros Hk Hs. unfold ndim in Hk. apply (tensor_ext 0); try apply wf_md; try apply wf_tabulate.
  - reflexivity.
  - intros idx Hidx. rewrite shape_md in Hidx. cbn [shape tsub tabulate] in Hidx.
    assert (HidxB : inb (set_nth k (mout U tr) (shape B)) idx) by (rewrite <- Hs; exact Hidx).
    transitivity (gR (mdR A U k tr) idx - gR (mdR B U k tr) idx).
    2: { unfold tsub. rewrite get_tabulate; [reflexivity | rewrite shape_md; exact Hidx]. }
    unfold md, g. rewrite !get_tabulate by (cbn [shape tsub tabulate]; assumption).
    cbn [shape tsub tabulate]. rewrite <- Hs.
    set (nk := nth k (shape A) 0%nat).
    transitivity (sumR nk (fun j => fsub Rops (mentry Rops U tr (nth k idx 0%nat) j * get 0 A (set_nth k j idx))
                                              (mentry Rops U tr (nth k idx 0%nat) j * get 0 B (set_nth k j idx)))).
    + apply (fsumn_ext Rops). intros j Hj. unfold tsub.
      rewrite get_tabulate by (apply (inb_set_nth_inv k _ idx j (mout U tr)); auto).
      unfold g. cbn [fsub fmul f0 Rops]. ring.
    + exact (fsumn_sub Rops Rops_ring nk _ _).
Qed.

(* Bessel: projecting a mode on orthonormal columns does not increase the norm *)
Lemma bessel_mode Z U k r : (k < ndim Z)%nat -> shape U = [nth k (shape Z) 0%nat; r] ->
  orthonormal_cols Rops U (nth k (shape Z) 0%nat) r -> nrm2 (mdR Z U k true) <= nrm2 Z.
Proof.
  intros Hk HU Horth. unfold nrm2. set (s := shape Z). set (nk := nth k s 0%nat).
  assert (HoutT : mout U true = r) by (unfold mout, ncols; rewrite HU; reflexivity).
  rewrite shape_md, HoutT. fold s. unfold ndim in Hk. fold s in Hk.
  rewrite (sum_idx_split Rops Rops_ring k (set_nth k r s)) by (rewrite set_nth_length; exact Hk).
  rewrite (sum_idx_split Rops Rops_ring k s) by exact Hk.
  rewrite remove_nth_set_nth_same. rewrite nth_set_nth_same by exact Hk. fold nk.
  apply sidx_le. intros ridx Hr.
  set (x := fun i => gR Z (insert_at k i ridx)). set (Uf := fun i b => gR U [i; b]).
  pose proof (pythagoras_vec Rops Rops_ring nk r Uf x (fun _ => 0) Horth) as Hp. cbv beta zeta in Hp.
  assert (E1 : sumR nk (fun i => sqR (fsub Rops (x i) (sumR r (fun b => fmul Rops (Uf i b) 0)))) = sumR nk (fun i => sqR (x i))).
  { apply (fsumn_ext Rops). intros i _. f_equal. rewrite (fsumn_zero Rops Rops_ring) by (intros; cbn; ring). cbn. ring. }
  rewrite E1 in Hp.
  assert (E2 : sumR r (fun b => sqR (gR (mdR Z U k true) (insert_at k b ridx))) =
               sumR r (fun b => sqR (fsub Rops (sumR nk (fun i => fmul Rops (Uf i b) (x i))) 0))).
  { apply (fsumn_ext Rops). intros b Hb. f_equal.
    rewrite (md_fibre Rops) by (unfold ndim; auto; rewrite HoutT; exact Hb). fold s nk. cbn [fsub Rops].
    rewrite Rminus_0_r. apply (fsumn_ext Rops). intros j _. reflexivity. }
  rewrite E2.
  change (sumR nk (fun i => sqR (gR Z (insert_at k i ridx)))) with (sumR nk (fun i => sqR (x i))).
  rewrite Hp. cbn [fadd Rops].
  assert (0 <= sumR nk (fun i => sqR (fsub Rops (x i)
            (sumR r (fun b => fmul Rops (Uf i b) (sumR nk (fun i0 => fmul Rops (Uf i0 b) (x i0)))))))).
  { apply sumR_nonneg. intros. apply sq_nonneg. }
  lra.
Qed.

(* the mode-k projector *)
Definition proj (k : nat) (U A : tensor R) : tensor R := mdR (mdR A U k true) U k false.

Lemma shape_proj k U A r : (k < ndim A)%nat -> shape U = [nth k (shape A) 0%nat; r] -> shape (proj k U A) = shape A.
Proof.
  intros Hk HU. unfold proj. rewrite !shape_md. unfold mout, nrows, ncols. rewrite HU. cbn [nth].
  rewrite set_nth_set_nth. apply set_nth_id. exact Hk.
Qed.

Lemma proj_comm j k Uj Uk A : j <> k -> (j < ndim A)%nat -> (k < ndim A)%nat ->
  proj k Uk (mdR A Uj j true) = mdR (proj k Uk A) Uj j true.
Proof.
  intros Hjk Hj Hk. unfold proj.
  rewrite (md_comm Rops Rops_ring A Uj Uk j k true true Hjk Hj Hk).
  rewrite (md_comm Rops Rops_ring (mdR A Uk k true) Uj Uk j k true false Hjk); [reflexivity| |];
    unfold ndim; rewrite shape_md, set_nth_length; assumption.
Qed.

(* projecting another mode first can only shrink what the mode-k projector discards *)
Lemma resid_contract j k Uj Uk A rj rk : j <> k -> (j < ndim A)%nat -> (k < ndim A)%nat ->
  shape Uj = [nth j (shape A) 0%nat; rj] -> orthonormal_cols Rops Uj (nth j (shape A) 0%nat) rj ->
  shape Uk = [nth k (shape A) 0%nat; rk] ->
  terr2 Rops (mdR A Uj j true) (proj k Uk (mdR A Uj j true)) <= terr2 Rops A (proj k Uk A).
Proof.
  intros Hjk Hj Hk HUj Horth HUk.
  rewrite proj_comm by assumption. rewrite !terr2_nrm2.
  rewrite <- md_tsub by (auto; symmetry; apply (shape_proj k Uk A rk); assumption).
  apply (bessel_mode (tsub A (proj k Uk A)) Uj j rj); cbn [shape tsub tabulate]; assumption.
Qed.

(* what the mode projectors discard from Z itself, mode by mode *)
Fixpoint resid_list (Z : tensor R) (fs : list (tensor R)) (k : nat) : list R :=
  match fs with
  | [] => []
  | U :: fs' => terr2 Rops Z (proj k U Z) :: resid_list Z fs' (S k)
  end.

Lemma Forall2_Rle_trans : forall a b c, Forall2 Rle a b -> Forall2 Rle b c -> Forall2 Rle a c.
Proof.
  induction a; intros b c H1 H2; inversion H1; subst; inversion H2; subst; constructor; [lra | eauto].
Qed.
Lemma Forall2_Rle_refl : forall a, Forall2 Rle a a.
Proof. induction a; constructor; [lra | auto]. Qed.

Lemma resid_list_contract j Uj rj : forall fs k Z, (j < k)%nat -> (k + length fs <= ndim Z)%nat ->
  shape Uj = [nth j (shape Z) 0%nat; rj] -> orthonormal_cols Rops Uj (nth j (shape Z) 0%nat) rj ->
  factors_orth Rops (shape Z) fs k ->
  Forall2 Rle (resid_list (mdR Z Uj j true) fs k) (resid_list Z fs k).
Proof.
  induction fs as [|U fs IH]; intros k Z Hjk Hlen HUj Horth Hf; [constructor|].
  cbn [resid_list factors_orth length] in *. destruct Hf as [(r & HU & _) Hrest]. constructor.
  - apply (resid_contract j k Uj U Z rj r); auto; lia.
  - apply IH; auto; lia.
Qed.

Theorem tucker_discards_le_resid : forall fs k Z, (k + length fs <= ndim Z)%nat -> factors_orth Rops (shape Z) fs k ->
  Forall2 Rle (tucker_discard_list Rops Z fs k) (resid_list Z fs k).
Proof.
  induction fs as [|U fs IH]; intros k Z Hlen Hf; [constructor|].
  cbn [tucker_discard_list resid_list factors_orth length] in *. destruct Hf as [(r & HU & Horth) Hrest].
  constructor; [unfold proj; lra|].
  set (W := mdR Z U k true).
  assert (HsW : shape W = set_nth k r (shape Z)).
  { unfold W. rewrite shape_md. unfold mout, ncols. rewrite HU. reflexivity. }
  assert (HlenW : (S k + length fs <= ndim W)%nat).
  { unfold ndim. rewrite HsW, set_nth_length. unfold ndim in Hlen. lia. }
  assert (HrestW : factors_orth Rops (shape W) fs (S k)).
  { apply (factors_orth_ext Rops (shape Z)); [|exact Hrest]. intros j Hj. rewrite HsW. symmetry. apply nth_set_nth_other. lia. }
  apply (Forall2_Rle_trans _ (resid_list W fs (S k))).
  - apply IH; assumption.
  - apply (resid_list_contract k U r); auto; lia.
Qed.

(* the model of tucker(): upper bound on the squared reconstruction error of whatever it returns, provided the
   returned factors have orthonormal columns *)
Theorem tucker_error_upper_R (svd : nat -> tensor R -> @svdans R) X rank n_iter core fs :
  tucker Rops svd X rank n_iter = Ok (core, fs) -> (length fs <= ndim X)%nat -> factors_orth Rops (shape X) fs 0 ->
  exists Xh, tucker_to_tensor Rops core fs = Ok Xh /\ shape Xh = shape X /\
             terr2 Rops X Xh <= Rsum (resid_list X fs 0).
Proof.
  intros Hrun Hlen Hf.
  destruct (tucker_error_identity Rops Rops_ring svd X rank n_iter core fs Hrun Hlen Hf) as (Xh & H1 & H2 & H3).
  exists Xh. split; [exact H1|]. split; [exact H2|]. rewrite H3.
  change (fsumlist Rops (tucker_discard_list Rops X fs 0)) with (Rsum (tucker_discard_list Rops X fs 0)).
  apply Rsum_le. apply tucker_discards_le_resid; [lia | exact Hf].
Qed.
