(* C09, Tucker error identity (every commutative ring, every order): for factors with orthonormal columns
   (no spanning assumption, so genuinely truncating), with Z_0 = X, Z_{k+1} = Z_k x_k U_k^T (core = Z_n):
        |X - core x_0 U_0 ... x_{n-1} U_{n-1}|^2 = sum_k |Z_k - (Z_k x_k U_k^T) x_k U_k|^2
   i.e. the squared error is the sum over the modes of what the mode-k projector discards from the partially
   projected tensor.  Mode-k Pythagoras (fibre by fibre) + induction over the factor list. *)
From Coq Require Import List Arith Lia Bool Ring.
From TLV Require Import Base.Shape Base.PyList Base.Tensor Base.BigSum Base.Ops Model.Base Model.SvdDecomp
     Proofs.BaseProofs Proofs.SvdDecompProofs Proofs.SvdDecompTucker Proofs.SvdDecompTuckerFull Proofs.SvdDecompPyth.
Import ListNotations.

Lemma insert_at_0' {A} (x : A) l : insert_at 0 x l = x :: l.
Proof. destruct l; reflexivity. Qed.
Lemma set_nth_insert_at {A} (a b : A) : forall k l, k <= length l -> set_nth k a (insert_at k b l) = insert_at k a l.
Proof.
  induction k; intros l H.
  - rewrite !insert_at_0'. reflexivity.
  - destruct l as [|x l]; [simpl in H; lia|]. cbn [insert_at set_nth]. rewrite IHk by (simpl in H; lia). reflexivity.
Qed.
Lemma remove_nth_set_nth_same {A} (a : A) : forall k l, remove_nth k (set_nth k a l) = remove_nth k l.
Proof. induction k; intros [|x l]; simpl; auto. now rewrite IHk. Qed.
Lemma insert_at_remove_shape k : forall (s : list nat) d, k < length s -> insert_at k d (remove_nth k s) = set_nth k d s.
Proof.
  induction k; intros [|x s] d H; simpl in H; try lia.
  - cbn [remove_nth set_nth]. apply insert_at_0'.
  - cbn [remove_nth set_nth]. destruct s as [|y s]; [simpl in H; lia|].
    cbn [remove_nth]. destruct k.
    + cbn [insert_at remove_nth set_nth]. reflexivity.
    + cbn [insert_at]. f_equal. apply (IHk (y :: s) d). simpl in H |- *. lia.
Qed.

Section TuckerErr.
Context {F : Type} (Op : fops F).
Hypothesis Rth : ring_theory (f0 Op) (f1 Op) (fadd Op) (fmul Op) (fsub Op) (fopp Op) (@eq F).
Add Ring Fr10 : Rth.
Notation fz := (f0 Op).
Notation fone := (f1 Op).
Infix "+f" := (fadd Op) (at level 50, left associativity).
Infix "-f" := (fsub Op) (at level 50, left associativity).
Infix "*f" := (fmul Op) (at level 40, left associativity).
Notation fsum := (fsumn Op).
Notation gg := (g Op).
Notation sidx := (sum_idx F fz (fadd Op)).
Notation sqf := (sq Op).

Lemma sidx_exchange s n (f : nat -> list nat -> F) :
  fsum n (fun i => sidx s (f i)) = sidx s (fun idx => fsum n (fun i => f i idx)).
Proof. unfold sum_idx. apply (fsumn_exchange Op Rth). Qed.

Lemma sidx_add s f h : sidx s (fun idx => f idx +f h idx) = sidx s f +f sidx s h.
Proof. unfold sum_idx. apply (fsumn_add Op Rth). Qed.

(* a sum over all indices, mode k singled out *)
Lemma sum_idx_split : forall k s f, k < length s ->
  sidx s f = sidx (remove_nth k s) (fun ridx => fsum (nth k s 0) (fun i => f (insert_at k i ridx))).
Proof.
  induction k; intros [|d s] f H; simpl in H; try lia.
  - cbn [remove_nth nth]. rewrite (sum_idx_cons F _ _ _ _ _ _ Rth). fold (fsum d (fun i => sidx s (fun idx => f (i :: idx)))).
    rewrite sidx_exchange. apply sum_idx_ext. intros ridx _. apply fsumn_ext. intros i _.
    now rewrite insert_at_0'.
  - cbn [remove_nth nth]. rewrite !(sum_idx_cons F _ _ _ _ _ _ Rth). apply bigsum_ext. intros j _.
    rewrite (IHk s (fun idx => f (j :: idx))) by lia. apply sum_idx_ext. intros ridx _.
    apply fsumn_ext. intros i _. reflexivity.
Qed.

(* squared distance of two tensors of the shape of A *)
Definition terr2 (A B : tensor F) : F := sidx (shape A) (fun idx => sqf (gg A idx -f gg B idx)).

Lemma md_fibre Z U k tr ridx i : k < ndim Z -> inb (remove_nth k (shape Z)) ridx -> i < mout U tr ->
  gg (md Op Z U k tr) (insert_at k i ridx) =
  fsum (nth k (shape Z) 0) (fun j => mentry Op U tr i j *f gg Z (insert_at k j ridx)).
Proof.
  intros Hk Hr Hi. unfold ndim in Hk.
  pose proof (inb_length _ _ Hr) as Hlen. rewrite remove_nth_length in Hlen by exact Hk.
  unfold md, g at 1. rewrite get_tabulate.
  - apply fsumn_ext. intros j _. rewrite nth_insert_same by lia. rewrite set_nth_insert_at by lia. reflexivity.
  - rewrite <- insert_at_remove_shape by exact Hk. apply inb_insert; assumption.
Qed.

(* mode-k Pythagoras *)
Theorem pythagoras_mode Z U T k r : k < ndim Z -> shape U = [nth k (shape Z) 0; r] ->
  orthonormal_cols Op U (nth k (shape Z) 0) r -> shape T = set_nth k r (shape Z) ->
  terr2 Z (md Op T U k false) =
  terr2 Z (md Op (md Op Z U k true) U k false) +f terr2 (md Op Z U k true) T.
Proof.
  intros Hk HU Horth HT. set (s := shape Z) in *. set (nk := nth k s 0) in *. unfold ndim in Hk. fold s in Hk.
  assert (HoutT : mout U true = r) by (unfold mout, ncols; rewrite HU; reflexivity).
  assert (HoutF : mout U false = nk) by (unfold mout, nrows; rewrite HU; reflexivity).
  set (W := md Op Z U k true).
  assert (HsW : shape W = set_nth k r s) by (unfold W; rewrite shape_md, HoutT; reflexivity).
  assert (Hrm : remove_nth k (set_nth k r s) = remove_nth k s) by apply remove_nth_set_nth_same.
  assert (Hnk : nth k (set_nth k r s) 0 = r) by (apply nth_set_nth_same; exact Hk).
  unfold terr2. fold s. rewrite HsW.
  rewrite (sum_idx_split k s) by exact Hk.
  rewrite (sum_idx_split k s (fun idx => sqf (gg Z idx -f gg (md Op W U k false) idx))) by exact Hk.
  rewrite (sum_idx_split k (set_nth k r s)) by (rewrite set_nth_length; exact Hk).
  rewrite Hrm, Hnk. fold nk. rewrite <- sidx_add. apply sum_idx_ext. intros ridx Hr.
  (* one fibre *)
  set (x := fun i => gg Z (insert_at k i ridx)). set (t := fun b => gg T (insert_at k b ridx)).
  set (Uf := fun i b => gg U [i; b]).
  assert (HW : forall b, b < r -> gg W (insert_at k b ridx) = fsum nk (fun i => Uf i b *f x i)).
  { intros b Hb. unfold W. rewrite md_fibre by (unfold ndim; fold s; auto; try (rewrite HoutT; exact Hb)). fold s nk.
    apply fsumn_ext. intros j _. reflexivity. }
  assert (HrT : inb (remove_nth k (shape T)) ridx) by (rewrite HT, Hrm; exact Hr).
  assert (HkT : k < ndim T) by (unfold ndim; rewrite HT, set_nth_length; exact Hk).
  assert (HrW : inb (remove_nth k (shape W)) ridx) by (rewrite HsW, Hrm; exact Hr).
  assert (HkW : k < ndim W) by (unfold ndim; rewrite HsW, set_nth_length; exact Hk).
  pose proof (pythagoras_vec Op Rth nk r Uf x t Horth) as Hp. cbv zeta in Hp.
  transitivity (fsum nk (fun i => sqf (x i -f fsum r (fun b => Uf i b *f t b)))).
  - apply fsumn_ext. intros i Hi. f_equal. f_equal.
    rewrite md_fibre by (auto; rewrite HoutF; exact Hi). rewrite HT, Hnk. apply fsumn_ext. intros b _. reflexivity.
  - rewrite Hp. f_equal.
    + apply fsumn_ext. intros i Hi. f_equal. f_equal.
      rewrite md_fibre by (auto; rewrite HoutF; exact Hi). rewrite HsW, Hnk. apply fsumn_ext. intros b Hb.
      unfold mentry. f_equal. now rewrite HW by exact Hb.
    + apply fsumn_ext. intros b Hb. f_equal. f_equal. now rewrite HW by exact Hb.
Qed.

(* ------------------------------------------------------------------ all modes *)
Lemma terr2_refl Z : terr2 Z Z = fz.
Proof.
  unfold terr2, sum_idx. apply (fsumn_zero Op Rth). intros i _. unfold sq. ring.
Qed.

(* the factors have orthonormal columns and the right number of rows (mode sizes s) *)
Fixpoint factors_orth (s : list nat) (fs : list (tensor F)) (k : nat) : Prop :=
  match fs with
  | [] => True
  | U :: fs' => (exists r, shape U = [nth k s 0; r] /\ orthonormal_cols Op U (nth k s 0) r) /\ factors_orth s fs' (S k)
  end.

Lemma factors_orth_ext s s' : forall fs k, (forall j, k <= j -> nth j s 0 = nth j s' 0) ->
  factors_orth s fs k -> factors_orth s' fs k.
Proof.
  induction fs as [|U fs IH]; intros k H Hf; [exact I|]. cbn [factors_orth] in *. destruct Hf as [(r & H1 & H2) H3].
  rewrite (H k (le_n k)) in H1, H2. split; [exists r; auto|]. apply IH; auto. intros j Hj. apply H. lia.
Qed.

(* what the projector of mode k discards from the partially projected tensor, mode by mode *)
Fixpoint tucker_discard_list (Z : tensor F) (fs : list (tensor F)) (k : nat) : list F :=
  match fs with
  | [] => []
  | U :: fs' => terr2 Z (md Op (md Op Z U k true) U k false) :: tucker_discard_list (md Op Z U k true) fs' (S k)
  end.

Definition fsumlist (l : list F) : F := fold_right (fadd Op) fz l.

Theorem tucker_error_identity_gen : forall fs k Z, k + length fs <= ndim Z -> factors_orth (shape Z) fs k ->
  exists core Xh, multi_mode_dot Op Z fs k None true = Ok core /\ multi_mode_dot Op core fs k None false = Ok Xh /\
                  shape Xh = shape Z /\ terr2 Z Xh = fsumlist (tucker_discard_list Z fs k).
Proof.
  induction fs as [|U fs IH]; intros k Z Hlen Hf.
  - exists Z, Z. repeat split; try reflexivity. cbn [tucker_discard_list fsumlist fold_right]. apply terr2_refl.
  - cbn [factors_orth length] in *. destruct Hf as [(r & HU & Horth) Hrest].
    set (s := shape Z) in *. set (nk := nth k s 0) in *.
    assert (Hk : k < ndim Z) by lia.
    assert (Hok1 : md_ok Z U k true).
    { unfold md_ok, min_, ndim, nrows. rewrite HU. cbn [length nth]. fold s nk. unfold ndim in Hk. auto. }
    set (W := md Op Z U k true).
    assert (HsW : shape W = set_nth k r s).
    { unfold W. rewrite shape_md. unfold mout, ncols. rewrite HU. reflexivity. }
    assert (HlenW : S k + length fs <= ndim W).
    { unfold ndim. rewrite HsW, set_nth_length. unfold ndim in Hlen. fold s in Hlen. lia. }
    assert (HrestW : factors_orth (shape W) fs (S k)).
    { apply (factors_orth_ext s); [|exact Hrest]. intros j Hj. rewrite HsW. symmetry. apply nth_set_nth_other. lia. }
    destruct (IH (S k) W HlenW HrestW) as (core & Wh & Hc1 & Hc2 & HsWh & Herr).
    assert (Hok2 : md_ok Wh U k false).
    { unfold md_ok, min_, ndim, ncols. rewrite HU, HsWh, HsW, set_nth_length. cbn [length nth].
      unfold ndim in Hk. fold s in Hk. rewrite nth_set_nth_same by exact Hk. auto. }
    set (Xh := md Op Wh U k false).
    destruct (multi_comm Op Rth fs (S k) core Wh Xh U k false false ltac:(lia) Hc2 (mode_dot_ok Op Wh U k false Hok2))
      as (Z0 & HZ0 & HZ0').
    exists core, Xh. split; [|split; [|split]].
    + cbn [multi_mode_dot]. rewrite (mode_dot_ok Op Z U k true Hok1). exact Hc1.
    + cbn [multi_mode_dot]. rewrite HZ0. exact HZ0'.
    + unfold Xh. rewrite shape_md, HsWh, HsW. unfold mout, nrows. rewrite HU. cbn [nth].
      rewrite set_nth_set_nth. unfold nk. apply set_nth_id. unfold ndim in Hk. exact Hk.
    + cbn [tucker_discard_list fsumlist fold_right]. fold W. fold (fsumlist (tucker_discard_list W fs (S k))).
      rewrite <- Herr. unfold Xh.
      apply (pythagoras_mode Z U Wh k r Hk HU Horth). rewrite HsWh, HsW. reflexivity.
Qed.

(* the model of tucker(): the squared reconstruction error of whatever it returns, provided the returned
   factors have orthonormal columns *)
Theorem tucker_error_identity (svd : nat -> tensor F -> @svdans F) X rank n_iter core fs :
  tucker Op svd X rank n_iter = Ok (core, fs) -> length fs <= ndim X -> factors_orth (shape X) fs 0 ->
  exists Xh, tucker_to_tensor Op core fs = Ok Xh /\ shape Xh = shape X /\
             terr2 X Xh = fsumlist (tucker_discard_list X fs 0).
Proof.
  intros Hrun Hlen Hf. unfold tucker in Hrun.
  destruct (negb _); [discriminate|].
  destruct (ndim X <=? 1); [discriminate|].
  destruct (hosvd_factors Op svd X _ 0 0) as [fs0|]; [|discriminate]. cbn [rbind] in Hrun.
  destruct (hooi_iter Op svd X _ n_iter (ndim X) fs0) as [fs1|]; [|discriminate]. cbn [rbind] in Hrun.
  destruct (multi_mode_dot Op X fs1 0 None true) as [core1|] eqn:Ecore; [|discriminate]. cbn [rbind] in Hrun.
  injection Hrun as <- <-.
  destruct (tucker_error_identity_gen fs1 0 X ltac:(lia) Hf) as (core' & Xh & H1 & H2 & H3 & H4).
  rewrite Ecore in H1. injection H1 as <-. exists Xh. auto.
Qed.

End TuckerErr.
