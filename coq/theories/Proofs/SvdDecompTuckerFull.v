(* C09, Tucker part, all modes: over an arbitrary commutative ring, for every order, the projection on
   the factors (core = X x_0 U_0^T ... x_{n-1} U_{n-1}^T, multi_mode_dot with transpose) followed by the
   reconstruction tucker_to_tensor (core x_0 U_0 ... x_{n-1} U_{n-1}) returns X whenever every U_k has
   orthonormal columns spanning the mode-k fibres of X.  Proved by induction over the list of factors,
   with the commutation of n-mode products along different modes. *)
From Coq Require Import List Arith Lia Bool Ring.
From TLV Require Import Base.Shape Base.PyList Base.Tensor Base.BigSum Base.Ops Model.Base Model.SvdDecomp
     Proofs.SvdDecompProofs Proofs.SvdDecompTucker.
Import ListNotations.

Lemma set_nth_comm {A} (a b : A) : forall j k l, j <> k -> set_nth j a (set_nth k b l) = set_nth k b (set_nth j a l).
Proof.
  induction j; intros [|k] [|x l] H; simpl; auto; try lia.
  rewrite IHj by lia. reflexivity.
Qed.
Lemma remove_nth_set_nth_lt {A} (a : A) : forall k m l, k < m -> remove_nth m (set_nth k a l) = set_nth k a (remove_nth m l).
Proof.
  induction k; intros m l H; (destruct m as [|m]; [lia|]); destruct l as [|x l]; try reflexivity.
  cbn [set_nth remove_nth]. rewrite IHk by lia. reflexivity.
Qed.
Lemma nth_remove_nth_lt {A} (d : A) : forall k m l, k < m -> nth k (remove_nth m l) d = nth k l d.
Proof.
  induction k; intros m l H; (destruct m as [|m]; [lia|]); destruct l as [|x l]; try reflexivity.
  cbn [remove_nth nth]. apply IHk. lia.
Qed.
Lemma inb_set_nth_inv k : forall s idx v d, inb (set_nth k d s) idx -> v < nth k s 0 -> k < length s -> inb s (set_nth k v idx).
Proof.
  induction k; intros [|x s] [|i idx] v d H Hv Hk; simpl in *; try tauto; try lia.
  destruct H as [H1 H2]. split; [exact H1|]. apply (IHk s idx v d); auto. lia.
Qed.

Section TuckerFull.
Context {F : Type} (Op : fops F).
Hypothesis Rth : ring_theory (f0 Op) (f1 Op) (fadd Op) (fmul Op) (fsub Op) (fopp Op) (@eq F).
Add Ring Fr3 : Rth.
Notation fz := (f0 Op).
Notation fone := (f1 Op).
Infix "+f" := (fadd Op) (at level 50, left associativity).
Infix "*f" := (fmul Op) (at level 40, left associativity).
Notation fsum := (fsumn Op).
Notation gg := (g Op).

(* the entry of the factor used by mode_dot: M[j, i] under transpose, M[i, j] otherwise *)
Definition mentry (M : tensor F) (tr : bool) (i j : nat) : F := if tr then gg M [j; i] else gg M [i; j].
Definition mout (M : tensor F) (tr : bool) : nat := if tr then ncols M else nrows M.
Definition min_ (M : tensor F) (tr : bool) : nat := if tr then nrows M else ncols M.

Definition md (X M : tensor F) (k : nat) (tr : bool) : tensor F :=
  tabulate (set_nth k (mout M tr) (shape X))
    (fun idx => fsum (nth k (shape X) 0) (fun j => mentry M tr (nth k idx 0) j *f gg X (set_nth k j idx))).

Definition md_ok (X M : tensor F) (k : nat) (tr : bool) : Prop :=
  k < ndim X /\ ndim M = 2 /\ min_ M tr = nth k (shape X) 0.

Lemma mode_dot_inv X M k tr Y : mode_dot Op X M k tr = Ok Y -> md_ok X M k tr /\ Y = md X M k tr.
Proof.
  unfold mode_dot, md_ok, md, min_, mout, mentry.
  destruct (k <? ndim X) eqn:E1; [|discriminate].
  destruct (Nat.eqb (ndim M) 2) eqn:E2; [|discriminate].
  destruct (Nat.eqb (if tr then nrows M else ncols M) (nth k (shape X) 0)) eqn:E3; [|discriminate].
  cbn [andb]. intros H. injection H as <-.
  apply Nat.ltb_lt in E1. apply Nat.eqb_eq in E2. apply Nat.eqb_eq in E3.
  repeat split; auto. all: destruct tr; reflexivity.
Qed.

Lemma mode_dot_ok X M k tr : md_ok X M k tr -> mode_dot Op X M k tr = Ok (md X M k tr).
Proof.
  unfold mode_dot, md_ok, md, min_, mout, mentry. intros (H1 & H2 & H3).
  apply Nat.ltb_lt in H1. rewrite H1, H2. cbn [Nat.eqb andb].
  replace (Nat.eqb (if tr then nrows M else ncols M) (nth k (shape X) 0)) with true
    by (symmetry; apply Nat.eqb_eq; exact H3).
  destruct tr; reflexivity.
Qed.

Lemma wf_md X M k tr : wf (md X M k tr).
Proof. apply wf_tabulate. Qed.

Lemma shape_md X M k tr : shape (md X M k tr) = set_nth k (mout M tr) (shape X).
Proof. reflexivity. Qed.

(* n-mode products along different modes commute *)
Lemma md_comm X A B j k ta tb : j <> k -> j < ndim X -> k < ndim X ->
  md (md X A j ta) B k tb = md (md X B k tb) A j ta.
Proof.
  intros Hjk Hj Hk. unfold ndim in *.
  apply (tensor_ext fz); try apply wf_md.
  - rewrite !shape_md. apply set_nth_comm. lia.
  - intros idx Hidx. rewrite shape_md, shape_md in Hidx.
    pose proof (inb_length _ _ Hidx) as Hlen. rewrite !set_nth_length in Hlen.
    assert (Hidx' : inb (set_nth j (mout A ta) (set_nth k (mout B tb) (shape X))) idx)
      by (rewrite set_nth_comm by lia; exact Hidx).
    set (L := md X A j ta). set (Rr := md X B k tb).
    unfold md. rewrite !get_tabulate by (first [exact Hidx | exact Hidx']).
    subst L Rr. rewrite !shape_md. rewrite !nth_set_nth_other by lia.
    (* left: sum over q (mode k) of B * (sum over p (mode j) of A * X) *)
    transitivity (fsum (nth k (shape X) 0) (fun q => fsum (nth j (shape X) 0) (fun p =>
       mentry B tb (nth k idx 0) q *f (mentry A ta (nth j idx 0) p *f gg X (set_nth j p (set_nth k q idx)))))).
    + apply fsumn_ext. intros q Hq. rewrite (fsumn_scale_l Op Rth). f_equal.
      unfold g at 1. unfold md. rewrite get_tabulate.
      * apply fsumn_ext. intros p Hp. rewrite nth_set_nth_other by lia. reflexivity.
      * apply (inb_set_nth_inv k _ idx q (mout B tb)).
        -- exact Hidx.
        -- rewrite nth_set_nth_other by lia. exact Hq.
        -- rewrite set_nth_length. exact Hk.
    + rewrite (fsumn_exchange Op Rth). apply fsumn_ext. intros p Hp.
      transitivity (mentry A ta (nth j idx 0) p *f fsum (nth k (shape X) 0) (fun q =>
         mentry B tb (nth k idx 0) q *f gg X (set_nth k q (set_nth j p idx)))).
      * rewrite <- (fsumn_scale_l Op Rth). apply fsumn_ext. intros q Hq.
        rewrite (set_nth_comm p q j k) by lia. ring.
      * f_equal. unfold g at 2. unfold md. rewrite get_tabulate.
        -- apply fsumn_ext. intros q Hq. rewrite nth_set_nth_other by lia. reflexivity.
        -- apply (inb_set_nth_inv j _ idx p (mout A ta)).
           ++ rewrite set_nth_comm by lia. exact Hidx.
           ++ rewrite nth_set_nth_other by lia. exact Hp.
           ++ rewrite set_nth_length. exact Hj.
Qed.

Lemma md_ok_after X A B j k ta tb : j <> k -> md_ok X A j ta -> (md_ok (md X A j ta) B k tb <-> md_ok X B k tb).
Proof.
  intros Hjk (Hj & _ & _). unfold md_ok, ndim. rewrite shape_md, set_nth_length.
  rewrite nth_set_nth_other by lia. tauto.
Qed.

Lemma mode_dot_comm_ok X A B j k ta tb Y Z : j <> k ->
  mode_dot Op X A j ta = Ok Y -> mode_dot Op Y B k tb = Ok Z ->
  exists Y', mode_dot Op X B k tb = Ok Y' /\ mode_dot Op Y' A j ta = Ok Z.
Proof.
  intros Hjk H1 H2. apply mode_dot_inv in H1 as [Ok1 ->]. apply mode_dot_inv in H2 as [Ok2 ->].
  pose proof (proj1 (md_ok_after X A B j k ta tb Hjk Ok1) Ok2) as Ok3.
  exists (md X B k tb). split; [now apply mode_dot_ok|].
  rewrite mode_dot_ok by (apply md_ok_after; auto).
  f_equal. symmetry. apply md_comm; auto. exact (proj1 Ok1). exact (proj1 Ok3).
Qed.

(* a product along mode k commutes with a run of products along the modes m, m+1, ... (k < m) *)
Lemma multi_comm : forall fs m W0 W Z U k tr trU, k < m ->
  multi_mode_dot Op W0 fs m None tr = Ok W -> mode_dot Op W U k trU = Ok Z ->
  exists Z0, mode_dot Op W0 U k trU = Ok Z0 /\ multi_mode_dot Op Z0 fs m None tr = Ok Z.
Proof.
  induction fs as [|V fs IH]; intros m W0 W Z U k tr trU Hkm Hm Hd.
  - simpl in Hm. injection Hm as <-. exists Z. split; [exact Hd | reflexivity].
  - cbn [multi_mode_dot] in Hm. destruct (mode_dot Op W0 V m tr) as [W1|] eqn:E1; [|discriminate].
    cbn [rbind] in Hm.
    destruct (IH (S m) W1 W Z U k tr trU ltac:(lia) Hm Hd) as (Z1 & HZ1 & HZ1').
    destruct (mode_dot_comm_ok W0 V U m k tr trU W1 Z1 ltac:(lia) E1 HZ1) as (Z0 & HZ0 & HZ0').
    exists Z0. split; [exact HZ0|]. cbn [multi_mode_dot]. rewrite HZ0'. exact HZ1'.
Qed.

(* ------------------------------------------------------------------ the factors fit X *)
(* U_k has orthonormal columns and the mode-k fibres of X are combinations of them (k = k0, k0+1, ...) *)
Fixpoint factors_span (X : tensor F) (fs : list (tensor F)) (k : nat) : Prop :=
  match fs with
  | [] => True
  | U :: fs' =>
    (exists r c, shape U = [nth k (shape X) 0; r] /\ semi_orthonormal_cols Op U (nth k (shape X) 0) r /\
                 mode_span Op X U k r c) /\ factors_span X fs' (S k)
  end.

(* projecting mode k keeps the fibres of a later mode m in the span of V *)
Lemma span_preserved X U V k m r c : k < m -> m < ndim X -> md_ok X U k true ->
  mode_span Op X V m r c ->
  mode_span Op (md X U k true) V m r
    (fun l ridx => fsum (nth k (shape X) 0) (fun j => gg U [j; nth k ridx 0] *f c l (set_nth k j ridx))).
Proof.
  intros Hkm Hm (Hk & _ & _) Hspan idx Hidx. unfold ndim in *. rewrite shape_md in Hidx.
  pose proof (inb_length _ _ Hidx) as Hlen. rewrite set_nth_length in Hlen.
  unfold md, g at 1. rewrite get_tabulate by exact Hidx. unfold mentry.
  transitivity (fsum (nth k (shape X) 0) (fun j => fsum r (fun l =>
     gg V [nth m idx 0; l] *f (gg U [j; nth k idx 0] *f c l (set_nth k j (remove_nth m idx)))))).
  - apply fsumn_ext. intros j Hj.
    rewrite (Hspan (set_nth k j idx)) by (apply (inb_set_nth_inv k _ idx j (mout U true)); auto).
    rewrite <- (fsumn_scale_l Op Rth). apply fsumn_ext. intros l Hl.
    rewrite nth_set_nth_other by lia. rewrite remove_nth_set_nth_lt by lia. ring.
  - rewrite (fsumn_exchange Op Rth). apply fsumn_ext. intros l Hl.
    rewrite <- (fsumn_scale_l Op Rth). apply fsumn_ext. intros j Hj.
    rewrite nth_remove_nth_lt by lia. reflexivity.
Qed.

Lemma factors_span_preserved U k : forall fs X m, k < m -> m + length fs <= ndim X -> md_ok X U k true ->
  factors_span X fs m -> factors_span (md X U k true) fs m.
Proof.
  induction fs as [|V fs IH]; intros X m Hkm Hlen Hok H; [exact I|].
  cbn [factors_span length] in *. destruct H as [(r & c & HV & Horth & Hspan) Hrest].
  rewrite shape_md. rewrite nth_set_nth_other by lia. split.
  - exists r. eexists. split; [exact HV|]. split; [exact Horth|].
    eapply span_preserved; [exact Hkm | lia | exact Hok | exact Hspan].
  - apply IH; auto; lia.
Qed.

(* ------------------------------------------------------------------ projection then reconstruction *)
Theorem tucker_roundtrip : forall fs k X, wf X -> k + length fs <= ndim X -> factors_span X fs k ->
  exists core, multi_mode_dot Op X fs k None true = Ok core /\ multi_mode_dot Op core fs k None false = Ok X.
Proof.
  induction fs as [|U fs IH]; intros k X WX Hlen H.
  - exists X. split; reflexivity.
  - cbn [factors_span length] in *. destruct H as [(r & c & HU & Horth & Hspan) Hrest].
    destruct (mode_projector_exact_semi Op Rth X U k r c WX ltac:(lia) HU Horth Hspan) as (Y & HY & HsY & HYX).
    pose proof (mode_dot_inv _ _ _ _ _ HY) as [HokY EY].
    assert (WY : wf Y) by (rewrite EY; apply wf_md).
    assert (HrestY : factors_span Y fs (S k)).
    { rewrite EY. apply factors_span_preserved; auto; lia. }
    assert (HlenY : S k + length fs <= ndim Y).
    { unfold ndim. rewrite HsY, set_nth_length. unfold ndim in Hlen. lia. }
    destruct (IH (S k) Y WY HlenY HrestY) as (core & Hc1 & Hc2).
    exists core. split.
    + cbn [multi_mode_dot]. rewrite HY. exact Hc1.
    + destruct (multi_comm fs (S k) core Y X U k false false ltac:(lia) Hc2 HYX) as (Z0 & HZ0 & HZ0').
      cbn [multi_mode_dot]. rewrite HZ0. exact HZ0'.
Qed.

(* the model of tucker(): whatever number of HOOI sweeps produced the factors, if they fit X the
   returned (core, factors) reconstructs X exactly *)
Theorem tucker_exact_of_factors (svd : nat -> tensor F -> @svdans F) X rank n_iter core fs :
  wf X -> tucker Op svd X rank n_iter = Ok (core, fs) -> length fs <= ndim X -> factors_span X fs 0 ->
  tucker_to_tensor Op core fs = Ok X.
Proof.
  intros WX Hrun Hlen Hspan. unfold tucker in Hrun.
  destruct (negb _); [discriminate|].
  destruct (ndim X <=? 1); [discriminate|].
  destruct (hosvd_factors Op svd X _ 0 0) as [fs0|]; [|discriminate]. cbn [rbind] in Hrun.
  destruct (hooi_iter Op svd X _ n_iter (ndim X) fs0) as [fs1|]; [|discriminate]. cbn [rbind] in Hrun.
  destruct (multi_mode_dot Op X fs1 0 None true) as [core1|] eqn:Ecore; [|discriminate]. cbn [rbind] in Hrun.
  injection Hrun as <- <-.
  destruct (tucker_roundtrip fs1 0 X WX ltac:(lia) Hspan) as (core' & H1 & H2).
  rewrite Ecore in H1. injection H1 as <-. exact H2.
Qed.

End TuckerFull.
