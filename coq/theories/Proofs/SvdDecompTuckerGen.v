(* C09, Tucker exactness over the reals with the U-side SVD contract that also covers full_matrices answers
   (requested rank larger than the number of singular triplets, truncated_svd then calls the backend with
   full_matrices=True): U has KU >= KS orthonormal columns, the query is the combination of the first KS of
   them, and the columns with index >= min(r, KU) among those KS carry zero weight.  S and Vh are not
   constrained at all (only U enters the Tucker factors).  The returned factor has min(r, KU) columns. *)
From Coq Require Import List Arith Lia Bool Reals Lra RealField.
From TLV Require Import Base.Shape Base.PyList Base.Tensor Base.BigSum Base.Ops Model.Base Model.SvdDecomp
     Proofs.BaseProofs Proofs.SvdDecompProofs Proofs.SvdDecompProofsR Proofs.SvdDecompTucker Proofs.SvdDecompTuckerFull
     Proofs.SvdDecompTuckerR Proofs.SvdDecompHooi.
Import ListNotations.
Local Open Scope R_scope.

Definition svd_contract_u (M : tensor R) (m n r : nat) (a : @svdans R) : Prop :=
  let '(U, Sv, V) := a in
  exists (KU KS : nat) (w : nat -> nat -> R),
    shape U = [m; KU] /\ (KS <= KU)%nat /\
    (forall j l, (j < KU)%nat -> (l < KU)%nat ->
       sumR m (fun i => gR U [i; j] * gR U [i; l]) = if Nat.eqb j l then 1 else 0) /\
    (forall i c, (i < m)%nat -> (c < n)%nat -> sumR KS (fun l => gR U [i; l] * w l c) = gR M [i; c]) /\
    (forall l c, (Nat.min r KU <= l)%nat -> (l < KS)%nat -> (c < n)%nat -> w l c = 0).

(* the reduced-SVD contract used so far is an instance *)
Lemma svd_contract_contract_u M m n r a : svd_contract M m n r a -> svd_contract_u M m n r a.
Proof.
  destruct a as [[U Sv] V]. unfold svd_contract, svd_contract_u.
  intros (K & HrK & HU & HV & Horth & Hprod & Htail & Hlen).
  exists K, K, (fun l c => nth l Sv 0 * gR V [l; c]). repeat split; auto.
  intros l c H1 H2 _. rewrite Htail by lia. ring.
Qed.

(* a full_matrices answer for a query with at least as many columns as rows: U is m x m orthogonal, everything kept *)
Lemma full_matrices_contract_u M m n r U Sv V : (m <= r)%nat -> shape U = [m; m] ->
  (forall j l, (j < m)%nat -> (l < m)%nat ->
     sumR m (fun i => gR U [i; j] * gR U [i; l]) = if Nat.eqb j l then 1 else 0) ->
  (exists w, forall i c, (i < m)%nat -> (c < n)%nat -> sumR m (fun l => gR U [i; l] * w l c) = gR M [i; c]) ->
  svd_contract_u M m n r (U, Sv, V).
Proof.
  intros Hr HU Horth (w & Hw). exists m, m, w. repeat split; auto. intros l c H1 H2 _. lia.
Qed.

Lemma factor_fits_u (X Xk : tensor R) (k r : nat) (a : @svdans R) :
  wf X -> (k < ndim X)%nat -> (0 < prod (shape X))%nat -> unfold 0 X k = Ok Xk ->
  svd_contract_u Xk (nth k (shape X) 0%nat) (prod (remove_nth k (shape X))) r a ->
  fitp Rops X (fst3 (svd_interface Rops a r)) k.
Proof.
  intros WX Hk Hpos Hunf Hc. destruct a as [[U Sv] V]. unfold svd_contract_u in Hc.
  destruct Hc as (KU & KS & w & HU & HKS & Horth & Hprod & Htail).
  set (m := nth k (shape X) 0%nat) in *. set (n := prod (remove_nth k (shape X))) in *.
  set (r' := Nat.min r KU).
  unfold svd_interface, truncated_svd, svd_flip, fst3.
  assert (EU : cols_firstn Rops r U = tabulate [m; r'] (fun idx => gR U idx)).
  { unfold cols_firstn, nrows, ncols. rewrite HU. reflexivity. }
  rewrite EU. set (sg := flip_signs Rops (tabulate [m; r'] (fun idx => gR U idx))).
  assert (Lsg : length sg = r') by (unfold sg; rewrite flip_signs_length; reflexivity).
  assert (Hsq : Forall (sq1 Rops) sg).
  { unfold sg. apply flip_signs_sq1. intros j Hj.
    destruct (sumR_nonzero_exists m (fun i => gR U [i; j] * gR U [i; j])) as (i & Hi & Hne).
    - rewrite Horth by (unfold r' in Hj; lia). rewrite Nat.eqb_refl. lra.
    - exists i. split; [exact Hi|]. intros E. apply Hne. rewrite E. lra. }
  assert (Hsg : forall b, (b < r')%nat -> nth b sg 1 * nth b sg 1 = 1).
  { intros b Hb. rewrite Forall_forall in Hsq. apply (Hsq (nth b sg 1)). apply nth_In. lia. }
  set (U' := scale_cols Rops (tabulate [m; r'] (fun idx => gR U idx)) sg).
  assert (HU' : forall i b, (i < m)%nat -> (b < r')%nat -> gR U' [i; b] = gR U [i; b] * nth b sg 1).
  { intros i b Hi Hb. unfold U', scale_cols. cbn [shape tabulate]. rewrite (g_tab2 Rops) by assumption. cbv beta.
    rewrite (g_tab2 Rops) by assumption. reflexivity. }
  set (w' := fun l c => if (l <? KS)%nat then w l c else 0).
  exists r', (fun l ridx => nth l sg 1 * w' l (ravel (remove_nth k (shape X)) ridx)).
  split; [reflexivity|]. split.
  - apply orthonormal_semi. intros j l Hj Hl.
    transitivity (sumR m (fun i => (nth j sg 1 * nth l sg 1) * (gR U [i; j] * gR U [i; l]))).
    + apply (fsumn_ext Rops). intros i Hi. rewrite !HU' by assumption. cbn [fmul Rops]. ring.
    + rewrite (fsumn_scale_l Rops Rops_ring). rewrite Horth by (unfold r' in *; lia). cbn [fmul Rops f1 f0].
      destruct (Nat.eqb_spec j l) as [->|Hne]; [rewrite Hsg by assumption|]; ring.
  - intros idx Hidx.
    destruct (unfold_layout 0 X k Xk idx WX Hk Hpos Hunf Hidx) as [_ Hlay].
    set (i := nth k idx 0%nat) in *. set (c := ravel (remove_nth k (shape X)) (remove_nth k idx)) in *.
    assert (Hi : (i < m)%nat) by (apply inb_nth; [exact Hidx | exact Hk]).
    assert (Hcn : (c < n)%nat) by (apply ravel_lt; apply inb_remove; exact Hidx).
    change (gR X idx) with (get 0 X idx). rewrite <- Hlay. change (get 0 Xk [i; c]) with (gR Xk [i; c]).
    rewrite <- (Hprod i c Hi Hcn).
    (* sum over KS = sum over KU with zero padding = sum over r' *)
    transitivity (sumR KU (fun l => gR U [i; l] * w' l c)).
    + symmetry. rewrite (fsumn_tail_zero Rops Rops_ring KU KS) by
        (first [exact HKS | intros l H1 H2; unfold w'; destruct (Nat.ltb_spec l KS); [lia | cbn; ring]]).
      apply (fsumn_ext Rops). intros l Hl. unfold w'. destruct (Nat.ltb_spec l KS); [reflexivity | lia].
    + rewrite (fsumn_tail_zero Rops Rops_ring KU r').
      * apply (fsumn_ext Rops). intros l Hl. rewrite HU' by assumption. cbn [fmul Rops].
        transitivity (gR U [i; l] * w' l c * (nth l sg 1 * nth l sg 1)); [rewrite Hsg by exact Hl; ring | ring].
      * unfold r'. lia.
      * intros l H1 H2. unfold w'. destruct (Nat.ltb_spec l KS); [|cbn; ring].
        rewrite (Htail l c) by (auto; unfold r' in H1; exact H1). cbn. ring.
Qed.

Section Run.
Variable svd : nat -> tensor R -> @svdans R.

Fixpoint hosvd_contract_u (X : tensor R) (ranks : list nat) (m c : nat) : Prop :=
  match ranks with
  | [] => True
  | r :: ranks' =>
    match unfold 0 X m with
    | Ok Xm => svd_contract_u Xm (nth m (shape X) 0%nat) (prod (remove_nth m (shape X))) r (svd c Xm)
    | Err => True
    end /\ hosvd_contract_u X ranks' (S m) (S c)
  end.

Lemma hosvd_factors_fit_u X : wf X -> (0 < prod (shape X))%nat -> forall ranks m c fs,
  (m + length ranks <= ndim X)%nat -> hosvd_contract_u X ranks m c ->
  hosvd_factors Rops svd X ranks m c = Ok fs -> factors_span_sk Rops None X fs m.
Proof.
  intros WX Hpos. induction ranks as [|r ranks IH]; intros m c fs Hlen Hc H.
  - simpl in H. injection H as <-. exact I.
  - cbn [hosvd_factors] in H. cbn [hosvd_contract_u] in Hc. cbn [length] in Hlen.
    change (f0 Rops) with 0 in H.
    destruct (unfold 0 X m) as [Xm|] eqn:EX; [|discriminate]. cbn [rbind] in H.
    destruct (hosvd_factors Rops svd X ranks (S m) (S c)) as [fs'|] eqn:E; [|discriminate]. cbn [rbind] in H.
    injection H as <-. destruct Hc as [Hc1 Hc2]. cbn [factors_span_sk skipb]. split.
    + apply (factor_fits_u X Xm m r (svd c Xm)); auto. lia.
    + apply (IH (S m) (S c)); auto. lia.
Qed.

Fixpoint hooi_modes_contract_u (X : tensor R) (ranks : list nat) (m c : nat) (fs : list (tensor R)) : Prop :=
  match ranks with
  | [] => True
  | r :: ranks' =>
    match multi_mode_dot Rops X fs 0 (Some m) true with
    | Ok Y =>
      match unfold 0 Y m with
      | Ok Ym =>
        (0 < prod (shape Y))%nat /\
        svd_contract_u Ym (nth m (shape Y) 0%nat) (prod (remove_nth m (shape Y))) r (svd c Ym) /\
        hooi_modes_contract_u X ranks' (S m) (S c) (set_nth m (fst3 (svd_interface Rops (svd c Ym) r)) fs)
      | Err => True
      end
    | Err => True
    end
  end.

Fixpoint hooi_iter_contract_u (X : tensor R) (ranks : list nat) (n_iter c : nat) (fs : list (tensor R)) : Prop :=
  match n_iter with
  | O => True
  | S it =>
    hooi_modes_contract_u X ranks 0 c fs /\
    match hooi_modes Rops svd X ranks 0 c fs with
    | Ok fs' => hooi_iter_contract_u X ranks it (c + length ranks) fs'
    | Err => True
    end
  end.

Lemma hooi_modes_fit_u X : wf X -> forall ranks m c fs fs',
  factors_span_sk Rops None X fs 0 -> length fs = ndim X -> (m + length ranks <= ndim X)%nat ->
  hooi_modes_contract_u X ranks m c fs -> hooi_modes Rops svd X ranks m c fs = Ok fs' ->
  factors_span_sk Rops None X fs' 0 /\ length fs' = ndim X.
Proof.
  intros WX. induction ranks as [|r ranks IH]; intros m c fs fs' Hfs Hlen Hm Hc Hrun.
  - simpl in Hrun. injection Hrun as <-. auto.
  - cbn [hooi_modes] in Hrun. cbn [hooi_modes_contract_u] in Hc. cbn [length] in Hm.
    destruct (multi_mode_dot Rops X fs 0 (Some m) true) as [Y|] eqn:EY; [|discriminate]. cbn [rbind] in Hrun.
    change (f0 Rops) with 0 in Hrun.
    destruct (unfold 0 Y m) as [Ym|] eqn:EYm; [|discriminate]. cbn [rbind] in Hrun.
    destruct Hc as (Hpos & Hsvd & Hrest).
    destruct (multi_shape_skip Rops m true fs 0 X Y EY) as (HndY & HnthY & HwfY).
    set (U' := fst3 (svd_interface Rops (svd c Ym) r)) in *.
    assert (HfitY : fitp Rops Y U' m) by (apply (factor_fits_u Y Ym m r (svd c Ym)); auto; lia).
    assert (HfitX : fitp Rops X U' m).
    { apply (hooi_update_fits Rops Rops_ring X fs m Y U'); auto; try lia.
      apply factors_span_sk_weaken. exact Hfs. }
    apply (IH (S m) (S c) (set_nth m U' fs) fs'); auto.
    + apply factors_span_set_nth; auto.
    + now rewrite set_nth_length.
    + lia.
Qed.

Lemma hooi_iter_fit_u X ranks : wf X -> (length ranks <= ndim X)%nat -> forall n_iter c fs fs',
  factors_span_sk Rops None X fs 0 -> length fs = ndim X ->
  hooi_iter_contract_u X ranks n_iter c fs -> hooi_iter Rops svd X ranks n_iter c fs = Ok fs' ->
  factors_span_sk Rops None X fs' 0 /\ length fs' = ndim X.
Proof.
  intros WX Hr. induction n_iter as [|it IH]; intros c fs fs' Hfs Hlen Hc Hrun.
  - simpl in Hrun. injection Hrun as <-. auto.
  - cbn [hooi_iter] in Hrun. cbn [hooi_iter_contract_u] in Hc. destruct Hc as [Hc1 Hc2].
    destruct (hooi_modes Rops svd X ranks 0 c fs) as [fs1|] eqn:E1; [|discriminate]. cbn [rbind] in Hrun.
    destruct (hooi_modes_fit_u X WX ranks 0%nat c fs fs1 Hfs Hlen ltac:(lia) Hc1 E1) as [H1 H2].
    exact (IH _ _ _ H1 H2 Hc2 Hrun).
Qed.

(* tucker(init="svd", tol=0), any number of sweeps, ANY rank request (also beyond the mode sizes) *)
Theorem tucker_exact_gen_R X rank n_iter core fs : wf X -> (0 < prod (shape X))%nat ->
  hosvd_contract_u X (validate_tucker_rank (ndim X) rank) 0 0 ->
  match hosvd_factors Rops svd X (validate_tucker_rank (ndim X) rank) 0 0 with
  | Ok fs0 => hooi_iter_contract_u X (validate_tucker_rank (ndim X) rank) n_iter (ndim X) fs0
  | Err => True
  end ->
  tucker Rops svd X rank n_iter = Ok (core, fs) ->
  tucker_to_tensor Rops core fs = Ok X.
Proof.
  intros WX Hpos Hc0 Hc1 Hrun.
  assert (Hfs : (length fs <= ndim X)%nat /\ factors_span Rops X fs 0).
  { unfold tucker in Hrun. set (ranks := validate_tucker_rank (ndim X) rank) in *.
    destruct (Nat.eqb (length ranks) (ndim X)) eqn:El; [|discriminate].
    cbn [negb] in Hrun. apply Nat.eqb_eq in El.
    destruct (ndim X <=? 1); [discriminate|].
    destruct (hosvd_factors Rops svd X ranks 0 0) as [fs0|] eqn:E0; [|discriminate]. cbn [rbind] in Hrun.
    destruct (hooi_iter Rops svd X ranks n_iter (ndim X) fs0) as [fs1|] eqn:E1; [|discriminate]. cbn [rbind] in Hrun.
    destruct (multi_mode_dot Rops X fs1 0 None true) as [core1|]; [|discriminate]. cbn [rbind] in Hrun.
    injection Hrun as <- <-.
    assert (H0 : factors_span_sk Rops None X fs0 0).
    { apply (hosvd_factors_fit_u X WX Hpos ranks 0%nat 0%nat fs0); auto. lia. }
    assert (L0 : length fs0 = ndim X) by (rewrite (hosvd_factors_length svd _ _ _ _ _ E0); exact El).
    destruct (hooi_iter_fit_u X ranks WX ltac:(lia) n_iter (ndim X) fs0 fs1 H0 L0 Hc1 E1) as [H1 H2].
    split; [lia|]. apply (factors_span_fitp Rops X fs1 0). exact H1. }
  destruct Hfs as [Hl Hs].
  exact (tucker_exact_of_factors Rops Rops_ring svd X rank n_iter core fs WX Hrun Hl Hs).
Qed.

End Run.
