(* C09, Tucker over the reals: under the plain SVD contract for the mode unfoldings (orthonormal U,
   U diag(S) Vh = unfolding, discarded singular values zero) the HOSVD factors computed by
   initialize_tucker fit X (orthonormal columns spanning the mode fibres), hence tucker() with
   n_iter_max = 0 reconstructs X exactly; for any number of HOOI sweeps the same holds as soon as the
   returned factors fit X (SvdDecompTuckerFull.tucker_exact_of_factors). *)
From Coq Require Import List Arith Lia Bool Reals Lra RealField.
From TLV Require Import Base.Shape Base.PyList Base.Tensor Base.BigSum Base.Ops Model.Base Model.SvdDecomp
     Proofs.BaseProofs Proofs.SvdDecompProofs Proofs.SvdDecompProofsR Proofs.SvdDecompTucker Proofs.SvdDecompTuckerFull.
Import ListNotations.
Local Open Scope R_scope.

(* the left factor returned by svd_interface has orthonormal columns *)
Lemma svd_interface_orthonormal M m n r a : svd_contract M m n r a ->
  orthonormal_cols Rops (fst3 (svd_interface Rops a r)) m r.
Proof.
  intros Hc. pose proof (svd_contract_step_ok _ _ _ _ _ Hc) as Hstep.
  destruct a as [[U Sv] V]. unfold svd_contract in Hc. unfold step_ok in Hstep.
  destruct Hc as (K & HrK & HU & HV & Horth & _).
  destruct Hstep as (K' & _ & HU' & _ & _ & _ & _ & Hsq).
  unfold svd_interface, truncated_svd, svd_flip, fst3.
  assert (EU : cols_firstn Rops r U = tabulate [m; r] (fun idx => gR U idx)).
  { unfold cols_firstn, nrows, ncols. rewrite HU. cbn [nth]. now rewrite Nat.min_l by exact HrK. }
  rewrite EU in *. set (sg := flip_signs Rops (tabulate [m; r] (fun idx => gR U idx))) in *.
  assert (Lsg : length sg = r) by (unfold sg; rewrite flip_signs_length; reflexivity).
  intros j l Hj Hl.
  transitivity (sumR m (fun i => (nth j sg 1 * nth l sg 1) * (gR U [i; j] * gR U [i; l]))).
  - apply (fsumn_ext Rops). intros i Hi. unfold scale_cols. cbn [shape tabulate].
    rewrite !(g_tab2 Rops) by assumption. cbv beta. rewrite ?(g_tab2 Rops) by assumption. cbn [nth fmul Rops f1]. ring.
  - rewrite (fsumn_scale_l Rops Rops_ring). rewrite Horth by lia. cbn [fmul Rops f1 f0].
    destruct (Nat.eqb_spec j l) as [->|Hne]; [|ring].
    assert (Hs : sq1 Rops (nth l sg 1)). { rewrite Forall_forall in Hsq. apply Hsq. apply nth_In. lia. }
    unfold sq1 in Hs. cbn [fmul Rops f1] in Hs. rewrite Hs. ring.
Qed.

(* the HOSVD factor of mode m fits X *)
Lemma hosvd_factor_fits (X Xm : tensor R) (m r : nat) (a : @svdans R) :
  wf X -> (m < ndim X)%nat -> (0 < prod (shape X))%nat -> unfold 0 X m = Ok Xm ->
  svd_contract Xm (nth m (shape X) 0%nat) (prod (remove_nth m (shape X))) r a ->
  exists c, shape (fst3 (svd_interface Rops a r)) = [nth m (shape X) 0%nat; r] /\
            orthonormal_cols Rops (fst3 (svd_interface Rops a r)) (nth m (shape X) 0%nat) r /\
            mode_span Rops X (fst3 (svd_interface Rops a r)) m r c.
Proof.
  intros WX Hm Hpos Hunf Hc.
  pose proof (svd_interface_orthonormal _ _ _ _ _ Hc) as Horth.
  pose proof (svd_interface_exact Rops Rops_ring _ _ _ _ _ (svd_contract_step_ok _ _ _ _ _ Hc)) as Hex.
  destruct (svd_interface Rops a r) as [[U' S'] V']. unfold fst3 in *. unfold fact_exact in Hex.
  destruct Hex as (HU' & HV' & HS' & Hprod).
  exists (fun l ridx => nth l S' 0 * gR V' [l; ravel (remove_nth m (shape X)) ridx]).
  split; [exact HU'|]. split; [exact Horth|].
  intros idx Hidx.
  destruct (unfold_layout 0 X m Xm idx WX Hm Hpos Hunf Hidx) as [_ Hlay].
  change (gR X idx) with (get 0 X idx). rewrite <- Hlay.
  change (get 0 Xm [nth m idx 0%nat; ravel (remove_nth m (shape X)) (remove_nth m idx)])
    with (gR Xm [nth m idx 0%nat; ravel (remove_nth m (shape X)) (remove_nth m idx)]).
  rewrite <- Hprod.
  - reflexivity.
  - apply inb_nth; [exact Hidx | exact Hm].
  - apply ravel_lt. apply inb_remove. exact Hidx.
Qed.

Section Run.
Variable svd : nat -> tensor R -> @svdans R.

(* every SVD call of initialize_tucker met the contract and kept all non-zero singular values *)
Fixpoint hosvd_contract (X : tensor R) (ranks : list nat) (m c : nat) : Prop :=
  match ranks with
  | [] => True
  | r :: ranks' =>
    match unfold 0 X m with
    | Ok Xm => svd_contract Xm (nth m (shape X) 0%nat) (prod (remove_nth m (shape X))) r (svd c Xm)
    | Err => True
    end /\ hosvd_contract X ranks' (S m) (S c)
  end.

Lemma hosvd_factors_length X : forall ranks m c fs,
  hosvd_factors Rops svd X ranks m c = Ok fs -> length fs = length ranks.
Proof.
  induction ranks as [|r ranks IH]; intros m c fs H.
  - simpl in H. injection H as <-. reflexivity.
  - cbn [hosvd_factors] in H. destruct (unfold (f0 Rops) X m) as [Xm|]; [|discriminate]. cbn [rbind] in H.
    destruct (hosvd_factors Rops svd X ranks (S m) (S c)) as [fs'|] eqn:E; [|discriminate]. cbn [rbind] in H.
    injection H as <-. cbn [length]. f_equal. eapply IH. exact E.
Qed.

Lemma hosvd_factors_span X : wf X -> (0 < prod (shape X))%nat -> forall ranks m c fs,
  (m + length ranks <= ndim X)%nat -> hosvd_contract X ranks m c ->
  hosvd_factors Rops svd X ranks m c = Ok fs -> factors_span Rops X fs m.
Proof.
  intros WX Hpos. induction ranks as [|r ranks IH]; intros m c fs Hlen Hc H.
  - simpl in H. injection H as <-. exact I.
  - cbn [hosvd_factors] in H. cbn [hosvd_contract] in Hc. cbn [length] in Hlen.
    change (f0 Rops) with 0 in H.
    destruct (unfold 0 X m) as [Xm|] eqn:EX; [|discriminate]. cbn [rbind] in H.
    destruct (hosvd_factors Rops svd X ranks (S m) (S c)) as [fs'|] eqn:E; [|discriminate]. cbn [rbind] in H.
    injection H as <-. destruct Hc as [Hc1 Hc2]. cbn [factors_span]. split.
    + destruct (hosvd_factor_fits X Xm m r (svd c Xm) WX ltac:(lia) Hpos EX Hc1) as (cf & H1 & H2 & H3).
      exists r, cf. split; [exact H1|]. split; [apply orthonormal_semi; exact H2 | exact H3].
    + apply (IH (S m) (S c)); auto. lia.
Qed.

(* tucker(X, rank, n_iter_max=0, init="svd"): HOSVD is exact at sufficient rank, every order *)
Theorem hosvd_exact_R X rank core fs : wf X -> (0 < prod (shape X))%nat ->
  hosvd_contract X (validate_tucker_rank (ndim X) rank) 0 0 ->
  tucker Rops svd X rank 0 = Ok (core, fs) ->
  tucker_to_tensor Rops core fs = Ok X.
Proof.
  intros WX Hpos Hc Hrun.
  assert (Hfs : (length fs <= ndim X)%nat /\ factors_span Rops X fs 0).
  { unfold tucker in Hrun.
    destruct (Nat.eqb (length (validate_tucker_rank (ndim X) rank)) (ndim X)) eqn:El; [|discriminate].
    cbn [negb] in Hrun. apply Nat.eqb_eq in El.
    destruct (ndim X <=? 1); [discriminate|].
    destruct (hosvd_factors Rops svd X _ 0 0) as [fs0|] eqn:E0; [|discriminate]. cbn [rbind hooi_iter] in Hrun.
    destruct (multi_mode_dot Rops X fs0 0 None true) as [core1|]; [|discriminate]. cbn [rbind] in Hrun.
    injection Hrun as <- <-. split.
    - rewrite (hosvd_factors_length _ _ _ _ _ E0). lia.
    - apply (hosvd_factors_span X WX Hpos (validate_tucker_rank (ndim X) rank) 0%nat 0%nat fs0); auto. lia. }
  destruct Hfs as [Hl Hs].
  exact (tucker_exact_of_factors Rops Rops_ring svd X rank 0 core fs WX Hrun Hl Hs).
Qed.

End Run.
