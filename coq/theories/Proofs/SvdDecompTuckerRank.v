(* C09: the property's first sentence end to end for Tucker WITH HOOI sweeps: if every mode unfolding of X has rank at most the
   requested rank of that mode, then tucker(init="svd", tol=0) with ANY number of sweeps reproduces X, assuming only LAPACK's
   plain contract (sorted singular values) for every SVD answer of the run.  The per-run contract "discards only zero singular
   values" is derived for every call: the working tensor of a sweep is X multiplied along the OTHER modes, which preserves the
   span of the mode-m fibres (span_multi), hence the rank bound of the mode-m unfolding, hence (Eckart-Young) zero discarded tail. *)
From Coq Require Import List Arith Lia Bool Reals Lra RealField.
From TLV Require Import Base.Shape Base.PyList Base.Tensor Base.BigSum Base.Ops Model.Base Model.SvdDecomp
     Proofs.BaseProofs Proofs.SvdDecompProofs Proofs.SvdDecompProofsR Proofs.SvdDecompTucker Proofs.SvdDecompTuckerFull
     Proofs.SvdDecompTuckerR Proofs.SvdDecompTuckerErr Proofs.SvdDecompHooi Proofs.SvdDecompHooiR Proofs.SvdDecompHosvdBound
     Proofs.SvdDecompPartial Proofs.SvdDecompRankCond Proofs.SvdDecompEckartYoung.
Import ListNotations.
Local Open Scope R_scope.

(* a factorisation of the mode-m unfolding through r  <=>  the mode-m fibres are combinations of r columns *)
Lemma factors_to_span (X Xm : tensor R) (m r : nat) :
  wf X -> (m < ndim X)%nat -> (0 < prod (shape X))%nat -> unfold 0 X m = Ok Xm ->
  factors_through Xm (nth m (shape X) 0%nat) (prod (remove_nth m (shape X))) r ->
  exists A c, mode_span Rops X A m r c.
Proof.
  intros WX Hm Hpos Hunf (P & Q & HPQ).
  exists (tabulate [nth m (shape X) 0%nat; r] (fun idx => P (nth 0 idx 0%nat) (nth 1 idx 0%nat))),
         (fun b ridx => Q b (ravel (remove_nth m (shape X)) ridx)).
  intros idx Hidx.
  destruct (unfold_layout 0 X m Xm idx WX Hm Hpos Hunf Hidx) as [_ Hlay].
  assert (Hi : (nth m idx 0 < nth m (shape X) 0)%nat) by (apply inb_nth; [exact Hidx | exact Hm]).
  assert (Hc : (ravel (remove_nth m (shape X)) (remove_nth m idx) < prod (remove_nth m (shape X)))%nat)
    by (apply ravel_lt; apply inb_remove; exact Hidx).
  change (gR X idx) with (get 0 X idx). rewrite <- Hlay.
  change (get 0 Xm [nth m idx 0%nat; ravel (remove_nth m (shape X)) (remove_nth m idx)]) with
         (gR Xm [nth m idx 0%nat; ravel (remove_nth m (shape X)) (remove_nth m idx)]).
  rewrite (HPQ _ _ Hi Hc). apply (fsumn_ext Rops). intros b Hb. cbn [fmul Rops].
  rewrite (g_tab2 Rops) by assumption. reflexivity.
Qed.

Lemma span_factors (Y Ym A : tensor R) (m r : nat) c :
  wf Y -> (m < ndim Y)%nat -> (0 < prod (shape Y))%nat -> unfold 0 Y m = Ok Ym ->
  mode_span Rops Y A m r c ->
  factors_through Ym (nth m (shape Y) 0%nat) (prod (remove_nth m (shape Y))) r.
Proof.
  intros WY Hm Hpos Hunf Hspan.
  set (s' := remove_nth m (shape Y)). set (nk := nth m (shape Y) 0%nat).
  exists (fun i b => gR A [i; b]), (fun b col => c b (unravel s' col)).
  intros i col Hi Hcol.
  set (ridx := unravel s' col).
  assert (Hridx : inb s' ridx) by (apply unravel_inb; exact Hcol).
  assert (Hlen : length ridx = length s') by (apply inb_length; exact Hridx).
  assert (Hls : (m <= length s')%nat).
  { unfold s'. unfold ndim in Hm. rewrite remove_nth_length by exact Hm. lia. }
  set (idx := insert_at m i ridx).
  assert (Hidx : inb (shape Y) idx).
  { replace (shape Y) with (insert_at m nk s').
    - apply inb_insert; assumption.
    - unfold s', nk. rewrite insert_at_remove_shape by exact Hm. apply set_nth_id. exact Hm. }
  destruct (unfold_layout 0 Y m Ym idx WY Hm Hpos Hunf Hidx) as [_ Hlay].
  assert (E1 : nth m idx 0%nat = i) by (unfold idx; apply nth_insert_same; lia).
  assert (E2 : remove_nth m idx = ridx) by (unfold idx; apply remove_insert; lia).
  rewrite E1, E2 in Hlay. fold s' in Hlay. unfold ridx in Hlay at 1. rewrite ravel_unravel in Hlay by exact Hcol.
  change (gR Ym [i; col]) with (get 0 Ym [i; col]). rewrite Hlay.
  change (get 0 Y idx) with (gR Y idx). rewrite (Hspan idx Hidx). rewrite E1, E2. reflexivity.
Qed.

Section Run.
Variable svd : nat -> tensor R -> @svdans R.

(* the rank condition of the property for Tucker: the mode-m unfolding of X has rank at most ranks[m] (modes m, m+1, ...) *)
Fixpoint tucker_rank_condition (X : tensor R) (ranks : list nat) (m : nat) : Prop :=
  match ranks with
  | [] => True
  | r :: ranks' =>
    match unfold 0 X m with
    | Ok Xm => factors_through Xm (nth m (shape X) 0%nat) (prod (remove_nth m (shape X))) r
    | Err => True
    end /\ tucker_rank_condition X ranks' (S m)
  end.

(* LAPACK's contract for the SVD calls of one sweep / of all sweeps (nothing about what is discarded); the working tensors are
   required to be non-empty (positive requested ranks) *)
Fixpoint hooi_modes_sorted (X : tensor R) (ranks : list nat) (m c : nat) (fs : list (tensor R)) : Prop :=
  match ranks with
  | [] => True
  | r :: ranks' =>
    match multi_mode_dot Rops X fs 0 (Some m) true with
    | Ok Y =>
      match unfold 0 Y m with
      | Ok Ym =>
        (0 < prod (shape Y))%nat /\
        svd_sorted_contract Ym (nth m (shape Y) 0%nat) (prod (remove_nth m (shape Y))) r (svd c Ym) /\
        hooi_modes_sorted X ranks' (S m) (S c) (set_nth m (fst3 (svd_interface Rops (svd c Ym) r)) fs)
      | Err => True
      end
    | Err => True
    end
  end.

Fixpoint hooi_iter_sorted (X : tensor R) (ranks : list nat) (n_iter c : nat) (fs : list (tensor R)) : Prop :=
  match n_iter with
  | O => True
  | S it =>
    hooi_modes_sorted X ranks 0 c fs /\
    match hooi_modes Rops svd X ranks 0 c fs with
    | Ok fs' => hooi_iter_sorted X ranks it (c + length ranks) fs'
    | Err => True
    end
  end.

Lemma hooi_modes_contract_from_rank X : wf X -> (0 < prod (shape X))%nat -> forall ranks m c fs,
  (m + length ranks <= ndim X)%nat ->
  tucker_rank_condition X ranks m -> hooi_modes_sorted X ranks m c fs -> hooi_modes_contract svd X ranks m c fs.
Proof.
  intros WX Hpos. induction ranks as [|r ranks IH]; intros m c fs Hlen Hrc Hs; [exact I|].
  cbn [tucker_rank_condition hooi_modes_sorted hooi_modes_contract length] in *.
  destruct Hrc as [Hrc1 Hrc2].
  assert (Hm : (m < ndim X)%nat) by lia.
  destruct (multi_mode_dot Rops X fs 0 (Some m) true) as [Y|] eqn:EY; [|exact I].
  destruct (unfold 0 Y m) as [Ym|] eqn:EYm; [|exact I].
  destruct Hs as (HposY & Hsorted & Hrest).
  destruct (multi_shape_skip Rops m true fs 0 X Y EY) as (HndY & HnthY & HwfY).
  split; [exact HposY|]. split.
  - apply (low_rank_svd_contract eckart_young_holds); [exact Hsorted|].
    destruct (unfold 0 X m) as [Xm|] eqn:EXm.
    + destruct (factors_to_span X Xm m r WX Hm Hpos EXm Hrc1) as (A & cf & Hspan).
      destruct (span_multi Rops Rops_ring A m r true fs 0 X Y EY Hm (ex_intro _ cf Hspan)) as (cf' & Hspan').
      apply (span_factors Y Ym A m r cf' (HwfY WX)); try assumption. lia.
    + exfalso. unfold unfold in EXm. apply Nat.ltb_lt in Hm. rewrite Hm in EXm.
      unfold unfold in EYm. assert (Hm' : (m <? ndim Y)%nat = true) by (apply Nat.ltb_lt; apply Nat.ltb_lt in Hm; lia).
      clear -EXm WX Hpos Hm. apply Nat.ltb_lt in Hm.
      pose proof (unfold_eq 0 X m WX Hm Hpos) as E. unfold unfold in E. apply Nat.ltb_lt in Hm. rewrite Hm in E. congruence.
  - apply IH; [lia | exact Hrc2 | exact Hrest].
Qed.

Lemma hooi_iter_contract_from_rank X ranks : wf X -> (0 < prod (shape X))%nat -> (length ranks <= ndim X)%nat ->
  tucker_rank_condition X ranks 0 -> forall n_iter c fs,
  hooi_iter_sorted X ranks n_iter c fs -> hooi_iter_contract svd X ranks n_iter c fs.
Proof.
  intros WX Hpos Hlen Hrc. induction n_iter as [|it IH]; intros c fs Hs; [exact I|].
  cbn [hooi_iter_sorted hooi_iter_contract] in *. destruct Hs as [H1 H2]. split.
  - apply hooi_modes_contract_from_rank; try assumption; try lia.
  - destruct (hooi_modes Rops svd X ranks 0 c fs); [now apply IH | exact I].
Qed.

Lemma hosvd_rank_condition_tucker X : forall ranks m c, hosvd_rank_condition svd X ranks m c -> tucker_rank_condition X ranks m.
Proof.
  induction ranks as [|r ranks IH]; intros m c H; [exact I|].
  cbn [hosvd_rank_condition tucker_rank_condition] in *. destruct H as [H1 H2]. split; [|exact (IH _ _ H2)].
  destruct (unfold 0 X m); [exact (proj2 H1) | exact I].
Qed.

(* tucker(init="svd", tol=0), ANY number of HOOI sweeps: exact whenever the requested ranks are at least the ranks of the mode
   unfoldings of X; only LAPACK's plain contract (sorted singular values) is assumed for the SVD answers *)
Theorem tucker_exact_from_rank_condition X rank n_iter core fs : wf X -> (0 < prod (shape X))%nat ->
  hosvd_rank_condition svd X (validate_tucker_rank (ndim X) rank) 0 0 ->
  match hosvd_factors Rops svd X (validate_tucker_rank (ndim X) rank) 0 0 with
  | Ok fs0 => hooi_iter_sorted X (validate_tucker_rank (ndim X) rank) n_iter (ndim X) fs0
  | Err => True
  end ->
  tucker Rops svd X rank n_iter = Ok (core, fs) ->
  tucker_to_tensor Rops core fs = Ok X.
Proof.
  intros WX Hpos H0 H1 Hrun.
  assert (Hlen : length (validate_tucker_rank (ndim X) rank) = ndim X).
  { unfold tucker in Hrun. destruct (Nat.eqb_spec (length (validate_tucker_rank (ndim X) rank)) (ndim X)); [assumption | discriminate]. }
  apply (tucker_exact_R svd X rank n_iter core fs WX Hpos); [| |exact Hrun].
  - exact (hosvd_rank_condition_contract eckart_young_holds svd X _ _ _ H0).
  - destruct (hosvd_factors Rops svd X (validate_tucker_rank (ndim X) rank) 0 0) as [fs0|]; [|exact I].
    apply hooi_iter_contract_from_rank; try assumption; [lia|].
    exact (hosvd_rank_condition_tucker X _ _ _ H0).
Qed.
End Run.

(* non-vacuity (the hypotheses about the initialisation; for n_iter = 0 the sweep hypothesis is trivially true -- the model cannot
   be executed over R, so the working tensors of a sweep are not available in closed form): X = diag(2, 0), ranks (1, 1) *)
From TLV Require Import Proofs.SvdDecompTTUpper.
Example tucker_rank_condition_satisfiable :
  let svd := fun (_ : nat) (_ : tensor R) => rk1_a in
  wf rk1_M /\ (0 < prod (shape rk1_M))%nat /\
  hosvd_rank_condition svd rk1_M (validate_tucker_rank (ndim rk1_M) (inr [1; 1]%nat)) 0 0.
Proof.
  cbv zeta. split; [reflexivity|]. split; [cbn; lia|].
  cbn [validate_tucker_rank hosvd_rank_condition].
  assert (E0 : unfold 0 rk1_M 0 = Ok rk1_M) by (vm_compute; reflexivity).
  assert (E1 : unfold 0 rk1_M 1 = Ok rk1_M) by (vm_compute; reflexivity).
  rewrite E0, E1.
  assert (Hf : factors_through rk1_M 2 2 1).
  { exists (fun i _ => if Nat.eqb i 0 then 2 else 0), (fun _ c => if Nat.eqb c 0 then 1 else 0).
    intros i c Hi Hc. assert (Ei : i = 0%nat \/ i = 1%nat) by lia. assert (Ec : c = 0%nat \/ c = 1%nat) by lia.
    destruct Ei as [-> | ->]; destruct Ec as [-> | ->]; unfold fsumn, g, get, rk1_M; cbn; lra. }
  split; [split; [exact rk1_contract | exact Hf]|]. split; [split; [exact rk1_contract | exact Hf] | exact I].
Qed.
