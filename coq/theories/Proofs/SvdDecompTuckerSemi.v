(* C09, Tucker: exactness when the initialisation's factors have columns that are orthonormal OR ZERO -- what svd="symeig_svd"
   returns for a WIDE mode unfolding (dim_1 <= dim_2: U = (M V) / S, whose null-space columns are exact zeros).
   svd_contract_su weakens the U-side contract svd_contract_u of Proofs/SvdDecompTuckerGen.v accordingly; the Tucker machinery
   (fitp / factors_span of SvdDecompHooi.v / SvdDecompTuckerFull.v) now only asks for semi_orthonormal_cols, because U U^T is
   still the orthogonal projector on the span of the non-zero columns (mode_projector_exact_semi). *)
From Coq Require Import List Arith Lia Bool Reals Lra RealField.
From TLV Require Import Base.Shape Base.PyList Base.Tensor Base.BigSum Base.Ops Model.Base Model.SvdDecomp
     Proofs.BaseProofs Proofs.SvdDecompProofs Proofs.SvdDecompProofsR Proofs.SvdDecompTucker Proofs.SvdDecompTuckerFull
     Proofs.SvdDecompTuckerR Proofs.SvdDecompHooi Proofs.SvdDecompHooiR Proofs.SvdDecompTuckerGen.
Import ListNotations.
Local Open Scope R_scope.

Definition svd_contract_su (M : tensor R) (m n r : nat) (a : @svdans R) : Prop :=
  let '(U, Sv, V) := a in
  exists (KU KS : nat) (w : nat -> nat -> R) (z : nat -> bool),
    shape U = [m; KU] /\ (KS <= KU)%nat /\
    (forall l i, (l < KU)%nat -> z l = true -> (i < m)%nat -> gR U [i; l] = 0) /\
    (forall j l, (j < KU)%nat -> (l < KU)%nat -> z j = false -> z l = false ->
       sumR m (fun i => gR U [i; j] * gR U [i; l]) = if Nat.eqb j l then 1 else 0) /\
    (forall i c, (i < m)%nat -> (c < n)%nat -> sumR KS (fun l => gR U [i; l] * w l c) = gR M [i; c]) /\
    (forall l c, (Nat.min r KU <= l)%nat -> (l < KS)%nat -> (c < n)%nat -> w l c = 0).

Lemma svd_contract_u_su M m n r a : svd_contract_u M m n r a -> svd_contract_su M m n r a.
Proof.
  destruct a as [[U Sv] V]. unfold svd_contract_u, svd_contract_su.
  intros (KU & KS & w & HU & HKS & Horth & Hprod & Htail).
  exists KU, KS, w, (fun _ => false). split; [exact HU|]. split; [exact HKS|]. split; [intros; discriminate|].
  split; [intros; now apply Horth|]. split; assumption.
Qed.

Lemma nth_map_seq {A} (f : nat -> A) (n j : nat) (d : A) : (j < n)%nat -> nth j (map f (seq 0 n)) d = f j.
Proof.
  intros Hj. rewrite (nth_indep _ d (f 0%nat)) by (rewrite map_length, seq_length; exact Hj).
  rewrite map_nth. rewrite seq_nth by exact Hj. reflexivity.
Qed.

(* the sign multiplier of svd_flip for a column that contains a non-zero entry is +-1 *)
Lemma flip_sign_col_sq1 (U : tensor R) (m r j : nat) : (j < r)%nat ->
  (exists i, (i < m)%nat /\ gR U [i; j] <> 0) ->
  let sg := flip_signs Rops (tabulate [m; r] (fun idx => gR U idx)) in nth j sg 1 * nth j sg 1 = 1.
Proof.
  intros Hj (i & Hi & Hne). cbv zeta. unfold flip_signs. unfold ncols. cbn [shape tabulate nth].
  rewrite !(nth_map_seq _ r j 1 Hj). cbv zeta.
  apply fsign_sq.
  set (c := column Rops (tabulate [m; r] (fun idx => gR U idx)) j).
  intros Hz. apply Hne. apply ab_zero. rewrite <- ab_0. cbn [f0 Rops] in Hz. rewrite <- Hz.
  apply argmax_abs_max. unfold c, column, nrows. cbn [shape tabulate nth].
  apply in_map_iff. exists i. split; [| apply in_seq; lia].
  apply (g_tab2 Rops). exact Hi. exact Hj.
Qed.

(* a call meeting the weakened contract gives a factor that fits the mode (columns orthonormal or zero, fibres spanned) *)
Lemma factor_fits_su (X Xk : tensor R) (k r : nat) (a : @svdans R) :
  wf X -> (k < ndim X)%nat -> (0 < prod (shape X))%nat -> unfold 0 X k = Ok Xk ->
  svd_contract_su Xk (nth k (shape X) 0%nat) (prod (remove_nth k (shape X))) r a ->
  fitp Rops X (fst3 (svd_interface Rops a r)) k.
Proof.
  intros WX Hk Hpos Hunf Hc. destruct a as [[U Sv] V]. unfold svd_contract_su in Hc.
  destruct Hc as (KU & KS & w & z & HU & HKS & Hzero & Horth & Hprod & Htail).
  set (m := nth k (shape X) 0%nat) in *. set (n := prod (remove_nth k (shape X))) in *.
  set (r' := Nat.min r KU).
  unfold svd_interface, truncated_svd, svd_flip, fst3.
  assert (EU : cols_firstn Rops r U = tabulate [m; r'] (fun idx => gR U idx)).
  { unfold cols_firstn, nrows, ncols. rewrite HU. reflexivity. }
  rewrite EU. set (sg := flip_signs Rops (tabulate [m; r'] (fun idx => gR U idx))).
  assert (Hsg : forall b, (b < r')%nat -> z b = false -> nth b sg 1 * nth b sg 1 = 1).
  { intros b Hb Hzb. apply (flip_sign_col_sq1 U m r' b Hb).
    destruct (sumR_nonzero_exists m (fun i => gR U [i; b] * gR U [i; b])) as (i & Hi & Hne).
    - rewrite Horth by (first [assumption | unfold r' in Hb; lia]). rewrite Nat.eqb_refl. lra.
    - exists i. split; [exact Hi|]. intros E. apply Hne. rewrite E. lra. }
  set (U' := scale_cols Rops (tabulate [m; r'] (fun idx => gR U idx)) sg).
  assert (HU' : forall i b, (i < m)%nat -> (b < r')%nat -> gR U' [i; b] = gR U [i; b] * nth b sg 1).
  { intros i b Hi Hb. unfold U', scale_cols. cbn [shape tabulate]. rewrite (g_tab2 Rops) by assumption. cbv beta.
    rewrite (g_tab2 Rops) by assumption. reflexivity. }
  set (w' := fun l c => if (l <? KS)%nat then w l c else 0).
  exists r', (fun l ridx => nth l sg 1 * w' l (ravel (remove_nth k (shape X)) ridx)).
  split; [reflexivity|]. split.
  - exists z. split.
    + intros l i Hl Hzl Hi. rewrite HU' by assumption. rewrite (Hzero l i) by (first [assumption | unfold r' in Hl; lia]). cbn [f0 Rops]. ring.
    + intros j l Hj Hl Hzj Hzl.
      transitivity (sumR m (fun i => (nth j sg 1 * nth l sg 1) * (gR U [i; j] * gR U [i; l]))).
      * apply (fsumn_ext Rops). intros i Hi. rewrite !HU' by assumption. cbn [fmul Rops]. ring.
      * rewrite (fsumn_scale_l Rops Rops_ring). rewrite Horth by (first [assumption | unfold r' in *; lia]). cbn [fmul Rops f1 f0].
        destruct (Nat.eqb_spec j l) as [->|Hne]; [rewrite Hsg by assumption|]; ring.
  - intros idx Hidx.
    destruct (unfold_layout 0 X k Xk idx WX Hk Hpos Hunf Hidx) as [_ Hlay].
    set (i := nth k idx 0%nat) in *. set (c := ravel (remove_nth k (shape X)) (remove_nth k idx)) in *.
    assert (Hi : (i < m)%nat) by (apply inb_nth; [exact Hidx | exact Hk]).
    assert (Hcn : (c < n)%nat) by (apply ravel_lt; apply inb_remove; exact Hidx).
    change (gR X idx) with (get 0 X idx). rewrite <- Hlay. change (get 0 Xk [i; c]) with (gR Xk [i; c]).
    rewrite <- (Hprod i c Hi Hcn).
    transitivity (sumR KU (fun l => gR U [i; l] * w' l c)).
    + symmetry. rewrite (fsumn_tail_zero Rops Rops_ring KU KS) by
        (first [exact HKS | intros l H1 H2; unfold w'; destruct (Nat.ltb_spec l KS); [lia | cbn; ring]]).
      apply (fsumn_ext Rops). intros l Hl. unfold w'. destruct (Nat.ltb_spec l KS); [reflexivity | lia].
    + rewrite (fsumn_tail_zero Rops Rops_ring KU r').
      * apply (fsumn_ext Rops). intros l Hl. rewrite HU' by assumption. cbn [fmul Rops].
        destruct (z l) eqn:Ezl.
        -- rewrite (Hzero l i) by (first [assumption | unfold r' in Hl; lia]). ring.
        -- transitivity (gR U [i; l] * w' l c * (nth l sg 1 * nth l sg 1)); [rewrite Hsg by assumption; ring | ring].
      * unfold r'. lia.
      * intros l H1 H2. unfold w'. destruct (Nat.ltb_spec l KS); [|cbn; ring].
        rewrite (Htail l c) by (auto; unfold r' in H1; exact H1). cbn. ring.
Qed.

Section Run.
Variable svd : nat -> tensor R -> @svdans R.

(* every SVD call of initialize_tucker meets the weakened contract *)
Fixpoint hosvd_contract_su (X : tensor R) (ranks : list nat) (m c : nat) : Prop :=
  match ranks with
  | [] => True
  | r :: ranks' =>
    match unfold 0 X m with
    | Ok Xm => svd_contract_su Xm (nth m (shape X) 0%nat) (prod (remove_nth m (shape X))) r (svd c Xm)
    | Err => True
    end /\ hosvd_contract_su X ranks' (S m) (S c)
  end.

Lemma hosvd_factors_fit_su X : wf X -> (0 < prod (shape X))%nat -> forall ranks m c fs,
  (m + length ranks <= ndim X)%nat -> hosvd_contract_su X ranks m c ->
  hosvd_factors Rops svd X ranks m c = Ok fs -> factors_span_sk Rops None X fs m.
Proof.
  intros WX Hpos. induction ranks as [|r ranks IH]; intros m c fs Hlen Hc H.
  - simpl in H. injection H as <-. exact I.
  - cbn [hosvd_factors] in H. cbn [hosvd_contract_su] in Hc. cbn [length] in Hlen.
    change (f0 Rops) with 0 in H.
    destruct (unfold 0 X m) as [Xm|] eqn:EX; [|discriminate]. cbn [rbind] in H.
    destruct (hosvd_factors Rops svd X ranks (S m) (S c)) as [fs'|] eqn:E; [|discriminate]. cbn [rbind] in H.
    injection H as <-. destruct Hc as [Hc1 Hc2]. cbn [factors_span_sk skipb]. split.
    + apply (factor_fits_su X Xm m r (svd c Xm)); auto. lia.
    + apply (IH (S m) (S c)); auto. lia.
Qed.

(* tucker(init="svd", tol=0), any number of sweeps, any rank request: the initialisation's calls under the WEAKENED contract
   (zero columns allowed), the calls of the HOOI sweeps (always LAPACK's truncated SVD in the code) under svd_contract_u *)
Theorem tucker_exact_semi_R X rank n_iter core fs : wf X -> (0 < prod (shape X))%nat ->
  hosvd_contract_su X (validate_tucker_rank (ndim X) rank) 0 0 ->
  match hosvd_factors Rops svd X (validate_tucker_rank (ndim X) rank) 0 0 with
  | Ok fs0 => hooi_iter_contract_u svd X (validate_tucker_rank (ndim X) rank) n_iter (ndim X) fs0
  | Err => True
  end ->
  tucker Rops svd X rank n_iter = Ok (core, fs) ->
  tucker_to_tensor Rops core fs = Ok X.
Proof.
  intros WX Hpos Hc0 Hc1 Hrun.
  assert (Hfs : (length fs <= ndim X)%nat /\ factors_span Rops X fs 0).
  { unfold tucker in Hrun. set (ranks := validate_tucker_rank (ndim X) rank) in *.
    destruct (Nat.eqb (length ranks) (ndim X)) eqn:El; [|discriminate].
    cbn [negb] in Hrun. apply Nat.eqb_eq in El.
    destruct (ndim X <=? 1); [discriminate|].
    destruct (hosvd_factors Rops svd X ranks 0 0) as [fs0|] eqn:E0; [|discriminate]. cbn [rbind] in Hrun.
    destruct (hooi_iter Rops svd X ranks n_iter (ndim X) fs0) as [fs1|] eqn:E1; [|discriminate]. cbn [rbind] in Hrun.
    destruct (multi_mode_dot Rops X fs1 0 None true) as [core1|]; [|discriminate]. cbn [rbind] in Hrun.
    injection Hrun as <- <-.
    assert (H0 : factors_span_sk Rops None X fs0 0).
    { apply (hosvd_factors_fit_su X WX Hpos ranks 0%nat 0%nat fs0); auto. lia. }
    assert (L0 : length fs0 = ndim X) by (rewrite (hosvd_factors_length svd _ _ _ _ _ E0); exact El).
    destruct (hooi_iter_fit_u svd X ranks WX ltac:(lia) n_iter (ndim X) fs0 fs1 H0 L0 Hc1 E1) as [H1 H2].
    split; [lia|]. apply (factors_span_fitp Rops X fs1 0). exact H1. }
  destruct Hfs as [Hl Hs].
  exact (tucker_exact_of_factors Rops Rops_ring svd X rank n_iter core fs WX Hrun Hl Hs).
Qed.
End Run.
