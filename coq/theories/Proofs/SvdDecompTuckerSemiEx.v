(* C09: non-vacuity of the Tucker round trip for factors with a ZERO column (not orthonormal): X = diag(3, 0), U = diag(1, 0) *)
From Coq Require Import List Arith ZArith Lia Bool Ring.
From TLV Require Import Base.Shape Base.PyList Base.Tensor Base.Ops Model.Base Model.SvdDecomp
     Proofs.SvdDecompProofs Proofs.SvdDecompTucker Proofs.SvdDecompTuckerFull.
Import ListNotations.

Definition semiX : tensor Z := mk [2; 2] [3; 0; 0; 0]%Z.
Definition semiU : tensor Z := mk [2; 2] [1; 0; 0; 0]%Z.

Example semi_roundtrip_instance :
  wf semiX /\ factors_span Zops semiX [semiU; semiU] 0 /\ ~ orthonormal_cols Zops semiU 2 2 /\
  multi_mode_dot Zops semiX [semiU; semiU] 0 None true = Ok (mk [2; 2] [3; 0; 0; 0]%Z) /\
  tucker_to_tensor Zops (mk [2; 2] [3; 0; 0; 0]%Z) [semiU; semiU] = Ok semiX.
Proof.
  assert (C2 : forall x, x < 2 -> x = 0 \/ x = 1) by (intros; lia).
  assert (Hsemi : semi_orthonormal_cols Zops semiU 2 2).
  { exists (fun l => Nat.eqb l 1). split.
    - intros l i Hl Hz Hi. apply Nat.eqb_eq in Hz. subst l. destruct (C2 i Hi) as [-> | ->]; vm_compute; reflexivity.
    - intros j l Hj Hl Hzj Hzl. apply Nat.eqb_neq in Hzj. apply Nat.eqb_neq in Hzl.
      assert (j = 0) by lia. assert (l = 0) by lia. subst. vm_compute. reflexivity. }
  split; [reflexivity|]. split; [|split; [|split; vm_compute; reflexivity]].
  - cbn [factors_span]. split; [|split; [|exact I]].
    + exists 2, (fun l ridx => if Nat.eqb l 0 && Nat.eqb (nth 0 ridx 0) 0 then 3%Z else 0%Z).
      split; [reflexivity|]. split; [exact Hsemi|].
      intros idx Hidx. destruct idx as [|i [|j [|? ?]]]; simpl in Hidx; try tauto.
      destruct Hidx as (Hi & Hj & _).
      destruct (C2 i Hi) as [-> | ->]; destruct (C2 j Hj) as [-> | ->]; vm_compute; reflexivity.
    + exists 2, (fun l ridx => if Nat.eqb l 0 && Nat.eqb (nth 0 ridx 0) 0 then 3%Z else 0%Z).
      split; [reflexivity|]. split; [exact Hsemi|].
      intros idx Hidx. destruct idx as [|i [|j [|? ?]]]; simpl in Hidx; try tauto.
      destruct Hidx as (Hi & Hj & _).
      destruct (C2 i Hi) as [-> | ->]; destruct (C2 j Hj) as [-> | ->]; vm_compute; reflexivity.
  - intros H. specialize (H 1 1 ltac:(lia) ltac:(lia)). vm_compute in H. discriminate.
Qed.
