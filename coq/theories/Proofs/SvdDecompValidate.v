(* C09, validate_tt_rank(..., allow_overparametrization=False) (tt_tensor.py): documented to return the rank
   "realizable through iterative application of SVD (used in tensorly.decomposition.tensor_train)".
   The code clips bond i+1 with n_row = rank[i] * shape[i] using the REQUESTED rank[i], whereas TT-SVD multiplies
   the bond it actually obtained on the left.  Model of the code as it is, the ranks TT-SVD realises (a function
   of the sizes and the request only), the refutation, what does hold, and the repaired rule. *)
From Coq Require Import List Arith Lia Bool.
From TLV Require Import Base.Shape Base.PyList Base.Tensor Base.BigSum Base.Ops Model.Base Model.SvdDecomp.
Import ListNotations.

(* the code is NOT the realised rank: shape (2,2,7), request (1,3,7,1): the code answers bond 2 = min(3*2, 7, 7) = 6,
   TT-SVD can only reach min(2*2, 7, 7) = 4 there *)
Lemma validate_tt_rank_strict_refuted :
  exists shape rank, length rank = length shape + 1 /\ hd 0 rank = 1 /\ last rank 0 = 1 /\
    validate_tt_rank_strict_code shape rank <> realised_tt_rank shape rank.
Proof. exists [2; 2; 7], [1; 3; 7; 1]. repeat split. vm_compute. discriminate. Qed.

(* what does hold: a request the code returns unchanged is realised exactly *)
Lemma strict_body_code_cons s s2 rest2 rl ranks :
  strict_body_code (s :: s2 :: rest2) rl ranks =
  Nat.min (rl * s) (Nat.min (prod (s2 :: rest2)) (hd 1 ranks)) :: strict_body_code (s2 :: rest2) (hd 1 ranks) (tl ranks).
Proof. reflexivity. Qed.
Lemma realised_body_cons s s2 rest2 rk ranks :
  realised_body (s :: s2 :: rest2) rk ranks =
  Nat.min (rk * s) (Nat.min (prod (s2 :: rest2)) (hd 1 ranks)) ::
  realised_body (s2 :: rest2) (Nat.min (rk * s) (Nat.min (prod (s2 :: rest2)) (hd 1 ranks))) (tl ranks).
Proof. reflexivity. Qed.

Lemma strict_body_fixpoint : forall sizes rl ranks,
  strict_body_code sizes rl ranks = firstn (length sizes - 1) ranks -> length sizes - 1 <= length ranks ->
  realised_body sizes rl ranks = firstn (length sizes - 1) ranks.
Proof.
  induction sizes as [|s rest IH]; intros rl ranks H Hl; [reflexivity|].
  destruct rest as [|s2 rest2]; [reflexivity|].
  rewrite strict_body_code_cons in H. rewrite realised_body_cons.
  set (rest := s2 :: rest2) in *.
  destruct ranks as [|r ranks]; [cbn [length] in Hl; unfold rest in Hl; cbn [length] in Hl; lia|].
  cbn [hd tl] in *. replace (length (s :: rest) - 1) with (S (length rest - 1)) in * by (unfold rest; cbn [length]; lia).
  cbn [firstn] in *. injection H as H1 H2.
  assert (E : Nat.min (rl * s) (Nat.min (prod rest) r) = r) by exact H1.
  rewrite E. f_equal.
  apply IH; [exact H2 | cbn [length] in Hl; lia].
Qed.

Theorem validate_tt_rank_strict_partial shape rank : length rank = length shape + 1 -> hd 0 rank = 1 -> last rank 0 = 1 ->
  shape <> [] ->
  validate_tt_rank_strict_code shape rank = rank -> realised_tt_rank shape rank = rank.
Proof.
  intros Hl Hh Hla Hne H. unfold validate_tt_rank_strict_code, realised_tt_rank in *.
  destruct rank as [|r0 ranks]; [simpl in Hl; lia|]. cbn [hd tl] in *. subst r0.
  injection H as H. f_equal.
  assert (Hlr : length ranks = length shape) by (simpl in Hl; lia).
  assert (Hsplit : ranks = firstn (length shape - 1) ranks ++ [1]).
  { assert (Hn : ranks <> []) by (destruct ranks; [destruct shape; [contradiction|discriminate]|discriminate]).
    rewrite <- (firstn_skipn (length shape - 1) ranks) at 1. f_equal.
    assert (Hls : length (skipn (length shape - 1) ranks) = 1) by (rewrite skipn_length; destruct shape; [contradiction|simpl in *; lia]).
    destruct (skipn (length shape - 1) ranks) as [|x [|? ?]] eqn:Es; try discriminate.
    f_equal. assert (last (1 :: ranks) 0 = last ranks 0) by (destruct ranks; [contradiction|reflexivity]).
    rewrite H0 in Hla. rewrite <- (firstn_skipn (length shape - 1) ranks), Es in Hla.
    rewrite last_last in Hla. exact Hla. }
  assert (Hbody : strict_body_code shape 1 ranks = firstn (length shape - 1) ranks).
  { rewrite Hsplit in H at 2. apply app_inv_tail in H. exact H. }
  rewrite (strict_body_fixpoint shape 1 ranks Hbody) by lia. symmetry. exact Hsplit.
Qed.

Section Loop.
Context {F : Type} (Op : fops F).
Variable svd : nat -> tensor F -> @svdans F.

(* right bonds of all computed cores but the last *)
Fixpoint right_bonds (cores : list (tensor F)) : list nat :=
  match cores with
  | [] => []
  | G :: cs => match cs with [] => [] | _ :: _ => nth 2 (shape G) 0 :: right_bonds cs end
  end.

(* the sequential loop of tensor_train realises exactly realised_body, whatever the oracle answers *)
Theorem chain_loop_realised : forall sizes k ranks rk W cores,
  chain_loop Op svd k sizes ranks rk 1 W = Ok cores -> right_bonds cores = realised_body sizes rk ranks.
Proof.
  induction sizes as [|n rest IH]; intros k ranks rk W cores H; [discriminate|].
  destruct rest as [|n2 rest2].
  - simpl in H. injection H as <-. reflexivity.
  - set (rest := n2 :: rest2) in *. cbn [chain_loop] in H. fold rest in H. cbv zeta in H.
    destruct (fact_shapes_ok _ _ _ _); [|discriminate].
    destruct (svd_interface Op _ _) as [[U Sv] V].
    destruct (chain_loop Op svd (S k) rest (tl ranks) _ 1 _) as [cs|] eqn:E; [|discriminate].
    cbn [rbind] in H. injection H as <-.
    assert (Hne : cs <> []).
    { intros ->. unfold rest in E. cbn [chain_loop] in E. destruct rest2; [discriminate|].
      cbv zeta in E. destruct (fact_shapes_ok _ _ _ _); [|discriminate].
      destruct (svd_interface Op _ _) as [[? ?] ?]. destruct (chain_loop Op svd _ _ _ _ _ _); discriminate. }
    pose proof (IH _ _ _ _ _ E) as Hcs.
    destruct cs as [|G2 cs2]; [contradiction|].
    unfold rest at 1. rewrite realised_body_cons. fold rest. cbn [right_bonds shape reshape nth] in *.
    rewrite Nat.mul_1_r in *. f_equal. exact Hcs.
Qed.

Theorem tensor_train_realised_rank X rank cores :
  tensor_train Op svd X rank = Ok cores ->
  match validate_tt_rank (ndim X) rank with
  | Ok rk => 1 :: right_bonds cores ++ [1] = realised_tt_rank (shape X) rk
  | Err => False
  end.
Proof.
  unfold tensor_train, realised_tt_rank. destruct (validate_tt_rank (ndim X) rank) as [rk|]; [|discriminate].
  cbn [rbind]. intros H. now rewrite (chain_loop_realised _ _ _ _ _ _ H).
Qed.

End Loop.
