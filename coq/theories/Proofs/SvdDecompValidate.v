(* C09, validate_tt_rank(..., allow_overparametrization=False) (tt_tensor.py): documented to return the rank
   "realizable through iterative application of SVD (used in tensorly.decomposition.tensor_train)".
   The code clips bond i+1 with n_row = rank[i] * shape[i] using the REQUESTED rank[i], whereas TT-SVD multiplies
   the bond it actually obtained on the left.  Model of the code as it is, the ranks TT-SVD realises (a function
   of the sizes and the request only), the refutation, what does hold, and the repaired rule. *)
From Coq Require Import List Arith Lia Bool.
From TLV Require Import Base.Shape Base.PyList Base.Tensor Base.BigSum Base.Ops Model.Base Model.SvdDecomp.
Import ListNotations.

Lemma realised_body_cons s s2 rest2 rk ranks :
  realised_body (s :: s2 :: rest2) rk ranks =
  Nat.min (rk * s) (Nat.min (prod (s2 :: rest2)) (hd 1 ranks)) ::
  realised_body (s2 :: rest2) (Nat.min (rk * s) (Nat.min (prod (s2 :: rest2)) (hd 1 ranks))) (tl ranks).
Proof. reflexivity. Qed.

Lemma strict_loop_code_cons s s2 rest2 i validated rank :
  strict_loop_code (s :: s2 :: rest2) i validated rank =
  strict_loop_code (s2 :: rest2) (S i)
    (validated ++ [Nat.min (nth i validated 0 * s) (Nat.min (prod (s2 :: rest2)) (nth (S i) rank 0))]) rank.
Proof. reflexivity. Qed.

Lemma hd_skipn_nth (l : list nat) k : k < length l -> hd 1 (skipn k l) = nth k l 0.
Proof.
  revert l. induction k; intros [|x l] H; simpl in *; try lia; auto. apply IHk. lia.
Qed.

Lemma skipn_S_tl {A} : forall k (l : list A), skipn (S k) l = tl (skipn k l).
Proof.
  induction k; intros l; [destruct l; reflexivity|].
  destruct l as [|x l]; [reflexivity|]. change (skipn (S (S k)) (x :: l)) with (skipn (S k) l).
  change (skipn (S k) (x :: l)) with (skipn k l). apply IHk.
Qed.

(* the accumulator loop of the repaired code computes the realised bonds *)
Lemma strict_loop_realised : forall sizes i validated rank vl,
  length validated = S i -> nth i validated 0 = vl -> i + length sizes < length rank + 1 ->
  strict_loop_code sizes i validated rank = validated ++ realised_body sizes vl (skipn (S i) rank).
Proof.
  induction sizes as [|s rest IH]; intros i validated rank vl Hlen Hvl Hr; [now rewrite app_nil_r|].
  destruct rest as [|s2 rest2]; [now rewrite app_nil_r|].
  rewrite strict_loop_code_cons, realised_body_cons.
  assert (Hh : hd 1 (skipn (S i) rank) = nth (S i) rank 0) by (apply hd_skipn_nth; cbn [length] in Hr; lia).
  rewrite Hh, Hvl.
  set (r := Nat.min (vl * s) (Nat.min (prod (s2 :: rest2)) (nth (S i) rank 0))).
  rewrite (IH (S i) (validated ++ [r]) rank r).
  - rewrite <- app_assoc. cbn [app]. do 3 f_equal. apply skipn_S_tl.
  - rewrite app_length. cbn [length]. lia.
  - rewrite app_nth2 by lia. rewrite Hlen, Nat.sub_diag. reflexivity.
  - cbn [length] in *. lia.
Qed.

(* FULL (after fix 03a63dd): validate_tt_rank(allow_overparametrization=False) is the rank TT-SVD realises *)
Theorem validate_tt_rank_strict_realised shape rank : length rank = length shape + 1 ->
  validate_tt_rank_strict_code shape rank = realised_tt_rank shape rank.
Proof.
  intros Hl. unfold validate_tt_rank_strict_code, realised_tt_rank.
  rewrite (strict_loop_realised shape 0 [1] rank 1) by (auto; lia).
  cbn [app skipn]. destruct rank; reflexivity.
Qed.

(* the rule before the fix (left factor = REQUESTED rank[i]) was not: shape (2,2,7), request (1,3,7,1) gave bond 2 =
   min(3*2, 7, 7) = 6 where TT-SVD reaches min(2*2, 7, 7) = 4 (kept as a worked example of the repaired defect) *)
Example strict_rule_before_fix_example :
  Nat.min (3 * 2) (Nat.min 7 7) = 6 /\ realised_tt_rank [2; 2; 7] [1; 3; 7; 1] = [1; 2; 4; 1] /\
  validate_tt_rank_strict_code [2; 2; 7] [1; 3; 7; 1] = [1; 2; 4; 1].
Proof. repeat split; reflexivity. Qed.

Section Loop.
Context {F : Type} (Op : fops F).
Variable svd : nat -> tensor F -> @svdans F.

(* right bonds of all computed cores but the last *)
Fixpoint right_bonds (cores : list (tensor F)) : list nat :=
  match cores with
  | [] => []
  | G :: cs => match cs with [] => [] | _ :: _ => nth 2 (shape G) 0 :: right_bonds cs end
  end.

(* the sequential loop of tensor_train realises exactly realised_body, whatever the oracle answers *)
Theorem chain_loop_realised : forall sizes k ranks rk W cores,
  chain_loop Op svd k sizes ranks rk 1 W = Ok cores -> right_bonds cores = realised_body sizes rk ranks.
Proof.
  induction sizes as [|n rest IH]; intros k ranks rk W cores H; [discriminate|].
  destruct rest as [|n2 rest2].
  - simpl in H. injection H as <-. reflexivity.
  - set (rest := n2 :: rest2) in *. cbn [chain_loop] in H. fold rest in H. cbv zeta in H.
    destruct (fact_shapes_ok _ _ _ _); [|discriminate].
    destruct (svd_interface Op _ _) as [[U Sv] V].
    destruct (chain_loop Op svd (S k) rest (tl ranks) _ 1 _) as [cs|] eqn:E; [|discriminate].
    cbn [rbind] in H. injection H as <-.
    assert (Hne : cs <> []).
    { intros ->. unfold rest in E. cbn [chain_loop] in E. destruct rest2; [discriminate|].
      cbv zeta in E. destruct (fact_shapes_ok _ _ _ _); [|discriminate].
      destruct (svd_interface Op _ _) as [[? ?] ?]. destruct (chain_loop Op svd _ _ _ _ _ _); discriminate. }
    pose proof (IH _ _ _ _ _ E) as Hcs.
    destruct cs as [|G2 cs2]; [contradiction|].
    unfold rest at 1. rewrite realised_body_cons. fold rest. cbn [right_bonds shape reshape nth] in *.
    rewrite Nat.mul_1_r in *. f_equal. exact Hcs.
Qed.

Theorem tensor_train_realised_rank X rank cores :
  tensor_train Op svd X rank = Ok cores ->
  match validate_tt_rank (ndim X) rank with
  | Ok rk => 1 :: right_bonds cores ++ [1] = realised_tt_rank (shape X) rk
  | Err => False
  end.
Proof.
  unfold tensor_train, realised_tt_rank. destruct (validate_tt_rank (ndim X) rank) as [rk|]; [|discriminate].
  cbn [rbind]. destruct (ndim X <=? 1); [discriminate|]. intros H. now rewrite (chain_loop_realised _ _ _ _ _ _ H).
Qed.

End Loop.
