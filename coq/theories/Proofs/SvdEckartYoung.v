(* C05: the Eckart-Young-Mirsky inequality in the Frobenius norm, proved from scratch over R (finite sums, no library):
   if M = sum_{t<p} u_t s_t v_t^T with orthonormal u_t, v_t and s non-negative non-increasing, then every matrix
   B = X Y of rank <= k satisfies  sum_{t>=k} s_t^2 <= ||M - B||_F^2.
   Route: Gram-Schmidt (an orthonormal family Q spanning the columns of X, by induction over the number of columns),
   column-wise projection identity ||x - Q c||^2 = ||x||^2 - ||Q^T x||^2 + ||c - Q^T x||^2, Bessel's inequality twice
   (weights w_t = ||Q^T u_t||^2 lie in [0,1] and sum to at most k) and the weighted top-k inequality. *)
From Coq Require Import List Arith Lia Reals Lra Psatz.
From TLV Require Import Base.Ops Base.Tensor Base.RSum Model.Svd Proofs.SvdProofsAux Proofs.SvdProofs Proofs.SvdInterfaceProofs Proofs.SvdMaskProofs.
Import ListNotations.
Local Open Scope R_scope.

Lemma rsum_const n c : rsum n (fun _ => c) = INR n * c.
Proof. induction n; [simpl; ring|]. cbn [rsum]. rewrite IHn, S_INR. ring. Qed.

(* ---------- projection identity and Bessel ---------- *)
Lemma proj_identity m q (Q : nat -> nat -> R) (x c : nat -> R) :
  orthonormal_cols m q Q ->
  rsum m (fun i => (x i - rsum q (fun a => Q i a * c a))^2)
  = rsum m (fun i => (x i)^2) - rsum q (fun a => (rsum m (fun i => Q i a * x i))^2)
    + rsum q (fun a => (c a - rsum m (fun i => Q i a * x i))^2).
Proof.
  intros O. pose (g := fun a => rsum m (fun i => Q i a * x i)).
  change (rsum m (fun i => (x i - rsum q (fun a => Q i a * c a))^2)
          = rsum m (fun i => (x i)^2) - rsum q (fun a => (g a)^2) + rsum q (fun a => (c a - g a)^2)).
  rewrite (rsum_ext m _ (fun i => ((x i)^2 + (-2) * (x i * rsum q (fun a => Q i a * c a))) + (rsum q (fun a => Q i a * c a))^2))
    by (intros; ring).
  rewrite !rsum_add, rsum_scale. rewrite (isometry m q Q c O).
  assert (E : rsum m (fun i => x i * rsum q (fun a => Q i a * c a)) = rsum q (fun a => c a * g a)).
  { rewrite (rsum_ext m _ (fun i => rsum q (fun a => c a * (Q i a * x i)))).
    2:{ intros i _. rewrite <- rsum_scale. apply rsum_ext; intros a _. ring. }
    rewrite rsum_exchange. apply rsum_ext; intros a _. unfold g. now rewrite rsum_scale. }
  rewrite E.
  rewrite (rsum_ext q (fun a => (c a - g a)^2) (fun a => ((c a)^2 + (-2) * (c a * g a)) + (g a)^2)) by (intros; ring).
  rewrite !rsum_add, rsum_scale. ring.
Qed.

Lemma proj_lower m q (Q : nat -> nat -> R) (x c : nat -> R) : orthonormal_cols m q Q ->
  rsum m (fun i => (x i)^2) - rsum q (fun a => (rsum m (fun i => Q i a * x i))^2)
  <= rsum m (fun i => (x i - rsum q (fun a => Q i a * c a))^2).
Proof.
  intros O. rewrite (proj_identity m q Q x c O).
  assert (0 <= rsum q (fun a => (c a - rsum m (fun i => Q i a * x i))^2)) by (apply rsum_nonneg; intros; apply pow2_ge_0).
  lra.
Qed.

Lemma bessel m q (Q : nat -> nat -> R) (x : nat -> R) : orthonormal_cols m q Q ->
  rsum q (fun a => (rsum m (fun i => Q i a * x i))^2) <= rsum m (fun i => (x i)^2).
Proof.
  intros O.
  pose proof (proj_identity m q Q x (fun a => rsum m (fun i => Q i a * x i)) O) as P. cbv beta in P.
  rewrite (rsum_zero q (fun a => (rsum m (fun i => Q i a * x i) - rsum m (fun i => Q i a * x i))^2)) in P by (intros; ring).
  assert (0 <= rsum m (fun i => (x i - rsum q (fun a => Q i a * rsum m (fun i0 => Q i0 a * x i0)))^2))
    by (apply rsum_nonneg; intros; apply pow2_ge_0).
  lra.
Qed.

(* ---------- Gram-Schmidt: an orthonormal family spanning the first k columns of X ---------- *)
Lemma orthonormalize m : forall k (X : nat -> nat -> R),
  exists q (Q T : nat -> nat -> R), (q <= k)%nat /\ orthonormal_cols m q Q /\
    forall i t, (i < m)%nat -> (t < k)%nat -> X i t = rsum q (fun a => Q i a * T a t).
Proof.
  induction k as [|k IH]; intros X.
  - exists 0%nat, (fun _ _ => 0), (fun _ _ => 0). split; [lia|]. split; [intros a b Ha; lia | intros; lia].
  - destruct (IH X) as (q & Q & T & Hq & OQ & HX).
    set (x := fun i => X i k).
    set (g := fun a => rsum m (fun i => Q i a * x i)).
    set (r := fun i => x i - rsum q (fun a => Q i a * g a)).
    assert (RQ : forall b, (b < q)%nat -> rsum m (fun i => r i * Q i b) = 0).
    { intros b Hb. unfold r.
      rewrite (rsum_ext m _ (fun i => Q i b * x i - rsum q (fun a => g a * (Q i a * Q i b)))).
      2:{ intros i _. rewrite Rmult_minus_distr_r. f_equal; [ring|]. rewrite <- rsum_scale_r. apply rsum_ext; intros; ring. }
      rewrite rsum_sub, rsum_exchange.
      rewrite (rsum_ext q _ (fun a => g a * (if Nat.eqb a b then 1 else 0))).
      2:{ intros a Ha. rewrite rsum_scale, OQ by assumption. reflexivity. }
      rewrite (rsum_single q b); [ | exact Hb | intros a _ Hn; destruct (Nat.eqb_spec a b); [congruence | ring] ].
      rewrite Nat.eqb_refl. unfold g. ring. }
    set (nn := rsum m (fun i => (r i)^2)).
    destruct (Req_dec nn 0) as [Z|NZ].
    + (* the new column already lies in the span *)
      exists q, Q, (fun a t => if Nat.eqb t k then g a else T a t). split; [lia|]. split; [exact OQ|].
      intros i t Hi Ht. destruct (Nat.eqb_spec t k) as [->|Hn].
      * pose proof (rsum_sq_zero m r Z i Hi) as Ri. unfold r in Ri. fold (x i). lra.
      * apply HX; [exact Hi | lia].
    + assert (NP : 0 < nn).
      { assert (0 <= nn) by (apply rsum_nonneg; intros; apply pow2_ge_0). lra. }
      set (nu := sqrt nn).
      assert (NU : 0 < nu) by (apply sqrt_lt_R0; exact NP).
      assert (NU2 : nu * nu = nn) by (apply sqrt_sqrt; lra).
      exists (S q), (fun i a => if Nat.eqb a q then r i / nu else Q i a),
             (fun a t => if Nat.eqb t k then (if Nat.eqb a q then nu else g a) else (if Nat.eqb a q then 0 else T a t)).
      split; [lia|]. split.
      * intros a b Ha Hb.
        destruct (Nat.eqb_spec a q) as [->|Na]; destruct (Nat.eqb_spec b q) as [->|Nb].
        -- rewrite Nat.eqb_refl.
           rewrite (rsum_ext m _ (fun i => / nn * (r i)^2)).
           2:{ intros i _. rewrite <- NU2. field. lra. }
           rewrite rsum_scale. fold nn. field. lra.
        -- destruct (Nat.eqb_spec q b) as [E|_]; [congruence|].
           rewrite (rsum_ext m _ (fun i => / nu * (r i * Q i b))) by (intros; field; lra).
           rewrite rsum_scale, RQ by lia. ring.
        -- destruct (Nat.eqb_spec a q) as [E|_]; [congruence|].
           rewrite (rsum_ext m _ (fun i => / nu * (r i * Q i a))) by (intros; field; lra).
           rewrite rsum_scale, RQ by lia. ring.
        -- apply OQ; lia.
      * intros i t Hi Ht. cbn [rsum]. rewrite Nat.eqb_refl.
        destruct (Nat.eqb_spec t k) as [->|Hn].
        -- rewrite (rsum_ext q _ (fun a => Q i a * g a)).
           2:{ intros a Ha. destruct (Nat.eqb_spec a q); [lia | reflexivity]. }
           fold (x i). unfold r. field. lra.
        -- rewrite (rsum_ext q _ (fun a => Q i a * T a t)).
           2:{ intros a Ha. destruct (Nat.eqb_spec a q); [lia | reflexivity]. }
           rewrite HX by (try exact Hi; lia). ring.
Qed.

(* ---------- the weighted top-k inequality ---------- *)
Lemma weighted_topk p k (a w : nat -> R) :
  (forall t, (t < p)%nat -> 0 <= a t) ->
  (forall i j, (i <= j)%nat -> (j < p)%nat -> a j <= a i) ->
  (forall t, (t < p)%nat -> 0 <= w t <= 1) ->
  rsum p w <= INR k ->
  rsum p (fun t => w t * a t) <= rsum (Nat.min k p) a.
Proof.
  intros Ha Hm Hw Hs. destruct (le_lt_dec p k) as [H|H].
  - rewrite Nat.min_r by lia. apply rsum_le. intros t Ht. specialize (Ha t Ht). specialize (Hw t Ht). nra.
  - rewrite Nat.min_l by lia.
    assert (Hc : 0 <= a k) by (apply Ha; lia).
    set (c := a k) in *. set (r := (p - k)%nat).
    assert (E : p = (k + r)%nat) by (unfold r; lia).
    rewrite E in Hs. rewrite E. rewrite rsum_app in Hs. rewrite rsum_app.
    assert (A1 : rsum k (fun t => w t * a t) <= rsum k (fun t => (a t + c * w t) - c * 1)).
    { apply rsum_le. intros t Ht. assert (c <= a t) by (apply Hm; lia). specialize (Hw t ltac:(lia)). nra. }
    assert (A2 : rsum r (fun j => w (k + j)%nat * a (k + j)%nat) <= rsum r (fun j => c * w (k + j)%nat)).
    { apply rsum_le. intros j Hj. assert (a (k + j)%nat <= c) by (apply Hm; lia). specialize (Hw (k + j)%nat ltac:(lia)). nra. }
    rewrite rsum_sub, rsum_add, !rsum_scale, rsum_const in A1. rewrite rsum_scale in A2.
    nra.
Qed.

(* ---------- Eckart-Young-Mirsky (Frobenius norm), function level ---------- *)
Theorem eckart_young_fn m n p k (M U V B : nat -> nat -> R) (s : nat -> R) :
  orthonormal_cols m p U -> orthonormal_rows p n V ->
  (forall t, (t < p)%nat -> 0 <= s t) ->
  (forall i j, (i <= j)%nat -> (j < p)%nat -> s j <= s i) ->
  (forall i j, (i < m)%nat -> (j < n)%nat -> M i j = rsum p (fun t => U i t * s t * V t j)) ->
  (exists X Y : nat -> nat -> R, forall i j, (i < m)%nat -> (j < n)%nat -> B i j = rsum k (fun t => X i t * Y t j)) ->
  rsum (p - k) (fun t => (s (k + t)%nat)^2) <= rsum m (fun i => rsum n (fun j => (M i j - B i j)^2)).
Proof.
  intros OU OV Hs0 Hsm HM (X & Y & HB).
  destruct (orthonormalize m k X) as (q & Q & T & Hq & OQ & HX).
  set (C := fun a j => rsum k (fun t => T a t * Y t j)).
  assert (HBQ : forall i j, (i < m)%nat -> (j < n)%nat -> B i j = rsum q (fun a => Q i a * C a j)).
  { intros i j Hi Hj. rewrite HB by assumption.
    rewrite (rsum_ext k _ (fun t => rsum q (fun a => Q i a * (T a t * Y t j)))).
    2:{ intros t Ht. rewrite HX by assumption. rewrite <- rsum_scale_r. apply rsum_ext; intros; ring. }
    rewrite rsum_exchange. apply rsum_ext; intros a _. unfold C. now rewrite rsum_scale. }
  (* step 1: column-wise projection bound *)
  set (QM := fun a j => rsum m (fun i => Q i a * M i j)).
  assert (S1 : rsum n (fun j => rsum m (fun i => (M i j)^2)) - rsum n (fun j => rsum q (fun a => (QM a j)^2))
               <= rsum m (fun i => rsum n (fun j => (M i j - B i j)^2))).
  { rewrite (rsum_exchange m n). rewrite <- rsum_sub. apply rsum_le. intros j Hj.
    rewrite (rsum_ext m (fun i => (M i j - B i j)^2) (fun i => (M i j - rsum q (fun a => Q i a * C a j))^2)).
    2:{ intros i Hi. now rewrite HBQ. }
    apply (proj_lower m q Q (fun i => M i j) (fun a => C a j) OQ). }
  (* step 2: ||M||^2 = sum s^2 *)
  assert (S2 : rsum n (fun j => rsum m (fun i => (M i j)^2)) = rsum p (fun t => (s t)^2)).
  { rewrite rsum_exchange. rewrite <- (frob_orth m n p U s V OU OV).
    apply rsum_ext; intros i Hi. apply rsum_ext; intros j Hj. now rewrite HM. }
  (* step 3: ||Q^T M||^2 = sum_t w_t s_t^2 *)
  set (G := fun a t => rsum m (fun i => Q i a * U i t)).
  set (w := fun t => rsum q (fun a => (G a t)^2)).
  assert (S3 : rsum n (fun j => rsum q (fun a => (QM a j)^2)) = rsum p (fun t => w t * (s t)^2)).
  { rewrite rsum_exchange.
    rewrite (rsum_ext q _ (fun a => rsum p (fun t => (G a t * s t)^2))).
    2:{ intros a Ha. rewrite <- (isometry n p (fun j t => V t j) (fun t => G a t * s t) OV).
        apply rsum_ext; intros j Hj. f_equal. unfold QM.
        rewrite (rsum_ext m _ (fun i => rsum p (fun t => (Q i a * U i t) * (s t * V t j)))).
        2:{ intros i Hi. rewrite HM by assumption. rewrite <- rsum_scale. apply rsum_ext; intros; ring. }
        rewrite rsum_exchange. apply rsum_ext; intros t _. unfold G. rewrite rsum_scale_r. ring. }
    rewrite rsum_exchange. apply rsum_ext; intros t _. unfold w. rewrite <- rsum_scale_r. apply rsum_ext; intros; ring. }
  (* step 4: the weights *)
  assert (W01 : forall t, (t < p)%nat -> 0 <= w t <= 1).
  { intros t Ht. split; [apply rsum_nonneg; intros; apply pow2_ge_0|].
    pose proof (bessel m q Q (fun i => U i t) OQ) as Bz. cbv beta in Bz.
    rewrite (rsum_ext m (fun i => (U i t)^2) (fun i => U i t * U i t)) in Bz by (intros; ring).
    rewrite OU, Nat.eqb_refl in Bz by assumption. exact Bz. }
  assert (WS : rsum p w <= INR k).
  { unfold w. rewrite rsum_exchange.
    apply Rle_trans with (rsum q (fun _ => 1)).
    - apply rsum_le. intros a Ha.
      pose proof (bessel m p U (fun i => Q i a) OU) as Bz. cbv beta in Bz.
      rewrite (rsum_ext m (fun i => (Q i a)^2) (fun i => Q i a * Q i a)) in Bz by (intros; ring).
      rewrite OQ, Nat.eqb_refl in Bz by assumption.
      rewrite (rsum_ext p (fun t => (G a t)^2) (fun t => (rsum m (fun i => U i t * Q i a))^2)); [exact Bz|].
      intros t _. f_equal. unfold G. apply rsum_ext; intros; ring.
    - rewrite rsum_const. rewrite Rmult_1_r. apply le_INR. exact Hq. }
  (* step 5: top-k *)
  pose proof (weighted_topk p k (fun t => (s t)^2) w) as TK. cbv beta in TK.
  assert (TK' : rsum p (fun t => w t * (s t)^2) <= rsum (Nat.min k p) (fun t => (s t)^2)).
  { apply TK; [intros; apply pow2_ge_0 | | exact W01 | exact WS].
    intros i j Hij Hj. assert (s j <= s i) by (apply Hsm; assumption). assert (0 <= s j) by (apply Hs0; lia). nra. }
  (* step 6: the tail *)
  assert (TL : rsum p (fun t => (s t)^2) - rsum (Nat.min k p) (fun t => (s t)^2) = rsum (p - k) (fun t => (s (k + t)%nat)^2)).
  { destruct (le_lt_dec k p) as [H|H].
    - rewrite Nat.min_l by lia. replace p with (k + (p - k))%nat at 1 by lia. rewrite rsum_app. ring.
    - rewrite Nat.min_r by lia. replace (p - k)%nat with 0%nat by lia. simpl. ring. }
  rewrite <- TL. lra.
Qed.

(* ---------- the same for the list-level SVD contract of the model (full_matrices = False answer) ---------- *)
Theorem eckart_young_contract d1 d2 (Mf : nat -> nat -> R) (s : list R) (U V : list (list R)) :
  svd_contract d1 d2 Mf false (U, s, V) ->
  forall k B, rank_le d1 d2 k B ->
  rsum (Nat.min d1 d2 - k) (fun t => (nth (k + t) s 0)^2) <= frob2 d1 d2 (fun i j => Mf i j - B i j).
Proof.
  intros ((_ & LS & _) & OU & OV & N1 & N2 & HM) k B HB. unfold frob2.
  apply (eckart_young_fn d1 d2 (Nat.min d1 d2) k Mf (mg U) (mg V) B (fun t => nth t s 0)); try assumption.
  - intros t Ht. apply (Forall_nth_len (fun x => 0 <= x)); [exact N1 | rewrite LS; exact Ht].
  - intros i j Hij Hj. apply N2; [exact Hij | rewrite LS; exact Hj].
Qed.

(* ---------- svd_interface(method = truncated_svd) returns a BEST approximation of rank <= n_eigenvecs: full theorems ---------- *)
Theorem interface_best_approx (orc : list (list R) -> bool -> triple R) (funs : fname -> nat -> list (list R) -> triple R)
    d1 d2 (Ml : list (list R)) r flip ub iters sq eps U Sg V :
  (forall f, svd_contract d1 d2 (mg Ml) f (orc Ml f)) ->
  (forall c X, funs FTruncated c X = truncated_svd (orc X) d1 d2 (Some r)) -> (1 <= r <= Nat.min d1 d2)%nat ->
  svd_interface Rops funs MTruncated d2 Ml (Some r) flip ub None None iters sq eps = Ok (U, Sg, V) ->
  rank_le d1 d2 r (recon U Sg V) /\
  forall B, rank_le d1 d2 r B ->
    frob2 d1 d2 (fun i j => mg Ml i j - recon U Sg V i j) <= frob2 d1 d2 (fun i j => mg Ml i j - B i j).
Proof.
  intros HC HF Hr E.
  exact (interface_best_approx_partial d1 d2 (mg Ml) (eckart_young_contract d1 d2 (mg Ml)) orc funs Ml r flip ub iters sq eps U Sg V
           eq_refl HC HF Hr E).
Qed.

Lemma frob2_nonneg d1 d2 X : 0 <= frob2 d1 d2 X.
Proof. unfold frob2. apply rsum_nonneg; intros. apply rsum_nonneg; intros. apply pow2_ge_0. Qed.

(* every n_eigenvecs (None, 0, > min(shape), > max(shape)): the product has rank <= the number of returned singular values and
   no matrix of rank <= the clamped n_eigenvecs is closer *)
Theorem interface_best_approx_gen (orc : list (list R) -> bool -> triple R) (funs : fname -> nat -> list (list R) -> triple R)
    d1 d2 (Ml : list (list R)) n flip ub iters sq eps U Sg V :
  (forall f, svd_contract d1 d2 (mg Ml) f (orc Ml f)) ->
  (forall c X, funs FTruncated c X = truncated_svd (orc X) d1 d2 n) -> (1 <= d1)%nat ->
  svd_interface Rops funs MTruncated d2 Ml n flip ub None None iters sq eps = Ok (U, Sg, V) ->
  let k := n_kept d1 d2 n in
  length Sg = Nat.min k (Nat.min d1 d2) /\ rank_le d1 d2 (length Sg) (recon U Sg V) /\
  forall B, rank_le d1 d2 k B ->
    frob2 d1 d2 (fun i j => mg Ml i j - recon U Sg V i j) <= frob2 d1 d2 (fun i j => mg Ml i j - B i j).
Proof.
  intros HC HF Hd E k.
  destruct (interface_truncated_e2e_gen orc funs d1 d2 Ml n flip ub iters sq eps U Sg V HC HF Hd E) as (ES & _ & _ & _ & _ & EE).
  fold k in ES, EE.
  assert (LO : forall f, length (snd (fst (orc Ml f))) = Nat.min d1 d2).
  { intros f. specialize (HC f). destruct (orc Ml f) as [[U0 S0] V0]. cbn [fst snd]. destruct HC as ((_ & L & _) & _). exact L. }
  split; [rewrite ES, firstn_length, LO; reflexivity|].
  split; [exists (fun i t => mg U i t * nth t Sg 0), (mg V); intros i j _ _; reflexivity|].
  intros B HB. unfold frob2 at 1. rewrite EE.
  unfold full_flag. fold k. destruct (Nat.ltb_spec (Nat.min d1 d2) k) as [Hlt|Hle].
  - replace (Nat.min d1 d2 - k)%nat with 0%nat by lia. cbn [rsum]. apply frob2_nonneg.
  - specialize (HC false). destruct (orc Ml false) as [[U0 S0] V0] eqn:EO. cbn [fst snd].
    exact (eckart_young_contract d1 d2 (mg Ml) S0 U0 V0 HC k B HB).
Qed.

(* with a mask: the returned triple is a best rank-<=r approximation of the LAST imputed matrix, which agrees with the input on
   every observed entry *)
Theorem interface_masked_best_approx (orc : nat -> list (list R) -> bool -> triple R) (funs : fname -> nat -> list (list R) -> triple R)
    d1 d2 (Ml mask : list (list R)) r flip ub iters sq eps U Sg V :
  rect d1 d2 Ml -> rect d1 d2 mask ->
  (forall c X, rect d1 d2 X -> forall f, svd_contract d1 d2 (mg X) f (orc c X f)) ->
  (forall c X, funs FTruncated c X = truncated_svd (orc c X) d1 d2 (Some r)) ->
  (1 <= r <= Nat.min d1 d2)%nat -> (1 <= iters)%nat ->
  svd_interface Rops funs MTruncated d2 Ml (Some r) flip ub None (Some mask) iters sq eps = Ok (U, Sg, V) ->
  exists Mlast : list (list R),
    rect d1 d2 Mlast /\
    (forall i j, (i < d1)%nat -> (j < d2)%nat -> mg mask i j = 1 -> mg Mlast i j = mg Ml i j) /\
    rank_le d1 d2 r (recon U Sg V) /\
    forall B, rank_le d1 d2 r B ->
      frob2 d1 d2 (fun i j => mg Mlast i j - recon U Sg V i j) <= frob2 d1 d2 (fun i j => mg Mlast i j - B i j).
Proof.
  intros HM Hm HC HFu Hr Hit E.
  destruct (interface_masked_e2e orc funs d1 d2 Ml mask r flip ub iters sq eps U Sg V HM Hm HC HFu Hr Hit E)
    as (Mlast & c & R1 & O1 & ES & _ & _ & _ & _ & EE).
  exists Mlast. split; [exact R1 | split; [exact O1|]].
  specialize (HC c Mlast R1 false). destruct (orc c Mlast false) as [[U0 S0] V0] eqn:EO. cbn [fst snd] in ES, EE.
  assert (LS : length Sg = r).
  { rewrite ES, firstn_length. destruct HC as ((_ & L & _) & _). rewrite L. lia. }
  split.
  - exists (fun i t => mg U i t * nth t Sg 0), (mg V). intros i j _ _. unfold recon. now rewrite LS.
  - intros B HB. unfold frob2 at 1. rewrite EE. exact (eckart_young_contract d1 d2 (mg Mlast) S0 U0 V0 HC r B HB).
Qed.

(* ---------- Eckart-Young for an ORTHOGONAL (not normalised) decomposition M = sum_t a_t v_t^T, a_a . a_b = lam_a [a = b],
   lam non-increasing (zero eigenvalues allowed): sum_{t>=k} lam_t <= ||M - B||_F^2.  Used for symeig_svd, where only the kept
   eigenvalues are known to be positive. ---------- *)
Lemma positive_prefix p (lam : nat -> R) :
  (forall t, (t < p)%nat -> 0 <= lam t) -> (forall i j, (i <= j)%nat -> (j < p)%nat -> lam j <= lam i) ->
  exists p', (p' <= p)%nat /\ (forall t, (t < p')%nat -> 0 < lam t) /\ (forall t, (p' <= t)%nat -> (t < p)%nat -> lam t = 0).
Proof.
  induction p as [|p IH]; intros H0 Hm.
  - exists 0%nat. split; [lia | split; intros; lia].
  - destruct IH as (p' & Hp' & Hpos & Hz); [intros; apply H0; lia | intros; apply Hm; lia |].
    destruct (Rlt_dec 0 (lam p)) as [P|NP].
    + exists (S p). split; [lia|]. split; [|intros; lia].
      intros t Ht. assert (lam p <= lam t) by (apply Hm; lia). lra.
    + exists p'. split; [lia | split; [exact Hpos|]]. intros t H1 H2.
      destruct (Nat.eq_dec t p) as [->|Hn]; [pose proof (H0 p ltac:(lia)); lra | apply Hz; lia].
Qed.

Theorem eckart_young_orth m n p k (M A V B : nat -> nat -> R) (lam : nat -> R) :
  (forall a b, (a < p)%nat -> (b < p)%nat -> rsum m (fun i => A i a * A i b) = if Nat.eqb a b then lam a else 0) ->
  orthonormal_rows p n V ->
  (forall i j, (i <= j)%nat -> (j < p)%nat -> lam j <= lam i) ->
  (forall i j, (i < m)%nat -> (j < n)%nat -> M i j = rsum p (fun t => A i t * V t j)) ->
  (exists X Y : nat -> nat -> R, forall i j, (i < m)%nat -> (j < n)%nat -> B i j = rsum k (fun t => X i t * Y t j)) ->
  rsum (p - k) (fun t => lam (k + t)%nat) <= rsum m (fun i => rsum n (fun j => (M i j - B i j)^2)).
Proof.
  intros GA OV Hm HM HB.
  assert (H0 : forall t, (t < p)%nat -> 0 <= lam t).
  { intros t Ht. pose proof (GA t t Ht Ht) as E. rewrite Nat.eqb_refl in E. rewrite <- E.
    apply rsum_nonneg; intros i _. nra. }
  destruct (positive_prefix p lam H0 Hm) as (p' & Hp' & Hpos & Hz).
  assert (AZ : forall t i, (p' <= t)%nat -> (t < p)%nat -> (i < m)%nat -> A i t = 0).
  { intros t i H1 H2 Hi. pose proof (GA t t H2 H2) as E. rewrite Nat.eqb_refl, (Hz t H1 H2) in E.
    rewrite (rsum_ext m _ (fun i => (A i t)^2)) in E by (intros; ring). exact (rsum_sq_zero m (fun i => A i t) E i Hi). }
  set (s := fun t => sqrt (lam t)).
  assert (SS : forall t, (t < p')%nat -> 0 < s t /\ s t * s t = lam t).
  { intros t Ht. pose proof (Hpos t Ht). unfold s. split; [apply sqrt_lt_R0; lra | apply sqrt_sqrt; lra]. }
  pose proof (eckart_young_fn m n p' k M (fun i t => A i t / s t) V B s) as EY.
  assert (L : rsum (p' - k) (fun t => (s (k + t)%nat)^2) <= rsum m (fun i => rsum n (fun j => (M i j - B i j)^2))).
  { apply EY.
    - intros a b Ha Hb. destruct (SS a Ha) as [Pa Ea]. destruct (SS b Hb) as [Pb Eb].
      rewrite (rsum_ext m _ (fun i => (/ s a * / s b) * (A i a * A i b))) by (intros; unfold Rdiv; ring).
      rewrite rsum_scale, GA by lia. destruct (Nat.eqb_spec a b) as [->|]; [|ring]. rewrite <- Eb. field. lra.
    - apply orthonormal_rows_sub with (r := p); [lia | exact OV].
    - intros t Ht. left. apply (SS t Ht).
    - intros i j Hij Hj. unfold s. apply sqrt_le_1_alt. apply Hm; lia.
    - intros i j Hi Hj. rewrite (HM i j Hi Hj). replace p with (p' + (p - p'))%nat at 1 by lia. rewrite rsum_app.
      rewrite (rsum_zero (p - p')) by (intros t Ht; rewrite AZ by (try exact Hi; lia); ring).
      rewrite Rplus_0_r. apply rsum_ext; intros t Ht. destruct (SS t Ht) as [Pt _]. field. lra.
    - exact HB. }
  eapply Rle_trans; [|exact L]. apply Req_le.
  destruct (le_lt_dec p' k) as [H|H].
  - replace (p' - k)%nat with 0%nat by lia. cbn [rsum]. apply rsum_zero. intros t Ht. apply Hz; lia.
  - replace (p - k)%nat with ((p' - k) + (p - p'))%nat by lia. rewrite rsum_app.
    rewrite (rsum_zero (p - p')) by (intros t Ht; apply Hz; lia). rewrite Rplus_0_r.
    apply rsum_ext; intros t Ht. destruct (SS (k + t)%nat ltac:(lia)) as [_ E]. rewrite <- E. ring.
Qed.
