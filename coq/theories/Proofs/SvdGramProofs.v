(* C05, symeig_svd at function level (matrices as nat -> nat -> R, finite sums): from an orthogonal eigenbasis of the
   Gram matrix A^T A to a truncated SVD of A.  W k t = k-th component of the t-th eigenvector, lam t its eigenvalue,
   in ANY order; the first p eigenpairs are kept (lam t > 0, s t = sqrt (lam t)), the others are discarded. *)
From Coq Require Import List Arith Lia Bool Reals Lra.
From TLV Require Import Base.Ops Base.RSum Proofs.SvdProofsAux.
Local Open Scope R_scope.

Section Gram.
Variables (m n : nat) (A W : nat -> nat -> R) (lam : nat -> R).
Definition gram (i k : nat) : R := rsum m (fun r => A r i * A r k).
Definition AW (r t : nat) : R := rsum n (fun k => A r k * W k t).
Hypothesis OW : orthonormal_cols n n W.          (* W^T W = I *)
Hypothesis OWr : orthonormal_rows n n W.         (* W W^T = I *)
Hypothesis EIG : forall i t, (i < n)%nat -> (t < n)%nat -> rsum n (fun k => gram i k * W k t) = W i t * lam t.

(* (A w_a) . (A w_b) = lam_b [a = b] *)
Lemma AW_gram a b : (a < n)%nat -> (b < n)%nat -> rsum m (fun r => AW r a * AW r b) = if Nat.eqb a b then lam b else 0.
Proof.
  intros Ha Hb. unfold AW.
  rewrite (rsum_ext m _ (fun r => rsum n (fun k => rsum n (fun k' => (W k a * W k' b) * (A r k * A r k'))))).
  2:{ intros r _. rewrite rsum_prod. apply rsum_ext; intros k _. apply rsum_ext; intros k' _. ring. }
  rewrite rsum_exchange.
  rewrite (rsum_ext n _ (fun k => W k a * (W k b * lam b))).
  2:{ intros k Hk. rewrite rsum_exchange.
      rewrite (rsum_ext n _ (fun k' => W k a * (gram k k' * W k' b))).
      2:{ intros k' _. unfold gram. rewrite <- rsum_scale_r, <- rsum_scale. apply rsum_ext; intros r _. ring. }
      rewrite rsum_scale, EIG by assumption. reflexivity. }
  rewrite (rsum_ext n _ (fun k => lam b * (W k a * W k b))) by (intros; ring).
  rewrite rsum_scale, OW by assumption. destruct (Nat.eqb a b); ring.
Qed.

(* A = (A W) W^T *)
Lemma A_expand r c : (c < n)%nat -> A r c = rsum n (fun t => AW r t * W c t).
Proof.
  intros Hc. unfold AW.
  rewrite (rsum_ext n _ (fun t => rsum n (fun k => A r k * (W k t * W c t)))).
  2:{ intros t _. rewrite <- rsum_scale_r. apply rsum_ext; intros k _. ring. }
  rewrite rsum_exchange.
  rewrite (rsum_ext n _ (fun k => A r k * (if Nat.eqb k c then 1 else 0))).
  2:{ intros k Hk. rewrite rsum_scale. now rewrite OWr. }
  rewrite (rsum_single n c); [ | exact Hc | intros k _ Hn; destruct (Nat.eqb_spec k c); [congruence | ring] ].
  rewrite Nat.eqb_refl. ring.
Qed.

Variables (p : nat) (s : nat -> R).
Hypothesis Hp : (p <= n)%nat.
Hypothesis Hs : forall t, (t < p)%nat -> 0 < s t /\ s t * s t = lam t.

Definition Ug (r t : nat) : R := AW r t / s t.
Definition Vg (t c : nat) : R := W c t.

Lemma Ug_orthonormal : orthonormal_cols m p Ug.
Proof.
  intros a b Ha Hb. unfold Ug.
  destruct (Hs a Ha) as [Pa Ea]. destruct (Hs b Hb) as [Pb Eb].
  rewrite (rsum_ext m _ (fun r => (/ s a * / s b) * (AW r a * AW r b))) by (intros; unfold Rdiv; ring).
  rewrite rsum_scale, AW_gram by lia. destruct (Nat.eqb_spec a b) as [->|]; [|ring].
  rewrite <- Eb. field. lra.
Qed.
Lemma Vg_orthonormal : orthonormal_rows p n Vg.
Proof. intros a b Ha Hb. unfold Vg. apply OW; lia. Qed.

(* the truncation error is the sum of the discarded eigenvalues *)
Lemma gram_error :
  rsum m (fun r => rsum n (fun c => (A r c - rsum p (fun t => Ug r t * s t * Vg t c))^2))
  = rsum (n - p) (fun t => lam (p + t)%nat).
Proof.
  rewrite (rsum_ext m _ (fun r => rsum n (fun c => (rsum (n - p) (fun t => W c (p + t)%nat * AW r (p + t)%nat))^2))).
  2:{ intros r _. apply rsum_ext; intros c Hc. f_equal. rewrite (A_expand r c Hc).
      replace n with (p + (n - p))%nat at 1 by lia. rewrite rsum_app.
      rewrite (rsum_ext p (fun t => Ug r t * s t * Vg t c) (fun t => AW r t * W c t)).
      2:{ intros t Ht. unfold Ug, Vg. destruct (Hs t Ht) as [Pt _]. field. lra. }
      ring_simplify. apply rsum_ext; intros t _. ring. }
  rewrite (rsum_ext m _ (fun r => rsum (n - p) (fun t => (AW r (p + t)%nat)^2))).
  2:{ intros r _. apply (isometry n (n - p) (fun c t => W c (p + t)%nat) (fun t => AW r (p + t)%nat)).
      apply orthonormal_cols_shift with (c := n); [lia | exact OW]. }
  rewrite rsum_exchange. apply rsum_ext; intros t Ht.
  rewrite (rsum_ext m _ (fun r => AW r (p + t)%nat * AW r (p + t)%nat)) by (intros; ring).
  rewrite AW_gram by lia. now rewrite Nat.eqb_refl.
Qed.
End Gram.
