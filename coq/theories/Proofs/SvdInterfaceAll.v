(* C05: svd_interface (no mask, no non_negative) for ANY back end the dispatch table selects (truncated_svd, symeig_svd,
   randomized_svd or a user callable): if the selected function's answer has orthonormal columns / rows, the interface returns
   the same singular values, orthonormal factors, the same product, and - with flip_sign - sign-canonical deciding vectors.
   Composed with the method theorems this gives the end-to-end statements for the randomized and the symeig method. *)
From Coq Require Import List Arith Lia Bool Reals Lra.
From TLV Require Import Base.Ops Base.Tensor Base.RSum Model.Svd Proofs.SvdProofsAux Proofs.SvdProofs Proofs.SvdInterfaceProofs
  Proofs.SvdRandProofs Proofs.SvdSymeigFull Proofs.SvdSymeigShapes Proofs.SvdDecisions Proofs.SvdEckartYoung Proofs.SvdRandE2E Proofs.SvdNNProofs Proofs.SvdMaskProofs Proofs.SvdSymeigBest.
Import ListNotations.
Local Open Scope R_scope.

Theorem interface_generic (funs : fname -> nat -> list (list R) -> triple R) meth fn d1 d2 Ml n flip ub iters sq eps
    U0 S0 V0 U S V pu pv :
  dispatch meth = Some fn -> funs fn 0%nat Ml = (U0, S0, V0) ->
  rect d1 pu U0 -> rect pv d2 V0 -> (1 <= d1)%nat -> (length S0 <= pu)%nat -> (length S0 <= pv)%nat ->
  orthonormal_cols d1 pu (mg U0) -> orthonormal_rows pv d2 (mg V0) ->
  svd_interface Rops funs meth d2 Ml n flip ub None None iters sq eps = Ok (U, S, V) ->
  S = S0 /\ orthonormal_cols d1 pu (mg U) /\ orthonormal_rows pv d2 (mg V) /\
  (forall i j, recon U S V i j = recon U0 S0 V0 i j) /\
  (flip = true -> ub = true -> forall t, (t < pu)%nat ->
     exists imax, (imax < d1)%nat /\ forall i, Rabs (mg U i t) <= mg U imax t) /\
  (flip = true -> ub = false -> (1 <= d2)%nat -> forall t, (t < pv)%nat ->
     exists jmax, forall j, Rabs (mg V t j) <= mg V t jmax).
Proof.
  intros Hm HF RU RV Hd1 L1 L2 OU OV E.
  rewrite (interface_unfold funs meth fn) in E by exact Hm. rewrite HF in E.
  assert (NU : ncols U0 = pu) by (apply (rect_ncols d1 pu U0 RU); lia).
  destruct RU as [LU FU]. destruct RV as [LV FV].
  destruct flip.
  - destruct (svd_flip Rops U0 V0 ub) as [U1 V1] eqn:FL. inversion E; subst U S V. clear E.
    split; [reflexivity|].
    destruct (flip_orthonormal_gen U0 V0 ub U1 V1 d2 FL) as [O1 O2].
    { rewrite LU, NU. exact OU. } { rewrite LV. exact OV. }
    rewrite LU, NU in O1. rewrite LV in O2. split; [exact O1 | split; [exact O2|]].
    split; [|split].
    + intros i j. unfold recon.
      apply (flip_product U0 V0 ub U1 V1 (fun t => nth t S0 0) (length S0) FL); try lia.
      intros t Ht. destruct ub.
      * rewrite LU. apply (orthonormal_col_nonzero d1 pu (mg U0) t); [lia | exact OU].
      * apply (orthonormal_row_nonzero pv d2 (mg V0) t); [lia | exact OV].
    + intros _ Hub t Ht. subst ub.
      destruct (flip_u_sign U0 V0 U1 V1 t FL) as (imax & Hi & _ & _ & Hmax).
      * intros ->. cbn in LU. lia.
      * lia.
      * exists imax. split; [lia | exact Hmax].
    + intros _ Hub Hd2 t Ht. subst ub.
      destruct (flip_v_sign U0 V0 U1 V1 t FL) as (jmax & _ & _ & Hmax).
      * lia.
      * intros EN. pose proof (Forall_nth_len _ V0 t [] FV ltac:(lia)) as LR. cbv beta in LR. rewrite EN in LR. cbn in LR. lia.
      * exists jmax. exact Hmax.
  - inversion E; subst U S V. clear E.
    split; [reflexivity | split; [exact OU | split; [exact OV | split; [reflexivity | split; intros; discriminate]]]].
Qed.

Lemma frob2_ext d1 d2 X Y : (forall i j, (i < d1)%nat -> (j < d2)%nat -> X i j = Y i j) -> frob2 d1 d2 X = frob2 d1 d2 Y.
Proof. intros H. unfold frob2. apply rsum_ext; intros i Hi. apply rsum_ext; intros j Hj. now rewrite H. Qed.

(* ---------- svd_interface(method = 'randomized_svd'), non-transposed branch, any flip ---------- *)
Theorem interface_randomized_direct_partial (svd : list (list R) -> bool -> triple R) (qr : nat -> list (list R) -> list (list R))
    (funs : fname -> nat -> list (list R) -> triple R) (G M : list (list R)) d1 d2 n n_over n_iter c flip ub iters sq eps U Sg V :
  rect d1 d2 M -> (1 <= d1)%nat ->
  let k := n_kept d1 d2 n in
  dec_rand_transposed d1 d2 k (Nat.min d1 d2) (dec_rand_ndims k n_over (Nat.max d1 d2)) = false ->
  let Q := range_finder Rops qr M d2 G n_iter in
  rect d1 c Q -> orthonormal_cols d1 c (mg Q) -> covers d1 d2 c (mg M) (mg Q) ->
  let Mred := mmul Rops d2 (transp Rops c Q) M in
  (forall f, svd_contract c d2 (mg Mred) f (svd Mred f)) ->
  (forall cl X, funs FRandomized cl X = randomized_svd Rops svd qr G X d1 d2 n n_over n_iter) ->
  svd_interface Rops funs MRandomized d2 M n flip ub None None iters sq eps = Ok (U, Sg, V) ->
  let kk := Nat.min k (Nat.max c d2) in
  let So := snd (fst (svd Mred (Nat.min c d2 <? kk))) in
  Sg = firstn kk So /\ nonneg_list Sg /\ nonincreasing Sg /\
  orthonormal_cols d1 (Nat.min kk c) (mg U) /\ orthonormal_rows (Nat.min kk d2) d2 (mg V) /\
  frob2 d1 d2 (fun i j => mg M i j - recon U Sg V i j) = rsum (Nat.min c d2 - kk) (fun t => (nth (kk + t) So 0)^2) /\
  (forall B, rank_le d1 d2 k B ->
     frob2 d1 d2 (fun i j => mg M i j - recon U Sg V i j) <= frob2 d1 d2 (fun i j => mg M i j - B i j)) /\
  (flip = true -> ub = true -> forall t, (t < Nat.min kk c)%nat ->
     exists imax, (imax < d1)%nat /\ forall i, Rabs (mg U i t) <= mg U imax t).
Proof.
  intros HM Hd1 k HB Q HQ OQ HCov Mred HSVD HF E kk So.
  destruct (randomized_svd Rops svd qr G M d1 d2 n n_over n_iter) as [[U0 S0] V0] eqn:ER.
  destruct (randomized_svd_direct_partial svd qr G M d1 d2 n n_over n_iter c U0 S0 V0 HM Hd1 HB HQ OQ HCov HSVD ER)
    as ((RU & LS & RV) & ES & N1 & N2 & OU & OV & EE & BA).
  fold k kk Mred So in LS, ES, EE, BA, RU, RV, OU, OV.
  destruct (interface_generic funs MRandomized FRandomized d1 d2 M n flip ub iters sq eps U0 S0 V0 U Sg V
              (Nat.min kk c) (Nat.min kk d2)) as (E1 & O1 & O2 & RC & SU & _); try assumption; try reflexivity.
  { rewrite HF. exact ER. } { rewrite LS. lia. } { rewrite LS. lia. }
  subst Sg.
  assert (FE : frob2 d1 d2 (fun i j => mg M i j - recon U S0 V i j) = frob2 d1 d2 (fun i j => mg M i j - recon U0 S0 V0 i j)).
  { apply frob2_ext. intros i j _ _. now rewrite RC. }
  split; [exact ES | split; [exact N1 | split; [exact N2 | split; [exact O1 | split; [exact O2|]]]]].
  split; [rewrite FE; exact EE|]. split; [intros B HBk; rewrite FE; now apply BA | exact SU].
Qed.

(* ---------- svd_interface(method = 'randomized_svd'), transposed branch, any flip ---------- *)
Theorem interface_randomized_transposed_partial (svd : list (list R) -> bool -> triple R) (qr : nat -> list (list R) -> list (list R))
    (funs : fname -> nat -> list (list R) -> triple R) (G M : list (list R)) d1 d2 n n_over n_iter c flip ub iters sq eps U Sg V :
  rect d1 d2 M -> (1 <= d1)%nat -> (1 <= d2)%nat ->
  let k := n_kept d1 d2 n in
  dec_rand_transposed d1 d2 k (Nat.min d1 d2) (dec_rand_ndims k n_over (Nat.max d1 d2)) = true ->
  let Q := range_finder Rops qr (transp Rops d2 M) d1 G n_iter in
  rect d2 c Q -> orthonormal_cols d2 c (mg Q) -> coversT d1 d2 c (mg M) (mg Q) ->
  let Mred := transp Rops d1 (mmul Rops d1 (transp Rops c Q) (transp Rops d2 M)) in
  (forall f, svd_contract d1 c (mg Mred) f (svd Mred f)) ->
  (forall cl X, funs FRandomized cl X = randomized_svd Rops svd qr G X d1 d2 n n_over n_iter) ->
  svd_interface Rops funs MRandomized d2 M n flip ub None None iters sq eps = Ok (U, Sg, V) ->
  let kk := Nat.min k (Nat.max d1 c) in
  let So := snd (fst (svd Mred (Nat.min d1 c <? kk))) in
  Sg = firstn kk So /\ nonneg_list Sg /\ nonincreasing Sg /\
  orthonormal_cols d1 (Nat.min kk d1) (mg U) /\ orthonormal_rows (Nat.min kk c) d2 (mg V) /\
  frob2 d1 d2 (fun i j => mg M i j - recon U Sg V i j) = rsum (Nat.min d1 c - kk) (fun t => (nth (kk + t) So 0)^2) /\
  (forall B, rank_le d1 d2 k B ->
     frob2 d1 d2 (fun i j => mg M i j - recon U Sg V i j) <= frob2 d1 d2 (fun i j => mg M i j - B i j)) /\
  (flip = true -> ub = true -> forall t, (t < Nat.min kk d1)%nat ->
     exists imax, (imax < d1)%nat /\ forall i, Rabs (mg U i t) <= mg U imax t).
Proof.
  intros HM Hd1 Hd2 k HB Q HQ OQ HCov Mred HSVD HF E kk So.
  destruct (randomized_svd Rops svd qr G M d1 d2 n n_over n_iter) as [[U0 S0] V0] eqn:ER.
  destruct (randomized_svd_transposed_partial svd qr G M d1 d2 n n_over n_iter c U0 S0 V0 HM Hd2 HB HQ OQ HCov HSVD ER)
    as ((RU & LS & RV) & ES & N1 & N2 & OU & OV & EE & BA).
  fold k kk Mred So in LS, ES, EE, BA, RU, RV, OU, OV.
  destruct (interface_generic funs MRandomized FRandomized d1 d2 M n flip ub iters sq eps U0 S0 V0 U Sg V
              (Nat.min kk d1) (Nat.min kk c)) as (E1 & O1 & O2 & RC & SU & _); try assumption; try reflexivity.
  { rewrite HF. exact ER. } { rewrite LS. lia. } { rewrite LS. lia. }
  subst Sg.
  assert (FE : frob2 d1 d2 (fun i j => mg M i j - recon U S0 V i j) = frob2 d1 d2 (fun i j => mg M i j - recon U0 S0 V0 i j)).
  { apply frob2_ext. intros i j _ _. now rewrite RC. }
  split; [exact ES | split; [exact N1 | split; [exact N2 | split; [exact O1 | split; [exact O2|]]]]].
  split; [rewrite FE; exact EE|]. split; [intros B HBk; rewrite FE; now apply BA | exact SU].
Qed.

(* ---------- svd_interface(method = 'symeig_svd'), n_eigenvecs <= min(shape), kept eigenvalues above eps, any flip ---------- *)
Theorem interface_symeig_e2e (eigh : list (list R) -> list R * list (list R)) (funs : fname -> nat -> list (list R) -> triple R)
    epsd (M : list (list R)) d1 d2 n lam W flip ub iters sq eps U Sg V :
  rect d1 d2 M -> (1 <= d1)%nat ->
  let d := if (d2 <? d1)%nat then d1 else d2 in
  let Gm := if (d2 <? d1)%nat then mmul Rops d1 M (transp Rops d2 M) else mmul Rops d2 (transp Rops d2 M) M in
  (forall G0, length (fst (eigh G0)) = d /\ rect d d (snd (eigh G0))) ->
  eigh Gm = (lam, W) -> eigh_contract2 d Gm lam W ->
  let k := n_kept d1 d2 n in
  (k <= Nat.min d1 d2)%nat ->
  (forall t, (t < k)%nat -> 0 <= epsd < nth (d - 1 - t) lam 0) ->
  (forall cl X, funs FSymeig cl X = symeig_svd Rops eigh sqrt epsd X d1 d2 n) ->
  svd_interface Rops funs MSymeig d2 M n flip ub None None iters sq eps = Ok (U, Sg, V) ->
  length Sg = k /\
  (forall t, (t < k)%nat -> nth t Sg 0 = sqrt (nth (d - 1 - t) lam 0) /\ 0 < nth t Sg 0) /\
  orthonormal_cols d1 k (mg U) /\ orthonormal_rows k d2 (mg V) /\
  frob2 d1 d2 (fun i j => mg M i j - recon U Sg V i j) = rsum (d - k) (fun t => nth (d - 1 - (k + t)) lam 0) /\
  (flip = true -> ub = true -> forall t, (t < k)%nat -> exists imax, (imax < d1)%nat /\ forall i, Rabs (mg U i t) <= mg U imax t).
Proof.
  intros HM Hd1 d Gm HSH HE HC k Hk Heps HF E.
  pose proof (symeig_shapes eigh sqrt epsd M d1 d2 n HM) as SH. cbv zeta in SH. fold k in SH.
  assert (P : Nat.min (Nat.min d1 d2) k = k) by lia.
  destruct (symeig_svd Rops eigh sqrt epsd M d1 d2 n) as [[U0 S0] V0] eqn:ES.
  assert (FACTS : length S0 = k /\
            (forall t, (t < k)%nat -> nth t S0 0 = sqrt (nth (d - 1 - t) lam 0) /\ 0 < nth t S0 0) /\
            orthonormal_cols d1 k (mg U0) /\ orthonormal_rows k d2 (mg V0) /\
            rsum d1 (fun i => rsum d2 (fun j => (mg M i j - recon U0 S0 V0 i j)^2)) = rsum (d - k) (fun t => nth (d - 1 - (k + t)) lam 0)).
  { unfold d, Gm in *. destruct (Nat.ltb_spec d2 d1) as [Ht|Hw].
    - pose proof (symeig_tall_svd eigh epsd M d1 d2 n lam W Ht HM HE HC) as T. cbv zeta in T. fold k in T. rewrite P in T.
      rewrite ES in T. now apply T.
    - pose proof (symeig_wide_svd eigh epsd M d1 d2 n lam W Hw HM HE HC) as T. cbv zeta in T. fold k in T. rewrite P in T.
      rewrite ES in T. now apply T. }
  destruct FACTS as (LS & SV & OU & OV & EE).
  assert (HSH' : forall G0, let d0 := if (d2 <? d1)%nat then d1 else d2 in length (fst (eigh G0)) = d0 /\ rect d0 d0 (snd (eigh G0))) by exact HSH.
  specialize (SH HSH'). destruct SH as (RU & _ & RV).
  replace (Nat.min d1 k) with k in RU by lia. replace (Nat.min d2 k) with k in RV by lia.
  destruct (interface_generic funs MSymeig FSymeig d1 d2 M n flip ub iters sq eps U0 S0 V0 U Sg V k k)
    as (E1 & O1 & O2 & RC & SU & _); try assumption; try reflexivity; try lia.
  { rewrite HF. exact ES. }
  subst Sg.
  split; [exact LS | split; [exact SV | split; [exact O1 | split; [exact O2 | split; [|exact SU]]]]].
  rewrite <- EE. apply frob2_ext. intros i j _ _. now rewrite RC.
Qed.

(* ---------- the non_negative option at the level of svd_interface: EVERY method / back end (incl. a callable), every mask, every
   flip setting, every input: both returned factors are entrywise non-negative (sq stands for sqrt) ---------- *)
Theorem interface_nonneg (funs : fname -> nat -> list (list R) -> triple R) meth d2 Ml n flip ub ty mask iters (sq : R -> R) eps U S V :
  (forall t, 0 <= sq t) -> 0 <= eps ->
  svd_interface Rops funs meth d2 Ml n flip ub (Some ty) mask iters sq eps = Ok (U, S, V) ->
  nonneg_mat U /\ nonneg_mat V.
Proof.
  intros Hsq He E. unfold svd_interface in E. destruct (dispatch meth) as [fn|]; [|discriminate].
  destruct (match mask with
            | Some msk => match n with
                          | Some _ => mask_loop Rops (funs fn) d2 msk iters 1 Ml (funs fn 0%nat Ml)
                          | None => (Ml, funs fn 0%nat Ml) end
            | None => (Ml, funs fn 0%nat Ml) end) as [M1 [[U1 S1] V1]].
  destruct (if flip then svd_flip Rops U1 V1 ub else (U1, V1)) as [U2 V2].
  destruct ty.
  - pose proof (nndsvd_nonneg sq eps M1 U2 S1 V2 Hsq) as H.
    destruct (make_svd_non_negative Rops sq eps M1 U2 S1 V2 NNDSVD) as [W Hh]. inversion E; subst. exact H.
  - pose proof (nndsvda_nonneg sq eps M1 U2 S1 V2 He) as H.
    destruct (make_svd_non_negative Rops sq eps M1 U2 S1 V2 NNDSVDA) as [W Hh]. inversion E; subst. exact H.
Qed.

(* ---------- with a mask, ANY back end: the result is the (sign-resolved) answer of the selected function on the LAST imputed
   matrix, which agrees with the input on every observed entry; orthonormality, product and sign convention as without mask ---------- *)
Theorem interface_masked_generic (funs : fname -> nat -> list (list R) -> triple R) meth fn d1 d2 (Ml mask : list (list R)) r flip ub
    iters sq eps U S V pu pv :
  dispatch meth = Some fn -> rect d1 d2 Ml -> rect d1 d2 mask -> (1 <= d1)%nat -> (1 <= iters)%nat ->
  (forall c X, rect d1 d2 X ->
     let '(U0, S0, V0) := funs fn c X in
     rect d1 pu U0 /\ rect pv d2 V0 /\ (length S0 <= pu)%nat /\ (length S0 <= pv)%nat /\
     orthonormal_cols d1 pu (mg U0) /\ orthonormal_rows pv d2 (mg V0)) ->
  svd_interface Rops funs meth d2 Ml (Some r) flip ub None (Some mask) iters sq eps = Ok (U, S, V) ->
  exists Mlast c U0 S0 V0,
    rect d1 d2 Mlast /\
    (forall i j, (i < d1)%nat -> (j < d2)%nat -> mg mask i j = 1 -> mg Mlast i j = mg Ml i j) /\
    funs fn c Mlast = (U0, S0, V0) /\
    S = S0 /\ orthonormal_cols d1 pu (mg U) /\ orthonormal_rows pv d2 (mg V) /\
    (forall i j, recon U S V i j = recon U0 S0 V0 i j) /\
    (flip = true -> ub = true -> forall t, (t < pu)%nat ->
       exists imax, (imax < d1)%nat /\ forall i, Rabs (mg U i t) <= mg U imax t).
Proof.
  intros Hm HM Hmask Hd1 Hit HB E.
  set (sf := funs fn).
  assert (HF : forall c X, rect d1 d2 X -> length (fst (fst (sf c X))) = d1).
  { intros c X HX. specialize (HB c X HX). unfold sf. destruct (funs fn c X) as [[U0 S0] V0]. cbn [fst].
    destruct HB as ((L & _) & _). exact L. }
  pose proof (mask_loop_spec d1 d2 sf mask Hmask HF iters 1%nat Ml (sf 0%nat Ml) HM (HF _ _ HM)) as SP.
  assert (E' : (let '(M1, t1) := mask_loop Rops sf d2 mask iters 1 Ml (sf 0%nat Ml) in
                let '(U1, S1, V1) := t1 in
                let '(U2, V2) := if flip then svd_flip Rops U1 V1 ub else (U1, V1) in Ok (U2, S1, V2)) = Ok (U, S, V)).
  { unfold svd_interface in E. rewrite Hm in E. exact E. }
  clear E. rename E' into E.
  destruct (mask_loop Rops sf d2 mask iters 1 Ml (sf 0%nat Ml)) as [M1 t1] eqn:EL.
  destruct SP as (R1 & O1 & T1). specialize (T1 ltac:(lia)).
  set (c := (1 + iters - 1)%nat) in *.
  specialize (HB c M1 R1). fold sf in HB. rewrite <- T1 in HB.
  destruct t1 as [[U0 S0] V0]. destruct HB as (RU & RV & L1 & L2 & OU & OV).
  exists M1, c, U0, S0, V0. split; [exact R1 | split; [exact O1 | split; [now rewrite T1|]]].
  destruct (interface_generic (fun _ _ _ => (U0, S0, V0)) meth fn d1 d2 M1 (Some r) flip ub iters sq eps U0 S0 V0 U S V pu pv)
    as (E1 & P1 & P2 & RC & SU & _); try assumption; try reflexivity.
  { rewrite (interface_unfold _ meth fn) by exact Hm. rewrite <- E.
    destruct flip; [destruct (svd_flip Rops U0 V0 ub)|]; reflexivity. }
  split; [exact E1 | split; [exact P1 | split; [exact P2 | split; [exact RC | exact SU]]]].
Qed.

(* ---------- svd_interface(method = 'symeig_svd') returns a best approximation of rank <= n_eigenvecs (eigenvalues ascending) ---------- *)
Theorem interface_symeig_best (eigh : list (list R) -> list R * list (list R)) (funs : fname -> nat -> list (list R) -> triple R)
    epsd (M : list (list R)) d1 d2 n lam W flip ub iters sq eps U Sg V :
  rect d1 d2 M -> (1 <= d1)%nat ->
  let d := if (d2 <? d1)%nat then d1 else d2 in
  let Gm := if (d2 <? d1)%nat then mmul Rops d1 M (transp Rops d2 M) else mmul Rops d2 (transp Rops d2 M) M in
  (forall G0, length (fst (eigh G0)) = d /\ rect d d (snd (eigh G0))) ->
  eigh Gm = (lam, W) -> eigh_contract2 d Gm lam W -> ascending lam ->
  let k := n_kept d1 d2 n in
  (k <= Nat.min d1 d2)%nat ->
  (forall t, (t < k)%nat -> 0 <= epsd < nth (d - 1 - t) lam 0) ->
  (forall cl X, funs FSymeig cl X = symeig_svd Rops eigh sqrt epsd X d1 d2 n) ->
  svd_interface Rops funs MSymeig d2 M n flip ub None None iters sq eps = Ok (U, Sg, V) ->
  rank_le d1 d2 k (recon U Sg V) /\
  forall B, rank_le d1 d2 k B ->
    frob2 d1 d2 (fun i j => mg M i j - recon U Sg V i j) <= frob2 d1 d2 (fun i j => mg M i j - B i j).
Proof.
  intros HM Hd1 d Gm HSH HE HC ASC k Hk Heps HF E.
  destruct (interface_symeig_e2e eigh funs epsd M d1 d2 n lam W flip ub iters sq eps U Sg V HM Hd1 HSH HE HC Hk Heps HF E)
    as (LS & _).
  split; [exists (fun i t => mg U i t * nth t Sg 0), (mg V); intros i j _ _; unfold recon; now rewrite LS|].
  pose proof (symeig_shapes eigh sqrt epsd M d1 d2 n HM) as SH. cbv zeta in SH. fold k in SH.
  assert (P : Nat.min (Nat.min d1 d2) k = k) by lia.
  destruct (symeig_svd Rops eigh sqrt epsd M d1 d2 n) as [[U0 S0] V0] eqn:ES.
  assert (BEST : forall B, rank_le d1 d2 k B ->
            frob2 d1 d2 (fun i j => mg M i j - recon U0 S0 V0 i j) <= frob2 d1 d2 (fun i j => mg M i j - B i j)).
  { unfold d, Gm in *. destruct (Nat.ltb_spec d2 d1) as [Ht|Hw].
    - pose proof (symeig_tall_best eigh epsd M d1 d2 n lam W Ht HM HE HC ASC) as T. cbv zeta in T. fold k in T. rewrite P in T.
      rewrite ES in T. now apply T.
    - pose proof (symeig_wide_best eigh epsd M d1 d2 n lam W Hw HM HE HC ASC) as T. cbv zeta in T. fold k in T. rewrite P in T.
      rewrite ES in T. now apply T. }
  assert (FACTS : length S0 = k /\ orthonormal_cols d1 k (mg U0) /\ orthonormal_rows k d2 (mg V0)).
  { unfold d, Gm in *. destruct (Nat.ltb_spec d2 d1) as [Ht|Hw].
    - pose proof (symeig_tall_svd eigh epsd M d1 d2 n lam W Ht HM HE HC) as T. cbv zeta in T. fold k in T. rewrite P in T.
      rewrite ES in T. specialize (T Heps). destruct T as (A1 & _ & A3 & A4 & _). auto.
    - pose proof (symeig_wide_svd eigh epsd M d1 d2 n lam W Hw HM HE HC) as T. cbv zeta in T. fold k in T. rewrite P in T.
      rewrite ES in T. specialize (T Heps). destruct T as (A1 & _ & A3 & A4 & _). auto. }
  destruct FACTS as (LS0 & OU & OV).
  assert (HSH' : forall G0, let d0 := if (d2 <? d1)%nat then d1 else d2 in length (fst (eigh G0)) = d0 /\ rect d0 d0 (snd (eigh G0))) by exact HSH.
  specialize (SH HSH'). destruct SH as (RU & _ & RV).
  replace (Nat.min d1 k) with k in RU by lia. replace (Nat.min d2 k) with k in RV by lia.
  destruct (interface_generic funs MSymeig FSymeig d1 d2 M n flip ub iters sq eps U0 S0 V0 U Sg V k k)
    as (E1 & _ & _ & RC & _); try assumption; try reflexivity; try lia.
  { rewrite HF. exact ES. }
  intros B HB. rewrite (frob2_ext d1 d2 _ (fun i j => mg M i j - recon U0 S0 V0 i j)) by (intros i j _ _; now rewrite RC).
  now apply BEST.
Qed.

(* ================= round 6: masked end-to-end statements for symeig_svd and randomized_svd ================= *)
Definition gram_of (d1 d2 : nat) (X : list (list R)) : list (list R) :=
  if (d2 <? d1)%nat then mmul Rops d1 X (transp Rops d2 X) else mmul Rops d2 (transp Rops d2 X) X.

Lemma symeig_all (eigh : list (list R) -> list R * list (list R)) epsd (X : list (list R)) d1 d2 n lam W :
  rect d1 d2 X ->
  let d := if (d2 <? d1)%nat then d1 else d2 in
  (forall G0, length (fst (eigh G0)) = d /\ rect d d (snd (eigh G0))) ->
  eigh (gram_of d1 d2 X) = (lam, W) -> eigh_contract2 d (gram_of d1 d2 X) lam W ->
  let k := n_kept d1 d2 n in
  (k <= Nat.min d1 d2)%nat ->
  (forall t, (t < k)%nat -> 0 <= epsd < nth (d - 1 - t) lam 0) ->
  let '(U0, S0, V0) := symeig_svd Rops eigh sqrt epsd X d1 d2 n in
  rect d1 k U0 /\ rect k d2 V0 /\ length S0 = k /\
  (forall t, (t < k)%nat -> nth t S0 0 = sqrt (nth (d - 1 - t) lam 0) /\ 0 < nth t S0 0) /\
  orthonormal_cols d1 k (mg U0) /\ orthonormal_rows k d2 (mg V0) /\
  frob2 d1 d2 (fun i j => mg X i j - recon U0 S0 V0 i j) = rsum (d - k) (fun t => nth (d - 1 - (k + t)) lam 0).
Proof.
  intros HM d HSH HE HC k Hk Heps.
  pose proof (symeig_shapes eigh sqrt epsd X d1 d2 n HM) as SH. cbv zeta in SH. fold k in SH.
  assert (HSH' : forall G0, let d0 := if (d2 <? d1)%nat then d1 else d2 in length (fst (eigh G0)) = d0 /\ rect d0 d0 (snd (eigh G0))) by exact HSH.
  specialize (SH HSH').
  assert (P : Nat.min (Nat.min d1 d2) k = k) by lia.
  unfold d, gram_of in *. destruct (Nat.ltb_spec d2 d1) as [Ht|Hw].
  - pose proof (symeig_tall_svd eigh epsd X d1 d2 n lam W Ht HM HE HC) as T. cbv zeta in T. fold k in T. rewrite P in T.
    destruct (symeig_svd Rops eigh sqrt epsd X d1 d2 n) as [[U0 S0] V0]. specialize (T Heps).
    destruct SH as (RU & _ & RV). replace (Nat.min d1 k) with k in RU by lia. replace (Nat.min d2 k) with k in RV by lia.
    destruct T as (A1 & A2 & A3 & A4 & A5).
    split; [exact RU | split; [exact RV | split; [exact A1 | split; [exact A2 | split; [exact A3 | split; [exact A4 | exact A5]]]]]].
  - pose proof (symeig_wide_svd eigh epsd X d1 d2 n lam W Hw HM HE HC) as T. cbv zeta in T. fold k in T. rewrite P in T.
    destruct (symeig_svd Rops eigh sqrt epsd X d1 d2 n) as [[U0 S0] V0]. specialize (T Heps).
    destruct SH as (RU & _ & RV). replace (Nat.min d1 k) with k in RU by lia. replace (Nat.min d2 k) with k in RV by lia.
    destruct T as (A1 & A2 & A3 & A4 & A5).
    split; [exact RU | split; [exact RV | split; [exact A1 | split; [exact A2 | split; [exact A3 | split; [exact A4 | exact A5]]]]]].
Qed.

(* svd_interface(method = 'symeig_svd') with a mask: the sign-resolved symeig SVD of the LAST imputed matrix *)
Theorem interface_masked_symeig_e2e (eigh : list (list R) -> list R * list (list R)) (funs : fname -> nat -> list (list R) -> triple R)
    epsd (Ml mask : list (list R)) d1 d2 r flip ub iters sq eps U Sg V :
  rect d1 d2 Ml -> rect d1 d2 mask -> (1 <= d1)%nat -> (1 <= iters)%nat -> (r <= Nat.min d1 d2)%nat ->
  let d := if (d2 <? d1)%nat then d1 else d2 in
  (forall G0, length (fst (eigh G0)) = d /\ rect d d (snd (eigh G0))) ->
  (forall X, rect d1 d2 X ->
     eigh_contract2 d (gram_of d1 d2 X) (fst (eigh (gram_of d1 d2 X))) (snd (eigh (gram_of d1 d2 X))) /\
     forall t, (t < r)%nat -> 0 <= epsd < nth (d - 1 - t) (fst (eigh (gram_of d1 d2 X))) 0) ->
  (forall cl X, funs FSymeig cl X = symeig_svd Rops eigh sqrt epsd X d1 d2 (Some r)) ->
  svd_interface Rops funs MSymeig d2 Ml (Some r) flip ub None (Some mask) iters sq eps = Ok (U, Sg, V) ->
  exists Mlast,
    rect d1 d2 Mlast /\
    (forall i j, (i < d1)%nat -> (j < d2)%nat -> mg mask i j = 1 -> mg Mlast i j = mg Ml i j) /\
    let lam := fst (eigh (gram_of d1 d2 Mlast)) in
    length Sg = r /\
    (forall t, (t < r)%nat -> nth t Sg 0 = sqrt (nth (d - 1 - t) lam 0) /\ 0 < nth t Sg 0) /\
    orthonormal_cols d1 r (mg U) /\ orthonormal_rows r d2 (mg V) /\
    frob2 d1 d2 (fun i j => mg Mlast i j - recon U Sg V i j) = rsum (d - r) (fun t => nth (d - 1 - (r + t)) lam 0).
Proof.
  intros HM Hmask Hd1 Hit Hr d HSH HALL HF E.
  assert (K : n_kept d1 d2 (Some r) = r) by (rewrite n_kept_spec; lia).
  assert (ALL : forall X, rect d1 d2 X ->
            let '(U0, S0, V0) := symeig_svd Rops eigh sqrt epsd X d1 d2 (Some r) in
            rect d1 r U0 /\ rect r d2 V0 /\ length S0 = r /\
            (forall t, (t < r)%nat -> nth t S0 0 = sqrt (nth (d - 1 - t) (fst (eigh (gram_of d1 d2 X))) 0) /\ 0 < nth t S0 0) /\
            orthonormal_cols d1 r (mg U0) /\ orthonormal_rows r d2 (mg V0) /\
            frob2 d1 d2 (fun i j => mg X i j - recon U0 S0 V0 i j)
              = rsum (d - r) (fun t => nth (d - 1 - (r + t)) (fst (eigh (gram_of d1 d2 X))) 0)).
  { intros X HX. destruct (HALL X HX) as [HC He].
    destruct (eigh (gram_of d1 d2 X)) as [lam W] eqn:EE. cbn [fst snd] in HC, He |- *.
    pose proof (symeig_all eigh epsd X d1 d2 (Some r) lam W HX HSH EE HC) as T. cbv zeta in T. rewrite K in T.
    apply T; [lia | exact He]. }
  destruct (interface_masked_generic funs MSymeig FSymeig d1 d2 Ml mask r flip ub iters sq eps U Sg V r r)
    as (Mlast & c & U0 & S0 & V0 & R1 & O1 & EF & ES & OU & OV & RC & _); try assumption; try reflexivity.
  { intros c X HX. rewrite HF. specialize (ALL X HX). destruct (symeig_svd Rops eigh sqrt epsd X d1 d2 (Some r)) as [[U0 S0] V0].
    destruct ALL as (A1 & A2 & A3 & _ & A5 & A6 & _).
    split; [exact A1 | split; [exact A2 | split; [lia | split; [lia | split; [exact A5 | exact A6]]]]]. }
  exists Mlast. split; [exact R1 | split; [exact O1|]]. cbv zeta.
  specialize (ALL Mlast R1). rewrite HF in EF. rewrite EF in ALL. destruct ALL as (_ & _ & A3 & A4 & _ & _ & A7). subst Sg.
  split; [exact A3 | split; [exact A4 | split; [exact OU | split; [exact OV|]]]].
  rewrite <- A7. apply frob2_ext. intros i j _ _. now rewrite RC.
Qed.

(* svd_interface(method = 'randomized_svd'), non-transposed branch, with a mask: on the LAST imputed matrix the triple has orthonormal
   factors and is a best approximation of rank <= n_eigenvecs, PROVIDED the range finder's Q covers the range of every imputed matrix *)
Theorem interface_masked_randomized_direct_partial (svd : list (list R) -> bool -> triple R) (qr : nat -> list (list R) -> list (list R))
    (funs : fname -> nat -> list (list R) -> triple R) (G Ml mask : list (list R)) d1 d2 r n_over n_iter c flip ub iters sq eps U Sg V :
  rect d1 d2 Ml -> rect d1 d2 mask -> (1 <= d1)%nat -> (1 <= iters)%nat ->
  let k := n_kept d1 d2 (Some r) in
  dec_rand_transposed d1 d2 k (Nat.min d1 d2) (dec_rand_ndims k n_over (Nat.max d1 d2)) = false ->
  (forall X, rect d1 d2 X ->
     let Q := range_finder Rops qr X d2 G n_iter in
     rect d1 c Q /\ orthonormal_cols d1 c (mg Q) /\ covers d1 d2 c (mg X) (mg Q) /\
     forall f, svd_contract c d2 (mg (mmul Rops d2 (transp Rops c Q) X)) f (svd (mmul Rops d2 (transp Rops c Q) X) f)) ->
  (forall cl X, funs FRandomized cl X = randomized_svd Rops svd qr G X d1 d2 (Some r) n_over n_iter) ->
  svd_interface Rops funs MRandomized d2 Ml (Some r) flip ub None (Some mask) iters sq eps = Ok (U, Sg, V) ->
  let kk := Nat.min k (Nat.max c d2) in
  exists Mlast,
    rect d1 d2 Mlast /\
    (forall i j, (i < d1)%nat -> (j < d2)%nat -> mg mask i j = 1 -> mg Mlast i j = mg Ml i j) /\
    nonneg_list Sg /\ nonincreasing Sg /\
    orthonormal_cols d1 (Nat.min kk c) (mg U) /\ orthonormal_rows (Nat.min kk d2) d2 (mg V) /\
    (forall B, rank_le d1 d2 k B ->
       frob2 d1 d2 (fun i j => mg Mlast i j - recon U Sg V i j) <= frob2 d1 d2 (fun i j => mg Mlast i j - B i j)).
Proof.
  intros HM Hmask Hd1 Hit k HB HALL HF E kk.
  assert (ALL : forall X, rect d1 d2 X -> forall U0 S0 V0, randomized_svd Rops svd qr G X d1 d2 (Some r) n_over n_iter = (U0, S0, V0) ->
            shape3 (U0, S0, V0) d1 (Nat.min kk c) (Nat.min kk (Nat.min c d2)) (Nat.min kk d2) d2 /\
            nonneg_list S0 /\ nonincreasing S0 /\
            orthonormal_cols d1 (Nat.min kk c) (mg U0) /\ orthonormal_rows (Nat.min kk d2) d2 (mg V0) /\
            (forall B, rank_le d1 d2 k B ->
               frob2 d1 d2 (fun i j => mg X i j - recon U0 S0 V0 i j) <= frob2 d1 d2 (fun i j => mg X i j - B i j))).
  { intros X HX U0 S0 V0 ER. destruct (HALL X HX) as (RQ & OQ & CQ & HS).
    destruct (randomized_svd_direct_partial svd qr G X d1 d2 (Some r) n_over n_iter c U0 S0 V0 HX Hd1 HB RQ OQ CQ HS ER)
      as (SH & _ & N1 & N2 & OU & OV & _ & BA).
    split; [exact SH | split; [exact N1 | split; [exact N2 | split; [exact OU | split; [exact OV | exact BA]]]]]. }
  destruct (interface_masked_generic funs MRandomized FRandomized d1 d2 Ml mask r flip ub iters sq eps U Sg V (Nat.min kk c) (Nat.min kk d2))
    as (Mlast & cl & U0 & S0 & V0 & R1 & O1 & EF & ES & OU & OV & RC & _); try assumption; try reflexivity.
  { intros cl X HX. rewrite HF. destruct (randomized_svd Rops svd qr G X d1 d2 (Some r) n_over n_iter) as [[U0 S0] V0] eqn:ER.
    destruct (ALL X HX U0 S0 V0 ER) as ((RU & LS & RV) & _ & _ & A4 & A5 & _).
    split; [exact RU | split; [exact RV | split; [rewrite LS; lia | split; [rewrite LS; lia | split; [exact A4 | exact A5]]]]]. }
  exists Mlast. split; [exact R1 | split; [exact O1|]].
  rewrite HF in EF. destruct (ALL Mlast R1 U0 S0 V0 EF) as (_ & N1 & N2 & _ & _ & BA). subst Sg.
  split; [exact N1 | split; [exact N2 | split; [exact OU | split; [exact OV|]]]].
  intros B HBk. rewrite (frob2_ext d1 d2 _ (fun i j => mg Mlast i j - recon U0 S0 V0 i j)) by (intros i j _ _; now rewrite RC).
  now apply BA.
Qed.

(* the non_negative step does not touch the singular values: with and without the option svd_interface returns the same S *)
Theorem interface_nn_same_S (funs : fname -> nat -> list (list R) -> triple R) meth d2 Ml n flip ub ty mask iters sq eps U S V U' S' V' :
  svd_interface Rops funs meth d2 Ml n flip ub (Some ty) mask iters sq eps = Ok (U, S, V) ->
  svd_interface Rops funs meth d2 Ml n flip ub None mask iters sq eps = Ok (U', S', V') -> S = S'.
Proof.
  unfold svd_interface. destruct (dispatch meth) as [fn|]; [|discriminate].
  destruct (match mask with
            | Some msk => match n with
                          | Some _ => mask_loop Rops (funs fn) d2 msk iters 1 Ml (funs fn 0%nat Ml)
                          | None => (Ml, funs fn 0%nat Ml) end
            | None => (Ml, funs fn 0%nat Ml) end) as [M1 [[U1 S1] V1]].
  destruct (if flip then svd_flip Rops U1 V1 ub else (U1, V1)) as [U2 V2].
  destruct (make_svd_non_negative Rops sq eps M1 U2 S1 V2 ty) as [W H].
  intros E1 E2. inversion E1; inversion E2; subst. reflexivity.
Qed.

(* the transposed branch under a mask *)
Theorem interface_masked_randomized_transposed_partial (svd : list (list R) -> bool -> triple R) (qr : nat -> list (list R) -> list (list R))
    (funs : fname -> nat -> list (list R) -> triple R) (G Ml mask : list (list R)) d1 d2 r n_over n_iter c flip ub iters sq eps U Sg V :
  rect d1 d2 Ml -> rect d1 d2 mask -> (1 <= d1)%nat -> (1 <= d2)%nat -> (1 <= iters)%nat ->
  let k := n_kept d1 d2 (Some r) in
  dec_rand_transposed d1 d2 k (Nat.min d1 d2) (dec_rand_ndims k n_over (Nat.max d1 d2)) = true ->
  (forall X, rect d1 d2 X ->
     let Q := range_finder Rops qr (transp Rops d2 X) d1 G n_iter in
     let Mred := transp Rops d1 (mmul Rops d1 (transp Rops c Q) (transp Rops d2 X)) in
     rect d2 c Q /\ orthonormal_cols d2 c (mg Q) /\ coversT d1 d2 c (mg X) (mg Q) /\
     forall f, svd_contract d1 c (mg Mred) f (svd Mred f)) ->
  (forall cl X, funs FRandomized cl X = randomized_svd Rops svd qr G X d1 d2 (Some r) n_over n_iter) ->
  svd_interface Rops funs MRandomized d2 Ml (Some r) flip ub None (Some mask) iters sq eps = Ok (U, Sg, V) ->
  let kk := Nat.min k (Nat.max d1 c) in
  exists Mlast,
    rect d1 d2 Mlast /\
    (forall i j, (i < d1)%nat -> (j < d2)%nat -> mg mask i j = 1 -> mg Mlast i j = mg Ml i j) /\
    nonneg_list Sg /\ nonincreasing Sg /\
    orthonormal_cols d1 (Nat.min kk d1) (mg U) /\ orthonormal_rows (Nat.min kk c) d2 (mg V) /\
    (forall B, rank_le d1 d2 k B ->
       frob2 d1 d2 (fun i j => mg Mlast i j - recon U Sg V i j) <= frob2 d1 d2 (fun i j => mg Mlast i j - B i j)).
Proof.
  intros HM Hmask Hd1 Hd2 Hit k HB HALL HF E kk.
  assert (ALL : forall X, rect d1 d2 X -> forall U0 S0 V0, randomized_svd Rops svd qr G X d1 d2 (Some r) n_over n_iter = (U0, S0, V0) ->
            shape3 (U0, S0, V0) d1 (Nat.min kk d1) (Nat.min kk (Nat.min d1 c)) (Nat.min kk c) d2 /\
            nonneg_list S0 /\ nonincreasing S0 /\
            orthonormal_cols d1 (Nat.min kk d1) (mg U0) /\ orthonormal_rows (Nat.min kk c) d2 (mg V0) /\
            (forall B, rank_le d1 d2 k B ->
               frob2 d1 d2 (fun i j => mg X i j - recon U0 S0 V0 i j) <= frob2 d1 d2 (fun i j => mg X i j - B i j))).
  { intros X HX U0 S0 V0 ER. destruct (HALL X HX) as (RQ & OQ & CQ & HS).
    destruct (randomized_svd_transposed_partial svd qr G X d1 d2 (Some r) n_over n_iter c U0 S0 V0 HX Hd2 HB RQ OQ CQ HS ER)
      as (SH & _ & N1 & N2 & OU & OV & _ & BA).
    split; [exact SH | split; [exact N1 | split; [exact N2 | split; [exact OU | split; [exact OV | exact BA]]]]]. }
  destruct (interface_masked_generic funs MRandomized FRandomized d1 d2 Ml mask r flip ub iters sq eps U Sg V (Nat.min kk d1) (Nat.min kk c))
    as (Mlast & cl & U0 & S0 & V0 & R1 & O1 & EF & ES & OU & OV & RC & _); try assumption; try reflexivity.
  { intros cl X HX. rewrite HF. destruct (randomized_svd Rops svd qr G X d1 d2 (Some r) n_over n_iter) as [[U0 S0] V0] eqn:ER.
    destruct (ALL X HX U0 S0 V0 ER) as ((RU & LS & RV) & _ & _ & A4 & A5 & _).
    split; [exact RU | split; [exact RV | split; [rewrite LS; lia | split; [rewrite LS; lia | split; [exact A4 | exact A5]]]]]. }
  exists Mlast. split; [exact R1 | split; [exact O1|]].
  rewrite HF in EF. destruct (ALL Mlast R1 U0 S0 V0 EF) as (_ & N1 & N2 & _ & _ & BA). subst Sg.
  split; [exact N1 | split; [exact N2 | split; [exact OU | split; [exact OV|]]]].
  intros B HBk. rewrite (frob2_ext d1 d2 _ (fun i j => mg Mlast i j - recon U0 S0 V0 i j)) by (intros i j _ _; now rewrite RC).
  now apply BA.
Qed.
