(* C05, svd_interface end to end for method = truncated_svd (no mask, no non_negative), n_eigenvecs <= min(shape):
   composition of the truncated_svd and svd_flip theorems through the dispatch function of the model. *)
From Coq Require Import List Arith Lia Bool Reals Lra.
From TLV Require Import Base.Ops Base.Tensor Base.RSum Model.Svd Proofs.SvdProofsAux Proofs.SvdProofs.
Import ListNotations.
Local Open Scope R_scope.

(* what the dispatch does when there is neither a mask nor the non_negative option *)
Lemma interface_unfold (f : nat -> list (list R) -> triple R) meth d2 Ml n flip ub iters sq eps :
  meth <> MUnknown ->
  svd_interface Rops f meth d2 Ml n flip ub None None iters sq eps =
  Ok (let '(U0, S0, V0) := f 0%nat Ml in
      let '(U, V) := if flip then svd_flip Rops U0 V0 ub else (U0, V0) in (U, S0, V)).
Proof.
  intros Hm. unfold svd_interface.
  destruct meth; try congruence; destruct (f 0%nat Ml) as [[U0 S0] V0];
    (destruct flip; [destruct (svd_flip Rops U0 V0 ub) as [U V]|]; reflexivity).
Qed.
Lemma interface_unknown (f : nat -> list (list R) -> triple R) d2 Ml n flip ub nn mask iters sq eps :
  svd_interface Rops f MUnknown d2 Ml n flip ub nn mask iters sq eps = Err.
Proof. reflexivity. Qed.

Lemma rect_ncols {A} r c (M : list (list A)) : rect r c M -> (0 < r)%nat -> ncols M = c.
Proof.
  intros [L F] Hr. destruct M as [|x M]; [cbn in L; lia|]. unfold ncols. cbn [hd]. now inversion F.
Qed.

Lemma svd_contract_shape d1 d2 Mf f (t : triple R) : svd_contract d1 d2 Mf f t -> shape_contract d1 d2 f t.
Proof. destruct t as [[U0 S0] V0]. intros H. exact (proj1 H). Qed.

Theorem interface_truncated_e2e (oracle : bool -> triple R) d1 d2 (Mf : nat -> nat -> R) (Ml : list (list R))
    r flip ub iters sq eps U S V :
  (forall f, svd_contract d1 d2 Mf f (oracle f)) ->
  (1 <= r <= Nat.min d1 d2)%nat ->
  svd_interface Rops (fun _ _ => truncated_svd oracle d1 d2 (Some r)) MTruncated d2 Ml (Some r) flip ub None None iters sq eps
    = Ok (U, S, V) ->
  S = firstn r (snd (fst (oracle false))) /\ nonneg_list S /\ nonincreasing S /\
  orthonormal_cols d1 r (mg U) /\ orthonormal_rows r d2 (mg V) /\
  rsum d1 (fun i => rsum d2 (fun j => (Mf i j - recon U S V i j)^2))
    = rsum (Nat.min d1 d2 - r) (fun t => (nth (r + t) (snd (fst (oracle false))) 0)^2).
Proof.
  intros HC Hr E. rewrite interface_unfold in E by discriminate.
  assert (K : n_kept d1 d2 (Some r) = r) by (rewrite n_kept_spec; lia).
  assert (FF : full_flag d1 d2 (Some r) = false) by (unfold full_flag; rewrite K; apply Nat.ltb_ge; lia).
  pose proof (truncated_shapes_documented R oracle d1 d2 r (fun f => svd_contract_shape _ _ _ _ _ (HC f)) ltac:(lia)) as SH.
  pose proof (truncated_S_prefix R oracle d1 d2 (Some r)) as SP. rewrite K, FF in SP.
  pose proof (truncated_S_ordered oracle d1 d2 (Some r)) as SO.
  pose proof (truncated_orthonormal oracle d1 d2 Mf (Some r) HC) as OO.
  pose proof (truncated_error oracle d1 d2 Mf (Some r) HC) as EE. cbv zeta in OO, EE. rewrite K in OO, EE. rewrite FF in EE.
  assert (SOH : forall f, nonneg_list (snd (fst (oracle f))) /\ nonincreasing (snd (fst (oracle f)))).
  { intros f. specialize (HC f). destruct (oracle f) as [[U0 S0] V0]. destruct HC as (_ & _ & _ & N1 & N2 & _). now split. }
  specialize (SO SOH). cbv zeta in SO. destruct SO as (SO1 & SO2 & _).
  destruct (truncated_svd oracle d1 d2 (Some r)) as [[U0 S0] V0] eqn:T. cbn [fst snd] in SP, SO1, SO2.
  destruct SH as (RU & LS & RV). destruct OO as [OU OV].
  replace (Nat.min r d1) with r in OU by lia. replace (Nat.min r d2) with r in OV by lia.
  assert (NU : ncols U0 = r) by (apply (rect_ncols d1 r U0 RU); lia).
  destruct RU as [LU _]. destruct RV as [LV _].
  destruct flip.
  - destruct (svd_flip Rops U0 V0 ub) as [U1 V1] eqn:FL. inversion E; subst U S V. clear E.
    split; [exact SP | split; [exact SO1 | split; [exact SO2|]]].
    destruct (flip_orthonormal U0 V0 ub U1 V1 d2 FL ltac:(lia)) as [O1 O2].
    { rewrite LU, NU. exact OU. } { rewrite LV. exact OV. }
    rewrite LU, NU in O1. rewrite LV in O2. split; [exact O1 | split; [exact O2|]].
    rewrite <- EE. apply rsum_ext; intros i _. apply rsum_ext; intros j _. f_equal. f_equal. unfold recon.
    apply (flip_product U0 V0 ub U1 V1 (fun t => nth t S0 0) (length S0) FL); try lia.
    intros t Ht. rewrite LS in Ht. destruct ub.
    + rewrite LU. now apply (orthonormal_col_nonzero d1 r (mg U0) t Ht OU).
    + now apply (orthonormal_row_nonzero r d2 (mg V0) t Ht OV).
  - inversion E; subst U S V. clear E.
    split; [exact SP | split; [exact SO1 | split; [exact SO2 | split; [exact OU | split; [exact OV | exact EE]]]]].
Qed.
