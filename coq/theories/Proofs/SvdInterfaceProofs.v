(* C05, svd_interface end to end for method = truncated_svd (no mask, no non_negative), n_eigenvecs <= min(shape):
   composition of the truncated_svd and svd_flip theorems through the dispatch function of the model. *)
From Coq Require Import List Arith Lia Bool Reals Lra.
From TLV Require Import Base.Ops Base.Tensor Base.RSum Model.Svd Proofs.SvdProofsAux Proofs.SvdProofs.
Import ListNotations.
Local Open Scope R_scope.

(* what svd_interface does when there is neither a mask nor the non_negative option: the function selected by the
   dispatch table is run once on the matrix and its answer is sign-flipped iff flip_sign *)
Lemma interface_unfold (funs : fname -> nat -> list (list R) -> triple R) meth fn d2 Ml n flip ub iters sq eps :
  dispatch meth = Some fn ->
  svd_interface Rops funs meth d2 Ml n flip ub None None iters sq eps =
  Ok (let '(U0, S0, V0) := funs fn 0%nat Ml in
      let '(U, V) := if flip then svd_flip Rops U0 V0 ub else (U0, V0) in (U, S0, V)).
Proof.
  intros Hm. unfold svd_interface. rewrite Hm. destruct (funs fn 0%nat Ml) as [[U0 S0] V0].
  destruct flip; [destruct (svd_flip Rops U0 V0 ub) as [U V]|]; reflexivity.
Qed.
(* the dispatch table: which function a method name selects; an unknown name is rejected *)
Lemma dispatch_table :
  dispatch MTruncated = Some FTruncated /\ dispatch MSymeig = Some FSymeig /\ dispatch MRandomized = Some FRandomized /\
  dispatch MCallable = Some FUser /\ dispatch MUnknown = None.
Proof. repeat split. Qed.
Lemma interface_unknown (funs : fname -> nat -> list (list R) -> triple R) d2 Ml n flip ub nn mask iters sq eps :
  svd_interface Rops funs MUnknown d2 Ml n flip ub nn mask iters sq eps = Err.
Proof. reflexivity. Qed.
(* only the selected function is consulted: two function tables that agree on it give the same result *)
Lemma interface_only_selected (funs funs' : fname -> nat -> list (list R) -> triple R) meth fn d2 Ml n flip ub nn mask iters sq eps :
  dispatch meth = Some fn -> (forall c X, funs fn c X = funs' fn c X) ->
  svd_interface Rops funs meth d2 Ml n flip ub nn mask iters sq eps = svd_interface Rops funs' meth d2 Ml n flip ub nn mask iters sq eps.
Proof.
  intros Hm E. unfold svd_interface. rewrite Hm. rewrite (E 0%nat Ml).
  assert (L : forall it call M t, mask_loop Rops (funs fn) d2 (match mask with Some m => m | None => [] end) it call M t
                               = mask_loop Rops (funs' fn) d2 (match mask with Some m => m | None => [] end) it call M t).
  { induction it as [|it IH]; intros call M t; cbn [mask_loop]; [reflexivity|]. destruct t as [[U S0] V]. rewrite E. apply IH. }
  destruct mask as [msk|]; [destruct n as [r|]|]; try reflexivity. cbn [mask_loop] in L. rewrite L. reflexivity.
Qed.

Lemma rect_ncols {A} r c (M : list (list A)) : rect r c M -> (0 < r)%nat -> ncols M = c.
Proof.
  intros [L F] Hr. destruct M as [|x M]; [cbn in L; lia|]. unfold ncols. cbn [hd]. now inversion F.
Qed.

Lemma svd_contract_shape d1 d2 Mf f (t : triple R) : svd_contract d1 d2 Mf f t -> shape_contract d1 d2 f t.
Proof. destruct t as [[U0 S0] V0]. intros H. exact (proj1 H). Qed.

Theorem interface_truncated_e2e (orc : list (list R) -> bool -> triple R) (funs : fname -> nat -> list (list R) -> triple R)
    d1 d2 (Ml : list (list R)) r flip ub iters sq eps U S V :
  (forall f, svd_contract d1 d2 (mg Ml) f (orc Ml f)) ->
  (forall c X, funs FTruncated c X = truncated_svd (orc X) d1 d2 (Some r)) ->
  (1 <= r <= Nat.min d1 d2)%nat ->
  svd_interface Rops funs MTruncated d2 Ml (Some r) flip ub None None iters sq eps = Ok (U, S, V) ->
  S = firstn r (snd (fst (orc Ml false))) /\ nonneg_list S /\ nonincreasing S /\
  orthonormal_cols d1 r (mg U) /\ orthonormal_rows r d2 (mg V) /\
  rsum d1 (fun i => rsum d2 (fun j => (mg Ml i j - recon U S V i j)^2))
    = rsum (Nat.min d1 d2 - r) (fun t => (nth (r + t) (snd (fst (orc Ml false))) 0)^2).
Proof.
  intros HC HF Hr E. rewrite (interface_unfold funs MTruncated FTruncated) in E by reflexivity. rewrite HF in E.
  set (oracle := orc Ml) in *. set (Mf := mg Ml) in *.
  assert (K : n_kept d1 d2 (Some r) = r) by (rewrite n_kept_spec; lia).
  assert (FF : full_flag d1 d2 (Some r) = false) by (unfold full_flag; rewrite K; apply Nat.ltb_ge; lia).
  pose proof (truncated_shapes_documented R oracle d1 d2 r (fun f => svd_contract_shape _ _ _ _ _ (HC f)) ltac:(lia)) as SH.
  pose proof (truncated_S_prefix R oracle d1 d2 (Some r)) as SP. rewrite K, FF in SP.
  pose proof (truncated_S_ordered oracle d1 d2 (Some r)) as SO.
  pose proof (truncated_orthonormal oracle d1 d2 Mf (Some r) HC) as OO.
  pose proof (truncated_error oracle d1 d2 Mf (Some r) HC) as EE. cbv zeta in OO, EE. rewrite K in OO, EE. rewrite FF in EE.
  assert (SOH : forall f, nonneg_list (snd (fst (oracle f))) /\ nonincreasing (snd (fst (oracle f)))).
  { intros f. specialize (HC f). destruct (oracle f) as [[U0 S0] V0]. destruct HC as (_ & _ & _ & N1 & N2 & _). now split. }
  specialize (SO SOH). cbv zeta in SO. destruct SO as (SO1 & SO2 & _).
  destruct (truncated_svd oracle d1 d2 (Some r)) as [[U0 S0] V0] eqn:T. cbn [fst snd] in SP, SO1, SO2.
  destruct SH as (RU & LS & RV). destruct OO as [OU OV].
  replace (Nat.min r d1) with r in OU by lia. replace (Nat.min r d2) with r in OV by lia.
  assert (NU : ncols U0 = r) by (apply (rect_ncols d1 r U0 RU); lia).
  destruct RU as [LU _]. destruct RV as [LV _].
  destruct flip.
  - destruct (svd_flip Rops U0 V0 ub) as [U1 V1] eqn:FL. inversion E; subst U S V. clear E.
    split; [exact SP | split; [exact SO1 | split; [exact SO2|]]].
    destruct (flip_orthonormal U0 V0 ub U1 V1 d2 FL ltac:(lia)) as [O1 O2].
    { rewrite LU, NU. exact OU. } { rewrite LV. exact OV. }
    rewrite LU, NU in O1. rewrite LV in O2. split; [exact O1 | split; [exact O2|]].
    rewrite <- EE. apply rsum_ext; intros i _. apply rsum_ext; intros j _. f_equal. f_equal. unfold recon.
    apply (flip_product U0 V0 ub U1 V1 (fun t => nth t S0 0) (length S0) FL); try lia.
    intros t Ht. rewrite LS in Ht. destruct ub.
    + rewrite LU. now apply (orthonormal_col_nonzero d1 r (mg U0) t Ht OU).
    + now apply (orthonormal_row_nonzero r d2 (mg V0) t Ht OV).
  - inversion E; subst U S V. clear E.
    split; [exact SP | split; [exact SO1 | split; [exact SO2 | split; [exact OU | split; [exact OV | exact EE]]]]].
Qed.

(* ---------- flip keeps orthonormality also when U has fewer / more columns than V has rows (n_eigenvecs > min(shape)) ---------- *)
Theorem flip_orthonormal_gen U V ub U' V' n : svd_flip Rops U V ub = (U', V') ->
  orthonormal_cols (length U) (ncols U) (mg U) -> orthonormal_rows (length V) n (mg V) ->
  orthonormal_cols (length U) (ncols U) (mg U') /\ orthonormal_rows (length V) n (mg V').
Proof.
  intros E OU OV.
  assert (G : exists gu gv : nat -> R,
            (forall t, (t < ncols U)%nat -> gu t * gu t = 1) /\ (forall t, (t < length V)%nat -> gv t * gv t = 1) /\
            (forall i t, (t < ncols U)%nat -> mg U' i t = mg U i t * gu t) /\
            (forall t j, (t < length V)%nat -> mg V' t j = mg V t j * gv t)).
  { destruct ub.
    - destruct (flip_u_entries _ _ _ _ E) as [EU EV].
      assert (forall t, (t < ncols U)%nat -> su U t * su U t = 1) as Q.
      { intros t Ht. apply fsign_sq. apply col_deciding_nonzero. now apply (orthonormal_col_nonzero _ _ _ _ Ht OU). }
      exists (su U), (fun t => if (t <? ncols U)%nat then su U t else 1). split; [exact Q | split; [|split]].
      + intros t _. destruct (Nat.ltb_spec t (ncols U)); [now apply Q | ring].
      + exact EU.
      + exact EV.
    - destruct (flip_v_entries _ _ _ _ E) as [EV EU].
      assert (forall t, (t < length V)%nat -> sv V t * sv V t = 1) as Q.
      { intros t Ht. apply fsign_sq. apply row_deciding_nonzero. now apply (orthonormal_row_nonzero _ _ _ _ Ht OV). }
      exists (fun t => if (t <? length V)%nat then sv V t else 1), (sv V). split; [|split; [exact Q | split]].
      + intros t _. destruct (Nat.ltb_spec t (length V)); [now apply Q | ring].
      + exact EU.
      + intros t j _. apply EV. }
  destruct G as (gu & gv & Qu & Qv & GU & GV). split.
  - intros a b Ha Hb.
    rewrite (rsum_ext _ _ (fun i => (gu a * gu b) * (mg U i a * mg U i b))) by (intros; rewrite !GU by assumption; ring).
    rewrite rsum_scale, OU by assumption. destruct (Nat.eqb_spec a b) as [->|]; [rewrite Qu by assumption|]; ring.
  - intros a b Ha Hb.
    rewrite (rsum_ext _ _ (fun j => (gv a * gv b) * (mg V a j * mg V b j))) by (intros; rewrite !GV by assumption; ring).
    rewrite rsum_scale, OV by assumption. destruct (Nat.eqb_spec a b) as [->|]; [rewrite Qv by assumption|]; ring.
Qed.

(* ---------- end to end for EVERY n_eigenvecs (None, 0, > min(shape), > max(shape)) ---------- *)
Theorem interface_truncated_e2e_gen (orc : list (list R) -> bool -> triple R) (funs : fname -> nat -> list (list R) -> triple R)
    d1 d2 (Ml : list (list R)) n flip ub iters sq eps U Sg V :
  (forall f, svd_contract d1 d2 (mg Ml) f (orc Ml f)) ->
  (forall c X, funs FTruncated c X = truncated_svd (orc X) d1 d2 n) -> (1 <= d1)%nat ->
  svd_interface Rops funs MTruncated d2 Ml n flip ub None None iters sq eps = Ok (U, Sg, V) ->
  let k := n_kept d1 d2 n in
  let So := snd (fst (orc Ml (full_flag d1 d2 n))) in
  Sg = firstn k So /\ nonneg_list Sg /\ nonincreasing Sg /\
  orthonormal_cols d1 (Nat.min k d1) (mg U) /\ orthonormal_rows (Nat.min k d2) d2 (mg V) /\
  rsum d1 (fun i => rsum d2 (fun j => (mg Ml i j - recon U Sg V i j)^2))
    = rsum (Nat.min d1 d2 - k) (fun t => (nth (k + t) So 0)^2).
Proof.
  intros HC HF Hd1 E k So. rewrite (interface_unfold funs MTruncated FTruncated) in E by reflexivity. rewrite HF in E.
  set (oracle := orc Ml) in *. set (Mf := mg Ml) in *.
  pose proof (truncated_shapes R oracle d1 d2 n (fun f => svd_contract_shape _ _ _ _ _ (HC f))) as SH.
  pose proof (truncated_S_prefix R oracle d1 d2 n) as SP.
  pose proof (truncated_S_ordered oracle d1 d2 n) as SO.
  pose proof (truncated_orthonormal oracle d1 d2 Mf n HC) as OO.
  pose proof (truncated_error oracle d1 d2 Mf n HC) as EE. cbv zeta in SH, OO, EE. fold k in SH, SP, OO, EE. fold So in SP, EE.
  assert (SOH : forall f, nonneg_list (snd (fst (oracle f))) /\ nonincreasing (snd (fst (oracle f)))).
  { intros f. specialize (HC f). destruct (oracle f) as [[U0 S0] V0]. destruct HC as (_ & _ & _ & N1 & N2 & _). now split. }
  specialize (SO SOH). cbv zeta in SO. destruct SO as (SO1 & SO2 & _).
  destruct (truncated_svd oracle d1 d2 n) as [[U0 S0] V0] eqn:T. cbn [fst snd] in SP, SO1, SO2.
  destruct SH as (RU & LS & RV). destruct OO as [OU OV].
  assert (NU : ncols U0 = Nat.min k d1) by (apply (rect_ncols d1 _ U0 RU); lia).
  destruct RU as [LU _]. destruct RV as [LV _].
  destruct flip.
  - destruct (svd_flip Rops U0 V0 ub) as [U1 V1] eqn:FL. inversion E; subst U Sg V. clear E.
    split; [exact SP | split; [exact SO1 | split; [exact SO2|]]].
    destruct (flip_orthonormal_gen U0 V0 ub U1 V1 d2 FL) as [O1 O2].
    { rewrite LU, NU. exact OU. } { rewrite LV. exact OV. }
    rewrite LU, NU in O1. rewrite LV in O2. split; [exact O1 | split; [exact O2|]].
    rewrite <- EE. apply rsum_ext; intros i _. apply rsum_ext; intros j _. f_equal. f_equal. unfold recon.
    apply (flip_product U0 V0 ub U1 V1 (fun t => nth t S0 0) (length S0) FL); try lia.
    intros t Ht. rewrite LS in Ht. destruct ub.
    + rewrite LU. apply (orthonormal_col_nonzero d1 (Nat.min k d1) (mg U0) t); [lia | exact OU].
    + apply (orthonormal_row_nonzero (Nat.min k d2) d2 (mg V0) t); [lia | exact OV].
  - inversion E; subst U Sg V. clear E.
    split; [exact SP | split; [exact SO1 | split; [exact SO2 | split; [exact OU | split; [exact OV | exact EE]]]]].
Qed.

(* ---------- "best approximation of that rank": as far as it goes without Eckart-Young ----------
   The Eckart-Young-Mirsky inequality itself (no matrix of rank <= k is closer to M in Frobenius norm than the sum of the
   discarded squared singular values) is NOT available in any installed library and is NOT proved here: it is the named
   Section hypothesis eckart_young; the theorem below is therefore _partial. *)
Section EckartYoung.
Variables (d1 d2 : nat) (Mf : nat -> nat -> R).
Definition frob2 (X : nat -> nat -> R) : R := rsum d1 (fun i => rsum d2 (fun j => (X i j)^2)).
Definition rank_le (k : nat) (B : nat -> nat -> R) : Prop :=
  exists X Y : nat -> nat -> R, forall i j, (i < d1)%nat -> (j < d2)%nat -> B i j = rsum k (fun t => X i t * Y t j).
Hypothesis eckart_young : forall (s : list R) (U V : list (list R)),
  svd_contract d1 d2 Mf false (U, s, V) ->
  forall k B, rank_le k B ->
  rsum (Nat.min d1 d2 - k) (fun t => (nth (k + t) s 0)^2) <= frob2 (fun i j => Mf i j - B i j).

Theorem interface_best_approx_partial (orc : list (list R) -> bool -> triple R) (funs : fname -> nat -> list (list R) -> triple R)
    (Ml : list (list R)) r flip ub iters sq eps U Sg V :
  Mf = mg Ml ->
  (forall f, svd_contract d1 d2 (mg Ml) f (orc Ml f)) ->
  (forall c X, funs FTruncated c X = truncated_svd (orc X) d1 d2 (Some r)) -> (1 <= r <= Nat.min d1 d2)%nat ->
  svd_interface Rops funs MTruncated d2 Ml (Some r) flip ub None None iters sq eps = Ok (U, Sg, V) ->
  rank_le r (recon U Sg V) /\
  forall B, rank_le r B -> frob2 (fun i j => Mf i j - recon U Sg V i j) <= frob2 (fun i j => Mf i j - B i j).
Proof.
  intros EM HC HF Hr E. destruct (interface_truncated_e2e orc funs d1 d2 Ml r flip ub iters sq eps U Sg V HC HF Hr E) as (ES & _ & _ & _ & _ & EE).
  assert (LS : length Sg = r).
  { rewrite ES, firstn_length. specialize (HC false). destruct (orc Ml false) as [[U0 S0] V0]. cbn [fst snd].
    destruct HC as ((_ & L & _) & _). rewrite L. lia. }
  split.
  - exists (fun i t => mg U i t * nth t Sg 0), (mg V). intros i j _ _. unfold recon. now rewrite LS.
  - intros B HB. unfold frob2 at 1. rewrite EM. rewrite EE. specialize (HC false). rewrite <- EM in HC.
    destruct (orc Ml false) as [[U0 S0] V0] eqn:EO. cbn [fst snd]. rewrite <- EM. now apply (eckart_young S0 U0 V0 HC r B HB).
Qed.
End EckartYoung.
