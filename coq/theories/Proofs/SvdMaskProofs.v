(* C05, mask imputation loop of svd_interface over R: every imputed matrix keeps the observed entries of the input, and
   what svd_interface returns under a mask is the (sign-resolved) SVD of the LAST imputed matrix. *)
From Coq Require Import List Arith Lia Bool Reals Lra.
From TLV Require Import Base.Ops Base.Tensor Base.RSum Model.Svd Proofs.SvdProofsAux Proofs.SvdProofs Proofs.SvdInterfaceProofs
     Proofs.SvdSymeigFull.
Import ListNotations.
Local Open Scope R_scope.

Lemma nth_combine_lt {A B} : forall (l : list A) (l' : list B) n d d', (n < length l)%nat -> (n < length l')%nat ->
  nth n (combine l l') (d, d') = (nth n l d, nth n l' d').
Proof.
  induction l as [|x l IH]; intros [|y l'] n d d' H H'; cbn in *; try lia.
  destruct n; [reflexivity|]. apply IH; lia.
Qed.

Lemma rect_mzip (f : R -> R -> R) r c X Y : rect r c X -> rect r c Y -> rect r c (mzip f X Y).
Proof.
  intros [LX FX] [LY FY]. unfold mzip. split.
  - rewrite map_length, combine_length. lia.
  - apply Forall_map, Forall_forall. intros [a b] Hin. cbn [fst snd].
    rewrite map_length, combine_length.
    pose proof (in_combine_l _ _ _ _ Hin) as Ha. pose proof (in_combine_r _ _ _ _ Hin) as Hb.
    rewrite Forall_forall in FX, FY. rewrite (FX a Ha), (FY b Hb). lia.
Qed.

Lemma mg_mzip (f : R -> R -> R) r c X Y i j : rect r c X -> rect r c Y -> (i < r)%nat -> (j < c)%nat ->
  mg (mzip f X Y) i j = f (mg X i j) (mg Y i j).
Proof.
  intros HX HY Hi Hj. pose proof (rect_row r c X i HX Hi) as RX. pose proof (rect_row r c Y i HY Hi) as RY.
  destruct HX as [LX _]. destruct HY as [LY _].
  unfold mzip, mget.
  set (g := fun p : list R * list R => map (fun q : R * R => f (fst q) (snd q)) (combine (fst p) (snd p))).
  rewrite (nth_indep (map g (combine X Y)) [] (g ([], []))) by (rewrite map_length, combine_length; lia).
  rewrite map_nth, nth_combine_lt by lia. unfold g. cbn [fst snd].
  set (h := fun q : R * R => f (fst q) (snd q)).
  rewrite (nth_indep (map h _) (f0 Rops) (h (0, 0))) by (rewrite map_length, combine_length; lia).
  rewrite map_nth, nth_combine_lt by lia. reflexivity.
Qed.

Lemma rect_mmul n (X Y : list (list R)) : rect (length X) n (mmul Rops n X Y).
Proof.
  unfold mmul. split; [apply map_length|]. apply Forall_map, Forall_forall. intros r _.
  unfold cols_of. now rewrite !map_length, seq_length.
Qed.

(* one imputation step: matrix * mask + (U @ St @ V) * (1 - mask), entrywise *)
Definition lowrank d2 (U : list (list R)) Sg V : list (list R) :=
  mmul Rops d2 (mmul Rops (length V) U (st_matrix Rops (ncols U) (length V) Sg)) V.

Lemma impute_spec d1 d2 M mask U Sg V : rect d1 d2 M -> rect d1 d2 mask -> length U = d1 ->
  rect d1 d2 (impute Rops d2 M mask U Sg V) /\
  forall i j, (i < d1)%nat -> (j < d2)%nat ->
    mg (impute Rops d2 M mask U Sg V) i j = mg M i j * mg mask i j + mg (lowrank d2 U Sg V) i j * (1 - mg mask i j).
Proof.
  intros HM Hm LU. unfold impute. fold (lowrank d2 U Sg V).
  assert (RL : rect d1 d2 (lowrank d2 U Sg V)).
  { unfold lowrank. pose proof (rect_mmul d2 (mmul Rops (length V) U (st_matrix Rops (ncols U) (length V) Sg)) V) as H.
    assert (length (mmul Rops (length V) U (st_matrix Rops (ncols U) (length V) Sg)) = d1) as L
      by (unfold mmul; rewrite map_length; exact LU).
    rewrite L in H. exact H. }
  split.
  - apply rect_mzip; apply rect_mzip; assumption.
  - intros i j Hi Hj.
    rewrite (mg_mzip _ d1 d2) by (try apply rect_mzip; assumption).
    rewrite !(mg_mzip _ d1 d2) by assumption. reflexivity.
Qed.

Corollary impute_observed d1 d2 M mask U Sg V i j : rect d1 d2 M -> rect d1 d2 mask -> length U = d1 ->
  (i < d1)%nat -> (j < d2)%nat -> mg mask i j = 1 -> mg (impute Rops d2 M mask U Sg V) i j = mg M i j.
Proof. intros HM Hm LU Hi Hj E. rewrite (proj2 (impute_spec d1 d2 M mask U Sg V HM Hm LU) i j Hi Hj), E. ring. Qed.

(* the loop: invariant over any number of iterations *)
Lemma mask_loop_spec d1 d2 (svd_fun : nat -> list (list R) -> triple R) mask :
  rect d1 d2 mask ->
  (forall c X, rect d1 d2 X -> length (fst (fst (svd_fun c X))) = d1) ->
  forall iters call M t, rect d1 d2 M -> length (fst (fst t)) = d1 ->
  let '(M', t') := mask_loop Rops svd_fun d2 mask iters call M t in
  rect d1 d2 M' /\
  (forall i j, (i < d1)%nat -> (j < d2)%nat -> mg mask i j = 1 -> mg M' i j = mg M i j) /\
  ((0 < iters)%nat -> t' = svd_fun (call + iters - 1)%nat M').
Proof.
  intros Hm HF. induction iters as [|it IH]; intros call M t HM Ht.
  - cbn [mask_loop]. split; [exact HM | split; [reflexivity | lia]].
  - cbn [mask_loop]. destruct t as [[U Sg] V]. cbn [fst] in Ht.
    destruct (impute_spec d1 d2 M mask U Sg V HM Hm Ht) as [R1 _].
    specialize (IH (S call) (impute Rops d2 M mask U Sg V) (svd_fun call (impute Rops d2 M mask U Sg V)) R1 (HF _ _ R1)).
    destruct (mask_loop Rops svd_fun d2 mask it (S call) (impute Rops d2 M mask U Sg V) (svd_fun call (impute Rops d2 M mask U Sg V)))
      as [M' t'] eqn:EL.
    destruct IH as (I1 & I2 & I3). split; [exact I1 | split].
    + intros i j Hi Hj E. rewrite (I2 i j Hi Hj E). now apply (impute_observed d1 d2).
    + intros _. destruct it as [|it'].
      * cbn [mask_loop] in EL. inversion EL; subst. f_equal. lia.
      * rewrite I3 by lia. f_equal. lia.
Qed.

(* svd_interface with a mask (method truncated_svd): the returned triple is the sign-resolved truncated SVD of the last
   imputed matrix Mlast, which agrees with the input on every observed entry. orc c X = LAPACK's answer on the c-th call, handed X. *)
Theorem interface_masked_e2e (orc : nat -> list (list R) -> bool -> triple R) (funs : fname -> nat -> list (list R) -> triple R)
    d1 d2 (Ml mask : list (list R)) r flip ub iters sq eps U Sg V :
  rect d1 d2 Ml -> rect d1 d2 mask ->
  (forall c X, rect d1 d2 X -> forall f, svd_contract d1 d2 (mg X) f (orc c X f)) ->
  (forall c X, funs FTruncated c X = truncated_svd (orc c X) d1 d2 (Some r)) ->
  (1 <= r <= Nat.min d1 d2)%nat -> (1 <= iters)%nat ->
  svd_interface Rops funs MTruncated d2 Ml (Some r) flip ub None (Some mask) iters sq eps = Ok (U, Sg, V) ->
  exists Mlast c,
    rect d1 d2 Mlast /\
    (forall i j, (i < d1)%nat -> (j < d2)%nat -> mg mask i j = 1 -> mg Mlast i j = mg Ml i j) /\
    Sg = firstn r (snd (fst (orc c Mlast false))) /\ nonneg_list Sg /\ nonincreasing Sg /\
    orthonormal_cols d1 r (mg U) /\ orthonormal_rows r d2 (mg V) /\
    rsum d1 (fun i => rsum d2 (fun j => (mg Mlast i j - recon U Sg V i j)^2))
      = rsum (Nat.min d1 d2 - r) (fun t => (nth (r + t) (snd (fst (orc c Mlast false))) 0)^2).
Proof.
  intros HM Hm HC HFu Hr Hit E.
  set (sf := funs FTruncated).
  assert (HF : forall c X, rect d1 d2 X -> length (fst (fst (sf c X))) = d1).
  { intros c X HX. unfold sf. rewrite HFu.
    pose proof (truncated_shapes_documented R (orc c X) d1 d2 r (fun f => svd_contract_shape _ _ _ _ _ (HC c X HX f)) ltac:(lia)) as SH.
    destruct (truncated_svd (orc c X) d1 d2 (Some r)) as [[U0 S0] V0]. destruct SH as ((L & _) & _). exact L. }
  pose proof (mask_loop_spec d1 d2 sf mask Hm HF iters 1%nat Ml (sf 0%nat Ml) HM (HF _ _ HM)) as SP.
  assert (E' : (let '(M1, t1) := mask_loop Rops sf d2 mask iters 1 Ml (sf 0%nat Ml) in
                let '(U1, S1, V1) := t1 in
                let '(U2, V2) := if flip then svd_flip Rops U1 V1 ub else (U1, V1) in Ok (U2, S1, V2)) = Ok (U, Sg, V)) by exact E.
  clear E. rename E' into E.
  destruct (mask_loop Rops sf d2 mask iters 1 Ml (sf 0%nat Ml)) as [M1 t1] eqn:EL.
  destruct SP as (R1 & O1 & T1). specialize (T1 ltac:(lia)).
  exists M1, (1 + iters - 1)%nat. split; [exact R1 | split; [exact O1|]].
  set (c := (1 + iters - 1)%nat) in *.
  apply (interface_truncated_e2e (orc c) (fun _ _ X => truncated_svd (orc c X) d1 d2 (Some r)) d1 d2 M1 r flip ub iters sq eps U Sg V
           (HC _ _ R1) (fun _ _ => eq_refl) Hr).
  rewrite (interface_unfold _ MTruncated FTruncated) by reflexivity. rewrite <- E. subst t1. unfold sf. rewrite HFu.
  destruct (truncated_svd (orc c M1) d1 d2 (Some r)) as [[U0 S0] V0].
  destruct flip; [destruct (svd_flip Rops U0 V0 ub)|]; reflexivity.
Qed.
