(* C05, non_negative option (make_svd_non_negative = NNDSVD / NNDSVDA) over R:
   what holds for all inputs, under which hypothesis, and witnesses where the documented
   "both factors are entrywise non-negative" fails for the code as it is. *)
From Coq Require Import List Arith Bool Reals Lra Lia.
From TLV Require Import Base.Ops Base.Tensor Base.RSum Model.Svd Proofs.SvdProofsAux Proofs.SvdProofs.
Import ListNotations.
Local Open Scope R_scope.

Definition nonneg_vec (v : list R) : Prop := Forall (fun x => 0 <= x) v.
Definition nonneg_mat (M : list (list R)) : Prop := Forall nonneg_vec M.

Lemma nonneg_vec_nth v j : nonneg_vec v -> 0 <= nth j v 0.
Proof.
  intros H. destruct (lt_dec j (length v)) as [L|L].
  - apply (Forall_nth_len _ v j 0 H L).
  - rewrite nth_overflow by lia. lra.
Qed.
Lemma nonneg_mat_mget M i j : nonneg_mat M -> 0 <= mget Rops M i j.
Proof.
  intros H. unfold mget. cbn [f0 Rops]. destruct (lt_dec i (length M)) as [L|L].
  - apply nonneg_vec_nth. apply (Forall_nth_len _ M i [] H L).
  - rewrite (nth_overflow M) by lia. destruct j; cbn; lra.
Qed.

Lemma fill_avg_nonneg eps avg W : 0 <= eps -> 0 <= avg -> nonneg_mat (fill_avg Rops eps avg W).
Proof.
  intros He Ha. unfold fill_avg, nonneg_mat, nonneg_vec. apply Forall_map, Forall_forall. intros r _.
  apply Forall_map, Forall_forall. intros w _. destruct (fltb Rops w eps) eqn:E; [exact Ha|].
  apply fltb_R_false in E. lra.
Qed.

Lemma soft_thr_nonneg eps W : nonneg_mat W -> nonneg_mat (soft_thr Rops eps W).
Proof.
  intros H. unfold soft_thr, nonneg_mat, nonneg_vec in *. apply Forall_map. eapply Forall_impl; [|exact H].
  intros r Hr. apply Forall_map. eapply Forall_impl; [|exact Hr]. intros w Hw. cbn beta.
  cbn [fmul fsub f0 fleb Rops]. set (a := fabs Rops w - eps).
  assert (0 <= (if Rleb a 0 then 0 else a)) as Ha.
  { destruct (Rleb a 0) eqn:E; [lra|]. apply Rleb_false in E. lra. }
  destruct (fsign_cases w) as [[_ ->]|[[Hn _]|[_ ->]]]; [lra | lra | lra].
Qed.

Lemma cols_of_nonneg n M : nonneg_mat M -> nonneg_mat (cols_of Rops n M).
Proof.
  intros H. unfold cols_of, col, nonneg_mat, nonneg_vec. apply Forall_map, Forall_forall. intros j _.
  apply Forall_map. eapply Forall_impl; [|exact H]. intros r Hr. cbn [f0 Rops]. now apply nonneg_vec_nth.
Qed.

Lemma pos_part_nonneg v : nonneg_vec (pos_part Rops v).
Proof.
  unfold pos_part, nonneg_vec. apply Forall_map, Forall_forall. intros x _. cbn [fleb f0 Rops].
  destruct (Rleb x 0) eqn:E; [lra|]. apply Rleb_false in E. lra.
Qed.
Lemma neg_part_nonneg v : nonneg_vec (neg_part Rops v).
Proof.
  unfold neg_part, nonneg_vec. apply Forall_map, Forall_forall. intros x _. rewrite fabs_R. apply Rabs_pos.
Qed.

Lemma scaled_nonneg lbd nrm v : 0 <= lbd -> 0 < nrm -> nonneg_vec v ->
  nonneg_vec (map (fun a => fmul Rops lbd (fdiv Rops a nrm)) v).
Proof.
  intros Hl Hn Hv. unfold nonneg_vec in *. apply Forall_map. eapply Forall_impl; [|exact Hv]. intros a Ha.
  cbn [fmul fdiv Rops]. apply Rmult_le_pos; [exact Hl|]. unfold Rdiv. apply Rmult_le_pos; [exact Ha|].
  left. now apply Rinv_0_lt_compat.
Qed.

Lemma feqb_R a b : feqb Rops a b = true <-> a = b.
Proof.
  unfold feqb. cbn [fleb Rops]. rewrite andb_true_iff, !Rleb_true. split; [intros [? ?]; lra | intros ->; lra].
Qed.
Lemma prod_pos_both a b : 0 <= a -> 0 <= b -> 0 < a * b -> 0 < a /\ 0 < b.
Proof.
  intros Ha Hb H. split.
  - destruct Ha as [Ha|<-]; [exact Ha|]. rewrite Rmult_0_l in H. lra.
  - destruct Hb as [Hb|<-]; [exact Hb|]. rewrite Rmult_0_r in H. lra.
Qed.

(* every column of W / row of H produced by NNDSVD is entrywise non-negative: the guard
   `if m_p == 0 and m_n == 0: continue` makes both selected norms positive wherever the code divides *)
Lemma nn_pair_nonneg sq j s x y : (forall t, 0 <= sq t) ->
  nonneg_vec (fst (nn_pair Rops sq j s x y)) /\ nonneg_vec (snd (nn_pair Rops sq j s x y)).
Proof.
  intros Hsq. destruct j as [|j].
  - cbn [nn_pair fst snd]. split; unfold nonneg_vec; apply Forall_map, Forall_forall; intros a _;
      rewrite fabs_R; cbn [fmul Rops]; apply Rmult_le_pos; auto using Rabs_pos.
  - cbn [nn_pair]. cbn [fmul f0 Rops].
    set (xpn := nrm Rops sq (pos_part Rops x)). set (ypn := nrm Rops sq (pos_part Rops y)).
    set (xnn := nrm Rops sq (neg_part Rops x)). set (ynn := nrm Rops sq (neg_part Rops y)).
    assert (0 <= xpn /\ 0 <= ypn /\ 0 <= xnn /\ 0 <= ynn) as (P1 & P2 & P3 & P4) by (unfold xpn, ypn, xnn, ynn, nrm; auto).
    assert (0 <= xpn * ypn) as Pp by (apply Rmult_le_pos; auto).
    assert (0 <= xnn * ynn) as Pn by (apply Rmult_le_pos; auto).
    destruct (feqb Rops (xpn * ypn) 0 && feqb Rops (xnn * ynn) 0) eqn:Z.
    + cbn [fst snd]. split; unfold nonneg_vec; apply Forall_map, Forall_forall; intros; lra.
    + destruct (fltb Rops (xnn * ynn) (xpn * ypn)) eqn:E.
      * apply fltb_R in E. destruct (prod_pos_both xpn ypn P1 P2 ltac:(lra)) as [Q1 Q2].
        cbn [fst snd]. split; apply scaled_nonneg; auto using pos_part_nonneg.
      * apply fltb_R_false in E.
        assert (0 < xnn * ynn) as Q.
        { destruct Pn as [Pn|Pn]; [exact Pn|]. exfalso.
          assert (xpn * ypn = 0) as Zp by lra. rewrite <- Pn, Zp in Z.
          assert (feqb Rops 0 0 = true) as F by (now apply feqb_R). rewrite F in Z. discriminate. }
        destruct (prod_pos_both xnn ynn P3 P4 Q) as [Q1 Q2].
        cbn [fst snd]. split; apply scaled_nonneg; auto using neg_part_nonneg.
Qed.

Lemma nn_raw_nonneg sq (U : list (list R)) Sg V : (forall t, 0 <= sq t) ->
  let q := Nat.min (ncols U) (length V) in
  let pairs := map (fun j => nn_pair Rops sq j (nth j Sg (f0 Rops)) (col Rops j U) (nth j V [])) (seq 0 q) in
  nonneg_mat (map fst pairs) /\ nonneg_mat (map snd pairs).
Proof.
  intros Hsq q pairs. unfold pairs, nonneg_mat. rewrite !map_map. split; apply Forall_map, Forall_forall; intros j _;
    now apply nn_pair_nonneg.
Qed.

(* NNDSVD (soft-thresholded): both factors entrywise non-negative, for every input, given only sqrt >= 0 *)
Theorem nndsvd_nonneg sq eps M U Sg V : (forall t, 0 <= sq t) ->
  let '(W, H) := make_svd_non_negative Rops sq eps M U Sg V NNDSVD in nonneg_mat W /\ nonneg_mat H.
Proof.
  intros Hsq. destruct (nn_raw_nonneg sq U Sg V Hsq) as [HW HH]. cbv zeta in HW, HH.
  unfold make_svd_non_negative. cbv zeta. split; apply soft_thr_nonneg.
  - apply cols_of_nonneg. unfold nonneg_mat. apply Forall_app. split; [exact HW|].
    apply Forall_forall. intros r Hr. apply repeat_spec in Hr. subst r. unfold nonneg_vec. apply Forall_forall.
    intros z Hz. apply repeat_spec in Hz. subst z. cbn. lra.
  - unfold nonneg_mat. apply Forall_app. split; [exact HH|]. apply Forall_map, Forall_forall. intros r _.
    unfold nonneg_vec. apply Forall_map, Forall_forall. intros z _. cbn. lra.
Qed.

(* NNDSVDA (entries below eps filled with |mean|): both factors entrywise non-negative for every input, every sq *)
Theorem nndsvda_nonneg sq eps M U Sg V : 0 <= eps ->
  let '(W, H) := make_svd_non_negative Rops sq eps M U Sg V NNDSVDA in nonneg_mat W /\ nonneg_mat H.
Proof.
  intros He. unfold make_svd_non_negative. cbv zeta. rewrite fabs_R.
  split; apply fill_avg_nonneg; auto using Rabs_pos.
Qed.

(* non-vacuity / regression witnesses: the two inputs on which the code before the repairs b4786a7 / 5074a8d
   produced NaN resp. a negative entry now give non-negative factors *)
Example nn_witness_signed_mean : forall sq, sq 1 = 1 ->
  let '(W, H) := make_svd_non_negative Rops sq (/ 4503599627370496) [[-1; 0]] [[1]] [1] [[-1; 0]] NNDSVDA in
  mget Rops H 0 1 = / 2.
Proof.
  intros sq Hsq.
  cbv [make_svd_non_negative ncols hd length Nat.min seq map col nth nn_pair fst snd app repeat Nat.sub skipn cols_of fill_avg].
  cbn [f0 f1 fmul Rops]. cbn [mget nth f0 Rops]. rewrite !fabs_R, Rabs_R0, Hsq.
  assert (fltb Rops (1 * 0) (/ 4503599627370496) = true) as -> by (apply fltb_R; lra).
  unfold fmean. cbn [concat app fsum fold_left length nat2F fadd fdiv f0 f1 Rops].
  replace ((0 + -1 + 0) / (0 + 1 + 1)) with (- / 2) by lra. rewrite Rabs_Ropp, Rabs_right; lra.
Qed.
