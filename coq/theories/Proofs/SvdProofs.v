(* Lemmas about the model of tensorly/tenalg/svd.py (Model/Svd.v). *)
From Coq Require Import List Arith Lia Bool Reals Lra Psatz.
From TLV Require Import Base.Ops Base.Tensor Base.RSum Model.Svd Proofs.SvdProofsAux.
Import ListNotations.
Local Open Scope nat_scope.

(* ================= svd_checks: clamping (pure nat logic) ================= *)
Lemma svd_checks_spec d1 d2 n :
  let '(k, mn, mx) := svd_checks d1 d2 n in
  mn = Nat.min d1 d2 /\ mx = Nat.max d1 d2 /\ k <= mx /\
  (n = None -> k = mx) /\ (forall r, n = Some r -> k = Nat.min r mx).
Proof.
  unfold svd_checks. destruct n as [r|].
  - destruct (Nat.ltb_spec (Nat.max d1 d2) r); repeat split; try lia; try discriminate; intros r' [= <-]; lia.
  - repeat split; try lia; discriminate.
Qed.

Definition n_kept (d1 d2 : nat) (n : option nat) : nat := fst (fst (svd_checks d1 d2 n)).
Lemma n_kept_spec d1 d2 n :
  n_kept d1 d2 n = match n with None => Nat.max d1 d2 | Some r => Nat.min r (Nat.max d1 d2) end.
Proof.
  unfold n_kept, svd_checks. destruct n as [r|]; simpl; [|reflexivity].
  destruct (Nat.ltb_spec (Nat.max d1 d2) r); lia.
Qed.

(* ================= shapes ================= *)
Definition rect {A} (r c : nat) (M : list (list A)) : Prop := length M = r /\ Forall (fun row => length row = c) M.

Lemma Forall_firstn' {A} (P : A -> Prop) k : forall l, Forall P l -> Forall P (firstn k l).
Proof.
  induction k; intros l H; [constructor|]. destruct l; [constructor|]. inversion H; subst. cbn [firstn]. constructor; auto.
Qed.

Lemma rect_map_firstn {A} r c k (U : list (list A)) : rect r c U -> rect r (Nat.min k c) (map (firstn k) U).
Proof.
  intros [L Fa]. split; [now rewrite map_length|].
  rewrite Forall_map. eapply Forall_impl; [|exact Fa]. intros row E. cbv beta in *. now rewrite firstn_length, E.
Qed.
Lemma rect_firstn {A} r c k (V : list (list A)) : rect r c V -> rect (Nat.min k r) c (firstn k V).
Proof.
  intros [L Fa]. split; [now rewrite firstn_length, L|]. now apply Forall_firstn'.
Qed.

(* the shapes LAPACK's gesdd wrapper documents: full_matrices switches between (d1,d1),(d2,d2) and (d1,mn),(mn,d2) *)
Definition shape_contract {A} (d1 d2 : nat) (full : bool) (t : triple A) : Prop :=
  let '(U, Sg, V) := t in
  let mn := Nat.min d1 d2 in
  rect d1 (if full then d1 else mn) U /\ length Sg = mn /\ rect (if full then d2 else mn) d2 V.

Definition shape3 {A} (t : triple A) (ru cu ls rv cv : nat) : Prop :=
  let '(U, Sg, V) := t in rect ru cu U /\ length Sg = ls /\ rect rv cv V.

Theorem truncated_shapes A (oracle : bool -> triple A) d1 d2 n :
  (forall f, shape_contract d1 d2 f (oracle f)) ->
  let k := n_kept d1 d2 n in
  shape3 (truncated_svd oracle d1 d2 n) d1 (Nat.min k d1) (Nat.min k (Nat.min d1 d2)) (Nat.min k d2) d2.
Proof.
  intros HC k. unfold truncated_svd. pose proof (n_kept_spec d1 d2 n) as Hk. fold k in Hk.
  unfold n_kept in k. destruct (svd_checks d1 d2 n) as [[k' mn] mx] eqn:E.
  assert (Emn : mn = Nat.min d1 d2) by (unfold svd_checks in E; congruence).
  simpl in k. subst k. rename k' into k. subst mn.
  specialize (HC (Nat.min d1 d2 <? k)). destruct (oracle (Nat.min d1 d2 <? k)) as [[U Sg] V].
  unfold shape_contract in HC. destruct HC as (HU & HS & HV). unfold slice3, shape3.
  destruct (Nat.ltb_spec (Nat.min d1 d2) k) as [Hlt|Hle].
  - split; [|split].
    + apply rect_map_firstn. exact HU.
    + rewrite firstn_length, HS. reflexivity.
    + apply rect_firstn. exact HV.
  - split; [|split].
    + replace (Nat.min k d1) with (Nat.min k (Nat.min d1 d2)) by lia. apply rect_map_firstn. exact HU.
    + rewrite firstn_length, HS. reflexivity.
    + replace (Nat.min k d2) with (Nat.min k (Nat.min d1 d2)) by lia. apply rect_firstn. exact HV.
Qed.

(* the documented shapes (d1,r) (r,) (r,d2) whenever 1 <= r <= min(d1,d2); and the default n_eigenvecs=None *)
Corollary truncated_shapes_documented A (oracle : bool -> triple A) d1 d2 r :
  (forall f, shape_contract d1 d2 f (oracle f)) -> r <= Nat.min d1 d2 ->
  shape3 (truncated_svd oracle d1 d2 (Some r)) d1 r r r d2.
Proof.
  intros HC Hr. pose proof (truncated_shapes A oracle d1 d2 (Some r) HC) as H. cbv zeta in H.
  rewrite n_kept_spec in H.
  replace (Nat.min (Nat.min r (Nat.max d1 d2)) d1) with r in H by lia.
  replace (Nat.min (Nat.min r (Nat.max d1 d2)) (Nat.min d1 d2)) with r in H by lia.
  replace (Nat.min (Nat.min r (Nat.max d1 d2)) d2) with r in H by lia. exact H.
Qed.
Corollary truncated_shapes_beyond A (oracle : bool -> triple A) d1 d2 n :
  (forall f, shape_contract d1 d2 f (oracle f)) ->
  (n = None \/ exists r, n = Some r /\ Nat.max d1 d2 <= r) ->
  shape3 (truncated_svd oracle d1 d2 n) d1 d1 (Nat.min d1 d2) d2 d2.
Proof.
  intros HC Hn. pose proof (truncated_shapes A oracle d1 d2 n HC) as H. cbv zeta in H.
  rewrite n_kept_spec in H.
  assert (E : match n with None => Nat.max d1 d2 | Some r => Nat.min r (Nat.max d1 d2) end = Nat.max d1 d2).
  { destruct Hn as [->|(r & -> & Hr)]; [reflexivity | lia]. }
  rewrite E in H.
  replace (Nat.min (Nat.max d1 d2) d1) with d1 in H by lia.
  replace (Nat.min (Nat.max d1 d2) (Nat.min d1 d2)) with (Nat.min d1 d2) in H by lia.
  replace (Nat.min (Nat.max d1 d2) d2) with d2 in H by lia. exact H.
Qed.

(* ================= returned S is a prefix of the oracle's S ================= *)
Definition full_flag (d1 d2 : nat) (n : option nat) : bool := Nat.min d1 d2 <? n_kept d1 d2 n.

Lemma truncated_unfold A (oracle : bool -> triple A) d1 d2 n :
  truncated_svd oracle d1 d2 n = slice3 (n_kept d1 d2 n) (oracle (full_flag d1 d2 n)).
Proof.
  unfold truncated_svd, full_flag, n_kept. destruct (svd_checks d1 d2 n) as [[k mn] mx] eqn:E.
  assert (mn = Nat.min d1 d2) by (unfold svd_checks in E; congruence). subst mn. reflexivity.
Qed.

Theorem truncated_S_prefix A (oracle : bool -> triple A) d1 d2 n :
  snd (fst (truncated_svd oracle d1 d2 n)) = firstn (n_kept d1 d2 n) (snd (fst (oracle (full_flag d1 d2 n)))).
Proof. rewrite truncated_unfold. destruct (oracle _) as [[U Sg] V]. reflexivity. Qed.

Open Scope R_scope.
Definition nonneg_list (l : list R) : Prop := Forall (fun x => 0 <= x) l.
Definition nonincreasing (l : list R) : Prop := forall i j, (i <= j)%nat -> (j < length l)%nat -> nth j l 0 <= nth i l 0.

Lemma firstn_nonneg k l : nonneg_list l -> nonneg_list (firstn k l).
Proof. apply Forall_firstn'. Qed.
Lemma firstn_nonincreasing k l : nonincreasing l -> nonincreasing (firstn k l).
Proof.
  intros H i j Hij Hj. rewrite firstn_length in Hj.
  rewrite !nth_firstn_lt by lia. apply H; lia.
Qed.

Theorem truncated_S_ordered (oracle : bool -> triple R) d1 d2 n :
  (forall f, nonneg_list (snd (fst (oracle f))) /\ nonincreasing (snd (fst (oracle f)))) ->
  let Sg := snd (fst (truncated_svd oracle d1 d2 n)) in
  nonneg_list Sg /\ nonincreasing Sg /\
  (forall i, (i < length Sg)%nat -> nth i Sg 0 = nth i (snd (fst (oracle (full_flag d1 d2 n)))) 0).
Proof.
  intros HC Sg. unfold Sg. rewrite truncated_S_prefix. destruct (HC (full_flag d1 d2 n)) as [H1 H2].
  split; [now apply firstn_nonneg | split; [now apply firstn_nonincreasing|]].
  intros i Hi. rewrite firstn_length in Hi. apply nth_firstn_lt. lia.
Qed.

(* ================= matrices over R as functions ================= *)
Notation mg := (mget Rops).

Lemma mg_nil i j : mg [] i j = 0.
Proof. unfold mget. rewrite nth_nil. apply nth_nil. Qed.
Lemma mg_out_rows M i j : (length M <= i)%nat -> mg M i j = 0.
Proof. intros H. unfold mget. rewrite (nth_overflow M) by exact H. apply nth_nil. Qed.

Lemma mg_map_firstn k U i t : (t < k)%nat -> mg (map (firstn k) U) i t = mg U i t.
Proof.
  intros H. unfold mget. rewrite (nth_map_d (firstn k) U i [] []) by apply firstn_nil.
  now apply nth_firstn_lt.
Qed.
Lemma mg_firstn k V t j : (t < k)%nat -> mg (firstn k V) t j = mg V t j.
Proof. intros H. unfold mget. now rewrite nth_firstn_lt. Qed.

(* ================= sub-selection of an orthonormal family ================= *)
Theorem slice_orthonormal_cols m c k U : orthonormal_cols m c (mg U) ->
  orthonormal_cols m (Nat.min k c) (mg (map (firstn k) U)).
Proof.
  intros O. apply orthonormal_cols_ext with (U := mg U).
  - intros i t _ Ht. apply mg_map_firstn. lia.
  - apply orthonormal_cols_sub with (c := c); [lia | exact O].
Qed.
Theorem slice_orthonormal_rows r n k V : orthonormal_rows r n (mg V) ->
  orthonormal_rows (Nat.min k r) n (mg (firstn k V)).
Proof.
  intros O. apply orthonormal_rows_ext with (V := mg V).
  - intros t j Ht _. apply mg_firstn. lia.
  - apply orthonormal_rows_sub with (r := r); [lia | exact O].
Qed.

(* the contract the code relies on for tl.svd(matrix, full_matrices=f) *)
Definition svd_contract (d1 d2 : nat) (M : nat -> nat -> R) (full : bool) (t : triple R) : Prop :=
  let '(U, Sg, V) := t in
  let mn := Nat.min d1 d2 in
  shape_contract d1 d2 full t /\
  orthonormal_cols d1 (if full then d1 else mn) (mg U) /\
  orthonormal_rows (if full then d2 else mn) d2 (mg V) /\
  nonneg_list Sg /\ nonincreasing Sg /\
  (forall i j, (i < d1)%nat -> (j < d2)%nat -> M i j = rsum mn (fun t => mg U i t * nth t Sg 0 * mg V t j)).

Definition recon (U : list (list R)) (Sg : list R) (V : list (list R)) (i j : nat) : R :=
  rsum (length Sg) (fun t => mg U i t * nth t Sg 0 * mg V t j).

Theorem truncated_orthonormal (oracle : bool -> triple R) d1 d2 M n :
  (forall f, svd_contract d1 d2 M f (oracle f)) ->
  let k := n_kept d1 d2 n in
  let '(U, Sg, V) := truncated_svd oracle d1 d2 n in
  orthonormal_cols d1 (Nat.min k d1) (mg U) /\ orthonormal_rows (Nat.min k d2) d2 (mg V).
Proof.
  intros HC k. rewrite truncated_unfold. fold k. specialize (HC (full_flag d1 d2 n)).
  unfold full_flag in *. fold k in HC |- *.
  destruct (oracle (Nat.min d1 d2 <? k)) as [[U Sg] V]. unfold svd_contract in HC.
  destruct HC as (_ & OU & OV & _). unfold slice3.
  destruct (Nat.ltb_spec (Nat.min d1 d2) k) as [Hlt|Hle].
  - split; [now apply slice_orthonormal_cols | now apply slice_orthonormal_rows].
  - split.
    + replace (Nat.min k d1) with (Nat.min k (Nat.min d1 d2)) by lia. now apply slice_orthonormal_cols.
    + replace (Nat.min k d2) with (Nat.min k (Nat.min d1 d2)) by lia. now apply slice_orthonormal_rows.
Qed.

(* ||M - U_k diag(S_k) V_k||_F^2 = sum of the squares of the discarded singular values *)
Theorem truncated_error (oracle : bool -> triple R) d1 d2 M n :
  (forall f, svd_contract d1 d2 M f (oracle f)) ->
  let k := n_kept d1 d2 n in
  let mn := Nat.min d1 d2 in
  let '(U, Sg, V) := truncated_svd oracle d1 d2 n in
  rsum d1 (fun i => rsum d2 (fun j => (M i j - recon U Sg V i j)^2))
  = rsum (mn - k) (fun t => (nth (k + t) (snd (fst (oracle (full_flag d1 d2 n)))) 0)^2).
Proof.
  intros HC k mn. rewrite truncated_unfold. fold k. specialize (HC (full_flag d1 d2 n)).
  destruct (oracle (full_flag d1 d2 n)) as [[U Sg] V]. unfold svd_contract in HC.
  destruct HC as (HS & OU & OV & _ & _ & HM). fold mn in OU, OV, HM.
  destruct HS as (_ & LS & _). fold mn in LS.
  unfold slice3, recon. cbn [fst snd]. rewrite firstn_length, LS.
  set (q := Nat.min k mn).
  assert (OU' : orthonormal_cols d1 mn (mg U)).
  { destruct (full_flag d1 d2 n); [|exact OU]. apply orthonormal_cols_sub with (c := d1); [unfold mn; lia | exact OU]. }
  assert (OV' : orthonormal_rows mn d2 (mg V)).
  { destruct (full_flag d1 d2 n); [|exact OV]. apply orthonormal_rows_sub with (r := d2); [unfold mn; lia | exact OV]. }
  rewrite (rsum_ext d1 _ (fun i => rsum d2 (fun j => (M i j - rsum q (fun t => mg U i t * nth t Sg 0 * mg V t j))^2))).
  2:{ intros i _. apply rsum_ext; intros j _. f_equal. f_equal. apply rsum_ext; intros t Ht.
      rewrite mg_map_firstn, mg_firstn, nth_firstn_lt by (unfold q in Ht; lia). reflexivity. }
  rewrite (trunc_error d1 d2 mn q M (mg U) (mg V) (fun t => nth t Sg 0)); [ | unfold q; lia | exact OU' | exact OV' | exact HM].
  destruct (Nat.le_gt_cases k mn) as [Hle|Hgt].
  - replace q with k by (unfold q; lia). reflexivity.
  - replace q with mn by (unfold q; lia). replace (mn - mn)%nat with 0%nat by lia.
    replace (mn - k)%nat with 0%nat by lia. reflexivity.
Qed.

(* ================= svd_flip over R ================= *)
Lemma fabs_R x : fabs Rops x = Rabs x.
Proof.
  unfold fabs. cbn [fleb f0 fopp Rops]. unfold Rleb. destruct (Rle_dec 0 x).
  - rewrite Rabs_right; lra.
  - rewrite Rabs_left; lra.
Qed.
Lemma fltb_R a b : fltb Rops a b = true <-> a < b.
Proof. unfold fltb. cbn [fleb Rops]. rewrite negb_true_iff, Rleb_false. tauto. Qed.
Lemma fltb_R_false a b : fltb Rops a b = false <-> b <= a.
Proof. unfold fltb. cbn [fleb Rops]. rewrite negb_false_iff, Rleb_true. tauto. Qed.

Lemma fsign_cases x :
  (0 < x /\ fsign Rops x = 1) \/ (x < 0 /\ fsign Rops x = -1) \/ (x = 0 /\ fsign Rops x = 0).
Proof.
  unfold fsign. cbn [f0 f1 fopp Rops].
  destruct (fltb Rops 0 x) eqn:E1.
  - apply fltb_R in E1. left; split; [exact E1 | reflexivity].
  - apply fltb_R_false in E1. destruct (fltb Rops x 0) eqn:E2.
    + apply fltb_R in E2. right; left; split; [exact E2 | reflexivity].
    + apply fltb_R_false in E2. right; right; split; [lra | reflexivity].
Qed.
Lemma fsign_sq x : x <> 0 -> fsign Rops x * fsign Rops x = 1.
Proof. intros H. destruct (fsign_cases x) as [[_ ->]|[[_ ->]|[E _]]]; [ring | ring | contradiction]. Qed.
Lemma fsign_abs x : x * fsign Rops x = Rabs x.
Proof.
  destruct (fsign_cases x) as [[H ->]|[[H ->]|[H ->]]].
  - rewrite Rabs_right; lra.
  - rewrite Rabs_left; lra.
  - subst x. rewrite Rabs_R0. ring.
Qed.
Lemma fsign_abs_le1 x : Rabs (fsign Rops x) <= 1.
Proof.
  destruct (fsign_cases x) as [[_ ->]|[[_ ->]|[_ ->]]].
  - rewrite Rabs_R1. lra.
  - unfold Rabs. destruct (Rcase_abs (-1)); lra.
  - rewrite Rabs_R0. lra.
Qed.
Lemma fsign_0 : fsign Rops 0 = 0.
Proof. destruct (fsign_cases 0) as [[H _]|[[H _]|[_ E]]]; [lra | lra | exact E]. Qed.

Lemma pick_spec l : forall best,
  In (pick Rops l best) (best :: l) /\ forall y, In y (best :: l) -> Rabs y <= Rabs (pick Rops l best).
Proof.
  induction l as [|x l IH]; intros best; cbn [pick].
  - split; [now left|]. intros y [<-|[]]. lra.
  - rewrite !fabs_R. destruct (fltb Rops (Rabs best) (Rabs x)) eqn:E.
    + apply fltb_R in E. destruct (IH x) as [I M]. split.
      * right. exact I.
      * intros y [<-|Hy]; [|now apply M]. pose proof (M x (or_introl eq_refl)). lra.
    + apply fltb_R_false in E. destruct (IH best) as [I M]. split.
      * destruct I as [<-|I]; [now left | right; now right].
      * intros y [<-|[<-|Hy]].
        -- apply M. now left.
        -- pose proof (M best (or_introl eq_refl)). lra.
        -- apply M. now right.
Qed.
Lemma deciding_max l y : In y l -> Rabs y <= Rabs (deciding Rops l).
Proof. destruct l as [|x l]; [intros []|]. intros H. apply (proj2 (pick_spec l x)). exact H. Qed.
Lemma deciding_In l : l <> [] -> In (deciding Rops l) l.
Proof. destruct l as [|x l]; [congruence|]. intros _. apply (proj1 (pick_spec l x)). Qed.
Lemma deciding_nil : deciding Rops [] = 0.
Proof. reflexivity. Qed.
Lemma deciding_zero l y : deciding Rops l = 0 -> In y l -> y = 0.
Proof.
  intros E H. pose proof (deciding_max l y H) as M. rewrite E, Rabs_R0 in M.
  pose proof (Rabs_pos y). destruct (Req_dec y 0) as [|N]; [assumption|]. pose proof (Rabs_pos_lt y N). lra.
Qed.

Lemma nth_mul_vec r : forall sg t, nth t (mul_vec Rops r sg) 0 = nth t r 0 * nth t sg 0.
Proof.
  unfold mul_vec. induction r as [|a r IH]; intros sg t.
  - cbn [combine map]. rewrite !nth_nil. ring.
  - destruct sg as [|s sg]; cbn [combine map].
    + rewrite !nth_nil. ring.
    + destruct t; cbn [nth fst snd fmul Rops]; [reflexivity | apply IH].
Qed.

Lemma mg_scale_cols sg U i t : mg (scale_cols Rops sg U) i t = mg U i t * nth t sg 0.
Proof.
  unfold mget, scale_cols. cbn [f0 Rops].
  rewrite (nth_map_d (fun r => mul_vec Rops r sg) U i [] []) by reflexivity.
  apply nth_mul_vec.
Qed.

Lemma mg_scale_rows sg : forall V i j, mg (scale_rows Rops sg V) i j = mg V i j * nth i sg 0.
Proof.
  unfold scale_rows. induction sg as [|s sg IH]; intros V i j.
  - cbn [combine map]. rewrite mg_nil, nth_nil. ring.
  - destruct V as [|v V]; cbn [combine map].
    + rewrite mg_nil. ring.
    + destruct i.
      * unfold mget. cbn [nth fst snd f0 fmul Rops].
        rewrite (nth_map_d (fun x => x * s) v j 0 0) by ring. reflexivity.
      * change (mg (map (fun p => map (fun x => fmul Rops x (fst p)) (snd p)) (combine sg V)) i j = mg V i j * nth i sg 0).
        apply IH.
Qed.

Lemma fit_length n : forall l, length (fit Rops n l) = n.
Proof. induction n; intros l; cbn [fit]; [reflexivity|]. destruct l; cbn [length]; now rewrite IHn. Qed.
Lemma nth_fit_in n : forall l t, (t < n)%nat -> (t < length l)%nat -> nth t (fit Rops n l) 0 = nth t l 0.
Proof.
  induction n; intros l t Hn Hl; [lia|]. destruct l as [|x l]; [cbn in Hl; lia|]. cbn [fit].
  destruct t; [reflexivity|]. cbn [nth]. apply IHn; cbn in Hl; lia.
Qed.
Lemma nth_fit_pad n : forall l t, (t < n)%nat -> (length l <= t)%nat -> nth t (fit Rops n l) 0 = 1.
Proof.
  induction n; intros l t Hn Hl; [lia|]. destruct l as [|x l]; cbn [fit].
  - destruct t; [reflexivity|]. cbn [nth]. apply IHn; cbn; lia.
  - destruct t; [cbn in Hl; lia|]. cbn [nth]. apply IHn; cbn in Hl; lia.
Qed.

Lemma signs_u_length U : length (signs_u Rops U) = ncols U.
Proof. unfold signs_u. now rewrite map_length, seq_length. Qed.
Lemma nth_signs_u U t : (t < ncols U)%nat -> nth t (signs_u Rops U) 0 = fsign Rops (deciding Rops (col Rops t U)).
Proof. intros H. unfold signs_u. now rewrite nth_map_seq. Qed.
Lemma signs_v_length V : length (signs_v Rops V) = length V.
Proof. unfold signs_v. now rewrite map_length. Qed.
Lemma nth_signs_v V t : nth t (signs_v Rops V) 0 = fsign Rops (deciding Rops (nth t V [])).
Proof.
  unfold signs_v. apply (nth_map_d (fun r => fsign Rops (deciding Rops r)) V t [] 0).
  rewrite deciding_nil. apply fsign_0.
Qed.

Lemma nth_col t U i : nth i (col Rops t U) 0 = mg U i t.
Proof. unfold col, mget. cbn [f0 Rops]. apply (nth_map_d (fun r => nth t r 0) U i [] 0). apply nth_nil. Qed.
Lemma col_length t U : length (col Rops t U) = length U.
Proof. unfold col. apply map_length. Qed.
Lemma In_col t U i : (i < length U)%nat -> In (mg U i t) (col Rops t U).
Proof. intros H. rewrite <- nth_col. apply nth_In. now rewrite col_length. Qed.

(* a column that is not identically zero has a non-zero deciding entry *)
Lemma col_deciding_nonzero U t : ~ (forall i, (i < length U)%nat -> mg U i t = 0) -> deciding Rops (col Rops t U) <> 0.
Proof. intros H E. apply H. intros i Hi. apply (deciding_zero _ _ E). now apply In_col. Qed.
Lemma row_deciding_nonzero (V : list (list R)) t :
  ~ (forall j, mg V t j = 0) -> deciding Rops (nth t V []) <> 0.
Proof.
  intros H E. apply H. intros j. unfold mget. cbn [f0 Rops].
  destruct (Nat.lt_ge_cases j (length (nth t V []))) as [Hj|Hj].
  - apply (deciding_zero _ _ E). now apply nth_In.
  - now apply nth_overflow.
Qed.

Definition su (U : list (list R)) t := fsign Rops (deciding Rops (col Rops t U)).
Definition sv (V : list (list R)) t := fsign Rops (deciding Rops (nth t V [])).

(* entrywise description of the flipped factors (u-based) *)
Lemma flip_u_entries U V U' V' : svd_flip Rops U V true = (U', V') ->
  (forall i t, (t < ncols U)%nat -> mg U' i t = mg U i t * su U t) /\
  (forall t j, (t < length V)%nat -> mg V' t j = mg V t j * (if (t <? ncols U)%nat then su U t else 1)).
Proof.
  unfold svd_flip. intros [= <- <-]. split.
  - intros i t Ht. rewrite mg_scale_cols, nth_signs_u by exact Ht. reflexivity.
  - intros t j Ht. rewrite mg_scale_rows. f_equal.
    destruct (Nat.ltb_spec t (ncols U)) as [H|H].
    + rewrite nth_fit_in by (try rewrite signs_u_length; assumption). now apply nth_signs_u.
    + apply nth_fit_pad; [assumption | now rewrite signs_u_length].
Qed.
Lemma flip_v_entries U V U' V' : svd_flip Rops U V false = (U', V') ->
  (forall t j, mg V' t j = mg V t j * sv V t) /\
  (forall i t, (t < ncols U)%nat -> mg U' i t = mg U i t * (if (t <? length V)%nat then sv V t else 1)).
Proof.
  unfold svd_flip. intros [= <- <-]. split.
  - intros t j. rewrite mg_scale_rows, nth_signs_v. reflexivity.
  - intros i t Ht. rewrite mg_scale_cols. f_equal.
    destruct (Nat.ltb_spec t (length V)) as [H|H].
    + rewrite nth_fit_in by (try rewrite signs_v_length; assumption). apply nth_signs_v.
    + apply nth_fit_pad; [assumption | now rewrite signs_v_length].
Qed.

(* the hypothesis "the deciding vectors are not identically zero" (true for every orthonormal family) *)
Definition decisive (U V : list (list R)) (u_based : bool) (p : nat) : Prop :=
  forall t, (t < p)%nat ->
    if u_based then ~ (forall i, (i < length U)%nat -> mg U i t = 0) else ~ (forall j, mg V t j = 0).

(* product U diag(S) V unchanged, entrywise, for any diagonal s of length p <= min(cols U, rows V) *)
Theorem flip_product U V ub U' V' (s : nat -> R) p : svd_flip Rops U V ub = (U', V') ->
  (p <= ncols U)%nat -> (p <= length V)%nat -> decisive U V ub p ->
  forall i j, rsum p (fun t => mg U' i t * s t * mg V' t j) = rsum p (fun t => mg U i t * s t * mg V t j).
Proof.
  intros E Hc Hr D i j. apply rsum_ext; intros t Ht. specialize (D t Ht). destruct ub.
  - destruct (flip_u_entries _ _ _ _ E) as [EU EV]. rewrite EU, EV by lia.
    destruct (Nat.ltb_spec t (ncols U)); [|lia].
    pose proof (fsign_sq _ (col_deciding_nonzero U t D)) as Q. unfold su.
    set (g := fsign Rops (deciding Rops (col Rops t U))) in *.
    replace (mg U i t * g * s t * (mg V t j * g)) with (mg U i t * s t * mg V t j * (g * g)) by ring. rewrite Q. ring.
  - destruct (flip_v_entries _ _ _ _ E) as [EV EU]. rewrite EU, EV by lia.
    destruct (Nat.ltb_spec t (length V)); [|lia].
    pose proof (fsign_sq _ (row_deciding_nonzero V t D)) as Q. unfold sv.
    set (g := fsign Rops (deciding Rops (nth t V []))) in *.
    replace (mg U i t * g * s t * (mg V t j * g)) with (mg U i t * s t * mg V t j * (g * g)) by ring. rewrite Q. ring.
Qed.

(* sign convention: in every deciding vector the entry of largest magnitude is non-negative
   (and equals that magnitude, so it is positive unless the vector vanishes) *)
Theorem flip_u_sign U V U' V' t : svd_flip Rops U V true = (U', V') -> U <> [] -> (t < ncols U)%nat ->
  exists imax, (imax < length U)%nat /\ mg U' imax t = Rabs (mg U imax t) /\
    (forall i, Rabs (mg U i t) <= Rabs (mg U imax t)) /\ (forall i, Rabs (mg U' i t) <= mg U' imax t).
Proof.
  intros E HU Ht. destruct (flip_u_entries _ _ _ _ E) as [EU _].
  assert (Hne : col Rops t U <> []) by (destruct U; [congruence | discriminate]).
  destruct (In_nth _ _ 0 (deciding_In _ Hne)) as (imax & Hi & Hd). rewrite col_length in Hi. rewrite nth_col in Hd.
  assert (Hmax : forall i, Rabs (mg U i t) <= Rabs (mg U imax t)).
  { intros i. rewrite Hd. destruct (Nat.lt_ge_cases i (length U)) as [H|H].
    - apply deciding_max. now apply In_col.
    - rewrite mg_out_rows by exact H. rewrite Rabs_R0. apply Rabs_pos. }
  assert (Hval : mg U' imax t = Rabs (mg U imax t)).
  { rewrite EU by exact Ht. unfold su. rewrite <- Hd. apply fsign_abs. }
  exists imax. repeat split; try assumption.
  intros i. rewrite Hval, EU by exact Ht. rewrite Rabs_mult.
  pose proof (fsign_abs_le1 (deciding Rops (col Rops t U))) as L1. unfold su.
  pose proof (Rabs_pos (mg U i t)). specialize (Hmax i).
  pose proof (Rabs_pos (fsign Rops (deciding Rops (col Rops t U)))). nra.
Qed.

Theorem flip_v_sign U V U' V' t : svd_flip Rops U V false = (U', V') -> (t < length V)%nat -> nth t V [] <> [] ->
  exists jmax, mg V' t jmax = Rabs (mg V t jmax) /\
    (forall j, Rabs (mg V t j) <= Rabs (mg V t jmax)) /\ (forall j, Rabs (mg V' t j) <= mg V' t jmax).
Proof.
  intros E Ht Hne. destruct (flip_v_entries _ _ _ _ E) as [EV _].
  destruct (In_nth _ _ 0 (deciding_In _ Hne)) as (jmax & Hj & Hd).
  change (mg V t jmax = deciding Rops (nth t V [])) in Hd.
  assert (Hmax : forall j, Rabs (mg V t j) <= Rabs (mg V t jmax)).
  { intros j. rewrite Hd. destruct (Nat.lt_ge_cases j (length (nth t V []))) as [H|H].
    - apply deciding_max. unfold mget. now apply nth_In.
    - unfold mget. rewrite (nth_overflow (nth t V [])) by exact H. cbn [f0 Rops]. rewrite Rabs_R0. apply Rabs_pos. }
  assert (Hval : mg V' t jmax = Rabs (mg V t jmax)).
  { rewrite EV. unfold sv. rewrite <- Hd. apply fsign_abs. }
  exists jmax. repeat split; try assumption.
  intros j. rewrite Hval, EV. rewrite Rabs_mult.
  pose proof (fsign_abs_le1 (deciding Rops (nth t V []))) as L1. unfold sv.
  pose proof (Rabs_pos (mg V t j)). specialize (Hmax j).
  pose proof (Rabs_pos (fsign Rops (deciding Rops (nth t V [])))). nra.
Qed.

(* orthonormal columns are never identically zero *)
Lemma orthonormal_col_nonzero m c U t : (t < c)%nat -> orthonormal_cols m c U -> ~ (forall i, (i < m)%nat -> U i t = 0).
Proof.
  intros Ht O Z. specialize (O t t Ht Ht). rewrite Nat.eqb_refl in O.
  rewrite rsum_zero in O by (intros i Hi; rewrite (Z i Hi); ring). lra.
Qed.
Lemma orthonormal_row_nonzero r n V t : (t < r)%nat -> orthonormal_rows r n V -> ~ (forall j, V t j = 0).
Proof.
  intros Ht O Z. specialize (O t t Ht Ht). rewrite Nat.eqb_refl in O.
  rewrite rsum_zero in O by (intros j Hj; rewrite (Z j); ring). lra.
Qed.

(* flipping keeps both families orthonormal *)
Theorem flip_orthonormal U V ub U' V' n : svd_flip Rops U V ub = (U', V') -> ncols U = length V ->
  orthonormal_cols (length U) (ncols U) (mg U) -> orthonormal_rows (length V) n (mg V) ->
  orthonormal_cols (length U) (ncols U) (mg U') /\ orthonormal_rows (length V) n (mg V').
Proof.
  intros E Hcr OU OV.
  assert (G : exists g : nat -> R, (forall t, (t < ncols U)%nat -> g t * g t = 1) /\
            (forall i t, (t < ncols U)%nat -> mg U' i t = mg U i t * g t) /\
            (forall t j, (t < ncols U)%nat -> mg V' t j = mg V t j * g t)).
  { destruct ub.
    - destruct (flip_u_entries _ _ _ _ E) as [EU EV]. exists (su U). split; [|split].
      + intros t Ht. apply fsign_sq. apply col_deciding_nonzero. now apply (orthonormal_col_nonzero _ _ _ _ Ht OU).
      + exact EU.
      + intros t j Ht. rewrite EV by lia. destruct (Nat.ltb_spec t (ncols U)); [reflexivity | lia].
    - destruct (flip_v_entries _ _ _ _ E) as [EV EU]. exists (sv V). split; [|split].
      + intros t Ht. apply fsign_sq. apply row_deciding_nonzero. rewrite Hcr in Ht.
        now apply (orthonormal_row_nonzero _ _ _ _ Ht OV).
      + intros i t Ht. rewrite EU by exact Ht. destruct (Nat.ltb_spec t (length V)); [reflexivity | lia].
      + intros t j _. apply EV. }
  destruct G as (g & Gsq & GU & GV). split.
  - intros a b Ha Hb.
    rewrite (rsum_ext _ _ (fun i => (g a * g b) * (mg U i a * mg U i b))) by (intros; rewrite !GU by assumption; ring).
    rewrite rsum_scale, OU by assumption. destruct (Nat.eqb_spec a b) as [->|]; [rewrite Gsq by assumption|]; ring.
  - rewrite <- Hcr. intros a b Ha Hb.
    rewrite (rsum_ext _ _ (fun j => (g a * g b) * (mg V a j * mg V b j))) by (intros; rewrite !GV by assumption; ring).
    rewrite rsum_scale, OV by lia. destruct (Nat.eqb_spec a b) as [->|]; [rewrite Gsq by assumption|]; ring.
Qed.
