(* Auxiliary list / rsum facts used by the C05 proofs. *)
From Coq Require Import List Arith Lia Bool Reals Lra Psatz.
From TLV Require Import Base.Ops Base.RSum.
Import ListNotations.
Local Open Scope nat_scope.

Lemma nth_map_d {A B} (f : A -> B) l i d d' : f d = d' -> nth i (map f l) d' = f (nth i l d).
Proof. intros <-. apply map_nth. Qed.

Lemma nth_map_seq {B} (f : nat -> B) c t d : t < c -> nth t (map f (seq 0 c)) d = f t.
Proof.
  intros H. rewrite nth_indep with (d' := f 0) by (now rewrite map_length, seq_length).
  rewrite map_nth, seq_nth by exact H. reflexivity.
Qed.

Lemma nth_firstn_lt {A} (l : list A) k i d : i < k -> nth i (firstn k l) d = nth i l d.
Proof.
  revert k i. induction l as [|x l IH]; intros k i H.
  - now rewrite firstn_nil.
  - destruct k; [lia|]. destruct i; simpl; [reflexivity|]. apply IH. lia.
Qed.

Lemma nth_nil {A} i (d : A) : nth i [] d = d.
Proof. destruct i; reflexivity. Qed.

Lemma Forall_nth_len {A} (P : A -> Prop) l i d : Forall P l -> i < length l -> P (nth i l d).
Proof. intros H Hi. rewrite Forall_forall in H. apply H. now apply nth_In. Qed.

Open Scope R_scope.

Lemma rsum_app n m f : rsum (n + m) f = rsum n f + rsum m (fun j => f (n + j)%nat).
Proof.
  induction m; simpl.
  - rewrite Nat.add_0_r. ring.
  - rewrite Nat.add_succ_r. simpl. rewrite IHm. ring.
Qed.

Lemma rsum_scale_r n c f : rsum n (fun i => f i * c) = rsum n f * c.
Proof. induction n; simpl; [ring | rewrite IHn; ring]. Qed.

Lemma rsum_prod n m f g : rsum n f * rsum m g = rsum n (fun i => rsum m (fun j => f i * g j)).
Proof. rewrite <- rsum_scale_r. apply rsum_ext; intros i _. now rewrite rsum_scale. Qed.

Lemma rsum_sq n f : (rsum n f)^2 = rsum n (fun t => rsum n (fun t' => f t * f t')).
Proof. replace ((rsum n f)^2) with (rsum n f * rsum n f) by ring. apply rsum_prod. Qed.

(* an "orthonormal family": columns a < c of a matrix with m rows, given as a function *)
Definition orthonormal_cols (m c : nat) (U : nat -> nat -> R) : Prop :=
  forall a b, (a < c)%nat -> (b < c)%nat -> rsum m (fun i => U i a * U i b) = if Nat.eqb a b then 1 else 0.
Definition orthonormal_rows (r n : nat) (V : nat -> nat -> R) : Prop :=
  forall a b, (a < r)%nat -> (b < r)%nat -> rsum n (fun j => V a j * V b j) = if Nat.eqb a b then 1 else 0.

Lemma orthonormal_cols_sub m c c' U : (c' <= c)%nat -> orthonormal_cols m c U -> orthonormal_cols m c' U.
Proof. intros H O a b Ha Hb. apply O; lia. Qed.
Lemma orthonormal_rows_sub r r' n V : (r' <= r)%nat -> orthonormal_rows r n V -> orthonormal_rows r' n V.
Proof. intros H O a b Ha Hb. apply O; lia. Qed.
Lemma orthonormal_cols_ext m c U U' : (forall i t, (i < m)%nat -> (t < c)%nat -> U' i t = U i t) ->
  orthonormal_cols m c U -> orthonormal_cols m c U'.
Proof. intros E O a b Ha Hb. rewrite <- (O a b Ha Hb). apply rsum_ext; intros i Hi. now rewrite !E. Qed.
Lemma orthonormal_rows_ext r n V V' : (forall t j, (t < r)%nat -> (j < n)%nat -> V' t j = V t j) ->
  orthonormal_rows r n V -> orthonormal_rows r n V'.
Proof. intros E O a b Ha Hb. rewrite <- (O a b Ha Hb). apply rsum_ext; intros j Hj. now rewrite !E. Qed.
(* offset sub-family (columns k .. k+q-1) *)
Lemma orthonormal_cols_shift m c k q U : (k + q <= c)%nat -> orthonormal_cols m c U ->
  orthonormal_cols m q (fun i t => U i (k + t)%nat).
Proof.
  intros H O a b Ha Hb. rewrite O by lia.
  destruct (Nat.eqb_spec a b), (Nat.eqb_spec (k + a) (k + b)); try reflexivity; lia.
Qed.
Lemma orthonormal_rows_shift r n k q V : (k + q <= r)%nat -> orthonormal_rows r n V ->
  orthonormal_rows q n (fun t j => V (k + t)%nat j).
Proof.
  intros H O a b Ha Hb. rewrite O by lia.
  destruct (Nat.eqb_spec a b), (Nat.eqb_spec (k + a) (k + b)); try reflexivity; lia.
Qed.

(* isometry: for orthonormal columns, || U w ||^2 = || w ||^2 *)
Lemma isometry m c U w : orthonormal_cols m c U ->
  rsum m (fun i => (rsum c (fun t => U i t * w t))^2) = rsum c (fun t => (w t)^2).
Proof.
  intros O.
  rewrite (rsum_ext m _ (fun i => rsum c (fun t => rsum c (fun t' => (w t * w t') * (U i t * U i t'))))).
  2:{ intros i _. rewrite rsum_sq. apply rsum_ext; intros t _. apply rsum_ext; intros t' _. ring. }
  rewrite rsum_exchange. apply rsum_ext; intros t Ht.
  rewrite rsum_exchange.
  rewrite (rsum_ext c _ (fun t' => (w t * w t') * (if Nat.eqb t t' then 1 else 0))).
  2:{ intros t' Ht'. rewrite rsum_scale. now rewrite O. }
  rewrite (rsum_single c t); [ | exact Ht | intros t' _ Hn; destruct (Nat.eqb_spec t t'); [congruence | ring] ].
  rewrite Nat.eqb_refl. ring.
Qed.

(* Frobenius norm of  sum_t U[:,t] s_t V[t,:]  with orthonormal factors *)
Lemma frob_orth m n q U s V : orthonormal_cols m q U -> orthonormal_rows q n V ->
  rsum m (fun i => rsum n (fun j => (rsum q (fun t => U i t * s t * V t j))^2)) = rsum q (fun t => (s t)^2).
Proof.
  intros OU OV.
  rewrite rsum_exchange.
  rewrite (rsum_ext n _ (fun j => rsum q (fun t => (s t * V t j)^2))).
  2:{ intros j _. rewrite <- (isometry m q U (fun t => s t * V t j) OU).
      apply rsum_ext; intros i _. f_equal. apply rsum_ext; intros t _. ring. }
  rewrite rsum_exchange. apply rsum_ext; intros t Ht.
  rewrite (rsum_ext n _ (fun j => (s t)^2 * (V t j * V t j))) by (intros; ring).
  rewrite rsum_scale, OV by exact Ht. rewrite Nat.eqb_refl. ring.
Qed.

(* truncation error identity at function level *)
Lemma trunc_error m n p k (M U V : nat -> nat -> R) s : (k <= p)%nat ->
  orthonormal_cols m p U -> orthonormal_rows p n V ->
  (forall i j, (i < m)%nat -> (j < n)%nat -> M i j = rsum p (fun t => U i t * s t * V t j)) ->
  rsum m (fun i => rsum n (fun j => (M i j - rsum k (fun t => U i t * s t * V t j))^2))
  = rsum (p - k) (fun t => (s (k + t)%nat)^2).
Proof.
  intros Hk OU OV HM.
  rewrite <- (frob_orth m n (p - k) (fun i t => U i (k + t)%nat) (fun t => s (k + t)%nat) (fun t j => V (k + t)%nat j)).
  - apply rsum_ext; intros i Hi. apply rsum_ext; intros j Hj. f_equal.
    rewrite HM by assumption. replace p with (k + (p - k))%nat at 1 by lia. rewrite rsum_app. ring.
  - apply orthonormal_cols_shift with (c := p); [lia | exact OU].
  - apply orthonormal_rows_shift with (r := p); [lia | exact OV].
Qed.
