(* C05: randomized_svd of the model END TO END (both branches are the model's own code: range finder output Q, reduced matrix
   computed by mmul / transp, inner truncated_svd of LAPACK's answer on the reduced matrix, lifting by Q).
   Hypotheses: the Q factor returned by the range finder has orthonormal columns and covers the range of M
   (M = Q (Q^T M); this is what n_eigenvecs + n_oversamples >= rank buys with probability 1 over the Gaussian draw --
   it stays a HYPOTHESIS, hence _partial; for n_iter = 0 it is derived below from the QR contract and the statement
   "the sketch M G spans the columns of M"), and LAPACK's contract for the reduced matrix. *)
From Coq Require Import List Arith Lia Bool Reals Lra.
From TLV Require Import Base.Ops Base.Tensor Base.RSum Model.Svd Proofs.SvdProofsAux Proofs.SvdProofs Proofs.SvdInterfaceProofs
  Proofs.SvdRandProofs Proofs.SvdSymeigFull Proofs.SvdSymeigShapes Proofs.SvdMaskProofs Proofs.SvdDecisions Proofs.SvdEckartYoung.
Import ListNotations.
Local Open Scope R_scope.

Lemma lift_frob m n c (Q D E : nat -> nat -> R) : orthonormal_cols m c Q ->
  (forall i j, (i < m)%nat -> (j < n)%nat -> D i j = rsum c (fun a => Q i a * E a j)) ->
  rsum m (fun i => rsum n (fun j => (D i j)^2)) = rsum c (fun a => rsum n (fun j => (E a j)^2)).
Proof.
  intros O H. rewrite rsum_exchange. rewrite (rsum_exchange c n). apply rsum_ext; intros j Hj.
  rewrite <- (isometry m c Q (fun a => E a j) O). apply rsum_ext; intros i Hi. now rewrite H.
Qed.

Lemma rect_ncols_min {A} r x (M : list (list A)) : rect r (Nat.min x r) M -> ncols M = Nat.min x r.
Proof.
  intros [L F]. destruct M as [|row M]; cbn in L.
  - subst r. unfold ncols; cbn. lia.
  - unfold ncols; cbn [hd]. now inversion F.
Qed.

Definition covers (d1 d2 c : nat) (M Q : nat -> nat -> R) : Prop :=
  forall i j, (i < d1)%nat -> (j < d2)%nat -> M i j = rsum c (fun a => Q i a * rsum d1 (fun i' => Q i' a * M i' j)).

(* ---------- the non-transposed branch ---------- *)
Theorem randomized_svd_direct_partial (svd : list (list R) -> bool -> triple R) (qr : nat -> list (list R) -> list (list R))
    (G M : list (list R)) d1 d2 n n_over n_iter c U Sg V :
  rect d1 d2 M -> (1 <= d1)%nat ->
  let k := n_kept d1 d2 n in
  dec_rand_transposed d1 d2 k (Nat.min d1 d2) (dec_rand_ndims k n_over (Nat.max d1 d2)) = false ->
  let Q := range_finder Rops qr M d2 G n_iter in
  rect d1 c Q -> orthonormal_cols d1 c (mg Q) -> covers d1 d2 c (mg M) (mg Q) ->
  let Mred := mmul Rops d2 (transp Rops c Q) M in
  (forall f, svd_contract c d2 (mg Mred) f (svd Mred f)) ->
  randomized_svd Rops svd qr G M d1 d2 n n_over n_iter = (U, Sg, V) ->
  let kk := Nat.min k (Nat.max c d2) in
  let So := snd (fst (svd Mred (Nat.min c d2 <? kk))) in
  shape3 (U, Sg, V) d1 (Nat.min kk c) (Nat.min kk (Nat.min c d2)) (Nat.min kk d2) d2 /\
  Sg = firstn kk So /\ nonneg_list Sg /\ nonincreasing Sg /\
  orthonormal_cols d1 (Nat.min kk c) (mg U) /\ orthonormal_rows (Nat.min kk d2) d2 (mg V) /\
  frob2 d1 d2 (fun i j => mg M i j - recon U Sg V i j) = rsum (Nat.min c d2 - kk) (fun t => (nth (kk + t) So 0)^2) /\
  (forall B, rank_le d1 d2 k B ->
     frob2 d1 d2 (fun i j => mg M i j - recon U Sg V i j) <= frob2 d1 d2 (fun i j => mg M i j - B i j)).
Proof.
  intros HM Hd1 k HB Q HQ OQ HCov Mred HSVD E kk So.
  rewrite randomized_svd_factored in E.
  pose proof (svd_checks_spec d1 d2 n) as SC. unfold k, n_kept in HB.
  assert (Ek : n_kept d1 d2 n = fst (fst (svd_checks d1 d2 n))) by reflexivity.
  destruct (svd_checks d1 d2 n) as [[k0 mn] mx] eqn:ESC. cbn [fst] in HB, Ek.
  destruct SC as (-> & -> & _). fold k in Ek. subst k0.
  cbv beta iota zeta in E. rewrite HB in E. fold Q in E.
  assert (NC : ncols Q = c) by (apply (rect_ncols d1 c Q HQ); lia).
  rewrite NC in E. fold Mred in E.
  assert (RT : rect c d1 (transp Rops c Q)) by (destruct HQ as [LQ _]; rewrite <- LQ; apply rect_transp).
  assert (RM : rect c d2 Mred).
  { unfold Mred. destruct RT as [LT _]. rewrite <- LT at 1. apply rect_mmul. }
  assert (EM : forall a j, (a < c)%nat -> (j < d2)%nat -> mg Mred a j = rsum d1 (fun i => mg Q i a * mg M i j)).
  { intros a j Ha Hj. unfold Mred. rewrite (mg_mmul d2 (transp Rops c Q) M a j d1).
    - apply rsum_ext; intros i Hi. now rewrite mg_transp.
    - destruct RT as [LT _]. lia.
    - exact Hj.
    - apply (rect_row c d1); assumption.
    - now destruct HM. }
  set (oracle := svd Mred) in *.
  assert (HC : forall f, svd_contract c d2 (mg Mred) f (oracle f)) by exact HSVD.
  assert (KK : n_kept c d2 (Some k) = kk) by (rewrite n_kept_spec; reflexivity).
  assert (FF : full_flag c d2 (Some k) = (Nat.min c d2 <? kk)) by (unfold full_flag; now rewrite KK).
  pose proof (truncated_shapes R oracle c d2 (Some k) (fun f => svd_contract_shape _ _ _ _ _ (HC f))) as SH.
  pose proof (truncated_S_prefix R oracle c d2 (Some k)) as SP.
  pose proof (truncated_S_ordered oracle c d2 (Some k)) as SO.
  pose proof (truncated_orthonormal oracle c d2 (mg Mred) (Some k) HC) as OO.
  pose proof (truncated_error oracle c d2 (mg Mred) (Some k) HC) as EE.
  cbv zeta in SH, OO, EE. rewrite KK in SH, SP, OO, EE. rewrite FF in SP, EE. fold So in SP, EE.
  assert (SOH : forall f, nonneg_list (snd (fst (oracle f))) /\ nonincreasing (snd (fst (oracle f)))).
  { intros f. specialize (HC f). destruct (oracle f) as [[U1 S1] V1]. destruct HC as (_ & _ & _ & N1 & N2 & _). now split. }
  specialize (SO SOH). cbv zeta in SO. destruct SO as (SO1 & SO2 & _).
  destruct (truncated_svd oracle c d2 (Some k)) as [[U0 S0] V0] eqn:T. cbn [fst snd] in SP, SO1, SO2.
  destruct SH as (RU & LS & RV). destruct OO as [OU OV].
  assert (NU : ncols U0 = Nat.min kk c) by (apply (rect_ncols_min c kk U0 RU)).
  rewrite NU in E. inversion E; subst U Sg V. clear E.
  set (pu := Nat.min kk c) in *.
  assert (EU : forall i t, (i < d1)%nat -> (t < pu)%nat ->
             mg (mmul Rops pu Q U0) i t = fmul_mat c (mg Q) (mg U0) i t).
  { intros i t Hi Ht. unfold fmul_mat. apply mg_mmul.
    - destruct HQ as [LQ _]. lia.
    - exact Ht.
    - apply (rect_row d1 c); assumption.
    - now destruct RU. }
  assert (OU' : orthonormal_cols d1 pu (mg (mmul Rops pu Q U0))).
  { eapply orthonormal_cols_ext; [| apply (lift_orthonormal d1 c pu (mg Q) (mg U0) OQ OU)]. intros i t Hi Ht. now apply EU. }
  (* the error of the lifted triple equals the error of the small one *)
  assert (ERR : frob2 d1 d2 (fun i j => mg M i j - recon (mmul Rops pu Q U0) S0 V0 i j)
                = rsum c (fun a => rsum d2 (fun j => (mg Mred a j - recon U0 S0 V0 a j)^2))).
  { unfold frob2. apply (lift_frob d1 d2 c (mg Q)); [exact OQ|]. intros i j Hi Hj.
    rewrite (HCov i j Hi Hj). unfold recon.
    rewrite (rsum_ext (length S0) _ (fun t => rsum c (fun a => mg Q i a * (mg U0 a t * nth t S0 0 * mg V0 t j)))).
    2:{ intros t Ht. rewrite EU by (unfold pu; lia). unfold fmul_mat.
        rewrite Rmult_assoc, <- rsum_scale_r. apply rsum_ext; intros; ring. }
    rewrite rsum_exchange, <- rsum_sub. apply rsum_ext; intros a Ha.
    rewrite rsum_scale. rewrite EM by assumption. ring. }
  split; [|split; [exact SP | split; [exact SO1 | split; [exact SO2 | split; [exact OU' | split; [exact OV|]]]]]].
  { split; [|split; [exact LS | exact RV]]. destruct HQ as [LQ _]. rewrite <- LQ. apply rect_mmul. }
  split; [rewrite ERR; exact EE|].
  intros B HBk. rewrite ERR, EE.
  destruct (Nat.ltb_spec (Nat.min c d2) kk) as [Hlt|Hle].
  - replace (Nat.min c d2 - kk)%nat with 0%nat by lia. cbn [rsum]. apply frob2_nonneg.
  - (* kk <= min c d2: LAPACK's thin answer on the reduced matrix lifts to a thin SVD of M; Eckart-Young *)
    assert (Kk : (kk = k \/ Nat.min c d2 - kk = 0)%nat) by (unfold kk; lia).
    destruct Kk as [Kk|Kk]; [|rewrite Kk; cbn [rsum]; apply frob2_nonneg].
    rewrite Kk in *. specialize (HC false). unfold So. destruct (oracle false) as [[Uf Sf] Vf] eqn:EO. cbn [fst snd].
    destruct HC as ((RUf & LSf & RVf) & OUf & OVf & N1 & N2 & HMf). unfold frob2.
    apply (eckart_young_fn d1 d2 (Nat.min c d2) k (mg M) (fmul_mat c (mg Q) (mg Uf)) (mg Vf) B (fun t => nth t Sf 0)).
    + now apply lift_orthonormal.
    + exact OVf.
    + intros t Ht. apply (Forall_nth_len (fun x => 0 <= x)); [exact N1 | rewrite LSf; exact Ht].
    + intros i j Hij Hj. apply N2; [exact Hij | rewrite LSf; exact Hj].
    + intros i j Hi Hj.
      apply (lift_recon c (Nat.min c d2) (mg Q) (mg Uf) (mg Vf) (mg Mred) (fun t => nth t Sf 0) (mg M i j) i j).
      * rewrite (HCov i j Hi Hj). apply rsum_ext; intros a Ha. now rewrite EM.
      * intros a Ha. now apply HMf.
    + exact HBk.
Qed.

(* ---------- the transposed branch: range finder on M^T, reduced matrix M Q, V' = V @ Q^T ---------- *)
Definition coversT (d1 d2 c : nat) (M Q : nat -> nat -> R) : Prop :=
  forall i j, (i < d1)%nat -> (j < d2)%nat -> M i j = rsum c (fun a => rsum d2 (fun j' => M i j' * Q j' a) * Q j a).

Theorem randomized_svd_transposed_partial (svd : list (list R) -> bool -> triple R) (qr : nat -> list (list R) -> list (list R))
    (G M : list (list R)) d1 d2 n n_over n_iter c U Sg V :
  rect d1 d2 M -> (1 <= d2)%nat ->
  let k := n_kept d1 d2 n in
  dec_rand_transposed d1 d2 k (Nat.min d1 d2) (dec_rand_ndims k n_over (Nat.max d1 d2)) = true ->
  let Q := range_finder Rops qr (transp Rops d2 M) d1 G n_iter in
  rect d2 c Q -> orthonormal_cols d2 c (mg Q) -> coversT d1 d2 c (mg M) (mg Q) ->
  let Mred := transp Rops d1 (mmul Rops d1 (transp Rops c Q) (transp Rops d2 M)) in
  (forall f, svd_contract d1 c (mg Mred) f (svd Mred f)) ->
  randomized_svd Rops svd qr G M d1 d2 n n_over n_iter = (U, Sg, V) ->
  let kk := Nat.min k (Nat.max d1 c) in
  let So := snd (fst (svd Mred (Nat.min d1 c <? kk))) in
  shape3 (U, Sg, V) d1 (Nat.min kk d1) (Nat.min kk (Nat.min d1 c)) (Nat.min kk c) d2 /\
  Sg = firstn kk So /\ nonneg_list Sg /\ nonincreasing Sg /\
  orthonormal_cols d1 (Nat.min kk d1) (mg U) /\ orthonormal_rows (Nat.min kk c) d2 (mg V) /\
  frob2 d1 d2 (fun i j => mg M i j - recon U Sg V i j) = rsum (Nat.min d1 c - kk) (fun t => (nth (kk + t) So 0)^2) /\
  (forall B, rank_le d1 d2 k B ->
     frob2 d1 d2 (fun i j => mg M i j - recon U Sg V i j) <= frob2 d1 d2 (fun i j => mg M i j - B i j)).
Proof.
  intros HM Hd2 k HB Q HQ OQ HCov Mred HSVD E kk So.
  rewrite randomized_svd_factored in E.
  pose proof (svd_checks_spec d1 d2 n) as SC. unfold k, n_kept in HB.
  assert (Ek : n_kept d1 d2 n = fst (fst (svd_checks d1 d2 n))) by reflexivity.
  destruct (svd_checks d1 d2 n) as [[k0 mn] mx] eqn:ESC. cbn [fst] in HB, Ek.
  destruct SC as (-> & -> & _). fold k in Ek. subst k0.
  cbv beta iota zeta in E. rewrite HB in E. fold Q in E.
  assert (NC : ncols Q = c) by (apply (rect_ncols d2 c Q HQ); lia).
  rewrite NC in E. fold Mred in E.
  set (Mt := transp Rops d2 M) in *.
  assert (RMt : rect d2 d1 Mt) by (destruct HM as [LM _]; rewrite <- LM; apply rect_transp).
  assert (RT : rect c d2 (transp Rops c Q)) by (destruct HQ as [LQ _]; rewrite <- LQ; apply rect_transp).
  set (X := mmul Rops d1 (transp Rops c Q) Mt) in *.
  assert (RX : rect c d1 X) by (unfold X; destruct RT as [LT _]; rewrite <- LT at 1; apply rect_mmul).
  assert (RM : rect d1 c Mred) by (unfold Mred; destruct RX as [LX _]; rewrite <- LX; apply rect_transp).
  assert (EM : forall i a, (i < d1)%nat -> (a < c)%nat -> mg Mred i a = rsum d2 (fun j => mg M i j * mg Q j a)).
  { intros i a Hi Ha. unfold Mred. rewrite mg_transp by exact Hi. unfold X.
    rewrite (mg_mmul d1 (transp Rops c Q) Mt a i d2).
    - apply rsum_ext; intros j Hj. rewrite mg_transp by exact Ha. unfold Mt. rewrite mg_transp by exact Hj. ring.
    - destruct RT as [LT _]. lia.
    - exact Hi.
    - apply (rect_row c d2); assumption.
    - now destruct RMt. }
  set (oracle := svd Mred) in *.
  assert (HC : forall f, svd_contract d1 c (mg Mred) f (oracle f)) by exact HSVD.
  assert (KK : n_kept d1 c (Some k) = kk) by (rewrite n_kept_spec; reflexivity).
  assert (FF : full_flag d1 c (Some k) = (Nat.min d1 c <? kk)) by (unfold full_flag; now rewrite KK).
  pose proof (truncated_shapes R oracle d1 c (Some k) (fun f => svd_contract_shape _ _ _ _ _ (HC f))) as SH.
  pose proof (truncated_S_prefix R oracle d1 c (Some k)) as SP.
  pose proof (truncated_S_ordered oracle d1 c (Some k)) as SO.
  pose proof (truncated_orthonormal oracle d1 c (mg Mred) (Some k) HC) as OO.
  pose proof (truncated_error oracle d1 c (mg Mred) (Some k) HC) as EE.
  cbv zeta in SH, OO, EE. rewrite KK in SH, SP, OO, EE. rewrite FF in SP, EE. fold So in SP, EE.
  assert (SOH : forall f, nonneg_list (snd (fst (oracle f))) /\ nonincreasing (snd (fst (oracle f)))).
  { intros f. specialize (HC f). destruct (oracle f) as [[U1 S1] V1]. destruct HC as (_ & _ & _ & N1 & N2 & _). now split. }
  specialize (SO SOH). cbv zeta in SO. destruct SO as (SO1 & SO2 & _).
  destruct (truncated_svd oracle d1 c (Some k)) as [[U0 S0] V0] eqn:T. cbn [fst snd] in SP, SO1, SO2.
  destruct SH as (RU & LS & RV). destruct OO as [OU OV].
  inversion E; subst U Sg V. clear E.
  set (pv := Nat.min kk c) in *.
  assert (EV : forall t j, (t < pv)%nat -> (j < d2)%nat ->
             mg (mmul Rops d2 V0 (transp Rops c Q)) t j = fmul_matT c (mg V0) (mg Q) t j).
  { intros t j Ht Hj. unfold fmul_matT. rewrite (mg_mmul d2 V0 (transp Rops c Q) t j c).
    - apply rsum_ext; intros a Ha. now rewrite mg_transp.
    - destruct RV as [LV _]. lia.
    - exact Hj.
    - apply (rect_row pv c); assumption.
    - now destruct RT. }
  assert (OV' : orthonormal_rows pv d2 (mg (mmul Rops d2 V0 (transp Rops c Q)))).
  { intros a b Ha Hb. rewrite <- (OV a b Ha Hb).
    rewrite <- (isometry2 d2 c (mg Q) (fun t => mg V0 a t) (fun t => mg V0 b t) OQ).
    apply rsum_ext; intros j Hj. rewrite !EV by assumption. unfold fmul_matT.
    f_equal; apply rsum_ext; intros; ring. }
  assert (ERR : frob2 d1 d2 (fun i j => mg M i j - recon U0 S0 (mmul Rops d2 V0 (transp Rops c Q)) i j)
                = rsum d1 (fun i => rsum c (fun a => (mg Mred i a - recon U0 S0 V0 i a)^2))).
  { unfold frob2. rewrite rsum_exchange. rewrite (rsum_exchange d1 c).
    apply (lift_frob d2 d1 c (mg Q) (fun j i => mg M i j - recon U0 S0 (mmul Rops d2 V0 (transp Rops c Q)) i j)
             (fun a i => mg Mred i a - recon U0 S0 V0 i a)); [exact OQ|]. intros j i Hj Hi.
    rewrite (HCov i j Hi Hj). unfold recon.
    rewrite (rsum_ext (length S0) _ (fun t => rsum c (fun a => mg Q j a * (mg U0 i t * nth t S0 0 * mg V0 t a)))).
    2:{ intros t Ht. rewrite EV by (try exact Hj; unfold pv; lia). unfold fmul_matT.
        rewrite <- rsum_scale. apply rsum_ext; intros; ring. }
    rewrite rsum_exchange, <- rsum_sub. apply rsum_ext; intros a Ha.
    rewrite rsum_scale. rewrite EM by assumption. ring. }
  split; [|split; [exact SP | split; [exact SO1 | split; [exact SO2 | split; [exact OU | split; [exact OV'|]]]]]].
  { split; [exact RU | split; [exact LS|]]. destruct RV as [LV _]. rewrite <- LV. apply rect_mmul. }
  split; [rewrite ERR; exact EE|].
  intros B HBk. rewrite ERR, EE.
  destruct (Nat.ltb_spec (Nat.min d1 c) kk) as [Hlt|Hle].
  - replace (Nat.min d1 c - kk)%nat with 0%nat by lia. cbn [rsum]. apply frob2_nonneg.
  - assert (Kk : (kk = k \/ Nat.min d1 c - kk = 0)%nat) by (unfold kk; lia).
    destruct Kk as [Kk|Kk]; [|rewrite Kk; cbn [rsum]; apply frob2_nonneg].
    rewrite Kk in *. specialize (HC false). unfold So. destruct (oracle false) as [[Uf Sf] Vf] eqn:EO. cbn [fst snd].
    destruct HC as ((RUf & LSf & RVf) & OUf & OVf & N1 & N2 & HMf). unfold frob2.
    destruct (randomized_liftT_partial d1 d2 c (Nat.min d1 c) 0 (mg M) (mg Q) (mg Mred) (mg Uf) (mg Vf) (fun t => nth t Sf 0))
      as (O1 & R1 & _).
    + exact OQ.
    + intros i j Hi Hj. rewrite (HCov i j Hi Hj). apply rsum_ext; intros a Ha. now rewrite EM.
    + exact OUf.
    + exact OVf.
    + intros i a Hi Ha. now apply HMf.
    + lia.
    + apply (eckart_young_fn d1 d2 (Nat.min d1 c) k (mg M) (mg Uf) (fmul_matT c (mg Vf) (mg Q)) B (fun t => nth t Sf 0)); try assumption.
      * intros t Ht. apply (Forall_nth_len (fun x => 0 <= x)); [exact N1 | rewrite LSf; exact Ht].
      * intros i j Hij Hj. apply N2; [exact Hij | rewrite LSf; exact Hj].
Qed.

(* ---------- where the hypotheses on Q come from: the QR contract and a spanning sketch ----------
   The range finder ends with  Q, _ = qr(A @ P)  where P is the Gaussian matrix G (n_iter = 0) or the Q factor of the last
   qr(A^H @ Q) call.  If every tl.qr answer meets the reduced-QR contract (shape, orthonormal columns, X = Q (Q^T X), i.e.
   X = Q R) and the columns of the last sketch A @ P span the columns of A, then Q has the shape / orthonormality / covering
   properties assumed above.  The spanning statement is the probabilistic part (rank + oversampling >= rank(A)). *)
Fixpoint last_test (qr : nat -> list (list R) -> list (list R)) (A At : list (list R)) (n_iter call : nat) (Q P : list (list R))
  : nat * list (list R) :=
  match n_iter with
  | 0%nat => ((call - 1)%nat, P)
  | S k => let Q1 := qr call (mmul Rops (ncols Q) At Q) in
           last_test qr A At k (S (S call)) (qr (S call) (mmul Rops (ncols Q1) A Q1)) Q1
  end.

Lemma power_iter_last qr A At : forall n_iter call Q P, (1 <= call)%nat -> Q = qr (call - 1)%nat (mmul Rops (ncols P) A P) ->
  let '(idx, P') := last_test qr A At n_iter call Q P in
  power_iter Rops qr A At n_iter call Q = qr idx (mmul Rops (ncols P') A P').
Proof.
  induction n_iter as [|k IH]; intros call Q P Hc HQ; cbn [last_test power_iter]; [exact HQ|].
  apply IH; [lia|]. replace (S (S call) - 1)%nat with (S call) by lia. reflexivity.
Qed.

Definition final_test qr (A : list (list R)) (cA : nat) (G : list (list R)) (n_iter : nat) : nat * list (list R) :=
  last_test qr A (transp Rops cA A) n_iter 1 (qr 0%nat (mmul Rops (ncols G) A G)) G.

Lemma range_finder_last qr A cA G n_iter :
  let '(idx, P) := final_test qr A cA G n_iter in
  range_finder Rops qr A cA G n_iter = qr idx (mmul Rops (ncols P) A P).
Proof. unfold range_finder, final_test. apply power_iter_last; [lia | reflexivity]. Qed.

Example final_test_no_iter qr A cA G : final_test qr A cA G 0 = (0%nat, G).
Proof. reflexivity. Qed.

(* the reduced-QR contract for one answer Qx = the Q factor of tl.qr(X), X of shape d x w *)
Definition qr_ok (d w : nat) (X Qx : list (list R)) : Prop :=
  let c := Nat.min d w in
  rect d c Qx /\ orthonormal_cols d c (mg Qx) /\
  forall i j, (i < d)%nat -> (j < w)%nat ->
    mg X i j = rsum c (fun a => mg Qx i a * rsum d (fun i' => mg Qx i' a * mg X i' j)).

Definition spans (d1 d2 w : nat) (A X : nat -> nat -> R) : Prop :=
  exists C : nat -> nat -> R, forall i j, (i < d1)%nat -> (j < d2)%nat -> A i j = rsum w (fun b => X i b * C b j).

Theorem range_finder_covers qr (A : list (list R)) d1 d2 G n_iter :
  rect d1 d2 A ->
  let idx := fst (final_test qr A d2 G n_iter) in
  let P := snd (final_test qr A d2 G n_iter) in
  let w := ncols P in
  qr_ok d1 w (mmul Rops w A P) (qr idx (mmul Rops w A P)) ->
  spans d1 d2 w (mg A) (mg (mmul Rops w A P)) ->
  let Q := range_finder Rops qr A d2 G n_iter in
  let c := Nat.min d1 w in
  rect d1 c Q /\ orthonormal_cols d1 c (mg Q) /\ covers d1 d2 c (mg A) (mg Q).
Proof.
  intros HA. cbv zeta.
  pose proof (range_finder_last qr A d2 G n_iter) as RL.
  destruct (final_test qr A d2 G n_iter) as [idx P0]. cbn [fst snd]. intros HQR (C & HC).
  set (Q := range_finder Rops qr A d2 G n_iter) in *. set (c := Nat.min d1 (ncols P0)).
  set (X := mmul Rops (ncols P0) A P0) in *.
  destruct HQR as (R1 & O1 & F1). rewrite <- RL in R1, O1, F1. fold c in R1, O1, F1.
  split; [exact R1 | split; [exact O1|]].
  intros i j Hi Hj. rewrite (HC i j Hi Hj).
  rewrite (rsum_ext (ncols P0) _ (fun b => rsum c (fun a => mg Q i a * (rsum d1 (fun i' => mg Q i' a * mg X i' b) * C b j)))).
  2:{ intros b Hb. rewrite (F1 i b Hi Hb). rewrite <- rsum_scale_r. apply rsum_ext; intros; ring. }
  rewrite rsum_exchange. apply rsum_ext; intros a Ha. rewrite rsum_scale. f_equal.
  rewrite (rsum_ext d1 _ (fun i' => rsum (ncols P0) (fun b => mg Q i' a * (mg X i' b * C b j)))).
  2:{ intros i' Hi'. rewrite (HC i' j Hi' Hj). now rewrite rsum_scale. }
  rewrite rsum_exchange. apply rsum_ext; intros b Hb. rewrite <- rsum_scale_r. apply rsum_ext; intros; ring.
Qed.

(* the same for the transposed branch: the range finder runs on M^T *)
Lemma covers_transp d1 d2 c (M : list (list R)) (Qf : nat -> nat -> R) :
  covers d2 d1 c (mg (transp Rops d2 M)) Qf -> coversT d1 d2 c (mg M) Qf.
Proof.
  intros H i j Hi Hj. pose proof (H j i Hj Hi) as E. rewrite mg_transp in E by exact Hj. rewrite E.
  apply rsum_ext; intros a Ha. rewrite Rmult_comm. f_equal.
  apply rsum_ext; intros j' Hj'. rewrite mg_transp by exact Hj'. ring.
Qed.

(* ---------- non-vacuity: all hypotheses hold jointly on a 2 x 1 instance (n_eigenvecs = 1, no oversampling, n_iter = 0) ---------- *)
Definition Mx : list (list R) := [[2]; [0]].
Definition Gx : list (list R) := [[1]].
Definition qrx (_ : nat) (_ : list (list R)) : list (list R) := [[1]; [0]].
Definition svdx (_ : list (list R)) (_ : bool) : triple R := ([[1]], [2], [[1]]).
Ltac small2 j := first [ (destruct j as [|[|[|j]]]; [ | | | exfalso; lia]) ].
Ltac calc2 := cbn [rsum length mget nth f0 f1 fadd fmul Rops recon Nat.eqb Nat.min mmul transp cols_of col map seq dot combine fold_left fst snd ncols hd];
              try lra.

Example randomized_hyps_satisfiable :
  rect 2 1 Mx /\ (1 <= 2)%nat /\
  dec_rand_transposed 2 1 (n_kept 2 1 (Some 1%nat)) (Nat.min 2 1) (dec_rand_ndims (n_kept 2 1 (Some 1%nat)) 0 (Nat.max 2 1)) = false /\
  let Q := range_finder Rops qrx Mx 1 Gx 0 in
  rect 2 1 Q /\ orthonormal_cols 2 1 (mg Q) /\ covers 2 1 1 (mg Mx) (mg Q) /\
  (forall f, svd_contract 1 1 (mg (mmul Rops 1 (transp Rops 1 Q) Mx)) f (svdx (mmul Rops 1 (transp Rops 1 Q) Mx) f)) /\
  qr_ok 2 1 (mmul Rops 1 Mx Gx) (qrx 0%nat (mmul Rops 1 Mx Gx)) /\
  spans 2 1 1 (mg Mx) (mg (mmul Rops 1 Mx Gx)).
Proof.
  split; [repeat split; repeat constructor|]. split; [lia|]. split; [reflexivity|].
  cbv zeta. change (range_finder Rops qrx Mx 1 Gx 0) with [[1]; [0]].
  split; [repeat split; repeat constructor|].
  split; [intros a b Ha Hb; small2 a; small2 b; calc2; try (exfalso; lia)|].
  split; [intros i j Hi Hj; small2 i; small2 j; unfold Mx; calc2; try (exfalso; lia)|].
  split.
  { intros f. unfold svd_contract, svdx, shape_contract, rect. destruct f; cbn [Nat.min].
    - split; [repeat split; repeat constructor|]. split; [|split; [|split; [repeat constructor; lra | split]]].
      + intros a b Ha Hb. small2 a; small2 b; calc2; try (exfalso; lia).
      + intros a b Ha Hb. small2 a; small2 b; calc2; try (exfalso; lia).
      + intros i j Hij Hj. cbn [length] in Hj. assert (j = 0%nat) by lia. assert (i = 0%nat) by lia. subst. lra.
      + intros i j Hi Hj. small2 i; small2 j; unfold Mx; calc2; try (exfalso; lia).
    - split; [repeat split; repeat constructor|]. split; [|split; [|split; [repeat constructor; lra | split]]].
      + intros a b Ha Hb. small2 a; small2 b; calc2; try (exfalso; lia).
      + intros a b Ha Hb. small2 a; small2 b; calc2; try (exfalso; lia).
      + intros i j Hij Hj. cbn [length] in Hj. assert (j = 0%nat) by lia. assert (i = 0%nat) by lia. subst. lra.
      + intros i j Hi Hj. small2 i; small2 j; unfold Mx; calc2; try (exfalso; lia). }
  split.
  { unfold qr_ok, qrx. cbn [Nat.min]. split; [repeat split; repeat constructor|]. split.
    - intros a b Ha Hb. small2 a; small2 b; calc2; try (exfalso; lia).
    - intros i j Hi Hj. small2 i; small2 j; unfold Mx, Gx; calc2; try (exfalso; lia). }
  exists (fun _ _ => 1). intros i j Hi Hj. small2 i; small2 j; unfold Mx, Gx; calc2; try (exfalso; lia).
Qed.

(* ---------- the direct branch with the hypotheses pushed down to the oracles: the LAST tl.qr answer meets the reduced-QR contract,
   the last sketch M @ P spans the columns of M (the probabilistic part), LAPACK's contract on the reduced matrix ---------- *)
Theorem randomized_svd_direct_from_sketch_partial (svd : list (list R) -> bool -> triple R) (qr : nat -> list (list R) -> list (list R))
    (G M : list (list R)) d1 d2 n n_over n_iter U Sg V :
  rect d1 d2 M -> (1 <= d1)%nat ->
  let k := n_kept d1 d2 n in
  dec_rand_transposed d1 d2 k (Nat.min d1 d2) (dec_rand_ndims k n_over (Nat.max d1 d2)) = false ->
  let idx := fst (final_test qr M d2 G n_iter) in
  let P := snd (final_test qr M d2 G n_iter) in
  let w := ncols P in
  qr_ok d1 w (mmul Rops w M P) (qr idx (mmul Rops w M P)) ->
  spans d1 d2 w (mg M) (mg (mmul Rops w M P)) ->
  let c := Nat.min d1 w in
  let Q := range_finder Rops qr M d2 G n_iter in
  let Mred := mmul Rops d2 (transp Rops c Q) M in
  (forall f, svd_contract c d2 (mg Mred) f (svd Mred f)) ->
  randomized_svd Rops svd qr G M d1 d2 n n_over n_iter = (U, Sg, V) ->
  let kk := Nat.min k (Nat.max c d2) in
  nonneg_list Sg /\ nonincreasing Sg /\
  orthonormal_cols d1 (Nat.min kk c) (mg U) /\ orthonormal_rows (Nat.min kk d2) d2 (mg V) /\
  (forall B, rank_le d1 d2 k B ->
     frob2 d1 d2 (fun i j => mg M i j - recon U Sg V i j) <= frob2 d1 d2 (fun i j => mg M i j - B i j)).
Proof.
  intros HM Hd1 k HB idx P w HQR HSP c Q Mred HSVD E kk.
  destruct (range_finder_covers qr M d1 d2 G n_iter HM HQR HSP) as (RQ & OQ & CQ).
  destruct (randomized_svd_direct_partial svd qr G M d1 d2 n n_over n_iter c U Sg V HM Hd1 HB RQ OQ CQ HSVD E)
    as (_ & _ & N1 & N2 & OU & OV & _ & BA).
  split; [exact N1 | split; [exact N2 | split; [exact OU | split; [exact OV | exact BA]]]].
Qed.
