(* C05, randomized_svd over R: the lifting step.  If the orthonormal Q returned by the range finder captures the
   range of M (M = Q (Q^T M), the premise "rank + oversampling covers the matrix rank" -- true with probability 1
   over the Gaussian draw, NOT proved here, a hypothesis) and the small SVD meets LAPACK's contract for
   B = Q^T M, then (Q U, S, V) has orthonormal factors, reproduces M and its truncations satisfy the same
   error identity as the LAPACK route.  Also: entries of the model's list-based matrix product. *)
From Coq Require Import List Arith Bool Reals Lra Lia.
From TLV Require Import Base.Ops Base.Tensor Base.RSum Model.Svd Proofs.SvdProofsAux Proofs.SvdProofs.
Import ListNotations.
Local Open Scope R_scope.

(* bilinear form of SvdProofsAux.isometry *)
Lemma isometry2 m c Qm w v : orthonormal_cols m c Qm ->
  rsum m (fun i => rsum c (fun t => Qm i t * w t) * rsum c (fun t => Qm i t * v t)) = rsum c (fun t => w t * v t).
Proof.
  intros O.
  rewrite (rsum_ext m _ (fun i => rsum c (fun t => rsum c (fun t' => (w t * v t') * (Qm i t * Qm i t'))))).
  2:{ intros i _. rewrite rsum_prod. apply rsum_ext; intros t _. apply rsum_ext; intros t' _. ring. }
  rewrite rsum_exchange. apply rsum_ext; intros t Ht.
  rewrite rsum_exchange.
  rewrite (rsum_ext c _ (fun t' => (w t * v t') * (if Nat.eqb t t' then 1 else 0))).
  2:{ intros t' Ht'. rewrite rsum_scale. now rewrite O. }
  rewrite (rsum_single c t); [ | exact Ht | intros t' _ Hn; destruct (Nat.eqb_spec t t'); [congruence | ring] ].
  rewrite Nat.eqb_refl. ring.
Qed.

Definition fmul_mat (c : nat) (Qm U : nat -> nat -> R) : nat -> nat -> R := fun i t => rsum c (fun a => Qm i a * U a t).

Lemma lift_orthonormal m c p Qm U : orthonormal_cols m c Qm -> orthonormal_cols c p U ->
  orthonormal_cols m p (fmul_mat c Qm U).
Proof.
  intros OQ OU a b Ha Hb. unfold fmul_mat.
  rewrite (isometry2 m c Qm (fun t => U t a) (fun t => U t b) OQ). now apply OU.
Qed.

Lemma lift_recon c p (Qm U V B : nat -> nat -> R) (s : nat -> R) (Mij : R) i j :
  Mij = rsum c (fun a => Qm i a * B a j) ->
  (forall a, (a < c)%nat -> B a j = rsum p (fun t => U a t * s t * V t j)) ->
  Mij = rsum p (fun t => fmul_mat c Qm U i t * s t * V t j).
Proof.
  intros HM HB. rewrite HM. unfold fmul_mat.
  rewrite (rsum_ext c _ (fun a => rsum p (fun t => Qm i a * (U a t * s t * V t j)))).
  2:{ intros a Ha. rewrite HB by exact Ha. now rewrite rsum_scale. }
  rewrite rsum_exchange. apply rsum_ext; intros t _.
  rewrite Rmult_assoc, <- rsum_scale_r. apply rsum_ext; intros a _. ring.
Qed.

Theorem randomized_lift_partial m n c p k (M Qm B U V : nat -> nat -> R) (s : nat -> R) :
  orthonormal_cols m c Qm ->
  (forall i j, (i < m)%nat -> (j < n)%nat -> M i j = rsum c (fun a => Qm i a * B a j)) ->   (* range of Q covers M; B = Q^T M *)
  orthonormal_cols c p U -> orthonormal_rows p n V ->
  (forall a j, (a < c)%nat -> (j < n)%nat -> B a j = rsum p (fun t => U a t * s t * V t j)) ->
  (k <= p)%nat ->
  let U' := fmul_mat c Qm U in
  orthonormal_cols m p U' /\
  (forall i j, (i < m)%nat -> (j < n)%nat -> M i j = rsum p (fun t => U' i t * s t * V t j)) /\
  rsum m (fun i => rsum n (fun j => (M i j - rsum k (fun t => U' i t * s t * V t j))^2))
  = rsum (p - k) (fun t => (s (k + t)%nat)^2).
Proof.
  intros OQ HM OU OV HB Hk U'.
  assert (orthonormal_cols m p U') as OU' by (now apply lift_orthonormal).
  assert (forall i j, (i < m)%nat -> (j < n)%nat -> M i j = rsum p (fun t => U' i t * s t * V t j)) as HR.
  { intros i j Hi Hj. apply (lift_recon c p Qm U V B s (M i j) i j); [now apply HM | intros a Ha; now apply HB]. }
  split; [exact OU' | split; [exact HR|]].
  now apply trunc_error.
Qed.

(* ---- the model's list-based product computes these sums ---- *)
Lemma rsum_shift n f : rsum (S n) f = f 0%nat + rsum n (fun i => f (S i)).
Proof. change (S n) with (1 + n)%nat. rewrite rsum_app. cbn [rsum Nat.add]. ring. Qed.

Lemma fold_dot_rsum : forall (a b : list R) acc, length a = length b ->
  fold_left (fun ac p => fadd Rops ac (fmul Rops (fst p) (snd p))) (combine a b) acc
  = acc + rsum (length a) (fun t => nth t a 0 * nth t b 0).
Proof.
  induction a as [|x a IH]; intros [|y b] acc H; cbn [length] in H; try discriminate.
  - cbn. ring.
  - cbn [combine fold_left length]. rewrite IH by lia. rewrite rsum_shift. cbn [nth fst snd fadd fmul Rops]. ring.
Qed.
Lemma dot_rsum a b : length a = length b -> dot Rops a b = rsum (length a) (fun t => nth t a 0 * nth t b 0).
Proof. intros H. unfold dot. rewrite fold_dot_rsum by exact H. cbn [f0 Rops]. ring. Qed.

Lemma mg_mmul n (X Y : list (list R)) i j m : (i < length X)%nat -> (j < n)%nat ->
  length (nth i X []) = m -> length Y = m ->
  mget Rops (mmul Rops n X Y) i j = rsum m (fun t => mget Rops X i t * mget Rops Y t j).
Proof.
  intros Hi Hj Hr HY. unfold mmul. unfold mget at 1.
  set (F := fun r : list R => map (fun c : list R => dot Rops r c) (cols_of Rops n Y)).
  rewrite (nth_indep (map F X) [] (F [])) by (rewrite map_length; exact Hi).
  rewrite map_nth. unfold F, cols_of. rewrite map_map.
  rewrite (nth_map_seq (fun x => dot Rops (nth i X []) (col Rops x Y)) n j (f0 Rops) Hj).
  rewrite dot_rsum by (rewrite col_length; lia). rewrite Hr.
  apply rsum_ext; intros t _. rewrite nth_col. reflexivity.
Qed.

(* the lifting step of the model: U' = Q @ U as computed by mmul *)
Theorem randomized_lift_model_partial d1 d2 c p k (Qm U V : list (list R)) (Sg : list R) (M B : nat -> nat -> R) :
  length Qm = d1 -> (forall i, (i < d1)%nat -> length (nth i Qm []) = c) -> length U = c -> length Sg = p ->
  orthonormal_cols d1 c (mget Rops Qm) ->
  (forall i j, (i < d1)%nat -> (j < d2)%nat -> M i j = rsum c (fun a => mget Rops Qm i a * B a j)) ->
  orthonormal_cols c p (mget Rops U) -> orthonormal_rows p d2 (mget Rops V) ->
  (forall a j, (a < c)%nat -> (j < d2)%nat -> B a j = rsum p (fun t => mget Rops U a t * nth t Sg 0 * mget Rops V t j)) ->
  (k <= p)%nat ->
  let U' := mmul Rops p Qm U in
  orthonormal_cols d1 p (mget Rops U') /\
  (forall i j, (i < d1)%nat -> (j < d2)%nat -> M i j = recon U' Sg V i j) /\
  rsum d1 (fun i => rsum d2 (fun j => (M i j - rsum k (fun t => mget Rops U' i t * nth t Sg 0 * mget Rops V t j))^2))
  = rsum (p - k) (fun t => (nth (k + t) Sg 0)^2).
Proof.
  intros LQ RQ LU LS OQ HM OU OV HB Hk U'.
  assert (forall i t, (i < d1)%nat -> (t < p)%nat -> mget Rops U' i t = fmul_mat c (mget Rops Qm) (mget Rops U) i t) as E.
  { intros i t Hi Ht. unfold U', fmul_mat. apply mg_mmul; [lia | exact Ht | now apply RQ | exact LU]. }
  destruct (randomized_lift_partial d1 d2 c p k M (mget Rops Qm) B (mget Rops U) (mget Rops V) (fun t => nth t Sg 0)
              OQ HM OU OV HB Hk) as (O1 & R1 & E1).
  split; [|split].
  - eapply orthonormal_cols_ext; [|exact O1]. intros i t Hi Ht. now apply E.
  - intros i j Hi Hj. unfold recon. rewrite LS. rewrite (R1 i j Hi Hj). apply rsum_ext; intros t Ht. now rewrite E.
  - rewrite <- E1. apply rsum_ext; intros i Hi. apply rsum_ext; intros j Hj. f_equal. f_equal.
    apply rsum_ext; intros t Ht. rewrite E by lia. reflexivity.
Qed.

(* ---- transposed branch of randomized_svd: the range finder runs on M^T, the small SVD is lifted on the right, V' = V @ Q^T ---- *)
Definition fmul_matT (c : nat) (V Qm : nat -> nat -> R) : nat -> nat -> R := fun t j => rsum c (fun a => V t a * Qm j a).

Theorem randomized_liftT_partial m n c p k (M Qm B U V : nat -> nat -> R) (s : nat -> R) :
  orthonormal_cols n c Qm ->
  (forall i j, (i < m)%nat -> (j < n)%nat -> M i j = rsum c (fun a => B i a * Qm j a)) ->   (* rows of M in the range of Q; B = M Q *)
  orthonormal_cols m p U -> orthonormal_rows p c V ->
  (forall i a, (i < m)%nat -> (a < c)%nat -> B i a = rsum p (fun t => U i t * s t * V t a)) ->
  (k <= p)%nat ->
  let V' := fmul_matT c V Qm in
  orthonormal_rows p n V' /\
  (forall i j, (i < m)%nat -> (j < n)%nat -> M i j = rsum p (fun t => U i t * s t * V' t j)) /\
  rsum m (fun i => rsum n (fun j => (M i j - rsum k (fun t => U i t * s t * V' t j))^2))
  = rsum (p - k) (fun t => (s (k + t)%nat)^2).
Proof.
  intros OQ HM OU OV HB Hk V'.
  destruct (randomized_lift_partial n m c p k (fun j i => M i j) Qm (fun a i => B i a) (fun a t => V t a) (fun t i => U i t) s) as (O1 & R1 & E1).
  - exact OQ.
  - intros j i Hj Hi. rewrite (HM i j Hi Hj). apply rsum_ext; intros a _. ring.
  - exact OV.
  - exact OU.
  - intros a i Ha Hi. rewrite (HB i a Hi Ha). apply rsum_ext; intros t _. ring.
  - exact Hk.
  - assert (EV : forall t j, fmul_mat c Qm (fun a t0 => V t0 a) j t = V' t j).
    { intros t j. unfold fmul_mat, V', fmul_matT. apply rsum_ext; intros a _. ring. }
    split; [|split].
    + intros a b Ha Hb. rewrite <- (O1 a b Ha Hb). apply rsum_ext; intros j _. now rewrite !EV.
    + intros i j Hi Hj. rewrite (R1 j i Hj Hi). apply rsum_ext; intros t _. rewrite EV. ring.
    + rewrite <- E1. rewrite rsum_exchange. apply rsum_ext; intros j _. apply rsum_ext; intros i _. f_equal. f_equal.
      apply rsum_ext; intros t _. rewrite EV. ring.
Qed.

Lemma mg_transp' c (M : list (list R)) j i : (j < c)%nat -> mget Rops (transp Rops c M) j i = mget Rops M i j.
Proof.
  intros Hj. unfold transp, cols_of, mget. rewrite (nth_map_seq (fun x => col Rops x M) c j [] Hj). apply nth_col.
Qed.

Theorem randomized_liftT_model_partial d1 d2 c p k (Qm U V : list (list R)) (Sg : list R) (M B : nat -> nat -> R) :
  length V = p -> (forall t, (t < p)%nat -> length (nth t V []) = c) -> length Sg = p ->
  orthonormal_cols d2 c (mget Rops Qm) ->
  (forall i j, (i < d1)%nat -> (j < d2)%nat -> M i j = rsum c (fun a => B i a * mget Rops Qm j a)) ->
  orthonormal_cols d1 p (mget Rops U) -> orthonormal_rows p c (mget Rops V) ->
  (forall i a, (i < d1)%nat -> (a < c)%nat -> B i a = rsum p (fun t => mget Rops U i t * nth t Sg 0 * mget Rops V t a)) ->
  (k <= p)%nat ->
  let V' := mmul Rops d2 V (transp Rops c Qm) in
  orthonormal_rows p d2 (mget Rops V') /\
  (forall i j, (i < d1)%nat -> (j < d2)%nat -> M i j = recon U Sg V' i j) /\
  rsum d1 (fun i => rsum d2 (fun j => (M i j - rsum k (fun t => mget Rops U i t * nth t Sg 0 * mget Rops V' t j))^2))
  = rsum (p - k) (fun t => (nth (k + t) Sg 0)^2).
Proof.
  intros LV RV LS OQ HM OU OV HB Hk V'.
  assert (forall t j, (t < p)%nat -> (j < d2)%nat -> mget Rops V' t j = fmul_matT c (mget Rops V) (mget Rops Qm) t j) as E.
  { intros t j Ht Hj. unfold V', fmul_matT. rewrite (mg_mmul d2 V (transp Rops c Qm) t j c); [ | lia | exact Hj | now apply RV | ].
    - apply rsum_ext; intros a Ha. now rewrite mg_transp'.
    - unfold transp, cols_of. now rewrite map_length, seq_length. }
  destruct (randomized_liftT_partial d1 d2 c p k M (mget Rops Qm) B (mget Rops U) (mget Rops V) (fun t => nth t Sg 0)
              OQ HM OU OV HB Hk) as (O1 & R1 & E1).
  split; [|split].
  - eapply orthonormal_rows_ext; [|exact O1]. intros t j Ht Hj. now apply E.
  - intros i j Hi Hj. unfold recon. rewrite LS. rewrite (R1 i j Hi Hj). apply rsum_ext; intros t Ht. now rewrite E.
  - rewrite <- E1. apply rsum_ext; intros i Hi. apply rsum_ext; intros j Hj. f_equal. f_equal.
    apply rsum_ext; intros t Ht. rewrite E by lia. reflexivity.
Qed.
