(* C05: randomized_svd, TRANSPOSED branch (range finder on M^T, reduced matrix M Q, V' = V @ Q^T), rows of M covered by Q:
   the returned singular values are the leading singular values of EVERY singular value decomposition of M.
   Mirror of Proofs/SvdUnique.v randomized_S_true (direct branch). *)
From Coq Require Import List Arith Lia Bool Reals Lra Psatz.
From TLV Require Import Base.Ops Base.Tensor Base.RSum Model.Svd Proofs.SvdProofsAux Proofs.SvdProofs Proofs.SvdInterfaceProofs
  Proofs.SvdMaskProofs Proofs.SvdRandProofs Proofs.SvdEckartYoung Proofs.SvdDecisions Proofs.SvdSymeigFull Proofs.SvdSymeigShapes
  Proofs.SvdRandE2E Proofs.SvdUnique Model.SvdConj.
Import ListNotations.
Local Open Scope R_scope.

Theorem randomized_S_true_transposed (svd : list (list R) -> bool -> triple R) (qr : nat -> list (list R) -> list (list R))
    (G M : list (list R)) d1 d2 n n_over n_iter c U Sg V :
  rect d1 d2 M -> (1 <= d2)%nat -> (c <= d2)%nat ->
  let k := n_kept d1 d2 n in
  dec_rand_transposed d1 d2 k (Nat.min d1 d2) (dec_rand_ndims k n_over (Nat.max d1 d2)) = true ->
  let Q := range_finder Rops qr (transp Rops d2 M) d1 G n_iter in
  rect d2 c Q -> orthonormal_cols d2 c (mg Q) -> coversT d1 d2 c (mg M) (mg Q) ->
  let Mred := transp Rops d1 (mmul Rops d1 (transp Rops c Q) (transp Rops d2 M)) in
  (forall f, svd_contract d1 c (mg Mred) f (svd Mred f)) ->
  randomized_svd Rops svd qr G M d1 d2 n n_over n_iter = (U, Sg, V) ->
  forall Ux Sx Vx, svd_contract d1 d2 (mg M) false (Ux, Sx, Vx) ->
  forall t, (t < length Sg)%nat -> nth t Sg 0 = nth t Sx 0.
Proof.
  intros HM Hd2 Hc k HB Q HQ OQ HCov Mred HSVD E Ux Sx Vx HX t Ht.
  destruct (randomized_svd_transposed_partial svd qr G M d1 d2 n n_over n_iter c U Sg V HM Hd2 HB HQ OQ HCov HSVD E)
    as ((_ & LS & _) & ES & _).
  fold k Mred in ES, LS.
  set (kk := Nat.min k (Nat.max d1 c)) in *.
  pose proof (HSVD false) as HF. destruct (svd Mred false) as [[Uf Sf] Vf] eqn:EF.
  assert (ESf : snd (fst (svd Mred (Nat.min d1 c <? kk)%nat)) = Sf).
  { destruct (Nat.min d1 c <? kk)%nat eqn:B; [|now rewrite EF].
    pose proof (HSVD true) as HT. destruct (svd Mred true) as [[Ut St] Vt]. cbn [fst snd].
    exact (singular_values_unique_full d1 c (mg Mred) Ut Vt Uf Vf St Sf HT HF). }
  assert (ES' : Sg = firstn kk Sf) by (rewrite <- ESf; exact ES). clear ES. subst Sg. rewrite firstn_length in Ht. rewrite nth_firstn_lt by lia.
  destruct HF as ((_ & LSf & _) & OUf & OVf & N1 & N2 & HMf).
  destruct HX as ((_ & LSx & _) & OUx & OVx & N1x & N2x & HMx).
  set (Mt := transp Rops d2 M) in *.
  assert (RMt : rect d2 d1 Mt) by (destruct HM as [LM _]; rewrite <- LM; apply rect_transp).
  assert (RT : rect c d2 (transp Rops c Q)) by (destruct HQ as [LQ _]; rewrite <- LQ; apply rect_transp).
  assert (EM : forall i a, (i < d1)%nat -> (a < c)%nat -> mg Mred i a = rsum d2 (fun j => mg M i j * mg Q j a)).
  { intros i a Hi Ha. unfold Mred. rewrite mg_transp by exact Hi.
    rewrite (mg_mmul d1 (transp Rops c Q) Mt a i d2).
    - apply rsum_ext; intros j Hj. rewrite mg_transp by exact Ha. unfold Mt. rewrite mg_transp by exact Hj. ring.
    - destruct RT as [LT _]. lia.
    - exact Hi.
    - apply (rect_row c d2); assumption.
    - now destruct RMt. }
  destruct (randomized_liftT_partial d1 d2 c (Nat.min d1 c) 0 (mg M) (mg Q) (mg Mred) (mg Uf) (mg Vf) (fun t => nth t Sf 0))
    as (O1 & R1 & _).
  - exact OQ.
  - intros i j Hi Hj. rewrite (HCov i j Hi Hj). apply rsum_ext; intros a Ha. now rewrite EM.
  - exact OUf.
  - exact OVf.
  - intros i a Hi Ha. now apply HMf.
  - lia.
  - destruct (singular_values_unique_fn2 d1 d2 (Nat.min d1 c) (Nat.min d1 d2) (mg M)
              (mg Uf) (fmul_matT c (mg Vf) (mg Q)) (mg Ux) (mg Vx) (fun t => nth t Sf 0) (fun t => nth t Sx 0)) as [EQ _].
    + lia.
    + exact OUf.
    + exact O1.
    + intros j Hj. apply (Forall_nth_len (fun x => 0 <= x)); [exact N1 | rewrite LSf; exact Hj].
    + intros i j Hij Hj. apply N2; [exact Hij | rewrite LSf; exact Hj].
    + exact R1.
    + exact OUx.
    + exact OVx.
    + intros j Hj. apply (Forall_nth_len (fun x => 0 <= x)); [exact N1x | rewrite LSx; exact Hj].
    + intros i j Hij Hj. apply N2x; [exact Hij | rewrite LSx; exact Hj].
    + exact HMx.
    + apply EQ. rewrite LSf in Ht. lia.
Qed.

(* the scalar-generic "last qr call" functions of Model/SvdConj.v (evaluated over Q by the per-run sketch check) are, at Rops, the
   functions final_test / last_test the theorem range_finder_covers is stated with *)
Lemma last_test_g_real qr A At : forall n_iter call Q P,
  last_test_g Rops qr A At n_iter call Q P = last_test qr A At n_iter call Q P.
Proof. induction n_iter as [|k IH]; intros call Q P; cbn [last_test_g last_test]; [reflexivity | apply IH]. Qed.
Theorem final_test_g_real qr A cA G n_iter : final_test_g Rops qr A cA G n_iter = final_test qr A cA G n_iter.
Proof. unfold final_test_g, final_test. apply last_test_g_real. Qed.
