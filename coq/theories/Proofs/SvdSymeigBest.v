(* C05: symeig_svd returns a BEST approximation of its rank (Frobenius norm) whenever the kept eigenvalues exceed eps and
   eigh's eigenvalues are ascending: Eckart-Young for the orthogonal decomposition M = (M W) W^T (resp. M^T = (M^T W) W^T)
   that the eigenbasis of the Gram matrix provides, zero eigenvalues allowed. *)
From Coq Require Import List Arith Lia Bool Reals Lra.
From TLV Require Import Base.Ops Base.Tensor Base.RSum Model.Svd Proofs.SvdProofsAux Proofs.SvdProofs Proofs.SvdInterfaceProofs
  Proofs.SvdRandProofs Proofs.SvdGramProofs Proofs.SvdSymeigFull Proofs.SvdEckartYoung Proofs.SvdUnique.
Import ListNotations.
Local Open Scope R_scope.

Definition ascending (l : list R) : Prop := forall i j, (i <= j)%nat -> (j < length l)%nat -> nth i l 0 <= nth j l 0.

Theorem symeig_wide_best (eigh : list (list R) -> list R * list (list R)) eps (M : list (list R)) d1 d2 n lam W :
  (d1 <= d2)%nat -> rect d1 d2 M ->
  eigh (mmul Rops d2 (transp Rops d2 M) M) = (lam, W) ->
  eigh_contract2 d2 (mmul Rops d2 (transp Rops d2 M) M) lam W -> ascending lam ->
  let p := Nat.min (Nat.min d1 d2) (n_kept d1 d2 n) in
  (forall t, (t < p)%nat -> 0 <= eps < nth (d2 - 1 - t) lam 0) ->
  let '(U, Sg, V) := symeig_svd Rops eigh sqrt eps M d1 d2 n in
  forall B, rank_le d1 d2 p B ->
    frob2 d1 d2 (fun i j => mg M i j - recon U Sg V i j) <= frob2 d1 d2 (fun i j => mg M i j - B i j).
Proof.
  intros Hd HM HE HC ASC p Hk.
  pose proof (symeig_wide_svd eigh eps M d1 d2 n lam W Hd HM HE HC) as T. cbv zeta in T. fold p in T. specialize (T Hk).
  destruct (symeig_svd Rops eigh sqrt eps M d1 d2 n) as [[U Sg] V]. destruct T as (_ & _ & _ & _ & EE).
  destruct HC as (Ll & RW & OW & OWr & EIG).
  intros B HB. unfold frob2 at 1. rewrite EE.
  set (Wf := fun k t => mg W k (d2 - 1 - t)%nat).
  set (lamf := fun t => nth (d2 - 1 - t) lam 0).
  assert (OWf : orthonormal_cols d2 d2 Wf) by (now apply rev_cols_orth).
  assert (OWrf : orthonormal_rows d2 d2 Wf) by (now apply rev_rows_orth).
  assert (EIGf : forall i t, (i < d2)%nat -> (t < d2)%nat ->
            rsum d2 (fun k => gram d1 (mg M) i k * Wf k t) = Wf i t * lamf t).
  { intros i t Hi Ht. unfold Wf, lamf. rewrite <- EIG by lia. apply rsum_ext; intros k' Hk'. f_equal.
    rewrite (mg_mmul d2 (transp Rops d2 M) M i k' d1); try lia.
    - unfold gram. apply rsum_ext; intros r Hr. rewrite mg_transp by lia. reflexivity.
    - unfold transp, cols_of. now rewrite map_length, seq_length.
    - unfold transp, cols_of. rewrite (nth_map_seq (fun x => col Rops x M) d2 i [] Hi). rewrite col_length. now destruct HM.
    - now destruct HM. }
  unfold frob2.
  apply (eckart_young_orth d1 d2 d2 p (mg M) (AW d2 (mg M) Wf) (fun t c => Wf c t) B lamf).
  - intros a b Ha Hb. rewrite (AW_gram d1 d2 (mg M) Wf lamf OWf EIGf a b Ha Hb).
    destruct (Nat.eqb_spec a b) as [->|]; reflexivity.
  - exact OWf.
  - intros i j Hij Hj. unfold lamf. apply ASC; [lia | rewrite Ll; lia].
  - intros r c Hr Hc. exact (A_expand d2 (mg M) Wf OWrf r c Hc).
  - exact HB.
Qed.

Lemma rank_le_transp d1 d2 k B : rank_le d1 d2 k B -> rank_le d2 d1 k (fun j i => B i j).
Proof.
  intros (X & Y & H). exists (fun j t => Y t j), (fun t i => X i t). intros j i Hj Hi. rewrite (H i j Hi Hj).
  apply rsum_ext; intros; ring.
Qed.

Theorem symeig_tall_best (eigh : list (list R) -> list R * list (list R)) eps (M : list (list R)) d1 d2 n lam W :
  (d2 < d1)%nat -> rect d1 d2 M ->
  eigh (mmul Rops d1 M (transp Rops d2 M)) = (lam, W) ->
  eigh_contract2 d1 (mmul Rops d1 M (transp Rops d2 M)) lam W -> ascending lam ->
  let p := Nat.min (Nat.min d1 d2) (n_kept d1 d2 n) in
  (forall t, (t < p)%nat -> 0 <= eps < nth (d1 - 1 - t) lam 0) ->
  let '(U, Sg, V) := symeig_svd Rops eigh sqrt eps M d1 d2 n in
  forall B, rank_le d1 d2 p B ->
    frob2 d1 d2 (fun i j => mg M i j - recon U Sg V i j) <= frob2 d1 d2 (fun i j => mg M i j - B i j).
Proof.
  intros Hd HM HE HC ASC p Hk.
  pose proof (symeig_tall_svd eigh eps M d1 d2 n lam W Hd HM HE HC) as T. cbv zeta in T. fold p in T. specialize (T Hk).
  destruct (symeig_svd Rops eigh sqrt eps M d1 d2 n) as [[U Sg] V]. destruct T as (_ & _ & _ & _ & EE).
  destruct HC as (Ll & RW & OW & OWr & EIG).
  intros B HB. unfold frob2 at 1. rewrite EE.
  set (Wf := fun k t => mg W k (d1 - 1 - t)%nat).
  set (lamf := fun t => nth (d1 - 1 - t) lam 0).
  set (Af := fun r c => mg M c r).
  set (Mt := transp Rops d2 M).
  assert (LMt : length Mt = d2) by (unfold Mt, transp, cols_of; now rewrite map_length, seq_length).
  assert (OWf : orthonormal_cols d1 d1 Wf) by (now apply rev_cols_orth).
  assert (OWrf : orthonormal_rows d1 d1 Wf) by (now apply rev_rows_orth).
  assert (EIGf : forall i t, (i < d1)%nat -> (t < d1)%nat ->
            rsum d1 (fun k => gram d2 Af i k * Wf k t) = Wf i t * lamf t).
  { intros i t Hi Ht. unfold Wf, lamf. rewrite <- EIG by lia. apply rsum_ext; intros k' Hk'. f_equal.
    fold Mt. rewrite (mg_mmul d1 M Mt i k' d2); [ | destruct HM; lia | lia | now apply (rect_row d1 d2 M i HM) | exact LMt].
    unfold gram, Af. apply rsum_ext; intros r Hr. unfold Mt. rewrite mg_transp by lia. reflexivity. }
  unfold frob2. rewrite rsum_exchange.
  apply (eckart_young_orth d2 d1 d1 p Af (AW d1 Af Wf) (fun t c => Wf c t) (fun j i => B i j) lamf).
  - intros a b Ha Hb. rewrite (AW_gram d2 d1 Af Wf lamf OWf EIGf a b Ha Hb).
    destruct (Nat.eqb_spec a b) as [->|]; reflexivity.
  - exact OWf.
  - intros i j Hij Hj. unfold lamf. apply ASC; [lia | rewrite Ll; lia].
  - intros r c Hr Hc. exact (A_expand d1 Af Wf OWrf r c Hc).
  - exact (rank_le_transp d1 d2 p B HB).
Qed.

(* non-vacuity: all hypotheses of interface_symeig_e2e / interface_symeig_best hold jointly on M = [[2]] (1 x 1, Gram [[4]]) *)
Example symeig_interface_hyps_satisfiable (tr ra us : nat -> list (list R) -> triple R) :
  let eigh := fun _ : list (list R) => ([4], [[1]]) in
  let M := [[2]] in
  let funs := svd_funs tr (fun _ X => symeig_svd Rops eigh sqrt 1 X 1 1 (Some 1%nat)) ra us in
  rect 1 1 M /\ (1 <= 1)%nat /\
  (forall G0, length (fst (eigh G0)) = 1%nat /\ rect 1 1 (snd (eigh G0))) /\
  eigh (mmul Rops 1 (transp Rops 1 M) M) = ([4], [[1]]) /\
  eigh_contract2 1 (mmul Rops 1 (transp Rops 1 M) M) [4] [[1]] /\ ascending [4] /\
  (n_kept 1 1 (Some 1%nat) <= Nat.min 1 1)%nat /\
  (forall t, (t < n_kept 1 1 (Some 1%nat))%nat -> 0 <= 1 < nth (1 - 1 - t) [4] 0) /\
  (forall cl X, funs FSymeig cl X = symeig_svd Rops eigh sqrt 1 X 1 1 (Some 1%nat)).
Proof.
  cbv zeta. destruct symeig_hyps_satisfiable as [HC HE].
  split; [repeat split; repeat constructor|]. split; [lia|].
  split; [intros G0; split; [reflexivity | repeat split; repeat constructor]|].
  split; [reflexivity|]. split; [exact HC|].
  split; [intros i j Hij Hj; cbn [length] in Hj; assert (j = 0%nat) by lia; assert (i = 0%nat) by lia; subst; lra|].
  split; [cbn; lia|]. split; [|reflexivity].
  intros t Ht. cbn in Ht. assert (t = 0%nat) by lia. subst. exact HE.
Qed.

(* ---------- symeig_svd's singular values are the leading singular values of EVERY singular value decomposition of M ---------- *)
Lemma sq_eq_sqrt x l : 0 <= x -> x^2 = l -> x = sqrt l.
Proof. intros Hx E. subst l. replace (x^2) with (x * x) by ring. now rewrite sqrt_square. Qed.

Theorem symeig_wide_S_true (eigh : list (list R) -> list R * list (list R)) eps (M : list (list R)) d1 d2 n lam W :
  (d1 <= d2)%nat -> rect d1 d2 M ->
  eigh (mmul Rops d2 (transp Rops d2 M) M) = (lam, W) ->
  eigh_contract2 d2 (mmul Rops d2 (transp Rops d2 M) M) lam W -> ascending lam ->
  let p := Nat.min (Nat.min d1 d2) (n_kept d1 d2 n) in
  (forall t, (t < p)%nat -> 0 <= eps < nth (d2 - 1 - t) lam 0) ->
  let '(U, Sg, V) := symeig_svd Rops eigh sqrt eps M d1 d2 n in
  forall Ux Sx Vx, svd_contract d1 d2 (mg M) false (Ux, Sx, Vx) -> forall t, (t < p)%nat -> nth t Sg 0 = nth t Sx 0.
Proof.
  intros Hd HM HE HC ASC p Hk.
  pose proof (symeig_wide_svd eigh eps M d1 d2 n lam W Hd HM HE HC) as T. cbv zeta in T. fold p in T. specialize (T Hk).
  destruct (symeig_svd Rops eigh sqrt eps M d1 d2 n) as [[U Sg] V]. destruct T as (_ & SV & _).
  destruct HC as (Ll & RW & OW & OWr & EIG).
  intros Ux Sx Vx ((_ & LSx & _) & OUx & OVx & N1x & N2x & HMx) t Ht.
  set (Wf := fun k t => mg W k (d2 - 1 - t)%nat).
  set (lamf := fun t => nth (d2 - 1 - t) lam 0).
  assert (OWf : orthonormal_cols d2 d2 Wf) by (now apply rev_cols_orth).
  assert (OWrf : orthonormal_rows d2 d2 Wf) by (now apply rev_rows_orth).
  assert (EIGf : forall i t, (i < d2)%nat -> (t < d2)%nat ->
            rsum d2 (fun k => gram d1 (mg M) i k * Wf k t) = Wf i t * lamf t).
  { intros i t0 Hi Ht0. unfold Wf, lamf. rewrite <- EIG by lia. apply rsum_ext; intros k' Hk'. f_equal.
    rewrite (mg_mmul d2 (transp Rops d2 M) M i k' d1); try lia.
    - unfold gram. apply rsum_ext; intros r Hr. rewrite mg_transp by lia. reflexivity.
    - unfold transp, cols_of. now rewrite map_length, seq_length.
    - unfold transp, cols_of. rewrite (nth_map_seq (fun x => col Rops x M) d2 i [] Hi). rewrite col_length. now destruct HM.
    - now destruct HM. }
  destruct (SV t Ht) as [E _]. rewrite E. fold (lamf t). symmetry. apply sq_eq_sqrt.
  - apply (Forall_nth_len (fun x => 0 <= x)); [exact N1x | rewrite LSx; unfold p in Ht; lia].
  - apply (orth_singular_values d1 d2 d2 (Nat.min d1 d2) (mg M) (AW d2 (mg M) Wf) (fun t c => Wf c t) (mg Ux) (mg Vx) lamf (fun t => nth t Sx 0)).
    + intros a b Ha Hb. rewrite (AW_gram d1 d2 (mg M) Wf lamf OWf EIGf a b Ha Hb). destruct (Nat.eqb_spec a b) as [->|]; reflexivity.
    + exact OWf.
    + intros i j Hij Hj. unfold lamf. apply ASC; [lia | rewrite Ll; lia].
    + intros r c Hr Hc. exact (A_expand d2 (mg M) Wf OWrf r c Hc).
    + exact OUx.
    + exact OVx.
    + intros j Hj. apply (Forall_nth_len (fun x => 0 <= x)); [exact N1x | rewrite LSx; exact Hj].
    + intros i j Hij Hj. apply N2x; [exact Hij | rewrite LSx; exact Hj].
    + exact HMx.
    + unfold p in Ht. lia.
    + unfold p in Ht. lia.
Qed.

Theorem symeig_tall_S_true (eigh : list (list R) -> list R * list (list R)) eps (M : list (list R)) d1 d2 n lam W :
  (d2 < d1)%nat -> rect d1 d2 M ->
  eigh (mmul Rops d1 M (transp Rops d2 M)) = (lam, W) ->
  eigh_contract2 d1 (mmul Rops d1 M (transp Rops d2 M)) lam W -> ascending lam ->
  let p := Nat.min (Nat.min d1 d2) (n_kept d1 d2 n) in
  (forall t, (t < p)%nat -> 0 <= eps < nth (d1 - 1 - t) lam 0) ->
  let '(U, Sg, V) := symeig_svd Rops eigh sqrt eps M d1 d2 n in
  forall Ux Sx Vx, svd_contract d1 d2 (mg M) false (Ux, Sx, Vx) -> forall t, (t < p)%nat -> nth t Sg 0 = nth t Sx 0.
Proof.
  intros Hd HM HE HC ASC p Hk.
  pose proof (symeig_tall_svd eigh eps M d1 d2 n lam W Hd HM HE HC) as T. cbv zeta in T. fold p in T. specialize (T Hk).
  destruct (symeig_svd Rops eigh sqrt eps M d1 d2 n) as [[U Sg] V]. destruct T as (_ & SV & _).
  destruct HC as (Ll & RW & OW & OWr & EIG).
  intros Ux Sx Vx ((_ & LSx & _) & OUx & OVx & N1x & N2x & HMx) t Ht.
  set (Wf := fun k t => mg W k (d1 - 1 - t)%nat).
  set (lamf := fun t => nth (d1 - 1 - t) lam 0).
  set (Af := fun r c => mg M c r).
  set (Mt := transp Rops d2 M).
  assert (LMt : length Mt = d2) by (unfold Mt, transp, cols_of; now rewrite map_length, seq_length).
  assert (OWf : orthonormal_cols d1 d1 Wf) by (now apply rev_cols_orth).
  assert (OWrf : orthonormal_rows d1 d1 Wf) by (now apply rev_rows_orth).
  assert (EIGf : forall i t, (i < d1)%nat -> (t < d1)%nat ->
            rsum d1 (fun k => gram d2 Af i k * Wf k t) = Wf i t * lamf t).
  { intros i t0 Hi Ht0. unfold Wf, lamf. rewrite <- EIG by lia. apply rsum_ext; intros k' Hk'. f_equal.
    fold Mt. rewrite (mg_mmul d1 M Mt i k' d2); [ | destruct HM; lia | lia | now apply (rect_row d1 d2 M i HM) | exact LMt].
    unfold gram, Af. apply rsum_ext; intros r Hr. unfold Mt. rewrite mg_transp by lia. reflexivity. }
  destruct (SV t Ht) as [E _]. rewrite E. fold (lamf t). symmetry. apply sq_eq_sqrt.
  - apply (Forall_nth_len (fun x => 0 <= x)); [exact N1x | rewrite LSx; unfold p in Ht; lia].
  - apply (orth_singular_values d2 d1 d1 (Nat.min d1 d2) Af (AW d1 Af Wf) (fun t c => Wf c t) (fun j t => mg Vx t j) (fun t i => mg Ux i t) lamf (fun t => nth t Sx 0)).
    + intros a b Ha Hb. rewrite (AW_gram d2 d1 Af Wf lamf OWf EIGf a b Ha Hb). destruct (Nat.eqb_spec a b) as [->|]; reflexivity.
    + exact OWf.
    + intros i j Hij Hj. unfold lamf. apply ASC; [lia | rewrite Ll; lia].
    + intros r c Hr Hc. exact (A_expand d1 Af Wf OWrf r c Hc).
    + exact OVx.
    + exact OUx.
    + intros j Hj. apply (Forall_nth_len (fun x => 0 <= x)); [exact N1x | rewrite LSx; exact Hj].
    + intros i j Hij Hj. apply N2x; [exact Hij | rewrite LSx; exact Hj].
    + intros j i Hj Hi. unfold Af. rewrite (HMx i j Hi Hj). apply rsum_ext; intros; ring.
    + unfold p in Ht. lia.
    + unfold p in Ht. lia.
Qed.
