(* C05, symeig_svd over R, list model: whenever the kept eigenvalues of the Gram matrix exceed eps, symeig_svd returns a
   truncated SVD (eigh's answer constrained only by its contract; sq = sqrt). *)
From Coq Require Import List Arith Lia Bool Reals Lra.
From TLV Require Import Base.Ops Base.Tensor Base.RSum Model.Svd Proofs.SvdProofsAux Proofs.SvdProofs Proofs.SvdRandProofs
     Proofs.SvdGramProofs.
Import ListNotations.
Local Open Scope R_scope.

Lemma rsum_rev p (g : nat -> R) : rsum p (fun t => g (p - 1 - t)%nat) = rsum p g.
Proof.
  induction p as [|p IH]; [reflexivity|].
  rewrite rsum_shift. cbn [rsum]. replace (S p - 1 - 0)%nat with p by lia.
  rewrite <- IH. rewrite Rplus_comm. f_equal. apply rsum_ext; intros t Ht. f_equal. lia.
Qed.

Lemma mg_transp c (M : list (list R)) j i : (j < c)%nat -> mg (transp Rops c M) j i = mg M i j.
Proof.
  intros Hj. unfold transp, cols_of, mget. rewrite (nth_map_seq (fun x => col Rops x M) c j [] Hj). apply nth_col.
Qed.

Lemma mg_div_cols (X : list (list R)) (s : list R) i j : (j < length s)%nat -> length (nth i X []) = length s ->
  mg (div_cols Rops X s) i j = mg X i j / nth j s 0.
Proof.
  intros Hj Hl. unfold div_cols, mget.
  rewrite (nth_map_d (fun r => map (fun p => fdiv Rops (fst p) (snd p)) (combine r s)) X i [] []) by reflexivity.
  set (r := nth i X []) in *. set (f := fun p : R * R => fdiv Rops (fst p) (snd p)).
  rewrite (nth_indep _ (f0 Rops) (f (0, 0))).
  2:{ rewrite map_length, combine_length. lia. }
  rewrite map_nth, combine_nth by exact Hl. reflexivity.
Qed.

Lemma mg_map_rev (U : list (list R)) i t c : length (nth i U []) = c -> (t < c)%nat ->
  mg (map (@rev R) U) i t = mg U i (c - 1 - t).
Proof.
  intros Hl Ht. unfold mget. rewrite (nth_map_d (@rev R) U i [] []) by reflexivity.
  rewrite rev_nth by lia. rewrite Hl. f_equal. lia.
Qed.
Lemma mg_rev (V : list (list R)) t j : (t < length V)%nat -> mg (rev V) t j = mg V (length V - 1 - t) j.
Proof. intros Ht. unfold mget. rewrite rev_nth by exact Ht. do 2 f_equal. lia. Qed.

(* contract for eigh(G): G given as the list matrix the code hands over; W orthogonal (both W^T W = I and W W^T = I),
   G W = W diag(lam) *)
Definition eigh_contract2 (d : nat) (G : list (list R)) (lam : list R) (W : list (list R)) : Prop :=
  length lam = d /\ rect d d W /\
  orthonormal_cols d d (mg W) /\ orthonormal_rows d d (mg W) /\
  (forall i t, (i < d)%nat -> (t < d)%nat -> rsum d (fun k => mg G i k * mg W k t) = mg W i t * nth t lam 0).

Lemma rect_row {A} r c (M : list (list A)) i : rect r c M -> (i < r)%nat -> length (nth i M []) = c.
Proof. intros [L F] Hi. rewrite <- L in Hi. apply (Forall_nth_len _ M i [] F Hi). Qed.

Lemma clip_gt eps x : eps < x -> clip_lo Rops eps x = x.
Proof. intros H. unfold clip_lo. cbn [fleb Rops]. rewrite (proj2 (Rleb_false x eps)) by exact H. reflexivity. Qed.

(* reversed eigenbasis (descending order) keeps the contract *)
Lemma rev_cols_orth d (Wf : nat -> nat -> R) : orthonormal_cols d d Wf ->
  orthonormal_cols d d (fun k t => Wf k (d - 1 - t)%nat).
Proof.
  intros O a b Ha Hb. rewrite O by lia.
  destruct (Nat.eqb_spec a b), (Nat.eqb_spec (d - 1 - a) (d - 1 - b)); try reflexivity; lia.
Qed.
Lemma rev_rows_orth d (Wf : nat -> nat -> R) : orthonormal_rows d d Wf ->
  orthonormal_rows d d (fun k t => Wf k (d - 1 - t)%nat).
Proof. intros O a b Ha Hb. rewrite (rsum_rev d (fun t => Wf a t * Wf b t)). now apply O. Qed.

Theorem symeig_wide_svd (eigh : list (list R) -> list R * list (list R)) eps (M : list (list R)) d1 d2 n lam W :
  (d1 <= d2)%nat -> rect d1 d2 M ->
  eigh (mmul Rops d2 (transp Rops d2 M) M) = (lam, W) ->
  eigh_contract2 d2 (mmul Rops d2 (transp Rops d2 M) M) lam W ->
  let p := Nat.min (Nat.min d1 d2) (n_kept d1 d2 n) in
  (forall t, (t < p)%nat -> 0 <= eps < nth (d2 - 1 - t) lam 0) ->
  let '(U, Sg, V) := symeig_svd Rops eigh sqrt eps M d1 d2 n in
  length Sg = p /\
  (forall t, (t < p)%nat -> nth t Sg 0 = sqrt (nth (d2 - 1 - t) lam 0) /\ 0 < nth t Sg 0) /\
  orthonormal_cols d1 p (mg U) /\ orthonormal_rows p d2 (mg V) /\
  rsum d1 (fun i => rsum d2 (fun j => (mg M i j - recon U Sg V i j)^2))
  = rsum (d2 - p) (fun t => nth (d2 - 1 - (p + t)) lam 0).
Proof.
  intros Hd HM HE (Ll & RW & OW & OWr & EIG) p Hk.
  unfold symeig_svd. unfold n_kept in p. destruct (svd_checks d1 d2 n) as [[k mn] mx] eqn:SC. cbn [fst] in p.
  assert (d2 <? d1 = false)%nat as B by (apply Nat.ltb_ge; lia). rewrite B, HE.
  set (Sg0 := map (fun x => sqrt (clip_lo Rops eps x)) lam).
  set (U0 := div_cols Rops (mmul Rops d2 M W) Sg0).
  assert (LS0 : length Sg0 = d2) by (unfold Sg0; now rewrite map_length).
  assert (Hp2 : (p <= d2)%nat) by (unfold p; lia).
  assert (Hp1 : (p <= d1)%nat) by (unfold p; lia).
  (* entries *)
  set (f := fun x => sqrt (clip_lo Rops eps x)) in *.
  assert (Sg0E : forall j, (j < d2)%nat -> nth j Sg0 0 = f (nth j lam 0)).
  { intros j Hj. unfold Sg0. rewrite (nth_indep (map f lam) 0 (f 0)) by (rewrite map_length; lia). apply map_nth. }
  assert (RowMW : forall i, (i < d1)%nat -> length (nth i (mmul Rops d2 M W) []) = d2).
  { intros i Hi. unfold mmul. rewrite (nth_indep _ [] (map (fun c => dot Rops [] c) (cols_of Rops d2 W))).
    2:{ rewrite map_length. destruct HM; lia. }
    rewrite (map_nth (fun r => map (fun c => dot Rops r c) (cols_of Rops d2 W)) M [] i).
    rewrite map_length. unfold cols_of. now rewrite map_length, seq_length. }
  assert (U0E : forall i t, (i < d1)%nat -> (t < d2)%nat ->
            mg U0 i t = rsum d2 (fun k => mg M i k * mg W k t) / nth t Sg0 0).
  { intros i t Hi Ht. unfold U0. rewrite mg_div_cols.
    - f_equal. apply mg_mmul; [destruct HM; lia | exact Ht | now apply (rect_row d1 d2 M i HM) | now destruct RW].
    - lia.
    - rewrite LS0. now apply RowMW. }
  assert (RowU0 : forall i, (i < d1)%nat -> length (nth i U0 []) = d2).
  { intros i Hi. unfold U0, div_cols.
    rewrite (nth_map_d (fun r => map (fun q => fdiv Rops (fst q) (snd q)) (combine r Sg0)) _ i [] []) by reflexivity.
    rewrite map_length, combine_length, RowMW, LS0 by exact Hi. lia. }
  set (Wf := fun k t => mg W k (d2 - 1 - t)%nat).
  set (lamf := fun t => nth (d2 - 1 - t) lam 0).
  set (sf := fun t => sqrt (lamf t)).
  assert (Hs : forall t, (t < p)%nat -> 0 < sf t /\ sf t * sf t = lamf t).
  { intros t Ht. destruct (Hk t Ht) as [E0 E1]. unfold sf, lamf. split; [apply sqrt_lt_R0; lra | apply sqrt_sqrt; lra]. }
  assert (SE : forall t, (t < p)%nat -> nth t (firstn (Nat.min (Nat.min d1 d2) k) (rev Sg0)) 0 = sf t).
  { intros t Ht. rewrite nth_firstn_lt by (unfold p in Ht; lia). rewrite rev_nth by lia. rewrite LS0.
    replace (d2 - S t)%nat with (d2 - 1 - t)%nat by lia. rewrite Sg0E by lia. unfold f, sf, lamf.
    rewrite clip_gt by (apply (Hk t Ht)). reflexivity. }
  assert (UE : forall i t, (i < d1)%nat -> (t < p)%nat ->
            mg (map (firstn (Nat.min d1 k)) (map (@rev R) U0)) i t = Ug d2 (mg M) Wf sf i t).
  { intros i t Hi Ht. rewrite mg_map_firstn by (unfold p in Ht; lia).
    rewrite (mg_map_rev U0 i t d2) by (try apply RowU0; lia). rewrite U0E by lia.
    unfold Ug, AW, Wf. f_equal. rewrite Sg0E by lia. unfold f, sf, lamf. rewrite clip_gt by (apply (Hk t Ht)). reflexivity. }
  assert (VE : forall t c, (t < p)%nat ->
            mg (firstn (Nat.min d2 k) (rev (transp Rops d2 W))) t c = Vg Wf t c).
  { intros t c Ht. rewrite mg_firstn by (unfold p in Ht; lia).
    assert (length (transp Rops d2 W) = d2) as LT by (unfold transp, cols_of; now rewrite map_length, seq_length).
    rewrite mg_rev by lia. rewrite LT. rewrite mg_transp by lia. reflexivity. }
  assert (OWf : orthonormal_cols d2 d2 Wf) by (now apply rev_cols_orth).
  assert (OWrf : orthonormal_rows d2 d2 Wf) by (now apply rev_rows_orth).
  assert (EIGf : forall i t, (i < d2)%nat -> (t < d2)%nat ->
            rsum d2 (fun k => gram d1 (mg M) i k * Wf k t) = Wf i t * lamf t).
  { intros i t Hi Ht. unfold Wf, lamf. rewrite <- EIG by lia. apply rsum_ext; intros k' Hk'. f_equal.
    rewrite (mg_mmul d2 (transp Rops d2 M) M i k' d1); try lia.
    - unfold gram. apply rsum_ext; intros r Hr. rewrite mg_transp by lia. reflexivity.
    - unfold transp, cols_of. now rewrite map_length, seq_length.
    - unfold transp, cols_of. rewrite (nth_map_seq (fun x => col Rops x M) d2 i [] Hi). rewrite col_length. now destruct HM.
    - now destruct HM. }
  split; [|split; [|split; [|split]]].
  - rewrite firstn_length, rev_length, LS0. unfold p. lia.
  - intros t Ht. rewrite SE by exact Ht. split; [reflexivity | apply (Hs t Ht)].
  - eapply orthonormal_cols_ext; [|apply (Ug_orthonormal d1 d2 (mg M) Wf lamf OWf EIGf p sf Hp2 Hs)].
    intros i t Hi Ht. now apply UE.
  - eapply orthonormal_rows_ext; [|apply (Vg_orthonormal d2 Wf OWf p Hp2)]. intros t c Ht _. now apply VE.
  - etransitivity; [|exact (gram_error d1 d2 (mg M) Wf lamf OWf OWrf EIGf p sf Hp2 Hs)].
    apply rsum_ext; intros i Hi. apply rsum_ext; intros j Hj. f_equal. f_equal. unfold recon.
    rewrite firstn_length, rev_length, LS0. replace (Nat.min (Nat.min (Nat.min d1 d2) k) d2) with p by (unfold p; lia).
    apply rsum_ext; intros t Ht. rewrite UE, VE, SE by assumption. reflexivity.
Qed.

(* tall case d2 < d1: eigh of M M^T (d1 x d1); U = W, V = M^T (W / S) *)
Theorem symeig_tall_svd (eigh : list (list R) -> list R * list (list R)) eps (M : list (list R)) d1 d2 n lam W :
  (d2 < d1)%nat -> rect d1 d2 M ->
  eigh (mmul Rops d1 M (transp Rops d2 M)) = (lam, W) ->
  eigh_contract2 d1 (mmul Rops d1 M (transp Rops d2 M)) lam W ->
  let p := Nat.min (Nat.min d1 d2) (n_kept d1 d2 n) in
  (forall t, (t < p)%nat -> 0 <= eps < nth (d1 - 1 - t) lam 0) ->
  let '(U, Sg, V) := symeig_svd Rops eigh sqrt eps M d1 d2 n in
  length Sg = p /\
  (forall t, (t < p)%nat -> nth t Sg 0 = sqrt (nth (d1 - 1 - t) lam 0) /\ 0 < nth t Sg 0) /\
  orthonormal_cols d1 p (mg U) /\ orthonormal_rows p d2 (mg V) /\
  rsum d1 (fun i => rsum d2 (fun j => (mg M i j - recon U Sg V i j)^2))
  = rsum (d1 - p) (fun t => nth (d1 - 1 - (p + t)) lam 0).
Proof.
  intros Hd HM HE (Ll & RW & OW & OWr & EIG) p Hk.
  unfold symeig_svd. unfold n_kept in p. destruct (svd_checks d1 d2 n) as [[k mn] mx] eqn:SC. cbn [fst] in p.
  assert (d2 <? d1 = true)%nat as B by (apply Nat.ltb_lt; lia). rewrite B, HE.
  set (f := fun x => sqrt (clip_lo Rops eps x)).
  set (Sg0 := map f lam).
  set (Mt := transp Rops d2 M).
  set (V0 := mmul Rops d1 Mt (div_cols Rops W Sg0)).
  assert (LS0 : length Sg0 = d1) by (unfold Sg0; now rewrite map_length).
  assert (Hp2 : (p <= d2)%nat) by (unfold p; lia).
  assert (Hp1 : (p <= d1)%nat) by (unfold p; lia).
  assert (LMt : length Mt = d2) by (unfold Mt, transp, cols_of; now rewrite map_length, seq_length).
  assert (RowMt : forall r, (r < d2)%nat -> length (nth r Mt []) = d1).
  { intros r Hr. unfold Mt, transp, cols_of. rewrite (nth_map_seq (fun x => col Rops x M) d2 r [] Hr).
    rewrite col_length. now destruct HM. }
  assert (Sg0E : forall j, (j < d1)%nat -> nth j Sg0 0 = f (nth j lam 0)).
  { intros j Hj. unfold Sg0. rewrite (nth_indep (map f lam) 0 (f 0)) by (rewrite map_length; lia). apply map_nth. }
  assert (LDW : length (div_cols Rops W Sg0) = d1) by (unfold div_cols; rewrite map_length; now destruct RW).
  assert (V0E : forall r j, (r < d2)%nat -> (j < d1)%nat ->
            mg V0 r j = rsum d1 (fun k => mg M k r * mg W k j) / nth j Sg0 0).
  { intros r j Hr Hj. unfold V0. rewrite (mg_mmul d1 Mt (div_cols Rops W Sg0) r j d1); try lia; [| now apply RowMt].
    unfold Rdiv. rewrite <- rsum_scale_r. apply rsum_ext; intros k' Hk'.
    unfold Mt. rewrite mg_transp by lia. rewrite mg_div_cols by (rewrite ?LS0; try lia; now apply (rect_row d1 d1 W k' RW)).
    unfold Rdiv. ring. }
  assert (RowV0 : forall r, (r < d2)%nat -> length (nth r V0 []) = d1).
  { intros r Hr. unfold V0, mmul. rewrite (nth_indep _ [] (map (fun c => dot Rops [] c) (cols_of Rops d1 (div_cols Rops W Sg0)))).
    2:{ rewrite map_length. lia. }
    rewrite (map_nth (fun r0 => map (fun c => dot Rops r0 c) (cols_of Rops d1 (div_cols Rops W Sg0))) Mt [] r).
    rewrite map_length. unfold cols_of. now rewrite map_length, seq_length. }
  set (Wf := fun k t => mg W k (d1 - 1 - t)%nat).
  set (lamf := fun t => nth (d1 - 1 - t) lam 0).
  set (sf := fun t => sqrt (lamf t)).
  set (Af := fun r c => mg M c r).
  assert (Hs : forall t, (t < p)%nat -> 0 < sf t /\ sf t * sf t = lamf t).
  { intros t Ht. destruct (Hk t Ht) as [E0 E1]. unfold sf, lamf. split; [apply sqrt_lt_R0; lra | apply sqrt_sqrt; lra]. }
  assert (SE : forall t, (t < p)%nat -> nth t (firstn (Nat.min (Nat.min d1 d2) k) (rev Sg0)) 0 = sf t).
  { intros t Ht. rewrite nth_firstn_lt by (unfold p in Ht; lia). rewrite rev_nth by lia. rewrite LS0.
    replace (d1 - S t)%nat with (d1 - 1 - t)%nat by lia. rewrite Sg0E by lia. unfold f, sf, lamf.
    rewrite clip_gt by (apply (Hk t Ht)). reflexivity. }
  assert (UE : forall i t, (i < d1)%nat -> (t < p)%nat ->
            mg (map (firstn (Nat.min d1 k)) (map (@rev R) W)) i t = Vg Wf t i).
  { intros i t Hi Ht. rewrite mg_map_firstn by (unfold p in Ht; lia).
    rewrite (mg_map_rev W i t d1) by (try apply (rect_row d1 d1 W i RW); lia). reflexivity. }
  assert (LT : length (transp Rops d1 V0) = d1) by (unfold transp, cols_of; now rewrite map_length, seq_length).
  assert (VE : forall t r, (t < p)%nat -> (r < d2)%nat ->
            mg (firstn (Nat.min d2 k) (rev (transp Rops d1 V0))) t r = Ug d1 Af Wf sf r t).
  { intros t r Ht Hr. rewrite mg_firstn by (unfold p in Ht; lia).
    rewrite mg_rev by lia. rewrite LT. rewrite mg_transp by lia. rewrite V0E by lia.
    unfold Ug, AW, Af, Wf. f_equal. rewrite Sg0E by lia. unfold f, sf, lamf. rewrite clip_gt by (apply (Hk t Ht)). reflexivity. }
  assert (OWf : orthonormal_cols d1 d1 Wf) by (now apply rev_cols_orth).
  assert (OWrf : orthonormal_rows d1 d1 Wf) by (now apply rev_rows_orth).
  assert (EIGf : forall i t, (i < d1)%nat -> (t < d1)%nat ->
            rsum d1 (fun k => gram d2 Af i k * Wf k t) = Wf i t * lamf t).
  { intros i t Hi Ht. unfold Wf, lamf. rewrite <- EIG by lia. apply rsum_ext; intros k' Hk'. f_equal.
    fold Mt. rewrite (mg_mmul d1 M Mt i k' d2); [ | destruct HM; lia | lia | now apply (rect_row d1 d2 M i HM) | exact LMt].
    unfold gram, Af. apply rsum_ext; intros r Hr. unfold Mt. rewrite mg_transp by lia. reflexivity. }
  split; [|split; [|split; [|split]]].
  - rewrite firstn_length, rev_length, LS0. unfold p. lia.
  - intros t Ht. rewrite SE by exact Ht. split; [reflexivity | apply (Hs t Ht)].
  - pose proof (Vg_orthonormal d1 Wf OWf p Hp1) as O. intros a b Ha Hb. rewrite <- (O a b Ha Hb).
    apply rsum_ext; intros i Hi. now rewrite !UE.
  - pose proof (Ug_orthonormal d2 d1 Af Wf lamf OWf EIGf p sf Hp1 Hs) as O. intros a b Ha Hb. rewrite <- (O a b Ha Hb).
    apply rsum_ext; intros r Hr. now rewrite !VE.
  - etransitivity; [|exact (gram_error d2 d1 Af Wf lamf OWf OWrf EIGf p sf Hp1 Hs)].
    rewrite rsum_exchange. apply rsum_ext; intros j Hj. apply rsum_ext; intros i Hi. f_equal. unfold Af at 1. f_equal. unfold recon.
    rewrite firstn_length, rev_length, LS0. replace (Nat.min (Nat.min (Nat.min d1 d2) k) d1) with p by (unfold p; lia).
    apply rsum_ext; intros t Ht. rewrite UE, VE, SE by assumption. ring.
Qed.

(* non-vacuity: the hypotheses of symeig_wide_svd are satisfiable (M = [[2]], M^T M = [[4]], eigenpair (4, e1), eps = 1) *)
Example symeig_hyps_satisfiable :
  eigh_contract2 1 (mmul Rops 1 (transp Rops 1 [[2]]) [[2]]) [4] [[1]] /\ 0 <= 1 < nth (1 - 1 - 0) [4] 0.
Proof.
  split; [|cbn; lra]. split; [reflexivity|]. split; [split; [reflexivity | repeat constructor]|].
  split; [|split].
  - intros a b Ha Hb. assert (a = 0%nat) by lia. assert (b = 0%nat) by lia. subst. cbn. lra.
  - intros a b Ha Hb. assert (a = 0%nat) by lia. assert (b = 0%nat) by lia. subst. cbn. lra.
  - intros i t Hi Ht. assert (i = 0%nat) by lia. assert (t = 0%nat) by lia. subst. cbn. lra.
Qed.
