(* C05, symeig_svd over R: on a rank-deficient matrix the vectors it returns are NOT orthonormal (a known,
   unrepaired finding): exact eigh answer, any sqrt, any eps > 0. *)
From Coq Require Import List Arith Bool Reals Lra Lia.
From TLV Require Import Base.Ops Base.Tensor Base.RSum Model.Svd Proofs.SvdProofsAux Proofs.SvdProofs.
Import ListNotations.
Local Open Scope R_scope.

Ltac small j := first [ (destruct j as [|[|[|j]]]; [ | | | exfalso; lia]) ].
Ltac calc := cbn [rsum length mget nth f0 Rops recon Nat.eqb]; try lra.

(* eigh contract: W has orthonormal columns, G W = W diag(lam), lam ascending *)
Definition eigh_contract (d : nat) (G : nat -> nat -> R) (lam : list R) (W : list (list R)) : Prop :=
  length lam = d /\ orthonormal_cols d d (mget Rops W) /\
  (forall i j, (i < d)%nat -> (j < d)%nat -> rsum d (fun k => G i k * mget Rops W k j) = mget Rops W i j * nth j lam 0) /\
  (forall i j, (i <= j)%nat -> (j < d)%nat -> nth i lam 0 <= nth j lam 0).

Theorem symeig_rankdef_refuted : forall (sq : R -> R) eps, 0 < eps ->
  exists M lam W,
    eigh_contract 2 (fun i k => rsum 2 (fun r => mget Rops M r i * mget Rops M r k)) lam W /\
    let '(U, Sg, V) := symeig_svd Rops (fun _ => (lam, W)) sq eps M 2%nat 2%nat (Some 2%nat) in
    ~ orthonormal_cols 2 2 (mget Rops U).
Proof.
  intros sq eps He. exists [[1; 0]; [0; 0]], [0; 1], [[0; 1]; [1; 0]]. split.
  - split; [reflexivity|]. split; [|split].
    + intros a b Ha Hb. small a; small b; calc; try (exfalso; lia).
    + intros i j Hi Hj. small i; small j; calc; try (exfalso; lia).
    + intros i j Hij Hj. small i; small j; cbn [nth]; try lra; exfalso; lia.
  - cbv [symeig_svd svd_checks Nat.min Nat.max Nat.ltb Nat.leb transp cols_of seq map col nth mmul dot combine fold_left fst snd
         div_cols rev app firstn clip_lo].
    cbn [f0 f1 fmul fadd fdiv fleb Rops]. intros Horth. specialize (Horth 1%nat 1%nat ltac:(lia) ltac:(lia)).
    cbn [rsum mget nth f0 Rops Nat.eqb] in Horth. unfold Rdiv in Horth.
    replace (0 + 1 * 0 + 0 * 1) with 0 in Horth by ring. replace (0 + 0 * 0 + 0 * 1) with 0 in Horth by ring.
    rewrite !Rmult_0_l in Horth. lra.
Qed.
