(* C05: output shapes of symeig_svd (any carrier-independent list reasoning, stated over R), both branches:
   U : d1 x min(d1,k), S : min(d1,d2,k), V : min(d2,k) x d2, given only the shapes of eigh's answer. *)
From Coq Require Import List Arith Lia Bool Reals.
From TLV Require Import Base.Ops Base.Tensor Base.RSum Model.Svd Proofs.SvdProofsAux Proofs.SvdProofs Proofs.SvdInterfaceProofs
     Proofs.SvdSymeigFull Proofs.SvdMaskProofs.
Import ListNotations.

Lemma rect_map_rev {A} r c (U : list (list A)) : rect r c U -> rect r c (map (@rev A) U).
Proof.
  intros [L F]. split; [now rewrite map_length|]. apply Forall_map. eapply Forall_impl; [|exact F].
  intros a Ha. cbv beta in Ha. now rewrite rev_length.
Qed.
Lemma rect_rev {A} r c (V : list (list A)) : rect r c V -> rect r c (rev V).
Proof. intros [L F]. split; [now rewrite rev_length | now apply Forall_rev]. Qed.
Lemma rect_transp c (V : list (list R)) : rect c (length V) (transp Rops c V).
Proof.
  unfold transp, cols_of. split; [now rewrite map_length, seq_length|]. apply Forall_map, Forall_forall.
  intros j _. apply col_length.
Qed.
Lemma rect_div_cols r c (X : list (list R)) (s : list R) : rect r c X -> length s = c -> rect r c (div_cols Rops X s).
Proof.
  intros [L F] Hs. unfold div_cols. split; [now rewrite map_length|]. apply Forall_map. eapply Forall_impl; [|exact F].
  intros a Ha. cbv beta in Ha. rewrite map_length, combine_length. lia.
Qed.

Theorem symeig_shapes (eigh : list (list R) -> list R * list (list R)) (sq : R -> R) eps (M : list (list R)) d1 d2 n :
  rect d1 d2 M ->
  (forall G, let d := if (d2 <? d1)%nat then d1 else d2 in length (fst (eigh G)) = d /\ rect d d (snd (eigh G))) ->
  let k := n_kept d1 d2 n in
  shape3 (symeig_svd Rops eigh sq eps M d1 d2 n) d1 (Nat.min d1 k) (Nat.min (Nat.min d1 d2) k) (Nat.min d2 k) d2.
Proof.
  intros HM HE k. unfold symeig_svd. unfold n_kept in k. destruct (svd_checks d1 d2 n) as [[k' mn] mx] eqn:SC. cbn [fst] in k.
  subst k. destruct (Nat.ltb_spec d2 d1) as [Ht|Hw].
  - (* tall *)
    specialize (HE (mmul Rops d1 M (transp Rops d2 M))). cbv zeta in HE.
    destruct (eigh (mmul Rops d1 M (transp Rops d2 M))) as [lam W]. cbn [fst snd] in HE. destruct HE as [Ll RW].
    unfold shape3. split; [|split].
    + pose proof (rect_map_firstn d1 d1 (Nat.min d1 k') _ (rect_map_rev d1 d1 W RW)) as H.
      replace (Nat.min (Nat.min d1 k') d1) with (Nat.min d1 k') in H by lia. exact H.
    + rewrite firstn_length, rev_length, map_length, Ll. lia.
    + set (V0 := mmul Rops d1 (transp Rops d2 M) (div_cols Rops W (map (fun x => sq (clip_lo Rops eps x)) lam))).
      assert (LV0 : length V0 = d2) by (unfold V0, mmul, transp, cols_of; now rewrite !map_length, seq_length).
      pose proof (rect_firstn d1 d2 (Nat.min d2 k') _ (rect_rev d1 d2 _ ltac:(rewrite <- LV0; apply rect_transp))) as H.
      replace (Nat.min (Nat.min d2 k') d1) with (Nat.min d2 k') in H by lia. exact H.
  - (* wide / square *)
    specialize (HE (mmul Rops d2 (transp Rops d2 M) M)). cbv zeta in HE.
    destruct (eigh (mmul Rops d2 (transp Rops d2 M) M)) as [lam W]. cbn [fst snd] in HE. destruct HE as [Ll RW].
    unfold shape3. split; [|split].
    + assert (R0 : rect d1 d2 (div_cols Rops (mmul Rops d2 M W) (map (fun x => sq (clip_lo Rops eps x)) lam))).
      { apply rect_div_cols; [|now rewrite map_length]. destruct HM as [LM _]. rewrite <- LM. apply rect_mmul. }
      pose proof (rect_map_firstn d1 d2 (Nat.min d1 k') _ (rect_map_rev d1 d2 _ R0)) as H.
      replace (Nat.min (Nat.min d1 k') d2) with (Nat.min d1 k') in H by lia. exact H.
    + rewrite firstn_length, rev_length, map_length, Ll. lia.
    + destruct RW as [LW FW].
      pose proof (rect_firstn d2 d2 (Nat.min d2 k') _ (rect_rev d2 d2 _ ltac:(rewrite <- LW at 2; apply rect_transp))) as H.
      replace (Nat.min (Nat.min d2 k') d2) with (Nat.min d2 k') in H by lia. exact H.
Qed.
