(* C05: the singular values are determined by the matrix.  Any two decompositions M = sum_t u_t s_t v_t^T with orthonormal u_t, v_t
   and sorted non-negative s have the same s: by Eckart-Young each tail sum of one is <= the truncation error of the other, which
   is the other's tail sum (trunc_error); equal tails give equal squares, non-negativity gives equal values.  Hence "the returned S
   equals the true leading singular values" needs no reference to LAPACK: it is the S of EVERY singular value decomposition. *)
From Coq Require Import List Arith Lia Bool Reals Lra Psatz.
From TLV Require Import Base.Ops Base.Tensor Base.RSum Model.Svd Proofs.SvdProofsAux Proofs.SvdProofs Proofs.SvdInterfaceProofs
  Proofs.SvdMaskProofs Proofs.SvdRandProofs Proofs.SvdEckartYoung Proofs.SvdDecisions Proofs.SvdSymeigFull Proofs.SvdSymeigShapes Proofs.SvdRandE2E.
Import ListNotations.
Local Open Scope R_scope.

Definition tail (p : nat) (f : nat -> R) (k : nat) : R := rsum (p - k) (fun t => (f (k + t)%nat)^2).

Lemma tail_le m n p (M U V U' V' : nat -> nat -> R) (s s' : nat -> R) :
  orthonormal_cols m p U -> orthonormal_rows p n V ->
  (forall i j, (i < m)%nat -> (j < n)%nat -> M i j = rsum p (fun t => U i t * s t * V t j)) ->
  orthonormal_cols m p U' -> orthonormal_rows p n V' ->
  (forall t, (t < p)%nat -> 0 <= s' t) -> (forall i j, (i <= j)%nat -> (j < p)%nat -> s' j <= s' i) ->
  (forall i j, (i < m)%nat -> (j < n)%nat -> M i j = rsum p (fun t => U' i t * s' t * V' t j)) ->
  forall k, (k <= p)%nat -> tail p s' k <= tail p s k.
Proof.
  intros OU OV HM OU' OV' S0' SM' HM' k Hk. unfold tail.
  rewrite <- (trunc_error m n p k M U V s Hk OU OV HM).
  apply (eckart_young_fn m n p k M U' V' (fun i j => rsum k (fun t => U i t * s t * V t j)) s'); try assumption.
  exists (fun i t => U i t * s t), V. intros i j _ _. reflexivity.
Qed.

Theorem singular_values_unique_fn m n p (M U V U' V' : nat -> nat -> R) (s s' : nat -> R) :
  orthonormal_cols m p U -> orthonormal_rows p n V ->
  (forall t, (t < p)%nat -> 0 <= s t) -> (forall i j, (i <= j)%nat -> (j < p)%nat -> s j <= s i) ->
  (forall i j, (i < m)%nat -> (j < n)%nat -> M i j = rsum p (fun t => U i t * s t * V t j)) ->
  orthonormal_cols m p U' -> orthonormal_rows p n V' ->
  (forall t, (t < p)%nat -> 0 <= s' t) -> (forall i j, (i <= j)%nat -> (j < p)%nat -> s' j <= s' i) ->
  (forall i j, (i < m)%nat -> (j < n)%nat -> M i j = rsum p (fun t => U' i t * s' t * V' t j)) ->
  forall t, (t < p)%nat -> s t = s' t.
Proof.
  intros OU OV S0 SM HM OU' OV' S0' SM' HM'.
  assert (TE : forall k, (k <= p)%nat -> tail p s k = tail p s' k).
  { intros k Hk. apply Rle_antisym.
    - apply (tail_le m n p M U' V' U V s' s); assumption.
    - apply (tail_le m n p M U V U' V' s s'); assumption. }
  assert (ST : forall f k, (k < p)%nat -> tail p f k = (f k)^2 + tail p f (S k)).
  { intros f k Hk. unfold tail. replace (p - k)%nat with (S (p - S k)) by lia. rewrite rsum_shift.
    rewrite Nat.add_0_r. f_equal. apply rsum_ext; intros t _. f_equal. f_equal. lia. }
  intros t Ht.
  pose proof (TE t ltac:(lia)) as E1. pose proof (TE (S t) ltac:(lia)) as E2.
  rewrite (ST s t Ht), (ST s' t Ht) in E1.
  pose proof (S0 t Ht). pose proof (S0' t Ht). nra.
Qed.

(* list level: two answers meeting the thin SVD contract for the same matrix carry the same singular values *)
Theorem singular_values_unique d1 d2 (Mf : nat -> nat -> R) (U V U' V' : list (list R)) (s s' : list R) :
  svd_contract d1 d2 Mf false (U, s, V) -> svd_contract d1 d2 Mf false (U', s', V') -> s = s'.
Proof.
  intros ((_ & LS & _) & OU & OV & N1 & N2 & HM) ((_ & LS' & _) & OU' & OV' & N1' & N2' & HM').
  apply (nth_ext s s' 0 0); [congruence|]. intros t Ht. rewrite LS in Ht.
  apply (singular_values_unique_fn d1 d2 (Nat.min d1 d2) Mf (mg U) (mg V) (mg U') (mg V') (fun t => nth t s 0) (fun t => nth t s' 0));
    try assumption.
  - intros k Hk. apply (Forall_nth_len (fun x => 0 <= x)); [exact N1 | rewrite LS; exact Hk].
  - intros i j Hij Hj. apply N2; [exact Hij | rewrite LS; exact Hj].
  - intros k Hk. apply (Forall_nth_len (fun x => 0 <= x)); [exact N1' | rewrite LS'; exact Hk].
  - intros i j Hij Hj. apply N2'; [exact Hij | rewrite LS'; exact Hj].
Qed.

(* svd_interface(method = truncated_svd): the returned S is the prefix of the S of EVERY singular value decomposition of the input *)
Theorem interface_S_true (orc : list (list R) -> bool -> triple R) (funs : fname -> nat -> list (list R) -> triple R)
    d1 d2 (Ml : list (list R)) r flip ub iters sq eps U S V :
  (forall f, svd_contract d1 d2 (mg Ml) f (orc Ml f)) ->
  (forall c X, funs FTruncated c X = truncated_svd (orc X) d1 d2 (Some r)) -> (1 <= r <= Nat.min d1 d2)%nat ->
  svd_interface Rops funs MTruncated d2 Ml (Some r) flip ub None None iters sq eps = Ok (U, S, V) ->
  forall Ux Sx Vx, svd_contract d1 d2 (mg Ml) false (Ux, Sx, Vx) -> S = firstn r Sx.
Proof.
  intros HC HF Hr E Ux Sx Vx HX.
  destruct (interface_truncated_e2e orc funs d1 d2 Ml r flip ub iters sq eps U S V HC HF Hr E) as (ES & _).
  rewrite ES. f_equal. specialize (HC false). destruct (orc Ml false) as [[U0 S0] V0]. cbn [fst snd].
  exact (singular_values_unique d1 d2 (mg Ml) U0 V0 Ux Vx S0 Sx HC HX).
Qed.

(* LAPACK's full_matrices=True answer carries the same singular values as any thin decomposition (its first min(d1,d2) columns / rows
   form one), so the statement extends to EVERY n_eigenvecs *)
Lemma singular_values_unique_full d1 d2 (Mf : nat -> nat -> R) (U V U' V' : list (list R)) (s s' : list R) :
  svd_contract d1 d2 Mf true (U, s, V) -> svd_contract d1 d2 Mf false (U', s', V') -> s = s'.
Proof.
  intros ((_ & LS & _) & OU & OV & N1 & N2 & HM) ((_ & LS' & _) & OU' & OV' & N1' & N2' & HM').
  apply (nth_ext s s' 0 0); [congruence|]. intros t Ht. rewrite LS in Ht.
  apply (singular_values_unique_fn d1 d2 (Nat.min d1 d2) Mf (mg U) (mg V) (mg U') (mg V') (fun t => nth t s 0) (fun t => nth t s' 0));
    try assumption.
  - apply orthonormal_cols_sub with (c := d1); [lia | exact OU].
  - apply orthonormal_rows_sub with (r := d2); [lia | exact OV].
  - intros k Hk. apply (Forall_nth_len (fun x => 0 <= x)); [exact N1 | rewrite LS; exact Hk].
  - intros i j Hij Hj. apply N2; [exact Hij | rewrite LS; exact Hj].
  - intros k Hk. apply (Forall_nth_len (fun x => 0 <= x)); [exact N1' | rewrite LS'; exact Hk].
  - intros i j Hij Hj. apply N2'; [exact Hij | rewrite LS'; exact Hj].
Qed.

Theorem interface_S_true_gen (orc : list (list R) -> bool -> triple R) (funs : fname -> nat -> list (list R) -> triple R)
    d1 d2 (Ml : list (list R)) n flip ub iters sq eps U S V :
  (forall f, svd_contract d1 d2 (mg Ml) f (orc Ml f)) ->
  (forall c X, funs FTruncated c X = truncated_svd (orc X) d1 d2 n) -> (1 <= d1)%nat ->
  svd_interface Rops funs MTruncated d2 Ml n flip ub None None iters sq eps = Ok (U, S, V) ->
  forall Ux Sx Vx, svd_contract d1 d2 (mg Ml) false (Ux, Sx, Vx) -> S = firstn (n_kept d1 d2 n) Sx.
Proof.
  intros HC HF Hd E Ux Sx Vx HX.
  destruct (interface_truncated_e2e_gen orc funs d1 d2 Ml n flip ub iters sq eps U S V HC HF Hd E) as (ES & _).
  rewrite ES. f_equal. pose proof (HC (full_flag d1 d2 n)) as H. destruct (orc Ml (full_flag d1 d2 n)) as [[U0 S0] V0]. cbn [fst snd].
  destruct (full_flag d1 d2 n).
  - exact (singular_values_unique_full d1 d2 (mg Ml) U0 V0 Ux Vx S0 Sx H HX).
  - exact (singular_values_unique d1 d2 (mg Ml) U0 V0 Ux Vx S0 Sx H HX).
Qed.

(* ---------- two decompositions with DIFFERENT numbers of terms (p and p'): the common entries agree ---------- *)
Lemma tail_le2 m n p p' (M U V U' V' : nat -> nat -> R) (s s' : nat -> R) :
  orthonormal_cols m p U -> orthonormal_rows p n V ->
  (forall i j, (i < m)%nat -> (j < n)%nat -> M i j = rsum p (fun t => U i t * s t * V t j)) ->
  orthonormal_cols m p' U' -> orthonormal_rows p' n V' ->
  (forall t, (t < p')%nat -> 0 <= s' t) -> (forall i j, (i <= j)%nat -> (j < p')%nat -> s' j <= s' i) ->
  (forall i j, (i < m)%nat -> (j < n)%nat -> M i j = rsum p' (fun t => U' i t * s' t * V' t j)) ->
  forall k, (k <= p)%nat -> tail p' s' k <= tail p s k.
Proof.
  intros OU OV HM OU' OV' S0' SM' HM' k Hk. unfold tail.
  rewrite <- (trunc_error m n p k M U V s Hk OU OV HM).
  apply (eckart_young_fn m n p' k M U' V' (fun i j => rsum k (fun t => U i t * s t * V t j)) s'); try assumption.
  exists (fun i t => U i t * s t), V. intros i j _ _. reflexivity.
Qed.

Theorem singular_values_unique_fn2 m n p p' (M U V U' V' : nat -> nat -> R) (s s' : nat -> R) :
  (p <= p')%nat ->
  orthonormal_cols m p U -> orthonormal_rows p n V ->
  (forall t, (t < p)%nat -> 0 <= s t) -> (forall i j, (i <= j)%nat -> (j < p)%nat -> s j <= s i) ->
  (forall i j, (i < m)%nat -> (j < n)%nat -> M i j = rsum p (fun t => U i t * s t * V t j)) ->
  orthonormal_cols m p' U' -> orthonormal_rows p' n V' ->
  (forall t, (t < p')%nat -> 0 <= s' t) -> (forall i j, (i <= j)%nat -> (j < p')%nat -> s' j <= s' i) ->
  (forall i j, (i < m)%nat -> (j < n)%nat -> M i j = rsum p' (fun t => U' i t * s' t * V' t j)) ->
  (forall t, (t < p)%nat -> s t = s' t) /\ (forall t, (p <= t)%nat -> (t < p')%nat -> s' t = 0).
Proof.
  intros Hpp OU OV S0 SM HM OU' OV' S0' SM' HM'.
  assert (TE : forall k, (k <= p)%nat -> tail p s k = tail p' s' k).
  { intros k Hk. apply Rle_antisym.
    - apply (tail_le2 m n p' p M U' V' U V s' s); try assumption. lia.
    - apply (tail_le2 m n p p' M U V U' V' s s'); assumption. }
  assert (ST : forall q f k, (k < q)%nat -> tail q f k = (f k)^2 + tail q f (S k)).
  { intros q f k Hk. unfold tail. replace (q - k)%nat with (S (q - S k)) by lia. rewrite rsum_shift.
    rewrite Nat.add_0_r. f_equal. apply rsum_ext; intros t _. f_equal. f_equal. lia. }
  split.
  - intros t Ht.
    pose proof (TE t ltac:(lia)) as E1. pose proof (TE (S t) ltac:(lia)) as E2.
    rewrite (ST p s t Ht), (ST p' s' t ltac:(lia)) in E1.
    pose proof (S0 t Ht). pose proof (S0' t ltac:(lia)). nra.
  - intros t H1 H2. pose proof (TE p (le_n p)) as E. unfold tail at 1 in E. replace (p - p)%nat with 0%nat in E by lia. cbn [rsum] in E.
    symmetry in E. unfold tail in E.
    pose proof (rsum_sq_zero (p' - p) (fun j => s' (p + j)%nat) E (t - p)%nat ltac:(lia)) as Z. cbv beta in Z.
    replace (p + (t - p))%nat with t in Z by lia. exact Z.
Qed.

(* randomized_svd (non-transposed branch, range covered): the returned S consists of the leading singular values of EVERY singular
   value decomposition of M *)
Theorem randomized_S_true (svd : list (list R) -> bool -> triple R) (qr : nat -> list (list R) -> list (list R))
    (G M : list (list R)) d1 d2 n n_over n_iter c U Sg V :
  rect d1 d2 M -> (1 <= d1)%nat -> (c <= d1)%nat ->
  let k := n_kept d1 d2 n in
  Proofs.SvdDecisions.dec_rand_transposed d1 d2 k (Nat.min d1 d2) (Proofs.SvdDecisions.dec_rand_ndims k n_over (Nat.max d1 d2)) = false ->
  let Q := range_finder Rops qr M d2 G n_iter in
  rect d1 c Q -> orthonormal_cols d1 c (mg Q) -> Proofs.SvdRandE2E.covers d1 d2 c (mg M) (mg Q) ->
  let Mred := mmul Rops d2 (transp Rops c Q) M in
  (forall f, svd_contract c d2 (mg Mred) f (svd Mred f)) ->
  randomized_svd Rops svd qr G M d1 d2 n n_over n_iter = (U, Sg, V) ->
  forall Ux Sx Vx, svd_contract d1 d2 (mg M) false (Ux, Sx, Vx) ->
  forall t, (t < length Sg)%nat -> nth t Sg 0 = nth t Sx 0.
Proof.
  intros HM Hd1 Hc k HB Q HQ OQ HCov Mred HSVD E Ux Sx Vx HX t Ht.
  destruct (Proofs.SvdRandE2E.randomized_svd_direct_partial svd qr G M d1 d2 n n_over n_iter c U Sg V HM Hd1 HB HQ OQ HCov HSVD E)
    as ((_ & LS & _) & ES & _).
  fold k Mred in ES, LS.
  set (kk := Nat.min k (Nat.max c d2)) in *.
  (* the singular values of the reduced matrix: both LAPACK answers carry the same ones *)
  pose proof (HSVD false) as HF. destruct (svd Mred false) as [[Uf Sf] Vf] eqn:EF.
  assert (ESf : snd (fst (svd Mred (Nat.min c d2 <? kk)%nat)) = Sf).
  { destruct (Nat.min c d2 <? kk)%nat eqn:B; [|now rewrite EF].
    pose proof (HSVD true) as HT. destruct (svd Mred true) as [[Ut St] Vt]. cbn [fst snd].
    exact (singular_values_unique_full c d2 (mg Mred) Ut Vt Uf Vf St Sf HT HF). }
  assert (ES' : Sg = firstn kk Sf) by (rewrite <- ESf; exact ES). clear ES. subst Sg. rewrite firstn_length in Ht. rewrite nth_firstn_lt by lia.
  destruct HF as ((_ & LSf & _) & OUf & OVf & N1 & N2 & HMf).
  destruct HX as ((_ & LSx & _) & OUx & OVx & N1x & N2x & HMx).
  assert (EM : forall a j, (a < c)%nat -> (j < d2)%nat -> mg Mred a j = rsum d1 (fun i => mg Q i a * mg M i j)).
  { intros a j Ha Hj. unfold Mred.
    assert (RT : rect c d1 (transp Rops c Q)) by (destruct HQ as [LQ _]; rewrite <- LQ; apply Proofs.SvdSymeigShapes.rect_transp).
    rewrite (Proofs.SvdRandProofs.mg_mmul d2 (transp Rops c Q) M a j d1).
    - apply rsum_ext; intros i Hi. now rewrite Proofs.SvdSymeigFull.mg_transp.
    - destruct RT as [LT _]. lia.
    - exact Hj.
    - apply (Proofs.SvdSymeigFull.rect_row c d1); assumption.
    - now destruct HM. }
  destruct (singular_values_unique_fn2 d1 d2 (Nat.min c d2) (Nat.min d1 d2) (mg M)
              (Proofs.SvdRandProofs.fmul_mat c (mg Q) (mg Uf)) (mg Vf) (mg Ux) (mg Vx) (fun t => nth t Sf 0) (fun t => nth t Sx 0)) as [EQ _].
  - lia.
  - now apply Proofs.SvdRandProofs.lift_orthonormal.
  - exact OVf.
  - intros j Hj. apply (Forall_nth_len (fun x => 0 <= x)); [exact N1 | rewrite LSf; exact Hj].
  - intros i j Hij Hj. apply N2; [exact Hij | rewrite LSf; exact Hj].
  - intros i j Hi Hj.
    apply (Proofs.SvdRandProofs.lift_recon c (Nat.min c d2) (mg Q) (mg Uf) (mg Vf) (mg Mred) (fun t => nth t Sf 0) (mg M i j) i j).
    + rewrite (HCov i j Hi Hj). apply rsum_ext; intros a Ha. now rewrite EM.
    + intros a Ha. now apply HMf.
  - exact OUx.
  - exact OVx.
  - intros j Hj. apply (Forall_nth_len (fun x => 0 <= x)); [exact N1x | rewrite LSx; exact Hj].
  - intros i j Hij Hj. apply N2x; [exact Hij | rewrite LSx; exact Hj].
  - exact HMx.
  - apply EQ. rewrite LSf in Ht. lia.
Qed.

(* ---------- an ORTHOGONAL decomposition M = sum_t a_t v_t^T (a_a . a_b = lam_a [a = b], v orthonormal, lam non-increasing) determines the
   squared singular values: lam_t = s_t^2 for every singular value decomposition of M.  Used for symeig_svd. ---------- *)
Lemma orth_trunc_error m n p k (M A V : nat -> nat -> R) (lam : nat -> R) : (k <= p)%nat ->
  (forall a b, (a < p)%nat -> (b < p)%nat -> rsum m (fun i => A i a * A i b) = if Nat.eqb a b then lam a else 0) ->
  orthonormal_rows p n V ->
  (forall i j, (i < m)%nat -> (j < n)%nat -> M i j = rsum p (fun t => A i t * V t j)) ->
  rsum m (fun i => rsum n (fun j => (M i j - rsum k (fun t => A i t * V t j))^2)) = rsum (p - k) (fun t => lam (k + t)%nat).
Proof.
  intros Hk GA OV HM.
  rewrite (rsum_ext m _ (fun i => rsum (p - k) (fun t => (A i (k + t)%nat)^2))).
  2:{ intros i Hi.
      rewrite <- (isometry n (p - k) (fun j t => V (k + t)%nat j) (fun t => A i (k + t)%nat)).
      - apply rsum_ext; intros j Hj. f_equal. rewrite (HM i j Hi Hj). replace p with (k + (p - k))%nat at 1 by lia.
        rewrite rsum_app. ring_simplify. apply rsum_ext; intros; ring.
      - apply (orthonormal_rows_shift p n k (p - k) V); [lia | exact OV]. }
  rewrite rsum_exchange. apply rsum_ext; intros t Ht.
  rewrite (rsum_ext m _ (fun i => A i (k + t)%nat * A i (k + t)%nat)) by (intros; ring).
  rewrite GA by lia. now rewrite Nat.eqb_refl.
Qed.

Theorem orth_singular_values m n p p' (M A V U' V' : nat -> nat -> R) (lam s' : nat -> R) :
  (forall a b, (a < p)%nat -> (b < p)%nat -> rsum m (fun i => A i a * A i b) = if Nat.eqb a b then lam a else 0) ->
  orthonormal_rows p n V ->
  (forall i j, (i <= j)%nat -> (j < p)%nat -> lam j <= lam i) ->
  (forall i j, (i < m)%nat -> (j < n)%nat -> M i j = rsum p (fun t => A i t * V t j)) ->
  orthonormal_cols m p' U' -> orthonormal_rows p' n V' ->
  (forall t, (t < p')%nat -> 0 <= s' t) -> (forall i j, (i <= j)%nat -> (j < p')%nat -> s' j <= s' i) ->
  (forall i j, (i < m)%nat -> (j < n)%nat -> M i j = rsum p' (fun t => U' i t * s' t * V' t j)) ->
  forall t, (t < p)%nat -> (t < p')%nat -> (s' t)^2 = lam t.
Proof.
  intros GA OV LM HM OU' OV' S0' SM' HM'.
  set (To := fun k => rsum (p - k) (fun t => lam (k + t)%nat)).
  assert (TE : forall k, (k <= p)%nat -> (k <= p')%nat -> To k = tail p' s' k).
  { intros k H1 H2. apply Rle_antisym.
    - unfold To, tail. rewrite <- (trunc_error m n p' k M U' V' s' H2 OU' OV' HM').
      apply (eckart_young_orth m n p k M A V (fun i j => rsum k (fun t => U' i t * s' t * V' t j)) lam); try assumption.
      exists (fun i t => U' i t * s' t), V'. intros i j _ _. reflexivity.
    - unfold To. rewrite <- (orth_trunc_error m n p k M A V lam H1 GA OV HM). unfold tail.
      apply (eckart_young_fn m n p' k M U' V' (fun i j => rsum k (fun t => A i t * V t j)) s'); try assumption.
      exists A, V. intros i j _ _. reflexivity. }
  intros t H1 H2.
  pose proof (TE t ltac:(lia) ltac:(lia)) as E1. pose proof (TE (S t) ltac:(lia) ltac:(lia)) as E2.
  assert (STo : To t = lam t + To (S t)).
  { unfold To. replace (p - t)%nat with (S (p - S t)) by lia. rewrite rsum_shift. rewrite Nat.add_0_r. f_equal.
    apply rsum_ext; intros j _. f_equal. lia. }
  assert (STs : tail p' s' t = (s' t)^2 + tail p' s' (S t)).
  { unfold tail. replace (p' - t)%nat with (S (p' - S t)) by lia. rewrite rsum_shift. rewrite Nat.add_0_r. f_equal.
    apply rsum_ext; intros j _. f_equal. f_equal. lia. }
  lra.
Qed.
