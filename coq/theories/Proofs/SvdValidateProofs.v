(* C05: argument validation and keyword-argument forwarding of svd_interface (Model/SvdValidate.v). *)
From Coq Require Import List Arith Lia Bool Reals.
From TLV Require Import Base.Ops Base.Tensor Model.Svd Model.SvdValidate Proofs.SvdProofs Proofs.SvdInterfaceProofs.
Import ListNotations.
Local Open Scope nat_scope.

Lemma svd_checks_nd_spec shape n : (exists t, svd_checks_nd shape n = Ok t) <-> length shape = 2.
Proof.
  split.
  - intros [t H]. destruct shape as [|a [|b [|c r]]]; cbn in H; try discriminate. reflexivity.
  - intros H. destruct shape as [|a [|b [|c r]]]; cbn in H; try discriminate. eexists. reflexivity.
Qed.

(* exactly which requests raise *)
Theorem request_rejected_spec shape meth nn :
  request_rejected shape meth nn = true <->
  meth = MUnknown \/ nn = NRother \/ (meth <> MCallable /\ length shape <> 2).
Proof.
  unfold request_rejected.
  destruct shape as [|a [|b [|c r]]]; destruct meth; destruct nn; cbn; split; intro H;
    first [ reflexivity
          | discriminate
          | (left; reflexivity)
          | (right; left; reflexivity)
          | (right; right; split; [discriminate | cbn; lia])
          | (exfalso; destruct H as [H|[H|[H1 H2]]];
             first [discriminate | (apply H1; reflexivity) | (cbn in H2; lia)]) ].
Qed.

(* the interface consults the back ends only at the request's own keyword arguments and n_eigenvecs (every call, also inside the
   mask loop): two back-end tables that agree there give the same result, whatever they do for other keyword arguments *)
Theorem interface_kw_forwarded {KW : Type} (backends backends' : fname -> KW -> option nat -> nat -> list (list R) -> triple R) (kw : KW)
    meth d2 Ml n flip ub nn mask iters sq eps :
  (forall f c X, backends f kw n c X = backends' f kw n c X) ->
  svd_interface_kw Rops backends kw meth d2 Ml n flip ub nn mask iters sq eps
  = svd_interface_kw Rops backends' kw meth d2 Ml n flip ub nn mask iters sq eps.
Proof.
  intros H. unfold svd_interface_kw. destruct (dispatch meth) as [fn|] eqn:D.
  - apply (interface_only_selected _ _ meth fn); [exact D | intros c X; apply H].
  - unfold svd_interface. rewrite D. reflexivity.
Qed.

(* truncated_svd and symeig_svd absorb and ignore **kwargs; randomized_svd reads exactly n_oversamples, n_iter and the draw *)
Theorem builtin_kwargs (svd : list (list R) -> bool -> triple R) eigh qr user sq eps d1 d2 (kw kw' : rkw R) n c X :
  builtin_backends Rops svd eigh qr user sq eps d1 d2 FTruncated kw n c X = builtin_backends Rops svd eigh qr user sq eps d1 d2 FTruncated kw' n c X /\
  builtin_backends Rops svd eigh qr user sq eps d1 d2 FSymeig kw n c X = builtin_backends Rops svd eigh qr user sq eps d1 d2 FSymeig kw' n c X /\
  builtin_backends Rops svd eigh qr user sq eps d1 d2 FRandomized kw n c X
    = randomized_svd Rops svd qr (kw_draw kw) X d1 d2 n (kw_n_oversamples kw) (kw_n_iter kw).
Proof. repeat split. Qed.
