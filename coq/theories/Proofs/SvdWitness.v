(* C05: the SVD contract is satisfiable for BOTH values of full_matrices, with different answers, and the hypotheses of the
   end-to-end theorems can be discharged jointly (concrete 2 x 1 and 1 x 2 matrices with their exact SVDs over R). *)
From Coq Require Import List Arith Lia Bool Reals Lra.
From TLV Require Import Base.Ops Base.Tensor Base.RSum Model.Svd Proofs.SvdProofsAux Proofs.SvdProofs Proofs.SvdInterfaceProofs.
Import ListNotations.
Local Open Scope R_scope.

Ltac small j := first [ (destruct j as [|[|[|j]]]; [ | | | exfalso; lia]) ].
Ltac calc := cbn [rsum length mget nth f0 Rops recon Nat.eqb Nat.min]; try lra.

Definition Mtall : list (list R) := [[2]; [0]].                        (* 2 x 1 *)
Definition orc_tall (_ : list (list R)) (full : bool) : triple R :=    (* LAPACK's answers for Mtall *)
  if full then ([[1; 0]; [0; 1]], [2], [[1]]) else ([[1]; [0]], [2], [[1]]).
Definition Mwide : list (list R) := [[2; 0]].                          (* 1 x 2 *)
Definition orc_wide (_ : list (list R)) (full : bool) : triple R :=
  if full then ([[1]], [2], [[1; 0]; [0; 1]]) else ([[1]], [2], [[1; 0]]).

Lemma nonincr_single x : nonincreasing [x].
Proof. intros i j Hij Hj. cbn [length] in Hj. assert (j = 0%nat) by lia. assert (i = 0%nat) by lia. subst. lra. Qed.

Lemma contract_tall : forall f, svd_contract 2 1 (mg Mtall) f (orc_tall Mtall f).
Proof.
  intros f. unfold svd_contract, orc_tall, shape_contract, rect, Mtall. destruct f; cbn [Nat.min].
  - split; [repeat split; repeat constructor|]. split; [|split; [|split; [repeat constructor; lra | split; [apply nonincr_single|]]]].
    + intros a b Ha Hb. small a; small b; calc; try (exfalso; lia).
    + intros a b Ha Hb. small a; small b; calc; try (exfalso; lia).
    + intros i j Hi Hj. small i; small j; calc; try (exfalso; lia).
  - split; [repeat split; repeat constructor|]. split; [|split; [|split; [repeat constructor; lra | split; [apply nonincr_single|]]]].
    + intros a b Ha Hb. small a; small b; calc; try (exfalso; lia).
    + intros a b Ha Hb. small a; small b; calc; try (exfalso; lia).
    + intros i j Hi Hj. small i; small j; calc; try (exfalso; lia).
Qed.
Lemma contract_wide : forall f, svd_contract 1 2 (mg Mwide) f (orc_wide Mwide f).
Proof.
  intros f. unfold svd_contract, orc_wide, shape_contract, rect, Mwide. destruct f; cbn [Nat.min].
  - split; [repeat split; repeat constructor|]. split; [|split; [|split; [repeat constructor; lra | split; [apply nonincr_single|]]]].
    + intros a b Ha Hb. small a; small b; calc; try (exfalso; lia).
    + intros a b Ha Hb. small a; small b; calc; try (exfalso; lia).
    + intros i j Hi Hj. small i; small j; calc; try (exfalso; lia).
  - split; [repeat split; repeat constructor|]. split; [|split; [|split; [repeat constructor; lra | split; [apply nonincr_single|]]]].
    + intros a b Ha Hb. small a; small b; calc; try (exfalso; lia).
    + intros a b Ha Hb. small a; small b; calc; try (exfalso; lia).
    + intros i j Hi Hj. small i; small j; calc; try (exfalso; lia).
Qed.

(* the two answers really differ *)
Lemma answers_differ : orc_tall Mtall true <> orc_tall Mtall false /\ orc_wide Mwide true <> orc_wide Mwide false.
Proof. split; discriminate. Qed.

(* joint discharge of the hypotheses of interface_truncated_e2e_gen (n_eigenvecs = None: k = 2 > min(shape), full matrices)
   and of interface_truncated_e2e (n_eigenvecs = 1), for any functions behind the other three method names *)
Example e2e_hyps_tall (sy ra us : nat -> list (list R) -> triple R) (sq : R -> R) (eps : R) :
  let funs n := svd_funs (fun _ X => truncated_svd (orc_tall X) 2 1 n) sy ra us in
  (forall f, svd_contract 2 1 (mg Mtall) f (orc_tall Mtall f)) /\
  (forall n c X, funs n FTruncated c X = truncated_svd (orc_tall X) 2 1 n) /\ (1 <= 2)%nat /\ (1 <= 1 <= Nat.min 2 1)%nat /\
  svd_interface Rops (funs None) MTruncated 1 Mtall None false true None None 0 sq eps = Ok ([[1; 0]; [0; 1]], [2], [[1]]) /\
  svd_interface Rops (funs (Some 1%nat)) MTruncated 1 Mtall (Some 1%nat) false true None None 0 sq eps = Ok ([[1]; [0]], [2], [[1]]).
Proof. cbv zeta. split; [exact contract_tall|]. repeat split; try lia; reflexivity. Qed.

Example e2e_hyps_wide (sy ra us : nat -> list (list R) -> triple R) (sq : R -> R) (eps : R) :
  let funs n := svd_funs (fun _ X => truncated_svd (orc_wide X) 1 2 n) sy ra us in
  (forall f, svd_contract 1 2 (mg Mwide) f (orc_wide Mwide f)) /\
  (forall n c X, funs n FTruncated c X = truncated_svd (orc_wide X) 1 2 n) /\ (1 <= 1)%nat /\
  svd_interface Rops (funs None) MTruncated 2 Mwide None false true None None 0 sq eps = Ok ([[1]], [2], [[1; 0]; [0; 1]]).
Proof. cbv zeta. split; [exact contract_wide|]. repeat split; try lia; reflexivity. Qed.

(* and the conclusion of interface_truncated_e2e_gen on the tall instance, obtained from the theorem *)
Example e2e_gen_on_tall (sy ra us : nat -> list (list R) -> triple R) (sq : R -> R) (eps : R) :
  orthonormal_cols 2 2 (mg [[1; 0]; [0; 1]]) /\ orthonormal_rows 1 1 (mg [[1]]) /\
  rsum 2 (fun i => rsum 1 (fun j => (mg Mtall i j - recon [[1; 0]; [0; 1]] [2] [[1]] i j)^2)) = 0.
Proof.
  destruct (e2e_hyps_tall sy ra us sq eps) as (HC & HF & Hd & _ & E & _).
  destruct (interface_truncated_e2e_gen orc_tall _ 2 1 Mtall None false true 0 sq eps _ _ _ HC (HF None) Hd E) as (_ & _ & _ & O1 & O2 & EE).
  split; [exact O1 | split; [exact O2|]]. rewrite EE. reflexivity.
Qed.
