(* Lemmas about Model/Tenalg.v over an arbitrary commutative ring (Section pattern of Base/BigSum.v). *)
From Coq Require Import List Arith ZArith Lia Ring Bool.
From TLV Require Import Base.Shape Base.PyList Base.Tensor Base.BigSum Model.Base Proofs.BaseProofs Model.Tenalg.
Import ListNotations.

Definition ring_laws {F} (Op : rops F) : Prop :=
  ring_theory (r0 Op) (r1 Op) (radd Op) (rmul Op) (rsub Op) (ropp Op) (@eq F).
(* conjugation is an involutive ring morphism *)
Definition conj_laws {F} (Op : rops F) : Prop :=
  (forall a b, rconj Op (rmul Op a b) = rmul Op (rconj Op a) (rconj Op b)) /\
  (forall a b, rconj Op (radd Op a b) = radd Op (rconj Op a) (rconj Op b)) /\
  rconj Op (r0 Op) = r0 Op /\ rconj Op (r1 Op) = r1 Op /\ (forall a, rconj Op (rconj Op a) = a).

Lemma ZR_ring : ring_laws ZR.
Proof. exact InitialRing.Zth. Qed.
Lemma GR_ring : ring_laws GR.
Proof.
  unfold ring_laws. constructor; intros; repeat match goal with x : GI |- _ => destruct x end;
    cbn [GR r0 r1 radd rmul rsub ropp fst snd]; f_equal; ring.
Qed.
Lemma ZR_conj : conj_laws ZR.
Proof. unfold conj_laws; simpl; repeat split; auto. Qed.
Lemma GR_conj : conj_laws GR.
Proof.
  unfold conj_laws. repeat split; intros; repeat match goal with x : GI |- _ => destruct x end;
    cbn [GR r0 r1 radd rmul rsub ropp rconj fst snd]; f_equal; ring.
Qed.
