(* Lemmas about Model/Tenalg.v over an arbitrary commutative ring (Section pattern of Base/BigSum.v). *)
From Coq Require Import List Arith ZArith Lia Ring ArithRing Bool.
From TLV Require Import Base.Shape Base.PyList Base.Tensor Base.BigSum Model.Base Proofs.BaseProofs Model.Tenalg.
Import ListNotations.

Definition ring_laws {F} (Op : rops F) : Prop :=
  ring_theory (r0 Op) (r1 Op) (radd Op) (rmul Op) (rsub Op) (ropp Op) (@eq F).
(* conjugation is an involutive ring morphism *)
Definition conj_laws {F} (Op : rops F) : Prop :=
  (forall a b, rconj Op (rmul Op a b) = rmul Op (rconj Op a) (rconj Op b)) /\
  (forall a b, rconj Op (radd Op a b) = radd Op (rconj Op a) (rconj Op b)) /\
  rconj Op (r0 Op) = r0 Op /\ rconj Op (r1 Op) = r1 Op /\ (forall a, rconj Op (rconj Op a) = a).

Lemma ZR_ring : ring_laws ZR.
Proof. exact InitialRing.Zth. Qed.
Lemma GR_ring : ring_laws GR.
Proof.
  unfold ring_laws. constructor; intros; repeat match goal with x : GI |- _ => destruct x end;
    cbn [GR r0 r1 radd rmul rsub ropp fst snd]; f_equal; ring.
Qed.
Lemma ZR_conj : conj_laws ZR.
Proof. unfold conj_laws; simpl; repeat split; auto. Qed.
Lemma GR_conj : conj_laws GR.
Proof.
  unfold conj_laws. repeat split; intros; repeat match goal with x : GI |- _ => destruct x end;
    cbn [GR r0 r1 radd rmul rsub ropp rconj fst snd]; f_equal; ring.
Qed.

(* ---------------------------------------------------------------- list / index facts *)
Lemma set_nth_insert_remove {A} k (v : A) : forall l, k < length l -> set_nth k v l = insert_at k v (remove_nth k l).
Proof. induction k; intros [|x l] H; simpl in *; try lia; [destruct l; reflexivity|]. f_equal. apply IHk. lia. Qed.
Lemma remove_nth_set_nth {A} k (v : A) : forall l, remove_nth k (set_nth k v l) = remove_nth k l.
Proof. induction k; intros [|x l]; simpl; auto. f_equal. apply IHk. Qed.
Lemma inb_set_nth k : forall s idx dv v, inb s idx -> v < dv -> inb (set_nth k dv s) (set_nth k v idx).
Proof. induction k; intros [|a s] [|j idx] dv v H Hv; simpl in *; try tauto. destruct H; split; auto. Qed.
Lemma inb_set_nth_back k : forall s idx dv v, k < length s -> inb (set_nth k dv s) idx -> v < nth k s 0 -> inb s (set_nth k v idx).
Proof.
  induction k; intros [|a s] [|j idx] dv v Hk H Hv; simpl in *; try tauto; try lia.
  - destruct H; split; auto. apply IHk with (dv := dv); auto. lia.
Qed.
Lemma nth_inb_set_nth k : forall s idx dv, k < length s -> inb (set_nth k dv s) idx -> nth k idx 0 < dv.
Proof.
  induction k; intros [|a s] [|j idx] dv Hk H; simpl in *; try tauto; try lia.
  destruct H. apply IHk with (s := s); auto. lia.
Qed.
Lemma prod_set_nth k : forall s v, k < length s -> prod (set_nth k v s) = v * prod (remove_nth k s).
Proof. induction k; intros [|a s] v H; simpl in *; try lia. rewrite IHk by lia. lia. Qed.
Lemma insert_at_0' {B} (x : B) l : insert_at 0 x l = x :: l.
Proof. destruct l; reflexivity. Qed.
Lemma inb_insert_remove k : forall s idx, k < length s -> inb s idx -> insert_at k (nth k idx 0) (remove_nth k idx) = idx.
Proof. intros s idx Hk H. apply insert_remove. rewrite (inb_length _ _ H). exact Hk. Qed.
Lemma remove_nth_insert_at {A} k (v : A) : forall l, k <= length l -> remove_nth k (insert_at k v l) = l.
Proof. intros. now apply remove_insert. Qed.
Lemma inb_insert_at_back k : forall s ridx i, k < length s -> inb (remove_nth k s) ridx -> i < nth k s 0 -> inb s (insert_at k i ridx).
Proof.
  intros s ridx i Hk H Hi. rewrite <- (insert_remove k s 0) at 1 by exact Hk. apply inb_insert; assumption.
Qed.

(* ================================================================ ring section *)
Section P.
Context {F : Type} (Op : rops F).
Hypothesis Rth : ring_theory (r0 Op) (r1 Op) (radd Op) (rmul Op) (rsub Op) (ropp Op) (@eq F).
Add Ring Fr : Rth.
Notation d := (r0 Op).
Infix "*r" := (rmul Op) (at level 40, left associativity).
Infix "+r" := (radd Op) (at level 50, left associativity).
Notation bs := (bsum Op).

Lemma bs_ext n f g : (forall i, i < n -> f i = g i) -> bs n f = bs n g.
Proof. apply bigsum_ext. Qed.

Lemma ravel2 a b i j : ravel [a; b] [i; j] = i * b + j.
Proof. simpl. rewrite !Nat.mul_1_r, Nat.add_0_r. reflexivity. Qed.
Lemma ravel1 a i : ravel [a] [i] = i.
Proof. simpl. lia. Qed.

Lemma get_matmul A B i j : i < nrows A -> j < ncols B ->
  get d (matmul Op A B) [i; j] = bs (ncols A) (fun k => get d A [i; k] *r get d B [k; j]).
Proof. intros Hi Hj. unfold matmul. rewrite get_tabulate by (simpl; auto). reflexivity. Qed.
Lemma get_vecmat v B j : j < ncols B ->
  get d (vecmat Op v B) [j] = bs (nrows v) (fun k => get d v [k] *r get d B [k; j]).
Proof. intros Hj. unfold vecmat. rewrite get_tabulate by (simpl; auto). reflexivity. Qed.

Lemma get_tmap f (t : tensor F) idx : inb (shape t) idx -> wf t -> get (f d) (tmap f t) idx = f (get d t idx).
Proof.
  intros Hi W. unfold get, tmap. cbn [shape data]. apply map_nth.
Qed.

(* entry (j, i) of the operand actually multiplied: M, or conj(M^T) under transpose=True *)
Definition mentry (M : tensor F) (tr : bool) (j i : nat) : F :=
  if tr then rconj Op (get d M [i; j]) else get d M [j; i].

Lemma get_conj_transpose M a b i j : wf M -> shape M = [a; b] -> i < b -> j < a ->
  get d (conj_t Op (transpose_rev Op M)) [i; j] = rconj Op (get d M [j; i]).
Proof.
  intros W Hs Hi Hj. unfold conj_t, transpose_rev, ndim. rewrite Hs. cbn [length seq rev app].
  unfold get at 1. unfold tmap. cbn [shape data].
  set (Tt := transpose d [1; 0] M).
  assert (HsT : shape Tt = [b; a]) by (unfold Tt, transpose; cbn [shape]; rewrite Hs; reflexivity).
  rewrite HsT.
  assert (Hlt : ravel [b; a] [i; j] < length (data Tt)).
  { unfold Tt. rewrite (wf_transpose d [1;0] M : length _ = _). fold Tt. rewrite HsT. apply ravel_lt. simpl. auto. }
  rewrite nth_indep with (d' := rconj Op d) by (now rewrite map_length).
  rewrite map_nth. f_equal.
  change (nth (ravel [b; a] [i; j]) (data Tt) d) with (nth (ravel [b; a] [i; j]) (data Tt) d).
  rewrite <- HsT. fold (get d Tt [i; j]). unfold Tt, transpose.
  rewrite get_tabulate by (rewrite Hs; simpl; auto). reflexivity.
Qed.

Lemma shape_conj_transpose M a b : shape M = [a; b] -> shape (conj_t Op (transpose_rev Op M)) = [b; a].
Proof. intros Hs. unfold conj_t, tmap, transpose_rev, ndim, transpose. cbn [shape]. rewrite Hs. reflexivity. Qed.

(* ---------------------------------------------------------------- fold at index level *)
Lemma fold_eq (X : tensor F) k s : k < length s -> 0 < prod s -> shape X = [nth k s 0; prod (remove_nth k s)] ->
  fold d X k s = Ok (moveaxis d (reshape (nth k s 0 :: remove_nth k s) X) 0 k).
Proof.
  intros Hk Hp Hs. unfold fold. apply Nat.ltb_lt in Hk as Hk'. rewrite Hk'.
  rewrite reshape_spec_all_some; [reflexivity|].
  rewrite Hs. unfold prod. cbn [fold_right]. rewrite Nat.mul_1_r. reflexivity.
Qed.

Lemma get_fold (X : tensor F) k s idx : wf X -> k < length s -> 0 < prod s ->
  shape X = [nth k s 0; prod (remove_nth k s)] -> inb s idx ->
  get d (moveaxis d (reshape (nth k s 0 :: remove_nth k s) X) 0 k) idx
  = get d X [nth k idx 0; ravel (remove_nth k s) (remove_nth k idx)].
Proof.
  intros W Hk Hp Hs Hi.
  set (t1 := reshape (nth k s 0 :: remove_nth k s) X).
  assert (Hn1 : ndim t1 = length s).
  { unfold ndim, t1, reshape. cbn [shape length]. rewrite remove_nth_length by exact Hk. lia. }
  assert (Hidx : idx = insert_at k (nth 0 (nth k idx 0 :: remove_nth k idx) 0) (remove_nth 0 (nth k idx 0 :: remove_nth k idx))).
  { cbn [nth remove_nth]. symmetry. eapply inb_insert_remove; eauto. }
  rewrite Hidx at 1.
  rewrite get_moveaxis.
  - unfold t1, get, reshape. cbn [shape data]. rewrite Hs, ravel2. cbn [ravel]. reflexivity.
  - lia.
  - lia.
  - unfold t1, reshape. cbn [shape]. split; [apply inb_nth; assumption | apply inb_remove; assumption].
Qed.

(* ================================================================ mode_dot (core backend) *)
Theorem mode_dot_matrix_spec (T M : tensor F) (k : nat) (tr : bool) (a b : nat) :
  wf T -> wf M -> k < ndim T -> 0 < prod (shape T) -> shape M = [a; b] ->
  (if tr then a else b) = nth k (shape T) 0 -> 0 < (if tr then b else a) ->
  exists R, mode_dot Op T M k tr = Ok R /\ wf R /\
    shape R = set_nth k (if tr then b else a) (shape T) /\
    forall idx, inb (shape R) idx ->
      get d R idx = bs (nth k (shape T) 0) (fun i => mentry M tr (nth k idx 0) i *r get d T (set_nth k i idx)).
Proof.
  intros WT WM Hk Hpos HsM Hdim HJ. unfold ndim in Hk.
  set (M' := if tr then conj_t Op (transpose_rev Op M) else M).
  assert (HsM' : shape M' = [if tr then b else a; nth k (shape T) 0]).
  { unfold M'. destruct tr; [rewrite (shape_conj_transpose M a b HsM) | rewrite HsM]; congruence. }
  assert (HM' : forall j i, j < (if tr then b else a) -> i < nth k (shape T) 0 -> get d M' [j; i] = mentry M tr j i).
  { intros j i Hj Hi. unfold M', mentry. destruct tr; [|reflexivity].
    apply (get_conj_transpose M a b); auto; congruence. }
  set (J := if tr then b else a) in *.
  set (sk := nth k (shape T) 0) in *.
  set (rest := remove_nth k (shape T)).
  assert (Hprod : sk * prod rest = prod (shape T)) by (apply prod_remove; exact Hk).
  assert (Hsk : 0 < sk) by nia. assert (Hrest : 0 < prod rest) by nia.
  set (U := reshape [sk; prod rest] (moveaxis d T k 0)).
  assert (HU : unfold d T k = Ok U) by (apply unfold_eq; auto).
  set (ns := set_nth k J (shape T)).
  assert (Hns_len : length ns = length (shape T)) by (unfold ns; apply set_nth_length).
  assert (Hns_k : nth k ns 0 = J) by (unfold ns; apply nth_set_nth_same; exact Hk).
  assert (Hns_rest : remove_nth k ns = rest) by (unfold ns; apply remove_nth_set_nth).
  assert (Hns_prod : prod ns = J * prod rest) by (unfold ns; apply prod_set_nth; exact Hk).
  set (X := matmul Op M' U).
  assert (HsX : shape X = [nth k ns 0; prod (remove_nth k ns)]).
  { unfold X, matmul. cbn [shape]. unfold nrows, ncols. rewrite HsM'. unfold U, reshape. cbn [shape nth]. now rewrite Hns_k, Hns_rest. }
  assert (WX : wf X) by apply wf_tabulate.
  exists (moveaxis d (reshape (nth k ns 0 :: remove_nth k ns) X) 0 k).
  assert (Hshape : shape (moveaxis d (reshape (nth k ns 0 :: remove_nth k ns) X) 0 k) = ns).
  { rewrite shape_moveaxis. unfold reshape. cbn [shape nth remove_nth]. apply insert_remove. lia. }
  split; [|split; [apply wf_moveaxis | split; [exact Hshape|]]].
  - unfold mode_dot. rewrite HsM. fold J. fold sk. 
    assert (Hc : ((k <? ndim T) && ((if tr then a else b) =? sk)) = true).
    { apply andb_true_iff; split; [apply Nat.ltb_lt; exact Hk | apply Nat.eqb_eq; exact Hdim]. }
    rewrite Hc. fold M'. rewrite HU. cbn [rbind].
    assert (HnM' : nrows M' = J) by (unfold nrows; now rewrite HsM').
    rewrite HnM'. fold ns. fold X. apply fold_eq; [lia | nia | exact HsX].
  - intros idx Hi. rewrite Hshape in Hi.
    rewrite get_fold by (auto; try lia; nia).
    rewrite Hns_rest.
    assert (Hj : nth k idx 0 < J) by (unfold ns in Hi; eapply nth_inb_set_nth; eauto).
    assert (Hc : ravel rest (remove_nth k idx) < prod rest).
    { apply ravel_lt. rewrite <- Hns_rest. apply inb_remove. exact Hi. }
    unfold X. rewrite get_matmul; [| unfold nrows; rewrite HsM'; exact Hj | unfold ncols, U, reshape; cbn [shape nth]; exact Hc].
    assert (HcM' : ncols M' = sk) by (unfold ncols; now rewrite HsM').
    rewrite HcM'. apply bs_ext. intros i Hi'. rewrite HM' by assumption. f_equal.
    assert (Hin : inb (shape T) (set_nth k i idx)) by (unfold ns in Hi; eapply inb_set_nth_back; eauto).
    destruct (unfold_layout d T k U (set_nth k i idx) WT Hk Hpos HU Hin) as [_ HL].
    rewrite <- HL. f_equal. f_equal; [| f_equal].
    + symmetry. apply nth_set_nth_same. rewrite (inb_length _ _ Hi), Hns_len. exact Hk.
    + f_equal. symmetry. apply remove_nth_set_nth.
Qed.

Theorem mode_dot_vector_spec (T v : tensor F) (k : nat) (tr : bool) (n : nat) :
  wf T -> k < ndim T -> 0 < prod (shape T) -> shape v = [n] -> n = nth k (shape T) 0 ->
  exists R, mode_dot Op T v k tr = Ok R /\ wf R /\
    shape R = remove_nth k (shape T) /\
    forall ridx, inb (shape R) ridx ->
      get d R ridx = bs n (fun i => get d v [i] *r get d T (insert_at k i ridx)).
Proof.
  intros WT Hk Hpos Hsv Hn. unfold ndim in Hk.
  set (sk := nth k (shape T) 0) in *.
  set (rest := remove_nth k (shape T)).
  assert (Hprod : sk * prod rest = prod (shape T)) by (apply prod_remove; exact Hk).
  assert (Hsk : 0 < sk) by nia. assert (Hrest : 0 < prod rest) by nia.
  set (U := reshape [sk; prod rest] (moveaxis d T k 0)).
  assert (HU : unfold d T k = Ok U) by (apply unfold_eq; auto).
  set (X := vecmat Op v U).
  assert (HsX : shape X = [prod rest]) by reflexivity.
  assert (WX : wf X) by apply wf_tabulate.
  exists (reshape rest X).
  split; [|split; [|split; [reflexivity|]]].
  - unfold mode_dot. rewrite Hsv. fold sk.
    assert (Hc : ((k <? ndim T) && (n =? sk)) = true).
    { apply andb_true_iff; split; [apply Nat.ltb_lt; exact Hk | apply Nat.eqb_eq; exact Hn]. }
    rewrite Hc, HU. cbn [rbind]. fold rest. fold X. unfold vec_to_tensor.
    apply reshape_spec_all_some. rewrite HsX. unfold prod. cbn [fold_right]. now rewrite Nat.mul_1_r.
  - apply wf_reshape; [exact WX|]. rewrite HsX. unfold prod. cbn [fold_right]. now rewrite Nat.mul_1_r.
  - intros ridx Hi. cbn [reshape shape] in Hi.
    assert (Hc : ravel rest ridx < prod rest) by (apply ravel_lt; exact Hi).
    assert (E : get d (reshape rest X) ridx = get d X [ravel rest ridx]).
    { unfold get, reshape. cbn [shape data]. rewrite HsX, ravel1. reflexivity. }
    rewrite E. unfold X. rewrite get_vecmat by (unfold ncols, U, reshape; cbn [shape nth]; exact Hc).
    assert (Hnv : nrows v = n) by (unfold nrows; now rewrite Hsv).
    rewrite Hnv. apply bs_ext. intros i Hi'. f_equal.
    assert (Hlen : length ridx = length (shape T) - 1).
    { rewrite (inb_length _ _ Hi). unfold rest. apply remove_nth_length. exact Hk. }
    assert (Hin : inb (shape T) (insert_at k i ridx)) by (apply inb_insert_at_back; auto; lia).
    destruct (unfold_layout d T k U (insert_at k i ridx) WT Hk Hpos HU Hin) as [_ HL].
    rewrite <- HL. f_equal. f_equal; [| f_equal].
    + symmetry. apply nth_insert_same. lia.
    + f_equal. symmetry. apply remove_insert. lia.
Qed.

End P.
