(* multi_mode_dot, core = einsum for ARBITRARY lists of Python modes (repeated, negative, out of range, any order, skip, transpose):
   since /repo a6246d0 the einsum loop contracts the current label at position mode - decrement and checks the current size, which
   is step by step what the core loop does to the running result.  Both backends return the same tensor or both reject.
   Hypotheses: tensor and operands well-formed with non-empty index spaces - nothing about the modes or the fit of the sizes. *)
From Coq Require Import List Arith ZArith Lia Ring Bool.
From TLV Require Import Base.Shape Base.PyList Base.Tensor Base.BigSum Model.Base Proofs.BaseProofs Model.Tenalg
  Proofs.TenalgProofs Proofs.TenalgProofsEinsum Proofs.TenalgProofsInner Proofs.TenalgProofsEinsumInner Proofs.TenalgProofsKR
  Proofs.TenalgProofsMulti Proofs.TenalgProofsSort Proofs.TenalgProofsMultiGen Proofs.TenalgProofsMultiGen2 Proofs.TenalgProofsTdotE
  Proofs.TenalgProofsEinsumMulti Proofs.TenalgProofsValidate Proofs.TenalgProofsNegMode Proofs.TenalgProofsNegMulti.
Import ListNotations.

Section P.
Context {F : Type} (Op : rops F).
Hypothesis Rth : ring_theory (r0 Op) (r1 Op) (radd Op) (rmul Op) (rsub Op) (ropp Op) (@eq F).
Notation d := (r0 Op).

Definition fin (T : tensor F) (st : @mmd_state F) : res (tensor F) :=
  if einsum_sizes_ok (seq 0 (ndim T) :: s_ins st) (T :: s_ops st)
  then Ok (einsum Op (seq 0 (ndim T) :: s_ins st) (s_out st) (T :: s_ops st)) else Err.

(* a size conflict stays a size conflict when operands are appended *)
Lemma sizes_bad_snoc (I : list (list nat)) (Ts : list (tensor F)) lx X : wfI I Ts ->
  einsum_sizes_ok I Ts = false -> einsum_sizes_ok (I ++ [lx]) (Ts ++ [X]) = false.
Proof.
  intros Hw Hbad. unfold einsum_sizes_ok in *. rewrite combine_app_eq by (now apply wfI_length). rewrite forallb_app.
  apply andb_false_iff. left. apply Bool.not_true_is_false. intros H. apply Bool.not_true_iff_false in Hbad. apply Hbad.
  rewrite forallb_forall in H |- *. intros [ls t] Hp. specialize (H _ Hp). cbn [fst snd] in *.
  apply andb_true_iff in H. destruct H as [H1 H2]. apply andb_true_iff. split; [exact H1|].
  rewrite forallb_forall in H2 |- *. intros [l sz] Hq. specialize (H2 _ Hq). cbn [fst snd] in *.
  rewrite label_size_app_old in H2; [exact H2 | exact Hw|]. apply in_concat. exists ls. split; [now apply in_combine_l in Hp | now apply in_combine_l in Hq].
Qed.
(* a new operand whose axis k disagrees with the size of its (old) label makes the check fail *)
Lemma sizes_bad_new (I : list (list nat)) (Ts : list (tensor F)) lx X k : wfI I Ts -> length lx = length (shape X) -> k < length lx ->
  In (nth k lx 0) (concat I) -> nth k (shape X) 0 <> label_size I Ts (nth k lx 0) ->
  einsum_sizes_ok (I ++ [lx]) (Ts ++ [X]) = false.
Proof.
  intros Hw Hl Hk Hin Hne. unfold einsum_sizes_ok. rewrite combine_app_eq by (now apply wfI_length). rewrite forallb_app.
  apply andb_false_iff. right. cbn [combine forallb fst snd]. rewrite andb_true_r. apply andb_false_iff. right.
  apply Bool.not_true_is_false. intros H. rewrite forallb_forall in H.
  specialize (H (nth k lx 0, nth k (shape X) 0)). cbn [fst snd] in H.
  assert (Hq : In (nth k lx 0, nth k (shape X) 0) (combine lx (shape X))).
  { rewrite <- (combine_nth lx (shape X) k 0 0 Hl). apply nth_In. rewrite combine_length. lia. }
  specialize (H Hq). apply Nat.eqb_eq in H. rewrite label_size_app_old in H by assumption. contradiction.
Qed.

Lemma wf_opnd (tr : bool) (M : tensor F) : wf M -> wf (if tr then conj_t Op (transpose_rev Op M) else M).
Proof. intros W. destruct tr; [apply wf_conj_t; unfold transpose_rev; apply wf_transpose | exact W]. Qed.

(* once the equation carries a size conflict the einsum backend rejects, whatever follows *)
Lemma bad_persists (T : tensor F) tr : forall (l : list (@ztriple F)) st,
  wfI (seq 0 (ndim T) :: s_ins st) (T :: s_ops st) ->
  einsum_sizes_ok (seq 0 (ndim T) :: s_ins st) (T :: s_ops st) = false ->
  rbind (mmd_e_loop_z Op l None tr st) (fin T) = Err.
Proof.
  induction l as [|[[M z] i] l IH]; intros st Hw Hbad; [cbn [mmd_e_loop_z rbind]; unfold fin; now rewrite Hbad|].
  cbn [mmd_e_loop_z is_skip]. destruct (py_index (length (s_out st)) (z - Z.of_nat (s_dec st))) as [q|]; [|reflexivity].
  destruct (ndim M) as [|[|[|k]]] eqn:En; try reflexivity.
  - apply IH; cbn [s_ins s_ops].
    + change (seq 0 (ndim T) :: s_ins st ++ [[nth q (s_out st) 0]]) with ((seq 0 (ndim T) :: s_ins st) ++ [[nth q (s_out st) 0]]).
      change (T :: s_ops st ++ [if tr then conj_t Op M else M]) with ((T :: s_ops st) ++ [if tr then conj_t Op M else M]).
      apply wfI_snoc; [exact Hw|]. unfold ndim in En. destruct tr; [unfold conj_t, tmap; cbn [shape]|]; now rewrite En.
    + change (seq 0 (ndim T) :: s_ins st ++ [[nth q (s_out st) 0]]) with ((seq 0 (ndim T) :: s_ins st) ++ [[nth q (s_out st) 0]]).
      change (T :: s_ops st ++ [if tr then conj_t Op M else M]) with ((T :: s_ops st) ++ [if tr then conj_t Op M else M]).
      now apply sizes_bad_snoc.
  - assert (Hl2 : length (shape (if tr then conj_t Op (transpose_rev Op M) else M)) = 2).
    { unfold ndim in En. destruct (shape M) as [|a [|b [|c r]]] eqn:Es; try discriminate.
      destruct tr; [rewrite (shape_conj_transpose Op M a b Es) | rewrite Es]; reflexivity. }
    apply IH; cbn [s_ins s_ops].
    + change (seq 0 (ndim T) :: s_ins st ++ [[s_counter st; nth q (s_out st) 0]]) with ((seq 0 (ndim T) :: s_ins st) ++ [[s_counter st; nth q (s_out st) 0]]).
      change (T :: s_ops st ++ [if tr then conj_t Op (transpose_rev Op M) else M]) with ((T :: s_ops st) ++ [if tr then conj_t Op (transpose_rev Op M) else M]).
      apply wfI_snoc; [exact Hw | now rewrite Hl2].
    + change (seq 0 (ndim T) :: s_ins st ++ [[s_counter st; nth q (s_out st) 0]]) with ((seq 0 (ndim T) :: s_ins st) ++ [[s_counter st; nth q (s_out st) 0]]).
      change (T :: s_ops st ++ [if tr then conj_t Op (transpose_rev Op M) else M]) with ((T :: s_ops st) ++ [if tr then conj_t Op (transpose_rev Op M) else M]).
      now apply sizes_bad_snoc.
Qed.


Lemma mode_dot_bad_rank (T M : tensor F) k tr : length (shape M) <> 1 -> length (shape M) <> 2 -> mode_dot Op T M k tr = Err.
Proof. intros H1 H2. unfold mode_dot. destruct (shape M) as [|a [|b [|c r]]]; cbn [length] in *; try reflexivity; lia. Qed.
Lemma opnd_rank (tr : bool) (M : tensor F) : length (shape (if tr then conj_t Op (transpose_rev Op M) else M)) = length (shape M).
Proof.
  destruct tr; [|reflexivity]. unfold conj_t, tmap, transpose_rev, transpose, tabulate, permute, ndim. cbn [shape].
  now rewrite map_length, rev_length, seq_length.
Qed.

Lemma loops_agree_any (T : tensor F) (tr : bool) : forall (l : list (@ztriple F)) (st : @mmd_state F),
  let order := ndim T in let I := seq 0 order :: s_ins st in let Ts := T :: s_ops st in let out := s_out st in
  (forall x, In x l -> wf (fst (fst x)) /\ 0 < prod (shape (fst (fst x)))) ->
  wfI I Ts -> NoDup out -> (forall l, In l out -> In l (concat I)) -> (forall l, In l (concat I) -> l < s_counter st) ->
  0 < prod (map (label_size I Ts) out) -> einsum_sizes_ok I Ts = true ->
  mmd_loop_z Op l None tr (Z.of_nat (s_dec st)) (einsum Op I out Ts) = rbind (mmd_e_loop_z Op l None tr st) (fin T).
Proof.
  induction l as [|[[M z] i] l IH]; intros st order I Ts out Hops Hw Hnd HoutI Hcnt Hpos Hsok.
  - cbn [mmd_loop_z mmd_e_loop_z rbind]. unfold fin. fold order I Ts. now rewrite Hsok.
  - destruct (Hops (M, z, i) (or_introl eq_refl)) as [WM HpM]. cbn [fst snd] in WM, HpM.
    assert (Hops' : forall x, In x l -> wf (fst (fst x)) /\ 0 < prod (shape (fst (fst x)))) by (intros x Hx; apply Hops; now right).
    cbn [mmd_loop_z mmd_e_loop_z is_skip]. fold out.
    set (acc := einsum Op I out Ts).
    assert (Hnd_acc : ndim acc = length out) by (unfold acc, ndim; now rewrite shape_einsum, map_length).
    unfold mode_dot_z. rewrite Hnd_acc.
    destruct (py_index (length out) (z - Z.of_nat (s_dec st))) as [q|] eqn:Ep; [|reflexivity].
    assert (Hq : q < length out) by (now apply (py_index_lt _ _ _ Ep)).
    set (m := nth q out 0).
    assert (HmI : In m (concat I)) by (apply HoutI; unfold m; now apply nth_In).
    assert (Hszq : nth q (shape acc) 0 = label_size I Ts m) by (unfold acc; rewrite shape_einsum; now apply nth_map').
    assert (Hposall : Forall (fun x => 0 < x) (map (label_size I Ts) out)) by (now apply prod_pos_Forall).
    set (X' := if tr then conj_t Op (transpose_rev Op M) else M).
    destruct (shape M) as [|a [|b [|c r]]] eqn:Es.
    + (* rank 0 *)
      rewrite (mode_dot_bad_rank acc X' q false) by (unfold X'; rewrite opnd_rank, Es; cbn; lia). cbn [rbind].
      unfold ndim. rewrite Es. reflexivity.
    + (* vector *)
      assert (En : ndim M = 1) by (unfold ndim; now rewrite Es). rewrite En. cbn [Nat.eqb].
      set (Ve := if tr then conj_t Op M else M).
      assert (HsVe : shape Ve = [a]) by (unfold Ve; destruct tr; [unfold conj_t, tmap; cbn [shape]|]; exact Es).
      destruct (opnd_vec Op tr M _ WM Es) as [_ HsVc]. unfold opnd in HsVc. fold X' in HsVc.
      destruct (Nat.eq_dec a (label_size I Ts m)) as [Ea|Ea].
      * rewrite (mode_dot_vec_ext Op acc X' Ve q a); [| apply wf_tabulate | rewrite Hnd_acc; exact Hq | unfold acc; rewrite shape_einsum; exact Hpos
                                                          | exact HsVc | exact HsVe | now rewrite Hszq |].
        -- unfold acc. rewrite (einsum_step_vector Op Rth I Ts out q Ve Hw Hnd HoutI Hq); [| fold m; rewrite <- Ea; exact HsVe | exact Hpos].
           cbn [rbind]. fold m. replace (Z.of_nat (s_dec st) + 1)%Z with (Z.of_nat (S (s_dec st))) by lia.
           set (st' := mkS (s_ins st ++ [[m]]) (s_ops st ++ [Ve]) (remove_nth q out) (s_counter st) (S (s_dec st))).
           assert (Hw' : wfI (I ++ [[m]]) (Ts ++ [Ve])) by (apply wfI_snoc; [exact Hw | now rewrite HsVe]).
           apply (IH st'); cbn [s_ins s_ops s_out s_counter s_dec st']; try exact Hops'.
           ++ exact Hw'.
           ++ now apply NoDup_remove_nth.
           ++ intros l0 Hl0. apply In_remove_nth in Hl0. change (seq 0 (ndim T) :: s_ins st ++ [[m]]) with (I ++ [[m]]).
              rewrite concat_app. apply in_or_app. left. now apply HoutI.
           ++ intros l0 Hl0. change (seq 0 (ndim T) :: s_ins st ++ [[m]]) with (I ++ [[m]]) in Hl0. rewrite concat_app in Hl0. apply in_app_or in Hl0.
              destruct Hl0 as [Hl0|Hl0]; [now apply Hcnt|]. cbn [concat app] in Hl0. destruct Hl0 as [<-|[]]. now apply Hcnt.
           ++ apply prod_pos_Forall. apply Forall_forall. intros x Hx'. apply in_map_iff in Hx'. destruct Hx' as [l0 [<- Hl0]].
              apply In_remove_nth in Hl0. change (seq 0 (ndim T) :: s_ins st ++ [[m]]) with (I ++ [[m]]). change (T :: s_ops st ++ [Ve]) with (Ts ++ [Ve]).
              rewrite label_size_app_old by (try exact Hw; now apply HoutI). rewrite Forall_forall in Hposall. apply Hposall. now apply in_map.
           ++ change (seq 0 (ndim T) :: s_ins st ++ [[m]]) with (I ++ [[m]]). change (T :: s_ops st ++ [Ve]) with (Ts ++ [Ve]).
              apply sizes_ok_snoc; [exact Hw | exact Hsok | now rewrite HsVe|]. intros k Hk. cbn [length] in Hk. destruct k; [|lia]. cbn [nth].
              rewrite HsVe. cbn [nth]. rewrite label_size_app_old by assumption. exact Ea.
        -- intros j Hj. unfold X', Ve. destruct tr; [|reflexivity].
           destruct (vcoef_conj Op M _ j WM Es Hj) as [Hc _]. unfold vcoef, opnd in Hc. rewrite Hc.
           symmetry. apply get_conj_t; [exact WM | rewrite Es; cbn; auto].
      * assert (Ecore : mode_dot Op acc X' q false = Err).
        { unfold mode_dot. rewrite HsVc, Hszq. apply Nat.eqb_neq in Ea. rewrite Ea, andb_false_r. reflexivity. }
        rewrite Ecore. cbn [rbind]. symmetry. fold m. apply (bad_persists T tr l); cbn [s_ins s_ops].
        -- change (seq 0 (ndim T) :: s_ins st ++ [[m]]) with (I ++ [[m]]). change (T :: s_ops st ++ [Ve]) with (Ts ++ [Ve]).
           apply wfI_snoc; [exact Hw | now rewrite HsVe].
        -- change (seq 0 (ndim T) :: s_ins st ++ [[m]]) with (I ++ [[m]]). change (T :: s_ops st ++ [Ve]) with (Ts ++ [Ve]).
           apply (sizes_bad_new I Ts [m] Ve 0); [exact Hw | now rewrite HsVe | cbn; lia | exact HmI | rewrite HsVe; exact Ea].
    + (* matrix *)
      assert (En : ndim M = 2) by (unfold ndim; now rewrite Es). rewrite En. cbn [Nat.eqb].
      set (J := if tr then b else a). set (b' := if tr then a else b).
      assert (HsX' : shape X' = [J; b']) by (unfold X', J, b'; destruct tr; [rewrite (shape_conj_transpose Op M a b Es) | rewrite Es]; reflexivity).
      assert (WX' : wf X') by (apply wf_opnd; exact WM).
      assert (HJ : 0 < J) by (cbn [prod fold_right] in HpM; unfold J; destruct tr; nia).
      set (c := s_counter st).
      assert (Hc : ~ In c (concat I)) by (intros H; apply Hcnt in H; unfold c in H; lia).
      destruct (Nat.eq_dec b' (label_size I Ts m)) as [Eb|Eb].
      * unfold acc. rewrite (einsum_step_matrix Op Rth I Ts out q c J X' Hw Hnd HoutI Hq Hc WX'); [| fold m; rewrite <- Eb; exact HsX' | exact HJ | exact Hpos].
        cbn [rbind]. fold m.
        set (st' := mkS (s_ins st ++ [[c; m]]) (s_ops st ++ [X']) (set_nth q c out) (S c) (s_dec st)).
        assert (Hw' : wfI (I ++ [[c; m]]) (Ts ++ [X'])) by (apply wfI_snoc; [exact Hw | now rewrite HsX']).
        apply (IH st'); cbn [s_ins s_ops s_out s_counter s_dec st']; try exact Hops'.
        -- exact Hw'.
        -- apply NoDup_set_nth_fresh; [exact Hnd | intros H; apply Hc; now apply HoutI].
        -- intros l0 Hl0. change (seq 0 (ndim T) :: s_ins st ++ [[c; m]]) with (I ++ [[c; m]]). rewrite concat_app. apply in_or_app.
           apply In_set_nth in Hl0. destruct Hl0 as [->|Hl0]; [right; now left | left; now apply HoutI].
        -- intros l0 Hl0. change (seq 0 (ndim T) :: s_ins st ++ [[c; m]]) with (I ++ [[c; m]]) in Hl0. rewrite concat_app in Hl0. apply in_app_or in Hl0.
           destruct Hl0 as [Hl0|Hl0]; [apply Hcnt in Hl0; fold c in Hl0; lia|]. cbn [concat app] in Hl0.
           destruct Hl0 as [<-|[<-|[]]]; [lia|]. apply Hcnt in HmI. fold c in HmI. lia.
        -- apply prod_pos_Forall. apply Forall_forall. intros x Hx'. apply in_map_iff in Hx'. destruct Hx' as [l0 [<- Hl0]].
           change (seq 0 (ndim T) :: s_ins st ++ [[c; m]]) with (I ++ [[c; m]]). change (T :: s_ops st ++ [X']) with (Ts ++ [X']).
           apply In_set_nth in Hl0. destruct Hl0 as [->|Hl0].
           ++ rewrite label_size_app_new by assumption. unfold label_size. cbn [combine map concat fst snd app]. rewrite HsX'.
              cbn [combine find fst app]. rewrite Nat.eqb_refl. exact HJ.
           ++ rewrite label_size_app_old by (try exact Hw; now apply HoutI). rewrite Forall_forall in Hposall. apply Hposall. now apply in_map.
        -- change (seq 0 (ndim T) :: s_ins st ++ [[c; m]]) with (I ++ [[c; m]]). change (T :: s_ops st ++ [X']) with (Ts ++ [X']).
           apply sizes_ok_snoc; [exact Hw | exact Hsok | now rewrite HsX'|]. intros k Hk. cbn [length] in Hk. rewrite HsX'.
           destruct k as [|[|k]]; [| |lia]; cbn [nth].
           ++ rewrite label_size_app_new by assumption. unfold label_size. cbn [combine map concat fst snd app]. rewrite HsX'.
              cbn [combine find fst app]. now rewrite Nat.eqb_refl.
           ++ rewrite label_size_app_old by assumption. exact Eb.
      * assert (Ecore : mode_dot Op acc X' q false = Err).
        { unfold mode_dot. rewrite HsX', Hszq. apply Nat.eqb_neq in Eb. rewrite Eb, andb_false_r. reflexivity. }
        rewrite Ecore. cbn [rbind]. symmetry. fold m. fold c. apply (bad_persists T tr l); cbn [s_ins s_ops].
        -- change (seq 0 (ndim T) :: s_ins st ++ [[c; m]]) with (I ++ [[c; m]]). change (T :: s_ops st ++ [X']) with (Ts ++ [X']).
           apply wfI_snoc; [exact Hw | now rewrite HsX'].
        -- change (seq 0 (ndim T) :: s_ins st ++ [[c; m]]) with (I ++ [[c; m]]). change (T :: s_ops st ++ [X']) with (Ts ++ [X']).
           apply (sizes_bad_new I Ts [c; m] X' 1); [exact Hw | now rewrite HsX' | cbn; lia | exact HmI | rewrite HsX'; exact Eb].
    + (* rank >= 3 *)
      rewrite (mode_dot_bad_rank acc X' q false) by (unfold X'; rewrite opnd_rank, Es; cbn; lia). cbn [rbind].
      unfold ndim. rewrite Es. reflexivity.
Qed.


Lemma In_insert_sorted_z (x y : @ztriple F) : forall l, In y (insert_sorted_z x l) -> y = x \/ In y l.
Proof.
  induction l as [|a l IH]; cbn [insert_sorted_z]; [intros [<-|[]]; now left|].
  destruct (zt_mode x <=? zt_mode a)%Z; cbn [In]; [intros [<-|H]; tauto|]. intros [<-|H]; [tauto|]. destruct (IH H); tauto.
Qed.
Lemma In_sort_by_mode_z (y : @ztriple F) : forall l, In y (sort_by_mode_z l) -> In y l.
Proof.
  induction l as [|x l IH]; [intros []|]. unfold sort_by_mode_z. cbn [fold_right]. intros H.
  apply In_insert_sorted_z in H. destruct H as [->|H]; [now left | right; now apply IH].
Qed.

(* core = einsum for arbitrary Python mode lists *)
Theorem multi_mode_dot_z_backends_agree_any (T : tensor F) (Ms : list (tensor F)) (ms : list Z) (skip : option nat) (tr : bool) :
  wf T -> 0 < prod (shape T) -> (forall M, In M Ms -> wf M /\ 0 < prod (shape M)) ->
  multi_mode_dot_z Op T Ms ms skip tr = multi_mode_dot_e_z Op T Ms ms skip tr.
Proof.
  intros W Hpos HMs. unfold multi_mode_dot_z, multi_mode_dot_e_z. cbv zeta.
  rewrite mmd_loop_z_filter_skip, mmd_e_loop_z_filter_skip.
  set (L := filter (fun x => negb (is_skip skip (snd x))) (sort_by_mode_z (zip3z Ms (map (norm_mode (ndim T)) ms)))).
  set (order := ndim T). set (st0 := mkS [] [] (seq 0 order) (order + 1) 0).
  rewrite <- (einsum_id Op Rth T W) at 1. fold order.
  assert (Hsz : forall l, l < order -> label_size [seq 0 order] [T] l = nth l (shape T) 0).
  { intros l Hl. unfold label_size. cbn [combine map concat fst snd]. unfold order, ndim.
    rewrite (find_combine_seq _ 0) by (fold (ndim T); fold order; lia). cbn [snd]. now rewrite Nat.sub_0_r. }
  change 0%Z with (Z.of_nat (s_dec st0)).
  apply (loops_agree_any T tr L st0); cbn [s_ins s_ops s_out s_counter s_dec st0]; fold order.
  - intros x Hx. apply HMs. unfold L in Hx. apply filter_In in Hx. destruct Hx as [Hx _]. apply In_sort_by_mode_z in Hx.
    destruct x as [[M z] i]. unfold zip3z in Hx. apply in_combine_l in Hx. apply in_combine_l in Hx. exact Hx.
  - constructor; [now rewrite seq_length | constructor].
  - apply seq_NoDup.
  - intros l Hl. cbn [concat]. now rewrite app_nil_r.
  - intros l Hl. cbn [concat] in Hl. rewrite app_nil_r in Hl. apply in_seq in Hl. lia.
  - assert (E : map (label_size [seq 0 order] [T]) (seq 0 order) = shape T); [|now rewrite E].
    apply nth_ext with (d := 0) (d' := 0); [now rewrite map_length, seq_length|]. intros j Hj. rewrite map_length, seq_length in Hj.
    rewrite (nth_map' _ _ _ 0) by (now rewrite seq_length). rewrite seq_nth by exact Hj. now apply Hsz.
  - unfold einsum_sizes_ok. cbn [combine forallb fst snd]. rewrite andb_true_r. apply andb_true_iff. split; [apply Nat.eqb_eq; now rewrite seq_length|].
    apply forallb_forall. intros [l sz] Hq. cbn [fst snd]. destruct (In_nth _ _ (0, 0) Hq) as [k [Hk Ek]].
    rewrite combine_length, seq_length in Hk. rewrite combine_nth in Ek by (now rewrite seq_length). injection Ek as <- <-.
    rewrite seq_nth by (unfold order, ndim; lia). apply Nat.eqb_eq. symmetry. apply Hsz. unfold order, ndim. lia.
Qed.

End P.

(* non-vacuity: a mode named three times (vector, matrix, vector), a negative spelling, transpose *)
Example multi_mode_dot_any_modes_nonvacuous :
  let T : tensor GI := mk [2; 2] [(1, 1); (0, 2); (-1, 0); (3, -1)]%Z in
  let v : tensor GI := mk [2] [(1, 0); (0, 1)]%Z in
  let M : tensor GI := mk [2; 3] [(1, 0); (0, 1); (2, 0); (0, -1); (1, 1); (0, 0)]%Z in
  let u : tensor GI := mk [3] [(1, 0); (2, 0); (0, 1)]%Z in
  wf T /\ 0 < prod (shape T) /\ (forall X, In X [M; u; v] -> wf X /\ 0 < prod (shape X)) /\
  multi_mode_dot_z GR T [M; u; v] [1; -1; 0]%Z None true = multi_mode_dot_e_z GR T [M; u; v] [1; -1; 0]%Z None true /\
  exists R, multi_mode_dot_e_z GR T [M; u; v] [1; -1; 0]%Z None true = Ok R.
Proof.
  cbv zeta. split; [vm_compute; reflexivity|]. split; [vm_compute; lia|].
  split; [intros X [<-|[<-|[<-|[]]]]; split; vm_compute; try reflexivity; lia|].
  split; [vm_compute; reflexivity|]. eexists. vm_compute. reflexivity.
Qed.
