(* NumPy's broadcasting multiply as a LITERAL primitive (two arrays of the same rank, the form every routine of core_tenalg reaches
   after its reshapes) and index lemmas: the reshape-then-multiply idioms of outer, batched_outer and khatri_rao (weights row,
   mask column) are the model operations outer2 / bouter2 / apply_w / apply_mask of Model/Tenalg.v, for all shapes. *)
From Coq Require Import List Arith ZArith Lia Bool.
From TLV Require Import Base.Shape Base.PyList Base.Tensor Base.BigSum Model.Base Proofs.BaseProofs Model.Tenalg Proofs.TenalgProofsSrc.
Import ListNotations.

(* shape of a * b for two shapes of the same length: axes agree or one of them has size 1 *)
Fixpoint bcast_shape (s1 s2 : list nat) : option (list nat) :=
  match s1, s2 with
  | [], [] => Some []
  | a :: r1, b :: r2 =>
      match bcast_shape r1 r2 with
      | Some r => if a =? b then Some (a :: r) else if a =? 1 then Some (b :: r) else if b =? 1 then Some (a :: r) else None
      | None => None
      end
  | _, _ => None
  end.
(* the index an operand of shape s is read at: its size-1 axes are read at 0 *)
Fixpoint clamp (s idx : list nat) : list nat :=
  match s, idx with
  | a :: s', i :: idx' => (if a =? 1 then 0 else i) :: clamp s' idx'
  | _, _ => []
  end.

Section B.
Context {F : Type} (Op : rops F).
Notation d := (r0 Op).

Definition bcast_mul (A B : tensor F) : res (tensor F) :=
  match bcast_shape (shape A) (shape B) with
  | Some s => Ok (tabulate s (fun idx => rmul Op (get d A (clamp (shape A) idx)) (get d B (clamp (shape B) idx))))
  | None => Err
  end.

Lemma tabulate_ext' s (f g : list nat -> F) : (forall idx, inb s idx -> f idx = g idx) -> tabulate s f = tabulate s g.
Proof.
  intros H. unfold tabulate. f_equal. apply map_ext_in. intros k Hk. apply in_seq in Hk. apply H. apply unravel_inb. lia.
Qed.

Lemma clamp_inb s : forall idx, inb s idx -> clamp s idx = idx.
Proof.
  induction s as [|a s IH]; intros [|i idx]; simpl; try tauto. intros [H1 H2]. rewrite (IH _ H2).
  destruct (a =? 1) eqn:E; [apply Nat.eqb_eq in E; f_equal; lia | reflexivity].
Qed.
Lemma clamp_app s1 : forall s2 i1 i2, length i1 = length s1 -> clamp (s1 ++ s2) (i1 ++ i2) = clamp s1 i1 ++ clamp s2 i2.
Proof.
  induction s1 as [|a s1 IH]; intros s2 [|i i1] i2 Hl; simpl in *; try discriminate; [reflexivity|].
  injection Hl as Hl. now rewrite (IH _ _ _ Hl).
Qed.
Lemma clamp_ones n : forall idx, length idx = n -> clamp (repeat 1 n) idx = repeat 0 n.
Proof. induction n as [|n IH]; intros [|i idx] Hl; simpl in *; try discriminate; [reflexivity|]. injection Hl as Hl. now rewrite (IH _ Hl). Qed.
Lemma ravel_ones n : ravel (repeat 1 n) (repeat 0 n) = 0.
Proof. induction n; simpl; [reflexivity | lia]. Qed.
Lemma prod_ones n : prod (repeat 1 n) = 1.
Proof. induction n; simpl; [reflexivity | lia]. Qed.

Lemma bcast_shape_ones_l s : bcast_shape (repeat 1 (length s)) s = Some s.
Proof. induction s as [|a s IH]; simpl; [reflexivity|]. rewrite IH. destruct a as [|[|a]]; reflexivity. Qed.
Lemma bcast_shape_outer s1 s2 : bcast_shape (s1 ++ repeat 1 (length s2)) (repeat 1 (length s1) ++ s2) = Some (s1 ++ s2).
Proof.
  induction s1 as [|a s1 IH]; simpl.
  - induction s2 as [|b s2 IH]; simpl; [reflexivity|]. rewrite IH. destruct b as [|[|b]]; reflexivity.
  - rewrite IH. destruct (a =? 1) eqn:E; reflexivity.
Qed.

(* tl.reshape(a, sa + (1,) * nb) * tl.reshape(b, (1,) * na + sb) is outer2 a b: the step of core_tenalg.outer *)
Theorem outer_step_is_broadcast (A B : tensor F) :
  rbind (reshape_spec (map Some (shape A ++ repeat 1 (ndim B))) A) (fun A' =>
  rbind (reshape_spec (map Some (repeat 1 (ndim A) ++ shape B)) B) (fun B' => bcast_mul A' B')) = Ok (outer2 Op A B).
Proof.
  rewrite reshape_spec_all_some by (rewrite prod_app, prod_ones; lia). cbn [rbind].
  rewrite reshape_spec_all_some by (rewrite prod_app, prod_ones; lia). cbn [rbind].
  unfold bcast_mul, reshape, ndim. cbn [shape]. rewrite bcast_shape_outer. f_equal. unfold outer2, ndim.
  apply tabulate_ext'. intros idx Hi.
  set (na := length (shape A)).
  assert (Hidx : idx = firstn na idx ++ skipn na idx) by (symmetry; apply firstn_skipn).
  assert (Hl : length (firstn na idx) = na).
  { rewrite firstn_length, (inb_length _ _ Hi), app_length. lia. }
  rewrite Hidx in Hi. destruct (inb_app_inv _ _ _ _ Hl Hi) as [H1 H2].
  assert (Hl2 : length (skipn na idx) = length (shape B)) by (apply inb_length; exact H2).
  rewrite Hidx at 1 2. f_equal.
  - unfold get. cbn [shape data]. f_equal.
    rewrite (clamp_app _ _ _ _ Hl), (clamp_inb _ _ H1), (clamp_ones _ _ Hl2), (ravel_app _ _ _ _ Hl), prod_ones, ravel_ones. lia.
  - unfold get. cbn [shape data]. f_equal.
    assert (Hl' : length (firstn na idx) = length (repeat 1 na)) by (now rewrite repeat_length).
    rewrite (clamp_app _ _ _ _ Hl'), (clamp_ones _ _ Hl), (clamp_inb _ _ H2).
    assert (Hl'' : length (repeat 0 na) = length (repeat 1 na)) by (now rewrite !repeat_length).
    rewrite (ravel_app _ _ _ _ Hl''), ravel_ones. lia.
Qed.

(* tl.reshape(res, shape_res + (1,) * size) * tl.reshape(t, (n,) + (1,) * size_res + shape[1:]) with size = ndim t - 1,
   size_res = ndim res - 1 and equal batch sizes n is bouter2 res t: the step of core_tenalg.batched_outer *)
Lemma bcast_shape_same_head n r1 r2 r : bcast_shape r1 r2 = Some r -> bcast_shape (n :: r1) (n :: r2) = Some (n :: r).
Proof. intros H. simpl. rewrite H, Nat.eqb_refl. reflexivity. Qed.
Theorem batched_outer_step_is_broadcast (A B : tensor F) (n : nat) (ra rb : list nat) :
  shape A = n :: ra -> shape B = n :: rb ->
  rbind (reshape_spec (map Some (shape A ++ repeat 1 (ndim B - 1))) A) (fun A' =>
  rbind (reshape_spec (map Some ([n] ++ repeat 1 (ndim A - 1) ++ tl (shape B))) B) (fun B' => bcast_mul A' B')) = Ok (bouter2 Op A B).
Proof.
  intros HA HB. unfold ndim. rewrite HA, HB. cbn [length tl Nat.sub app]. rewrite !Nat.sub_0_r.
  rewrite reshape_spec_all_some by (rewrite HA; change (n :: ra ++ repeat 1 (length rb)) with ((n :: ra) ++ repeat 1 (length rb)); rewrite prod_app, prod_ones; lia).
  cbn [rbind].
  rewrite reshape_spec_all_some by (rewrite HB; cbn [prod fold_right]; change (fold_right Nat.mul 1) with prod; rewrite prod_app, prod_ones; lia).
  cbn [rbind]. unfold bcast_mul, reshape. cbn [shape].
  rewrite (bcast_shape_same_head n _ _ _ (bcast_shape_outer ra rb)). f_equal. unfold bouter2, ndim. rewrite HA, HB. cbn [tl app length].
  apply tabulate_ext'. intros idx Hi.
  destruct idx as [|b idx]; [destruct Hi|]. cbn [inb] in Hi. destruct Hi as [Hb Hi].
  set (na := length ra).
  assert (Hidx : idx = firstn na idx ++ skipn na idx) by (symmetry; apply firstn_skipn).
  assert (Hl : length (firstn na idx) = na).
  { rewrite firstn_length, (inb_length _ _ Hi), app_length. lia. }
  rewrite Hidx in Hi. destruct (inb_app_inv _ _ _ _ Hl Hi) as [H1 H2].
  assert (Hl2 : length (skipn na idx) = length rb) by (apply inb_length; exact H2).
  cbn [firstn skipn nth]. fold na. f_equal.
  - unfold get. cbn [shape data]. f_equal. rewrite HA. rewrite Hidx at 1. cbn [clamp ravel].
    rewrite (clamp_app _ _ _ _ Hl), (clamp_inb _ _ H1), (clamp_ones _ _ Hl2), (ravel_app _ _ _ _ Hl), prod_app, prod_ones, ravel_ones.
    assert (Hb' : (if n =? 1 then 0 else b) = b) by (destruct (n =? 1) eqn:E; [apply Nat.eqb_eq in E; lia | reflexivity]).
    rewrite Hb'. lia.
  - unfold get. cbn [shape data]. f_equal. rewrite HB. rewrite Hidx at 1. cbn [clamp ravel].
    assert (Hl' : length (firstn na idx) = length (repeat 1 na)) by (now rewrite repeat_length).
    rewrite (clamp_app _ _ _ _ Hl'), (clamp_ones _ _ Hl), (clamp_inb _ _ H2).
    assert (Hl'' : length (repeat 0 na) = length (repeat 1 na)) by (now rewrite !repeat_length).
    rewrite (ravel_app _ _ _ _ Hl''), ravel_ones, prod_app, prod_ones.
    assert (Hb' : (if n =? 1 then 0 else b) = b) by (destruct (n =? 1) eqn:E; [apply Nat.eqb_eq in E; lia | reflexivity]).
    rewrite Hb'. lia.
Qed.

(* ---- khatri_rao's three idioms *)
Lemma if_eq1 (n i : nat) : i < n -> (if n =? 1 then 0 else i) = i.
Proof. intros H. destruct (n =? 1) eqn:E; [apply Nat.eqb_eq in E; lia | reflexivity]. Qed.

(* res * T.reshape(weights, (1, -1)) for a 2-D res with R columns and weights with L entries is the model's apply_w, except in the
   degenerate case R = 1 < L (NumPy broadcasts res to L columns; the model rejects - excluded by the hypothesis) *)
Theorem weights_row_is_broadcast (M w : tensor F) (n R : nat) :
  shape M = [n; R] -> (R = 1 -> prod (shape w) = 1) ->
  rbind (reshape_spec [Some 1; None] w) (fun w' => bcast_mul M w') = apply_w Op (Some w) M.
Proof.
  intros HM Hdeg. set (L := prod (shape w)) in *.
  pose proof (reshape_spec_one_none w [1] []) as Hr. cbv zeta in Hr. cbn [map app prod fold_right] in Hr.
  rewrite Hr by (try lia; apply Nat.mod_1_r). clear Hr. cbn [rbind]. fold L. rewrite Nat.div_1_r.
  unfold bcast_mul, reshape, apply_w, ncols. cbn [shape]. rewrite HM. cbn [bcast_shape nth]. fold L.
  assert (Hn : (if n =? 1 then Some [n; R] else if n =? 1 then Some [1; R] else if 1 =? 1 then Some [n; R] else None) = Some [n; R])
    by (destruct (n =? 1); reflexivity).
  assert (Hn' : forall x, (if n =? 1 then Some [n; x] else if n =? 1 then Some [1; x] else if 1 =? 1 then Some [n; x] else None) = Some [n; x])
    by (intros x; destruct (n =? 1); reflexivity).
  rewrite (Nat.eqb_sym L R).
  destruct (R =? L) eqn:E1.
  - apply Nat.eqb_eq in E1. rewrite Hn'. f_equal. unfold scale_cols. rewrite HM. apply tabulate_ext'. intros idx Hi.
    destruct idx as [|i [|j [|? ?]]]; cbn [inb] in Hi; try tauto. destruct Hi as [Hi [Hj _]].
    cbn [clamp nth]. rewrite (if_eq1 n i Hi), (if_eq1 R j Hj). f_equal.
    unfold get. cbn [shape data ravel prod fold_right]. f_equal. change (1 =? 1) with true. cbv iota. rewrite <- E1, (if_eq1 R j Hj). lia.
  - destruct (R =? 1) eqn:E2.
    + apply Nat.eqb_eq in E2. apply Nat.eqb_neq in E1. specialize (Hdeg E2). lia.
    + destruct (L =? 1) eqn:E3; [|destruct (n =? 1); reflexivity].
      rewrite Hn'. f_equal. unfold scale_all. rewrite HM. apply tabulate_ext'. intros idx Hi.
      destruct idx as [|i [|j [|? ?]]]; cbn [inb] in Hi; try tauto. destruct Hi as [Hi [Hj _]].
      cbn [clamp]. rewrite (if_eq1 n i Hi), E2, E3. change (1 =? 1) with true. cbv iota. f_equal; try (unfold get; cbn [shape data ravel prod fold_right]; f_equal; lia).
Qed.

(* res * T.reshape(mask, (-1, 1)): the model's apply_mask, except in the degenerate case of a single row and a longer mask *)
Theorem mask_column_is_broadcast (M m : tensor F) (n R : nat) :
  shape M = [n; R] -> (n = 1 -> prod (shape m) = 1) ->
  rbind (reshape_spec [None; Some 1] m) (fun m' => bcast_mul M m') = apply_mask Op (Some m) M.
Proof.
  intros HM Hdeg. set (L := prod (shape m)) in *.
  pose proof (reshape_spec_one_none m [] [1]) as Hr. cbv zeta in Hr. cbn [map app prod fold_right] in Hr.
  rewrite Hr by (try lia; apply Nat.mod_1_r). clear Hr. cbn [rbind]. fold L. rewrite Nat.div_1_r.
  unfold bcast_mul, reshape, apply_mask, nrows. cbn [shape]. rewrite HM. cbn [bcast_shape nth]. fold L.
  assert (HR : (if R =? 1 then Some [R] else if R =? 1 then Some [1] else if 1 =? 1 then Some [R] else None) = Some [R])
    by (destruct (R =? 1); reflexivity).
  rewrite HR. rewrite (Nat.eqb_sym L n).
  destruct (n =? L) eqn:E1.
  - apply Nat.eqb_eq in E1. f_equal. unfold scale_rows. rewrite HM. apply tabulate_ext'. intros idx Hi.
    destruct idx as [|i [|j [|? ?]]]; cbn [inb] in Hi; try tauto. destruct Hi as [Hi [Hj _]].
    cbn [clamp nth]. rewrite (if_eq1 n i Hi), (if_eq1 R j Hj). f_equal.
    unfold get. cbn [shape data ravel prod fold_right]. f_equal. change (1 =? 1) with true. cbv iota. rewrite <- E1, (if_eq1 n i Hi). lia.
  - destruct (n =? 1) eqn:E2.
    + apply Nat.eqb_eq in E2. apply Nat.eqb_neq in E1. specialize (Hdeg E2). lia.
    + destruct (L =? 1) eqn:E3; [|reflexivity].
      f_equal. unfold scale_all. rewrite HM. apply tabulate_ext'. intros idx Hi.
      destruct idx as [|i [|j [|? ?]]]; cbn [inb] in Hi; try tauto. destruct Hi as [Hi [Hj _]].
      cbn [clamp]. rewrite (if_eq1 R j Hj), E2, E3. change (1 =? 1) with true. cbv iota. f_equal; try (unfold get; cbn [shape data ravel prod fold_right]; f_equal; lia).
Qed.

(* T.reshape(T.reshape(res, (s1, 1, s2)) * T.reshape(e, (1, s3, s4)), (-1, n_columns)) is the model's kr_step *)
Theorem kr_block_is_broadcast (A B : tensor F) (a b c : nat) :
  shape A = [a; c] -> shape B = [b; c] -> 0 < c ->
  rbind (reshape_spec [Some a; Some 1; Some c] A) (fun A' =>
  rbind (reshape_spec [Some 1; Some b; Some c] B) (fun B' =>
  rbind (bcast_mul A' B') (fun P => reshape_spec [None; Some c] P))) = Ok (kr_step Op A B).
Proof.
  intros HA HB Hc.
  change [Some a; Some 1; Some c] with (map Some [a; 1; c]). change [Some 1; Some b; Some c] with (map Some [1; b; c]).
  rewrite reshape_spec_all_some by (rewrite HA; cbn [prod fold_right]; lia). cbn [rbind].
  rewrite reshape_spec_all_some by (rewrite HB; cbn [prod fold_right]; lia). cbn [rbind].
  unfold bcast_mul, reshape. cbn [shape bcast_shape]. rewrite !Nat.eqb_refl.
  assert (Hb : (if 1 =? b then Some [1; c] else Some [b; c]) = Some [b; c]).
  { destruct (1 =? b) eqn:E; [apply Nat.eqb_eq in E; subst; reflexivity | reflexivity]. }
  rewrite Hb.
  assert (Ha : (if a =? 1 then Some [a; b; c] else if a =? 1 then Some [1; b; c] else Some [a; b; c]) = Some [a; b; c])
    by (destruct (a =? 1); reflexivity).
  rewrite Ha. cbn [rbind].
  pose proof (reshape_spec_one_none (tabulate [a; b; c] (fun idx => rmul Op (get d (mk [a; 1; c] (data A)) (clamp [a; 1; c] idx))
                                                                        (get d (mk [1; b; c] (data B)) (clamp [1; b; c] idx)))) [] [c]) as Hr.
  cbv zeta in Hr. cbn [map app prod fold_right shape tabulate] in Hr.
  assert (Hp : a * (b * (c * 1)) = (a * b) * (1 * (c * 1))) by lia.
  rewrite Hr by (try lia; rewrite Hp; apply Nat.mod_mul; lia). clear Hr.
  rewrite Hp, Nat.div_mul by lia. f_equal.
  unfold kr_step, nrows, ncols. rewrite HA, HB. cbn [nth]. unfold reshape. f_equal. cbn [data tabulate]. 
  apply map_ext_in. intros k Hk. apply in_seq in Hk.
  assert (Hi : inb [a; b; c] (unravel [a; b; c] k)) by (apply unravel_inb; cbn [prod fold_right] in *; lia).
  destruct (unravel [a; b; c] k) as [|i [|j [|l [|? ?]]]]; cbn [inb] in Hi; try tauto. destruct Hi as [Hi [Hj [Hl _]]].
  cbn [clamp nth]. rewrite (if_eq1 a i Hi), (if_eq1 b j Hj), (if_eq1 c l Hl). rewrite Nat.eqb_refl.
  unfold get. cbn [shape data ravel prod fold_right]. rewrite HA, HB. cbn [ravel prod fold_right]. f_equal; f_equal; lia.
Qed.
End B.

(* ---- vocabulary of the source tie of core outer / batched_outer (harness/props/C02_coretie.py) *)
(* tl.reshape(x, s) for a computed shape s without -1 *)
Definition np_reshape {F} (x : tensor F) (s : list nat) : res (tensor F) := reshape_spec (map Some s) x.

(* for i, x in enumerate(l): (if i: acc = f(acc, x) [may raise] else: acc = x); two book-keeping locals g1(acc), g2(acc) are
   refreshed at the end of every iteration; return acc *)
Lemma fold_first_then_state {A B1 B2 R} (f : A -> A -> res A) (g1 : A -> B1) (g2 : A -> B2)
    (step : option B1 * option B2 * option A -> nat * A -> res (option B1 * option B2 * option A))
    (k : option B1 * option B2 * option A -> res R) (k' : A -> res R) :
  (forall st x, step st (0, x) = Ok (Some (g1 x), Some (g2 x), Some x)) ->
  (forall a i x, step (Some (g1 a), Some (g2 a), Some a) (S i, x) = rbind (f a x) (fun a' => Ok (Some (g1 a'), Some (g2 a'), Some a'))) ->
  (forall b1 b2 o, k (b1, b2, o) = match o with Some a => k' a | None => Err end) ->
  forall l, rbind (fold_res step (py_enumerate l) (None, None, None)) k
          = match l with [] => Err | a :: r => rbind (fold_res f r a) k' end.
Proof.
  intros H0 HS Hk l. destruct l as [|a r]; [cbn; now rewrite Hk|].
  unfold py_enumerate. cbn [length seq combine fold_res]. rewrite H0. cbn [rbind].
  assert (G : forall r j acc, rbind (fold_res step (combine (seq (S j) (length r)) r) (Some (g1 acc), Some (g2 acc), Some acc)) k
                              = rbind (fold_res f r acc) k').
  { clear - HS Hk. induction r as [|x r IH]; intros j acc; cbn [length seq combine fold_res rbind]; [now rewrite Hk|].
    rewrite HS. destruct (f acc x) as [a'|]; cbn [rbind]; [apply IH | reflexivity]. }
  apply G.
Qed.
Lemma fold_first_then_state_inv {A B1 B2 R} (P : A -> Prop) (f : A -> A -> res A) (g1 : A -> B1) (g2 : A -> B2)
    (step : option B1 * option B2 * option A -> nat * A -> res (option B1 * option B2 * option A))
    (k : option B1 * option B2 * option A -> res R) (k' : A -> res R) :
  (forall st x, step st (0, x) = Ok (Some (g1 x), Some (g2 x), Some x)) ->
  (forall a i x, P a -> P x ->
     step (Some (g1 a), Some (g2 a), Some a) (S i, x) = rbind (f a x) (fun a' => Ok (Some (g1 a'), Some (g2 a'), Some a'))) ->
  (forall a x a', P a -> P x -> f a x = Ok a' -> P a') ->
  (forall b1 b2 o, k (b1, b2, o) = match o with Some a => k' a | None => Err end) ->
  forall l, Forall P l -> rbind (fold_res step (py_enumerate l) (None, None, None)) k
          = match l with [] => Err | a :: r => rbind (fold_res f r a) k' end.
Proof.
  intros H0 HS HP Hk l Hl. destruct l as [|a r]; [cbn; now rewrite Hk|].
  unfold py_enumerate. cbn [length seq combine fold_res]. rewrite H0. cbn [rbind].
  inversion Hl as [|? ? Pa Pr]; subst.
  assert (G : forall r, Forall P r -> forall j acc, P acc ->
                rbind (fold_res step (combine (seq (S j) (length r)) r) (Some (g1 acc), Some (g2 acc), Some acc)) k
                = rbind (fold_res f r acc) k').
  { clear - HS HP Hk. induction r as [|x r IH]; intros Hr j acc Pacc; cbn [length seq combine fold_res rbind]; [now rewrite Hk|].
    inversion Hr as [|? ? Px Pr]; subst.
    rewrite (HS _ _ _ Pacc Px). destruct (f acc x) as [a'|] eqn:E; cbn [rbind]; [apply (IH Pr); exact (HP _ _ _ Pacc Px E) | reflexivity]. }
  apply G; assumption.
Qed.
Lemma shape_nonempty {F} (t : tensor F) : shape t <> [] -> exists n r, shape t = n :: r.
Proof. destruct (shape t) as [|n r]; [congruence | intros _; now exists n, r]. Qed.
Lemma fold_res_total {A X} (f : A -> X -> A) (l : list X) : forall a, fold_res (fun a x => Ok (f a x)) l a = Ok (fold_left f l a).
Proof. induction l as [|x l IH]; intros a; cbn [fold_res fold_left rbind]; [reflexivity | apply IH]. Qed.
Lemma rbind_chain2 {A B C D} (r1 : res A) (r2 : res B) (m : A -> B -> res C) (k : C -> res D) (R : C) :
  rbind r1 (fun a => rbind r2 (fun b => m a b)) = Ok R -> rbind r1 (fun a => rbind r2 (fun b => rbind (m a b) k)) = k R.
Proof. destruct r1 as [a|]; [|discriminate]. destruct r2 as [b|]; [|discriminate]. cbn [rbind]. intros H. now rewrite H. Qed.

Example bcast_mul_examples :
  bcast_mul ZR (mk [2; 1] [1; 2]%Z) (mk [1; 3] [1; 10; 100]%Z) = Ok (mk [2; 3] [1; 10; 100; 2; 20; 200]%Z) /\
  bcast_mul ZR (mk [2; 2] [1; 2; 3; 4]%Z) (mk [1; 3] [1; 10; 100]%Z) = Err /\
  rbind (reshape_spec [Some 1; None] (mk [2] [10; 100]%Z)) (fun w' => bcast_mul ZR (mk [2; 2] [1; 2; 3; 4]%Z) w')
    = apply_w ZR (Some (mk [2] [10; 100]%Z)) (mk [2; 2] [1; 2; 3; 4]%Z) /\
  apply_w ZR (Some (mk [2] [10; 100]%Z)) (mk [2; 2] [1; 2; 3; 4]%Z) = Ok (mk [2; 2] [10; 200; 30; 400]%Z).
Proof. repeat split; vm_compute; reflexivity. Qed.
