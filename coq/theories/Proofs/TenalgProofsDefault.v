(* (1) multi_mode_dot called with modes=None: the code sets modes = range(len(matrix_or_vec_list)); the literal Python-int
   routines on that list are the natural-number routines with modes = None (the ones the index-formula theorems are about).
   (2) the scalar-pair, mixed and flat argument forms of tenalg_utils._validate_contraction_modes. *)
From Coq Require Import List Arith ZArith Lia Bool.
From TLV Require Import Base.Shape Base.PyList Base.Tensor Base.BigSum Model.Base Proofs.BaseProofs Model.Tenalg
  Proofs.TenalgProofs Proofs.TenalgProofsSort Proofs.TenalgProofsMulti Proofs.TenalgProofsMultiGen Proofs.TenalgProofsMultiGen2 Proofs.TenalgProofsEinsumMulti Proofs.TenalgProofsMemory Proofs.TenalgProofsValidate Proofs.TenalgProofsNegMulti.
Import ListNotations.

Lemma forall2_seq_index n : forall m p, p + m <= n ->
  Forall2 (fun z k => py_index n z = Some k) (map Z.of_nat (seq p m)) (seq p m).
Proof.
  induction m as [|m IH]; intros p H; cbn [seq map]; constructor.
  - apply py_index_nat. lia.
  - apply IH. lia.
Qed.

Section P.
Context {F : Type} (Op : rops F).

(* non-negative Python modes need no resolution: norm_mode leaves them alone *)
Lemma norm_mode_nonneg order k : norm_mode order (Z.of_nat k) = Z.of_nat k.
Proof.
  unfold norm_mode. assert (E : (Z.of_nat k <? 0)%Z = false) by (apply Z.ltb_ge; lia). rewrite E, andb_false_r. reflexivity.
Qed.
Lemma norm_modes_nonneg order : forall ks, map (norm_mode order) (map Z.of_nat ks) = map Z.of_nat ks.
Proof. induction ks as [|k ks IH]; [reflexivity|]. cbn [map]. now rewrite norm_mode_nonneg, IH. Qed.

(* every list of NON-NEGATIVE modes, in range or not, distinct on the non-skipped operands: the literal Python-int routines are the
   natural-number routines (an out-of-range mode is rejected by both) *)
Theorem multi_mode_dot_z_nonneg (T : tensor F) (Ms : list (tensor F)) (ks : list nat) (skip : option nat) (tr : bool) :
  let L := filter (fun x => negb (is_skip skip (snd x))) (sort_by_mode (zip3 Ms (Some ks))) in
  NoDup (map (@t_mode F) L) ->
  multi_mode_dot_z Op T Ms (map Z.of_nat ks) skip tr = multi_mode_dot Op T Ms (Some ks) skip tr /\
  multi_mode_dot_e_z Op T Ms (map Z.of_nat ks) skip tr = multi_mode_dot_e Op T Ms (Some ks) skip tr.
Proof.
  intros L Hnd.
  assert (HsL : lsorted (@t_mode F) L) by (unfold L; apply lsorted_filter; rewrite sort_by_mode_gsort; apply gsort_sorted).
  split.
  - unfold multi_mode_dot_z, multi_mode_dot. rewrite norm_modes_nonneg, zip3z_lift, sort_by_mode_lift.
    rewrite mmd_loop_z_filter_skip, (mmd_loop_filter_skip_gen Op).
    pose proof (filter_lift (F:=F) (fun i => negb (is_skip skip i)) (sort_by_mode (zip3 Ms (Some ks)))) as FL. cbv beta in FL. fold L in FL |- *.
    rewrite <- (mmd_loop_z_lift Op tr L 0 T HsL Hnd) by (intros; lia). change (Z.of_nat 0) with 0%Z. f_equal. exact FL.
  - unfold multi_mode_dot_e_z, multi_mode_dot_e. cbv zeta.
    rewrite norm_modes_nonneg, zip3z_lift, sort_by_mode_lift.
    rewrite mmd_e_loop_z_filter_skip, (mmd_e_loop_filter_skip Op).
    pose proof (filter_lift (F:=F) (fun i => negb (is_skip skip i)) (sort_by_mode (zip3 Ms (Some ks)))) as FL. cbv beta in FL. fold L in FL |- *.
    rewrite <- (mmd_e_loop_z_lift Op tr (ndim T) L (mkS [] [] (seq 0 (ndim T)) (ndim T + 1) 0) HsL Hnd) by (cbn [s_dec]; intros; lia).
    f_equal. f_equal. exact FL.
Qed.

Theorem multi_mode_dot_default_modes (T : tensor F) (Ms : list (tensor F)) (skip : option nat) (tr : bool) :
  multi_mode_dot_z Op T Ms (map Z.of_nat (seq 0 (length Ms))) skip tr = multi_mode_dot Op T Ms None skip tr /\
  multi_mode_dot_e_z Op T Ms (map Z.of_nat (seq 0 (length Ms))) skip tr = multi_mode_dot_e Op T Ms None skip tr.
Proof.
  change (multi_mode_dot Op T Ms None skip tr) with (multi_mode_dot Op T Ms (Some (seq 0 (length Ms))) skip tr).
  change (multi_mode_dot_e Op T Ms None skip tr) with (multi_mode_dot_e Op T Ms (Some (seq 0 (length Ms))) skip tr).
  apply multi_mode_dot_z_nonneg.
  change (zip3 Ms (Some (seq 0 (length Ms)))) with (zip3 Ms None).
  rewrite sort_by_mode_gsort, zip3_vecL. rewrite (gsort_id _ _ (vecL_sorted Ms 0)).
  apply NoDup_map_filter, vecL_NoDup.
Qed.
End P.

(* ------------------------------------------------------------------ argument forms of _validate_contraction_modes *)
(* a pair of scalars (i, j): mode i of tensor1 with mode j of tensor2, each resolved from the end when negative *)
Theorem validate_contraction_scalar_pair s1 s2 zi zj i j batched :
  py_index (length s1) zi = Some i -> py_index (length s2) zj = Some j -> nth i s1 0 = nth j s2 0 ->
  validate_contraction s1 s2 (MSeq [SInt zi; SInt zj]) batched = Ok ([i], [j]).
Proof.
  intros Hi Hj E. cbn [validate_contraction side_list norm_modes]. rewrite Hi, Hj, E, Nat.eqb_refl. reflexivity.
Qed.
(* a pair whose entries are a scalar or a list: a scalar is the one-entry list *)
Theorem validate_contraction_pair s1 s2 a1 a2 batched :
  validate_contraction s1 s2 (MSeq [a1; a2]) batched = norm_modes s1 s2 (side_list a1) (side_list a2).
Proof. reflexivity. Qed.
(* a flat sequence of ints whose length is not 2: the same modes on both tensors *)
Theorem validate_contraction_flat s1 s2 l zs batched : length l <> 2 -> ints_of l = Some zs ->
  validate_contraction s1 s2 (MSeq l) batched = norm_modes s1 s2 zs zs.
Proof.
  intros Hl E. destruct l as [|a [|b [|c r]]]; cbn [length] in Hl; try lia; cbn [validate_contraction]; now rewrite E.
Qed.
(* ... and a nested list in such a sequence is rejected (shape[[..]] raises TypeError) *)
Theorem validate_contraction_flat_nested s1 s2 l batched : length l <> 2 -> ints_of l = None ->
  validate_contraction s1 s2 (MSeq l) batched = Err.
Proof.
  intros Hl E. destruct l as [|a [|b [|c r]]]; cbn [length] in Hl; try lia; cbn [validate_contraction]; now rewrite E.
Qed.
(* every accepted form returns modes that pass the explicit-list check of the index-formula theorems *)
Theorem validate_contraction_sound s1 s2 a batched m1 m2 :
  validate_contraction s1 s2 a batched = Ok (m1, m2) -> validate_modes s1 s2 m1 m2 = true.
Proof.
  destruct a as [k|l]; cbn [validate_contraction].
  - destruct batched; intros H; exact (proj1 (norm_modes_sound _ _ _ _ _ _ H)).
  - destruct l as [|a1 [|a2 [|a3 r]]].
    + cbn [ints_of]. intros H; exact (proj1 (norm_modes_sound _ _ _ _ _ _ H)).
    + destruct (ints_of [a1]); [|discriminate]. intros H; exact (proj1 (norm_modes_sound _ _ _ _ _ _ H)).
    + intros H; exact (proj1 (norm_modes_sound _ _ _ _ _ _ H)).
    + destruct (ints_of (a1 :: a2 :: a3 :: r)); [|discriminate]. intros H; exact (proj1 (norm_modes_sound _ _ _ _ _ _ H)).
Qed.

Lemma default_modes_nonvacuous :
  let T : tensor Z := mk [2; 3] [1; 2; 3; 4; 5; 6]%Z in let v : tensor Z := mk [2] [1; -1]%Z in
  let M : tensor Z := mk [2; 3] [1; 0; 2; 0; 1; 1]%Z in
  multi_mode_dot_z ZR T [v; M] (map Z.of_nat (seq 0 2)) None false = Ok (mk [2] [-9; -6]%Z) /\
  multi_mode_dot ZR T [v; M] None None false = Ok (mk [2] [-9; -6]%Z) /\
  multi_mode_dot_e ZR T [v; M] None None false = Ok (mk [2] [-9; -6]%Z).
Proof. cbv zeta. repeat split; try reflexivity. Qed.

Lemma validate_forms_nonvacuous :
  validate_contraction [2; 3] [3; 2] (MSeq [SInt (-1); SInt 0])%Z false = Ok ([1], [0]) /\
  validate_contraction [2; 3] [3; 2] (MSeq [SInt 1; SList [0]%Z])%Z true = Ok ([1], [0]) /\
  validate_contraction [2; 3] [2; 3] (MSeq [SInt (-1); SInt 0; SInt (-2)])%Z false = Ok ([1; 0; 0], [1; 0; 0]) /\
  validate_contraction [2; 3] [2; 3] (MSeq [SInt 1; SList [0]%Z; SInt 0])%Z false = Err.
Proof. repeat split; reflexivity. Qed.
