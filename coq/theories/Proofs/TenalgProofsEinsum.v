(* The generic einsum semantics of Model/Tenalg.v and the equation built by einsum_tenalg.mode_dot:
   it computes the textbook mode-k product for every order, hence equals the core backend. *)
From Coq Require Import List Arith ZArith Lia Ring Bool.
From TLV Require Import Base.Shape Base.PyList Base.Tensor Base.BigSum Model.Base Proofs.BaseProofs Model.Tenalg Proofs.TenalgProofs.
Import ListNotations.

(* ---------------------------------------------------------------- label book-keeping (no ring needed) *)
Lemma find_combine_seq {A} (tail : list (nat * A)) (dflt : A) : forall (s : list A) a l, a <= l < a + length s ->
  find (fun p => Nat.eqb (fst p) l) (combine (seq a (length s)) s ++ tail) = Some (l, nth (l - a) s dflt).
Proof.
  induction s as [|x s IH]; intros a l H; simpl in *; [lia|].
  destruct (Nat.eqb_spec a l) as [->|Hne].
  - now rewrite Nat.sub_diag.
  - rewrite IH by lia. destruct (l - a) as [|m] eqn:E; [lia|]. replace (l - S a) with m by lia. reflexivity.
Qed.
Lemma find_combine_seq_none {A} (tail : list (nat * A)) : forall (s : list A) a l, a + length s <= l ->
  find (fun p => Nat.eqb (fst p) l) (combine (seq a (length s)) s ++ tail) = find (fun p => Nat.eqb (fst p) l) tail.
Proof.
  induction s as [|x s IH]; intros a l H; simpl in *; [reflexivity|].
  destruct (Nat.eqb_spec a l); [lia|]. apply IH. lia.
Qed.
Lemma filter_seq_single (P : nat -> bool) : forall n a k, a <= k < a + n ->
  (forall l, a <= l < a + n -> P l = Nat.eqb l k) -> filter P (seq a n) = [k].
Proof.
  induction n; intros a k Hk HP; [lia|]. simpl. rewrite HP by lia.
  destruct (Nat.eqb_spec a k) as [->|Hne].
  - f_equal. clear IHn. assert (H : forall l, S k <= l < S k + n -> P l = false).
    { intros l Hl. rewrite HP by lia. apply Nat.eqb_neq. lia. }
    clear HP Hk. revert H. generalize (S k). induction n; intros b H; simpl; [reflexivity|].
    rewrite H by lia. apply IHn. intros l Hl. apply H. lia.
  - apply IHn; [lia|]. intros l Hl. apply HP. lia.
Qed.

Definition md_out (N k : nat) : list nat := set_nth k (N + 1) (seq 0 N).
Lemma md_out_length N k : length (md_out N k) = N.
Proof. unfold md_out. now rewrite set_nth_length, seq_length. Qed.
Lemma md_out_nth_k N k : k < N -> nth k (md_out N k) 0 = N + 1.
Proof. intros. unfold md_out. apply nth_set_nth_same. now rewrite seq_length. Qed.
Lemma md_out_nth_other N k j : j < N -> j <> k -> nth j (md_out N k) 0 = j.
Proof. intros. unfold md_out. rewrite nth_set_nth_other by assumption. now rewrite seq_nth. Qed.
Lemma NoDup_md_out N k : k < N -> NoDup (md_out N k).
Proof.
  intros Hk. apply (NoDup_nth _ 0). intros i j Hi Hj E. rewrite md_out_length in Hi, Hj.
  destruct (Nat.eq_dec i k) as [->|Hik]; destruct (Nat.eq_dec j k) as [->|Hjk]; auto.
  - rewrite md_out_nth_k, md_out_nth_other in E by assumption. lia.
  - rewrite md_out_nth_other, md_out_nth_k in E by assumption. lia.
  - rewrite !md_out_nth_other in E by assumption. exact E.
Qed.
Lemma memb_md_out N k l : k < N -> l < N -> memb l (md_out N k) = negb (Nat.eqb l k).
Proof.
  intros Hk Hl. destruct (Nat.eqb_spec l k) as [->|Hne]; simpl.
  - destruct (memb k (md_out N k)) eqn:E; [|reflexivity]. apply memb_In in E.
    apply (In_nth _ _ 0) in E. destruct E as [j [Hj E]]. rewrite md_out_length in Hj.
    destruct (Nat.eq_dec j k) as [->|Hjk]; [rewrite md_out_nth_k in E by assumption; lia|].
    rewrite md_out_nth_other in E by assumption. lia.
  - apply memb_In. rewrite <- (md_out_nth_other N k l) by assumption. apply nth_In. now rewrite md_out_length.
Qed.
Lemma memb_md_out_new N k : k < N -> memb (N + 1) (md_out N k) = true.
Proof. intros Hk. apply memb_In. rewrite <- (md_out_nth_k N k Hk). apply nth_In. now rewrite md_out_length. Qed.

Lemma summed_md N k : k < N -> summed_labels [seq 0 N; [N + 1; k]] (md_out N k) = [k].
Proof.
  intros Hk. unfold summed_labels. cbn [concat]. rewrite app_nil_r, filter_app.
  rewrite (filter_seq_single _ N 0 k) by (try lia; intros l Hl; rewrite memb_md_out by lia; now rewrite negb_involutive).
  cbn [filter]. rewrite memb_md_out_new by assumption. rewrite memb_md_out by assumption.
  rewrite Nat.eqb_refl. cbn [negb app dedup filter]. rewrite Nat.eqb_refl. reflexivity.
Qed.

Lemma bind_lookup : forall labels idx e j, NoDup labels -> length idx = length labels -> j < length labels ->
  bind labels idx e (nth j labels 0) = nth j idx 0.
Proof.
  induction labels as [|l ls IH]; intros [|i is_] e j Hnd Hl Hj; simpl in *; try lia.
  inversion Hnd as [|? ? Hnin Hnd']; subst. destruct j as [|j]; unfold upd.
  - now rewrite Nat.eqb_refl.
  - destruct (Nat.eqb_spec (nth j ls 0) l) as [E|E].
    + exfalso. apply Hnin. rewrite <- E. apply nth_In. lia.
    + apply IH; [assumption | lia | lia].
Qed.

Section P.
Context {F : Type} (Op : rops F).
Hypothesis Rth : ring_theory (r0 Op) (r1 Op) (radd Op) (rmul Op) (rsub Op) (ropp Op) (@eq F).
Add Ring Fr3 : Rth.
Notation d := (r0 Op).
Infix "*r" := (rmul Op) (at level 40, left associativity).
Notation bs := (bsum Op).

Lemma label_size_md_old (T M' : tensor F) N k J sk l : length (shape T) = N -> shape M' = [J; sk] -> l < N ->
  label_size [seq 0 N; [N + 1; k]] [T; M'] l = nth l (shape T) 0.
Proof.
  intros HN HM Hl. unfold label_size. cbn [combine map concat fst snd]. rewrite <- HN.
  rewrite (find_combine_seq _ 0) by lia. cbn [snd]. now rewrite Nat.sub_0_r.
Qed.
Lemma label_size_md_new (T M' : tensor F) N k J sk : length (shape T) = N -> shape M' = [J; sk] -> k < N ->
  label_size [seq 0 N; [N + 1; k]] [T; M'] (N + 1) = J.
Proof.
  intros HN HM Hk. unfold label_size. cbn [combine map concat fst snd]. rewrite <- HN at 1.
  rewrite find_combine_seq_none by lia. rewrite HM. cbn [combine app find fst].
  rewrite ?HN, Nat.eqb_refl. reflexivity.
Qed.

(* ================================================================ mode_dot (einsum backend), matrix operand *)
Theorem mode_dot_e_matrix_spec (T M : tensor F) (k : nat) (tr : bool) (a b : nat) :
  wf T -> wf M -> k < ndim T -> 0 < prod (shape T) -> shape M = [a; b] ->
  (if tr then a else b) = nth k (shape T) 0 -> 0 < (if tr then b else a) ->
  exists R, mode_dot_e Op T M k tr = Ok R /\ wf R /\
    shape R = set_nth k (if tr then b else a) (shape T) /\
    forall idx, inb (shape R) idx ->
      get d R idx = bs (nth k (shape T) 0) (fun i => mentry Op M tr (nth k idx 0) i *r get d T (set_nth k i idx)).
Proof.
  intros WT WM Hk Hpos HsM Hdim HJ. unfold ndim in Hk.
  set (M' := if tr then conj_t Op (transpose_rev Op M) else M).
  assert (HsM' : shape M' = [if tr then b else a; nth k (shape T) 0]).
  { unfold M'. destruct tr; [rewrite (shape_conj_transpose Op M a b HsM) | rewrite HsM]; congruence. }
  assert (HM' : forall j i, j < (if tr then b else a) -> i < nth k (shape T) 0 -> get d M' [j; i] = mentry Op M tr j i).
  { intros j i Hj Hi. unfold M', mentry. destruct tr; [|reflexivity].
    apply (get_conj_transpose Op M a b); auto; congruence. }
  set (J := if tr then b else a) in *.
  set (sk := nth k (shape T) 0) in *.
  set (N := length (shape T)) in *.
  assert (Hout : set_nth k (N + 1) (seq 0 N) = md_out N k) by reflexivity.
  set (ins := [seq 0 N; [N + 1; k]]).
  assert (Hsz_old : forall l, l < N -> label_size ins [T; M'] l = nth l (shape T) 0)
    by (intros; eapply label_size_md_old; eauto).
  assert (Hsz_new : label_size ins [T; M'] (N + 1) = J) by (eapply label_size_md_new; eauto).
  assert (Hshape : map (label_size ins [T; M']) (md_out N k) = set_nth k J (shape T)).
  { apply nth_ext with (d := 0) (d' := 0); [now rewrite map_length, md_out_length, set_nth_length|].
    intros j Hj. rewrite map_length, md_out_length in Hj.
    rewrite (nth_map' _ _ _ 0) by (now rewrite md_out_length).
    destruct (Nat.eq_dec j k) as [->|Hjk].
    - rewrite md_out_nth_k by assumption. rewrite Hsz_new. symmetry. apply nth_set_nth_same. exact Hk.
    - rewrite md_out_nth_other by assumption. rewrite Hsz_old by assumption. symmetry. now apply nth_set_nth_other. }
  exists (einsum Op ins (md_out N k) [T; M']).
  split; [|split; [apply wf_tabulate | split; [exact Hshape|]]].
  - unfold mode_dot_e. rewrite HsM. fold N. fold J. fold sk.
    assert (Hc : ((k <? ndim T) && ((if tr then a else b) =? sk)) = true).
    { apply andb_true_iff; split; [apply Nat.ltb_lt; exact Hk | apply Nat.eqb_eq; exact Hdim]. }
    unfold ndim in *. fold N. fold N in Hc. rewrite Hc. fold M'. rewrite seq_nth by exact Hk. reflexivity.
  - intros idx Hi. unfold einsum in *. cbn [shape] in Hi. fold ins. rewrite get_tabulate by exact Hi.
    rewrite Hshape in Hi.
    replace (summed_labels ins (md_out N k)) with [k] by (symmetry; apply summed_md; exact Hk). cbn [map esum]. rewrite Hsz_old by exact Hk. fold sk.
    apply bs_ext. intros v Hv.
    unfold term, ins. cbn [combine map fst snd rprod fold_right].
    set (e0 := bind (md_out N k) idx (fun _ => 0)).
    assert (Hlen : length idx = N) by (rewrite (inb_length _ _ Hi); apply set_nth_length).
    assert (HND := NoDup_md_out N k Hk).
    assert (E1 : upd e0 k v (N + 1) = nth k idx 0).
    { unfold upd. destruct (Nat.eqb_spec (N + 1) k); [lia|]. unfold e0.
      pose proof (bind_lookup (md_out N k) idx (fun _ => 0) k HND) as B.
      rewrite md_out_length, md_out_nth_k in B by assumption. apply B; lia. }
    assert (E2 : upd e0 k v k = v) by (unfold upd; now rewrite Nat.eqb_refl).
    assert (E3 : map (upd e0 k v) (seq 0 N) = set_nth k v idx).
    { apply nth_ext with (d := 0) (d' := 0); [now rewrite map_length, seq_length, set_nth_length|].
      intros j Hj. rewrite map_length, seq_length in Hj.
      rewrite (nth_map' _ _ _ 0) by (now rewrite seq_length). rewrite seq_nth by lia. cbn [Nat.add].
      destruct (Nat.eq_dec j k) as [->|Hjk].
      - rewrite E2. symmetry. apply nth_set_nth_same. lia.
      - rewrite nth_set_nth_other by lia. unfold upd. destruct (Nat.eqb_spec j k); [lia|]. unfold e0.
        pose proof (bind_lookup (md_out N k) idx (fun _ => 0) j HND) as B.
        rewrite md_out_length, md_out_nth_other in B by assumption. apply B; lia. }
    rewrite E1, E2, E3.
    assert (Hj : nth k idx 0 < J) by (eapply nth_inb_set_nth; eauto).
    rewrite HM' by assumption. ring.
Qed.

(* the two backends compute the same tensor *)
Corollary mode_dot_backends_agree (T M : tensor F) (k : nat) (tr : bool) (a b : nat) :
  wf T -> wf M -> k < ndim T -> 0 < prod (shape T) -> shape M = [a; b] ->
  (if tr then a else b) = nth k (shape T) 0 -> 0 < (if tr then b else a) ->
  mode_dot Op T M k tr = mode_dot_e Op T M k tr.
Proof.
  intros WT WM Hk Hpos HsM Hdim HJ.
  destruct (mode_dot_matrix_spec Op T M k tr a b WT WM Hk Hpos HsM Hdim HJ) as [R1 [E1 [W1 [S1 G1]]]].
  destruct (mode_dot_e_matrix_spec T M k tr a b WT WM Hk Hpos HsM Hdim HJ) as [R2 [E2 [W2 [S2 G2]]]].
  rewrite E1, E2. f_equal. apply tensor_ext with (d := d); auto; [congruence|].
  intros idx Hi. rewrite G1 by exact Hi. rewrite G2 by (rewrite S2, <- S1; exact Hi). reflexivity.
Qed.

End P.
