(* Generic facts about the label-level einsum semantics of Model/Tenalg.v (a sum over NoDup labels is a sum over the
   index space of their sizes) and the equation built by einsum_tenalg.inner: it is the textbook generalised inner
   product for every n_modes >= 0, hence equals the core backend. *)
From Coq Require Import List Arith ZArith Lia Ring Bool.
From TLV Require Import Base.Shape Base.PyList Base.Tensor Base.BigSum Model.Base Proofs.BaseProofs Model.Tenalg
  Proofs.TenalgProofs Proofs.TenalgProofsEinsum Proofs.TenalgProofsInner.
Import ListNotations.

(* ---------------------------------------------------------------- environments *)
Lemma bind_not_in : forall labels idx e l, ~ In l labels -> bind labels idx e l = e l.
Proof.
  induction labels as [|a ls IH]; intros [|i idx] e l H; simpl; auto.
  unfold upd. destruct (Nat.eqb_spec l a) as [->|Hne]; [exfalso; apply H; now left|].
  apply IH. intros H'. apply H. now right.
Qed.
Lemma bind_upd_comm : forall labels idx e l v x, ~ In l labels ->
  bind labels idx (upd e l v) x = upd (bind labels idx e) l v x.
Proof.
  induction labels as [|a ls IH]; intros [|i idx] e l v x H; simpl; auto.
  assert (Hal : a <> l) by (intros ->; apply H; now left).
  assert (Hl : ~ In l ls) by (intros H'; apply H; now right).
  unfold upd at 1 3. destruct (Nat.eqb_spec x a) as [->|Hxa].
  - unfold upd. destruct (Nat.eqb_spec a l); [contradiction|]. now rewrite Nat.eqb_refl.
  - rewrite IH by exact Hl. unfold upd. destruct (Nat.eqb_spec x l); [reflexivity|].
    destruct (Nat.eqb_spec x a); [contradiction | reflexivity].
Qed.
(* a label of the (NoDup) bound list looks up its position, whatever is bound underneath *)
Lemma bind_lookup_pos labels idx e j : NoDup labels -> length idx = length labels -> j < length labels ->
  bind labels idx e (nth j labels 0) = nth j idx 0.
Proof. intros. now apply bind_lookup. Qed.

(* ---------------------------------------------------------------- dedup *)
Lemma filter_comm {A} (P Q : A -> bool) l : filter P (filter Q l) = filter Q (filter P l).
Proof. induction l as [|x l IH]; simpl; auto. destruct (P x) eqn:EP, (Q x) eqn:EQ; simpl; rewrite ?EP, ?EQ, IH; reflexivity. Qed.
Lemma filter_absorb {A} (P Q : A -> bool) l : (forall y, P y = true -> Q y = true) -> filter P (filter Q l) = filter P l.
Proof.
  intros H. induction l as [|x l IH]; simpl; auto. destruct (Q x) eqn:EQ; simpl; rewrite IH; [reflexivity|].
  destruct (P x) eqn:EP; [apply H in EP; congruence | reflexivity].
Qed.
Lemma dedup_filter_comm (P : nat -> bool) l : dedup (filter P l) = filter P (dedup l).
Proof.
  induction l as [|x l IH]; [reflexivity|]. cbn [filter dedup]. destruct (P x) eqn:EP.
  - cbn [dedup]. rewrite IH. f_equal. apply filter_comm.
  - rewrite IH. symmetry. apply filter_absorb. intros y Hy. destruct (Nat.eqb_spec y x); [subst; congruence | reflexivity].
Qed.
Lemma filter_id_notin x l : ~ In x l -> filter (fun y => negb (Nat.eqb y x)) l = l.
Proof.
  induction l as [|a l IH]; intros H; simpl; auto. destruct (Nat.eqb_spec a x) as [->|Hne]; [exfalso; apply H; now left|].
  simpl. f_equal. apply IH. intros H'. apply H. now right.
Qed.
Lemma dedup_app_sub : forall l1 l2, NoDup l1 -> (forall x, In x l2 -> In x l1) -> dedup (l1 ++ l2) = l1.
Proof.
  induction l1 as [|x l1 IH]; intros l2 Hnd Hsub.
  - destruct l2 as [|y l2]; [reflexivity|]. exfalso. apply (Hsub y). now left.
  - inversion Hnd as [|? ? Hnin Hnd']; subst. cbn [app dedup]. f_equal.
    rewrite <- dedup_filter_comm, filter_app, (filter_id_notin x l1 Hnin).
    apply IH; [exact Hnd'|]. intros y Hy. apply filter_In in Hy. destruct Hy as [Hy Hne].
    destruct (Hsub y Hy) as [->|H]; [|exact H]. rewrite Nat.eqb_refl in Hne. discriminate.
Qed.

Lemma filter_seq_all (P : nat -> bool) : forall n a, (forall l, a <= l < a + n -> P l = true) -> filter P (seq a n) = seq a n.
Proof. induction n; intros a H; simpl; auto. rewrite H by lia. f_equal. apply IHn. intros; apply H; lia. Qed.
Lemma filter_seq_none (P : nat -> bool) : forall n a, (forall l, a <= l < a + n -> P l = false) -> filter P (seq a n) = [].
Proof. induction n; intros a H; simpl; auto. rewrite H by lia. apply IHn. intros; apply H; lia. Qed.

Lemma firstn_seq_add : forall n a m, firstn n (seq a (n + m)) = seq a n.
Proof. induction n; intros a m; simpl; [reflexivity | now rewrite IHn]. Qed.
Lemma skipn_seq_add : forall n a m, skipn n (seq a (n + m)) = seq (a + n) m.
Proof. induction n; intros a m; simpl; [now rewrite Nat.add_0_r | rewrite IHn; f_equal; lia]. Qed.
Lemma NoDup_two_seq : forall n a b m, a + n <= b -> NoDup (seq a n ++ seq b m).
Proof.
  induction n; intros a b m H; simpl; [apply seq_NoDup|]. constructor.
  - intros Hin. apply in_app_or in Hin. destruct Hin as [Hin|Hin]; apply in_seq in Hin; lia.
  - apply IHn. lia.
Qed.

Section P.
Context {F : Type} (Op : rops F).
Hypothesis Rth : ring_theory (r0 Op) (r1 Op) (radd Op) (rmul Op) (rsub Op) (ropp Op) (@eq F).
Add Ring Fr9 : Rth.
Notation d := (r0 Op).
Infix "*r" := (rmul Op) (at level 40, left associativity).
Notation bs := (bsum Op).

(* the nested sums of einsum over NoDup labels = one sum over the index space of their sizes *)
Theorem esum_ssum : forall (ls : list (nat * nat)) (e : env) (f : env -> F),
  (forall e1 e2, (forall l, e1 l = e2 l) -> f e1 = f e2) -> NoDup (map fst ls) ->
  esum Op ls e f = ssum Op (map snd ls) (fun c => f (bind (map fst ls) c e)).
Proof.
  induction ls as [|[l n] r IH]; intros e f Hf Hnd.
  - cbn [esum map]. unfold ssum. rewrite (sum_idx_nil F (r0 Op) (r1 Op) (radd Op) (rmul Op) (rsub Op) (ropp Op) Rth). reflexivity.
  - inversion Hnd as [|? ? Hnin Hnd']; subst. cbn [esum map fst snd]. unfold ssum.
    rewrite (sum_idx_cons F (r0 Op) (r1 Op) (radd Op) (rmul Op) (rsub Op) (ropp Op) Rth). unfold bsum.
    apply bigsum_ext. intros v Hv. rewrite IH by assumption. unfold ssum.
    apply (sum_idx_ext F (r0 Op) (radd Op)). intros c Hc. cbn [bind]. apply Hf. intros x. now apply bind_upd_comm.
Qed.

Lemma term_ext ins (ts : list (tensor F)) e1 e2 : (forall l, e1 l = e2 l) -> term Op ins ts e1 = term Op ins ts e2.
Proof.
  intros H. unfold term. f_equal. apply map_ext. intros p. f_equal. apply map_ext. intros l. apply H.
Qed.

(* ================================================================ inner (einsum backend) *)
Theorem inner_e_spec (A B : tensor F) (sa sc sb : list nat) :
  shape A = sa ++ sc -> shape B = sc ++ sb ->
  exists R, inner_e Op A B (Some (length sc)) = Ok R /\ wf R /\ shape R = sa ++ sb /\
    forall a b, inb sa a -> inb sb b ->
      get d R (a ++ b) = ssum Op sc (fun c => get d A (a ++ c) *r get d B (c ++ b)).
Proof.
  intros HsA HsB.
  set (n := length sc). set (la := length sa). set (lb := length sb).
  assert (Hn1 : length (shape A) = la + n) by (rewrite HsA, app_length; reflexivity).
  assert (Hn2 : length (shape B) = n + lb) by (rewrite HsB, app_length; reflexivity).
  assert (Hoff : length (shape A) - n = la) by lia.
  set (m1 := seq 0 (la + n)). set (m2 := seq la (n + lb)).
  set (out := seq 0 la ++ seq (la + n) lb).
  set (ins := [m1; m2]).
  assert (Hout : firstn la m1 ++ skipn n m2 = out).
  { unfold m1, m2, out. now rewrite firstn_seq_add, skipn_seq_add. }
  (* label sizes *)
  assert (Hsz1 : forall l, l < la + n -> label_size ins [A; B] l = nth l (shape A) 0).
  { intros l Hl. unfold label_size, ins, m1. cbn [combine map concat fst snd]. rewrite <- Hn1.
    rewrite (find_combine_seq _ 0) by lia. cbn [snd]. now rewrite Nat.sub_0_r. }
  assert (Hsz2 : forall l, la + n <= l < la + n + lb -> label_size ins [A; B] l = nth (l - la) (shape B) 0).
  { intros l Hl. unfold label_size, ins, m1, m2. cbn [combine map concat fst snd]. rewrite <- Hn1 at 1.
    rewrite find_combine_seq_none by lia. rewrite <- Hn2.
    rewrite (find_combine_seq _ 0) by lia. reflexivity. }
  assert (Hshape : map (label_size ins [A; B]) out = sa ++ sb).
  { unfold out. rewrite map_app. f_equal.
    - apply nth_ext with (d := 0) (d' := 0); [now rewrite map_length, seq_length|].
      intros j Hj. rewrite map_length, seq_length in Hj.
      rewrite (nth_map' _ _ _ 0) by (now rewrite seq_length). rewrite seq_nth by exact Hj. cbn [Nat.add].
      rewrite Hsz1 by lia. rewrite HsA. now apply app_nth1.
    - apply nth_ext with (d := 0) (d' := 0); [now rewrite map_length, seq_length|].
      intros j Hj. rewrite map_length, seq_length in Hj.
      rewrite (nth_map' _ _ _ 0) by (now rewrite seq_length). rewrite seq_nth by exact Hj.
      rewrite Hsz2 by lia. rewrite HsB. replace (la + n + j - la) with (n + j) by lia.
      rewrite app_nth2 by (fold n; lia). f_equal. fold n. lia. }
  (* summed labels *)
  assert (Hmemb_lo : forall l, l < la -> memb l out = true).
  { intros l Hl. apply memb_In. unfold out. apply in_or_app. left. apply in_seq. lia. }
  assert (Hmemb_mid : forall l, la <= l < la + n -> memb l out = false).
  { intros l Hl. destruct (memb l out) eqn:E; [|reflexivity]. apply memb_In in E. unfold out in E.
    apply in_app_or in E. destruct E as [E|E]; apply in_seq in E; lia. }
  assert (Hmemb_hi : forall l, la + n <= l < la + n + lb -> memb l out = true).
  { intros l Hl. apply memb_In. unfold out. apply in_or_app. right. apply in_seq. lia. }
  assert (Hsummed : summed_labels ins out = seq la n).
  { unfold summed_labels, ins. cbn [concat]. rewrite app_nil_r.
    unfold m1, m2. rewrite !seq_app, !filter_app. cbn [Nat.add].
    rewrite (filter_seq_none _ la 0) by (intros l Hl; rewrite Hmemb_lo by lia; reflexivity).
    rewrite (filter_seq_all _ n la) by (intros l Hl; rewrite Hmemb_mid by lia; reflexivity).
    rewrite (filter_seq_none _ lb (la + n)) by (intros l Hl; rewrite Hmemb_hi by lia; reflexivity).
    cbn [app]. rewrite app_nil_r. apply dedup_app_sub; [apply seq_NoDup | auto]. }
  exists (einsum Op ins out [A; B]).
  split; [|split; [apply wf_tabulate | split; [exact Hshape|]]].
  - unfold inner_e. fold n. rewrite Hoff.
    assert (Hc : ((n <=? length (shape A)) && nat_list_eq (skipn la (shape A)) (firstn n (shape B))) = true).
    { apply andb_true_iff; split; [apply Nat.leb_le; lia|].
      rewrite HsA, HsB. unfold la, n. rewrite skipn_app_exact, firstn_app_exact. apply nat_list_eq_refl. }
    rewrite Hc, Hn1, Hn2. fold m1 m2. rewrite Hout. reflexivity.
  - intros a b Ha Hb. unfold einsum. fold ins.
    assert (Hab : inb (map (label_size ins [A; B]) out) (a ++ b)) by (rewrite Hshape; now apply inb_app).
    rewrite get_tabulate by exact Hab. rewrite Hsummed.
    assert (Hla : length a = la) by (now apply inb_length). assert (Hlb : length b = lb) by (now apply inb_length).
    set (ls := map (fun l => (l, label_size ins [A; B] l)) (seq la n)).
    assert (Hfst : map fst ls = seq la n) by (unfold ls; rewrite map_map; cbn [fst]; apply map_id).
    assert (Hsnd : map snd ls = sc).
    { unfold ls. rewrite map_map. cbn [snd]. apply nth_ext with (d := 0) (d' := 0); [now rewrite map_length, seq_length|].
      intros j Hj. rewrite map_length, seq_length in Hj. rewrite (nth_map' _ _ _ 0) by (now rewrite seq_length).
      rewrite seq_nth by exact Hj. rewrite Hsz1 by lia. rewrite HsA. rewrite app_nth2 by (fold la; lia). f_equal. fold la. lia. }
    rewrite (esum_ssum ls _ (term Op ins [A; B])); [| intros; now apply term_ext | rewrite Hfst; apply seq_NoDup].
    rewrite Hsnd, Hfst. unfold ssum. apply (sum_idx_ext F (r0 Op) (radd Op)). intros c Hc.
    assert (Hlc : length c = n) by (now apply inb_length).
    set (e := bind (seq la n) c (bind out (a ++ b) (fun _ => 0))).
    assert (HNDout : NoDup out).
    { unfold out. apply NoDup_two_seq. lia. }
    (* lookups *)
    assert (Elo : forall l, l < la -> e l = nth l a 0).
    { intros l Hl. unfold e. rewrite bind_not_in by (rewrite in_seq; lia).
      pose proof (bind_lookup out (a ++ b) (fun _ => 0) l HNDout) as Bq.
      assert (Hnth : nth l out 0 = l) by (unfold out; rewrite app_nth1 by (rewrite seq_length; lia); now rewrite seq_nth).
      rewrite Hnth in Bq. rewrite Bq by (unfold out; rewrite ?app_length, ?seq_length; lia). now apply app_nth1; lia. }
    assert (Emid : forall j, j < n -> e (la + j) = nth j c 0).
    { intros j Hj. unfold e.
      pose proof (bind_lookup (seq la n) c (bind out (a ++ b) (fun _ => 0)) j (seq_NoDup n la)) as Bq.
      rewrite seq_nth in Bq by exact Hj. apply Bq; rewrite seq_length; lia. }
    assert (Ehi : forall j, j < lb -> e (la + n + j) = nth j b 0).
    { intros j Hj. unfold e. rewrite bind_not_in by (rewrite in_seq; lia).
      pose proof (bind_lookup out (a ++ b) (fun _ => 0) (la + j) HNDout) as Bq.
      assert (Hnth : nth (la + j) out 0 = la + n + j).
      { unfold out. rewrite app_nth2 by (rewrite seq_length; lia). rewrite seq_length. replace (la + j - la) with j by lia. now rewrite seq_nth. }
      rewrite Hnth in Bq. rewrite Bq by (unfold out; rewrite ?app_length, ?seq_length; lia).
      rewrite app_nth2 by lia. f_equal. lia. }
    assert (E1 : map e m1 = a ++ c).
    { apply nth_ext with (d := 0) (d' := 0); [unfold m1; rewrite map_length, seq_length, app_length; lia|].
      intros j Hj. unfold m1 in *. rewrite map_length, seq_length in Hj.
      rewrite (nth_map' _ _ _ 0) by (now rewrite seq_length). rewrite seq_nth by exact Hj. cbn [Nat.add].
      destruct (Nat.lt_ge_cases j la).
      - rewrite Elo by assumption. symmetry. apply app_nth1. lia.
      - replace j with (la + (j - la)) at 1 by lia. rewrite Emid by lia. rewrite app_nth2 by lia. f_equal. lia. }
    assert (E2 : map e m2 = c ++ b).
    { apply nth_ext with (d := 0) (d' := 0); [unfold m2; rewrite map_length, seq_length, app_length; lia|].
      intros j Hj. unfold m2 in *. rewrite map_length, seq_length in Hj.
      rewrite (nth_map' _ _ _ 0) by (now rewrite seq_length). rewrite seq_nth by exact Hj.
      destruct (Nat.lt_ge_cases j n).
      - rewrite Emid by assumption. symmetry. apply app_nth1. lia.
      - replace (la + j) with (la + n + (j - n)) by lia. rewrite Ehi by lia. rewrite app_nth2 by lia. f_equal. lia. }
    unfold term, ins. cbn [combine map fst snd rprod fold_right]. fold e. rewrite E1, E2. ring.
Qed.

(* the two backends compute the same generalised inner product, for every n_modes >= 0 *)
Corollary inner_backends_agree (A B : tensor F) (sa sc sb : list nat) :
  wf A -> wf B -> shape A = sa ++ sc -> shape B = sc ++ sb -> 0 < prod (shape A) -> 0 < prod (shape B) ->
  inner Op A B (Some (length sc)) = inner_e Op A B (Some (length sc)).
Proof.
  intros WA WB HsA HsB HpA HpB.
  destruct (inner_core_spec Op A B sa sc sb WA WB HsA HsB HpA HpB) as [R1 [E1 [W1 [S1 G1]]]].
  destruct (inner_e_spec A B sa sc sb HsA HsB) as [R2 [E2 [W2 [S2 G2]]]].
  rewrite E1, E2. f_equal. apply tensor_ext with (d := d); auto; [congruence|].
  intros idx Hi. rewrite S1 in Hi.
  assert (Hl : length idx = length sa + length sb) by (rewrite (inb_length _ _ Hi), app_length; reflexivity).
  rewrite <- (firstn_skipn (length sa) idx) in Hi |- *.
  apply inb_app_inv in Hi; [|rewrite firstn_length; lia]. destruct Hi as [Ha Hb].
  rewrite G1, G2 by assumption. reflexivity.
Qed.

End P.
