(* einsum_tenalg.khatri_rao and einsum_tenalg.kronecker: the built equations, under the generic einsum semantics,
   are the textbook entry formulas, hence equal the core backend (any number of matrices, weights, mask, skip, reverse). *)
From Coq Require Import List Arith ZArith Lia Ring Bool.
From TLV Require Import Base.Shape Base.PyList Base.Tensor Base.BigSum Model.Base Proofs.BaseProofs Model.Tenalg
  Proofs.TenalgProofs Proofs.TenalgProofsKR Proofs.TenalgProofsEinsum Proofs.TenalgProofsInner Proofs.TenalgProofsEinsumInner.
Import ListNotations.

Lemma filter_nil {A} (P : A -> bool) l : (forall x, In x l -> P x = false) -> filter P l = [].
Proof. induction l as [|x l IH]; intros H; simpl; auto. rewrite (H x) by now left. apply IH. intros; apply H; now right. Qed.
Lemma NoDup_snoc {A} (x : A) l : NoDup l -> ~ In x l -> NoDup (l ++ [x]).
Proof.
  induction l as [|a l IH]; intros Hnd Hn; simpl; [repeat constructor; auto|].
  inversion Hnd; subst. constructor.
  - intros Hin. apply in_app_or in Hin. destruct Hin as [Hin|[->|[]]]; [contradiction | apply Hn; now left].
  - apply IH; auto. intros H'. apply Hn. now right.
Qed.
Lemma combine_app {A B} (a1 a2 : list A) (b1 b2 : list B) : length a1 = length b1 ->
  combine (a1 ++ a2) (b1 ++ b2) = combine a1 b1 ++ combine a2 b2.
Proof. revert b1. induction a1; intros [|y b1] H; simpl in *; try discriminate; auto. f_equal. apply IHa1. lia. Qed.
Lemma prod_rev s : prod (rev s) = prod s.
Proof. induction s as [|x s IH]; simpl; auto. rewrite prod_app, IH. simpl. lia. Qed.

Definition pairs_of {F} (ins : list (list nat)) (ts : list (tensor F)) : list (nat * nat) :=
  concat (map (fun p => combine (fst p) (shape (snd p))) (combine ins ts)).
Lemma label_size_pairs {F} (ins : list (list nat)) (ts : list (tensor F)) l :
  label_size ins ts l = match find (fun p => Nat.eqb (fst p) l) (pairs_of ins ts) with Some p => snd p | None => 0 end.
Proof. reflexivity. Qed.

Section P.
Context {F : Type} (Op : rops F).
Hypothesis Rth : ring_theory (r0 Op) (r1 Op) (radd Op) (rmul Op) (rsub Op) (ropp Op) (@eq F).
Add Ring Fr11 : Rth.
Notation d := (r0 Op).
Infix "*r" := (rmul Op) (at level 40, left associativity).

Lemma rprod_app l1 l2 : rprod Op (l1 ++ l2) = rprod Op l1 *r rprod Op l2.
Proof. induction l1 as [|x l1 IH]; simpl; [ring | rewrite IH; ring]. Qed.

(* ================================================================ khatri_rao *)
Definition kr_ins (k n : nat) : list (list nat) := map (fun i => [i; 0]) (seq k n).

Lemma kr_find R : forall (Ms : list (tensor F)) k l tail_ins tail_ops, mats R Ms -> 1 <= k -> k <= l < k + length Ms ->
  find (fun p => Nat.eqb (fst p) l) (pairs_of (kr_ins k (length Ms) ++ tail_ins) (Ms ++ tail_ops))
  = Some (l, nrows (nth (l - k) Ms (mk [] []))).
Proof.
  induction Ms as [|M Ms IH]; intros k l ti to Hm Hk Hl; simpl in Hl; [lia|].
  inversion Hm as [|? ? [_ HsM] Hm']; subst.
  unfold pairs_of, kr_ins. cbn [length seq map app combine concat fst snd]. rewrite HsM. cbn [combine app find fst].
  destruct (Nat.eqb_spec k l) as [->|Hne].
  - now rewrite Nat.sub_diag.
  - destruct (Nat.eqb_spec 0 l); [lia|].
    change (find _ _) with (find (fun p => Nat.eqb (fst p) l) (pairs_of (kr_ins (S k) (length Ms) ++ ti) (Ms ++ to))).
    rewrite IH by (auto; lia). destruct (l - k) as [|q] eqn:E; [lia|]. replace (l - S k) with q by lia. reflexivity.
Qed.

Lemma kr_factor_prod (e : env) r : e 0 = r -> forall (Ms : list (tensor F)) k is_,
  map e (seq k (length Ms)) = is_ ->
  rprod Op (map (fun p => get d (snd p) (map e (fst p))) (combine (kr_ins k (length Ms)) Ms)) = kr_entry Op Ms is_ r.
Proof.
  intros Er. induction Ms as [|M Ms IH]; intros k is_ He.
  - cbn in He. subst. reflexivity.
  - cbn [length seq map] in He. destruct is_ as [|i is_]; [discriminate|]. injection He as Hi He.
    unfold kr_ins. cbn [length seq map combine rprod fold_right fst snd].
    change (fold_right (rmul Op) (r1 Op)) with (rprod Op). fold (kr_ins (S k) (length Ms)).
    rewrite (IH (S k) is_ He). rewrite kr_entry_cons, Hi, Er. reflexivity.
Qed.

Theorem khatri_rao_e_spec (Ms : list (tensor F)) (w mask : option (tensor F)) (skip : option nat) (R : nat) :
  let Ms' := skipl skip Ms in
  Ms' <> [] -> mats R Ms' -> 0 < R -> (forall w0, w = Some w0 -> shape w0 = [R]) ->
  (forall m0, mask = Some m0 -> shape m0 = map nrows Ms') ->
  exists K, khatri_rao_e Op Ms w mask skip = Ok K /\ wf K /\ shape K = [prod (map nrows Ms'); R] /\
    forall is_ r, inb (map nrows Ms') is_ -> r < R ->
      get d K [ravel (map nrows Ms') is_; r]
      = kr_entry Op Ms' is_ r *r wv Op w r *r maskv Op mask (ravel (map nrows Ms') is_).
Proof.
  cbv zeta. intros Hne Hm HR Hw Hmk.
  assert (Hwok : w_ok w R) by (intros w0 E; rewrite (Hw w0 E); cbn [prod fold_right]; lia).
  assert (Hmok : mask_ok mask (prod (map nrows (skipl skip Ms)))) by (intros m0 E; now rewrite (Hmk m0 E)).
  destruct (skipl skip Ms) as [|M0 [|M1 rest]] eqn:EMs; [congruence| |].
  - (* a single matrix: the code path shared with the core backend *)
    pose proof (khatri_rao_spec Op Rth Ms w mask skip R) as Hc. cbv zeta in Hc. rewrite EMs in Hc.
    destruct (Hc Hne Hm Hwok Hmok) as [K [HK HP]]. exists K. split; [|exact HP].
    unfold khatri_rao_e. unfold khatri_rao in HK. rewrite EMs in HK |- *. exact HK.
  - set (L := M0 :: M1 :: rest) in *. clear Hne.
    set (n := length L). set (rows := map nrows L).
    set (wi := match w with Some _ => [[0]] | None => [] end).
    set (wo := match w with Some w0 => [w0] | None => [] end).
    set (mi := match mask with Some _ => [seq 1 n] | None => [] end).
    set (mo := match mask with Some m => [m] | None => [] end).
    set (ins := kr_ins 1 n ++ wi ++ mi). set (ops := L ++ wo ++ mo). set (out := seq 1 n ++ [0]).
    assert (HM0 : ncols M0 = R).
    { inversion Hm as [|? ? [_ Hs0] _]; subst. unfold ncols. now rewrite Hs0. }
    assert (Hszi : forall l, 1 <= l < 1 + n -> label_size ins ops l = nth (l - 1) rows 0).
    { intros l Hl. rewrite label_size_pairs. unfold ins, ops, n. rewrite (kr_find R L 1 l) by (auto; lia). cbn [snd].
      unfold rows. symmetry. apply nth_map'. fold n. lia. }
    assert (Hsz0 : label_size ins ops 0 = R).
    { rewrite label_size_pairs. unfold ins, ops, n, L, pairs_of, kr_ins. cbn [length seq map app combine concat fst snd].
      inversion Hm as [|? ? [_ Hs0] _]; subst. rewrite Hs0. reflexivity. }
    assert (Hshape : map (label_size ins ops) out = rows ++ [R]).
    { unfold out. rewrite map_app. cbn [map]. rewrite Hsz0. f_equal.
      apply nth_ext with (d := 0) (d' := 0); [unfold rows, n; now rewrite !map_length, seq_length|].
      intros j Hj. rewrite map_length, seq_length in Hj.
      rewrite (nth_map' _ _ _ 0) by (now rewrite seq_length). rewrite seq_nth by exact Hj. rewrite Hszi by lia.
      f_equal. lia. }
    assert (Hallin : forall x, In x (concat ins) -> memb x out = true).
    { intros x Hx. apply memb_In. unfold out. apply in_concat in Hx. destruct Hx as [blk [Hb Hx]].
      unfold ins in Hb. apply in_app_or in Hb. destruct Hb as [Hb|Hb].
      - unfold kr_ins in Hb. apply in_map_iff in Hb. destruct Hb as [i [<- Hi]]. apply in_seq in Hi.
        destruct Hx as [<-|[<-|[]]]; apply in_or_app; [left; apply in_seq; lia | right; now left].
      - apply in_app_or in Hb. destruct Hb as [Hb|Hb].
        + unfold wi in Hb. destruct w; [|contradiction]. destruct Hb as [<-|[]]. destruct Hx as [<-|[]]. apply in_or_app. right. now left.
        + unfold mi in Hb. destruct mask; [|contradiction]. destruct Hb as [<-|[]]. apply in_or_app. now left. }
    assert (Hsummed : summed_labels ins out = []).
    { unfold summed_labels. rewrite filter_nil; [reflexivity|]. intros x Hx. now rewrite Hallin. }
    set (E := einsum Op ins out ops).
    assert (HsE : shape E = rows ++ [R]) by exact Hshape.
    assert (WE : wf E) by apply wf_tabulate.
    assert (HpE : prod (shape E) = prod rows * R).
    { rewrite HsE, prod_app. cbn [prod fold_right]. lia. }
    exists (reshape [prod rows; R] E).
    assert (Hresh : reshape_spec [None; Some R] E = Ok (reshape [prod rows; R] E)).
    { change [None; Some R] with (map Some [] ++ [None] ++ map Some [R]).
      assert (Hk : prod [] * prod [R] = R) by (cbn [prod fold_right]; lia).
      rewrite reshape_spec_one_none; rewrite ?Hk, ?HpE; try lia.
      - cbn [app]. now rewrite Nat.div_mul by lia.
      - apply Nat.mod_mul. lia. }
    split; [|split; [|split; [reflexivity|]]].
    + unfold khatri_rao_e. rewrite EMs. unfold L at 1. cbv iota.
      rewrite (kr_valid_mats R M0 (M1 :: rest) Hm). rewrite HM0. fold L.
      assert (Hew : einsum_weights Op R w = Ok w).
      { unfold einsum_weights. destruct w as [w0|]; [|reflexivity]. unfold ndim. rewrite (Hw w0 eq_refl).
        cbn [length Nat.eqb prod fold_right]. now rewrite Nat.mul_1_r, Nat.eqb_refl. }
      rewrite Hew. cbn [rbind].
      assert (Hem : match mask with Some m => nat_list_eq (shape m) (map nrows L) | None => true end = true).
      { destruct mask as [m0|]; [|reflexivity]. rewrite (Hmk m0 eq_refl). apply nat_list_eq_refl. }
      rewrite Hem. fold n. fold rows.
      change (map (fun i => [i; 0]) (seq 1 n)) with (kr_ins 1 n). fold wi wo mi mo. fold ins ops out. fold E. exact Hresh.
    + apply wf_reshape; [exact WE|]. rewrite HpE. cbn [prod fold_right]. lia.
    + intros is_ r Hin Hr. fold L in Hin. fold rows in Hin |- *.
      assert (Hrow : ravel rows is_ < prod rows) by (now apply ravel_lt).
      assert (Hlen : length is_ = n) by (rewrite (inb_length _ _ Hin); unfold rows, n; now rewrite map_length).
      assert (EK : get d (reshape [prod rows; R] E) [ravel rows is_; r] = get d E (is_ ++ [r])).
      { unfold get, reshape. cbn [shape data]. rewrite HsE, ravel2. f_equal.
        rewrite ravel_app by (rewrite Hlen; unfold rows, n; now rewrite map_length). cbn [prod fold_right ravel]. lia. }
      rewrite EK. unfold E, einsum.
      assert (Hio : inb (map (label_size ins ops) out) (is_ ++ [r])).
      { rewrite Hshape. apply inb_app; [exact Hin | simpl; auto]. }
      rewrite get_tabulate by exact Hio. rewrite Hsummed. cbn [map esum].
      set (e := bind out (is_ ++ [r]) (fun _ => 0)).
      assert (HND : NoDup out).
      { unfold out. apply NoDup_snoc; [apply seq_NoDup | rewrite in_seq; lia]. }
      assert (Hlo : length (is_ ++ [r]) = length out) by (unfold out; rewrite !app_length, seq_length, Hlen; reflexivity).
      assert (Hlout : length out = n + 1) by (unfold out; rewrite app_length, seq_length; reflexivity).
      assert (Hnth0 : nth n out 0 = 0).
      { unfold out. rewrite app_nth2 by (rewrite seq_length; lia). rewrite seq_length, Nat.sub_diag. reflexivity. }
      assert (Hnthj : forall j, j < n -> nth j out 0 = 1 + j).
      { intros j Hj. unfold out. rewrite app_nth1 by (rewrite seq_length; lia). now rewrite seq_nth. }
      assert (E0 : e 0 = r).
      { pose proof (bind_lookup out (is_ ++ [r]) (fun _ => 0) n HND Hlo) as Bq. rewrite Hnth0 in Bq.
        unfold e. rewrite Bq by lia. rewrite app_nth2 by lia. rewrite Hlen, Nat.sub_diag. reflexivity. }
      assert (Ei : map e (seq 1 n) = is_).
      { apply nth_ext with (d := 0) (d' := 0); [now rewrite map_length, seq_length|].
        intros j Hj. rewrite map_length, seq_length in Hj.
        rewrite (nth_map' _ _ _ 0) by (now rewrite seq_length). rewrite seq_nth by exact Hj.
        pose proof (bind_lookup out (is_ ++ [r]) (fun _ => 0) j HND Hlo) as Bq. rewrite Hnthj in Bq by exact Hj.
        unfold e. rewrite Bq by lia. apply app_nth1. lia. }
      unfold term, ins, ops.
      rewrite combine_app by (unfold kr_ins, n; now rewrite map_length, seq_length).
      rewrite combine_app by (unfold wi, wo; destruct w; reflexivity).
      rewrite !map_app, !rprod_app. fold e.
      unfold n at 1. rewrite (kr_factor_prod e r E0 L 1 is_ Ei).
      assert (Pw : rprod Op (map (fun p => get d (snd p) (map e (fst p))) (combine wi wo)) = wv Op w r).
      { unfold wi, wo, wv. destruct w as [w0|]; [|reflexivity]. cbn [combine map rprod fold_right fst snd]. rewrite E0.
        unfold get. rewrite (Hw w0 eq_refl), ravel1. ring. }
      assert (Pm : rprod Op (map (fun p => get d (snd p) (map e (fst p))) (combine mi mo)) = maskv Op mask (ravel rows is_)).
      { unfold mi, mo, maskv. destruct mask as [m|]; [|reflexivity]. cbn [combine map rprod fold_right fst snd]. rewrite Ei.
        unfold get. rewrite (Hmk m eq_refl). fold rows. ring. }
      rewrite Pw, Pm. ring.
Qed.

Corollary khatri_rao_backends_agree (Ms : list (tensor F)) (w mask : option (tensor F)) (skip : option nat) (R : nat) :
  let Ms' := skipl skip Ms in
  Ms' <> [] -> mats R Ms' -> 0 < R -> (forall w0, w = Some w0 -> shape w0 = [R]) ->
  (forall m0, mask = Some m0 -> shape m0 = map nrows Ms') ->
  khatri_rao Op Ms w mask skip = khatri_rao_e Op Ms w mask skip.
Proof.
  intros Ms' Hne Hm HR Hw Hmk.
  assert (Hwok : w_ok w R) by (intros w0 E; rewrite (Hw w0 E); cbn [prod fold_right]; lia).
  assert (Hmok : mask_ok mask (prod (map nrows Ms'))) by (intros m0 E; now rewrite (Hmk m0 E)).
  destruct (khatri_rao_spec Op Rth Ms w mask skip R Hne Hm Hwok Hmok) as [K1 [E1 [W1 [S1 G1]]]].
  destruct (khatri_rao_e_spec Ms w mask skip R Hne Hm HR Hw Hmk) as [K2 [E2 [W2 [S2 G2]]]].
  fold Ms' in S1, G1, S2, G2.
  rewrite E1, E2. f_equal. apply tensor_ext with (d := d); auto; [congruence|].
  intros idx Hi. rewrite S1 in Hi. destruct idx as [|row [|r [|? ?]]]; cbn [inb] in Hi; try tauto.
  destruct Hi as [Hrow [Hr _]].
  rewrite <- (ravel_unravel (map nrows Ms') row Hrow).
  rewrite G1, G2 by (auto using unravel_inb). reflexivity.
Qed.

(* ================================================================ kronecker *)
Definition kron_ins (n k len : nat) : list (list nat) := map (fun i => [i; n + i]) (seq k len).

Lemma kron_find_row n : forall (Ms : list (tensor F)) k l, kmats Ms -> k + length Ms <= n -> k <= l < k + length Ms ->
  find (fun p => Nat.eqb (fst p) l) (pairs_of (kron_ins n k (length Ms)) Ms) = Some (l, nrows (nth (l - k) Ms (mk [] []))).
Proof.
  induction Ms as [|M Ms IH]; intros k l Hm Hn Hl; simpl in Hl, Hn; [lia|].
  inversion Hm as [|? ? [_ [HsM _]] Hm']; subst.
  unfold pairs_of, kron_ins. cbn [length seq map combine concat fst snd]. rewrite HsM. cbn [combine app find fst].
  destruct (Nat.eqb_spec k l) as [->|Hne].
  - now rewrite Nat.sub_diag.
  - destruct (Nat.eqb_spec (n + k) l); [lia|].
    change (find _ _) with (find (fun p => Nat.eqb (fst p) l) (pairs_of (kron_ins n (S k) (length Ms)) Ms)).
    rewrite IH by (auto; lia). destruct (l - k) as [|q] eqn:E; [lia|]. replace (l - S k) with q by lia. reflexivity.
Qed.
Lemma kron_find_col n : forall (Ms : list (tensor F)) k l, kmats Ms -> k + length Ms <= n -> n + k <= l < n + k + length Ms ->
  find (fun p => Nat.eqb (fst p) l) (pairs_of (kron_ins n k (length Ms)) Ms) = Some (l, ncols (nth (l - n - k) Ms (mk [] []))).
Proof.
  induction Ms as [|M Ms IH]; intros k l Hm Hn Hl; simpl in Hl, Hn; [lia|].
  inversion Hm as [|? ? [_ [HsM _]] Hm']; subst.
  unfold pairs_of, kron_ins. cbn [length seq map combine concat fst snd]. rewrite HsM. cbn [combine app find fst].
  destruct (Nat.eqb_spec k l); [lia|].
  destruct (Nat.eqb_spec (n + k) l) as [<-|Hne].
  - replace (n + k - n - k) with 0 by lia. reflexivity.
  - change (find _ _) with (find (fun p => Nat.eqb (fst p) l) (pairs_of (kron_ins n (S k) (length Ms)) Ms)).
    rewrite IH by (auto; lia). destruct (l - n - k) as [|q] eqn:E; [lia|]. replace (l - n - S k) with q by lia. reflexivity.
Qed.

Lemma kron_factor_prod (e : env) n : forall (Ms : list (tensor F)) k is_ js,
  map e (seq k (length Ms)) = is_ -> map e (seq (n + k) (length Ms)) = js ->
  rprod Op (map (fun p => get d (snd p) (map e (fst p))) (combine (kron_ins n k (length Ms)) Ms)) = kron_entry Op Ms is_ js.
Proof.
  induction Ms as [|M Ms IH]; intros k is_ js Hi Hj.
  - cbn in Hi, Hj. subst. reflexivity.
  - cbn [length seq map] in Hi, Hj. destruct is_ as [|i is_]; [discriminate|]. destruct js as [|j js]; [discriminate|].
    injection Hi as Hi0 Hi. injection Hj as Hj0 Hj.
    unfold kron_ins. cbn [length seq map combine rprod fold_right fst snd].
    change (fold_right (rmul Op) (r1 Op)) with (rprod Op). fold (kron_ins n (S k) (length Ms)).
    replace (S (n + k)) with (n + S k) in Hj by lia.
    rewrite (IH (S k) is_ js Hi Hj). rewrite kron_entry_cons, Hi0, Hj0. reflexivity.
Qed.

Lemma kmats_rev (l : list (tensor F)) : kmats l -> kmats (rev l).
Proof. unfold kmats. rewrite !Forall_forall. intros H x Hx. apply H. now apply in_rev. Qed.

Theorem kronecker_e_spec (Ms : list (tensor F)) (skip : option nat) (reverse : bool) :
  let l := if reverse then rev (skipl skip Ms) else skipl skip Ms in
  l <> [] -> kmats l ->
  exists K, kronecker_e Op Ms skip reverse = Ok K /\ wf K /\ shape K = [prod (map nrows l); prod (map ncols l)] /\
    forall is_ js, inb (map nrows l) is_ -> inb (map ncols l) js ->
      get d K [ravel (map nrows l) is_; ravel (map ncols l) js] = kron_entry Op l is_ js.
Proof.
  intros l Hne Hk.
  set (l0 := skipl skip Ms) in *.
  assert (Hlen : length l = length l0) by (unfold l; destruct reverse; [apply rev_length | reflexivity]).
  assert (Hpr : prod (map nrows l0) = prod (map nrows l)).
  { unfold l. destruct reverse; [|reflexivity]. now rewrite map_rev, prod_rev. }
  assert (Hpc : prod (map ncols l0) = prod (map ncols l)).
  { unfold l. destruct reverse; [|reflexivity]. now rewrite map_rev, prod_rev. }
  set (n := length l0). set (rows := map nrows l). set (cols := map ncols l).
  set (ins := kron_ins n 0 n). set (out := seq 0 n ++ seq n n).
  assert (Hn : length l = n) by exact Hlen.
  assert (Hszr : forall j, j < n -> label_size ins l j = nth j rows 0).
  { intros j Hj. rewrite label_size_pairs. unfold ins. rewrite <- Hn at 2. rewrite (kron_find_row n l 0 j) by (auto; lia). cbn [snd].
    rewrite Nat.sub_0_r. unfold rows. symmetry. apply nth_map'. lia. }
  assert (Hszc : forall j, j < n -> label_size ins l (n + j) = nth j cols 0).
  { intros j Hj. rewrite label_size_pairs. unfold ins. rewrite <- Hn at 2. rewrite (kron_find_col n l 0 (n + j)) by (auto; lia). cbn [snd].
    replace (n + j - n - 0) with j by lia. unfold cols. symmetry. apply nth_map'. lia. }
  assert (Hshape : map (label_size ins l) out = rows ++ cols).
  { unfold out. rewrite map_app. f_equal.
    - apply nth_ext with (d := 0) (d' := 0); [unfold rows; now rewrite !map_length, seq_length|].
      intros j Hj. rewrite map_length, seq_length in Hj.
      rewrite (nth_map' _ _ _ 0) by (now rewrite seq_length). rewrite seq_nth by exact Hj. now apply Hszr.
    - apply nth_ext with (d := 0) (d' := 0); [unfold cols; now rewrite !map_length, seq_length|].
      intros j Hj. rewrite map_length, seq_length in Hj.
      rewrite (nth_map' _ _ _ 0) by (now rewrite seq_length). rewrite seq_nth by exact Hj. now apply Hszc. }
  assert (Hallin : forall x, In x (concat ins) -> memb x out = true).
  { intros x Hx. apply memb_In. unfold out. apply in_concat in Hx. destruct Hx as [blk [Hb Hx]].
    unfold ins, kron_ins in Hb. apply in_map_iff in Hb. destruct Hb as [i [<- Hi]]. apply in_seq in Hi.
    destruct Hx as [<-|[<-|[]]]; apply in_or_app; [left | right]; apply in_seq; lia. }
  assert (Hsummed : summed_labels ins out = []).
  { unfold summed_labels. rewrite filter_nil; [reflexivity|]. intros x Hx. now rewrite Hallin. }
  set (E := einsum Op ins out l).
  assert (HsE : shape E = rows ++ cols) by exact Hshape.
  assert (WE : wf E) by apply wf_tabulate.
  exists (reshape [prod rows; prod cols] E).
  split; [|split; [|split; [reflexivity|]]].
  - assert (Hmatch : forall X : res (tensor F), match l0 with [] => Err | _ :: _ => X end = X).
    { intros X. destruct l0; [|reflexivity]. exfalso. apply Hne. unfold l. destruct reverse; reflexivity. }
    unfold kronecker_e. fold l0. rewrite Hmatch. fold n. rewrite Hpr, Hpc. fold rows cols. fold l.
    change (map (fun i => [i; n + i]) (seq 0 n)) with (kron_ins n 0 n). fold ins. fold out. reflexivity.
  - apply wf_reshape; [exact WE|]. rewrite HsE, prod_app. cbn [prod fold_right]. lia.
  - intros is_ js Hin Hjn. fold rows in Hin |- *. fold cols in Hjn |- *.
    assert (Hli : length is_ = n) by (rewrite (inb_length _ _ Hin); unfold rows; now rewrite map_length).
    assert (Hlj : length js = n) by (rewrite (inb_length _ _ Hjn); unfold cols; now rewrite map_length).
    assert (EK : get d (reshape [prod rows; prod cols] E) [ravel rows is_; ravel cols js] = get d E (is_ ++ js)).
    { unfold get, reshape. cbn [shape data]. rewrite HsE, ravel2. f_equal.
      rewrite ravel_app by (rewrite Hli; unfold rows; now rewrite map_length). reflexivity. }
    rewrite EK. unfold E, einsum.
    assert (Hio : inb (map (label_size ins l) out) (is_ ++ js)) by (rewrite Hshape; now apply inb_app).
    rewrite get_tabulate by exact Hio. rewrite Hsummed. cbn [map esum].
    set (e := bind out (is_ ++ js) (fun _ => 0)).
    assert (HND : NoDup out) by (unfold out; apply NoDup_two_seq; lia).
    assert (Hlo : length (is_ ++ js) = length out) by (unfold out; rewrite !app_length, !seq_length; lia).
    assert (Hlout : length out = n + n) by (unfold out; rewrite app_length, !seq_length; reflexivity).
    assert (Ei : map e (seq 0 n) = is_).
    { apply nth_ext with (d := 0) (d' := 0); [now rewrite map_length, seq_length|].
      intros j Hj. rewrite map_length, seq_length in Hj.
      rewrite (nth_map' _ _ _ 0) by (now rewrite seq_length). rewrite seq_nth by exact Hj. cbn [Nat.add].
      pose proof (bind_lookup out (is_ ++ js) (fun _ => 0) j HND Hlo) as Bq.
      assert (Hnth : nth j out 0 = j) by (unfold out; rewrite app_nth1 by (rewrite seq_length; lia); now rewrite seq_nth).
      rewrite Hnth in Bq. unfold e. rewrite Bq by lia. apply app_nth1. lia. }
    assert (Ej : map e (seq (n + 0) n) = js).
    { rewrite Nat.add_0_r. apply nth_ext with (d := 0) (d' := 0); [now rewrite map_length, seq_length|].
      intros j Hj. rewrite map_length, seq_length in Hj.
      rewrite (nth_map' _ _ _ 0) by (now rewrite seq_length). rewrite seq_nth by exact Hj.
      pose proof (bind_lookup out (is_ ++ js) (fun _ => 0) (n + j) HND Hlo) as Bq.
      assert (Hnth : nth (n + j) out 0 = n + j).
      { unfold out. rewrite app_nth2 by (rewrite seq_length; lia). rewrite seq_length. replace (n + j - n) with j by lia. now rewrite seq_nth. }
      rewrite Hnth in Bq. unfold e. rewrite Bq by lia. rewrite app_nth2 by lia. f_equal. lia. }
    unfold term, ins. fold e. pose proof (kron_factor_prod e n l 0 is_ js) as KF. rewrite Hn in KF.
    apply KF; assumption.
Qed.

Corollary kronecker_backends_agree (Ms : list (tensor F)) (skip : option nat) (reverse : bool) :
  let l := if reverse then rev (skipl skip Ms) else skipl skip Ms in
  l <> [] -> kmats l -> kronecker Op Ms skip reverse = kronecker_e Op Ms skip reverse.
Proof.
  intros l Hne Hk.
  destruct (kronecker_spec Op Rth Ms skip reverse Hne Hk) as [K1 [E1 [W1 [S1 G1]]]].
  destruct (kronecker_e_spec Ms skip reverse Hne Hk) as [K2 [E2 [W2 [S2 G2]]]].
  fold l in S1, G1, S2, G2.
  rewrite E1, E2. f_equal. apply tensor_ext with (d := d); auto; [congruence|].
  intros idx Hi. rewrite S1 in Hi. destruct idx as [|p [|q [|? ?]]]; cbn [inb] in Hi; try tauto.
  destruct Hi as [Hp [Hq _]].
  rewrite <- (ravel_unravel (map nrows l) p Hp), <- (ravel_unravel (map ncols l) q Hq).
  rewrite G1, G2 by (auto using unravel_inb). reflexivity.
Qed.

End P.
