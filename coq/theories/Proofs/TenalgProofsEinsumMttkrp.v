(* einsum_tenalg.unfolding_dot_khatri_rao: the built equation, under the generic einsum semantics, is the textbook
   MTTKRP, hence equals the default core MTTKRP (all orders >= 2, every mode, with or without weights). *)
From Coq Require Import List Arith ZArith Lia Ring Bool.
From TLV Require Import Base.Shape Base.PyList Base.Tensor Base.BigSum Model.Base Proofs.BaseProofs Model.Tenalg
  Proofs.TenalgProofs Proofs.TenalgProofsKR Proofs.TenalgProofsEinsum Proofs.TenalgProofsEinsumVec Proofs.TenalgProofsInner
  Proofs.TenalgProofsEinsumInner.
Import ListNotations.

Lemma filter_neq_seq : forall k a n, k < n ->
  filter (fun i => negb (memb i [a + k])) (seq a n) = remove_nth k (seq a n).
Proof.
  induction k; intros a n Hk; destruct n as [|n]; try lia; cbn [seq filter remove_nth memb].
  - rewrite Nat.add_0_r, Nat.eqb_refl. cbn [orb negb].
    apply filter_seq_all. intros l Hl. cbn [memb]. destruct (Nat.eqb_spec a l); [lia | reflexivity].
  - destruct (Nat.eqb_spec (a + S k) a); [lia|]. cbn [orb negb]. f_equal.
    replace (a + S k) with (S a + k) by lia. apply IHk. lia.
Qed.
Lemma not_in_single N k : k < N -> not_in [k] N = mv_out N k.
Proof. intros Hk. unfold not_in, mv_out. apply (filter_neq_seq k 0 N Hk). Qed.

Lemma filter_pairs_concat (P : nat -> bool) r : P r = false -> forall l, (forall i, In i l -> P i = true) ->
  filter P (concat (map (fun i => [i; r]) l)) = l.
Proof.
  intros Hr. induction l as [|i l IH]; intros H; [reflexivity|]. cbn [map concat app filter].
  rewrite (H i) by now left. rewrite Hr. f_equal. apply IH. intros j Hj. apply H. now right.
Qed.

Lemma map_env_insert (e : env) N k i c : k < N -> length c = N - 1 -> e k = i ->
  (forall j, j < N - 1 -> e (nth j (mv_out N k) 0) = nth j c 0) -> map e (seq 0 N) = insert_at k i c.
Proof.
  intros Hk Hlen Ek Eo.
  apply nth_ext with (d := 0) (d' := 0); [rewrite map_length, seq_length, insert_at_length; lia|].
  intros j Hj. rewrite map_length, seq_length in Hj.
  rewrite (nth_map' _ _ _ 0) by (now rewrite seq_length). rewrite seq_nth by lia. cbn [Nat.add].
  destruct (Nat.lt_trichotomy j k) as [Hlt | [-> | Hgt]].
  - rewrite nth_insert_at_lt by lia. specialize (Eo j ltac:(lia)). rewrite mv_out_nth in Eo by lia.
    destruct (Nat.ltb_spec j k); [exact Eo | lia].
  - rewrite Ek. symmetry. apply nth_insert_same. lia.
  - rewrite nth_insert_at_gt by lia. specialize (Eo (j - 1) ltac:(lia)). rewrite mv_out_nth in Eo by lia.
    destruct (Nat.ltb_spec (j - 1) k); [lia|]. replace (S (j - 1)) with j in Eo by lia. exact Eo.
Qed.
Lemma map_env_others (e : env) N k c : k < N -> length c = N - 1 ->
  (forall j, j < N - 1 -> e (nth j (mv_out N k) 0) = nth j c 0) -> map e (mv_out N k) = c.
Proof.
  intros Hk Hlen Eo. apply nth_ext with (d := 0) (d' := 0); [rewrite map_length, mv_out_length by exact Hk; lia|].
  intros j Hj. rewrite map_length, mv_out_length in Hj by exact Hk.
  rewrite (nth_map' _ _ _ 0) by (rewrite mv_out_length by exact Hk; exact Hj). now apply Eo.
Qed.

Lemma remove_nth_map {A B} (f : A -> B) : forall k l, remove_nth k (map f l) = map f (remove_nth k l).
Proof. induction k; intros [|x l]; simpl; auto. f_equal. apply IHk. Qed.

Section P.
Context {F : Type} (Op : rops F).
Hypothesis Rth : ring_theory (r0 Op) (r1 Op) (radd Op) (rmul Op) (rsub Op) (ropp Op) (@eq F).
Hypothesis Cj : conj_laws Op.
Add Ring Fr10 : Rth.
Notation d := (r0 Op).
Infix "*r" := (rmul Op) (at level 40, left associativity).

Lemma rconj_mul a b : rconj Op (a *r b) = rconj Op a *r rconj Op b.
Proof. destruct Cj as [H _]. apply H. Qed.
Lemma rconj_one : rconj Op (r1 Op) = r1 Op.
Proof. destruct Cj as [_ [_ [_ [H _]]]]. exact H. Qed.

(* prod_j conj(f_j)[c_j, r] = conj(prod_j f_j[c_j, r]) *)
Lemma conj_factor_prod (e : env) rank r R : e rank = r -> r < R ->
  forall (labels : list nat) (fs : list (tensor F)) (c : list nat),
  mats R fs -> inb (map nrows fs) c -> map e labels = c ->
  rprod Op (map (fun p => get d (snd p) (map e (fst p)))
              (combine (map (fun i => [i; rank]) labels) (map (conj_t Op) fs)))
  = rconj Op (kr_entry Op fs c r).
Proof.
  intros Er Hr. induction labels as [|l labels IH]; intros fs c Hm Hin Hc.
  - cbn [map] in Hc. subst c. destruct fs; [|contradiction]. cbn. now rewrite rconj_one.
  - cbn [map] in Hc. destruct c as [|c0 c]; [discriminate|]. injection Hc as Hc0 Hc.
    destruct fs as [|f fs]; [contradiction|]. cbn [map] in Hin. destruct Hin as [Hi0 Hin].
    pose proof (Forall_inv Hm) as [Wf Hsf]. pose proof (Forall_inv_tail Hm) as Hm'.
    cbn [map combine rprod fold_right fst snd].
    change (fold_right (rmul Op) (r1 Op)) with (rprod Op).
    rewrite (IH fs c) by auto. rewrite kr_entry_cons, rconj_mul. f_equal.
    rewrite Er, Hc0. apply (get_conj_t Op f); [exact Wf | rewrite Hsf; simpl; auto].
Qed.

Theorem mttkrp_e_spec (T : tensor F) (w : option (tensor F)) (fs : list (tensor F)) (k R : nat) :
  wf T -> k < ndim T -> 0 < R -> map nrows fs = shape T -> mats R fs ->
  (forall w0, w = Some w0 -> wf w0 /\ shape w0 = [R]) ->
  exists Mt, mttkrp_e Op T w fs k = Ok Mt /\ wf Mt /\ shape Mt = [nth k (shape T) 0; R] /\
    forall i r, i < nth k (shape T) 0 -> r < R ->
      get d Mt [i; r] =
      ssum Op (remove_nth k (shape T))
        (fun ridx => get d T (insert_at k i ridx) *r rconj Op (kr_entry Op (remove_nth k fs) ridx r *r wv Op w r)).
Proof.
  intros WT Hk HR Hrows Hm Hw. unfold ndim in Hk.
  set (N := length (shape T)) in *.
  assert (Hlen : length fs = N) by (unfold N; rewrite <- Hrows; now rewrite map_length).
  destruct fs as [|f0 fs0] eqn:Efs; [simpl in Hlen; lia|]. rewrite <- Efs in *.
  assert (Hf0 : ncols f0 = R).
  { rewrite Efs in Hm. inversion Hm as [|? ? [_ Hs0] _]; subst. unfold ncols. now rewrite Hs0. }
  set (w' := match w with Some w0 => w0 | None => ones Op [ncols f0] end).
  assert (Ww' : wf w' /\ shape w' = [R]).
  { unfold w'. destruct w as [w0|]; [now apply Hw|]. rewrite Hf0. split; [apply wf_tabulate | reflexivity]. }
  destruct Ww' as [Ww' Hsw'].
  assert (Hgw : forall r, r < R -> get d (conj_t Op w') [r] = rconj Op (wv Op w r)).
  { intros r Hr. rewrite (get_conj_t Op w') by (auto; rewrite Hsw'; simpl; auto). f_equal.
    unfold w', wv. destruct w as [w0|].
    - destruct (Hw w0 eq_refl) as [_ Hs]. unfold get. rewrite Hs, ravel1. reflexivity.
    - unfold ones. rewrite get_tabulate; [reflexivity | rewrite Hf0; simpl; auto]. }
  set (rank := N + 1).
  set (others := mv_out N k).
  set (fs' := remove_nth k fs).
  set (ins := [seq 0 N; [rank]] ++ map (fun i => [i; rank]) others).
  set (ops := [T; conj_t Op w'] ++ map (conj_t Op) fs').
  assert (Hrows' : map nrows fs' = remove_nth k (shape T)).
  { unfold fs'. rewrite <- Hrows. symmetry. apply remove_nth_map. }
  assert (Hm' : mats R fs').
  { unfold mats, fs' in *. rewrite Forall_forall in *. intros M HM. apply Hm. clear -HM. revert k HM.
    induction fs as [|f fs IH]; intros [|k] HM; simpl in *; auto. destruct HM; auto. right. eapply IH; eauto. }
  (* label sizes *)
  assert (Hsz : forall l, l < N -> label_size ins ops l = nth l (shape T) 0).
  { intros l Hl. unfold label_size, ins, ops. cbn [app combine map concat fst snd]. unfold N.
    rewrite (find_combine_seq _ 0) by lia. cbn [snd]. now rewrite Nat.sub_0_r. }
  assert (Hszr : label_size ins ops rank = R).
  { unfold label_size, ins, ops. cbn [app combine map concat fst snd]. unfold N at 1.
    rewrite find_combine_seq_none by (unfold rank, N; lia).
    unfold conj_t at 1, tmap. cbn [shape]. rewrite Hsw'. cbn [combine app find fst]. rewrite Nat.eqb_refl. reflexivity. }
  assert (Hsizes : map (label_size ins ops) others = remove_nth k (shape T)).
  { apply nth_ext with (d := 0) (d' := 0).
    - unfold others. rewrite map_length, mv_out_length by exact Hk. rewrite remove_nth_length by exact Hk. reflexivity.
    - intros j Hj. unfold others in *. rewrite map_length, mv_out_length in Hj by exact Hk.
      rewrite (nth_map' _ _ _ 0) by (rewrite mv_out_length by exact Hk; exact Hj).
      rewrite mv_out_nth by assumption. destruct (Nat.ltb_spec j k).
      + rewrite Hsz by lia. now rewrite nth_remove_nth_lt.
      + rewrite Hsz by lia. now rewrite nth_remove_nth_ge. }
  (* summed labels *)
  assert (Hin_o : forall l, In l others <-> l < N /\ l <> k).
  { intros l. unfold others. rewrite <- (not_in_single N k Hk). unfold not_in. rewrite filter_In, in_seq. cbn [memb].
    destruct (Nat.eqb_spec k l); cbn [orb negb].
    - split; [intros [_ H]; discriminate | intros [_ H]; lia].
    - split; [intros [H _]; lia | intros [H1 H2]; split; [lia | reflexivity]]. }
  assert (Hmemb_o : forall l, In l others -> memb l [k; rank] = false).
  { intros l Hl. apply Hin_o in Hl. cbn [memb]. unfold rank.
    destruct (Nat.eqb_spec k l); [lia|]. destruct (Nat.eqb_spec (N + 1) l); [lia | reflexivity]. }
  assert (HNDo : NoDup others) by (apply NoDup_mv_out; exact Hk).
  assert (Hsummed : summed_labels ins [k; rank] = others).
  { unfold summed_labels, ins. cbn [app concat]. rewrite !filter_app.
    replace (filter (fun l => negb (memb l [k; rank])) (seq 0 N)) with others.
    2:{ unfold others. rewrite <- (not_in_single N k Hk). unfold not_in. apply filter_ext_in. intros l Hl. apply in_seq in Hl.
        cbn [memb]. unfold rank. destruct (Nat.eqb_spec (N + 1) l); [lia|]. reflexivity. }
    cbn [filter memb]. unfold rank at 2. rewrite Nat.eqb_refl. rewrite Bool.orb_true_r. cbn [negb app].
    rewrite filter_pairs_concat.
    - apply dedup_app_sub; auto.
    - cbn [memb]. rewrite Nat.eqb_refl. now rewrite Bool.orb_true_r.
    - intros l Hl. pose proof (Hmemb_o l Hl) as Hq. cbn [memb] in Hq. cbn beta. now rewrite Hq. }
  exists (einsum Op ins [k; rank] ops).
  split; [|split; [apply wf_tabulate | split]].
  - unfold mttkrp_e. rewrite Efs. rewrite <- Efs. fold N. fold rank. fold w'. fold fs'.
    apply Nat.ltb_lt in Hk as Hk'. unfold ndim. fold N. rewrite Hk'.
    rewrite (not_in_single N k Hk). fold others.
    assert (HLw : prod (shape w') = R) by (rewrite Hsw'; cbn [prod fold_right]; lia).
    assert (HRm : (if prod (shape w') =? 1 then match fs' with f :: _ => ncols f | [] => 1 end else prod (shape w')) = R).
    { rewrite HLw. destruct (Nat.eqb_spec R 1) as [E1|E1]; [|reflexivity].
      destruct fs' as [|f fs'']; [now rewrite E1|]. inversion Hm' as [|? ? [_ Hsf] _]; subst. unfold ncols. now rewrite Hsf. }
    rewrite HRm, HLw, Nat.eqb_refl.
    assert (Hg1 : (length (shape w') =? 1) = true) by (rewrite Hsw'; reflexivity).
    assert (Hg2 : forallb (fun f => (length (shape f) =? 2) && (ncols f =? R)) fs' = true).
    { apply forallb_forall. intros f Hf. unfold mats in Hm'. rewrite Forall_forall in Hm'. destruct (Hm' f Hf) as [_ Hsf].
      unfold ncols. rewrite Hsf. cbn [length nth]. rewrite !Nat.eqb_refl. reflexivity. }
    assert (Hg3 : nat_list_eq (map nrows fs') (map (fun l => nth l (shape T) 0) others) = true).
    { rewrite Hrows'. replace (map (fun l => nth l (shape T) 0) others) with (remove_nth k (shape T)); [apply nat_list_eq_refl|].
      symmetry. rewrite <- Hsizes. apply map_ext_in. intros l Hl. symmetry. apply Hsz. apply Hin_o in Hl. lia. }
    rewrite Hg1, Hg2, Hg3. reflexivity.
  - unfold einsum. cbn [shape map]. rewrite Hsz by exact Hk. now rewrite Hszr.
  - intros i r Hi Hr. unfold einsum.
    assert (Hio : inb (map (label_size ins ops) [k; rank]) [i; r]).
    { cbn [map]. rewrite Hsz by exact Hk. rewrite Hszr. simpl. auto. }
    rewrite get_tabulate by exact Hio. rewrite Hsummed.
    set (ls := map (fun l => (l, label_size ins ops l)) others).
    assert (Hfst : map fst ls = others) by (unfold ls; rewrite map_map; cbn [fst]; apply map_id).
    assert (Hsnd : map snd ls = remove_nth k (shape T)) by (unfold ls; rewrite map_map; cbn [snd]; exact Hsizes).
    rewrite (esum_ssum Op Rth ls _ (term Op ins ops)); [| intros; now apply term_ext | now rewrite Hfst].
    rewrite Hsnd, Hfst. unfold ssum. apply (sum_idx_ext F (r0 Op) (radd Op)). intros c Hc.
    assert (Hlc : length c = N - 1).
    { rewrite (inb_length _ _ Hc). apply remove_nth_length. exact Hk. }
    set (e := bind others c (bind [k; rank] [i; r] (fun _ => 0))).
    assert (Ek : e k = i).
    { unfold e. rewrite bind_not_in by (rewrite Hin_o; lia). cbn [bind]. unfold upd. now rewrite Nat.eqb_refl. }
    assert (Er : e rank = r).
    { unfold e. rewrite bind_not_in by (rewrite Hin_o; unfold rank; lia). cbn [bind]. unfold upd.
      destruct (Nat.eqb_spec rank k); [unfold rank in *; lia|]. now rewrite Nat.eqb_refl. }
    assert (Eo : forall j, j < N - 1 -> e (nth j (mv_out N k) 0) = nth j c 0).
    { intros j Hj. unfold e. apply bind_lookup; [exact HNDo | | ]; unfold others; rewrite mv_out_length by exact Hk; lia. }
    unfold term, ins, ops. cbn [app combine map fst snd rprod fold_right].
    change (fold_right (rmul Op) (r1 Op)) with (rprod Op).
    rewrite (map_env_insert e N k i c Hk Hlc Ek Eo). fold e. rewrite Er, (Hgw r Hr).
    rewrite (conj_factor_prod e rank r R Er Hr others fs' c Hm'); [| now rewrite Hrows' | now apply map_env_others].
    rewrite rconj_mul. fold fs'. ring.
Qed.

(* the einsum backend and the default core backend compute the same MTTKRP *)
Corollary mttkrp_backends_agree (T : tensor F) (w : option (tensor F)) (fs : list (tensor F)) (k R : nat) :
  wf T -> k < ndim T -> 0 < prod (shape T) -> 0 < R -> map nrows fs = shape T -> mats R fs -> 2 <= ndim T ->
  (forall w0, w = Some w0 -> wf w0 /\ shape w0 = [R]) ->
  mttkrp Op T w fs k = mttkrp_e Op T w fs k.
Proof.
  intros WT Hk Hpos HR Hrows Hm Hnd Hw.
  assert (Hwok : w_ok w R).
  { intros w0 E. destruct (Hw w0 E) as [_ Hs]. rewrite Hs. cbn [prod fold_right]. lia. }
  destruct (mttkrp_spec Op Rth T w fs k R WT Hk Hpos HR Hrows Hm Hnd Hwok) as [R1 [E1 [W1 [S1 G1]]]].
  destruct (mttkrp_e_spec T w fs k R WT Hk HR Hrows Hm Hw) as [R2 [E2 [W2 [S2 G2]]]].
  rewrite E1, E2. f_equal. apply tensor_ext with (d := d); auto; [congruence|].
  intros idx Hi. rewrite S1 in Hi. destruct idx as [|i [|r [|? ?]]]; cbn [inb] in Hi; try tauto.
  destruct Hi as [Hi [Hr _]]. rewrite G1, G2 by assumption. reflexivity.
Qed.

End P.
