(* einsum_tenalg.multi_mode_dot = core_tenalg.multi_mode_dot.
   The einsum backend builds ONE equation over all operands; the core backend applies mode_dot operand by operand.
   Key lemma (einsum_contract_last): appending one operand whose labels are a label m of the output plus fresh labels, and
   moving m from the output to the summed labels, is the contraction of the previous einsum over m with that operand.
   Instantiated for a matrix operand ([c; m], m replaced by c in the output) and a vector operand ([m], m removed), each
   step of the core loop equals the einsum with one more operand; induction over the sorted operand list. *)
From Coq Require Import List Arith ZArith Lia Ring Bool Permutation.
From TLV Require Import Base.Shape Base.PyList Base.Tensor Base.BigSum Model.Base Proofs.BaseProofs Model.Tenalg
  Proofs.TenalgProofs Proofs.TenalgProofsEinsum Proofs.TenalgProofsInner Proofs.TenalgProofsEinsumInner
  Proofs.TenalgProofsKR Proofs.TenalgProofsMulti Proofs.TenalgProofsSort Proofs.TenalgProofsMultiGen Proofs.TenalgProofsMultiGen2
  Proofs.TenalgProofsTdotE.
Import ListNotations.

(* ---------------------------------------------------------------- list facts *)
Lemma find_app' {A} (f : A -> bool) : forall a b, find f (a ++ b) = match find f a with Some x => Some x | None => find f b end.
Proof. induction a as [|x a IH]; intros b; [reflexivity|]. cbn [app find]. destruct (f x); [reflexivity | apply IH]. Qed.
Lemma find_none_notin (l : nat) : forall (ps : list (nat * nat)), ~ In l (map fst ps) -> find (fun p => Nat.eqb (fst p) l) ps = None.
Proof.
  induction ps as [|[a b] ps IH]; intros H; [reflexivity|]. cbn [find fst]. cbn [map fst] in H.
  destruct (Nat.eqb_spec a l) as [->|Hne]; [exfalso; apply H; now left|]. apply IH. intros H'. apply H. now right.
Qed.
Lemma find_some_in (l : nat) : forall (ps : list (nat * nat)), In l (map fst ps) -> exists v, find (fun p => Nat.eqb (fst p) l) ps = Some (l, v).
Proof.
  induction ps as [|[a b] ps IH]; intros H; [destruct H|]. cbn [find fst]. cbn [map fst] in H.
  destruct (Nat.eqb_spec a l) as [->|Hne]; [now exists b|]. apply IH. destruct H; [contradiction | assumption].
Qed.
Lemma combine_app_eq {A B} : forall (a1 a2 : list A) (b1 b2 : list B), length a1 = length b1 ->
  combine (a1 ++ a2) (b1 ++ b2) = combine a1 b1 ++ combine a2 b2.
Proof. induction a1; intros a2 [|y b1] b2 H; simpl in *; try discriminate; auto. f_equal. apply IHa1. lia. Qed.
Lemma map_fst_combine_eq {A B} : forall (a : list A) (b : list B), length a = length b -> map fst (combine a b) = a.
Proof. induction a; intros [|y b] H; simpl in *; try discriminate; auto. f_equal. apply IHa. lia. Qed.

Lemma In_dedup x : forall l, In x (dedup l) <-> In x l.
Proof.
  induction l as [|a l IH]; [reflexivity|]. cbn [dedup]. split.
  - intros [->|H]; [now left|]. apply filter_In in H. right. apply IH. tauto.
  - intros [->|H]; [now left|]. destruct (Nat.eq_dec x a) as [->|Hne]; [now left|]. right. apply filter_In.
    split; [now apply IH|]. destruct (Nat.eqb_spec x a); [contradiction | reflexivity].
Qed.
Lemma NoDup_dedup : forall l, NoDup (dedup l).
Proof.
  induction l as [|a l IH]; [constructor|]. cbn [dedup]. constructor; [|now apply NoDup_filter].
  intros H. apply filter_In in H. destruct H as [_ H]. rewrite Nat.eqb_refl in H. discriminate.
Qed.
Lemma In_summed ins out x : In x (summed_labels ins out) <-> In x (concat ins) /\ ~ In x out.
Proof.
  unfold summed_labels. rewrite In_dedup, filter_In, negb_true_iff. split; intros [H1 H2]; (split; [exact H1|]).
  - now apply memb_false. - now apply memb_false.
Qed.
Lemma NoDup_summed ins out : NoDup (summed_labels ins out).
Proof. apply NoDup_dedup. Qed.

(* operands and label lists of equal ranks *)
Definition wfI {F} (I : list (list nat)) (Ts : list (tensor F)) : Prop := Forall2 (fun ls t => length ls = length (shape t)) I Ts.
Lemma wfI_length {F} (I : list (list nat)) (Ts : list (tensor F)) : wfI I Ts -> length I = length Ts.
Proof. induction 1; simpl; congruence. Qed.
Lemma wfI_labels {F} (I : list (list nat)) (Ts : list (tensor F)) : wfI I Ts ->
  map fst (concat (map (fun p => combine (fst p) (shape (snd p))) (combine I Ts))) = concat I.
Proof.
  induction 1 as [|ls t I Ts Hl H IH]; [reflexivity|]. cbn [combine map concat fst snd]. rewrite map_app, IH. f_equal.
  now apply map_fst_combine_eq.
Qed.
Lemma label_size_app_old {F} (I I2 : list (list nat)) (Ts T2 : list (tensor F)) l : wfI I Ts -> In l (concat I) ->
  label_size (I ++ I2) (Ts ++ T2) l = label_size I Ts l.
Proof.
  intros Hw Hin. unfold label_size. rewrite combine_app_eq by (now apply wfI_length). rewrite map_app, concat_app, find_app'.
  destruct (find_some_in l (concat (map (fun p => combine (fst p) (shape (snd p))) (combine I Ts)))) as [v Ev]; [now rewrite wfI_labels|].
  now rewrite Ev.
Qed.
Lemma label_size_app_new {F} (I I2 : list (list nat)) (Ts T2 : list (tensor F)) l : wfI I Ts -> ~ In l (concat I) ->
  label_size (I ++ I2) (Ts ++ T2) l = label_size I2 T2 l.
Proof.
  intros Hw Hin. unfold label_size. rewrite combine_app_eq by (now apply wfI_length). rewrite map_app, concat_app, find_app'.
  rewrite find_none_notin by (now rewrite wfI_labels). reflexivity.
Qed.

(* bind under list surgery on the output labels *)
Lemma bind_remove (e : env) i l : forall out q ridx, S (length ridx) = length out -> q < length out ->
  l <> nth q out 0 -> ~ In (nth q out 0) (remove_nth q out) ->
  bind (remove_nth q out) ridx e l = bind out (insert_at q i ridx) e l.
Proof.
  induction out as [|a out IH]; intros q ridx Hl Hq Hne Hnin; [simpl in Hq; lia|].
  destruct q as [|q].
  - cbn [remove_nth insert_at nth bind] in *. unfold upd. destruct (Nat.eqb_spec l a); [contradiction | reflexivity].
  - destruct ridx as [|r ridx]; [simpl in Hl; destruct out; simpl in *; lia|].
    cbn [remove_nth insert_at nth bind] in *. unfold upd. destruct (Nat.eqb_spec l a); [reflexivity|].
    apply IH; [simpl in Hl; lia | simpl in Hq; lia | exact Hne | intros H; apply Hnin; now right].
Qed.
Lemma bind_set (e : env) c v l : forall out q idx, length idx = length out -> q < length out ->
  l <> nth q out 0 -> l <> c ->
  bind (set_nth q c out) idx e l = bind out (set_nth q v idx) e l.
Proof.
  induction out as [|a out IH]; intros q idx Hl Hq Hne Hc; [simpl in Hq; lia|].
  destruct idx as [|r idx]; [simpl in Hl; lia|]. destruct q as [|q].
  - cbn [set_nth nth bind] in *. unfold upd. destruct (Nat.eqb_spec l c); [contradiction|]. destruct (Nat.eqb_spec l a); [contradiction | reflexivity].
  - cbn [set_nth nth bind] in *. unfold upd. destruct (Nat.eqb_spec l a); [reflexivity|].
    apply IH; [simpl in Hl; lia | simpl in Hq; lia | exact Hne | exact Hc].
Qed.
Lemma map_set_nth {A B} (f : A -> B) c : forall q l, map f (set_nth q c l) = set_nth q (f c) (map f l).
Proof. induction q; intros [|x l]; simpl; try reflexivity. now rewrite IHq. Qed.
Lemma map_remove_nth {A B} (f : A -> B) : forall q l, map f (remove_nth q l) = remove_nth q (map f l).
Proof. induction q; intros [|x l]; simpl; try reflexivity. now rewrite IHq. Qed.
Lemma In_set_nth {A} (c : A) x : forall q l, In x (set_nth q c l) -> x = c \/ In x l.
Proof.
  induction q; intros [|a l] H; simpl in *; try tauto.
  - destruct H; [left; congruence | tauto].
  - destruct H; [tauto|]. destruct (IHq l H); tauto.
Qed.
Lemma In_remove_nth {A} (x : A) : forall q l, In x (remove_nth q l) -> In x l.
Proof. induction q; intros [|a l] H; simpl in *; try tauto. destruct H; [tauto|]. right. now apply IHq. Qed.
Lemma In_set_nth_other {A} (c d : A) : forall q l k, k < length l -> k <> q -> In (nth k l d) (set_nth q c l).
Proof. intros q l k Hk Hne. rewrite <- (nth_set_nth_other q c d l k Hne). apply nth_In. now rewrite set_nth_length. Qed.
Lemma NoDup_set_nth_fresh (c : nat) : forall q l, NoDup l -> ~ In c l -> NoDup (set_nth q c l).
Proof.
  induction q; intros [|a l] Hnd Hc; simpl; try constructor; inversion Hnd; subst.
  - intros H. apply Hc. now right. - assumption.
  - intros H. apply In_set_nth in H. destruct H as [->|H]; [apply Hc; now left | contradiction].
  - apply IHq; [assumption | intros H; apply Hc; now right].
Qed.
Lemma NoDup_remove_nth {A} : forall q (l : list A), NoDup l -> NoDup (remove_nth q l).
Proof.
  induction q; intros [|a l] Hnd; simpl; try constructor; inversion Hnd; subst; try assumption.
  - intros H. apply In_remove_nth in H. contradiction. - now apply IHq.
Qed.
Lemma nth_notin_remove_nth (d : nat) : forall q (l : list nat), NoDup l -> q < length l -> ~ In (nth q l d) (remove_nth q l).
Proof.
  induction q; intros [|a l] Hnd Hq; simpl in *; try lia; inversion Hnd; subst; [assumption|].
  intros [E|H]; [apply H1; rewrite E; apply nth_In; lia | apply (IHq l); [assumption | lia | assumption]].
Qed.
Lemma In_remove_nth_other (d : nat) x : forall q (l : list nat), In x l -> x <> nth q l d -> In x (remove_nth q l).
Proof.
  induction q; intros [|a l] H Hne; simpl in *; try tauto.
  - destruct H; [congruence | assumption].
  - destruct H; [now left | right; now apply IHq].
Qed.
Lemma In_set_nth_keep (c : nat) x d : forall q (l : list nat), In x l -> x <> nth q l d -> In x (set_nth q c l).
Proof.
  induction q; intros [|a l] H Hne; simpl in *; try tauto.
  - destruct H; [congruence | now right].
  - destruct H; [now left | right; now apply IHq].
Qed.
Lemma In_set_nth_new {A} (c : A) : forall q l, q < length l -> In c (set_nth q c l).
Proof. induction q; intros [|a l] H; simpl in *; try lia; [now left | right; apply IHq; lia]. Qed.
Lemma skipn_seq : forall k a n, skipn k (seq a n) = seq (a + k) (n - k).
Proof.
  induction k; intros a n; [now rewrite Nat.add_0_r, Nat.sub_0_r|]. destruct n; [reflexivity|]. cbn [seq skipn].
  rewrite IHk. f_equal; lia.
Qed.
Lemma skipn_set_nth {A} (c : A) : forall q l, skipn (S q) (set_nth q c l) = skipn (S q) l.
Proof. induction q; intros [|a l]; simpl; try reflexivity. apply IHq. Qed.
Lemma skipn_remove_nth {A} : forall q (l : list A), skipn q (remove_nth q l) = skipn (S q) l.
Proof. induction q; intros [|a l]; simpl; try reflexivity. apply IHq. Qed.

Section P.
Context {F : Type} (Op : rops F).
Hypothesis Rth : ring_theory (r0 Op) (r1 Op) (radd Op) (rmul Op) (rsub Op) (ropp Op) (@eq F).
Add Ring Fr23 : Rth.
Notation d := (r0 Op).
Infix "*r" := (rmul Op) (at level 40, left associativity).
Notation e0 := (fun _ : nat => 0).

(* ---------------------------------------------------------------- sums over environments *)
Lemma esum_sim : forall (S : list (nat * nat)) (e1 e2 : env) (f1 f2 : env -> F),
  (forall e1' e2', (forall l, In l (map fst S) -> e1' l = e2' l) ->
                   (forall l, ~ In l (map fst S) -> e1' l = e1 l /\ e2' l = e2 l) -> f1 e1' = f2 e2') ->
  esum Op S e1 f1 = esum Op S e2 f2.
Proof.
  induction S as [|[l0 n] r IH]; intros e1 e2 f1 f2 H; cbn [esum].
  - apply H; [intros l [] | intros l _; split; reflexivity].
  - apply bs_ext. intros v _. apply IH. intros e1' e2' Hin Hout. apply H.
    + intros l Hl. cbn [map fst] in Hl. destruct (in_dec Nat.eq_dec l (map fst r)) as [Hr|Hr]; [now apply Hin|].
      destruct Hl as [<-|Hl]; [|contradiction]. destruct (Hout l0 Hr) as [E1 E2]. rewrite E1, E2. unfold upd. now rewrite Nat.eqb_refl.
    + intros l Hl. cbn [map fst] in Hl. assert (Hr : ~ In l (map fst r)) by (intros Hr; apply Hl; now right). destruct (Hout l Hr) as [E1 E2].
      rewrite E1, E2. unfold upd. destruct (Nat.eqb_spec l l0) as [->|]; [exfalso; apply Hl; now left | split; reflexivity].
Qed.
Lemma esum_bsum_exchange : forall (S : list (nat * nat)) (e : env) n (g : env -> nat -> F),
  esum Op S e (fun e' => bsum Op n (fun v => g e' v)) = bsum Op n (fun v => esum Op S e (fun e' => g e' v)).
Proof.
  induction S as [|[l0 k] r IH]; intros e n g; cbn [esum]; [reflexivity|].
  rewrite (bs_ext Op k _ (fun x => bsum Op n (fun v => esum Op r (upd e l0 x) (fun e' => g e' v)))) by (intros; apply IH).
  unfold bsum. apply (bigsum_exchange F (r0 Op) (r1 Op) (radd Op) (rmul Op) (rsub Op) (ropp Op) Rth).
Qed.
Lemma esum_scale_r : forall (S : list (nat * nat)) (e : env) (f : env -> F) c,
  esum Op S e (fun e' => f e' *r c) = esum Op S e f *r c.
Proof.
  induction S as [|[l0 k] r IH]; intros e f c; cbn [esum]; [reflexivity|].
  rewrite (bs_ext Op k _ (fun x => esum Op r (upd e l0 x) f *r c)) by (intros; apply IH).
  unfold bsum. apply (bigsum_scale_r F (r0 Op) (r1 Op) (radd Op) (rmul Op) (rsub Op) (ropp Op) Rth).
Qed.
Lemma esum_snoc : forall (S : list (nat * nat)) m n (e : env) (f : env -> F),
  esum Op (S ++ [(m, n)]) e f = esum Op S e (fun e' => bsum Op n (fun v => f (upd e' m v))).
Proof. induction S as [|[l0 k] r IH]; intros m n e f; cbn [app esum]; [reflexivity|]. apply bs_ext. intros v _. apply IH. Qed.

Lemma rprod_snoc l x : rprod Op (l ++ [x]) = rprod Op l *r x.
Proof. induction l as [|a l IH]; cbn [app rprod fold_right]; [ring|]. fold (rprod Op (l ++ [x])) (rprod Op l). rewrite IH. ring. Qed.
Lemma term_snoc (I : list (list nat)) (Ts : list (tensor F)) lx X e : length I = length Ts ->
  term Op (I ++ [lx]) (Ts ++ [X]) e = term Op I Ts e *r get d X (map e lx).
Proof. intros Hl. unfold term. rewrite combine_app_eq by exact Hl. rewrite map_app. cbn [combine map fst snd]. apply rprod_snoc. Qed.
Lemma term_ext_in (I : list (list nat)) (Ts : list (tensor F)) e1 e2 : (forall l, In l (concat I) -> e1 l = e2 l) ->
  term Op I Ts e1 = term Op I Ts e2.
Proof.
  intros H. unfold term. f_equal. apply map_ext_in. intros [ls t] Hp. cbn [fst snd]. f_equal. apply map_ext_in. intros l Hl.
  apply H. apply in_concat. exists ls. split; [|exact Hl]. now apply in_combine_l in Hp.
Qed.

(* ---------------------------------------------------------------- contracting the last operand over one output label *)
Lemma einsum_contract_last (I : list (list nat)) (Ts : list (tensor F)) (out out' lx : list nat) (X : tensor F) (m : nat)
      (idx : list nat) (rho : nat -> env) :
  wfI I Ts -> In m out -> In m (concat I) -> ~ In m out' ->
  (forall l, In l lx -> l <> m -> ~ In l (concat I) /\ In l out') ->
  (forall l, In l out' -> In l out \/ In l lx) ->
  (forall l, In l out -> l <> m -> In l out') ->
  (forall v l, In l (concat I) -> ~ In l (summed_labels I out) -> rho v l = upd (bind out' idx e0) m v l) ->
  let sz := label_size I Ts in let sz' := label_size (I ++ [lx]) (Ts ++ [X]) in
  esum Op (map (fun l => (l, sz' l)) (summed_labels (I ++ [lx]) out')) (bind out' idx e0) (term Op (I ++ [lx]) (Ts ++ [X]))
  = bsum Op (sz m) (fun v => esum Op (map (fun l => (l, sz l)) (summed_labels I out)) (rho v) (term Op I Ts)
                             *r get d X (map (upd (bind out' idx e0) m v) lx)).
Proof.
  intros Hw Hmout HmI Hmout' Hfresh Hout' Hout Hrho sz sz'.
  set (S := summed_labels I out). set (S' := summed_labels (I ++ [lx]) out'). set (e1 := bind out' idx e0).
  assert (Hcat : concat (I ++ [lx]) = concat I ++ lx) by (rewrite concat_app; cbn [concat]; now rewrite app_nil_r).
  assert (HmS : ~ In m S) by (unfold S; rewrite In_summed; tauto).
  assert (HSI : forall l, In l S -> In l (concat I)) by (intros l Hl; apply In_summed in Hl; tauto).
  assert (Hperm : Permutation S' (S ++ [m])).
  { apply NoDup_Permutation; [apply NoDup_summed | apply NoDup_app_intro; [apply NoDup_summed | repeat constructor; intros [] |]|].
    - intros x Hx [<-|[]]. contradiction.
    - intros x. unfold S', S. rewrite in_app_iff, !In_summed, Hcat, in_app_iff. cbn [In]. split.
      + intros [[Hx|Hx] Hn].
        * destruct (Nat.eq_dec x m) as [->|Hne]; [tauto|]. left. split; [exact Hx|]. intros Ho. apply Hn. now apply Hout.
        * destruct (Nat.eq_dec x m) as [->|Hne]; [tauto|]. exfalso. apply Hn. now apply Hfresh.
      + intros [[Hx Hn]|[<-|[]]]; [|tauto]. split; [now left|]. intros Ho. destruct (Hout' x Ho) as [H|H]; [contradiction|].
        destruct (Nat.eq_dec x m) as [->|Hne]; [contradiction|]. apply (Hfresh x H Hne). exact Hx. }
  rewrite (esum_perm Op Rth _ (map (fun l => (l, sz' l)) (S ++ [m])));
    [| now apply Permutation_map | intros; now apply term_ext | rewrite map_map; cbn [fst]; rewrite map_id; apply NoDup_summed].
  rewrite map_app. cbn [map].
  assert (Hszm : sz' m = sz m) by (apply label_size_app_old; assumption).
  assert (HszS : map (fun l => (l, sz' l)) S = map (fun l => (l, sz l)) S).
  { apply map_ext_in. intros l Hl. f_equal. apply label_size_app_old; [exact Hw | now apply HSI]. }
  rewrite HszS, Hszm, esum_snoc, esum_bsum_exchange. apply bs_ext. intros v _.
  rewrite <- esum_scale_r. apply esum_sim. intros e1' e2' Hin Hoff.
  assert (HfstS : map fst (map (fun l => (l, sz l)) S) = S) by (rewrite map_map; cbn [fst]; apply map_id).
  rewrite HfstS in Hin, Hoff.
  rewrite term_snoc by (now apply wfI_length). f_equal.
  - apply term_ext_in. intros l Hl. unfold upd at 1. destruct (Nat.eqb_spec l m) as [->|Hne].
    + destruct (Hoff m HmS) as [_ E2]. rewrite E2, Hrho by assumption. unfold upd. now rewrite Nat.eqb_refl.
    + destruct (in_dec Nat.eq_dec l S) as [HlS|HlS]; [now apply Hin|].
      destruct (Hoff l HlS) as [E1 E2]. rewrite E1, E2, Hrho by assumption. unfold upd. destruct (Nat.eqb_spec l m); [contradiction | reflexivity].
  - f_equal. apply map_ext_in. intros l Hl. unfold upd. destruct (Nat.eqb_spec l m) as [->|Hne]; [reflexivity|].
    apply Hoff. intros HlS. apply (Hfresh l Hl Hne). now apply HSI.
Qed.


(* ---------------------------------------------------------------- one step of the core loop = one more einsum operand *)
Lemma shape_einsum I out (Ts : list (tensor F)) : shape (einsum Op I out Ts) = map (label_size I Ts) out.
Proof. reflexivity. Qed.

Lemma einsum_step_matrix (I : list (list nat)) (Ts : list (tensor F)) (out : list nat) (q c J : nat) (M : tensor F) :
  wfI I Ts -> NoDup out -> (forall l, In l out -> In l (concat I)) -> q < length out -> ~ In c (concat I) ->
  wf M -> shape M = [J; label_size I Ts (nth q out 0)] -> 0 < J -> 0 < prod (map (label_size I Ts) out) ->
  mode_dot Op (einsum Op I out Ts) M q false = Ok (einsum Op (I ++ [[c; nth q out 0]]) (set_nth q c out) (Ts ++ [M])).
Proof.
  intros Hw Hnd HoutI Hq Hc WM HsM HJ Hpos.
  set (m := nth q out 0) in *. set (E := einsum Op I out Ts). set (sz := label_size I Ts) in *.
  set (I' := I ++ [[c; m]]). set (Ts' := Ts ++ [M]). set (out' := set_nth q c out). set (sz' := label_size I' Ts').
  assert (Hmout : In m out) by (apply nth_In; exact Hq).
  assert (HmI : In m (concat I)) by (now apply HoutI).
  assert (Hcm : c <> m) by (intros ->; contradiction).
  assert (Hcout : ~ In c out) by (intros H; apply Hc; now apply HoutI).
  assert (HsE : shape E = map sz out) by reflexivity.
  assert (Hnq : nth q (shape E) 0 = sz m) by (rewrite HsE; now apply nth_map').
  destruct (mode_dot_matrix_spec Op E M q false J (sz m)) as [R [HR [WR [SR GR]]]];
    [apply wf_tabulate | exact WM | unfold ndim; rewrite HsE, map_length; exact Hq | rewrite HsE; exact Hpos | exact HsM | now rewrite Hnq | exact HJ|].
  cbn [negb] in SR. rewrite HR. f_equal.
  assert (Hszc : sz' c = J).
  { unfold sz', I', Ts'. rewrite label_size_app_new by assumption. unfold label_size. cbn [combine map concat fst snd app]. rewrite HsM.
    cbn [combine find fst app]. now rewrite Nat.eqb_refl. }
  assert (Hszold : forall l, In l (concat I) -> sz' l = sz l) by (intros l Hl; apply label_size_app_old; assumption).
  assert (Hshape : map sz' out' = set_nth q J (map sz out)).
  { unfold out'. rewrite map_set_nth, Hszc. f_equal. apply map_ext_in. intros l Hl. apply Hszold. now apply HoutI. }
  assert (HNDout' : NoDup out') by (now apply NoDup_set_nth_fresh).
  assert (Hnq' : nth q out' 0 = c) by (now apply nth_set_nth_same).
  apply tensor_ext with (d := d); [exact WR | apply wf_tabulate | rewrite SR, HsE; symmetry; exact Hshape|].
  intros idx Hidx. rewrite GR by exact Hidx. rewrite SR, HsE in Hidx.
  assert (Hlidx : length idx = length out) by (rewrite (inb_length _ _ Hidx), set_nth_length, map_length; reflexivity).
  unfold einsum. rewrite get_tabulate by (fold sz'; fold out'; rewrite Hshape; exact Hidx).
  unfold I', Ts'.
  rewrite (einsum_contract_last I Ts out out' [c; m] M m idx (fun v => bind out (set_nth q v idx) e0)); try assumption.
  - fold sz. rewrite Hnq. apply bs_ext. intros v Hv. unfold mentry. rewrite (Rmul_comm Rth). f_equal.
    + unfold E, einsum. rewrite get_tabulate; [reflexivity|]. fold sz.
      apply (inb_set_nth_back q (map sz out) idx J v); [now rewrite map_length | exact Hidx | rewrite (nth_map' _ _ _ 0) by exact Hq; exact Hv].
    + cbn [map]. unfold upd. destruct (Nat.eqb_spec c m); [contradiction|]. rewrite Nat.eqb_refl.
      replace (bind out' idx e0 c) with (nth q idx 0); [reflexivity|]. symmetry. rewrite <- Hnq' at 1. apply bind_lookup; [exact HNDout' | unfold out'; now rewrite set_nth_length | unfold out'; now rewrite set_nth_length].
  - intros H. destruct (In_nth _ _ 0 H) as [k [Hk Ek]]. unfold out' in Hk. rewrite set_nth_length in Hk. destruct (Nat.eq_dec k q) as [->|Hne].
    + rewrite Hnq' in Ek. now apply Hcm.
    + unfold out' in Ek. rewrite nth_set_nth_other in Ek by exact Hne. apply Hne. apply (NoDup_nth out 0); [exact Hnd | exact Hk | exact Hq | exact Ek].
  - intros l [<-|[<-|[]]] Hne; [|contradiction]. split; [exact Hc|]. unfold out'. now apply In_set_nth_new.
  - intros l Hl. unfold out' in Hl. apply In_set_nth in Hl. destruct Hl as [->|Hl]; [right; now left | now left].
  - intros l Hl Hne. unfold out'. now apply In_set_nth_keep with (d := 0).
  - intros v l HlI HlS.
    assert (Hlout : In l out).
    { destruct (in_dec Nat.eq_dec l out) as [H|H]; [exact H|]. exfalso. apply HlS. apply In_summed. tauto. }
    unfold upd. destruct (Nat.eqb_spec l m) as [->|Hne].
    + unfold m. rewrite bind_lookup; [now apply nth_set_nth_same; rewrite Hlidx | exact Hnd | now rewrite set_nth_length | exact Hq].
    + symmetry. apply bind_set; [exact Hlidx | exact Hq | exact Hne | intros ->; contradiction].
Qed.

Lemma einsum_step_vector (I : list (list nat)) (Ts : list (tensor F)) (out : list nat) (q : nat) (V : tensor F) :
  wfI I Ts -> NoDup out -> (forall l, In l out -> In l (concat I)) -> q < length out ->
  shape V = [label_size I Ts (nth q out 0)] -> 0 < prod (map (label_size I Ts) out) ->
  mode_dot Op (einsum Op I out Ts) V q false = Ok (einsum Op (I ++ [[nth q out 0]]) (remove_nth q out) (Ts ++ [V])).
Proof.
  intros Hw Hnd HoutI Hq HsV Hpos.
  set (m := nth q out 0) in *. set (E := einsum Op I out Ts). set (sz := label_size I Ts) in *.
  set (I' := I ++ [[m]]). set (Ts' := Ts ++ [V]). set (out' := remove_nth q out). set (sz' := label_size I' Ts').
  assert (Hmout : In m out) by (apply nth_In; exact Hq).
  assert (HmI : In m (concat I)) by (now apply HoutI).
  assert (HsE : shape E = map sz out) by reflexivity.
  assert (Hnq : nth q (shape E) 0 = sz m) by (rewrite HsE; now apply nth_map').
  destruct (mode_dot_vector_spec Op E V q false (sz m)) as [R [HR [WR [SR GR]]]];
    [apply wf_tabulate | unfold ndim; rewrite HsE, map_length; exact Hq | rewrite HsE; exact Hpos | exact HsV | now rewrite Hnq|].
  rewrite HR. f_equal.
  assert (Hszold : forall l, In l (concat I) -> sz' l = sz l) by (intros l Hl; apply label_size_app_old; assumption).
  assert (Hout'sub : forall l, In l out' -> In l out) by (intros l Hl; now apply In_remove_nth in Hl).
  assert (Hshape : map sz' out' = remove_nth q (map sz out)).
  { unfold out'. rewrite <- map_remove_nth. apply map_ext_in. intros l Hl. apply Hszold. apply HoutI. now apply Hout'sub. }
  assert (Hmout' : ~ In m out') by (now apply nth_notin_remove_nth).
  apply tensor_ext with (d := d); [exact WR | apply wf_tabulate | rewrite SR, HsE; symmetry; exact Hshape|].
  intros idx Hidx. rewrite GR by exact Hidx. rewrite SR, HsE in Hidx.
  assert (Hlidx : S (length idx) = length out).
  { rewrite (inb_length _ _ Hidx), remove_nth_length, map_length by (now rewrite map_length). lia. }
  unfold einsum. rewrite get_tabulate by (fold sz'; fold out'; rewrite Hshape; exact Hidx).
  unfold I', Ts'.
  rewrite (einsum_contract_last I Ts out out' [m] V m idx (fun v => bind out (insert_at q v idx) e0)); try assumption.
  - fold sz. apply bs_ext. intros v Hv. rewrite (Rmul_comm Rth). f_equal.
    + unfold E, einsum. rewrite get_tabulate; [reflexivity|]. fold sz.
      apply (inb_insert_at_back q (map sz out) idx v); [now rewrite map_length | exact Hidx | rewrite (nth_map' _ _ _ 0) by exact Hq; exact Hv].
    + cbn [map]. unfold upd. now rewrite Nat.eqb_refl.
  - intros l [<-|[]] Hne. contradiction.
  - intros l Hl. left. now apply Hout'sub.
  - intros l Hl Hne. unfold out'. now apply In_remove_nth_other with (d := 0).
  - intros v l HlI HlS.
    assert (Hlout : In l out).
    { destruct (in_dec Nat.eq_dec l out) as [H|H]; [exact H|]. exfalso. apply HlS. apply In_summed. tauto. }
    unfold upd. destruct (Nat.eqb_spec l m) as [->|Hne].
    + unfold m. rewrite bind_lookup; [apply nth_insert_same; lia | exact Hnd | rewrite insert_at_length; lia | exact Hq].
    + symmetry. apply bind_remove; [exact Hlidx | exact Hq | exact Hne | exact Hmout'].
Qed.


(* ---------------------------------------------------------------- the two loops *)
Lemma prod_pos_Forall : forall l, 0 < prod l <-> Forall (fun x => 0 < x) l.
Proof.
  induction l as [|x l IH]; [split; [constructor | cbn; lia]|]. rewrite prod_cons. split.
  - intros H. constructor; [nia | apply IH; nia].
  - intros H. inversion H; subst. apply IH in H3. nia.
Qed.

Lemma mode_dot_vec_ext (T v1 v2 : tensor F) k n : wf T -> k < ndim T -> 0 < prod (shape T) ->
  shape v1 = [n] -> shape v2 = [n] -> n = nth k (shape T) 0 -> (forall i, i < n -> get d v1 [i] = get d v2 [i]) ->
  mode_dot Op T v1 k false = mode_dot Op T v2 k false.
Proof.
  intros WT Hk Hpos H1 H2 Hn Hg.
  destruct (mode_dot_vector_spec Op T v1 k false n WT Hk Hpos H1 Hn) as [R1 [E1 [W1 [S1 G1]]]].
  destruct (mode_dot_vector_spec Op T v2 k false n WT Hk Hpos H2 Hn) as [R2 [E2 [W2 [S2 G2]]]].
  rewrite E1, E2. f_equal. apply tensor_ext with (d := d); auto; [congruence|].
  intros idx Hi. rewrite G1 by exact Hi. rewrite G2 by (rewrite S2, <- S1; exact Hi). apply bs_ext. intros i Hi'. now rewrite Hg.
Qed.

Lemma mmd_e_loop_filter_skip skip tr order : forall (l : list (@triple F)) st,
  mmd_e_loop Op l skip tr order st = mmd_e_loop Op (filter (fun x => negb (is_skip skip (snd x))) l) None tr order st.
Proof.
  induction l as [|[[M m] i] l IH]; intros st; [reflexivity|].
  cbn [mmd_e_loop filter snd]. destruct (is_skip skip i) eqn:E; cbn [negb]; [apply IH|].
  cbn [mmd_e_loop is_skip]. cbv zeta. destruct (negb (m - s_dec st <? length (s_out st))); [reflexivity|].
  destruct (ndim M) as [|[|[|k]]]; try reflexivity; apply IH.
Qed.

Lemma einsum_id (T : tensor F) : wf T -> einsum Op [seq 0 (ndim T)] (seq 0 (ndim T)) [T] = T.
Proof.
  intros W. set (N := ndim T).
  assert (Hsz : forall l, l < N -> label_size [seq 0 N] [T] l = nth l (shape T) 0).
  { intros l Hl. unfold label_size. cbn [combine map concat fst snd]. unfold N, ndim.
    rewrite (find_combine_seq _ 0) by (fold (ndim T); fold N; lia). cbn [snd]. now rewrite Nat.sub_0_r. }
  assert (Hshape : map (label_size [seq 0 N] [T]) (seq 0 N) = shape T).
  { apply nth_ext with (d := 0) (d' := 0); [now rewrite map_length, seq_length|]. intros j Hj. rewrite map_length, seq_length in Hj.
    rewrite (nth_map' _ _ _ 0) by (now rewrite seq_length). rewrite seq_nth by exact Hj. now apply Hsz. }
  apply tensor_ext with (d := d); [apply wf_tabulate | exact W | exact Hshape|].
  intros idx Hi0. assert (Hi : inb (map (label_size [seq 0 N] [T]) (seq 0 N)) idx) by exact Hi0. clear Hi0.
  unfold einsum. rewrite get_tabulate by exact Hi.
  assert (Hsum : summed_labels [seq 0 N] (seq 0 N) = []).
  { unfold summed_labels. cbn [concat]. rewrite app_nil_r. rewrite filter_seq_none; [reflexivity|].
    intros l Hl. apply negb_false_iff. apply memb_In. apply in_seq. lia. }
  rewrite Hsum. cbn [map esum]. unfold term. cbn [combine map fst snd rprod fold_right].
  assert (Hl : length idx = N) by (rewrite (inb_length _ _ Hi), map_length, seq_length; reflexivity).
  assert (E : map (bind (seq 0 N) idx e0) (seq 0 N) = idx).
  { apply nth_ext with (d := 0) (d' := 0); [now rewrite map_length, seq_length|]. intros j Hj. rewrite map_length, seq_length in Hj.
    rewrite (nth_map' _ _ _ 0) by (now rewrite seq_length).
    apply bind_lookup; [apply seq_NoDup | now rewrite seq_length | now rewrite seq_length]. }
  rewrite E. ring.
Qed.

Lemma wfI_snoc (I : list (list nat)) (Ts : list (tensor F)) lx X : wfI I Ts -> length lx = length (shape X) -> wfI (I ++ [lx]) (Ts ++ [X]).
Proof. intros H1 H2. apply Forall2_app; [exact H1 | now constructor]. Qed.

Lemma max_all_eq c : forall xs, xs <> [] -> (forall x, In x xs -> x = c) -> fold_right Nat.max 0 xs = c.
Proof.
  induction xs as [|x xs IH]; intros Hne H; [congruence|]. cbn [fold_right]. rewrite (H x (or_introl eq_refl)).
  destruct xs as [|y xs]; [cbn; lia|]. rewrite IH; [lia | discriminate | intros z Hz; apply H; now right].
Qed.
(* when all axes of a label agree np.einsum broadcasts nothing: the call is the plain einsum of the model *)
Lemma einsum_np_sizes_ok (ins : list (list nat)) (out : list nat) (ts : list (tensor F)) :
  length ins = length ts -> einsum_sizes_ok ins ts = true -> einsum_np Op ins out ts = Ok (einsum Op ins out ts).
Proof.
  intros Hlen Hok. unfold einsum_sizes_ok in Hok. rewrite forallb_forall in Hok.
  set (pairs := concat (map (fun p => combine (fst p) (shape (snd p))) (combine ins ts))).
  assert (Hpair : forall ls t l sz, In (ls, t) (combine ins ts) -> In (l, sz) (combine ls (shape t)) -> sz = label_size ins ts l /\ In (l, sz) pairs).
  { intros ls t l sz Hp Hq. specialize (Hok _ Hp). cbn [fst snd] in Hok. apply andb_true_iff in Hok. destruct Hok as [_ H2].
    rewrite forallb_forall in H2. specialize (H2 _ Hq). cbn [fst snd] in H2. apply Nat.eqb_eq in H2. split; [exact H2|].
    unfold pairs. apply in_concat. exists (combine ls (shape t)). split; [|exact Hq].
    apply in_map_iff. exists (ls, t). split; [reflexivity | exact Hp]. }
  assert (Hall : forall l sz, In (l, sz) pairs -> sz = label_size ins ts l).
  { intros l sz Hin. unfold pairs in Hin. apply in_concat in Hin. destruct Hin as [c [Hc Hin]].
    apply in_map_iff in Hc. destruct Hc as [[ls t] [<- Hp]]. cbn [fst snd] in Hin. now destruct (Hpair ls t l sz Hp Hin). }
  assert (Hfull : forall l sz, In (l, sz) pairs -> label_full ins ts l = label_size ins ts l).
  { intros l sz Hin. unfold label_full. fold pairs. apply max_all_eq.
    - intros E. assert (Hx : In sz (map snd (filter (fun p => fst p =? l) pairs))).
      { apply in_map_iff. exists (l, sz). split; [reflexivity|]. apply filter_In. split; [exact Hin | cbn [fst]; apply Nat.eqb_refl]. }
      rewrite E in Hx. destruct Hx.
    - intros x Hx. apply in_map_iff in Hx. destruct Hx as [[l' sz'] [<- Hf]]. apply filter_In in Hf. destruct Hf as [Hf E].
      cbn [fst snd] in *. apply Nat.eqb_eq in E. subst l'. now apply Hall. }
  assert (Hb : einsum_bcast_ok ins ts = true).
  { unfold einsum_bcast_ok. apply forallb_forall. intros [ls t] Hp. cbn [fst snd]. pose proof (Hok _ Hp) as H. cbn [fst snd] in H.
    apply andb_true_iff in H. destruct H as [H1 _]. apply andb_true_iff. split; [exact H1|].
    apply forallb_forall. intros [l sz] Hq. cbn [fst snd]. destruct (Hpair ls t l sz Hp Hq) as [E Hin].
    rewrite (Hfull l sz Hin), E, Nat.eqb_refl. reflexivity. }
  unfold einsum_np. rewrite Hb. f_equal. f_equal.
  rewrite <- (map_snd_combine_eq ins ts Hlen) at 2. apply map_ext_in. intros [ls t] Hp. cbn [fst snd].
  pose proof (Hok _ Hp) as H. cbn [fst snd] in H. apply andb_true_iff in H. destruct H as [H1 _]. apply Nat.eqb_eq in H1. unfold ndim in H1.
  assert (E : map (label_full ins ts) ls = shape t).
  { apply nth_ext with (d := 0) (d' := 0); [now rewrite map_length|]. intros k Hk. rewrite map_length in Hk.
    rewrite (nth_map' _ _ _ 0) by exact Hk.
    assert (Hq : In (nth k ls 0, nth k (shape t) 0) (combine ls (shape t))).
    { rewrite <- (combine_nth ls (shape t) k 0 0 H1). apply nth_In. rewrite combine_length. lia. }
    destruct (Hpair ls t _ _ Hp Hq) as [E Hin]. now rewrite (Hfull _ _ Hin), E. }
  unfold bcast_operand. rewrite E, nat_list_eq_refl. reflexivity.
Qed.

Lemma sizes_ok_snoc (I : list (list nat)) (Ts : list (tensor F)) lx X : wfI I Ts -> einsum_sizes_ok I Ts = true ->
  length lx = length (shape X) ->
  (forall k, k < length lx -> nth k (shape X) 0 = label_size (I ++ [lx]) (Ts ++ [X]) (nth k lx 0)) ->
  einsum_sizes_ok (I ++ [lx]) (Ts ++ [X]) = true.
Proof.
  intros Hw Hok Hl Hx. unfold einsum_sizes_ok in *. rewrite combine_app_eq by (now apply wfI_length). rewrite forallb_app.
  apply andb_true_iff. split.
  - rewrite forallb_forall in Hok |- *. intros [ls t] Hp. specialize (Hok _ Hp). cbn [fst snd] in *.
    apply andb_true_iff in Hok. destruct Hok as [H1 H2]. apply andb_true_iff. split; [exact H1|].
    rewrite forallb_forall in H2 |- *. intros [l sz] Hq. specialize (H2 _ Hq). cbn [fst snd] in *.
    rewrite label_size_app_old; [exact H2 | exact Hw|]. apply in_concat. exists ls. split; [now apply in_combine_l in Hp | now apply in_combine_l in Hq].
  - cbn [combine forallb fst snd]. rewrite andb_true_r. apply andb_true_iff. split; [apply Nat.eqb_eq; exact Hl|].
    apply forallb_forall. intros [l sz] Hq. cbn [fst snd]. destruct (In_nth _ _ (0, 0) Hq) as [k [Hk Ek]].
    rewrite combine_length in Hk. rewrite combine_nth in Ek by exact Hl. injection Ek as <- <-. apply Nat.eqb_eq. apply Hx. lia.
Qed.

Lemma mmd_loops_agree (tr : bool) (T : tensor F) : forall (L : list (@triple F)) (st : mmd_state) p,
  let order := ndim T in
  let I := seq 0 order :: s_ins st in let Ts := T :: s_ops st in let out := s_out st in
  wfI I Ts -> NoDup out -> (forall l, In l out -> In l (concat I)) -> (forall l, In l (concat I) -> l < s_counter st) ->
  s_dec st <= p -> skipn (p - s_dec st) out = seq p (order - p) ->
  0 < prod (map (label_size I Ts) out) -> (forall l, l < order -> label_size I Ts l = nth l (shape T) 0) ->
  einsum_sizes_ok I Ts = true ->
  lsorted (@t_mode F) L -> NoDup (map (@t_mode F) L) -> Forall (operand_fits tr (shape T)) L -> (forall y, In y L -> p <= t_mode y) ->
  mmd_loop Op L None tr (s_dec st) (einsum Op I out Ts)
  = rbind (mmd_e_loop Op L None tr order st) (fun st' =>
      if einsum_sizes_ok (seq 0 order :: s_ins st') (T :: s_ops st')
      then Ok (einsum Op (seq 0 order :: s_ins st') (s_out st') (T :: s_ops st')) else Err).
Proof.
  induction L as [|[[X m] i] L IH]; intros st p order I Ts out Hw Hnd HoutI Hcnt Hdec Hskip Hpos Hsz Hsok Hsort HndL Hfit Hp;
    [cbn [mmd_loop mmd_e_loop rbind]; fold order I Ts; now rewrite Hsok|].
  destruct Hsort as [Hx Hsort]. cbn [map] in HndL. inversion HndL as [|? ? Hnin HndL']; subst.
  inversion Hfit as [|? ? [Hm [WX Hsh]] Hfit']; subst. cbn [t_mode fst snd] in *.
  assert (Hpm : p <= m) by (apply (Hp (X, m, i)); now left).
  set (dec := s_dec st) in *. set (q := m - dec).
  assert (Hq : q < length out).
  { assert (Hl := f_equal (@length nat) Hskip). rewrite skipn_length, seq_length in Hl. unfold q, order, ndim in *. lia. }
  assert (Hnq : nth q out 0 = m).
  { replace q with ((p - dec) + (m - p)) by (unfold q; lia). rewrite <- nth_skipn_add', Hskip. rewrite seq_nth by (unfold order, ndim; lia). lia. }
  assert (Hskip' : skipn (S q) out = seq (S m) (order - S m)).
  { replace (S q) with ((p - dec) + S (m - p)) by (unfold q; lia). rewrite <- skipn_skipn', Hskip, skipn_seq. f_equal; lia. }
  assert (HmI : In m (concat I)) by (unfold I; cbn [concat]; apply in_or_app; left; apply in_seq; unfold order, ndim; lia).
  assert (Hszm : label_size I Ts m = nth m (shape T) 0) by (apply Hsz; exact Hm).
  assert (Hrest : forall y, In y L -> S m <= t_mode y).
  { intros y Hy. specialize (Hx y Hy). cbn [t_mode fst snd] in Hx. assert (t_mode y <> m); [|lia].
    intros E. apply Hnin. rewrite <- E. now apply in_map. }
  assert (Hposall : Forall (fun x => 0 < x) (map (label_size I Ts) out)) by (now apply prod_pos_Forall).
  assert (Hqlt : (q <? length out) = true) by (apply Nat.ltb_lt; exact Hq).
  cbn [mmd_loop mmd_e_loop is_skip]. cbv zeta. fold dec. fold q. fold out. rewrite Hqlt. cbn [negb]. rewrite Hnq.
  destruct Hsh as [HsX | [a [b [HsX [Hab HJ]]]]].
  - (* vector operand *)
    assert (Hnd1 : ndim X = 1) by (unfold ndim; now rewrite HsX). rewrite Hnd1. cbn [Nat.eqb].
    set (Ve := if tr then conj_t Op X else X).
    assert (HsVe : shape Ve = [nth m (shape T) 0]) by (unfold Ve; destruct tr; [unfold conj_t, tmap; cbn [shape]|]; exact HsX).
    destruct (opnd_vec Op tr X _ WX HsX) as [_ HsVc]. unfold opnd in HsVc.
    assert (Hacc_pos : 0 < prod (shape (einsum Op I out Ts))) by (rewrite shape_einsum; exact Hpos).
    rewrite (mode_dot_vec_ext (einsum Op I out Ts) (if tr then conj_t Op (transpose_rev Op X) else X) Ve q (nth m (shape T) 0));
      [| apply wf_tabulate | unfold ndim; rewrite shape_einsum, map_length; exact Hq | exact Hacc_pos | exact HsVc | exact HsVe
       | rewrite shape_einsum, (nth_map' _ _ _ 0) by exact Hq; now rewrite Hnq, Hszm |].
    + rewrite <- Hnq at 1. rewrite (einsum_step_vector I Ts out q Ve Hw Hnd HoutI Hq); [| rewrite Hnq, Hszm; exact HsVe | exact Hpos].
      cbn [rbind]. rewrite Hnq.
      set (st' := mkS (s_ins st ++ [[m]]) (s_ops st ++ [Ve]) (remove_nth q out) (s_counter st) (S dec)).
      assert (Hw' : wfI (I ++ [[m]]) (Ts ++ [Ve])) by (apply wfI_snoc; [exact Hw | now rewrite HsVe]).
      apply (IH st' (S m)); cbn [s_ins s_ops s_out s_counter s_dec st'].
      * exact Hw'.
      * now apply NoDup_remove_nth.
      * intros l Hl. apply In_remove_nth in Hl. change (seq 0 (ndim T) :: s_ins st ++ [[m]]) with (I ++ [[m]]).
        rewrite concat_app. apply in_or_app. left. now apply HoutI.
      * intros l Hl. change (seq 0 (ndim T) :: s_ins st ++ [[m]]) with (I ++ [[m]]) in Hl. rewrite concat_app in Hl. apply in_app_or in Hl.
        destruct Hl as [Hl|Hl]; [now apply Hcnt|]. cbn [concat app] in Hl. destruct Hl as [<-|[]]. now apply Hcnt.
      * lia.
      * replace (S m - S dec) with q by (unfold q; lia). rewrite skipn_remove_nth. exact Hskip'.
      * apply prod_pos_Forall. apply Forall_forall. intros x Hx'. apply in_map_iff in Hx'. destruct Hx' as [l [<- Hl]].
        apply In_remove_nth in Hl. change (seq 0 (ndim T) :: s_ins st ++ [[m]]) with (I ++ [[m]]). change (T :: s_ops st ++ [Ve]) with (Ts ++ [Ve]).
        rewrite label_size_app_old by (try exact Hw; now apply HoutI). rewrite Forall_forall in Hposall. apply Hposall. now apply in_map.
      * intros l Hl. change (seq 0 (ndim T) :: s_ins st ++ [[m]]) with (I ++ [[m]]). change (T :: s_ops st ++ [Ve]) with (Ts ++ [Ve]).
        rewrite label_size_app_old; [now apply Hsz | exact Hw|]. unfold I. cbn [concat]. apply in_or_app. left. apply in_seq. unfold order in Hl. lia.
      * change (seq 0 (ndim T) :: s_ins st ++ [[m]]) with (I ++ [[m]]). change (T :: s_ops st ++ [Ve]) with (Ts ++ [Ve]).
        apply sizes_ok_snoc; [exact Hw | exact Hsok | now rewrite HsVe|]. intros k Hk. cbn [length] in Hk. destruct k; [|lia]. cbn [nth].
        rewrite HsVe. cbn [nth]. rewrite label_size_app_old by assumption. now rewrite Hszm.
      * exact Hsort. * exact HndL'. * exact Hfit'. * exact Hrest.
    + intros j Hj. unfold Ve. destruct tr; [|reflexivity].
      destruct (vcoef_conj Op X _ j WX HsX Hj) as [Hc _]. unfold vcoef, opnd in Hc. rewrite Hc.
      symmetry. apply get_conj_t; [exact WX | rewrite HsX; cbn; auto].
  - (* matrix operand *)
    assert (Hnd2 : ndim X = 2) by (unfold ndim; now rewrite HsX). rewrite Hnd2. cbn [Nat.eqb].
    set (X' := if tr then conj_t Op (transpose_rev Op X) else X).
    set (J := if tr then b else a) in *.
    assert (HsX' : shape X' = [J; nth m (shape T) 0]).
    { unfold X', J. destruct tr; [rewrite (shape_conj_transpose Op X a b HsX) | rewrite HsX]; congruence. }
    assert (WX' : wf X') by (unfold X'; destruct tr; [apply wf_conj_t; unfold transpose_rev; apply wf_transpose | exact WX]).
    set (c := s_counter st).
    assert (Hc : ~ In c (concat I)) by (intros H; apply Hcnt in H; unfold c in H; lia).
    rewrite <- Hnq at 1.
    rewrite (einsum_step_matrix I Ts out q c J X' Hw Hnd HoutI Hq Hc WX'); [| rewrite Hnq, Hszm; exact HsX' | exact HJ | exact Hpos].
    cbn [rbind]. rewrite Hnq.
    set (st' := mkS (s_ins st ++ [[c; m]]) (s_ops st ++ [X']) (set_nth q c out) (S c) dec).
    assert (Hw' : wfI (I ++ [[c; m]]) (Ts ++ [X'])) by (apply wfI_snoc; [exact Hw | now rewrite HsX']).
    apply (IH st' (S m)); cbn [s_ins s_ops s_out s_counter s_dec st'].
    + exact Hw'.
    + apply NoDup_set_nth_fresh; [exact Hnd | intros H; apply Hc; now apply HoutI].
    + intros l Hl. change (seq 0 (ndim T) :: s_ins st ++ [[c; m]]) with (I ++ [[c; m]]). rewrite concat_app. apply in_or_app.
      apply In_set_nth in Hl. destruct Hl as [->|Hl]; [right; now left | left; now apply HoutI].
    + intros l Hl. change (seq 0 (ndim T) :: s_ins st ++ [[c; m]]) with (I ++ [[c; m]]) in Hl. rewrite concat_app in Hl. apply in_app_or in Hl.
      destruct Hl as [Hl|Hl]; [apply Hcnt in Hl; fold c in Hl; lia|]. cbn [concat app] in Hl.
      destruct Hl as [<-|[<-|[]]]; [lia|]. apply Hcnt in HmI. fold c in HmI. lia.
    + lia.
    + replace (S m - dec) with (S q) by (unfold q; lia). rewrite skipn_set_nth. exact Hskip'.
    + apply prod_pos_Forall. apply Forall_forall. intros x Hx'. apply in_map_iff in Hx'. destruct Hx' as [l [<- Hl]].
      change (seq 0 (ndim T) :: s_ins st ++ [[c; m]]) with (I ++ [[c; m]]). change (T :: s_ops st ++ [X']) with (Ts ++ [X']).
      apply In_set_nth in Hl. destruct Hl as [->|Hl].
      * rewrite label_size_app_new by assumption. unfold label_size. cbn [combine map concat fst snd app]. rewrite HsX'.
        cbn [combine find fst app]. rewrite Nat.eqb_refl. exact HJ.
      * rewrite label_size_app_old by (try exact Hw; now apply HoutI). rewrite Forall_forall in Hposall. apply Hposall. now apply in_map.
    + intros l Hl. change (seq 0 (ndim T) :: s_ins st ++ [[c; m]]) with (I ++ [[c; m]]). change (T :: s_ops st ++ [X']) with (Ts ++ [X']).
      rewrite label_size_app_old; [now apply Hsz | exact Hw|]. unfold I. cbn [concat]. apply in_or_app. left. apply in_seq. unfold order in Hl. lia.
    + change (seq 0 (ndim T) :: s_ins st ++ [[c; m]]) with (I ++ [[c; m]]). change (T :: s_ops st ++ [X']) with (Ts ++ [X']).
      apply sizes_ok_snoc; [exact Hw | exact Hsok | now rewrite HsX'|]. intros k Hk. cbn [length] in Hk. rewrite HsX'.
      destruct k as [|[|k]]; [| |lia]; cbn [nth].
      * rewrite label_size_app_new by assumption. unfold label_size. cbn [combine map concat fst snd app]. rewrite HsX'.
        cbn [combine find fst app]. now rewrite Nat.eqb_refl.
      * rewrite label_size_app_old by assumption. now rewrite Hszm.
    + exact Hsort. + exact HndL'. + exact Hfit'. + exact Hrest.
Qed.

(* operands that fit their modes pass the dimension check of the einsum backend (/repo 8b25fc6) *)
Lemma mmd_e_fits_of_operand_fits (T : tensor F) (Ms : list (tensor F)) (modes : option (list nat)) (skip : option nat) (tr : bool) :
  Forall (operand_fits tr (shape T)) (filter (fun x => negb (is_skip skip (snd x))) (sort_by_mode (zip3 Ms modes))) ->
  mmd_e_fits (shape T) tr skip (sort_by_mode (zip3 Ms modes)) = true.
Proof.
  intros Hfit. unfold mmd_e_fits. apply forallb_forall. intros x Hx.
  destruct (is_skip skip (snd x)) eqn:Es; [reflexivity|]. cbn [orb].
  rewrite Forall_forall in Hfit. destruct (Hfit x) as [Hm [WX Hsh]]; [apply filter_In; split; [exact Hx | now rewrite Es]|].
  unfold fit_one. apply Nat.ltb_lt in Hm. rewrite Hm. destruct Hsh as [Hs | [a [b [Hs [Hab _]]]]]; unfold ndim; rewrite Hs; cbn [length nth].
  - apply Nat.eqb_refl.
  - apply Nat.eqb_eq. destruct tr; exact Hab.
Qed.

Theorem multi_mode_dot_backends_agree (T : tensor F) (Ms : list (tensor F)) (modes : option (list nat)) (skip : option nat) (tr : bool) :
  let L := filter (fun x => negb (is_skip skip (snd x))) (sort_by_mode (zip3 Ms modes)) in
  wf T -> 0 < prod (shape T) -> NoDup (map (@t_mode F) L) -> Forall (operand_fits tr (shape T)) L ->
  multi_mode_dot Op T Ms modes skip tr = multi_mode_dot_e Op T Ms modes skip tr.
Proof.
  intros L W Hpos Hnd Hfit. unfold multi_mode_dot, multi_mode_dot_e. cbv zeta.
  rewrite (mmd_loop_filter_skip_gen Op), mmd_e_loop_filter_skip. fold L.
  set (order := ndim T). set (st0 := mkS [] [] (seq 0 order) (order + 1) 0).
  rewrite <- (einsum_id T W) at 1. fold order.
  assert (Hsz : forall l, l < order -> label_size [seq 0 order] [T] l = nth l (shape T) 0).
  { intros l Hl. unfold label_size. cbn [combine map concat fst snd]. unfold order, ndim.
    rewrite (find_combine_seq _ 0) by (fold (ndim T); fold order; lia). cbn [snd]. now rewrite Nat.sub_0_r. }
  apply (mmd_loops_agree tr T L st0 0); cbn [s_ins s_ops s_out s_counter s_dec st0]; fold order.
  - constructor; [now rewrite seq_length | constructor].
  - apply seq_NoDup.
  - intros l Hl. cbn [concat]. now rewrite app_nil_r.
  - intros l Hl. cbn [concat] in Hl. rewrite app_nil_r in Hl. apply in_seq in Hl. lia.
  - lia.
  - cbn [Nat.sub skipn]. now rewrite Nat.sub_0_r.
  - assert (E : map (label_size [seq 0 order] [T]) (seq 0 order) = shape T); [|now rewrite E].
    apply nth_ext with (d := 0) (d' := 0); [now rewrite map_length, seq_length|]. intros j Hj. rewrite map_length, seq_length in Hj.
    rewrite (nth_map' _ _ _ 0) by (now rewrite seq_length). rewrite seq_nth by exact Hj. now apply Hsz.
  - exact Hsz.
  - unfold einsum_sizes_ok. cbn [combine forallb fst snd]. rewrite andb_true_r. apply andb_true_iff. split; [apply Nat.eqb_eq; now rewrite seq_length|].
    apply forallb_forall. intros [l sz] Hq. cbn [fst snd]. destruct (In_nth _ _ (0, 0) Hq) as [k [Hk Ek]].
    rewrite combine_length, seq_length in Hk. rewrite combine_nth in Ek by (now rewrite seq_length). injection Ek as <- <-.
    rewrite seq_nth by (unfold order, ndim; lia). apply Nat.eqb_eq. symmetry. apply Hsz. unfold order, ndim. lia.
  - unfold L. apply lsorted_filter. rewrite sort_by_mode_gsort. apply gsort_sorted.
  - exact Hnd.
  - exact Hfit.
  - intros; lia.
Qed.

(* hence the index formula of the core backend (multi_mode_dot_full_natural) holds for the einsum backend *)
Corollary multi_mode_dot_e_full_natural (T : tensor F) (Ms : list (tensor F)) (modes : option (list nat)) (skip : option nat) (tr : bool) :
  let L := filter (fun x => negb (is_skip skip (snd x))) (sort_by_mode (zip3 Ms modes)) in
  wf T -> 0 < prod (shape T) -> NoDup (map (@t_mode F) L) -> Forall (operand_fits tr (shape T)) L ->
  exists R, multi_mode_dot_e Op T Ms modes skip tr = Ok R /\ wf R /\ shape R = outs tr L 0 (shape T) /\
    forall o, inb (shape R) o ->
      get d R o = ssum Op (sizes L 0 (shape T)) (fun is_ => coef Op tr L 0 is_ o *r get d T (full L 0 is_ o)).
Proof.
  intros L W Hpos Hnd Hfit. rewrite <- (multi_mode_dot_backends_agree T Ms modes skip tr W Hpos Hnd Hfit).
  exact (multi_mode_dot_full_natural Op Rth T Ms modes skip tr W Hpos Hnd Hfit).
Qed.

End P.

(* non-vacuity: a vector between two matrices, listed out of mode order, one operand skipped, conjugate transpose *)
Example multi_mode_dot_backends_nonvacuous :
  let T : tensor GI := mk [2; 1; 2] [(1, 1); (0, 2); (-1, 0); (3, -1)]%Z in
  let M2 : tensor GI := mk [2; 3] [(1, 0); (0, 1); (2, 0); (0, -1); (1, 1); (0, 0)]%Z in
  let M0 : tensor GI := mk [2; 1] [(0, 1); (2, -1)]%Z in
  let v1 : tensor GI := mk [1] [(1, -2)]%Z in
  let L := filter (fun x => negb (is_skip (Some 2) (snd x))) (sort_by_mode (zip3 [M2; v1; M0] (Some [2; 1; 0]))) in
  wf T /\ 0 < prod (shape T) /\ NoDup (map (@t_mode GI) L) /\ Forall (operand_fits true (shape T)) L /\
  multi_mode_dot_e GR T [M2; v1; M0] (Some [2; 1; 0]) (Some 2) true = Ok (mk [2; 3] [(-3, -1); (1, 7); (-2, 6); (-6, 3); (8, 1); (-2, -4)]%Z) /\
  multi_mode_dot GR T [M2; v1; M0] (Some [2; 1; 0]) (Some 2) true = multi_mode_dot_e GR T [M2; v1; M0] (Some [2; 1; 0]) (Some 2) true.
Proof.
  cbv zeta. split; [vm_compute; reflexivity|]. split; [vm_compute; auto with arith|].
  split; [vm_compute; repeat constructor; simpl; intuition discriminate|].
  split; [|split; vm_compute; reflexivity].
  vm_compute filter. repeat (apply Forall_cons || apply Forall_nil).
  all: unfold operand_fits; cbn [t_mode fst snd shape length nth]; split; [auto with arith | split; [vm_compute; reflexivity |]].
  all: try (left; reflexivity).
  all: right; eexists; eexists; repeat split; try reflexivity; auto with arith.
Qed.
