(* einsum_tenalg outer / batched_outer / higher_order_moment (folds of einsum tensordot with no contracted modes and
   batched_modes = () / 0): equal to the core backend's reshape-and-broadcast products. *)
From Coq Require Import List Arith ZArith Lia Ring Bool.
From TLV Require Import Base.Shape Base.PyList Base.Tensor Base.BigSum Model.Base Proofs.BaseProofs Model.Tenalg
  Proofs.TenalgProofs Proofs.TenalgProofsEinsum Proofs.TenalgProofsInner Proofs.TenalgProofsEinsumInner Proofs.TenalgProofsOuter Proofs.TenalgProofsKR Proofs.TenalgProofsEinsumKR.
Import ListNotations.

Lemma filter_true {A} (l : list A) : filter (fun _ => true) l = l.
Proof. induction l; simpl; congruence. Qed.
Lemma map_snd_combine {A B} : forall (a : list A) (b : list B), length a = length b -> map snd (combine a b) = b.
Proof. induction a; intros [|y b] H; simpl in *; try discriminate; auto. f_equal. apply IHa. lia. Qed.

Lemma nth_firstn_lt {A} (d : A) : forall n (l : list A) j, j < n -> nth j (firstn n l) d = nth j l d.
Proof. induction n; intros [|x l] j H; simpl; try lia; auto. destruct j; auto. apply IHn. lia. Qed.
Lemma nth_skipn_add {A} (d : A) : forall n (l : list A) j, nth j (skipn n l) d = nth (n + j) l d.
Proof. induction n; intros [|x l] j; simpl; auto. destruct j; reflexivity. Qed.

Section P.
Context {F : Type} (Op : rops F).
Hypothesis Rth : ring_theory (r0 Op) (r1 Op) (radd Op) (rmul Op) (rsub Op) (ropp Op) (@eq F).
Add Ring Fr12 : Rth.
Notation d := (r0 Op).
Infix "*r" := (rmul Op) (at level 40, left associativity).

(* tensordot with nothing contracted and nothing batched is the einsum of inner with n_modes = 0 *)
Lemma tensordot_e_nomodes (A B : tensor F) : tensordot_e Op A B [] [] [] [] = inner_e Op A B (Some 0).
Proof.
  unfold tensordot_e, inner_e. cbn [validate_modes length Nat.eqb combine forallb andb app fold_left memb negb].
  rewrite !filter_true. rewrite !map_snd_combine by (now rewrite !seq_length).
  rewrite Nat.sub_0_r. rewrite skipn_all. cbn [firstn nat_list_eq Nat.leb andb skipn].
  assert (H : forall n, firstn n (seq 0 n) = seq 0 n) by (intros n; rewrite <- (seq_length n 0) at 1; apply firstn_all).
  rewrite H. reflexivity.
Qed.

Lemma tensordot_e_outer2 (A B : tensor F) : tensordot_e Op A B [] [] [] [] = Ok (outer2 Op A B).
Proof.
  rewrite tensordot_e_nomodes.
  destruct (inner_e_spec Op Rth A B (shape A) [] (shape B)) as [R [E [W [S G]]]]; [now rewrite app_nil_r | reflexivity |].
  cbn [length] in E. rewrite E. f_equal.
  apply tensor_ext with (d := d); [exact W | apply wf_tabulate | exact S |].
  intros idx Hi. rewrite S in Hi.
  assert (Hl : length idx = length (shape A) + length (shape B)) by (rewrite (inb_length _ _ Hi), app_length; reflexivity).
  unfold outer2. rewrite get_tabulate by exact Hi.
  rewrite <- (firstn_skipn (length (shape A)) idx) in Hi.
  apply inb_app_inv in Hi; [|rewrite firstn_length; lia]. destruct Hi as [Ha Hb].
  rewrite <- (firstn_skipn (length (shape A)) idx) at 1. rewrite G by assumption.
  unfold ssum. rewrite (sum_idx_nil F (r0 Op) (r1 Op) (radd Op) (rmul Op) (rsub Op) (ropp Op) Rth).
  rewrite app_nil_r. reflexivity.
Qed.

(* outer: the two backends compute the same tensor for every list of operands *)
Theorem outer_backends_agree (ts : list (tensor F)) : outer Op ts = outer_e Op ts.
Proof.
  unfold outer, outer_e. destruct ts as [|t0 rest]; [reflexivity|]. revert t0.
  induction rest as [|t rest IH]; intros t0; [reflexivity|].
  cbn [fold_left rbind]. rewrite tensordot_e_outer2. apply IH.
Qed.

(* ================================================================ batched *)
Lemma tensordot_e_bouter2 (A B : tensor F) nb sa sb : shape A = nb :: sa -> shape B = nb :: sb ->
  tensordot_e Op A B [] [] [0] [0] = Ok (bouter2 Op A B).
Proof.
  intros HsA HsB.
  set (n1 := length (shape A)). set (n2 := length (shape B)).
  assert (Hn1 : n1 = S (length sa)) by (unfold n1; now rewrite HsA).
  assert (Hn2 : n2 = S (length sb)) by (unfold n2; now rewrite HsB).
  set (m1 := seq 0 n1). set (m2 := 0 :: seq (S n1) (length sb)).
  set (out := seq 0 n1 ++ seq (S n1) (length sb)).
  set (ins := [m1; m2]).
  assert (Hcode : tensordot_e Op A B [] [] [0] [0] = Ok (einsum Op ins out [A; B])).
  { unfold tensordot_e. fold n1 n2.
    assert (Hv : validate_modes (shape A) (shape B) [] [] && validate_modes (shape A) (shape B) [0] [0] = true).
    { unfold validate_modes. cbn [length Nat.eqb combine forallb andb fst snd]. fold n1 n2. rewrite HsA, HsB. cbn [nth].
      rewrite Nat.eqb_refl, Hn1, Hn2. reflexivity. }
    rewrite Hv. cbn [app combine fold_left fst snd].
    assert (Hall2 : set_nth 0 (nth 0 (seq 0 n1) 0) (seq n1 n2) = m2).
    { rewrite Hn2. unfold m2. rewrite Hn1. reflexivity. }
    rewrite Hall2.
    assert (Hr1 : map snd (filter (fun p : nat * nat => negb (memb (fst p) [])) (combine (seq 0 n1) (seq 0 n1))) = seq 0 n1).
    { cbn [memb negb]. rewrite filter_true. apply map_snd_combine. reflexivity. }
    rewrite Hr1.
    assert (Hr2 : map snd (filter (fun p : nat * nat => negb (memb (fst p) [0])) (combine (seq 0 n2) m2)) = seq (S n1) (length sb)).
    { rewrite Hn2. unfold m2. cbn [seq combine filter app memb fst Nat.eqb orb negb].
      rewrite <- seq_shift at 1.
      assert (Hf : forall (l1 l2 : list nat), (forall x, In x l1 -> x <> 0) -> length l1 = length l2 ->
                   map snd (filter (fun p : nat * nat => negb (memb (fst p) [0])) (combine l1 l2)) = l2).
      { induction l1 as [|x l1 IHl]; intros [|y l2] Hx Hl; simpl in Hl; try discriminate; [reflexivity|].
        cbn [combine filter fst memb]. destruct (Nat.eqb_spec 0 x); [exfalso; apply (Hx x); [now left | lia]|].
        cbn [orb negb map snd]. f_equal. apply IHl; [intros; apply Hx; now right | lia]. }
      apply Hf; [|now rewrite map_length, !seq_length].
      intros x Hx. apply in_map_iff in Hx. destruct Hx as [y [<- _]]. lia. }
    rewrite Hr2. reflexivity. }
  rewrite Hcode. f_equal.
  (* label sizes *)
  assert (Hsz1 : forall l, l < n1 -> label_size ins [A; B] l = nth l (shape A) 0).
  { intros l Hl. unfold label_size, ins, m1. cbn [combine map concat fst snd]. unfold n1.
    rewrite (find_combine_seq _ 0) by lia. cbn [snd]. now rewrite Nat.sub_0_r. }
  assert (Hsz2 : forall j, j < length sb -> label_size ins [A; B] (S n1 + j) = nth j sb 0).
  { intros j Hj. unfold label_size, ins, m1, m2. cbn [combine map concat fst snd].
    assert (Hn1' : length (shape A) = n1) by reflexivity.
    change (seq 0 n1) with (seq 0 (length (shape A))).
    rewrite find_combine_seq_none by lia. rewrite HsB. cbn [combine app find fst].
    destruct (Nat.eqb_spec 0 (S n1 + j)); [lia|]. rewrite (find_combine_seq _ 0) by lia. cbn [snd]. f_equal. lia. }
  assert (Hshape : map (label_size ins [A; B]) out = shape A ++ sb).
  { unfold out. rewrite map_app. f_equal.
    - apply nth_ext with (d := 0) (d' := 0); [now rewrite map_length, seq_length|].
      intros j Hj. rewrite map_length, seq_length in Hj.
      rewrite (nth_map' _ _ _ 0) by (now rewrite seq_length). rewrite seq_nth by exact Hj. now apply Hsz1.
    - apply nth_ext with (d := 0) (d' := 0); [now rewrite map_length, seq_length|].
      intros j Hj. rewrite map_length, seq_length in Hj.
      rewrite (nth_map' _ _ _ 0) by (now rewrite seq_length). rewrite seq_nth by exact Hj. now apply Hsz2. }
  assert (Hsummed : summed_labels ins out = []).
  { unfold summed_labels. rewrite filter_nil; [reflexivity|]. intros x Hx. apply negb_false_iff. apply memb_In. unfold out.
    unfold ins in Hx. cbn [concat] in Hx. rewrite app_nil_r in Hx. apply in_app_or in Hx. destruct Hx as [Hx|Hx].
    - apply in_or_app. now left.
    - unfold m2 in Hx. destruct Hx as [<-|Hx]; apply in_or_app; [left; apply in_seq; lia | now right]. }
  apply tensor_ext with (d := d); [apply wf_tabulate | apply wf_tabulate | |].
  - unfold einsum, bouter2. cbn [shape]. rewrite Hshape, HsB. reflexivity.
  - intros idx Hi. unfold einsum in *. cbn [shape] in Hi. rewrite get_tabulate by exact Hi. rewrite Hsummed. cbn [map esum].
    rewrite Hshape in Hi. change (inb (shape A ++ sb) idx) in Hi.
    assert (Hlen : length idx = n1 + length sb) by (rewrite (inb_length _ _ Hi), app_length; reflexivity).
    unfold bouter2. rewrite get_tabulate by (rewrite HsB; exact Hi).
    set (e := bind out idx (fun _ => 0)).
    assert (HND : NoDup out) by (unfold out; apply NoDup_two_seq; lia).
    assert (Hlo : length idx = length out) by (unfold out; rewrite app_length, !seq_length; lia).
    assert (E1 : map e m1 = firstn n1 idx).
    { apply nth_ext with (d := 0) (d' := 0); [unfold m1; rewrite map_length, seq_length, firstn_length; lia|].
      intros j Hj. unfold m1 in *. rewrite map_length, seq_length in Hj.
      rewrite (nth_map' _ _ _ 0) by (now rewrite seq_length). rewrite seq_nth by exact Hj. cbn [Nat.add].
      pose proof (bind_lookup out idx (fun _ => 0) j HND Hlo) as Bq.
      assert (Hnth : nth j out 0 = j) by (unfold out; rewrite app_nth1 by (rewrite seq_length; lia); now rewrite seq_nth).
      rewrite Hnth in Bq. unfold e. rewrite Bq by lia. symmetry. apply nth_firstn_lt. exact Hj. }
    assert (E2 : map e m2 = nth 0 idx 0 :: skipn n1 idx).
    { unfold m2. cbn [map]. f_equal.
      - pose proof (bind_lookup out idx (fun _ => 0) 0 HND Hlo) as Bq.
        assert (Hnth : nth 0 out 0 = 0) by (unfold out; rewrite app_nth1 by (rewrite seq_length; lia); now rewrite seq_nth by lia).
        rewrite Hnth in Bq. unfold e. apply Bq. lia.
      - apply nth_ext with (d := 0) (d' := 0); [rewrite map_length, seq_length, skipn_length; lia|].
        intros j Hj. rewrite map_length, seq_length in Hj.
        rewrite (nth_map' _ _ _ 0) by (now rewrite seq_length). rewrite seq_nth by exact Hj.
        pose proof (bind_lookup out idx (fun _ => 0) (n1 + j) HND Hlo) as Bq.
        assert (Hnth : nth (n1 + j) out 0 = S n1 + j).
        { unfold out. rewrite app_nth2 by (rewrite seq_length; lia). rewrite seq_length. replace (n1 + j - n1) with j by lia. now rewrite seq_nth. }
        rewrite Hnth in Bq. unfold e. rewrite Bq by lia. now rewrite nth_skipn_add. }
    unfold term, ins. cbn [combine map fst snd rprod fold_right]. fold e. rewrite E1, E2. unfold ndim. fold n1. ring.
Qed.

Definition hasb (nb : nat) (t : tensor F) : Prop := exists s, shape t = nb :: s.

Lemma hasb_bouter2 nb A B : hasb nb A -> hasb nb B -> hasb nb (bouter2 Op A B).
Proof. intros [sa HA] [sb HB]. exists (sa ++ sb). unfold bouter2. cbn [shape]. rewrite HA, HB. reflexivity. Qed.

Lemma bouter_loop_agree nb : forall (rest : list (tensor F)) acc, hasb nb acc -> Forall (hasb nb) rest ->
  bouter_loop Op rest acc = fold_left (fun acc t => rbind acc (fun a => tensordot_e Op a t [] [] [0] [0])) rest (Ok acc).
Proof.
  induction rest as [|t rest IH]; intros acc Ha Hf; [reflexivity|].
  inversion Hf as [|? ? Ht Hf']; subst. cbn [bouter_loop fold_left rbind].
  destruct Ha as [sa HA]. destruct Ht as [sb HB].
  rewrite (tensordot_e_bouter2 acc t nb sa sb HA HB). rewrite HA, HB. cbn [nth]. rewrite Nat.eqb_refl.
  apply IH; [|exact Hf']. apply hasb_bouter2; [now exists sa | now exists sb].
Qed.

(* batched_outer: the two backends compute the same tensor (operands of order >= 1 with a common batch size) *)
Theorem batched_outer_backends_agree nb (ts : list (tensor F)) : Forall (hasb nb) ts ->
  batched_outer Op ts = batched_outer_e Op ts.
Proof.
  intros Hf. unfold batched_outer, batched_outer_e. destruct ts as [|t0 rest]; [reflexivity|].
  inversion Hf; subst. now apply (bouter_loop_agree nb).
Qed.

Lemma moment_iter_agree nb (T : tensor F) : hasb nb T -> forall k m, hasb nb m ->
  iter_res k (fun m => batched_outer Op [m; T]) m = iter_res k (fun m => batched_outer_e Op [m; T]) m.
Proof.
  intros HT. induction k as [|k IH]; intros m Hm; [reflexivity|]. cbn [iter_res].
  rewrite <- (batched_outer_backends_agree nb [m; T]) by (constructor; [exact Hm | constructor; [exact HT | constructor]]).
  assert (Hstep : batched_outer Op [m; T] = Ok (bouter2 Op m T)).
  { destruct Hm as [sm HM]. destruct HT as [sT HsT].
    unfold batched_outer. cbn [bouter_loop]. rewrite HM, HsT. cbn [nth]. now rewrite Nat.eqb_refl. }
  rewrite Hstep. cbn [rbind]. apply IH. now apply hasb_bouter2.
Qed.

(* higher_order_moment (sum form): the two backends agree *)
Theorem moment_backends_agree nb (T : tensor F) (order : nat) : hasb nb T ->
  higher_order_moment_sum Op T order = higher_order_moment_sum_e Op T order.
Proof.
  intros HT. unfold higher_order_moment_sum, higher_order_moment_sum_e, moment_sum.
  destruct (order =? 0); [reflexivity|]. now rewrite (moment_iter_agree nb T HT (order - 1) T HT).
Qed.

End P.
