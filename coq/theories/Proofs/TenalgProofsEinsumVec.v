(* einsum_tenalg.mode_dot with a VECTOR operand: the built equation, under the generic einsum semantics,
   is the textbook contraction, hence equals the core backend (all orders / shapes / modes). *)
From Coq Require Import List Arith ZArith Lia Ring Bool.
From TLV Require Import Base.Shape Base.PyList Base.Tensor Base.BigSum Model.Base Proofs.BaseProofs Model.Tenalg
  Proofs.TenalgProofs Proofs.TenalgProofsEinsum.
Import ListNotations.

Lemma nth_remove_nth_lt {A} (d : A) : forall k l j, j < k -> nth j (remove_nth k l) d = nth j l d.
Proof. induction k; intros [|x l] j H; simpl; try lia; auto. destruct j; auto. apply IHk. lia. Qed.
Lemma nth_remove_nth_ge {A} (d : A) : forall k l j, k <= j -> nth j (remove_nth k l) d = nth (S j) l d.
Proof.
  induction k; intros [|x l] j H; simpl; auto; try (destruct j; reflexivity).
  destruct j; [lia|]. apply IHk. lia.
Qed.
Lemma nth_insert_at_lt {A} (d a : A) : forall k l j, j < k -> k <= length l -> nth j (insert_at k a l) d = nth j l d.
Proof. induction k; intros [|x l] j H Hl; simpl in *; try lia. destruct j; auto. apply IHk; lia. Qed.
Lemma nth_insert_at_gt {A} (d a : A) : forall k l j, k < j -> k <= length l -> nth j (insert_at k a l) d = nth (j - 1) l d.
Proof.
  induction k; intros l j H Hl.
  - destruct j; [lia|]. rewrite insert_at_0'. simpl. now rewrite Nat.sub_0_r.
  - destruct l as [|x l]; simpl in Hl; [lia|]. destruct j; [lia|]. simpl. rewrite IHk by lia.
    destruct j; [lia|]. simpl. now rewrite Nat.sub_0_r.
Qed.

Definition mv_out (N k : nat) : list nat := remove_nth k (seq 0 N).
Lemma mv_out_length N k : k < N -> length (mv_out N k) = N - 1.
Proof. intros. unfold mv_out. rewrite remove_nth_length by (now rewrite seq_length). now rewrite seq_length. Qed.
Lemma mv_out_nth N k j : k < N -> j < N - 1 -> nth j (mv_out N k) 0 = if j <? k then j else S j.
Proof.
  intros Hk Hj. unfold mv_out. destruct (Nat.ltb_spec j k).
  - rewrite nth_remove_nth_lt by assumption. now rewrite seq_nth by lia.
  - rewrite nth_remove_nth_ge by assumption. now rewrite seq_nth by lia.
Qed.
Lemma NoDup_mv_out N k : k < N -> NoDup (mv_out N k).
Proof.
  intros Hk. apply (NoDup_nth _ 0). intros i j Hi Hj E. rewrite mv_out_length in Hi, Hj by assumption.
  rewrite !mv_out_nth in E by assumption.
  destruct (Nat.ltb_spec i k), (Nat.ltb_spec j k); lia.
Qed.
Lemma memb_mv_out N k l : k < N -> l < N -> memb l (mv_out N k) = negb (Nat.eqb l k).
Proof.
  intros Hk Hl. destruct (Nat.eqb_spec l k) as [->|Hne]; simpl.
  - destruct (memb k (mv_out N k)) eqn:E; [|reflexivity]. apply memb_In in E.
    apply (In_nth _ _ 0) in E. destruct E as [j [Hj E]]. rewrite mv_out_length in Hj by assumption.
    rewrite mv_out_nth in E by assumption. destruct (Nat.ltb_spec j k); lia.
  - apply memb_In. destruct (Nat.ltb_spec l k).
    + replace l with (nth l (mv_out N k) 0) at 1.
      * apply nth_In. rewrite mv_out_length by assumption. lia.
      * rewrite mv_out_nth by lia. destruct (Nat.ltb_spec l k); lia.
    + replace l with (nth (l - 1) (mv_out N k) 0) at 1.
      * apply nth_In. rewrite mv_out_length by assumption. lia.
      * rewrite mv_out_nth by lia. destruct (Nat.ltb_spec (l - 1) k); lia.
Qed.

Lemma summed_mv N k : k < N -> summed_labels [seq 0 N; [k]] (mv_out N k) = [k].
Proof.
  intros Hk. unfold summed_labels. cbn [concat]. rewrite app_nil_r, filter_app.
  rewrite (filter_seq_single _ N 0 k) by (try lia; intros l Hl; rewrite memb_mv_out by lia; now rewrite negb_involutive).
  cbn [filter]. rewrite memb_mv_out by assumption.
  rewrite Nat.eqb_refl. cbn [negb app dedup filter]. rewrite Nat.eqb_refl. reflexivity.
Qed.

Section P.
Context {F : Type} (Op : rops F).
Hypothesis Rth : ring_theory (r0 Op) (r1 Op) (radd Op) (rmul Op) (rsub Op) (ropp Op) (@eq F).
Add Ring Fr7 : Rth.
Notation d := (r0 Op).
Infix "*r" := (rmul Op) (at level 40, left associativity).
Notation bs := (bsum Op).

Lemma label_size_mv (T v : tensor F) N k l : length (shape T) = N -> l < N ->
  label_size [seq 0 N; [k]] [T; v] l = nth l (shape T) 0.
Proof.
  intros HN Hl. unfold label_size. cbn [combine map concat fst snd]. rewrite <- HN.
  rewrite (find_combine_seq _ 0) by lia. cbn [snd]. now rewrite Nat.sub_0_r.
Qed.

Theorem mode_dot_e_vector_spec (T v : tensor F) (k : nat) (tr : bool) (n : nat) :
  wf T -> k < ndim T -> 0 < prod (shape T) -> shape v = [n] -> n = nth k (shape T) 0 ->
  exists R, mode_dot_e Op T v k tr = Ok R /\ wf R /\ shape R = remove_nth k (shape T) /\
    forall ridx, inb (shape R) ridx ->
      get d R ridx = bs n (fun i => get d v [i] *r get d T (insert_at k i ridx)).
Proof.
  intros WT Hk Hpos Hsv Hn. unfold ndim in Hk.
  set (N := length (shape T)) in *.
  set (ins := [seq 0 N; [k]]).
  assert (Hsz : forall l, l < N -> label_size ins [T; v] l = nth l (shape T) 0) by (intros; now apply label_size_mv).
  assert (Hshape : map (label_size ins [T; v]) (mv_out N k) = remove_nth k (shape T)).
  { apply nth_ext with (d := 0) (d' := 0).
    - rewrite map_length, mv_out_length by assumption. rewrite remove_nth_length by exact Hk. reflexivity.
    - intros j Hj. rewrite map_length, mv_out_length in Hj by assumption.
      rewrite (nth_map' _ _ _ 0) by (rewrite mv_out_length by assumption; exact Hj).
      rewrite mv_out_nth by assumption. destruct (Nat.ltb_spec j k).
      + rewrite Hsz by lia. now rewrite nth_remove_nth_lt.
      + rewrite Hsz by lia. now rewrite nth_remove_nth_ge. }
  exists (einsum Op ins (mv_out N k) [T; v]).
  split; [|split; [apply wf_tabulate | split; [exact Hshape|]]].
  - unfold mode_dot_e. rewrite Hsv. fold N.
    assert (Hc : ((k <? ndim T) && (n =? nth k (shape T) 0)) = true).
    { apply andb_true_iff; split; [apply Nat.ltb_lt; exact Hk | apply Nat.eqb_eq; exact Hn]. }
    unfold ndim in *. fold N. fold N in Hc. rewrite Hc. rewrite seq_nth by exact Hk. rewrite remove_nth_set_nth. reflexivity.
  - intros ridx Hi. unfold einsum in *. cbn [shape] in Hi. fold ins. rewrite get_tabulate by exact Hi.
    rewrite Hshape in Hi.
    replace (summed_labels ins (mv_out N k)) with [k] by (symmetry; apply summed_mv; exact Hk).
    cbn [map esum]. rewrite Hsz by exact Hk. rewrite <- Hn.
    apply bs_ext. intros i Hi'.
    unfold term, ins. cbn [combine map fst snd rprod fold_right].
    set (e0 := bind (mv_out N k) ridx (fun _ => 0)).
    assert (Hlen : length ridx = N - 1) by (rewrite (inb_length _ _ Hi); apply remove_nth_length; exact Hk).
    assert (HND := NoDup_mv_out N k Hk).
    assert (E2 : upd e0 k i k = i) by (unfold upd; now rewrite Nat.eqb_refl).
    assert (E3 : map (upd e0 k i) (seq 0 N) = insert_at k i ridx).
    { apply nth_ext with (d := 0) (d' := 0); [rewrite map_length, seq_length, insert_at_length; lia|].
      intros j Hj. rewrite map_length, seq_length in Hj.
      rewrite (nth_map' _ _ _ 0) by (now rewrite seq_length). rewrite seq_nth by lia. cbn [Nat.add].
      destruct (Nat.lt_trichotomy j k) as [Hlt | [-> | Hgt]].
      - rewrite nth_insert_at_lt by lia. unfold upd. destruct (Nat.eqb_spec j k); [lia|]. unfold e0.
        pose proof (bind_lookup (mv_out N k) ridx (fun _ => 0) j HND) as B.
        rewrite mv_out_length, mv_out_nth in B by (assumption || lia). destruct (Nat.ltb_spec j k); [|lia]. apply B; lia.
      - rewrite E2. symmetry. apply nth_insert_same. lia.
      - rewrite nth_insert_at_gt by lia. unfold upd. destruct (Nat.eqb_spec j k); [lia|]. unfold e0.
        pose proof (bind_lookup (mv_out N k) ridx (fun _ => 0) (j - 1) HND) as B.
        rewrite mv_out_length, mv_out_nth in B by (assumption || lia). destruct (Nat.ltb_spec (j - 1) k); [lia|].
        replace (S (j - 1)) with j in B by lia. apply B; lia. }
    rewrite E2, E3. ring.
Qed.

Corollary mode_dot_vector_backends_agree (T v : tensor F) (k : nat) (tr : bool) (n : nat) :
  wf T -> k < ndim T -> 0 < prod (shape T) -> shape v = [n] -> n = nth k (shape T) 0 ->
  mode_dot Op T v k tr = mode_dot_e Op T v k tr.
Proof.
  intros WT Hk Hpos Hsv Hn.
  destruct (mode_dot_vector_spec Op T v k tr n WT Hk Hpos Hsv Hn) as [R1 [E1 [W1 [S1 G1]]]].
  destruct (mode_dot_e_vector_spec T v k tr n WT Hk Hpos Hsv Hn) as [R2 [E2 [W2 [S2 G2]]]].
  rewrite E1, E2. f_equal. apply tensor_ext with (d := d); auto; [congruence|].
  intros idx Hi. rewrite G1 by exact Hi. rewrite G2 by (rewrite S2, <- S1; exact Hi). reflexivity.
Qed.

End P.
