(* The einsum equations of the einsum backend as functions of the request (orders, modes, operand kinds): eq_* return the pair
   (labels of each operand, labels of the output) the model routines hand to `einsum` (lemmas *_uses_eq, by unfolding), so that
   the per-run source tie (harness/props/C02_eqtie.py: equation strings regenerated from the CURRENT Python source by ast) can
   compare them, up to a renaming of the labels (canon_eq), with the equations the theorems of Props/C02.v are proved about. *)
From Coq Require Import List Arith ZArith Bool Lia.
From TLV Require Import Base.Shape Base.PyList Base.Tensor Base.BigSum Model.Base Model.Tenalg.
Import ListNotations.

Definition equation := (list (list nat) * list nat)%type.

(* ---------------------------------------------------------------- canonical renaming: labels numbered by first occurrence *)
Fixpoint first_occ (seen : list nat) (l : list nat) : list nat :=
  match l with [] => seen | x :: r => if memb x seen then first_occ seen r else first_occ (seen ++ [x]) r end.
Definition canon_eq (e : equation) : equation :=
  let order := first_occ [] (concat (fst e) ++ snd e) in
  (map (map (fun l => index_of l order)) (fst e), map (fun l => index_of l order) (snd e)).
Fixpoint nll_eqb (a b : list (list nat)) : bool :=
  match a, b with [], [] => true | x :: a', y :: b' => nat_list_eq x y && nll_eqb a' b' | _, _ => false end.
Definition eq_same (a b : equation) : bool :=
  let a' := canon_eq a in let b' := canon_eq b in nll_eqb (fst a') (fst b') && nat_list_eq (snd a') (snd b').
Definition oeq_same (a : option equation) (b : equation) : bool := match a with Some a => eq_same a b | None => false end.

(* ---------------------------------------------------------------- the model's equations *)
Definition eq_mode_dot (N mode : nat) (vec : bool) : equation :=
  let tensor_modes := seq 0 N in
  let result_modes := set_nth mode (N + 1) tensor_modes in
  if vec then ([tensor_modes; [nth mode tensor_modes 0]], remove_nth mode result_modes)
  else ([tensor_modes; [N + 1; nth mode tensor_modes 0]], result_modes).

(* multi_mode_dot: the labels depend on the operands' ranks only; dummy operands of rank 1 / 2 *)
Definition dummy (vec : bool) : tensor Z := if vec then mk [0] [] else mk [0; 0] [].
Definition eq_multi (order : nat) (kinds : list bool) (modes : option (list nat)) (skip : option nat) : option equation :=
  match mmd_e_loop ZR (sort_by_mode (zip3 (map dummy kinds) modes)) skip false order (mkS [] [] (seq 0 order) (order + 1) 0) with
  | Ok st => Some (seq 0 order :: s_ins st, s_out st)
  | Err => None
  end.

Definition eq_tensordot (n1 n2 : nat) (m1 m2 b1 b2 : list nat) : equation :=
  let all1 := seq 0 n1 in
  let all2 := fold_left (fun acc p => set_nth (snd p) (nth (fst p) all1 0) acc)
                        (combine (m1 ++ b1) (m2 ++ b2)) (seq n1 n2) in
  let rem1 := map snd (filter (fun p => negb (memb (fst p) m1)) (combine (seq 0 n1) all1)) in
  let rem2 := map snd (filter (fun p => negb (memb (fst p) (m2 ++ b2))) (combine (seq 0 n2) all2)) in
  ([all1; all2], rem1 ++ rem2).

Definition eq_inner (n1 n2 n : nat) : equation :=
  let offset := n1 - n in
  let m1 := seq 0 n1 in let m2 := seq offset n2 in
  ([m1; m2], firstn offset m1 ++ skipn n m2).

Definition eq_kronecker (n : nat) : equation := (map (fun i => [i; n + i]) (seq 0 n), seq 0 n ++ seq n n).

Definition eq_khatri_rao (n : nat) (hasw hasmask : bool) : equation :=
  let individual := seq 1 n in
  (map (fun i => [i; 0]) individual ++ (if hasw then [[0]] else []) ++ (if hasmask then [individual] else []), individual ++ [0]).

Definition eq_mttkrp (N mode : nat) : equation :=
  let rank := N + 1 in let others := not_in [mode] N in
  ([seq 0 N; [rank]] ++ map (fun i => [i; rank]) others, [mode; rank]).

(* ---------------------------------------------------------------- the model routines use exactly these equations *)
Section P.
Context {F : Type} (Op : rops F).

Lemma mode_dot_e_uses_eq (T M : tensor F) (mode : nat) (tr : bool) (a b : nat) : shape M = [a; b] ->
  mode_dot_e Op T M mode tr =
  if (mode <? ndim T) && ((if tr then a else b) =? nth mode (shape T) 0)
  then Ok (einsum Op (fst (eq_mode_dot (ndim T) mode false)) (snd (eq_mode_dot (ndim T) mode false))
                  [T; if tr then conj_t Op (transpose_rev Op M) else M]) else Err.
Proof. intros H. unfold mode_dot_e. rewrite H. reflexivity. Qed.
Lemma mode_dot_e_vec_uses_eq (T v : tensor F) (mode : nat) (tr : bool) (a : nat) : shape v = [a] ->
  mode_dot_e Op T v mode tr =
  if (mode <? ndim T) && (a =? nth mode (shape T) 0)
  then Ok (einsum Op (fst (eq_mode_dot (ndim T) mode true)) (snd (eq_mode_dot (ndim T) mode true)) [T; v]) else Err.
Proof. intros H. unfold mode_dot_e. rewrite H. reflexivity. Qed.
Lemma tensordot_e_uses_eq (A B : tensor F) (m1 m2 b1 b2 : list nat) :
  tensordot_e Op A B m1 m2 b1 b2 =
  if validate_modes (shape A) (shape B) m1 m2 && validate_modes (shape A) (shape B) b1 b2
  then Ok (einsum Op (fst (eq_tensordot (ndim A) (ndim B) m1 m2 b1 b2)) (snd (eq_tensordot (ndim A) (ndim B) m1 m2 b1 b2)) [A; B]) else Err.
Proof. reflexivity. Qed.
Lemma inner_e_uses_eq (A B : tensor F) (n : nat) :
  inner_e Op A B (Some n) =
  if (n <=? ndim A) && nat_list_eq (skipn (ndim A - n) (shape A)) (firstn n (shape B))
  then Ok (einsum Op (fst (eq_inner (ndim A) (ndim B) n)) (snd (eq_inner (ndim A) (ndim B) n)) [A; B]) else Err.
Proof. reflexivity. Qed.
Lemma kronecker_e_uses_eq (Ms : list (tensor F)) (skip : option nat) (reverse : bool) : skipl skip Ms <> [] ->
  kronecker_e Op Ms skip reverse =
  let l := skipl skip Ms in
  Ok (reshape [prod (map nrows l); prod (map ncols l)]
        (einsum Op (fst (eq_kronecker (length l))) (snd (eq_kronecker (length l))) (if reverse then rev l else l))).
Proof. intros H. unfold kronecker_e. destruct (skipl skip Ms); [congruence | reflexivity]. Qed.
Lemma mttkrp_e_equation (T : tensor F) (w : option (tensor F)) (fs : list (tensor F)) (mode : nat) R :
  mttkrp_e Op T w fs mode = Ok R ->
  exists ops, R = einsum Op (fst (eq_mttkrp (ndim T) mode)) (snd (eq_mttkrp (ndim T) mode)) ops.
Proof.
  unfold mttkrp_e. destruct fs as [|f0 fs']; [discriminate|]. cbv zeta.
  match goal with |- (if ?c then _ else _) = _ -> _ => destruct c end; [|discriminate].
  intros H. injection H as <-. eexists. reflexivity.
Qed.
Lemma khatri_rao_e_equation (Ms : list (tensor F)) (w mask : option (tensor F)) (skip : option nat) (R : tensor F) :
  2 <= length (skipl skip Ms) -> khatri_rao_e Op Ms w mask skip = Ok R ->
  exists hasw ops s, R = reshape s (einsum Op (fst (eq_khatri_rao (length (skipl skip Ms)) hasw (match mask with Some _ => true | None => false end)))
                                          (snd (eq_khatri_rao (length (skipl skip Ms)) hasw (match mask with Some _ => true | None => false end))) ops).
Proof.
  intros Hlen. unfold khatri_rao_e. destruct (skipl skip Ms) as [|M0 [|M1 rest]]; cbn [length] in Hlen; try lia.
  destruct (kr_valid (M0 :: M1 :: rest)); [|discriminate].
  destruct (einsum_weights Op (ncols M0) w) as [w'|]; [|discriminate]. cbn [rbind].
  match goal with |- (if ?c then _ else _) = _ -> _ => destruct c end; [|discriminate].
  unfold reshape_spec. destruct (infer_shape _ _) as [s|]; [|discriminate]. cbn [rbind]. intros H. injection H as <-.
  unfold eq_khatri_rao. destruct w' as [w0|]; destruct mask as [m0|];
    [exists true | exists true | exists false | exists false]; eexists; exists s; cbn [fst snd]; reflexivity.
Qed.
Lemma multi_mode_dot_e_equation (T : tensor F) (Ms : list (tensor F)) modes skip tr R :
  multi_mode_dot_e Op T Ms modes skip tr = Ok R ->
  exists st ops, mmd_e_loop Op (sort_by_mode (zip3 Ms modes)) skip tr (ndim T) (mkS [] [] (seq 0 (ndim T)) (ndim T + 1) 0) = Ok st /\
             R = einsum Op (seq 0 (ndim T) :: s_ins st) (s_out st) ops.
Proof.
  unfold multi_mode_dot_e. cbv zeta. destruct (mmd_e_loop Op _ skip tr (ndim T) _) as [st|]; [|discriminate]. cbn [rbind].
  destruct (einsum_sizes_ok _ _); [|discriminate]. intros H. injection H as <-. exists st. eexists. auto.
Qed.
End P.

Example canon_eq_example : eq_same ([[0; 1; 2]; [7; 1]], [0; 7; 2]) ([[5; 6; 9]; [3; 6]], [5; 3; 9]) = true /\
  eq_same ([[0; 1; 2]; [7; 1]], [0; 7; 2]) ([[0; 1; 2]; [7; 1]], [0; 1; 2]) = false.
Proof. split; vm_compute; reflexivity. Qed.
