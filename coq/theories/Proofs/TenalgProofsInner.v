(* generalised inner product (core backend): index formula for every n_modes >= 0; batched tensordot (core backend):
   the result does not depend on the order in which the batched mode pairs are listed.  Both were genuine
   defects (inner with n_modes = 0 raised; tensordot with batch modes of tensor1 listed in non-increasing order was
   wrong), repaired in /repo by f5f06aa and 8cd4a39; the old witnesses are kept as regression Examples. *)
From Coq Require Import List Arith ZArith Lia Ring Bool.
From TLV Require Import Base.Shape Base.PyList Base.Tensor Base.BigSum Model.Base Proofs.BaseProofs Model.Tenalg Proofs.TenalgProofs.
Import ListNotations.

Lemma nat_list_eq_refl l : nat_list_eq l l = true.
Proof. induction l; simpl; auto. now rewrite Nat.eqb_refl. Qed.
Lemma nat_list_eq_true a : forall b, nat_list_eq a b = true -> a = b.
Proof.
  induction a as [|x a IH]; intros [|y b] H; simpl in *; try discriminate; auto.
  apply andb_true_iff in H. destruct H as [H1 H2]. apply Nat.eqb_eq in H1. f_equal; auto.
Qed.
Lemma firstn_app_exact {A} (l1 l2 : list A) : firstn (length l1) (l1 ++ l2) = l1.
Proof. induction l1; simpl; [destruct l2; reflexivity | f_equal; auto]. Qed.
Lemma skipn_app_exact {A} (l1 l2 : list A) : skipn (length l1) (l1 ++ l2) = l2.
Proof. induction l1; simpl; auto. Qed.

Section P.
Context {F : Type} (Op : rops F).
Hypothesis Rth : ring_theory (r0 Op) (r1 Op) (radd Op) (rmul Op) (rsub Op) (ropp Op) (@eq F).
Add Ring Fr4 : Rth.
Notation d := (r0 Op).
Infix "*r" := (rmul Op) (at level 40, left associativity).
Notation bs := (bsum Op).

(* inner(A, B, n)[a ++ b] = sum_c A[a ++ c] * B[c ++ b], c over the n >= 0 common modes (n = 0: outer product) *)
Theorem inner_core_spec (A B : tensor F) (sa sc sb : list nat) :
  wf A -> wf B -> shape A = sa ++ sc -> shape B = sc ++ sb ->
  0 < prod (shape A) -> 0 < prod (shape B) ->
  exists R, inner Op A B (Some (length sc)) = Ok R /\ wf R /\ shape R = sa ++ sb /\
    forall a b, inb sa a -> inb sb b ->
      get d R (a ++ b) = ssum Op sc (fun c => get d A (a ++ c) *r get d B (c ++ b)).
Proof.
  intros WA WB HsA HsB HpA HpB.
  set (n := length sc).
  rewrite HsA, prod_app in HpA. rewrite HsB, prod_app in HpB.
  assert (Hpa : 0 < prod sa) by nia. assert (Hpc : 0 < prod sc) by nia. assert (Hpb : 0 < prod sb) by nia.
  assert (Hlast : lastn' n (shape A) = sc).
  { unfold lastn'. rewrite HsA, app_length. fold n. replace (length sa + n - n) with (length sa) by lia. apply skipn_app_exact. }
  assert (Hfirst : firstn n (shape B) = sc) by (rewrite HsB; apply firstn_app_exact).
  assert (Hout : firstn (length (shape A) - n) (shape A) ++ skipn n (shape B) = sa ++ sb).
  { rewrite HsA at 2. rewrite HsA, app_length. fold n.
    replace (length sa + n - n) with (length sa) by lia. rewrite firstn_app_exact. rewrite HsB. unfold n. now rewrite skipn_app_exact. }
  set (A2 := reshape [prod sa; prod sc] A). set (B2 := reshape [prod sc; prod sb] B).
  assert (HA2 : reshape_spec [None; Some (prod sc)] A = Ok A2).
  { change [None; Some (prod sc)] with (map Some [] ++ [None] ++ map Some [prod sc]).
    assert (Hk : prod [] * prod [prod sc] = prod sc) by (cbn [prod fold_right]; lia).
    rewrite reshape_spec_one_none; rewrite ?Hk, ?HsA, ?prod_app; try lia.
    - cbn [app]. unfold A2. f_equal. f_equal. f_equal. now rewrite Nat.div_mul by lia.
    - apply Nat.mod_mul. lia. }
  assert (HB2 : reshape_spec [Some (prod sc); None] B = Ok B2).
  { change [Some (prod sc); None] with (map Some [prod sc] ++ [None] ++ map Some []).
    assert (Hk : prod [prod sc] * prod [] = prod sc) by (cbn [prod fold_right]; lia).
    rewrite reshape_spec_one_none; rewrite ?Hk, ?HsB, ?prod_app; try lia.
    - cbn [app]. unfold B2. f_equal. f_equal. f_equal. f_equal. rewrite Nat.mul_comm. now rewrite Nat.div_mul by lia.
    - rewrite Nat.mul_comm. apply Nat.mod_mul. lia. }
  set (X := matmul Op A2 B2).
  assert (HsX : shape X = [prod sa; prod sb]) by reflexivity.
  assert (WX : wf X) by apply wf_tabulate.
  assert (Hpx : prod (sa ++ sb) = prod (shape X)).
  { rewrite HsX, prod_app. cbn [prod fold_right]. lia. }
  exists (reshape (sa ++ sb) X).
  split; [|split; [|split; [reflexivity|]]].
  - unfold inner. fold n. rewrite Hlast, Hfirst, Hout.
    assert (Hc : ((n <=? length (shape A)) && nat_list_eq sc sc) = true).
    { apply andb_true_iff; split; [apply Nat.leb_le; rewrite HsA, app_length; fold n; lia | apply nat_list_eq_refl]. }
    rewrite Hc, HA2. cbn [rbind]. rewrite HB2. cbn [rbind]. fold X.
    apply reshape_spec_all_some. exact Hpx.
  - apply wf_reshape; auto.
  - intros a b Ha Hb.
    assert (Hra : ravel sa a < prod sa) by (now apply ravel_lt).
    assert (Hrb : ravel sb b < prod sb) by (now apply ravel_lt).
    assert (E : get d (reshape (sa ++ sb) X) (a ++ b) = get d X [ravel sa a; ravel sb b]).
    { unfold get, reshape. cbn [shape data]. rewrite HsX, ravel2. f_equal.
      apply ravel_app. now apply inb_length. }
    rewrite E. unfold X.
    rewrite get_matmul by (unfold nrows, ncols, A2, B2, reshape; cbn [shape nth]; assumption).
    unfold ssum, sum_idx, bsum.
    assert (HcA : ncols A2 = prod sc) by reflexivity. rewrite HcA.
    apply bigsum_ext. intros k Hk.
    assert (Hc : inb sc (unravel sc k)) by (now apply unravel_inb).
    f_equal.
    + unfold get, A2, reshape. cbn [shape data]. rewrite ravel2, HsA. f_equal.
      rewrite ravel_app by (now apply inb_length). now rewrite ravel_unravel.
    + unfold get, B2, reshape. cbn [shape data]. rewrite ravel2, HsB. f_equal.
      rewrite ravel_app by (apply unravel_length). now rewrite ravel_unravel.
Qed.

End P.

(* ---------------------------------------------------------------- regression witnesses of the two repaired defects *)

(* inner(t1, t2, n_modes=0) is the outer product in both backends (the core backend used to raise) *)
Example inner_zero_modes_regression :
  let A : tensor Z := mk [2] [1; 2]%Z in let B : tensor Z := mk [3] [1; 10; 100]%Z in
  inner ZR A B (Some 0) = Ok (mk [2; 3] [1; 10; 100; 2; 20; 200]%Z) /\
  inner_e ZR A B (Some 0) = inner ZR A B (Some 0) /\ outer ZR [A; B] = inner ZR A B (Some 0).
Proof. cbv zeta. repeat split; vm_compute; reflexivity. Qed.

(* tensordot with batched_modes = ([1, 0], [0, 1]): R[i, j] = A[i, j] * B[j, i] in both backends and for both listings *)
Example tensordot_batch_order_regression :
  let A : tensor Z := mk [2; 3] [1; 2; 3; 4; 5; 6]%Z in
  let B : tensor Z := mk [3; 2] [1; 10; 100; 1000; 10000; 100000]%Z in
  let Re := tabulate [2; 3] (fun idx => (get 0%Z A idx * get 0%Z B (rev idx))%Z) in
  tensordot ZR A B [] [] [1; 0] [0; 1] = Ok Re /\ tensordot_e ZR A B [] [] [1; 0] [0; 1] = Ok Re /\
  tensordot ZR A B [] [] [0; 1] [1; 0] = Ok Re.
Proof. cbv zeta. repeat split; vm_compute; reflexivity. Qed.
