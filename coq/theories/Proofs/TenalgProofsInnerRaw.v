(* core inner as the code is (Model/TenalgRaw.v inner_as_is): n_modes beyond the order of tensor1.
   - within the order it is the documented routine `inner` of Model/Tenalg.v (so every theorem about `inner` is about the code);
   - beyond the order the einsum backend (and the documented routine) reject EVERY request, while the core code accepts the
     requests whose second operand has exactly the shape of the wrapped-around slice: the two backends disagree there. *)
From Coq Require Import List Arith ZArith Lia Bool.
From TLV Require Import Base.Shape Base.PyList Base.Tensor Base.BigSum Model.Base Model.Tenalg Model.TenalgRaw.
Import ListNotations.

Section P.
Context {F : Type} (Op : rops F).

Lemma inner_cut_in_range L n : n <= L -> inner_cut L n = L - n.
Proof. intros H. unfold inner_cut. apply Nat.leb_le in H. now rewrite H. Qed.
Lemma inner_cut_beyond L n : L < n -> inner_cut L n = 2 * L - n.
Proof. intros H. unfold inner_cut. destruct (n <=? L) eqn:E; [apply Nat.leb_le in E; lia | reflexivity]. Qed.

(* n_modes <= order of tensor1: the code is the documented routine *)
Theorem inner_as_is_in_range (A B : tensor F) (n : nat) :
  n <= ndim A -> inner_as_is Op A B n = inner Op A B (Some n).
Proof.
  intros H. unfold ndim in H. unfold inner_as_is, inner, lastn'. rewrite (inner_cut_in_range _ _ H).
  apply Nat.leb_le in H. rewrite H. reflexivity.
Qed.

(* n_modes > order of tensor1: the documented routine and the einsum backend reject whatever the operands are *)
Theorem inner_beyond_rejects (A B : tensor F) (n : nat) :
  ndim A < n -> inner Op A B (Some n) = Err /\ inner_e Op A B (Some n) = Err.
Proof.
  intros H. unfold ndim in H. unfold inner, inner_e.
  assert (E : (n <=? length (shape A)) = false) by (apply Nat.leb_gt; exact H).
  rewrite E. split; reflexivity.
Qed.

(* ... and the core code rejects unless the whole shape of tensor2, cut at n_modes, is the wrapped-around slice of tensor1's shape *)
Theorem inner_as_is_beyond_rejects (A B : tensor F) (n : nat) :
  ndim A < n -> firstn n (shape B) <> skipn (2 * ndim A - n) (shape A) -> inner_as_is Op A B n = Err.
Proof.
  intros H Hne. unfold ndim in *. unfold inner_as_is. rewrite (inner_cut_beyond _ _ H).
  destruct (nat_list_eq (skipn (2 * length (shape A) - n) (shape A)) (firstn n (shape B))) eqn:E; [|reflexivity].
  exfalso. apply Hne. clear - E.
  revert E. generalize (skipn (2 * length (shape A) - n) (shape A)) (firstn n (shape B)).
  induction l as [|x l IH]; intros [|y l'] E; cbn in E; try discriminate; [reflexivity|].
  apply andb_true_iff in E. destruct E as [E1 E2]. apply Nat.eqb_eq in E1. subst. f_equal. now apply IH.
Qed.
(* ... and when it is, the value returned is that of the documented routine with n_modes = the number of modes the slice kept,
   min(n_modes - L, L): the malformed request is silently answered as a different, well-formed one *)
Theorem inner_as_is_beyond_value (A B : tensor F) (n : nat) :
  ndim A < n -> shape B = skipn (2 * ndim A - n) (shape A) ->
  inner_as_is Op A B n = inner Op A B (Some (ndim A - (2 * ndim A - n))).
Proof.
  intros H HB. unfold ndim in *. set (L := length (shape A)) in *. set (k := 2 * L - n) in *.
  assert (Hk : k <= L) by (unfold k; lia).
  assert (HlB : length (shape B) = L - k) by (rewrite HB, skipn_length; reflexivity).
  unfold inner_as_is, inner, lastn'. fold L. rewrite (inner_cut_beyond _ _ H). fold k.
  replace (L - (L - k)) with k by lia.
  assert (E : (L - k <=? L) = true) by (apply Nat.leb_le; lia). rewrite E. cbn [andb].
  rewrite (firstn_all2 (n := n)) by lia. rewrite (firstn_all2 (n := L - k)) by lia.
  rewrite (skipn_all2 (n := n)) by lia. rewrite (skipn_all2 (n := L - k)) by lia.
  reflexivity.
Qed.
End P.

(* the accepted malformed request on the real code's witness: inner(arange(6).reshape(2,3), [1,2,3], n_modes=3) = [8, 26] under the
   core backend (the value of n_modes=1), ValueError under the einsum backend *)
Theorem inner_core_n_modes_beyond_order_refuted :
  exists (A B : tensor Z) (n : nat) (R : tensor Z),
    ndim A < n /\ inner_as_is ZR A B n = Ok R /\ inner_e ZR A B (Some n) = Err.
Proof.
  exists (mk [2; 3] [0; 1; 2; 3; 4; 5]%Z), (mk [3] [1; 2; 3]%Z), 3, (mk [2] [8; 26]%Z).
  split; [cbv; lia|]. split; vm_compute; reflexivity.
Qed.
Example inner_as_is_beyond_value_nonvacuous :
  let A := mk [2; 3] [0; 1; 2; 3; 4; 5]%Z in let B := mk [3] [1; 2; 3]%Z in
  ndim A < 3 /\ shape B = skipn (2 * ndim A - 3) (shape A) /\ inner ZR A B (Some (ndim A - (2 * ndim A - 3))) = Ok (mk [2] [8; 26]%Z).
Proof. split; [cbv; lia|]. split; [reflexivity | vm_compute; reflexivity]. Qed.
Example inner_as_is_in_range_nonvacuous :
  let A := mk [2; 3] [0; 1; 2; 3; 4; 5]%Z in let B := mk [3; 2] [1; 2; 3; 4; 5; 6]%Z in
  1 <= ndim A /\ inner_as_is ZR A B 1 = Ok (mk [2; 2] [13; 16; 40; 52]%Z).
Proof. split; [cbv; lia | vm_compute; reflexivity]. Qed.
Example inner_as_is_beyond_rejects_nonvacuous :
  let A := mk [2; 3] [0; 1; 2; 3; 4; 5]%Z in let B := mk [2] [1; 2]%Z in
  ndim A < 3 /\ firstn 3 (shape B) <> skipn (2 * ndim A - 3) (shape A) /\ inner_as_is ZR A B 3 = Err.
Proof. split; [cbv; lia|]. split; [cbv; discriminate | vm_compute; reflexivity]. Qed.
