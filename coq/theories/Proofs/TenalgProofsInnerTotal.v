(* complete characterisation of the core code's inner (inner_as_is) by the documented routine, for every n_modes *)
From Coq Require Import List Arith ZArith Lia Bool.
From TLV Require Import Base.Shape Base.PyList Base.Tensor Base.BigSum Model.Base Model.Tenalg Model.TenalgRaw Proofs.TenalgProofsInner Proofs.TenalgProofsInnerRaw.
Import ListNotations.

Section P.
Context {F : Type} (Op : rops F).
Theorem inner_as_is_total (A B : tensor F) (n : nat) :
  inner_as_is Op A B n =
  if n <=? ndim A then inner Op A B (Some n)
  else if nat_list_eq (skipn (2 * ndim A - n) (shape A)) (firstn n (shape B))
       then inner Op A B (Some (ndim A - (2 * ndim A - n))) else Err.
Proof.
  destruct (n <=? ndim A) eqn:E.
  - apply Nat.leb_le in E. now apply inner_as_is_in_range.
  - apply Nat.leb_gt in E.
    destruct (nat_list_eq (skipn (2 * ndim A - n) (shape A)) (firstn n (shape B))) eqn:Eq.
    + apply nat_list_eq_true in Eq. apply inner_as_is_beyond_value; [exact E|].
      assert (Hl : length (firstn n (shape B)) = length (shape A) - (2 * ndim A - n)) by (rewrite <- Eq; apply skipn_length).
      unfold ndim in *. rewrite firstn_length in Hl.
      assert (Hlen : length (shape B) <= n) by lia.
      rewrite firstn_all2 in Eq by exact Hlen. symmetry. exact Eq.
    + apply inner_as_is_beyond_rejects; [exact E|]. intros Hc. rewrite Hc, nat_list_eq_refl in Eq. discriminate.
Qed.
End P.
