(* Khatri-Rao, Kronecker, MTTKRP, sample_khatri_rao: model = textbook index formula, over any commutative ring. *)
From Coq Require Import List Arith ZArith Lia Ring Bool.
From TLV Require Import Base.Shape Base.PyList Base.Tensor Base.BigSum Model.Base Proofs.BaseProofs Model.Tenalg Proofs.TenalgProofs.
Import ListNotations.

Lemma prod_cons x l : prod (x :: l) = x * prod l.
Proof. reflexivity. Qed.

Section P.
Context {F : Type} (Op : rops F).
Hypothesis Rth : ring_theory (r0 Op) (r1 Op) (radd Op) (rmul Op) (rsub Op) (ropp Op) (@eq F).
Add Ring Fr2 : Rth.
Notation d := (r0 Op).
Infix "*r" := (rmul Op) (at level 40, left associativity).
Infix "+r" := (radd Op) (at level 50, left associativity).
Notation bs := (bsum Op).

(* ---------------------------------------------------------------- spec side *)
Definition kr_entry (Ms : list (tensor F)) (is_ : list nat) (r : nat) : F :=
  rprod Op (map (fun p => get d (fst p) [snd p; r]) (combine Ms is_)).
Definition kron_entry (Ms : list (tensor F)) (is_ js : list nat) : F :=
  rprod Op (map (fun p => get d (fst (fst p)) [snd (fst p); snd p]) (combine (combine Ms is_) js)).
Definition wv (w : option (tensor F)) (r : nat) : F := match w with Some w => nth r (data w) d | None => r1 Op end.
Definition maskv (m : option (tensor F)) (row : nat) : F := match m with Some m => nth row (data m) d | None => r1 Op end.
(* all matrices are well-formed n_i x R *)
Definition mats (R : nat) (Ms : list (tensor F)) : Prop := Forall (fun M => wf M /\ shape M = [nrows M; R]) Ms.

Lemma kr_entry_cons M Ms i is_ r : kr_entry (M :: Ms) (i :: is_) r = get d M [i; r] *r kr_entry Ms is_ r.
Proof. reflexivity. Qed.
Lemma kr_entry_nil r : kr_entry [] [] r = r1 Op.
Proof. reflexivity. Qed.

Lemma get_reshape_flat (t : tensor F) s idx : get d (reshape s t) idx = nth (ravel s idx) (data t) d.
Proof. reflexivity. Qed.

(* ---------------------------------------------------------------- one Khatri-Rao step *)
Lemma kr_step_shape A B n m R : shape A = [n; R] -> shape B = [m; R] -> shape (kr_step Op A B) = [n * m; R].
Proof. intros HA HB. unfold kr_step, nrows, ncols. rewrite HA, HB. reflexivity. Qed.
Lemma kr_step_wf A B n m R : shape A = [n; R] -> shape B = [m; R] -> wf (kr_step Op A B).
Proof.
  intros HA HB. unfold wf, kr_step, nrows, ncols. rewrite HA, HB. cbn [reshape data shape nth tabulate].
  rewrite map_length, seq_length. rewrite !prod_cons. change (prod []) with 1. lia.
Qed.
Lemma kr_step_get A B n m R i j r : shape A = [n; R] -> shape B = [m; R] -> i < n -> j < m -> r < R ->
  get d (kr_step Op A B) [i * m + j; r] = get d A [i; r] *r get d B [j; r].
Proof.
  intros HA HB Hi Hj Hr. unfold kr_step, nrows, ncols. rewrite HA, HB. cbn [nth].
  rewrite get_reshape_flat.
  assert (E : ravel [n * m; R] [i * m + j; r] = ravel [n; m; R] [i; j; r]).
  { rewrite ravel2. cbn [ravel]. rewrite !prod_cons. change (prod []) with 1. lia. }
  rewrite E.
  change (nth (ravel [n; m; R] [i; j; r]) (data (tabulate [n; m; R] ?f)) d) with (get d (tabulate [n; m; R] f) [i; j; r]).
  set (f := fun idx : list nat => get d A [nth 0 idx 0; nth 2 idx 0] *r get d B [nth 1 idx 0; nth 2 idx 0]).
  change (get d (tabulate [n; m; R] f) [i; j; r] = get d A [i; r] *r get d B [j; r]).
  rewrite get_tabulate by (simpl; auto). reflexivity.
Qed.

Lemma kr_fold_shape R : forall rest acc n, shape acc = [n; R] -> wf acc -> mats R rest ->
  shape (fold_left (kr_step Op) rest acc) = [n * prod (map nrows rest); R] /\ wf (fold_left (kr_step Op) rest acc).
Proof.
  induction rest as [|e rest IH]; intros acc n Hs W Hm.
  - cbn [fold_left map]. unfold prod. cbn [fold_right]. rewrite Nat.mul_1_r. auto.
  - inversion Hm as [|? ? [We Hse] Hm']; subst. cbn [fold_left map]. rewrite prod_cons.
    destruct (IH (kr_step Op acc e) (n * nrows e)) as [H1 H2]; auto.
    + eapply kr_step_shape; eauto.
    + eapply kr_step_wf; eauto.
    + split; auto. rewrite H1. f_equal. lia.
Qed.

Lemma kr_fold_get R r : r < R -> forall rest acc n i is_, shape acc = [n; R] -> mats R rest -> i < n ->
  inb (map nrows rest) is_ ->
  get d (fold_left (kr_step Op) rest acc) [i * prod (map nrows rest) + ravel (map nrows rest) is_; r]
  = get d acc [i; r] *r kr_entry rest is_ r.
Proof.
  intros Hr. induction rest as [|e rest IH]; intros acc n i is_ Hs Hm Hi Hin.
  - destruct is_; [|contradiction]. cbn [fold_left map ravel]. unfold prod. cbn [fold_right].
    rewrite Nat.mul_1_r, Nat.add_0_r, kr_entry_nil. ring.
  - destruct is_ as [|j is_]; [contradiction|]. cbn [map] in Hin. destruct Hin as [Hj Hin].
    inversion Hm as [|? ? [We Hse] Hm']; subst. cbn [fold_left map ravel]. rewrite prod_cons.
    replace (i * (nrows e * prod (map nrows rest)) + (j * prod (map nrows rest) + ravel (map nrows rest) is_))
      with ((i * nrows e + j) * prod (map nrows rest) + ravel (map nrows rest) is_) by lia.
    rewrite (IH (kr_step Op acc e) (n * nrows e)); auto.
    + rewrite (kr_step_get acc e n (nrows e) R) by auto. rewrite kr_entry_cons. ring.
    + eapply kr_step_shape; eauto.
    + nia.
Qed.

Lemma get_scale_cols M w idx : inb (shape M) idx ->
  get d (scale_cols Op M w) idx = get d M idx *r nth (nth 1 idx 0) (data w) d.
Proof. intros H. unfold scale_cols. now rewrite get_tabulate. Qed.
Lemma get_scale_rows M m idx : inb (shape M) idx ->
  get d (scale_rows Op M m) idx = get d M idx *r nth (nth 0 idx 0) (data m) d.
Proof. intros H. unfold scale_rows. now rewrite get_tabulate. Qed.

(* weights with exactly one entry per column / mask with one entry per row (any shape: the code reshapes them) *)
Definition w_ok (w : option (tensor F)) (R : nat) : Prop := forall w0, w = Some w0 -> prod (shape w0) = R.
Definition mask_ok (m : option (tensor F)) (rows : nat) : Prop := forall m0, m = Some m0 -> prod (shape m0) = rows.

Lemma apply_w_props w M : wf M -> w_ok w (ncols M) -> exists M', apply_w Op w M = Ok M' /\ wf M' /\ shape M' = shape M /\
  forall idx, inb (shape M) idx -> get d M' idx = get d M idx *r wv w (nth 1 idx 0).
Proof.
  intros W Hw. destruct w as [w|]; cbn [apply_w wv].
  - rewrite (Hw w eq_refl), Nat.eqb_refl. eexists. split; [reflexivity|].
    split; [apply wf_tabulate | split; [reflexivity|]]. intros. now apply get_scale_cols.
  - exists M. split; [reflexivity|]. split; [exact W | split; [reflexivity|]]. intros. ring.
Qed.
Lemma apply_mask_props m M : wf M -> mask_ok m (nrows M) -> exists M', apply_mask Op m M = Ok M' /\ wf M' /\ shape M' = shape M /\
  forall idx, inb (shape M) idx -> get d M' idx = get d M idx *r maskv m (nth 0 idx 0).
Proof.
  intros W Hm. destruct m as [m|]; cbn [apply_mask maskv].
  - rewrite (Hm m eq_refl), Nat.eqb_refl. eexists. split; [reflexivity|].
    split; [apply wf_tabulate | split; [reflexivity|]]. intros. now apply get_scale_rows.
  - exists M. split; [reflexivity|]. split; [exact W | split; [reflexivity|]]. intros. ring.
Qed.

Lemma kr_valid_mats R M0 rest : mats R (M0 :: rest) -> kr_valid (M0 :: rest) = true.
Proof.
  intros Hm. unfold kr_valid. apply forallb_forall. intros M HM.
  unfold mats in Hm. rewrite Forall_forall in Hm. destruct (Hm M HM) as [_ Hs]. destruct (Hm M0 (or_introl eq_refl)) as [_ Hs0].
  unfold ndim, ncols. rewrite Hs, Hs0. cbn [length nth]. now rewrite !Nat.eqb_refl.
Qed.

(* ================================================================ khatri_rao (core backend) *)
Theorem khatri_rao_spec (Ms : list (tensor F)) (w mask : option (tensor F)) (skip : option nat) (R : nat) :
  let Ms' := skipl skip Ms in
  Ms' <> [] -> mats R Ms' -> w_ok w R -> mask_ok mask (prod (map nrows Ms')) ->
  exists K, khatri_rao Op Ms w mask skip = Ok K /\ wf K /\ shape K = [prod (map nrows Ms'); R] /\
    forall is_ r, inb (map nrows Ms') is_ -> r < R ->
      get d K [ravel (map nrows Ms') is_; r]
      = kr_entry Ms' is_ r *r wv w r *r maskv mask (ravel (map nrows Ms') is_).
Proof.
  intros Ms' Hne Hm Hw Hmask. unfold khatri_rao. fold Ms'. destruct Ms' as [|M0 rest]; [congruence|]. clear Hne.
  inversion Hm as [|? ? [W0 Hs0] Hm']; subst.
  assert (Hc0 : ncols M0 = R) by (unfold ncols; now rewrite Hs0).
  destruct (apply_w_props w M0 W0 ltac:(now rewrite Hc0)) as [Mw [Ew [Ww [Hsw Hgw]]]].
  destruct rest as [|M1 rest'].
  - (* a single matrix *)
    assert (Hr0 : nrows Mw = prod (map nrows [M0])).
    { unfold nrows at 1. rewrite Hsw, Hs0. cbn [nth map]. unfold prod. cbn [fold_right]. now rewrite Nat.mul_1_r. }
    destruct (apply_mask_props mask Mw Ww ltac:(now rewrite Hr0)) as [K [Em [Wm [Hsm Hgm]]]].
    exists K. rewrite Ew. cbn [rbind]. split; [exact Em|]. split; [exact Wm|]. split.
    + rewrite Hsm, Hsw, Hs0. cbn [map]. unfold prod. cbn [fold_right]. now rewrite Nat.mul_1_r.
    + intros is_ r Hin Hr. cbn [map] in *. destruct is_ as [|i [|? ?]]; cbn [inb] in Hin; try tauto. destruct Hin as [Hi _].
      rewrite ravel1, kr_entry_cons, kr_entry_nil.
      rewrite Hgm by (rewrite Hsw, Hs0; simpl; auto). rewrite Hgw by (rewrite Hs0; simpl; auto). cbn [nth]. ring.
  - set (rest := M1 :: rest') in *.
    rewrite (kr_valid_mats R M0 rest Hm). rewrite Ew. cbn [rbind].
    assert (Hsa : shape Mw = [nrows M0; R]) by congruence.
    destruct (kr_fold_shape R rest Mw (nrows M0) Hsa Ww Hm') as [HsK WK].
    assert (HrK : nrows (fold_left (kr_step Op) rest Mw) = prod (map nrows (M0 :: rest))).
    { unfold nrows at 1. rewrite HsK. reflexivity. }
    destruct (apply_mask_props mask _ WK ltac:(now rewrite HrK)) as [K [Em [Wm [Hsm Hgm]]]].
    exists K. split; [exact Em|]. split; [exact Wm|]. split.
    + rewrite Hsm, HsK. reflexivity.
    + intros is_ r Hin Hr. cbn [map] in Hin. destruct is_ as [|i is_]; [contradiction|]. destruct Hin as [Hi Hin].
      cbn [map ravel].
      assert (Hrow : i * prod (map nrows rest) + ravel (map nrows rest) is_ < nrows M0 * prod (map nrows rest)).
      { pose proof (ravel_lt _ _ Hin). nia. }
      rewrite Hgm by (rewrite HsK; simpl; auto). cbn [nth].
      rewrite (kr_fold_get R r Hr rest Mw (nrows M0)) by auto.
      rewrite Hgw by (rewrite Hs0; simpl; auto). cbn [nth]. rewrite kr_entry_cons. ring.
Qed.

(* ================================================================ kronecker (core backend) *)
Definition kmats (Ms : list (tensor F)) : Prop :=
  Forall (fun M => wf M /\ shape M = [nrows M; ncols M] /\ 0 < nrows M /\ 0 < ncols M) Ms.

Lemma kron_entry_cons M Ms i is_ j js : kron_entry (M :: Ms) (i :: is_) (j :: js) = get d M [i; j] *r kron_entry Ms is_ js.
Proof. reflexivity. Qed.

Lemma kron2_shape A B : shape (kron2 Op A B) = [nrows A * nrows B; ncols A * ncols B].
Proof. reflexivity. Qed.
Lemma kron2_get A B i j k l : i < nrows A -> j < ncols A -> k < nrows B -> l < ncols B ->
  get d (kron2 Op A B) [i * nrows B + k; j * ncols B + l] = get d A [i; j] *r get d B [k; l].
Proof.
  intros Hi Hj Hk Hl. unfold kron2. rewrite get_tabulate by (simpl; split; [nia | split; [nia | exact I]]).
  cbn [nth].
  assert (Hb : nrows B <> 0) by lia. assert (Hc : ncols B <> 0) by lia.
  rewrite (Nat.div_add_l i (nrows B) k Hb), (Nat.div_small k (nrows B) Hk), Nat.add_0_r.
  rewrite (Nat.div_add_l j (ncols B) l Hc), (Nat.div_small l (ncols B) Hl), Nat.add_0_r.
  rewrite (Nat.add_comm (i * nrows B) k), (Nat.mod_add k i (nrows B) Hb), (Nat.mod_small k (nrows B) Hk).
  rewrite (Nat.add_comm (j * ncols B) l), (Nat.mod_add l j (ncols B) Hc), (Nat.mod_small l (ncols B) Hl).
  reflexivity.
Qed.

Lemma kron_fold_props : forall rest acc n m, shape acc = [n; m] -> kmats rest ->
  shape (fold_left (kron2 Op) rest acc) = [n * prod (map nrows rest); m * prod (map ncols rest)] /\
  wf (fold_left (kron2 Op) rest acc) \/ rest = [] .
Proof.
  induction rest as [|e rest IH]; intros acc n m Hs Hk; [right; reflexivity|]. left.
  inversion Hk as [|? ? [We [Hse [Hre Hce]]] Hk']; subst. cbn [fold_left map]. rewrite !prod_cons.
  assert (Hs' : shape (kron2 Op acc e) = [n * nrows e; m * ncols e]).
  { rewrite kron2_shape. unfold nrows at 1, ncols at 1. rewrite Hs. reflexivity. }
  destruct (IH (kron2 Op acc e) _ _ Hs' Hk') as [[H1 H2] | ->].
  - split; auto. rewrite H1. f_equal; [|f_equal]; lia.
  - cbn [fold_left map]. change (prod []) with 1. rewrite !Nat.mul_1_r. split; [exact Hs' | apply wf_tabulate].
Qed.

Lemma kron_fold_get : forall rest acc n m i j is_ js, shape acc = [n; m] -> kmats rest -> i < n -> j < m ->
  inb (map nrows rest) is_ -> inb (map ncols rest) js ->
  get d (fold_left (kron2 Op) rest acc)
      [i * prod (map nrows rest) + ravel (map nrows rest) is_; j * prod (map ncols rest) + ravel (map ncols rest) js]
  = get d acc [i; j] *r kron_entry rest is_ js.
Proof.
  induction rest as [|e rest IH]; intros acc n m i j is_ js Hs Hk Hi Hj Hin Hjn.
  - destruct is_; [|contradiction]. destruct js; [|contradiction]. cbn [fold_left map ravel]. change (prod []) with 1.
    rewrite !Nat.mul_1_r, !Nat.add_0_r. unfold kron_entry. cbn [combine map rprod fold_right]. ring.
  - destruct is_ as [|k is_]; [contradiction|]. destruct js as [|l js]; [contradiction|].
    cbn [map] in Hin, Hjn. destruct Hin as [Hk1 Hin]. destruct Hjn as [Hl1 Hjn].
    inversion Hk as [|? ? [We [Hse [Hre Hce]]] Hk']; subst. cbn [fold_left map ravel]. rewrite !prod_cons.
    replace (i * (nrows e * prod (map nrows rest)) + (k * prod (map nrows rest) + ravel (map nrows rest) is_))
      with ((i * nrows e + k) * prod (map nrows rest) + ravel (map nrows rest) is_) by lia.
    replace (j * (ncols e * prod (map ncols rest)) + (l * prod (map ncols rest) + ravel (map ncols rest) js))
      with ((j * ncols e + l) * prod (map ncols rest) + ravel (map ncols rest) js) by lia.
    assert (Hs' : shape (kron2 Op acc e) = [n * nrows e; m * ncols e]).
    { rewrite kron2_shape. unfold nrows at 1, ncols at 1. rewrite Hs. reflexivity. }
    rewrite (IH (kron2 Op acc e) _ _ _ _ _ _ Hs' Hk'); auto; try nia.
    rewrite kron2_get by (unfold nrows, ncols; rewrite ?Hs; cbn [nth]; auto).
    rewrite kron_entry_cons. ring.
Qed.

Theorem kronecker_spec (Ms : list (tensor F)) (skip : option nat) (reverse : bool) :
  let l := if reverse then rev (skipl skip Ms) else skipl skip Ms in
  l <> [] -> kmats l ->
  exists K, kronecker Op Ms skip reverse = Ok K /\ wf K /\ shape K = [prod (map nrows l); prod (map ncols l)] /\
    forall is_ js, inb (map nrows l) is_ -> inb (map ncols l) js ->
      get d K [ravel (map nrows l) is_; ravel (map ncols l) js] = kron_entry l is_ js.
Proof.
  intros l Hne Hk. unfold kronecker. fold l. destruct l as [|M0 rest]; [congruence|]. clear Hne.
  inversion Hk as [|? ? [W0 [Hs0 [Hr0 Hc0]]] Hk']; subst.
  exists (fold_left (kron2 Op) rest M0). split; [reflexivity|].
  destruct (kron_fold_props rest M0 _ _ Hs0 Hk') as [[H1 H2] | ->].
  - split; [exact H2|]. split; [exact H1|].
    intros is_ js Hin Hjn. cbn [map] in Hin, Hjn.
    destruct is_ as [|i is_]; [contradiction|]. destruct js as [|j js]; [contradiction|].
    destruct Hin as [Hi Hin]. destruct Hjn as [Hj Hjn]. cbn [map ravel].
    rewrite (kron_fold_get rest M0 _ _ i j is_ js Hs0 Hk') by auto. rewrite kron_entry_cons. reflexivity.
  - cbn [fold_left map]. change (prod [nrows M0]) with (nrows M0 * 1). change (prod [ncols M0]) with (ncols M0 * 1).
    rewrite !Nat.mul_1_r. split; [exact W0|]. split; [exact Hs0|].
    intros is_ js Hin Hjn. destruct is_ as [|i [|? ?]]; cbn [inb] in Hin; try tauto.
    destruct js as [|j [|? ?]]; cbn [inb] in Hjn; try tauto.
    rewrite !ravel1, kron_entry_cons. unfold kron_entry. cbn [combine map rprod fold_right]. ring.
Qed.

(* ================================================================ MTTKRP (default core variant) *)
Lemma get_conj_t (t : tensor F) idx : wf t -> inb (shape t) idx -> get d (conj_t Op t) idx = rconj Op (get d t idx).
Proof.
  intros W Hi. unfold conj_t, tmap, get. cbn [shape data].
  rewrite nth_indep with (d' := rconj Op d) by (rewrite map_length, W; now apply ravel_lt).
  apply map_nth.
Qed.

Theorem mttkrp_spec (T : tensor F) (w : option (tensor F)) (fs : list (tensor F)) (k R : nat) :
  wf T -> k < ndim T -> 0 < prod (shape T) -> 0 < R ->
  map nrows fs = shape T -> mats R fs -> 2 <= ndim T -> w_ok w R ->
  exists Mt, mttkrp Op T w fs k = Ok Mt /\ wf Mt /\ shape Mt = [nth k (shape T) 0; R] /\
    forall i r, i < nth k (shape T) 0 -> r < R ->
      get d Mt [i; r] =
      ssum Op (remove_nth k (shape T))
        (fun ridx => get d T (insert_at k i ridx) *r rconj Op (kr_entry (remove_nth k fs) ridx r *r wv w r)).
Proof.
  intros WT Hk Hpos HR Hrows Hm Hnd Hw. unfold ndim in *.
  set (fs' := remove_nth k fs).
  assert (Hlen : length fs = length (shape T)) by (rewrite <- Hrows; now rewrite map_length).
  assert (Hrows' : map nrows fs' = remove_nth k (shape T)).
  { unfold fs'. rewrite <- Hrows. clear. revert k. induction fs as [|f fs IH]; intros [|k]; simpl; auto. f_equal. apply IH. }
  assert (Hne : fs' <> []).
  { intros E. assert (Hl : length fs' = length fs - 1) by (unfold fs'; apply remove_nth_length; lia). rewrite E in Hl. simpl in Hl. lia. }
  assert (Hm' : mats R fs').
  { unfold mats, fs' in *. rewrite Forall_forall in *. intros M HM. apply Hm. clear -HM. revert k HM.
    induction fs as [|f fs IH]; intros [|k] HM; simpl in *; auto. destruct HM; auto. right. eapply IH; eauto. }
  destruct (khatri_rao_spec fs w None (Some k) R Hne Hm' Hw ltac:(intros m0 E; discriminate E)) as [K [HK [WK [HsK HgK]]]].
  cbn [skipl] in HsK, HgK. fold fs' in HsK, HgK. rewrite Hrows' in HsK, HgK.
  set (sk := nth k (shape T) 0). set (rest := remove_nth k (shape T)) in *.
  assert (Hprod : sk * prod rest = prod (shape T)) by (apply prod_remove; exact Hk).
  assert (Hsk : 0 < sk) by nia. assert (Hrest : 0 < prod rest) by nia.
  set (U := reshape [sk; prod rest] (moveaxis d T k 0)).
  assert (HU : unfold d T k = Ok U) by (apply unfold_eq; auto).
  exists (matmul Op U (conj_t Op K)).
  assert (HncK : ncols (conj_t Op K) = R) by (unfold ncols, conj_t, tmap; cbn [shape]; now rewrite HsK).
  split; [|split; [apply wf_tabulate | split]].
  - unfold mttkrp. rewrite HK. cbn [rbind]. rewrite HU. cbn [rbind].
    assert (E : (ncols U =? nrows K) = true).
    { apply Nat.eqb_eq. unfold ncols, nrows, U, reshape. cbn [shape nth]. now rewrite HsK. }
    now rewrite E.
  - unfold matmul. cbn [shape]. rewrite HncK. reflexivity.
  - intros i r Hi Hr.
    rewrite get_matmul by (try rewrite HncK; auto).
    unfold ssum, sum_idx, bsum. 
    assert (HcU : ncols U = prod rest) by reflexivity. rewrite HcU.
    apply bigsum_ext. intros c Hc.
    assert (Hri : inb rest (unravel rest c)) by (apply unravel_inb; exact Hc).
    f_equal.
    + assert (Hl : length (unravel rest c) = length (shape T) - 1).
      { rewrite unravel_length. unfold rest. apply remove_nth_length. exact Hk. }
      assert (Hin : inb (shape T) (insert_at k i (unravel rest c))) by (apply inb_insert_at_back; auto).
      destruct (unfold_layout d T k U _ WT Hk Hpos HU Hin) as [_ HL].
      rewrite <- HL. f_equal. f_equal; [| f_equal].
      * symmetry. apply nth_insert_same. lia.
      * fold rest. rewrite remove_insert by lia. now rewrite ravel_unravel.
    + rewrite get_conj_t by (auto; rewrite HsK; simpl; auto). f_equal.
      rewrite <- (ravel_unravel rest c Hc) at 1. rewrite HgK by auto. cbn [maskv]. ring.
Qed.

End P.
