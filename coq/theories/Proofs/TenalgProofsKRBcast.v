(* khatri_rao (core backend) with weights / mask that NumPy broadcasts as a scalar: weights (mask) with exactly R entries
   (one entry per row) scale the columns (rows); a single entry scales the whole matrix; hypotheses w_okb / mask_okb allow both.
   Extends khatri_rao_spec (TenalgProofsKR.v), whose proof is reused line by line over the generalised coefficient functions. *)
From Coq Require Import List Arith ZArith Lia Ring Bool.
From TLV Require Import Base.Shape Base.PyList Base.Tensor Base.BigSum Model.Base Proofs.BaseProofs Model.Tenalg Proofs.TenalgProofs Proofs.TenalgProofsKR.
Import ListNotations.

Section P.
Context {F : Type} (Op : rops F).
Hypothesis Rth : ring_theory (r0 Op) (r1 Op) (radd Op) (rmul Op) (rsub Op) (ropp Op) (@eq F).
Add Ring Fr24 : Rth.
Notation d := (r0 Op).
Infix "*r" := (rmul Op) (at level 40, left associativity).

(* the weight of column r / the mask entry of a row, NumPy broadcasting included: n entries -> entry r, one entry -> that entry *)
Definition wvb (n : nat) (w : option (tensor F)) (r : nat) : F :=
  match w with Some w => if prod (shape w) =? n then nth r (data w) d else nth 0 (data w) d | None => r1 Op end.
Definition maskvb := wvb.
Definition w_okb (w : option (tensor F)) (n : nat) : Prop := forall w0, w = Some w0 -> prod (shape w0) = n \/ prod (shape w0) = 1.
Definition mask_okb := w_okb.

Lemma get_scale_all M c idx : inb (shape M) idx -> get d (scale_all Op M c) idx = get d M idx *r c.
Proof. intros H. unfold scale_all. now rewrite get_tabulate. Qed.

Lemma apply_w_propsb w M : wf M -> w_okb w (ncols M) -> exists M', apply_w Op w M = Ok M' /\ wf M' /\ shape M' = shape M /\
  forall idx, inb (shape M) idx -> get d M' idx = get d M idx *r wvb (ncols M) w (nth 1 idx 0).
Proof.
  intros W Hw. destruct w as [w|]; cbn [apply_w wvb].
  - destruct (prod (shape w) =? ncols M) eqn:E.
    + eexists. split; [reflexivity|]. split; [apply wf_tabulate | split; [reflexivity|]]. intros. now apply get_scale_cols.
    + destruct (Hw w eq_refl) as [H|H]; [apply Nat.eqb_neq in E; contradiction|]. rewrite H. cbn [Nat.eqb].
      eexists. split; [reflexivity|]. split; [apply wf_tabulate | split; [reflexivity|]]. intros. now apply get_scale_all.
  - exists M. split; [reflexivity|]. split; [exact W | split; [reflexivity|]]. intros. ring.
Qed.
Lemma apply_mask_propsb m M : wf M -> mask_okb m (nrows M) -> exists M', apply_mask Op m M = Ok M' /\ wf M' /\ shape M' = shape M /\
  forall idx, inb (shape M) idx -> get d M' idx = get d M idx *r maskvb (nrows M) m (nth 0 idx 0).
Proof.
  intros W Hm. destruct m as [m|]; cbn [apply_mask maskvb wvb].
  - destruct (prod (shape m) =? nrows M) eqn:E.
    + eexists. split; [reflexivity|]. split; [apply wf_tabulate | split; [reflexivity|]]. intros. now apply get_scale_rows.
    + destruct (Hm m eq_refl) as [H|H]; [apply Nat.eqb_neq in E; contradiction|]. rewrite H. cbn [Nat.eqb].
      eexists. split; [reflexivity|]. split; [apply wf_tabulate | split; [reflexivity|]]. intros. now apply get_scale_all.
  - exists M. split; [reflexivity|]. split; [exact W | split; [reflexivity|]]. intros. ring.
Qed.

Theorem khatri_rao_bcast_spec (Ms : list (tensor F)) (w mask : option (tensor F)) (skip : option nat) (R : nat) :
  let Ms' := skipl skip Ms in
  Ms' <> [] -> mats R Ms' -> w_okb w R -> mask_okb mask (prod (map nrows Ms')) ->
  exists K, khatri_rao Op Ms w mask skip = Ok K /\ wf K /\ shape K = [prod (map nrows Ms'); R] /\
    forall is_ r, inb (map nrows Ms') is_ -> r < R ->
      get d K [ravel (map nrows Ms') is_; r]
      = kr_entry Op Ms' is_ r *r wvb R w r *r maskvb (prod (map nrows Ms')) mask (ravel (map nrows Ms') is_).
Proof.
  intros Ms' Hne Hm Hw Hmask. unfold khatri_rao. fold Ms'. destruct Ms' as [|M0 rest]; [congruence|]. clear Hne.
  inversion Hm as [|? ? [W0 Hs0] Hm']; subst.
  assert (Hc0 : ncols M0 = R) by (unfold ncols; now rewrite Hs0).
  destruct (apply_w_propsb w M0 W0 ltac:(now rewrite Hc0)) as [Mw [Ew [Ww [Hsw Hgw]]]].
  destruct rest as [|M1 rest'].
  - (* a single matrix *)
    assert (Hr0 : nrows Mw = prod (map nrows [M0])).
    { unfold nrows at 1. rewrite Hsw, Hs0. cbn [nth map]. unfold prod. cbn [fold_right]. now rewrite Nat.mul_1_r. }
    destruct (apply_mask_propsb mask Mw Ww ltac:(now rewrite Hr0)) as [K [Em [Wm [Hsm Hgm]]]].
    exists K. rewrite Ew. cbn [rbind]. split; [exact Em|]. split; [exact Wm|]. split.
    + rewrite Hsm, Hsw, Hs0. cbn [map]. unfold prod. cbn [fold_right]. now rewrite Nat.mul_1_r.
    + intros is_ r Hin Hr. cbn [map] in *. destruct is_ as [|i [|? ?]]; cbn [inb] in Hin; try tauto. destruct Hin as [Hi _].
      rewrite ravel1, kr_entry_cons, kr_entry_nil.
      rewrite Hgm by (rewrite Hsw, Hs0; simpl; auto). rewrite Hgw by (rewrite Hs0; simpl; auto). cbn [nth]. rewrite Hc0, Hr0. ring.
  - set (rest := M1 :: rest') in *.
    rewrite (kr_valid_mats R M0 rest Hm). rewrite Ew. cbn [rbind].
    assert (Hsa : shape Mw = [nrows M0; R]) by congruence.
    destruct (kr_fold_shape Op R rest Mw (nrows M0) Hsa Ww Hm') as [HsK WK].
    assert (HrK : nrows (fold_left (kr_step Op) rest Mw) = prod (map nrows (M0 :: rest))).
    { unfold nrows at 1. rewrite HsK. reflexivity. }
    destruct (apply_mask_propsb mask _ WK ltac:(now rewrite HrK)) as [K [Em [Wm [Hsm Hgm]]]].
    exists K. split; [exact Em|]. split; [exact Wm|]. split.
    + rewrite Hsm, HsK. reflexivity.
    + intros is_ r Hin Hr. cbn [map] in Hin. destruct is_ as [|i is_]; [contradiction|]. destruct Hin as [Hi Hin].
      cbn [map ravel].
      assert (Hrow : i * prod (map nrows rest) + ravel (map nrows rest) is_ < nrows M0 * prod (map nrows rest)).
      { pose proof (ravel_lt _ _ Hin). nia. }
      rewrite Hgm by (rewrite HsK; simpl; auto). cbn [nth].
      rewrite (kr_fold_get Op Rth R r Hr rest Mw (nrows M0)) by auto.
      rewrite Hgw by (rewrite Hs0; simpl; auto). cbn [nth]. rewrite kr_entry_cons, Hc0, HrK. change (map nrows (M0 :: rest)) with (nrows M0 :: map nrows rest). ring.
Qed.


End P.

Example khatri_rao_bcast_nonvacuous :
  let A : tensor Z := mk [2; 2] [1; 2; 3; 4]%Z in
  let B : tensor Z := mk [3; 2] [1; 2; 3; 4; 5; 6]%Z in
  let w : tensor Z := mk [1] [5]%Z in let m : tensor Z := mk [1; 1] [-1]%Z in
  skipl None [A; B] <> [] /\ mats 2 (skipl None [A; B]) /\ w_okb (Some w) 2 /\ mask_okb (Some m) (prod (map nrows (skipl None [A; B]))) /\
  khatri_rao ZR [A; B] (Some w) (Some m) None = Ok (mk [6; 2] [-5; -20; -15; -40; -25; -60; -15; -40; -45; -80; -75; -120]%Z).
Proof.
  cbv zeta. split; [discriminate|]. split; [repeat constructor|].
  split; [intros w0 E; injection E as <-; right; reflexivity|]. split; [intros w0 E; injection E as <-; right; reflexivity|].
  vm_compute; reflexivity.
Qed.
