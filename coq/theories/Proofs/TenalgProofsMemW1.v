(* unfolding_dot_khatri_rao_memory with a SINGLE weight (R <> 1): `stacked * reshape(conj(weights), (1, -1))` is the NumPy
   broadcast of one scalar, so the routine is the unweighted one scaled by conj(w[0]) and its entries are the textbook MTTKRP
   with the constant weight w[0] (the hypothesis "exactly R weights" of mttkrp_memory_spec removed for this case). *)
From Coq Require Import List Arith ZArith Lia Ring Bool.
From TLV Require Import Base.Shape Base.PyList Base.Tensor Base.BigSum Model.Base Proofs.BaseProofs Model.Tenalg
  Proofs.TenalgProofs Proofs.TenalgProofsKR Proofs.TenalgProofsKRBcast Proofs.TenalgProofsMemory.
Import ListNotations.

Section P.
Context {F : Type} (Op : rops F).
Hypothesis Rth : ring_theory (r0 Op) (r1 Op) (radd Op) (rmul Op) (rsub Op) (ropp Op) (@eq F).
Hypothesis Cj : conj_laws Op.
Add Ring Fr : Rth.
Notation d := (r0 Op).
Notation "x *r y" := (rmul Op x y) (at level 40, left associativity).

Lemma mttkrp_memory_weighted (T : tensor F) (w : tensor F) (fs : list (tensor F)) (k : nat) :
  mttkrp_memory Op T (Some w) fs k = rbind (mttkrp_memory Op T None fs k) (apply_w Op (Some (conj_t Op w))).
Proof.
  unfold mttkrp_memory. destruct fs as [|f0 fs']; [reflexivity|].
  destruct (collect _) as [parts|]; reflexivity.
Qed.

Theorem mttkrp_memory_scalar_weight_spec (T : tensor F) (w : tensor F) (fs : list (tensor F)) (k R : nat) :
  wf T -> k < ndim T -> 0 < prod (shape T) -> 0 < R -> R <> 1 -> map nrows fs = shape T -> mats R fs ->
  wf w -> prod (shape w) = 1 ->
  exists Mt, mttkrp_memory Op T (Some w) fs k = Ok Mt /\ wf Mt /\ shape Mt = [nth k (shape T) 0; R] /\
    forall i r, i < nth k (shape T) 0 -> r < R ->
      get d Mt [i; r] =
      ssum Op (remove_nth k (shape T))
        (fun ridx => get d T (insert_at k i ridx) *r rconj Op (kr_entry Op (remove_nth k fs) ridx r *r nth 0 (data w) d)).
Proof.
  intros WT Hk Hpos HR HR1 Hrows Hm Ww Hpw.
  destruct (mttkrp_memory_spec Op Rth Cj T None fs k R WT Hk Hpos HR Hrows Hm) as [St [E [WS [SS GS]]]]; [discriminate|].
  rewrite mttkrp_memory_weighted, E. cbn [rbind apply_w].
  assert (Hp : prod (shape (conj_t Op w)) = 1) by (unfold conj_t, tmap; cbn [shape]; exact Hpw).
  rewrite Hp. unfold ncols. rewrite SS. cbn [nth].
  destruct (Nat.eqb_spec 1 R) as [E1|_]; [congruence|]. cbn [Nat.eqb].
  exists (scale_all Op St (nth 0 (data (conj_t Op w)) d)). split; [reflexivity|]. split; [apply wf_tabulate|]. split; [exact SS|].
  intros i r Hi Hr. rewrite get_scale_all by (rewrite SS; simpl; auto). rewrite GS by assumption.
  assert (Hcw : nth 0 (data (conj_t Op w)) d = rconj Op (nth 0 (data w) d)).
  { unfold conj_t, tmap. cbn [data]. rewrite nth_indep with (d' := rconj Op d) by (rewrite map_length, Ww, Hpw; lia).
    apply map_nth. }
  rewrite Hcw. unfold ssum, sum_idx.
  rewrite <- (bigsum_scale_r F (r0 Op) (r1 Op) (radd Op) (rmul Op) (rsub Op) (ropp Op) Rth).
  apply bigsum_ext. intros c Hc. cbn [wv]. rewrite !(rconj_mul' Op Cj), (rconj_one' Op Cj). ring.
Qed.
End P.

Lemma mttkrp_memory_scalar_weight_nonvacuous :
  let A : tensor Z := mk [2; 2] [1; 2; 3; 4]%Z in let B : tensor Z := mk [3; 2] [1; 2; 3; 4; 5; 6]%Z in
  let w : tensor Z := mk [1] [5]%Z in let T : tensor Z := mk [2; 3] [1; 2; 3; 4; 5; 6]%Z in
  wf T /\ 0 < ndim T /\ 0 < prod (shape T) /\ 2 <> 1 /\ map nrows [A; B] = shape T /\ mats 2 [A; B] /\ wf w /\ prod (shape w) = 1 /\
  mttkrp_memory ZR T (Some w) [A; B] 0 = Ok (mk [2; 2] [110; 140; 245; 320]%Z) /\
  mttkrp ZR T (Some w) [A; B] 0 = Ok (mk [2; 2] [110; 140; 245; 320]%Z).
Proof.
  cbv zeta. repeat split; try reflexivity; try (cbn; lia); try discriminate.
  unfold mats. repeat constructor.
Qed.
