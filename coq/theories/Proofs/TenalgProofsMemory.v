(* core_tenalg.mttkrp.unfolding_dot_khatri_rao_memory (one multi_mode_dot with the conjugated r-th columns per component,
   skip = mode, stacked as columns, times conj(weights)) computes the textbook MTTKRP, hence equals the default
   unfolding_dot_khatri_rao.  Built on the general multi_mode_dot theorem (TenalgProofsMultiGen): the operand list is
   all vectors on the consecutive modes 0..N-1 with the mode-th one skipped. *)
From Coq Require Import List Arith ZArith Lia Ring Bool.
From TLV Require Import Base.Shape Base.PyList Base.Tensor Base.BigSum Model.Base Proofs.BaseProofs Model.Tenalg
  Proofs.TenalgProofs Proofs.TenalgProofsKR Proofs.TenalgProofsMulti Proofs.TenalgProofsSort Proofs.TenalgProofsMultiGen
  Proofs.TenalgProofsMultiGen2 Proofs.TenalgProofsEinsumMttkrp.
Import ListNotations.

Lemma gins_head {A} (key : A -> nat) x l : (forall y, In y l -> key x <= key y) -> gins key x l = x :: l.
Proof.
  destruct l as [|z r]; intros H; [reflexivity|]. cbn [gins].
  destruct (Nat.leb_spec (key x) (key z)); [reflexivity|]. specialize (H z (or_introl eq_refl)). lia.
Qed.
Lemma gsort_id {A} (key : A -> nat) : forall l, lsorted key l -> gsort key l = l.
Proof.
  induction l as [|x l IH]; intros Hs; [reflexivity|]. destruct Hs as [Hx Hs]. cbn [gsort fold_right].
  fold (gsort key l). rewrite (IH Hs). now apply gins_head.
Qed.
Lemma NoDup_map_filter {A B} (f : A -> B) (P : A -> bool) : forall l, NoDup (map f l) -> NoDup (map f (filter P l)).
Proof.
  induction l as [|x l IH]; intros H; [constructor|]. cbn [map] in H. inversion H as [|? ? Hn Hd]; subst.
  cbn [filter]. destruct (P x); [|now apply IH]. cbn [map]. constructor; [|now apply IH].
  intros Hin. apply Hn. apply in_map_iff in Hin. destruct Hin as [y [E Hy]]. apply filter_In in Hy. rewrite <- E. apply in_map. tauto.
Qed.
Lemma Forall_filter' {A} (Q : A -> Prop) (P : A -> bool) l : Forall Q l -> Forall Q (filter P l).
Proof. rewrite !Forall_forall. intros H x Hx. apply filter_In in Hx. apply H. tauto. Qed.

Lemma filter_all_id {A} (P : A -> bool) l : (forall x, In x l -> P x = true) -> filter P l = l.
Proof. induction l as [|x l IH]; intros H; simpl; auto. rewrite (H x) by now left. f_equal. apply IH. intros; apply H; now right. Qed.

Section P.
Context {F : Type} (Op : rops F).
Hypothesis Rth : ring_theory (r0 Op) (r1 Op) (radd Op) (rmul Op) (rsub Op) (ropp Op) (@eq F).
Add Ring Fr14 : Rth.
Notation d := (r0 Op).
Infix "*r" := (rmul Op) (at level 40, left associativity).

(* the triples built by zip3 for modes=None, starting at mode p *)
Definition vecL (vs : list (tensor F)) (p : nat) : list (@triple F) :=
  combine (combine vs (seq p (length vs))) (seq p (length vs)).
Lemma vecL_cons v vs p : vecL (v :: vs) p = (v, p, p) :: vecL vs (S p).
Proof. reflexivity. Qed.
Lemma zip3_vecL vs : zip3 vs None = vecL vs 0.
Proof. reflexivity. Qed.
Lemma vecL_modes vs : forall p x, In x (vecL vs p) -> p <= t_mode x < p + length vs /\ snd x = t_mode x.
Proof.
  induction vs as [|v vs IH]; intros p x Hx; [contradiction|]. rewrite vecL_cons in Hx. destruct Hx as [<-|Hx].
  - cbn. lia.
  - destruct (IH (S p) x Hx). cbn [length]. lia.
Qed.
Lemma vecL_sorted vs : forall p, lsorted (@t_mode F) (vecL vs p).
Proof.
  induction vs as [|v vs IH]; intros p; [exact I|]. rewrite vecL_cons. split; [|apply IH].
  intros y Hy. destruct (vecL_modes vs (S p) y Hy). cbn. lia.
Qed.
Lemma vecL_NoDup vs : forall p, NoDup (map (@t_mode F) (vecL vs p)).
Proof.
  induction vs as [|v vs IH]; intros p; [constructor|]. rewrite vecL_cons. cbn [map]. constructor; [|apply IH].
  intros Hin. apply in_map_iff in Hin. destruct Hin as [y [E Hy]]. destruct (vecL_modes vs (S p) y Hy). cbn in E. lia.
Qed.

Definition keepk (k : nat) (l : list (@triple F)) : list (@triple F) := filter (fun x => negb (is_skip (Some k) (snd x))) l.
(* prod_j v_j[is_j] *)
Definition vprod (vs : list (tensor F)) (is_ : list nat) : F :=
  rprod Op (map (fun p => get d (fst p) [snd p]) (combine vs is_)).

Definition allvec (vs : list (tensor F)) : Prop := Forall (fun v => ndim v = 1) vs.

(* evaluation of the recursive index description on an unskipped all-vector list on consecutive modes *)
Lemma eval_consecutive : forall vs p rs is_, allvec vs -> length rs = length vs -> length is_ = length vs ->
  outs false (vecL vs p) p rs = [] /\ sizes (vecL vs p) p rs = rs /\ full (vecL vs p) p is_ [] = is_ /\
  coef Op false (vecL vs p) p is_ [] = vprod vs is_.
Proof.
  induction vs as [|v vs IH]; intros p rs is_ Hv Hr Hi.
  - destruct rs; [|discriminate]. destruct is_; [|discriminate]. repeat split.
  - destruct rs as [|s0 rs]; [discriminate|]. destruct is_ as [|i is_]; [discriminate|].
    inversion Hv as [|? ? Hv0 Hv']; subst. injection Hr as Hr. injection Hi as Hi.
    rewrite vecL_cons. cbn [outs sizes full coef t_mode fst snd]. rewrite Nat.sub_diag.
    assert (Ev : is_vec (v) = true) by (unfold is_vec; rewrite Hv0; reflexivity).
    rewrite Ev. cbn [firstn skipn nth app].
    destruct (IH (S p) rs is_ Hv' Hr Hi) as [H1 [H2 [H3 H4]]]. rewrite H1, H2, H3, H4.
    repeat split; try reflexivity; unfold vprod, vcoef, opnd; cbn [combine map rprod fold_right fst snd]; reflexivity.
Qed.

(* ... and with the k-th operand skipped (p <= k < p + length vs) *)
Lemma eval_skipped k : forall vs p rs is_ i, allvec vs -> length rs = length vs -> S (length is_) = length vs ->
  p <= k < p + length vs ->
  outs false (keepk k (vecL vs p)) p rs = [nth (k - p) rs 0] /\
  sizes (keepk k (vecL vs p)) p rs = remove_nth (k - p) rs /\
  full (keepk k (vecL vs p)) p is_ [i] = insert_at (k - p) i is_ /\
  coef Op false (keepk k (vecL vs p)) p is_ [i] = vprod (remove_nth (k - p) vs) is_.
Proof.
  induction vs as [|v vs IH]; intros p rs is_ i Hv Hr Hi Hk; [simpl in Hk; lia|].
  destruct rs as [|s0 rs]; [discriminate|]. inversion Hv as [|? ? Hv0 Hv']; subst. injection Hr as Hr. injection Hi as Hi.
  rewrite vecL_cons. unfold keepk. cbn [filter snd].
  destruct (is_skip (Some k) p) eqn:Es; cbn [is_skip] in Es; cbn [negb];
    [apply Nat.eqb_eq in Es; subst p | apply Nat.eqb_neq in Es; rename Es into Hne].
  - (* the skipped operand: everything after it is kept, the boundary stays at k *)
    rewrite Nat.sub_diag. cbn [nth remove_nth].
    assert (Hkeep : filter (fun x => negb (is_skip (Some k) (snd x))) (vecL vs (S k)) = vecL vs (S k)).
    { apply filter_all_id. intros x Hx. destruct (vecL_modes vs (S k) x Hx) as [Hm Hs].
      cbn [is_skip]. rewrite Hs. destruct (Nat.eqb_spec (t_mode x) k); [lia | reflexivity]. }
    rewrite Hkeep.
    destruct vs as [|v1 vs1].
    + destruct rs; [|discriminate]. destruct is_; [|discriminate]. cbn. repeat split.
    + destruct rs as [|s1 rs]; [discriminate|]. destruct is_ as [|i1 is_]; [discriminate|].
      inversion Hv' as [|? ? Hv1 Hv'']; subst. injection Hr as Hr. injection Hi as Hi.
      rewrite vecL_cons. cbn [outs sizes full coef t_mode fst snd].
      replace (S k - k) with 1 by lia.
      assert (Ev : is_vec v1 = true) by (unfold is_vec; rewrite Hv1; reflexivity).
      rewrite Ev. cbn [firstn skipn nth app].
      destruct (eval_consecutive vs1 (S (S k)) rs is_ Hv'' Hr Hi) as [H1 [H2 [H3 H4]]]. rewrite H1, H2, H3, H4.
      repeat split; try reflexivity; unfold vprod, vcoef, opnd; cbn [combine map rprod fold_right fst snd]; reflexivity.
  - (* a kept operand before the skipped one *)
    destruct (k - p) as [|q] eqn:Eq; [lia|]. destruct is_ as [|i0 is_]; [simpl in Hi, Hk; lia|]. cbn [length] in Hi.
    cbn [outs sizes full coef t_mode fst snd]. rewrite Nat.sub_diag.
    assert (Ev : is_vec v = true) by (unfold is_vec; rewrite Hv0; reflexivity).
    rewrite Ev. cbn [firstn skipn nth app remove_nth insert_at].
    fold (keepk k (vecL vs (S p))).
    destruct (IH (S p) rs is_ i Hv' Hr Hi ltac:(simpl in Hk; lia)) as [H1 [H2 [H3 H4]]].
    replace (k - S p) with q in * by lia. rewrite H1, H2, H3, H4.
    repeat split; try reflexivity; unfold vprod, vcoef, opnd; cbn [combine map rprod fold_right fst snd]; reflexivity.
Qed.

Lemma vecL_fits s : forall vs p, p + length vs <= length s ->
  (forall j, j < length vs -> wf (nth j vs (mk [] [])) /\ shape (nth j vs (mk [] [])) = [nth (p + j) s 0]) ->
  Forall (operand_fits false s) (vecL vs p).
Proof.
  induction vs as [|v vs IH]; intros p Hl H; [constructor|]. rewrite vecL_cons. constructor.
  - destruct (H 0 ltac:(simpl; lia)) as [W Hs]. cbn [nth] in W, Hs. rewrite Nat.add_0_r in Hs.
    unfold operand_fits. cbn [fst snd t_mode]. split; [simpl in Hl; lia|]. split; [exact W|]. now left.
  - apply IH; [simpl in Hl; lia|]. intros j Hj. specialize (H (S j) ltac:(simpl; lia)). cbn [nth] in H.
    now replace (S p + j) with (p + S j) by lia.
Qed.

(* multi_mode_dot with one vector per mode and the k-th skipped *)
Lemma mmd_all_vectors_skip (T : tensor F) (vs : list (tensor F)) (k : nat) :
  wf T -> 0 < prod (shape T) -> length vs = ndim T -> k < ndim T -> allvec vs ->
  (forall j, j < length vs -> wf (nth j vs (mk [] [])) /\ shape (nth j vs (mk [] [])) = [nth j (shape T) 0]) ->
  multi_mode_dot Op T vs None (Some k) false =
  Ok (tabulate [nth k (shape T) 0]
        (fun idx => ssum Op (remove_nth k (shape T))
                      (fun is_ => vprod (remove_nth k vs) is_ *r get d T (insert_at k (nth 0 idx 0) is_)))).
Proof.
  intros W Hpos Hlen Hk Hv Hfit. unfold ndim in *.
  set (L := filter (fun x => negb (is_skip (Some k) (snd x))) (sort_by_mode (zip3 vs None))).
  assert (HL : L = keepk k (vecL vs 0)).
  { unfold L, keepk. rewrite sort_by_mode_gsort, zip3_vecL. rewrite (gsort_id _ _ (vecL_sorted vs 0)). reflexivity. }
  assert (Hnd : NoDup (map (@t_mode F) L)) by (rewrite HL; unfold keepk; apply NoDup_map_filter, vecL_NoDup).
  assert (Hf : Forall (operand_fits false (shape T)) L).
  { rewrite HL. unfold keepk. apply Forall_filter'. apply vecL_fits; [lia|]. exact Hfit. }
  destruct (multi_mode_dot_full_natural Op Rth T vs None (Some k) false W Hpos Hnd Hf) as [R [E [WR [SR GR]]]].
  fold L in SR, GR. rewrite HL in SR, GR.
  assert (Hrs : length (shape T) = length vs) by lia.
  destruct (eval_skipped k vs 0 (shape T) (repeat 0 (length vs - 1)) 0 Hv Hrs ltac:(rewrite repeat_length; lia) ltac:(lia))
    as [H1 [H2 _]].
  rewrite Nat.sub_0_r in H1, H2. rewrite H1 in SR. rewrite E. f_equal.
  apply tensor_ext with (d := d); [exact WR | apply wf_tabulate | exact SR |].
  intros idx Hi. rewrite SR in Hi. destruct idx as [|i [|? ?]]; cbn [inb] in Hi; try tauto. destruct Hi as [Hi _].
  rewrite GR by (rewrite SR; simpl; auto). rewrite get_tabulate by (simpl; auto). cbn [nth]. rewrite H2.
  unfold ssum. apply (sum_idx_ext F (r0 Op) (radd Op)). intros is_ His.
  assert (Hli : S (length is_) = length vs).
  { rewrite (inb_length _ _ His). rewrite remove_nth_length by lia. lia. }
  destruct (eval_skipped k vs 0 (shape T) is_ i Hv Hrs Hli ltac:(lia)) as [_ [_ [H3 H4]]].
  rewrite Nat.sub_0_r in H3, H4. now rewrite H3, H4.
Qed.

Lemma collect_map_ok {A} (f : nat -> res A) (g : nat -> A) : forall l, (forall r, In r l -> f r = Ok (g r)) ->
  collect (map f l) = Ok (map g l).
Proof.
  induction l as [|x l IH]; intros H; [reflexivity|]. cbn [map collect]. rewrite (H x) by now left. cbn [rbind].
  rewrite IH by (intros; apply H; now right). reflexivity.
Qed.

Section C.
Hypothesis Cj : conj_laws Op.

Lemma rconj_mul' a b : rconj Op (a *r b) = rconj Op a *r rconj Op b.
Proof. destruct Cj as [H _]. apply H. Qed.
Lemma rconj_one' : rconj Op (r1 Op) = r1 Op.
Proof. destruct Cj as [_ [_ [_ [H _]]]]. exact H. Qed.

Definition ccol (r : nat) (f : tensor F) : tensor F := conj_t Op (column Op f r).

Lemma vprod_conj r R : r < R -> forall (fs : list (tensor F)) is_, mats R fs -> inb (map nrows fs) is_ ->
  vprod (map (ccol r) fs) is_ = rconj Op (kr_entry Op fs is_ r).
Proof.
  intros Hr. induction fs as [|f fs IH]; intros is_ Hm Hin.
  - destruct is_; [|contradiction]. unfold vprod. cbn. now rewrite rconj_one'.
  - destruct is_ as [|i is_]; [contradiction|]. cbn [map] in Hin. destruct Hin as [Hi Hin].
    pose proof (Forall_inv Hm) as [Wf Hsf]. pose proof (Forall_inv_tail Hm) as Hm'.
    unfold vprod. cbn [map combine rprod fold_right fst snd]. change (fold_right (rmul Op) (r1 Op)) with (rprod Op).
    fold (vprod (map (ccol r) fs) is_). rewrite (IH is_ Hm' Hin). rewrite kr_entry_cons, rconj_mul'. f_equal.
    unfold ccol. rewrite (get_conj_t Op (column Op f r)) by (try apply wf_tabulate; simpl; auto).
    f_equal. unfold column. rewrite get_tabulate by (simpl; auto). reflexivity.
Qed.

Theorem mttkrp_memory_spec (T : tensor F) (w : option (tensor F)) (fs : list (tensor F)) (k R : nat) :
  wf T -> k < ndim T -> 0 < prod (shape T) -> 0 < R -> map nrows fs = shape T -> mats R fs ->
  (forall w0, w = Some w0 -> wf w0 /\ prod (shape w0) = R) ->
  exists Mt, mttkrp_memory Op T w fs k = Ok Mt /\ wf Mt /\ shape Mt = [nth k (shape T) 0; R] /\
    forall i r, i < nth k (shape T) 0 -> r < R ->
      get d Mt [i; r] =
      ssum Op (remove_nth k (shape T))
        (fun ridx => get d T (insert_at k i ridx) *r rconj Op (kr_entry Op (remove_nth k fs) ridx r *r wv Op w r)).
Proof.
  intros WT Hk Hpos HR Hrows Hm Hw. unfold ndim in Hk.
  assert (Hlen : length fs = length (shape T)) by (rewrite <- Hrows; now rewrite map_length).
  destruct fs as [|f0 fs0] eqn:Efs; [simpl in Hlen; lia|]. rewrite <- Efs in *.
  assert (Hf0 : ncols f0 = R).
  { rewrite Efs in Hm. inversion Hm as [|? ? [_ Hs0] _]; subst. unfold ncols. now rewrite Hs0. }
  set (sk := nth k (shape T) 0). set (rs := remove_nth k (shape T)).
  set (fs' := remove_nth k fs).
  assert (Hrows' : map nrows fs' = rs) by (unfold fs', rs; rewrite <- Hrows; symmetry; apply remove_nth_map).
  assert (Hm' : mats R fs').
  { unfold mats, fs' in *. rewrite Forall_forall in *. intros M HM. apply Hm. clear -HM. revert k HM.
    induction fs as [|f fs IH]; intros [|k] HM; simpl in *; auto. destruct HM; auto. right. eapply IH; eauto. }
  set (g := fun r => tabulate [sk] (fun idx => ssum Op rs
               (fun is_ => vprod (remove_nth k (map (ccol r) fs)) is_ *r get d T (insert_at k (nth 0 idx 0) is_)))).
  assert (Hparts : forall r, multi_mode_dot Op T (map (ccol r) fs) None (Some k) false = Ok (g r)).
  { intros r. apply mmd_all_vectors_skip; auto.
    - unfold ndim. now rewrite map_length.
    - unfold allvec. apply Forall_forall. intros v Hv. apply in_map_iff in Hv. destruct Hv as [f [<- _]]. reflexivity.
    - intros j Hj. rewrite map_length in Hj. rewrite (nth_map' (ccol r) _ _ (mk [] [])) by exact Hj. split.
      + unfold ccol. apply wf_conj_t. apply wf_tabulate.
      + unfold ccol, conj_t, tmap, column, tabulate. cbn [shape]. f_equal. rewrite <- Hrows. symmetry. apply nth_map'. exact Hj. }
  set (St := stack_cols Op sk (map g (seq 0 R))).
  assert (HSt : forall i r, i < sk -> r < R -> get d St [i; r] = get d (g r) [i]).
  { intros i r Hi Hr. unfold St, stack_cols. rewrite map_length, seq_length. rewrite get_tabulate by (simpl; auto). cbn [nth].
    rewrite (nth_map' g _ _ 0) by (now rewrite seq_length). now rewrite seq_nth. }
  assert (Hg : forall i r, i < sk -> r < R ->
             get d (g r) [i] = ssum Op rs (fun ridx => get d T (insert_at k i ridx) *r rconj Op (kr_entry Op fs' ridx r))).
  { intros i r Hi Hr. unfold g. rewrite get_tabulate by (simpl; auto). cbn [nth].
    unfold ssum. apply (sum_idx_ext F (r0 Op) (radd Op)). intros is_ His.
    rewrite remove_nth_map. fold fs'. rewrite (vprod_conj r R Hr fs' is_ Hm') by (now rewrite Hrows'). ring. }
  assert (Hcode : mttkrp_memory Op T w fs k =
                  apply_w Op (match w with None => None | Some w0 => Some (conj_t Op w0) end) St).
  { unfold mttkrp_memory. rewrite Efs. rewrite <- Efs. rewrite Hf0.
    rewrite (collect_map_ok (fun r => multi_mode_dot Op T (map (ccol r) fs) None (Some k) false) g) by (intros; apply Hparts).
    cbn [rbind]. reflexivity. }
  assert (HsSt : shape St = [sk; R]) by (unfold St, stack_cols; cbn [shape]; now rewrite map_length, seq_length).
  destruct w as [w0|].
  - destruct (Hw w0 eq_refl) as [Ww Hpw].
    exists (scale_cols Op St (conj_t Op w0)). split; [|split; [apply wf_tabulate | split; [exact HsSt|]]].
    + rewrite Hcode. cbn [apply_w]. unfold conj_t at 1, tmap. cbn [shape]. rewrite Hpw. unfold ncols. rewrite HsSt. cbn [nth].
      now rewrite Nat.eqb_refl.
    + intros i r Hi Hr. rewrite get_scale_cols by (rewrite HsSt; simpl; auto). cbn [nth].
      rewrite HSt, Hg by assumption. cbn [wv].
      assert (Hcw : nth r (data (conj_t Op w0)) d = rconj Op (nth r (data w0) d)).
      { unfold conj_t, tmap. cbn [data]. rewrite nth_indep with (d' := rconj Op d) by (rewrite map_length, Ww, Hpw; exact Hr).
        apply map_nth. }
      rewrite Hcw. unfold ssum, sum_idx.
      rewrite <- (bigsum_scale_r F (r0 Op) (r1 Op) (radd Op) (rmul Op) (rsub Op) (ropp Op) Rth).
      apply bigsum_ext. intros c Hc. rewrite rconj_mul'. ring.
  - exists St. split; [rewrite Hcode; reflexivity|]. split; [apply wf_tabulate | split; [exact HsSt|]].
    intros i r Hi Hr. rewrite HSt, Hg by assumption. cbn [wv].
    unfold ssum. apply (sum_idx_ext F (r0 Op) (radd Op)). intros c Hc. rewrite rconj_mul', rconj_one'. ring.
Qed.

(* the memory-efficient MTTKRP returns the same matrix as the default MTTKRP *)
Corollary mttkrp_memory_agree (T : tensor F) (w : option (tensor F)) (fs : list (tensor F)) (k R : nat) :
  wf T -> k < ndim T -> 0 < prod (shape T) -> 0 < R -> map nrows fs = shape T -> mats R fs -> 2 <= ndim T ->
  (forall w0, w = Some w0 -> wf w0 /\ prod (shape w0) = R) ->
  mttkrp_memory Op T w fs k = mttkrp Op T w fs k.
Proof.
  intros WT Hk Hpos HR Hrows Hm Hnd Hw.
  assert (Hwok : w_ok w R) by (intros w0 E; now destruct (Hw w0 E)).
  destruct (mttkrp_spec Op Rth T w fs k R WT Hk Hpos HR Hrows Hm Hnd Hwok) as [R1 [E1 [W1 [S1 G1]]]].
  destruct (mttkrp_memory_spec T w fs k R WT Hk Hpos HR Hrows Hm Hw) as [R2 [E2 [W2 [S2 G2]]]].
  rewrite E1, E2. f_equal. apply tensor_ext with (d := d); auto; [congruence|].
  intros idx Hi. rewrite S2 in Hi. destruct idx as [|i [|r [|? ?]]]; cbn [inb] in Hi; try tauto.
  destruct Hi as [Hi [Hr _]]. rewrite G1, G2 by assumption. reflexivity.
Qed.
End C.

End P.
