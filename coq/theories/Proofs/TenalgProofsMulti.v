(* multi_mode_dot (core backend) with matrix operands on distinct modes: the fold of mode products equals the
   textbook multi-mode (Tucker-type) formula
     R[idx] = sum_{i_1..i_p} ( prod_j M_j[idx_{m_j}, i_j] ) * T[idx with positions m_j replaced by i_j],
   for every order, any number p of operands, any subset of modes, skip, transpose (conjugate transpose). *)
From Coq Require Import List Arith ZArith Lia Ring Bool.
From TLV Require Import Base.Shape Base.PyList Base.Tensor Base.BigSum Model.Base Proofs.BaseProofs Model.Tenalg
  Proofs.TenalgProofs.
Import ListNotations.

(* idx with position ms_j replaced by is_j *)
Fixpoint set_many (ms is_ idx : list nat) : list nat :=
  match ms, is_ with m :: ms', i :: is' => set_many ms' is' (set_nth m i idx) | _, _ => idx end.

Lemma set_nth_comm {A} (a b : A) : forall m m' l, m <> m' -> set_nth m a (set_nth m' b l) = set_nth m' b (set_nth m a l).
Proof.
  induction m; intros [|m'] [|x l] H; simpl; try reflexivity; try lia. f_equal. apply IHm. lia.
Qed.
Lemma set_many_length ms : forall is_ idx, length (set_many ms is_ idx) = length idx.
Proof. induction ms; intros [|i is_] idx; simpl; auto. rewrite IHms. apply set_nth_length. Qed.
Lemma nth_set_many_other m ms : ~ In m ms -> forall is_ idx, nth m (set_many ms is_ idx) 0 = nth m idx 0.
Proof.
  induction ms as [|m' ms IH]; intros Hn [|i is_] idx; simpl; auto.
  rewrite IH by (intros H; apply Hn; now right). apply nth_set_nth_other. intros ->. apply Hn. now left.
Qed.
Lemma set_many_set_nth_comm m i ms : ~ In m ms -> forall is_ idx,
  set_nth m i (set_many ms is_ idx) = set_many ms is_ (set_nth m i idx).
Proof.
  induction ms as [|m' ms IH]; intros Hn [|j is_] idx; simpl; auto.
  rewrite IH by (intros H; apply Hn; now right). f_equal. apply set_nth_comm. intros ->. apply Hn. now left.
Qed.
Lemma map_nth_set_nth_other ms m v s : ~ In m ms ->
  map (fun m' => nth m' (set_nth m v s) 0) ms = map (fun m' => nth m' s 0) ms.
Proof.
  intros Hn. apply map_ext_in. intros m' Hm'. apply nth_set_nth_other. intros ->. contradiction.
Qed.

Lemma inb_set_many_back : forall ms is_ Js s idx, NoDup ms -> (forall m, In m ms -> m < length s) ->
  length Js = length ms -> inb (set_many ms Js s) idx -> inb (map (fun m => nth m s 0) ms) is_ ->
  inb s (set_many ms is_ idx).
Proof.
  induction ms as [|m ms IH]; intros is_ Js s idx Hnd Hlt HJ Hi His.
  - destruct is_; [|contradiction]. exact Hi.
  - destruct Js as [|J Js]; [discriminate|]. destruct is_ as [|i is_]; [contradiction|].
    cbn [map] in His. destruct His as [Hi0 His]. inversion Hnd as [|? ? Hnin Hnd']; subst.
    cbn [set_many] in *. rewrite <- set_many_set_nth_comm by exact Hnin.
    apply inb_set_nth_back with (dv := J); [apply Hlt; now left | | exact Hi0].
    apply IH with (Js := Js); auto.
    + intros m' Hm'. rewrite set_nth_length. apply Hlt. now right.
    + now rewrite map_nth_set_nth_other.
Qed.

Lemma prod_pos_set_nth m J s : m < length s -> 0 < prod s -> 0 < J -> 0 < prod (set_nth m J s).
Proof.
  intros Hm Hp HJ. rewrite prod_set_nth by exact Hm. pose proof (prod_remove m s Hm). nia.
Qed.

Lemma mmd_loop_filter_skip {F} (Op : rops F) skip tr : forall (l : list (@triple F)) dec acc,
  (forall x, In x l -> ndim (fst (fst x)) <> 1) ->
  mmd_loop Op l skip tr dec acc = mmd_loop Op (filter (fun x => negb (is_skip skip (snd x))) l) None tr dec acc.
Proof.
  induction l as [|[[M m] i] l IH]; intros dec acc Hm; [reflexivity|].
  cbn [mmd_loop filter snd]. destruct (is_skip skip i) eqn:E; cbn [negb].
  - apply IH. intros x Hx. apply Hm. now right.
  - cbn [mmd_loop is_skip].
    destruct (mode_dot Op acc (if tr then conj_t Op (transpose_rev Op M) else M) (m - dec) false); cbn [rbind]; [|reflexivity].
    apply IH. intros x Hx. apply Hm. now right.
Qed.

Section P.
Context {F : Type} (Op : rops F).
Hypothesis Rth : ring_theory (r0 Op) (r1 Op) (radd Op) (rmul Op) (rsub Op) (ropp Op) (@eq F).
Add Ring Fr8 : Rth.
Notation d := (r0 Op).
Infix "*r" := (rmul Op) (at level 40, left associativity).
Notation bs := (bsum Op).

(* the loop multiplies by conj(transpose(M)) with transpose=False, which is mode_dot with transpose=True *)
Lemma mode_dot_pretransposed (T M : tensor F) a b m (tr : bool) : shape M = [a; b] ->
  mode_dot Op T (if tr then conj_t Op (transpose_rev Op M) else M) m false = mode_dot Op T M m tr.
Proof.
  intros Hs. destruct tr; [|reflexivity]. unfold mode_dot.
  rewrite (shape_conj_transpose Op M a b Hs), Hs. reflexivity.
Qed.

(* operand well-formed for mode m of a tensor of shape s: (J, s_m), or (s_m, J) under transpose; J > 0 *)
Definition operand_ok (tr : bool) (s : list nat) (x : @triple F) : Prop :=
  let M := fst (fst x) in let m := t_mode x in
  m < length s /\ wf M /\ exists a b, shape M = [a; b] /\ (if tr then a else b) = nth m s 0 /\ 0 < (if tr then b else a).
Definition outdim (tr : bool) (x : @triple F) : nat := let M := fst (fst x) in if tr then ncols M else nrows M.
(* prod_j M_j[idx_{m_j}, i_j]  (conj(M_j[i_j, idx_{m_j}]) under transpose) *)
Fixpoint mm_coef (tr : bool) (L : list (@triple F)) (is_ idx : list nat) : F :=
  match L, is_ with
  | x :: L', i :: is' => mentry Op (fst (fst x)) tr (nth (t_mode x) idx 0) i *r mm_coef tr L' is' idx
  | _, _ => r1 Op
  end.

Lemma operand_ok_set_nth tr s m J x : t_mode x <> m -> operand_ok tr s x -> operand_ok tr (set_nth m J s) x.
Proof.
  intros Hne [H1 [H2 [a [b [H3 [H4 H5]]]]]]. unfold operand_ok. rewrite set_nth_length. split; [exact H1|]. split; [exact H2|].
  exists a, b. split; [exact H3|]. split; [|exact H5]. rewrite nth_set_nth_other by exact Hne. exact H4.
Qed.

Lemma ssum_bsum_exchange s n (c : list nat -> F) (g : list nat -> nat -> F) :
  ssum Op s (fun is_ => c is_ *r bs n (fun i => g is_ i)) = bs n (fun i => ssum Op s (fun is_ => c is_ *r g is_ i)).
Proof.
  unfold ssum, sum_idx, bsum.
  rewrite (bigsum_exchange F (r0 Op) (r1 Op) (radd Op) (rmul Op) (rsub Op) (ropp Op) Rth n (prod s)
             (fun i k => c (unravel s k) *r g (unravel s k) i)).
  apply bigsum_ext. intros k _. symmetry. apply (bigsum_scale_l F (r0 Op) (r1 Op) (radd Op) (rmul Op) (rsub Op) (ropp Op) Rth).
Qed.

Theorem mmd_matrices_spec (tr : bool) : forall (L : list (@triple F)) (acc : tensor F),
  wf acc -> 0 < prod (shape acc) -> NoDup (map (@t_mode F) L) -> Forall (operand_ok tr (shape acc)) L ->
  let ms := map (@t_mode F) L in
  exists R, mmd_loop Op L None tr 0 acc = Ok R /\ wf R /\
    shape R = set_many ms (map (outdim tr) L) (shape acc) /\ 0 < prod (shape R) /\
    forall idx, inb (shape R) idx ->
      get d R idx = ssum Op (map (fun m => nth m (shape acc) 0) ms)
                      (fun is_ => mm_coef tr L is_ idx *r get d acc (set_many ms is_ idx)).
Proof.
  induction L as [|x L IH]; intros acc W Hpos Hnd Hok; cbv zeta.
  - exists acc. cbn [mmd_loop map set_many]. split; [reflexivity|]. split; [exact W|]. split; [reflexivity|]. split; [exact Hpos|].
    intros idx _. unfold ssum. rewrite (sum_idx_nil F (r0 Op) (r1 Op) (radd Op) (rmul Op) (rsub Op) (ropp Op) Rth).
    cbn [mm_coef]. ring.
  - destruct x as [[M m] i0]. inversion Hnd as [|? ? Hnin Hnd']; subst. inversion Hok as [|? ? Hx Hok']; subst.
    destruct Hx as [Hm [WM [a [b [HsM [Hdim HJ]]]]]]. cbn [fst snd t_mode] in Hm, WM, HsM, Hdim, HJ, Hnin.
    cbn [mmd_loop is_skip]. rewrite Nat.sub_0_r. rewrite (mode_dot_pretransposed acc M a b m tr HsM).
    destruct (mode_dot_matrix_spec Op acc M m tr a b W WM Hm Hpos HsM Hdim HJ) as [acc' [E [W' [S' G']]]].
    rewrite E. cbn [rbind].
    assert (Hnd2 : (ndim M =? 1) = false) by (unfold ndim; now rewrite HsM).
    rewrite Hnd2.
    set (J := if tr then b else a) in *.
    assert (Hpos' : 0 < prod (shape acc')) by (rewrite S'; now apply prod_pos_set_nth).
    assert (Hok2 : Forall (operand_ok tr (shape acc')) L).
    { rewrite S'. rewrite Forall_forall in *. intros y Hy. apply operand_ok_set_nth; [|now apply Hok'].
      intros Ey. apply Hnin. rewrite <- Ey. now apply in_map. }
    destruct (IH acc' W' Hpos' Hnd' Hok2) as [R [ER [WR [SR [PR GR]]]]]. cbv zeta in SR, GR.
    set (ms := map (@t_mode F) L) in *.
    assert (Hsizes : map (fun m' => nth m' (shape acc') 0) ms = map (fun m' => nth m' (shape acc) 0) ms).
    { rewrite S'. now apply map_nth_set_nth_other. }
    assert (HoutJ : outdim tr (M, m, i0) = J).
    { unfold outdim, J, nrows, ncols. cbn [fst]. rewrite HsM. now destruct tr. }
    exists R. split; [exact ER|]. split; [exact WR|]. split; [|split; [exact PR|]].
    + cbn [map set_many]. rewrite HoutJ, SR, S'. reflexivity.
    + intros idx Hi. rewrite GR by exact Hi. rewrite Hsizes. cbn [map].
      unfold ssum at 2. rewrite (sum_idx_cons F (r0 Op) (r1 Op) (radd Op) (rmul Op) (rsub Op) (ropp Op) Rth).
      fold (bsum Op).
      transitivity (ssum Op (map (fun m' => nth m' (shape acc) 0) ms)
                      (fun is_ => mm_coef tr L is_ idx *r
                         bs (nth m (shape acc) 0) (fun i => mentry Op M tr (nth m idx 0) i *r get d acc (set_many ms is_ (set_nth m i idx))))).
      * unfold ssum. apply (sum_idx_ext F (r0 Op) (radd Op)). intros is_ His. f_equal.
        assert (Hin' : inb (shape acc') (set_many ms is_ idx)).
        { apply inb_set_many_back with (Js := map (outdim tr) L); auto.
          - intros m' Hm'. unfold ms in Hm'. apply in_map_iff in Hm'. destruct Hm' as [y [<- Hy]].
            rewrite Forall_forall in Hok2. destruct (Hok2 y Hy) as [Hlt _]. exact Hlt.
          - unfold ms. now rewrite !map_length.
          - now rewrite <- SR.
          - now rewrite Hsizes. }
        rewrite G' by exact Hin'. apply bs_ext. intros i Hi'.
        rewrite nth_set_many_other by exact Hnin. rewrite set_many_set_nth_comm by exact Hnin. reflexivity.
      * rewrite ssum_bsum_exchange. apply bs_ext. intros i Hi'.
        unfold ssum. apply (sum_idx_ext F (r0 Op) (radd Op)). intros is_ His.
        cbn [mm_coef set_many fst snd t_mode]. fold ms. ring.
Qed.

(* multi_mode_dot: L = the non-skipped (operand, mode, operand index) triples in increasing mode order *)
Theorem multi_mode_dot_matrices_spec (T : tensor F) (Ms : list (tensor F)) (modes : option (list nat)) (skip : option nat) (tr : bool) :
  let L := filter (fun x => negb (is_skip skip (snd x))) (sort_by_mode (zip3 Ms modes)) in
  let ms := map (@t_mode F) L in
  wf T -> 0 < prod (shape T) -> (forall x, In x (sort_by_mode (zip3 Ms modes)) -> ndim (fst (fst x)) <> 1) ->
  NoDup ms -> Forall (operand_ok tr (shape T)) L ->
  exists R, multi_mode_dot Op T Ms modes skip tr = Ok R /\ wf R /\
    shape R = set_many ms (map (outdim tr) L) (shape T) /\
    forall idx, inb (shape R) idx ->
      get d R idx = ssum Op (map (fun m => nth m (shape T) 0) ms)
                      (fun is_ => mm_coef tr L is_ idx *r get d T (set_many ms is_ idx)).
Proof.
  intros L ms W Hpos Hmat Hnd Hok. unfold multi_mode_dot. rewrite mmd_loop_filter_skip by exact Hmat. fold L.
  destruct (mmd_matrices_spec tr L T W Hpos Hnd Hok) as [R [E [WR [SR [_ GR]]]]].
  exists R. repeat split; assumption.
Qed.

End P.
