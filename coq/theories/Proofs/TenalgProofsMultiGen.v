(* multi_mode_dot (core backend), FULL statement: any mix of matrix and vector operands on distinct modes (any subset and
   listing order of modes, skip, transpose).  With L the non-skipped (operand, mode, index) triples in increasing mode order,
     R[o] = sum_{is} ( prod_j c_j ) * T[full L is o]
   where c_j = M_j[o at the output position of mode m_j, is_j] for a matrix, v_j[is_j] for a vector, and full L is o is the
   index of T obtained from the output index o by putting is_j at mode m_j (replacing the entry for a matrix operand,
   inserting it for a vector operand, whose mode is absent from the output).  The output positions are described by the
   recursive definitions outs / full / coef below (p = first mode not yet consumed, rs = sizes of the modes >= p). *)
From Coq Require Import List Arith ZArith Lia Ring Bool.
From TLV Require Import Base.Shape Base.PyList Base.Tensor Base.BigSum Model.Base Proofs.BaseProofs Model.Tenalg
  Proofs.TenalgProofs Proofs.TenalgProofsMulti.
Import ListNotations.

Lemma split_nth {A} (d : A) : forall q (l : list A), q < length l -> l = firstn q l ++ nth q l d :: skipn (S q) l.
Proof. induction q; intros [|x l] H; simpl in *; try lia; [reflexivity|]. f_equal. apply IHq. lia. Qed.
Lemma insert_at_app_len {A} (i : A) : forall l1 l2, insert_at (length l1) i (l1 ++ l2) = l1 ++ i :: l2.
Proof. induction l1; intros l2; simpl; [apply insert_at_0' | now rewrite IHl1]. Qed.
Lemma set_nth_app_len {A} (i x : A) : forall l1 l2, set_nth (length l1) i (l1 ++ x :: l2) = l1 ++ i :: l2.
Proof. induction l1; intros l2; simpl; [reflexivity | now rewrite IHl1]. Qed.
Lemma remove_nth_app_len {A} (x : A) : forall l1 l2, remove_nth (length l1) (l1 ++ x :: l2) = l1 ++ l2.
Proof. induction l1; intros l2; simpl; [reflexivity | now rewrite IHl1]. Qed.
Lemma nth_app_len {A} (x d : A) : forall l1 l2, nth (length l1) (l1 ++ x :: l2) d = x.
Proof. induction l1; intros l2; simpl; auto. Qed.
Lemma firstn_app_len' {A} n (l1 l2 : list A) : n = length l1 -> firstn n (l1 ++ l2) = l1.
Proof. intros ->. induction l1; simpl; [destruct l2; reflexivity | now rewrite IHl1]. Qed.
Lemma skipn_app_len' {A} n (l1 l2 : list A) : n = length l1 -> skipn n (l1 ++ l2) = l2.
Proof. intros ->. induction l1; simpl; auto. Qed.

Lemma skipn_S_tl {A} : forall q (l : list A), skipn (S q) l = tl (skipn q l).
Proof.
  induction q; intros l.
  - destruct l; reflexivity.
  - destruct l as [|x l]; [reflexivity|]. change (skipn (S (S q)) (x :: l)) with (skipn (S q) l).
    change (skipn (S q) (x :: l)) with (skipn q l). apply IHq.
Qed.

Section P.
Context {F : Type} (Op : rops F).
Hypothesis Rth : ring_theory (r0 Op) (r1 Op) (radd Op) (rmul Op) (rsub Op) (ropp Op) (@eq F).
Add Ring Fr13 : Rth.
Notation d := (r0 Op).
Infix "*r" := (rmul Op) (at level 40, left associativity).
Notation bs := (bsum Op).

Definition is_vec (X : tensor F) : bool := ndim X =? 1.
(* the operand the loop multiplies by *)
Definition opnd (tr : bool) (X : tensor F) : tensor F := if tr then conj_t Op (transpose_rev Op X) else X.
(* vector coefficient: v[i], or conj(v[i]) under transpose (lemma vcoef_conj) *)
Definition vcoef (tr : bool) (X : tensor F) (i : nat) : F := get d (opnd tr X) [i].

Fixpoint outs (tr : bool) (L : list (@triple F)) (p : nat) (rs : list nat) : list nat :=
  match L with
  | [] => rs
  | x :: L' => let q := t_mode x - p in
      firstn q rs ++ (if is_vec (fst (fst x)) then [] else [outdim tr x]) ++ outs tr L' (S (t_mode x)) (skipn (S q) rs)
  end.
Fixpoint sizes (L : list (@triple F)) (p : nat) (rs : list nat) : list nat :=
  match L with
  | [] => []
  | x :: L' => let q := t_mode x - p in nth q rs 0 :: sizes L' (S (t_mode x)) (skipn (S q) rs)
  end.
Fixpoint full (L : list (@triple F)) (p : nat) (is_ o : list nat) : list nat :=
  match L, is_ with
  | x :: L', i :: is' => let q := t_mode x - p in
      firstn q o ++ i :: full L' (S (t_mode x)) is' (skipn (if is_vec (fst (fst x)) then q else S q) o)
  | _, _ => o
  end.
Fixpoint coef (tr : bool) (L : list (@triple F)) (p : nat) (is_ o : list nat) : F :=
  match L, is_ with
  | x :: L', i :: is' => let q := t_mode x - p in let X := fst (fst x) in
      (if is_vec X then vcoef tr X i else mentry Op X tr (nth q o 0) i)
      *r coef tr L' (S (t_mode x)) is' (skipn (if is_vec X then q else S q) o)
  | _, _ => r1 Op
  end.

Definition operand_okg (tr : bool) (p : nat) (rs : list nat) (x : @triple F) : Prop :=
  let X := fst (fst x) in let q := t_mode x - p in
  p <= t_mode x /\ q < length rs /\ wf X /\
  (shape X = [nth q rs 0] \/
   exists a b, shape X = [a; b] /\ (if tr then a else b) = nth q rs 0 /\ 0 < (if tr then b else a)).
(* operands well-formed and modes strictly increasing from p on *)
Fixpoint ops_ok (tr : bool) (L : list (@triple F)) (p : nat) (rs : list nat) : Prop :=
  match L with
  | [] => True
  | x :: L' => operand_okg tr p rs x /\ ops_ok tr L' (S (t_mode x)) (skipn (S (t_mode x - p)) rs)
  end.

Lemma full_inb tr : forall L p rs is_ o, ops_ok tr L p rs -> inb (outs tr L p rs) o -> inb (sizes L p rs) is_ ->
  inb rs (full L p is_ o).
Proof.
  induction L as [|x L IH]; intros p rs is_ o Hok Ho His.
  - destruct is_; [|contradiction]. exact Ho.
  - destruct is_ as [|i is_]; [contradiction|]. cbn [ops_ok] in Hok. destruct Hok as [[Hp [Hq [WX Hsh]]] Hok'].
    cbn [sizes] in His. destruct His as [Hi His]. cbn [outs] in Ho. cbn [full].
    set (q := t_mode x - p) in *.
    rewrite (split_nth 0 q rs Hq) at 1.
    assert (Hlf : length (firstn q rs) = q) by (rewrite firstn_length; lia).
    destruct (is_vec (fst (fst x))) eqn:Ev; cbn [app] in Ho.
    + assert (Hlo : length (firstn q o) = q).
      { rewrite firstn_length. rewrite (inb_length _ _ Ho), app_length, Hlf. lia. }
      rewrite <- (firstn_skipn q o) in Ho. apply inb_app_inv in Ho; [|congruence]. destruct Ho as [Ha Ho'].
      apply inb_app; [exact Ha|]. split; [exact Hi|]. now apply (IH (S (t_mode x)) _ is_ _ Hok').
    + assert (Hlen : length o = q + S (length (outs tr L (S (t_mode x)) (skipn (S q) rs)))).
      { rewrite (inb_length _ _ Ho), app_length, Hlf. reflexivity. }
      assert (Hlo : length (firstn q o) = q) by (rewrite firstn_length; lia).
      rewrite <- (firstn_skipn q o) in Ho. apply inb_app_inv in Ho; [|congruence]. destruct Ho as [Ha Ho'].
      apply inb_app; [exact Ha|]. split; [exact Hi|].
      destruct (skipn q o) as [|j o'] eqn:Eo; [contradiction|]. destruct Ho' as [_ Ho'].
      assert (Es : skipn (S q) o = o').
      { rewrite skipn_S_tl, Eo. reflexivity. }
      rewrite Es. now apply (IH (S (t_mode x)) _ is_ _ Hok').
Qed.

Lemma prod_app_pos a b : 0 < prod (a ++ b) -> 0 < prod a /\ 0 < prod b.
Proof. rewrite prod_app. nia. Qed.

Lemma wf_conj_t (t : tensor F) : wf t -> wf (conj_t Op t).
Proof. unfold wf, conj_t, tmap. cbn [shape data]. now rewrite map_length. Qed.

Lemma opnd_vec tr X n : wf X -> shape X = [n] -> wf (opnd tr X) /\ shape (opnd tr X) = [n].
Proof.
  intros W Hs. unfold opnd. destruct tr; [|auto]. split.
  - apply wf_conj_t. unfold transpose_rev. apply wf_transpose.
  - unfold conj_t, tmap, transpose_rev, transpose, ndim. cbn [shape]. rewrite Hs. reflexivity.
Qed.

Lemma ssum_bsum_exchange' s n (c : list nat -> F) (g : list nat -> nat -> F) :
  ssum Op s (fun is_ => c is_ *r bs n (fun i => g is_ i)) = bs n (fun i => ssum Op s (fun is_ => c is_ *r g is_ i)).
Proof. apply (ssum_bsum_exchange Op Rth). Qed.

Theorem mmd_gen (tr : bool) : forall (L : list (@triple F)) p rs pre_s acc dec,
  wf acc -> shape acc = pre_s ++ rs -> 0 < prod (shape acc) -> dec + length pre_s = p -> ops_ok tr L p rs ->
  exists R, mmd_loop Op L None tr dec acc = Ok R /\ wf R /\ shape R = pre_s ++ outs tr L p rs /\ 0 < prod (shape R) /\
    forall pre o, inb pre_s pre -> inb (outs tr L p rs) o ->
      get d R (pre ++ o) = ssum Op (sizes L p rs) (fun is_ => coef tr L p is_ o *r get d acc (pre ++ full L p is_ o)).
Proof.
  induction L as [|x L IH]; intros p rs pre_s acc dec W Hs Hpos Hdec Hok.
  - exists acc. cbn [mmd_loop outs sizes]. split; [reflexivity|]. split; [exact W|]. split; [exact Hs|]. split; [exact Hpos|].
    intros pre o _ _. unfold ssum. rewrite (sum_idx_nil F (r0 Op) (r1 Op) (radd Op) (rmul Op) (rsub Op) (ropp Op) Rth).
    cbn [coef full]. ring.
  - destruct x as [[X m] i0]. cbn [ops_ok] in Hok. destruct Hok as [[Hp [Hq [WX Hsh]]] Hok']. cbn [t_mode fst snd] in Hp, Hq, WX, Hsh, Hok'.
    set (q := m - p) in *. set (sm := nth q rs 0) in *. set (a_s := firstn q rs). set (b_s := skipn (S q) rs) in *.
    assert (Hrs : rs = a_s ++ sm :: b_s) by (apply split_nth; exact Hq).
    assert (Hla : length a_s = q) by (unfold a_s; rewrite firstn_length; lia).
    set (pa := pre_s ++ a_s).
    assert (Hsacc : shape acc = pa ++ sm :: b_s).
    { rewrite Hs. unfold pa. rewrite <- app_assoc. f_equal. exact Hrs. }
    assert (Hlpa : length pa = length pre_s + q) by (unfold pa; rewrite app_length; lia).
    assert (Hk : m - dec = length pa) by lia.
    assert (Hklt : length pa < ndim acc) by (unfold ndim; rewrite Hsacc, app_length; simpl; lia).
    assert (Hnk : nth (length pa) (shape acc) 0 = sm) by (rewrite Hsacc; apply nth_app_len).
    pose proof Hpos as Hpos2. rewrite Hsacc in Hpos2. apply prod_app_pos in Hpos2. destruct Hpos2 as [Hppa Hpsb].
    change (prod (sm :: b_s)) with (sm * prod b_s) in Hpsb.
    cbn [mmd_loop is_skip]. rewrite Hk. fold (opnd tr X).
    destruct (is_vec X) eqn:Ev.
    + (* ---------------- vector operand *)
      assert (HsX : shape X = [sm]).
      { destruct Hsh as [H|[a [b [H _]]]]; [exact H|]. unfold is_vec, ndim in Ev. rewrite H in Ev. discriminate. }
      destruct (opnd_vec tr X sm WX HsX) as [WX' HsX'].
      destruct (mode_dot_vector_spec Op acc (opnd tr X) (length pa) false sm W Hklt Hpos HsX' (eq_sym Hnk))
        as [R1 [E1 [W1 [S1 G1]]]].
      rewrite E1. cbn [rbind]. unfold is_vec in Ev. rewrite Ev.
      assert (S1' : shape R1 = pa ++ b_s) by (rewrite S1, Hsacc; apply remove_nth_app_len).
      assert (Hpos1 : 0 < prod (shape R1)) by (rewrite S1', prod_app; nia).
      destruct (IH (S m) b_s pa R1 (S dec) W1 S1' Hpos1 ltac:(lia) Hok') as [R [ER [WR [SR [PR GR]]]]].
      exists R. split; [exact ER|]. split; [exact WR|]. split; [|split; [exact PR|]].
      * cbn [outs t_mode fst snd]. fold q a_s b_s. unfold is_vec. rewrite Ev. cbn [app]. rewrite SR. unfold pa. now rewrite <- app_assoc.
      * intros pre o Hpre Ho. cbn [outs t_mode fst snd] in Ho. fold q a_s b_s in Ho. unfold is_vec in Ho. rewrite Ev in Ho. cbn [app] in Ho.
        assert (Hlo : length (firstn q o) = q).
        { rewrite firstn_length. rewrite (inb_length _ _ Ho), app_length, Hla. lia. }
        set (a := firstn q o) in *. set (o' := skipn q o).
        assert (Eo : o = a ++ o') by (symmetry; apply firstn_skipn).
        rewrite Eo in Ho. apply inb_app_inv in Ho; [|congruence]. destruct Ho as [Ha Ho'].
        assert (Hpa : inb pa (pre ++ a)) by (unfold pa; now apply inb_app).
        cbn [sizes coef full t_mode fst snd]. fold q sm b_s a o'. unfold is_vec. rewrite Ev.
        unfold ssum. rewrite (sum_idx_cons F (r0 Op) (r1 Op) (radd Op) (rmul Op) (rsub Op) (ropp Op) Rth). fold (bsum Op).
        rewrite Eo at 1. rewrite app_assoc. rewrite (GR (pre ++ a) o' Hpa Ho').
        transitivity (ssum Op (sizes L (S m) b_s)
                        (fun is_ => coef tr L (S m) is_ o' *r
                           bs sm (fun i => vcoef tr X i *r get d acc ((pre ++ a) ++ i :: full L (S m) is_ o')))).
        -- unfold ssum. apply (sum_idx_ext F (r0 Op) (radd Op)). intros is_ His. f_equal.
           assert (Hin1 : inb (shape R1) ((pre ++ a) ++ full L (S m) is_ o')).
           { rewrite S1'. apply inb_app; [exact Hpa|]. now apply (full_inb tr L (S m) b_s is_ o' Hok'). }
           rewrite (G1 _ Hin1). apply bs_ext. intros i Hi. unfold vcoef. f_equal.
           rewrite <- (inb_length _ _ Hpa). now rewrite insert_at_app_len.
        -- rewrite ssum_bsum_exchange'. apply bs_ext. intros i Hi.
           unfold ssum. apply (sum_idx_ext F (r0 Op) (radd Op)). intros is_ His.
           rewrite <- app_assoc. fold o'. ring.
    + (* ---------------- matrix operand *)
      destruct Hsh as [H|[a0 [b0 [HsX [Hdim HJ]]]]].
      { unfold is_vec, ndim in Ev. rewrite H in Ev. discriminate. }
      set (J := if tr then b0 else a0) in *.
      unfold opnd. rewrite (mode_dot_pretransposed Op acc X a0 b0 (length pa) tr HsX).
      assert (Hdim' : (if tr then a0 else b0) = nth (length pa) (shape acc) 0) by (rewrite Hnk; exact Hdim).
      destruct (mode_dot_matrix_spec Op acc X (length pa) tr a0 b0 W WX Hklt Hpos HsX Hdim' HJ) as [R1 [E1 [W1 [S1 G1]]]].
      fold J in S1. rewrite E1. cbn [rbind]. unfold is_vec in Ev. rewrite Ev.
      assert (S1' : shape R1 = (pa ++ [J]) ++ b_s).
      { rewrite S1, Hsacc, set_nth_app_len. now rewrite <- app_assoc. }
      assert (Hpos1 : 0 < prod (shape R1)) by (rewrite S1', !prod_app; cbn [prod fold_right]; nia).
      destruct (IH (S m) b_s (pa ++ [J]) R1 dec W1 S1' Hpos1 ltac:(rewrite app_length; simpl; lia) Hok')
        as [R [ER [WR [SR [PR GR]]]]].
      assert (HoutJ : outdim tr (X, m, i0) = J).
      { unfold outdim, J, nrows, ncols. cbn [fst]. rewrite HsX. now destruct tr. }
      exists R. split; [exact ER|]. split; [exact WR|]. split; [|split; [exact PR|]].
      * cbn [outs t_mode fst snd]. fold q a_s b_s. unfold is_vec. rewrite Ev, HoutJ. rewrite SR. unfold pa. now rewrite <- !app_assoc.
      * intros pre o Hpre Ho. cbn [outs t_mode fst snd] in Ho. fold q a_s b_s in Ho. unfold is_vec in Ho. rewrite Ev, HoutJ in Ho.
        assert (Hlo : length (firstn q o) = q).
        { rewrite firstn_length. rewrite (inb_length _ _ Ho), app_length, Hla. lia. }
        set (a := firstn q o) in *.
        assert (Eo0 : o = a ++ skipn q o) by (symmetry; apply firstn_skipn).
        rewrite Eo0 in Ho. apply inb_app_inv in Ho; [|congruence]. destruct Ho as [Ha Ho'].
        destruct (skipn q o) as [|j o'] eqn:Esk; [contradiction|]. cbn [app] in Ho'. destruct Ho' as [Hj Ho'].
        assert (Es : skipn (S q) o = o') by (rewrite skipn_S_tl, Esk; reflexivity).
        assert (Hnq : nth q o 0 = j) by (rewrite Eo0, <- Hlo; apply nth_app_len).
        assert (Hpa : inb pa (pre ++ a)) by (unfold pa; now apply inb_app).
        assert (HpaJ : inb (pa ++ [J]) ((pre ++ a) ++ [j])) by (apply inb_app; [exact Hpa | simpl; auto]).
        cbn [sizes coef full t_mode fst snd]. fold q sm b_s a. unfold is_vec. rewrite Ev, Es, Hnq.
        unfold ssum. rewrite (sum_idx_cons F (r0 Op) (r1 Op) (radd Op) (rmul Op) (rsub Op) (ropp Op) Rth). fold (bsum Op).
        rewrite Eo0 at 1.
        replace (pre ++ a ++ j :: o') with (((pre ++ a) ++ [j]) ++ o') by (rewrite <- !app_assoc; reflexivity).
        rewrite (GR ((pre ++ a) ++ [j]) o' HpaJ Ho').
        transitivity (ssum Op (sizes L (S m) b_s)
                        (fun is_ => coef tr L (S m) is_ o' *r
                           bs sm (fun i => mentry Op X tr j i *r get d acc ((pre ++ a) ++ i :: full L (S m) is_ o')))).
        -- unfold ssum. apply (sum_idx_ext F (r0 Op) (radd Op)). intros is_ His. f_equal.
           assert (Hin1 : inb (shape R1) (((pre ++ a) ++ [j]) ++ full L (S m) is_ o')).
           { rewrite S1'. apply inb_app; [exact HpaJ|]. now apply (full_inb tr L (S m) b_s is_ o' Hok'). }
           rewrite (G1 _ Hin1). rewrite Hnk. apply bs_ext. intros i Hi.
           replace (((pre ++ a) ++ [j]) ++ full L (S m) is_ o') with ((pre ++ a) ++ j :: full L (S m) is_ o')
             by (now rewrite <- (app_assoc (pre ++ a) [j])).
           rewrite <- (inb_length _ _ Hpa). rewrite nth_app_len, set_nth_app_len. reflexivity.
        -- rewrite ssum_bsum_exchange'. apply bs_ext. intros i Hi.
           unfold ssum. apply (sum_idx_ext F (r0 Op) (radd Op)). intros is_ His.
           rewrite <- app_assoc. ring.
Qed.

Lemma mmd_loop_filter_skip_gen skip tr : forall (l : list (@triple F)) dec acc,
  mmd_loop Op l skip tr dec acc = mmd_loop Op (filter (fun x => negb (is_skip skip (snd x))) l) None tr dec acc.
Proof.
  induction l as [|[[M m] i] l IH]; intros dec acc; [reflexivity|].
  cbn [mmd_loop filter snd]. destruct (is_skip skip i) eqn:E; cbn [negb]; [apply IH|].
  cbn [mmd_loop is_skip].
  destruct (mode_dot Op acc (if tr then conj_t Op (transpose_rev Op M) else M) (m - dec) false); cbn [rbind]; [|reflexivity].
  apply IH.
Qed.

(* under transpose=True a vector operand enters with its conjugate *)
Lemma vcoef_conj (X : tensor F) n i : wf X -> shape X = [n] -> i < n ->
  vcoef true X i = rconj Op (get d X [i]) /\ vcoef false X i = get d X [i].
Proof.
  intros W Hs Hi. split; [|reflexivity]. unfold vcoef, opnd.
  assert (Hst : shape (transpose_rev Op X) = [n]) by (unfold transpose_rev, transpose, ndim; cbn [shape]; rewrite Hs; reflexivity).
  assert (Wt : wf (transpose_rev Op X)) by (unfold transpose_rev; apply wf_transpose).
  unfold conj_t, tmap, get at 1. cbn [shape data]. rewrite Hst.
  rewrite nth_indep with (d' := rconj Op d) by (rewrite map_length, Wt, Hst; simpl; lia).
  rewrite map_nth. f_equal.
  change (nth (ravel [n] [i]) (data (transpose_rev Op X)) d) with (nth (ravel [n] [i]) (data (transpose_rev Op X)) d).
  rewrite <- Hst. fold (get d (transpose_rev Op X) [i]). unfold transpose_rev, transpose, ndim. rewrite Hs.
  cbn [length seq rev app]. rewrite get_tabulate by (cbn; auto). reflexivity.
Qed.

(* multi_mode_dot: L = the non-skipped (operand, mode, operand index) triples in increasing mode order *)
Theorem multi_mode_dot_full (T : tensor F) (Ms : list (tensor F)) (modes : option (list nat)) (skip : option nat) (tr : bool) :
  let L := filter (fun x => negb (is_skip skip (snd x))) (sort_by_mode (zip3 Ms modes)) in
  wf T -> 0 < prod (shape T) -> ops_ok tr L 0 (shape T) ->
  exists R, multi_mode_dot Op T Ms modes skip tr = Ok R /\ wf R /\ shape R = outs tr L 0 (shape T) /\
    forall o, inb (shape R) o ->
      get d R o = ssum Op (sizes L 0 (shape T)) (fun is_ => coef tr L 0 is_ o *r get d T (full L 0 is_ o)).
Proof.
  intros L W Hpos Hok. unfold multi_mode_dot. rewrite mmd_loop_filter_skip_gen. fold L.
  destruct (mmd_gen tr L 0 (shape T) [] T 0 W eq_refl Hpos eq_refl Hok) as [R [E [WR [SR [_ GR]]]]].
  exists R. split; [exact E|]. split; [exact WR|]. split; [exact SR|].
  intros o Ho. rewrite SR in Ho. exact (GR [] o I Ho).
Qed.

End P.
