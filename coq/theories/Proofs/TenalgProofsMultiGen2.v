(* The hypothesis ops_ok of multi_mode_dot_full follows from the natural ones: the modes of the non-skipped operands are
   pairwise distinct and every non-skipped operand fits its mode (the sort of multi_mode_dot makes them increasing). *)
From Coq Require Import List Arith ZArith Lia Ring Bool.
From TLV Require Import Base.Shape Base.PyList Base.Tensor Base.BigSum Model.Base Proofs.BaseProofs Model.Tenalg
  Proofs.TenalgProofs Proofs.TenalgProofsMulti Proofs.TenalgProofsSort Proofs.TenalgProofsMultiGen.
Import ListNotations.

Section S.
Context {A : Type} (key : A -> nat).
Fixpoint lsorted (l : list A) : Prop :=
  match l with [] => True | x :: r => (forall y, In y r -> key x <= key y) /\ lsorted r end.

Lemma gins_In x : forall l y, In y (gins key x l) <-> y = x \/ In y l.
Proof.
  induction l as [|z r IH]; intros y; cbn [gins].
  - simpl. intuition.
  - destruct (key x <=? key z); simpl; [intuition|]. rewrite IH. intuition.
Qed.
Lemma gins_sorted x : forall l, lsorted l -> lsorted (gins key x l).
Proof.
  induction l as [|z r IH]; intros Hs; cbn [gins]; [simpl; intuition|].
  destruct Hs as [Hz Hr]. destruct (Nat.leb_spec (key x) (key z)) as [Hle|Hgt].
  - cbn [lsorted]. split; [|split; assumption]. intros y [<-|Hy]; [exact Hle|]. specialize (Hz y Hy). lia.
  - cbn [lsorted]. split; [|now apply IH]. intros y Hy. apply gins_In in Hy. destruct Hy as [->|Hy]; [lia | now apply Hz].
Qed.
Lemma gsort_sorted l : lsorted (gsort key l).
Proof. induction l as [|x l IH]; cbn [gsort fold_right]; [exact I|]. now apply gins_sorted. Qed.
Lemma lsorted_filter (P : A -> bool) : forall l, lsorted l -> lsorted (filter P l).
Proof.
  induction l as [|x r IH]; intros Hs; [exact I|]. destruct Hs as [Hx Hr]. cbn [filter]. destruct (P x); [|now apply IH].
  cbn [lsorted]. split; [|now apply IH]. intros y Hy. apply filter_In in Hy. apply Hx. tauto.
Qed.
End S.

Section P.
Context {F : Type} (Op : rops F).

(* operand fits its mode of a tensor of shape s: a length-s_m vector, or a (J, s_m) matrix ((s_m, J) under transpose), J > 0 *)
Definition operand_fits (tr : bool) (s : list nat) (x : @triple F) : Prop :=
  let X := fst (fst x) in let m := t_mode x in
  m < length s /\ wf X /\
  (shape X = [nth m s 0] \/ exists a b, shape X = [a; b] /\ (if tr then a else b) = nth m s 0 /\ 0 < (if tr then b else a)).

Lemma nth_skipn_add' {B} (d : B) : forall n (l : list B) j, nth j (skipn n l) d = nth (n + j) l d.
Proof. induction n; intros [|x l] j; simpl; auto. destruct j; reflexivity. Qed.
Lemma skipn_skipn' {B} : forall a b (l : list B), skipn a (skipn b l) = skipn (b + a) l.
Proof. intros a b. revert a. induction b; intros a l; [reflexivity|]. destruct l; [now rewrite !skipn_nil|]. simpl. apply IHb. Qed.

Lemma ops_ok_of_sorted tr s : forall (L : list (@triple F)) p,
  lsorted (@t_mode F) L -> NoDup (map (@t_mode F) L) -> Forall (operand_fits tr s) L ->
  (forall y, In y L -> p <= t_mode y) -> ops_ok tr L p (skipn p s).
Proof.
  induction L as [|x L IH]; intros p Hs Hnd Hf Hp; [exact I|].
  destruct Hs as [Hx Hs]. inversion Hnd as [|? ? Hnin Hnd']; subst. inversion Hf as [|? ? [Hm [WX Hsh]] Hf']; subst.
  assert (Hpx : p <= t_mode x) by (apply Hp; now left).
  cbn [ops_ok]. split.
  - unfold operand_okg. split; [exact Hpx|]. split; [rewrite skipn_length; lia|]. split; [exact WX|].
    rewrite nth_skipn_add'. replace (p + (t_mode x - p)) with (t_mode x) by lia. exact Hsh.
  - rewrite skipn_skipn'. replace (p + S (t_mode x - p)) with (S (t_mode x)) by lia.
    apply IH; auto. intros y Hy. specialize (Hx y Hy).
    assert (t_mode y <> t_mode x); [|lia]. intros E. apply Hnin. rewrite <- E. now apply in_map.
Qed.

End P.

Section Q.
Context {F : Type} (Op : rops F).
Hypothesis Rth : ring_theory (r0 Op) (r1 Op) (radd Op) (rmul Op) (rsub Op) (ropp Op) (@eq F).

Theorem multi_mode_dot_full_natural (T : tensor F) (Ms : list (tensor F)) (modes : option (list nat)) (skip : option nat) (tr : bool) :
  let L := filter (fun x => negb (is_skip skip (snd x))) (sort_by_mode (zip3 Ms modes)) in
  wf T -> 0 < prod (shape T) -> NoDup (map (@t_mode F) L) -> Forall (operand_fits tr (shape T)) L ->
  exists R, multi_mode_dot Op T Ms modes skip tr = Ok R /\ wf R /\ shape R = outs tr L 0 (shape T) /\
    forall o, inb (shape R) o ->
      get (r0 Op) R o = ssum Op (sizes L 0 (shape T)) (fun is_ => rmul Op (coef Op tr L 0 is_ o) (get (r0 Op) T (full L 0 is_ o))).
Proof.
  intros L W Hpos Hnd Hf. apply (multi_mode_dot_full Op Rth T Ms modes skip tr W Hpos). fold L.
  change (shape T) with (skipn 0 (shape T)). apply ops_ok_of_sorted; auto; [|intros; lia].
  unfold L. apply lsorted_filter. rewrite sort_by_mode_gsort. apply gsort_sorted.
Qed.
End Q.
