(* mode_dot with the mode as a Python int (negative modes count from the end).  Core backend: the textbook product at the
   normalised mode, for every -N <= mode < N.  Einsum backend (repaired by /repo 92eb2a5): the same, hence the backends agree
   for every Python mode.  The rule before 92eb2a5 (a matrix operand with a negative mode returned a tensor of the ORIGINAL
   shape) is kept as a labelled regression Example. *)
From Coq Require Import List Arith ZArith Lia Ring Bool.
From TLV Require Import Base.Shape Base.PyList Base.Tensor Base.BigSum Model.Base Proofs.BaseProofs Model.Tenalg
  Proofs.TenalgProofs Proofs.TenalgProofsEinsum Proofs.TenalgProofsEinsumVec.
Import ListNotations.

Section P.
Context {F : Type} (Op : rops F).
Hypothesis Rth : ring_theory (r0 Op) (r1 Op) (radd Op) (rmul Op) (rsub Op) (ropp Op) (@eq F).
Notation d := (r0 Op).
Infix "*r" := (rmul Op) (at level 40, left associativity).

Theorem mode_dot_z_matrix_spec (T M : tensor F) (z : Z) (k : nat) (tr : bool) (a b : nat) :
  py_index (ndim T) z = Some k ->
  wf T -> wf M -> 0 < prod (shape T) -> shape M = [a; b] ->
  (if tr then a else b) = nth k (shape T) 0 -> 0 < (if tr then b else a) ->
  exists R, mode_dot_z Op T M z tr = Ok R /\ wf R /\
    shape R = set_nth k (if tr then b else a) (shape T) /\
    forall idx, inb (shape R) idx ->
      get d R idx = bsum Op (nth k (shape T) 0) (fun i => mentry Op M tr (nth k idx 0) i *r get d T (set_nth k i idx)).
Proof.
  intros Hz WT WM Hpos HsM Hdim HJ. unfold mode_dot_z. rewrite Hz.
  assert (Hk : k < ndim T).
  { unfold py_index in Hz. destruct ((0 <=? z) && (z <? Z.of_nat (ndim T)))%Z eqn:E1.
    - apply andb_true_iff in E1. destruct E1 as [A B]. apply Z.leb_le in A. apply Z.ltb_lt in B. injection Hz as <-. lia.
    - destruct ((z <? 0) && (- Z.of_nat (ndim T) <=? z))%Z eqn:E2; [|discriminate].
      apply andb_true_iff in E2. destruct E2 as [A B]. apply Z.ltb_lt in A. apply Z.leb_le in B. injection Hz as <-. lia. }
  now apply (mode_dot_matrix_spec Op T M k tr a b).
Qed.

Theorem mode_dot_z_vector_spec (T v : tensor F) (z : Z) (k : nat) (tr : bool) (n : nat) :
  py_index (ndim T) z = Some k -> k < ndim T ->
  wf T -> 0 < prod (shape T) -> shape v = [n] -> n = nth k (shape T) 0 ->
  exists R, mode_dot_z Op T v z tr = Ok R /\ wf R /\ shape R = remove_nth k (shape T) /\
    forall ridx, inb (shape R) ridx ->
      get d R ridx = bsum Op n (fun i => get d v [i] *r get d T (insert_at k i ridx)).
Proof. intros Hz Hk WT Hpos Hsv Hn. unfold mode_dot_z. rewrite Hz. now apply (mode_dot_vector_spec Op T v k tr n). Qed.

Lemma py_index_lt n z k : py_index n z = Some k -> k < n.
Proof.
  unfold py_index. destruct ((0 <=? z) && (z <? Z.of_nat n))%Z eqn:E1.
  - apply andb_true_iff in E1. destruct E1 as [A B]. apply Z.leb_le in A. apply Z.ltb_lt in B. intros H. injection H as <-. lia.
  - destruct ((z <? 0) && (- Z.of_nat n <=? z))%Z eqn:E2; [|discriminate].
    apply andb_true_iff in E2. destruct E2 as [A B]. apply Z.ltb_lt in A. apply Z.leb_le in B. intros H. injection H as <-. lia.
Qed.

(* einsum backend, any Python mode: the same formula *)
Theorem mode_dot_e_z_matrix_spec (T M : tensor F) (z : Z) (k : nat) (tr : bool) (a b : nat) :
  py_index (ndim T) z = Some k ->
  wf T -> wf M -> 0 < prod (shape T) -> shape M = [a; b] ->
  (if tr then a else b) = nth k (shape T) 0 -> 0 < (if tr then b else a) ->
  exists R, mode_dot_e_z Op T M z tr = Ok R /\ wf R /\
    shape R = set_nth k (if tr then b else a) (shape T) /\
    forall idx, inb (shape R) idx ->
      get d R idx = bsum Op (nth k (shape T) 0) (fun i => mentry Op M tr (nth k idx 0) i *r get d T (set_nth k i idx)).
Proof.
  intros Hz WT WM Hpos HsM Hdim HJ. unfold mode_dot_e_z. rewrite Hz.
  apply (mode_dot_e_matrix_spec Op Rth T M k tr a b); auto. now apply (py_index_lt _ z).
Qed.

(* the two backends agree for every Python mode, matrix and vector operands *)
Theorem mode_dot_z_backends_agree (T M : tensor F) (z : Z) (k : nat) (tr : bool) (a b : nat) :
  py_index (ndim T) z = Some k ->
  wf T -> wf M -> 0 < prod (shape T) -> shape M = [a; b] ->
  (if tr then a else b) = nth k (shape T) 0 -> 0 < (if tr then b else a) ->
  mode_dot_z Op T M z tr = mode_dot_e_z Op T M z tr.
Proof.
  intros Hz WT WM Hpos HsM Hdim HJ. unfold mode_dot_z, mode_dot_e_z. rewrite Hz.
  apply (mode_dot_backends_agree Op Rth T M k tr a b); auto. now apply (py_index_lt _ z).
Qed.
Theorem mode_dot_z_backends_agree_vector (T v : tensor F) (z : Z) (k : nat) (tr : bool) (n : nat) :
  py_index (ndim T) z = Some k ->
  wf T -> 0 < prod (shape T) -> shape v = [n] -> n = nth k (shape T) 0 ->
  mode_dot_z Op T v z tr = mode_dot_e_z Op T v z tr.
Proof.
  intros Hz WT Hpos Hsv Hn. unfold mode_dot_z, mode_dot_e_z. rewrite Hz.
  apply (mode_dot_vector_backends_agree Op Rth T v k tr n); auto. now apply (py_index_lt _ z).
Qed.

End P.

(* regression (defect repaired by /repo 92eb2a5): the old einsum rule returned a tensor of T's shape for mode = -1 and a matrix;
   the repaired rule and the core backend return the mode product *)
Example mode_dot_einsum_negative_mode_before_92eb2a5 :
  let T : tensor Z := mk [2; 2] [1; 2; 3; 4]%Z in let M : tensor Z := mk [1; 2] [1; 1]%Z in
  mode_dot_e_z_before_92eb2a5 ZR T M (-1)%Z false = Ok (mk [2; 2] [1; 2; 3; 4]%Z) /\
  mode_dot_e_z ZR T M (-1)%Z false = Ok (mk [2; 1] [3; 7]%Z) /\
  mode_dot_z ZR T M (-1)%Z false = Ok (mk [2; 1] [3; 7]%Z).
Proof. cbv zeta. repeat split; vm_compute; reflexivity. Qed.
