(* multi_mode_dot with the modes as Python ints (Model/Tenalg.v multi_mode_dot_z / multi_mode_dot_e_z: since /repo 92eb2a5 the
   modes are resolved - negative ones counted from the end - BEFORE the sort; then, as before, sort by mode number and
   mode - decrement resolved by NumPy / Python list indexing).  For every list of valid Python modes (-N <= z < N) whose resolved
   values are distinct on the non-skipped operands both backends compute exactly what the non-negative-mode model computes,
   hence the index formula of multi_mode_dot_full_natural and core = einsum.  The rule before 92eb2a5 (sort by the RAW numbers)
   is kept as a labelled regression Example. *)
From Coq Require Import List Arith ZArith Lia Bool.
From TLV Require Import Base.Shape Base.PyList Base.Tensor Base.BigSum Model.Base Proofs.BaseProofs Model.Tenalg
  Proofs.TenalgProofs Proofs.TenalgProofsMulti Proofs.TenalgProofsSort Proofs.TenalgProofsMultiGen Proofs.TenalgProofsMultiGen2
  Proofs.TenalgProofsEinsumMulti Proofs.TenalgProofsValidate Proofs.TenalgProofsNegMode.
Import ListNotations.

Lemma leb_of_nat a b : (Z.of_nat a <=? Z.of_nat b)%Z = (a <=? b).
Proof. destruct (Nat.leb_spec a b); [apply Z.leb_le | apply Z.leb_gt]; lia. Qed.
Lemma norm_mode_valid order z k : py_index order z = Some k -> norm_mode order z = Z.of_nat k.
Proof.
  intros H. destruct (py_index_spec _ _ _ H) as [Hk [[A B]|[A B]]]; unfold norm_mode.
  - assert (E : (z <? 0)%Z = false) by (apply Z.ltb_ge; lia). rewrite E, andb_false_r. lia.
  - assert (E : ((- Z.of_nat order <=? z) && (z <? 0))%Z = true) by (apply andb_true_iff; split; [apply Z.leb_le | apply Z.ltb_lt]; lia).
    rewrite E. lia.
Qed.
Lemma norm_modes_valid order : forall ms ks, Forall2 (fun z k => py_index order z = Some k) ms ks ->
  map (norm_mode order) ms = map Z.of_nat ks.
Proof. induction 1; cbn [map]; [reflexivity|]. f_equal; [now apply norm_mode_valid | assumption]. Qed.

Section P.
Context {F : Type} (Op : rops F).

Definition lift (x : @triple F) : @ztriple F := (fst (fst x), Z.of_nat (t_mode x), snd x).

Lemma insert_sorted_lift x : forall l, insert_sorted_z (lift x) (map lift l) = map lift (insert_sorted x l).
Proof.
  induction l as [|y l IH]; [reflexivity|]. cbn [map insert_sorted_z insert_sorted]. unfold zt_mode at 1 2. cbn [lift fst snd].
  rewrite leb_of_nat. destruct (t_mode x <=? t_mode y); [reflexivity|]. cbn [map]. now rewrite IH.
Qed.
Lemma sort_by_mode_lift : forall l, sort_by_mode_z (map lift l) = map lift (sort_by_mode l).
Proof.
  induction l as [|x l IH]; [reflexivity|]. cbn [map]. unfold sort_by_mode_z, sort_by_mode in *. cbn [fold_right].
  rewrite IH. apply insert_sorted_lift.
Qed.
Lemma zip3z_lift (Ms : list (tensor F)) (ks : list nat) : zip3z Ms (map Z.of_nat ks) = map lift (zip3 Ms (Some ks)).
Proof.
  unfold zip3z, zip3. generalize (seq 0 (length Ms)). revert ks.
  induction Ms as [|M Ms IH]; intros [|k ks] [|i l]; cbn [map combine]; try reflexivity. f_equal. apply IH.
Qed.
Lemma filter_lift (P : nat -> bool) : forall l, filter (fun x : @ztriple F => P (snd x)) (map lift l) = map lift (filter (fun x => P (snd x)) l).
Proof. induction l as [|x l IH]; [reflexivity|]. cbn [map filter lift snd]. destruct (P (snd x)); cbn [map]; now rewrite IH. Qed.

Lemma mmd_e_fits_z_lift sT tr skip : forall (l : list (@triple F)), mmd_e_fits_z sT tr skip (map lift l) = mmd_e_fits sT tr skip l.
Proof.
  induction l as [|x l IH]; [reflexivity|]. cbn [map mmd_e_fits_z mmd_e_fits forallb]. fold (mmd_e_fits_z sT tr skip (map lift l)) (mmd_e_fits sT tr skip l).
  rewrite IH. f_equal. destruct x as [[M m] i]. unfold zt_mode, lift, t_mode. cbn [snd fst]. f_equal.
  destruct (Nat.lt_ge_cases m (length sT)) as [H|H].
  - now rewrite (py_index_nat _ _ H).
  - rewrite (py_index_nat_out _ _ H). unfold fit_one. apply Nat.ltb_ge in H. now rewrite H.
Qed.

Lemma mode_dot_z_of_nat (T M : tensor F) k tr : mode_dot_z Op T M (Z.of_nat k) tr = mode_dot Op T M k tr.
Proof.
  unfold mode_dot_z. destruct (Nat.lt_ge_cases k (ndim T)) as [H|H].
  - now rewrite (py_index_nat _ _ H).
  - rewrite (py_index_nat_out _ _ H). unfold mode_dot. apply Nat.ltb_ge in H.
    destruct (shape M) as [|a [|b [|c r]]]; try reflexivity; now rewrite H.
Qed.

Lemma mmd_loop_z_filter_skip skip tr : forall (l : list (@ztriple F)) dec acc,
  mmd_loop_z Op l skip tr dec acc = mmd_loop_z Op (filter (fun x => negb (is_skip skip (snd x))) l) None tr dec acc.
Proof.
  induction l as [|[[M m] i] l IH]; intros dec acc; [reflexivity|].
  cbn [mmd_loop_z filter snd]. destruct (is_skip skip i) eqn:E; cbn [negb]; [apply IH|].
  cbn [mmd_loop_z is_skip].
  destruct (mode_dot_z Op acc (if tr then conj_t Op (transpose_rev Op M) else M) (m - dec) false); cbn [rbind]; [|reflexivity].
  apply IH.
Qed.
Lemma mmd_e_loop_z_filter_skip skip tr : forall (l : list (@ztriple F)) st,
  mmd_e_loop_z Op l skip tr st = mmd_e_loop_z Op (filter (fun x => negb (is_skip skip (snd x))) l) None tr st.
Proof.
  induction l as [|[[M m] i] l IH]; intros st; [reflexivity|].
  cbn [mmd_e_loop_z filter snd]. destruct (is_skip skip i) eqn:E; cbn [negb]; [apply IH|].
  cbn [mmd_e_loop_z is_skip].
  destruct (py_index (length (s_out st)) (m - Z.of_nat (s_dec st))); [|reflexivity].
  destruct (ndim M) as [|[|[|k]]]; try reflexivity; apply IH.
Qed.

(* the loops on resolved, strictly increasing modes: mode - decrement never goes below zero *)
Lemma mmd_loop_z_lift tr : forall (L : list (@triple F)) dec acc,
  lsorted (@t_mode F) L -> NoDup (map (@t_mode F) L) -> (forall y, In y L -> dec <= t_mode y) ->
  mmd_loop_z Op (map lift L) None tr (Z.of_nat dec) acc = mmd_loop Op L None tr dec acc.
Proof.
  induction L as [|[[M m] i] L IH]; intros dec acc Hs Hnd Hd; [reflexivity|].
  destruct Hs as [Hx Hs]. cbn [map] in Hnd. apply NoDup_cons_iff in Hnd. destruct Hnd as [Hnin Hnd'].
  assert (Hdm : dec <= m) by (apply (Hd (M, m, i)); now left).
  cbn [map lift mmd_loop_z mmd_loop is_skip t_mode fst snd].
  replace (Z.of_nat m - Z.of_nat dec)%Z with (Z.of_nat (m - dec)) by lia. rewrite mode_dot_z_of_nat.
  destruct (mode_dot Op acc (if tr then conj_t Op (transpose_rev Op M) else M) (m - dec) false) as [acc'|]; cbn [rbind]; [|reflexivity].
  assert (Hrest : forall y, In y L -> S m <= t_mode y).
  { intros y Hy. specialize (Hx y Hy). cbn [t_mode fst snd] in Hx. assert (t_mode y <> m); [|lia].
    intros E. apply Hnin. cbn [t_mode fst snd]. rewrite <- E. now apply in_map. }
  destruct (ndim M =? 1).
  - replace (Z.of_nat dec + 1)%Z with (Z.of_nat (S dec)) by lia. apply IH; auto. intros y Hy. specialize (Hrest y Hy). lia.
  - apply IH; auto. intros y Hy. specialize (Hrest y Hy). lia.
Qed.
Lemma mmd_e_loop_z_lift tr order : forall (L : list (@triple F)) st,
  lsorted (@t_mode F) L -> NoDup (map (@t_mode F) L) -> (forall y, In y L -> s_dec st <= t_mode y) ->
  mmd_e_loop_z Op (map lift L) None tr st = mmd_e_loop Op L None tr order st.
Proof.
  induction L as [|[[M m] i] L IH]; intros st Hs Hnd Hd; [reflexivity|].
  destruct Hs as [Hx Hs]. cbn [map] in Hnd. apply NoDup_cons_iff in Hnd. destruct Hnd as [Hnin Hnd'].
  assert (Hdm : s_dec st <= m) by (apply (Hd (M, m, i)); now left).
  assert (Hrest : forall y, In y L -> S m <= t_mode y).
  { intros y Hy. specialize (Hx y Hy). cbn [t_mode fst snd] in Hx. assert (t_mode y <> m); [|lia].
    intros E. apply Hnin. cbn [t_mode fst snd]. rewrite <- E. now apply in_map. }
  cbn [map lift mmd_e_loop_z mmd_e_loop is_skip t_mode fst snd]. cbv zeta.
  replace (Z.of_nat m - Z.of_nat (s_dec st))%Z with (Z.of_nat (m - s_dec st)) by lia.
  destruct (Nat.lt_ge_cases (m - s_dec st) (length (s_out st))) as [Hq|Hq].
  - rewrite (py_index_nat _ _ Hq). apply Nat.ltb_lt in Hq. rewrite Hq. cbn [negb].
    destruct (ndim M) as [|[|[|k]]]; try reflexivity.
    + apply IH; cbn [s_dec]; auto. intros y Hy. specialize (Hrest y Hy). lia.
    + apply IH; cbn [s_dec]; auto. intros y Hy. specialize (Hrest y Hy). lia.
  - rewrite (py_index_nat_out _ _ Hq). apply Nat.ltb_ge in Hq. now rewrite Hq.
Qed.

(* ================================================================ any valid Python modes = the non-negative-mode model *)
Theorem multi_mode_dot_z_resolved (T : tensor F) (Ms : list (tensor F)) (ms : list Z) (ks : list nat) (skip : option nat) (tr : bool) :
  let L := filter (fun x => negb (is_skip skip (snd x))) (sort_by_mode (zip3 Ms (Some ks))) in
  Forall2 (fun z k => py_index (ndim T) z = Some k) ms ks -> NoDup (map (@t_mode F) L) ->
  multi_mode_dot_z Op T Ms ms skip tr = multi_mode_dot Op T Ms (Some ks) skip tr /\
  multi_mode_dot_e_z Op T Ms ms skip tr = multi_mode_dot_e Op T Ms (Some ks) skip tr.
Proof.
  intros L Hv Hnd.
  assert (HsL : lsorted (@t_mode F) L) by (unfold L; apply lsorted_filter; rewrite sort_by_mode_gsort; apply gsort_sorted).
  split.
  - unfold multi_mode_dot_z, multi_mode_dot. rewrite (norm_modes_valid _ _ _ Hv), zip3z_lift, sort_by_mode_lift.
    rewrite mmd_loop_z_filter_skip, (mmd_loop_filter_skip_gen Op).
    rewrite (filter_lift (fun i => negb (is_skip skip i))). fold L.
    apply (mmd_loop_z_lift tr L 0 T HsL Hnd). intros; lia.
  - unfold multi_mode_dot_e_z, multi_mode_dot_e. cbv zeta.
    rewrite (norm_modes_valid _ _ _ Hv), zip3z_lift, sort_by_mode_lift.
    rewrite mmd_e_loop_z_filter_skip, (mmd_e_loop_filter_skip Op).
    rewrite (filter_lift (fun i => negb (is_skip skip i))). fold L.
    rewrite (mmd_e_loop_z_lift tr (ndim T) L _ HsL Hnd); [reflexivity | cbn [s_dec]; intros; lia].
Qed.

End P.

Section Q.
Context {F : Type} (Op : rops F).
Hypothesis Rth : ring_theory (r0 Op) (r1 Op) (radd Op) (rmul Op) (rsub Op) (ropp Op) (@eq F).
Notation d := (r0 Op).
Infix "*r" := (rmul Op) (at level 40, left associativity).

(* the index formula for every list of valid Python modes, both backends *)
Theorem multi_mode_dot_z_full (T : tensor F) (Ms : list (tensor F)) (ms : list Z) (ks : list nat) (skip : option nat) (tr : bool) :
  let L := filter (fun x => negb (is_skip skip (snd x))) (sort_by_mode (zip3 Ms (Some ks))) in
  Forall2 (fun z k => py_index (ndim T) z = Some k) ms ks ->
  wf T -> 0 < prod (shape T) -> NoDup (map (@t_mode F) L) -> Forall (operand_fits tr (shape T)) L ->
  exists R, multi_mode_dot_z Op T Ms ms skip tr = Ok R /\ multi_mode_dot_e_z Op T Ms ms skip tr = Ok R /\
    wf R /\ shape R = outs tr L 0 (shape T) /\
    forall o, inb (shape R) o ->
      get d R o = ssum Op (sizes L 0 (shape T)) (fun is_ => coef Op tr L 0 is_ o *r get d T (full L 0 is_ o)).
Proof.
  intros L Hv W Hpos Hnd Hfit. destruct (multi_mode_dot_z_resolved Op T Ms ms ks skip tr Hv Hnd) as [E1 E2].
  destruct (multi_mode_dot_full_natural Op Rth T Ms (Some ks) skip tr W Hpos Hnd Hfit) as [R [ER [WR [SR GR]]]].
  exists R. rewrite E1, E2, <- (multi_mode_dot_backends_agree Op Rth T Ms (Some ks) skip tr W Hpos Hnd Hfit). auto.
Qed.
End Q.

(* regression (defect repaired by /repo 92eb2a5): v0 on mode 0 and v2 on mode -1 of a (2,2,2) tensor; the textbook value is
   [53; 77]; sorting by the raw mode numbers gave [37; 85] (core) and [22; 108] (einsum) *)
Example multi_mode_dot_negative_modes_before_92eb2a5 :
  let T : tensor Z := mk [2; 2; 2] [1; 2; 3; 4; 5; 6; 7; 8]%Z in
  let v0 : tensor Z := mk [2] [1; 2]%Z in let v2 : tensor Z := mk [2] [1; 3]%Z in
  multi_mode_dot ZR T [v0; v2] (Some [0; 2]) None false = Ok (mk [2] [53; 77]%Z) /\
  multi_mode_dot_z_before_92eb2a5 ZR T [v0; v2] [0; -1]%Z None false = Ok (mk [2] [37; 85]%Z) /\
  multi_mode_dot_e_z_before_92eb2a5 ZR T [v0; v2] [0; -1]%Z None false = Ok (mk [2] [22; 108]%Z) /\
  multi_mode_dot_z ZR T [v0; v2] [0; -1]%Z None false = Ok (mk [2] [53; 77]%Z) /\
  multi_mode_dot_e_z ZR T [v0; v2] [0; -1]%Z None false = Ok (mk [2] [53; 77]%Z).
Proof. cbv zeta. repeat split; vm_compute; reflexivity. Qed.
