(* multi_mode_dot with the modes as Python ints, both backends AS THEY ARE (Model/Tenalg.v multi_mode_dot_z / multi_mode_dot_e_z):
   the operands are sorted by the raw mode numbers, so a negative mode is processed before the non-negative ones and the later
   `mode - decrement` (which presumes smaller number = earlier mode) contracts the wrong mode once a vector operand has been
   absorbed.  Refuted by a computed witness for both backends; a call with a single operand is right for every mode. *)
From Coq Require Import List Arith ZArith Lia Bool.
From TLV Require Import Base.Shape Base.PyList Base.Tensor Base.BigSum Model.Base Model.Tenalg.
Import ListNotations.

(* T of shape (2,2,2), v0 on mode 0, v2 on mode -1 (= mode 2): the textbook result is [53; 77]; the core backend returns
   [37; 85] and the einsum backend [22; 108], both without an error *)
Theorem multi_mode_dot_negative_modes_refuted :
  exists (T v0 v2 R Rc Re : tensor Z),
    wf T /\ shape T = [2; 2; 2] /\ shape v0 = [2] /\ shape v2 = [2] /\
    multi_mode_dot ZR T [v0; v2] (Some [0; 2]) None false = Ok R /\
    multi_mode_dot_e ZR T [v0; v2] (Some [0; 2]) None false = Ok R /\
    multi_mode_dot_z ZR T [v0; v2] [0; -1]%Z None false = Ok Rc /\
    multi_mode_dot_e_z ZR T [v0; v2] [0; -1]%Z None false = Ok Re /\
    Rc <> R /\ Re <> R.
Proof.
  exists (mk [2; 2; 2] [1; 2; 3; 4; 5; 6; 7; 8]%Z), (mk [2] [1; 2]%Z), (mk [2] [1; 3]%Z),
         (mk [2] [53; 77]%Z), (mk [2] [37; 85]%Z), (mk [2] [22; 108]%Z).
  repeat split; try (vm_compute; reflexivity); discriminate.
Qed.

Section P.
Context {F : Type} (Op : rops F).

(* what does hold for every mode: a single operand (no sort, no decrement) *)
Theorem multi_mode_dot_z_single (T M : tensor F) (z : Z) (tr : bool) :
  multi_mode_dot_z Op T [M] [z] None tr = mode_dot_z Op T (if tr then conj_t Op (transpose_rev Op M) else M) z false.
Proof.
  unfold multi_mode_dot_z, zip3z, sort_by_mode_z. cbn [length seq combine fold_right insert_sorted_z mmd_loop_z is_skip].
  rewrite Z.sub_0_r. destruct (mode_dot_z Op T (if tr then conj_t Op (transpose_rev Op M) else M) z false); reflexivity.
Qed.
End P.
