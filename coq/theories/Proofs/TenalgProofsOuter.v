(* outer, batched_outer and higher_order_moment (core backend): model = textbook index formula,
   any number of operands of any orders, over any commutative ring. *)
From Coq Require Import List Arith ZArith Lia Ring Bool.
From TLV Require Import Base.Shape Base.PyList Base.Tensor Base.BigSum Model.Base Proofs.BaseProofs Model.Tenalg
  Proofs.TenalgProofs Proofs.TenalgProofsInner.
Import ListNotations.

Lemma firstn_app_len {A} n (l1 l2 : list A) : n = length l1 -> firstn n (l1 ++ l2) = l1.
Proof. intros ->. apply firstn_app_exact. Qed.
Lemma skipn_app_len {A} n (l1 l2 : list A) : n = length l1 -> skipn n (l1 ++ l2) = l2.
Proof. intros ->. apply skipn_app_exact. Qed.

Section P.
Context {F : Type} (Op : rops F).
Hypothesis Rth : ring_theory (r0 Op) (r1 Op) (radd Op) (rmul Op) (rsub Op) (ropp Op) (@eq F).
Add Ring Fr6 : Rth.
Notation d := (r0 Op).
Infix "*r" := (rmul Op) (at level 40, left associativity).

(* ---------------------------------------------------------------- spec side *)
(* prod_k t_k[idx_k] *)
Definition outer_entry (ts : list (tensor F)) (idxs : list (list nat)) : F :=
  rprod Op (map (fun p => get d (fst p) (snd p)) (combine ts idxs)).
(* prod_k t_k[b, idx_k] *)
Definition bouter_entry (b : nat) (ts : list (tensor F)) (idxs : list (list nat)) : F :=
  rprod Op (map (fun p => get d (fst p) (b :: snd p)) (combine ts idxs)).

Lemma outer_entry_cons t ts i idxs : outer_entry (t :: ts) (i :: idxs) = get d t i *r outer_entry ts idxs.
Proof. reflexivity. Qed.
Lemma bouter_entry_cons b t ts i idxs : bouter_entry b (t :: ts) (i :: idxs) = get d t (b :: i) *r bouter_entry b ts idxs.
Proof. reflexivity. Qed.

(* ================================================================ outer *)
Lemma outer_fold_spec : forall (rest : list (tensor F)) idxs acc i0,
  Forall2 (fun t i => inb (shape t) i) rest idxs -> inb (shape acc) i0 ->
  shape (fold_left (outer2 Op) rest acc) = shape acc ++ concat (map (@shape F) rest) /\
  get d (fold_left (outer2 Op) rest acc) (i0 ++ concat idxs) = get d acc i0 *r outer_entry rest idxs.
Proof.
  induction rest as [|t rest IH]; intros idxs acc i0 H2 H0; inversion H2 as [|? i ? idxs' Hi H2']; subst.
  - cbn [fold_left map concat]. rewrite !app_nil_r. split; [reflexivity|]. unfold outer_entry. cbn. ring.
  - cbn [fold_left map concat].
    assert (Hin : inb (shape (outer2 Op acc t)) (i0 ++ i)) by (unfold outer2; cbn [shape]; now apply inb_app).
    destruct (IH idxs' (outer2 Op acc t) (i0 ++ i) H2' Hin) as [S G]. split.
    + rewrite S. unfold outer2. cbn [shape]. now rewrite app_assoc.
    + rewrite app_assoc, G, outer_entry_cons.
      unfold outer2. rewrite get_tabulate by (apply inb_app; assumption).
      assert (Hl : ndim acc = length i0) by (unfold ndim; symmetry; now apply inb_length).
      rewrite (firstn_app_len _ _ _ Hl), (skipn_app_len _ _ _ Hl). ring.
Qed.

(* outer(ts)[idx_1 ++ ... ++ idx_n] = prod_k t_k[idx_k] *)
Theorem outer_spec (ts : list (tensor F)) (idxs : list (list nat)) :
  ts <> [] -> Forall2 (fun t i => inb (shape t) i) ts idxs ->
  exists R, outer Op ts = Ok R /\ shape R = concat (map (@shape F) ts) /\
    get d R (concat idxs) = outer_entry ts idxs.
Proof.
  intros Hne H2. destruct ts as [|t0 rest]; [congruence|]. inversion H2 as [|? i0 ? idxs' Hi H2']; subst.
  exists (fold_left (outer2 Op) rest t0). split; [reflexivity|].
  destruct (outer_fold_spec rest idxs' t0 i0 H2' Hi) as [S G]. split; [exact S|].
  cbn [concat]. rewrite G, outer_entry_cons. reflexivity.
Qed.

(* ================================================================ batched_outer *)
Definition batched (nb : nat) (t : tensor F) (i : list nat) : Prop := shape t = nb :: tl (shape t) /\ inb (tl (shape t)) i.

Lemma bouter_loop_spec nb b : b < nb -> forall (rest : list (tensor F)) idxs acc i0,
  Forall2 (batched nb) rest idxs -> batched nb acc i0 ->
  exists R, bouter_loop Op rest acc = Ok R /\
    shape R = shape acc ++ concat (map (fun t => tl (shape t)) rest) /\
    get d R (b :: i0 ++ concat idxs) = get d acc (b :: i0) *r bouter_entry b rest idxs.
Proof.
  intros Hb. induction rest as [|t rest IH]; intros idxs acc i0 H2 [Ha H0]; inversion H2 as [|? i ? idxs' [Ht Hi] H2']; subst.
  - exists acc. cbn [bouter_loop map concat]. rewrite !app_nil_r. split; [reflexivity|]. split; [reflexivity|].
    unfold bouter_entry. cbn. ring.
  - cbn [bouter_loop map concat].
    destruct (shape acc) as [|x sa] eqn:Esa; [discriminate Ha|]. cbn [tl] in Ha, H0. injection Ha as ->.
    destruct (shape t) as [|y st] eqn:Est; [discriminate Ht|]. cbn [tl] in Ht, Hi. injection Ht as ->.
    cbn [nth tl]. rewrite Nat.eqb_refl.
    assert (Hs' : shape (bouter2 Op acc t) = nb :: (sa ++ st)).
    { unfold bouter2. cbn [shape]. rewrite Esa, Est. reflexivity. }
    assert (Hb' : batched nb (bouter2 Op acc t) (i0 ++ i)).
    { unfold batched. rewrite Hs'. cbn [tl]. split; [reflexivity | now apply inb_app]. }
    destruct (IH idxs' (bouter2 Op acc t) (i0 ++ i) H2' Hb') as [R [E [S G]]].
    exists R. split; [exact E|]. split.
    + rewrite S, Hs'. cbn [app]. now rewrite <- app_assoc.
    + rewrite app_assoc, G, bouter_entry_cons.
      unfold bouter2.
      rewrite get_tabulate by (rewrite Esa, Est; cbn [app tl inb]; split; [exact Hb | now apply inb_app]).
      assert (Hl : ndim acc = length (b :: i0)).
      { unfold ndim. rewrite Esa. cbn [length]. f_equal. symmetry. now apply inb_length. }
      change (b :: i0 ++ i) with ((b :: i0) ++ i).
      rewrite (firstn_app_len _ _ _ Hl), (skipn_app_len _ _ _ Hl). cbn [nth app]. ring.
Qed.

(* batched_outer(ts)[b, idx_1 ++ ... ++ idx_n] = prod_k t_k[b, idx_k] *)
Theorem batched_outer_spec (nb b : nat) (ts : list (tensor F)) (idxs : list (list nat)) :
  ts <> [] -> Forall2 (batched nb) ts idxs -> b < nb ->
  exists R, batched_outer Op ts = Ok R /\ shape R = nb :: concat (map (fun t => tl (shape t)) ts) /\
    get d R (b :: concat idxs) = bouter_entry b ts idxs.
Proof.
  intros Hne H2 Hb. destruct ts as [|t0 rest]; [congruence|]. inversion H2 as [|? i0 ? idxs' H0 H2']; subst.
  destruct (bouter_loop_spec nb b Hb rest idxs' t0 i0 H2' H0) as [R [E [S G]]].
  exists R. split; [exact E|]. split.
  - rewrite S. destruct H0 as [Ha _]. rewrite Ha at 1. reflexivity.
  - cbn [concat]. rewrite G, bouter_entry_cons. reflexivity.
Qed.

(* ================================================================ higher_order_moment (sum form: n_samples * moment) *)
Definition xprod (T : tensor F) (b : nat) (idxs : list (list nat)) : F := rprod Op (map (fun i => get d T (b :: i)) idxs).

Lemma moment_iter_spec (T : tensor F) ns feat b : shape T = ns :: feat -> b < ns ->
  forall idxs m im, Forall (inb feat) idxs -> batched ns m im ->
  exists R, iter_res (length idxs) (fun m => batched_outer Op [m; T]) m = Ok R /\
    shape R = shape m ++ concat (map (fun _ => feat) idxs) /\
    get d R (b :: im ++ concat idxs) = get d m (b :: im) *r xprod T b idxs.
Proof.
  intros HsT Hb. induction idxs as [|i idxs IH]; intros m im Hf Hm.
  - exists m. cbn [length iter_res map concat]. rewrite !app_nil_r. split; [reflexivity|]. split; [reflexivity|].
    unfold xprod. cbn. ring.
  - inversion Hf as [|? ? Hi Hf']; subst. cbn [length iter_res].
    assert (HT : batched ns T i) by (unfold batched; rewrite HsT; cbn [tl]; auto).
    assert (H2 : Forall2 (batched ns) [m; T] [im; i]) by (constructor; [exact Hm | constructor; [exact HT | constructor]]).
    destruct (batched_outer_spec ns b [m; T] [im; i] ltac:(discriminate) H2 Hb) as [m1 [E1 [S1 G1]]].
    rewrite E1. cbn [rbind].
    assert (Hm1 : batched ns m1 (im ++ i)).
    { unfold batched. rewrite S1. cbn [map concat tl]. rewrite app_nil_r. rewrite HsT. cbn [tl].
      split; [reflexivity|]. destruct Hm as [_ Him]. now apply inb_app. }
    destruct (IH m1 (im ++ i) Hf' Hm1) as [R [E [S G]]].
    exists R. split; [exact E|]. split.
    + rewrite S, S1. cbn [map concat]. rewrite app_nil_r, HsT. cbn [tl].
      destruct Hm as [Hsm _].
      transitivity ((ns :: tl (shape m)) ++ feat ++ concat (map (fun _ : list nat => feat) idxs));
        [cbn [app]; now rewrite <- app_assoc | now rewrite <- Hsm].
    + cbn [concat]. rewrite app_assoc, G. cbn [concat] in G1. rewrite app_nil_r in G1. rewrite G1.
      unfold bouter_entry, xprod, rprod. cbn [combine map fold_right fst snd]. ring.
Qed.

(* (n_samples * moment)[idx_1 ++ ... ++ idx_order] = sum_b prod_j T[b, idx_j] *)
Theorem moment_sum_spec (T : tensor F) (ns : nat) (feat : list nat) (idxs : list (list nat)) :
  shape T = ns :: feat -> 0 < ns -> idxs <> [] -> Forall (inb feat) idxs ->
  exists R, higher_order_moment_sum Op T (length idxs) = Ok R /\
    shape R = concat (map (fun _ => feat) idxs) /\
    get d R (concat idxs) = bsum Op ns (fun b => xprod T b idxs).
Proof.
  intros HsT Hns Hne Hf. destruct idxs as [|i0 idxs]; [congruence|]. inversion Hf as [|? ? Hi0 Hf']; subst.
  unfold higher_order_moment_sum, moment_sum. cbn [length Nat.eqb].
  replace (S (length idxs) - 1) with (length idxs) by lia.
  assert (HT : batched ns T i0) by (unfold batched; rewrite HsT; cbn [tl]; auto).
  destruct (moment_iter_spec T ns feat 0 HsT Hns idxs T i0 Hf' HT) as [R [E [S _]]].
  rewrite E. cbn [rbind]. eexists. split; [reflexivity|].
  assert (Hsh : tl (shape R) = concat (map (fun _ => feat) (i0 :: idxs))).
  { rewrite S, HsT. reflexivity. }
  split; [unfold sum_axis0; cbn [shape]; exact Hsh|].
  assert (Hin : inb (tl (shape R)) (concat (i0 :: idxs))).
  { rewrite Hsh. cbn [map concat]. apply inb_app; [exact Hi0|].
    clear -Hf'. induction Hf' as [|i idxs Hi _ IH]; cbn [map concat]; [exact I | now apply inb_app]. }
  unfold sum_axis0. rewrite get_tabulate by exact Hin.
  assert (Hn0 : nth 0 (shape R) 0 = ns) by (rewrite S, HsT; reflexivity). rewrite Hn0.
  unfold bsum. apply bigsum_ext. intros b Hb.
  destruct (moment_iter_spec T ns feat b HsT Hb idxs T i0 Hf' HT) as [R' [E' [_ G']]].
  rewrite E in E'. injection E' as <-. cbn [concat]. rewrite G'. unfold xprod. cbn [map rprod fold_right]. reflexivity.
Qed.

End P.
