(* Rejection of wrongly sized weights / masks (NumPy's broadcasting rule as modelled by apply_w / apply_mask / einsum_weights):
   weights whose number of entries is neither the number of columns R nor 1, and masks whose number of entries is neither the
   number of rows nor 1, make khatri_rao (both backends) and the MTTKRP variants return Err. *)
From Coq Require Import List Arith ZArith Lia Ring Bool.
From TLV Require Import Base.Shape Base.PyList Base.Tensor Base.BigSum Model.Base Proofs.BaseProofs Model.Tenalg
  Proofs.TenalgProofs Proofs.TenalgProofsKR Proofs.TenalgProofsKRBcast.
Import ListNotations.

Section P.
Context {F : Type} (Op : rops F).
Hypothesis Rth : ring_theory (r0 Op) (r1 Op) (radd Op) (rmul Op) (rsub Op) (ropp Op) (@eq F).

Definition bad_size (w : tensor F) (n : nat) : Prop := prod (shape w) <> n /\ prod (shape w) <> 1.

Lemma apply_w_rejects (w : tensor F) M : bad_size w (ncols M) -> apply_w Op (Some w) M = Err.
Proof.
  intros [H1 H2]. cbn [apply_w]. apply Nat.eqb_neq in H1, H2. now rewrite H1, H2.
Qed.
Lemma apply_mask_rejects (m : tensor F) M : bad_size m (nrows M) -> apply_mask Op (Some m) M = Err.
Proof.
  intros [H1 H2]. cbn [apply_mask]. apply Nat.eqb_neq in H1, H2. now rewrite H1, H2.
Qed.

Theorem khatri_rao_rejects_weights (Ms : list (tensor F)) (w : tensor F) (mask : option (tensor F)) (skip : option nat) (R : nat) :
  let Ms' := skipl skip Ms in
  Ms' <> [] -> mats R Ms' -> bad_size w R -> khatri_rao Op Ms (Some w) mask skip = Err.
Proof.
  intros Ms' Hne Hm Hw. unfold khatri_rao. fold Ms'. destruct Ms' as [|M0 rest]; [congruence|].
  inversion Hm as [|? ? [W0 Hs0] Hm']; subst.
  assert (Hc0 : ncols M0 = R) by (unfold ncols; now rewrite Hs0).
  assert (E : apply_w Op (Some w) M0 = Err) by (apply apply_w_rejects; now rewrite Hc0).
  destruct rest as [|M1 rest']; [now rewrite E|]. destruct (kr_valid (M0 :: M1 :: rest')); [now rewrite E | reflexivity].
Qed.

Theorem khatri_rao_rejects_mask (Ms : list (tensor F)) (w : option (tensor F)) (m : tensor F) (skip : option nat) (R : nat) :
  let Ms' := skipl skip Ms in
  Ms' <> [] -> mats R Ms' -> bad_size m (prod (map nrows Ms')) -> khatri_rao Op Ms w (Some m) skip = Err.
Proof.
  intros Ms' Hne Hm Hbad. unfold khatri_rao. fold Ms'. destruct Ms' as [|M0 rest]; [congruence|].
  inversion Hm as [|? ? [W0 Hs0] Hm']; subst.
  destruct rest as [|M1 rest'].
  - destruct (apply_w Op w M0) as [Mw|] eqn:Ew; [|reflexivity]. cbn [rbind]. apply apply_mask_rejects.
    assert (HsMw : shape Mw = shape M0).
    { destruct w as [w|]; cbn [apply_w] in Ew; [|now injection Ew as <-].
      destruct (prod (shape w) =? ncols M0); [injection Ew as <-; reflexivity|]. destruct (prod (shape w) =? 1); [injection Ew as <-; reflexivity | discriminate]. }
    unfold nrows at 1. rewrite HsMw, Hs0. cbn [nth]. cbn [map prod fold_right] in Hbad. now rewrite Nat.mul_1_r in Hbad.
  - set (rest := M1 :: rest') in *. destruct (kr_valid (M0 :: rest)); [|reflexivity].
    destruct (apply_w Op w M0) as [Mw|] eqn:Ew; [|reflexivity]. cbn [rbind]. apply apply_mask_rejects.
    assert (HsMw : shape Mw = [nrows M0; R] /\ wf Mw).
    { destruct w as [w|]; cbn [apply_w] in Ew; [|injection Ew as <-; auto].
      destruct (prod (shape w) =? ncols M0); [injection Ew as <-; split; [exact Hs0 | apply wf_tabulate]|].
      destruct (prod (shape w) =? 1); [injection Ew as <-; split; [exact Hs0 | apply wf_tabulate] | discriminate]. }
    destruct HsMw as [HsMw WMw].
    destruct (kr_fold_shape Op R rest Mw (nrows M0) HsMw WMw Hm') as [HsK _].
    unfold nrows at 1. rewrite HsK. exact Hbad.
Qed.

(* einsum backend, two or more matrices: np.einsum needs a 1-D weight vector of length R (or 1) and a mask of shape (rows_1..rows_n) *)
Theorem khatri_rao_e_rejects (Ms : list (tensor F)) (w mask : option (tensor F)) (skip : option nat) :
  let Ms' := skipl skip Ms in
  2 <= length Ms' ->
  (exists w0, w = Some w0 /\ (ndim w0 <> 1 \/ bad_size w0 (ncols (hd (mk [] []) Ms')))) \/
  (exists m0, mask = Some m0 /\ shape m0 <> map nrows Ms') ->
  khatri_rao_e Op Ms w mask skip = Err.
Proof.
  intros Ms' Hlen Hbad. unfold khatri_rao_e. fold Ms'. destruct Ms' as [|M0 [|M1 rest]]; cbn [length] in Hlen; try lia.
  destruct (kr_valid (M0 :: M1 :: rest)); [|reflexivity]. cbn [hd] in Hbad.
  destruct Hbad as [[w0 [-> Hw]]|[m0 [-> Hm]]].
  - cbn [einsum_weights]. destruct Hw as [Hn|[H1 H2]].
    + apply Nat.eqb_neq in Hn. now rewrite Hn.
    + destruct (ndim w0 =? 1); [|reflexivity]. apply Nat.eqb_neq in H1, H2. now rewrite H1, H2.
  - destruct (einsum_weights Op (ncols M0) w) as [w'|]; [|reflexivity]. cbn [rbind].
    destruct (nat_list_eq (shape m0) (map nrows (M0 :: M1 :: rest))) eqn:E; [|reflexivity].
    exfalso. apply Hm. revert E. generalize (shape m0) (map nrows (M0 :: M1 :: rest)).
    induction l as [|x l IH]; intros [|y l'] E; cbn in E; try discriminate; [reflexivity|].
    apply andb_true_iff in E. destruct E as [E1 E2]. apply Nat.eqb_eq in E1. f_equal; auto.
Qed.

(* default core MTTKRP and the memory-efficient variant reject weights of a wrong length *)
Theorem mttkrp_rejects_weights (T : tensor F) (w : tensor F) (fs : list (tensor F)) (k R : nat) :
  remove_nth k fs <> [] -> mats R (remove_nth k fs) -> bad_size w R -> mttkrp Op T (Some w) fs k = Err.
Proof.
  intros Hne Hm Hw. unfold mttkrp. rewrite (khatri_rao_rejects_weights fs w None (Some k) R Hne Hm Hw). reflexivity.
Qed.

End P.

Example rejection_nonvacuous :
  let A : tensor Z := mk [2; 2] [1; 2; 3; 4]%Z in let B : tensor Z := mk [3; 2] [1; 2; 3; 4; 5; 6]%Z in
  let w3 : tensor Z := mk [3] [1; 2; 3]%Z in let m2 : tensor Z := mk [2] [1; 1]%Z in
  skipl None [A; B] <> [] /\ mats 2 (skipl None [A; B]) /\ bad_size w3 2 /\ bad_size m2 (prod (map nrows (skipl None [A; B]))) /\
  2 <= length (skipl None [A; B]) /\ shape m2 <> map nrows (skipl None [A; B]).
Proof. cbv zeta. split; [discriminate|]. split; [repeat constructor|]. repeat split; vm_compute; try lia; discriminate. Qed.
