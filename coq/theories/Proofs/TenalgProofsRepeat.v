(* multi_mode_dot with the SAME mode named twice (matrix operands).  Core backend: the successive mode products in listing order
   (the stable sort keeps the listing order of equal modes), i.e. the textbook T x_m A x_m B.  Einsum backend AS IT IS: every
   operand is contracted with the tensor's ORIGINAL label of the mode (tensor_modes[mode]) and the output label of the position is
   overwritten, so the first operand's new label is summed out: a different tensor, or a size error when the successive product is
   well-formed with a changed mode size.  Refuted by computed witnesses. *)
From Coq Require Import List Arith ZArith Lia Bool.
From TLV Require Import Base.Shape Base.PyList Base.Tensor Base.BigSum Model.Base Model.Tenalg.
Import ListNotations.

Section P.
Context {F : Type} (Op : rops F).
(* core: two operands on one mode = the two mode products one after the other, in listing order *)
Theorem multi_mode_dot_core_repeated_mode (T A B : tensor F) (m : nat) (tr : bool) :
  ndim A <> 1 ->
  multi_mode_dot Op T [A; B] (Some [m; m]) None tr =
  rbind (mode_dot Op T (if tr then conj_t Op (transpose_rev Op A) else A) m false)
        (fun R => mode_dot Op R (if tr then conj_t Op (transpose_rev Op B) else B) m false).
Proof.
  intros HA. unfold multi_mode_dot, zip3, sort_by_mode. cbn [length seq combine fold_right insert_sorted t_mode fst snd].
  rewrite Nat.leb_refl. cbn [mmd_loop is_skip]. rewrite Nat.sub_0_r.
  destruct (mode_dot Op T (if tr then conj_t Op (transpose_rev Op A) else A) m false) as [R|]; cbn [rbind]; [|reflexivity].
  apply Nat.eqb_neq in HA. rewrite HA. rewrite Nat.sub_0_r.
  destruct (mode_dot Op R (if tr then conj_t Op (transpose_rev Op B) else B) m false); reflexivity.
Qed.
End P.

(* T, A, B all 2 x 2, both operands on mode 1: the successive product (core) is [[-1,10],[-1,22]], the einsum backend returns
   [[-5,8],[-9,18]]; with A 3 x 2 and B 1 x 3 (a well-formed successive product) the einsum backend raises *)
Theorem multi_mode_dot_einsum_repeated_modes_refuted :
  exists (T A B A3 B3 Rc Re R3 : tensor Z),
    multi_mode_dot ZR T [A; B] (Some [1; 1]) None false = Ok Rc /\
    rbind (mode_dot ZR T A 1 false) (fun R => mode_dot ZR R B 1 false) = Ok Rc /\
    multi_mode_dot_e ZR T [A; B] (Some [1; 1]) None false = Ok Re /\ Rc <> Re /\
    multi_mode_dot ZR T [A3; B3] (Some [1; 1]) None false = Ok R3 /\
    multi_mode_dot_e ZR T [A3; B3] (Some [1; 1]) None false = Err.
Proof.
  exists (mk [2; 2] [1; 2; 3; 4]%Z), (mk [2; 2] [1; 1; 0; 2]%Z), (mk [2; 2] [1; -1; 2; 1]%Z),
         (mk [3; 2] [1; 0; 0; 1; 1; 1]%Z), (mk [1; 3] [1; 2; 3]%Z),
         (mk [2; 2] [-1; 10; -1; 22]%Z), (mk [2; 2] [-5; 8; -9; 18]%Z), (mk [2; 1] [14; 32]%Z).
  repeat split; try (vm_compute; reflexivity). discriminate.
Qed.

(* a size-1 mismatch (malformed request): the core backend and mode_dot of the einsum backend reject, einsum multi_mode_dot AS IT
   IS hands the operands to np.einsum, which broadcasts the size-1 axis (Model/Tenalg.v einsum_np) and returns a tensor *)
Theorem multi_mode_dot_einsum_size1_broadcast_refuted :
  exists (T M R : tensor Z), shape T = [2; 2] /\ shape M = [2; 1] /\
    multi_mode_dot ZR T [M] (Some [1]) None false = Err /\ mode_dot_e ZR T M 1 false = Err /\
    multi_mode_dot_e ZR T [M] (Some [1]) None false = Ok R.
Proof.
  exists (mk [2; 2] [1; 2; 3; 4]%Z), (mk [2; 1] [1; 2]%Z), (mk [2; 2] [3; 6; 7; 14]%Z).
  repeat split; vm_compute; reflexivity.
Qed.
