(* multi_mode_dot with the SAME mode named twice (matrix operands).  Core backend: the successive mode products in listing order
   (the stable sort keeps the listing order of equal modes), i.e. the textbook T x_m A x_m B.  Einsum backend: the same since /repo
   a6246d0 (TenalgProofsAnyModes.v proves core = einsum for arbitrary mode lists); BEFORE, every operand was contracted with the
   tensor's ORIGINAL label of the mode and the output label of the position overwritten, so the first operand's new label was
   summed out: a different tensor, or a rejection of a well-formed successive product - kept as a labelled regression Example. *)
From Coq Require Import List Arith ZArith Lia Bool.
From TLV Require Import Base.Shape Base.PyList Base.Tensor Base.BigSum Model.Base Model.Tenalg.
Import ListNotations.

Section P.
Context {F : Type} (Op : rops F).
(* core: two operands on one mode = the two mode products one after the other, in listing order *)
Theorem multi_mode_dot_core_repeated_mode (T A B : tensor F) (m : nat) (tr : bool) :
  ndim A <> 1 ->
  multi_mode_dot Op T [A; B] (Some [m; m]) None tr =
  rbind (mode_dot Op T (if tr then conj_t Op (transpose_rev Op A) else A) m false)
        (fun R => mode_dot Op R (if tr then conj_t Op (transpose_rev Op B) else B) m false).
Proof.
  intros HA. unfold multi_mode_dot, zip3, sort_by_mode. cbn [length seq combine fold_right insert_sorted t_mode fst snd].
  rewrite Nat.leb_refl. cbn [mmd_loop is_skip]. rewrite Nat.sub_0_r.
  destruct (mode_dot Op T (if tr then conj_t Op (transpose_rev Op A) else A) m false) as [R|]; cbn [rbind]; [|reflexivity].
  apply Nat.eqb_neq in HA. rewrite HA. rewrite Nat.sub_0_r.
  destruct (mode_dot Op R (if tr then conj_t Op (transpose_rev Op B) else B) m false); reflexivity.
Qed.
End P.

(* regression (defect repaired by /repo a6246d0): T, A, B all 2 x 2, both operands on mode 1: the successive product is
   [[-1,10],[-1,22]], the old einsum rule gave [[-5,8],[-9,18]]; with A 3 x 2 and B 1 x 3 (a well-formed successive product,
   [[14],[32]]) the old rule rejected *)
Example multi_mode_dot_einsum_repeated_modes_before_a6246d0 :
  let T : tensor Z := mk [2; 2] [1; 2; 3; 4]%Z in
  let A : tensor Z := mk [2; 2] [1; 1; 0; 2]%Z in let B : tensor Z := mk [2; 2] [1; -1; 2; 1]%Z in
  let A3 : tensor Z := mk [3; 2] [1; 0; 0; 1; 1; 1]%Z in let B3 : tensor Z := mk [1; 3] [1; 2; 3]%Z in
  multi_mode_dot ZR T [A; B] (Some [1; 1]) None false = Ok (mk [2; 2] [-1; 10; -1; 22]%Z) /\
  multi_mode_dot_e_before_a6246d0 ZR T [A; B] (Some [1; 1]) None false = Ok (mk [2; 2] [-5; 8; -9; 18]%Z) /\
  multi_mode_dot_e ZR T [A; B] (Some [1; 1]) None false = Ok (mk [2; 2] [-1; 10; -1; 22]%Z) /\
  multi_mode_dot ZR T [A3; B3] (Some [1; 1]) None false = Ok (mk [2; 1] [14; 32]%Z) /\
  multi_mode_dot_e_before_a6246d0 ZR T [A3; B3] (Some [1; 1]) None false = Err /\
  multi_mode_dot_e ZR T [A3; B3] (Some [1; 1]) None false = Ok (mk [2; 1] [14; 32]%Z).
Proof. cbv zeta. repeat split; vm_compute; reflexivity. Qed.

(* a size-1 mismatch (malformed request): since /repo 8b25fc6 the einsum multi_mode_dot checks every operand against its mode and
   rejects, like the core backend and mode_dot of both backends; before, np.einsum broadcast the size-1 axis (einsum_np) *)
Example multi_mode_dot_einsum_size1_before_8b25fc6 :
  let T : tensor Z := mk [2; 2] [1; 2; 3; 4]%Z in let M : tensor Z := mk [2; 1] [1; 2]%Z in
  multi_mode_dot ZR T [M] (Some [1]) None false = Err /\ mode_dot_e ZR T M 1 false = Err /\
  multi_mode_dot_e_before_8b25fc6 ZR T [M] (Some [1]) None false = Ok (mk [2; 2] [3; 6; 7; 14]%Z) /\
  multi_mode_dot_e ZR T [M] (Some [1]) None false = Err.
Proof. cbv zeta. repeat split; vm_compute; reflexivity. Qed.
