(* multi_mode_dot with the SAME mode named twice (matrix operands).  Core backend: the successive mode products in listing order
   (the stable sort keeps the listing order of equal modes), i.e. the textbook T x_m A x_m B.  Einsum backend AS IT IS: every
   operand is contracted with the tensor's ORIGINAL label of the mode (tensor_modes[mode]) and the output label of the position is
   overwritten, so the first operand's new label is summed out: a different tensor, or a size error when the successive product is
   well-formed with a changed mode size.  Refuted by computed witnesses. *)
From Coq Require Import List Arith ZArith Lia Bool.
From TLV Require Import Base.Shape Base.PyList Base.Tensor Base.BigSum Model.Base Model.Tenalg.
Import ListNotations.

Section P.
Context {F : Type} (Op : rops F).
(* core: two operands on one mode = the two mode products one after the other, in listing order *)
Theorem multi_mode_dot_core_repeated_mode (T A B : tensor F) (m : nat) (tr : bool) :
  ndim A <> 1 ->
  multi_mode_dot Op T [A; B] (Some [m; m]) None tr =
  rbind (mode_dot Op T (if tr then conj_t Op (transpose_rev Op A) else A) m false)
        (fun R => mode_dot Op R (if tr then conj_t Op (transpose_rev Op B) else B) m false).
Proof.
  intros HA. unfold multi_mode_dot, zip3, sort_by_mode. cbn [length seq combine fold_right insert_sorted t_mode fst snd].
  rewrite Nat.leb_refl. cbn [mmd_loop is_skip]. rewrite Nat.sub_0_r.
  destruct (mode_dot Op T (if tr then conj_t Op (transpose_rev Op A) else A) m false) as [R|]; cbn [rbind]; [|reflexivity].
  apply Nat.eqb_neq in HA. rewrite HA. rewrite Nat.sub_0_r.
  destruct (mode_dot Op R (if tr then conj_t Op (transpose_rev Op B) else B) m false); reflexivity.
Qed.
End P.

(* T, A, B all 2 x 2, both operands on mode 1: the successive product (core) is [[-1,10],[-1,22]], the einsum backend returns
   [[-5,8],[-9,18]]; with A 3 x 2 and B 1 x 3 (a well-formed successive product) the einsum backend raises *)
Theorem multi_mode_dot_einsum_repeated_modes_refuted :
  exists (T A B A3 B3 Rc Re R3 : tensor Z),
    multi_mode_dot ZR T [A; B] (Some [1; 1]) None false = Ok Rc /\
    rbind (mode_dot ZR T A 1 false) (fun R => mode_dot ZR R B 1 false) = Ok Rc /\
    multi_mode_dot_e ZR T [A; B] (Some [1; 1]) None false = Ok Re /\ Rc <> Re /\
    multi_mode_dot ZR T [A3; B3] (Some [1; 1]) None false = Ok R3 /\
    multi_mode_dot_e ZR T [A3; B3] (Some [1; 1]) None false = Err.
Proof.
  exists (mk [2; 2] [1; 2; 3; 4]%Z), (mk [2; 2] [1; 1; 0; 2]%Z), (mk [2; 2] [1; -1; 2; 1]%Z),
         (mk [3; 2] [1; 0; 0; 1; 1; 1]%Z), (mk [1; 3] [1; 2; 3]%Z),
         (mk [2; 2] [-1; 10; -1; 22]%Z), (mk [2; 2] [-5; 8; -9; 18]%Z), (mk [2; 1] [14; 32]%Z).
  repeat split; try (vm_compute; reflexivity). discriminate.
Qed.

(* a size-1 mismatch (malformed request): since /repo 8b25fc6 the einsum multi_mode_dot checks every operand against its mode and
   rejects, like the core backend and mode_dot of both backends; before, np.einsum broadcast the size-1 axis (einsum_np) *)
Section R.
Context {F : Type} (Op : rops F).
Theorem multi_mode_dot_e_rejects_misfit (T : tensor F) (Ms : list (tensor F)) (modes : option (list nat)) (skip : option nat) (tr : bool) :
  (exists x, In x (sort_by_mode (zip3 Ms modes)) /\ is_skip skip (snd x) = false /\ fit_one (shape T) tr (fst (fst x)) (t_mode x) = false) ->
  multi_mode_dot_e Op T Ms modes skip tr = Err.
Proof.
  intros [x [Hx [Hs Hf]]]. unfold multi_mode_dot_e. cbv zeta.
  assert (E : mmd_e_fits (shape T) tr skip (sort_by_mode (zip3 Ms modes)) = false).
  { unfold mmd_e_fits. apply Bool.not_true_is_false. intros H. rewrite forallb_forall in H. specialize (H x Hx). now rewrite Hs, Hf in H. }
  now rewrite E.
Qed.
End R.

Example multi_mode_dot_einsum_size1_before_8b25fc6 :
  let T : tensor Z := mk [2; 2] [1; 2; 3; 4]%Z in let M : tensor Z := mk [2; 1] [1; 2]%Z in
  multi_mode_dot ZR T [M] (Some [1]) None false = Err /\ mode_dot_e ZR T M 1 false = Err /\
  multi_mode_dot_e_before_8b25fc6 ZR T [M] (Some [1]) None false = Ok (mk [2; 2] [3; 6; 7; 14]%Z) /\
  multi_mode_dot_e ZR T [M] (Some [1]) None false = Err.
Proof. cbv zeta. repeat split; vm_compute; reflexivity. Qed.
