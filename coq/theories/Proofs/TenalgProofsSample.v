(* decomposition/_cp.py: sample_khatri_rao.  The sampled rows are the rows of the full Khatri-Rao product
   at the returned row indices; the returned indices are the row-major indices of the sampled tuples. *)
From Coq Require Import List Arith ZArith Lia Ring Bool.
From TLV Require Import Base.Shape Base.PyList Base.Tensor Base.BigSum Model.Base Proofs.BaseProofs Model.Tenalg
  Proofs.TenalgProofs Proofs.TenalgProofsKR.
Import ListNotations.

(* the tuple sampled at position s *)
Definition tuple_at (inds : list (list nat)) (s : nat) : list nat := map (fun l => nth s l 0) inds.

(* ---------------------------------------------------------------- row index recurrence idx*size + i (no ring needed) *)
Definition idx_step (acc : list nat) (p : nat * list nat) : list nat :=
  map (fun q => fst q * fst p + snd q) (combine acc (snd p)).

Lemma idx_step_length n acc p : length acc = n -> length (snd p) = n -> length (idx_step acc p) = n.
Proof. intros H1 H2. unfold idx_step. rewrite map_length, combine_length. lia. Qed.
Lemma idx_step_nth n acc p s : length acc = n -> length (snd p) = n -> s < n ->
  nth s (idx_step acc p) 0 = nth s acc 0 * fst p + nth s (snd p) 0.
Proof.
  intros H1 H2 Hs. unfold idx_step.
  rewrite (nth_map' _ _ _ (0, 0)) by (rewrite combine_length; lia).
  rewrite combine_nth by lia. reflexivity.
Qed.

Lemma idx_fold_spec n s : s < n -> forall sizes inds acc,
  length sizes = length inds -> Forall (fun l => length l = n) inds -> length acc = n ->
  let r := fold_left idx_step (combine sizes inds) acc in
  length r = n /\ nth s r 0 = nth s acc 0 * prod sizes + ravel sizes (tuple_at inds s).
Proof.
  intros Hs. induction sizes as [|sz sizes IH]; intros [|l inds] acc Hl Hf Ha; simpl in Hl; try discriminate.
  - cbn. split; [exact Ha | lia].
  - inversion Hf as [|? ? Hl0 Hf']; subst. injection Hl as Hl.
    cbn [combine fold_left tuple_at map ravel].
    destruct (IH inds (idx_step acc (sz, l)) Hl Hf') as [L N].
    { apply idx_step_length; auto. }
    cbv zeta in L, N. split; [exact L|]. rewrite N.
    rewrite (idx_step_nth (length acc)) by auto. cbn [fst snd]. fold (tuple_at inds s).
    change (prod (sz :: sizes)) with (sz * prod sizes). lia.
Qed.

Theorem sample_kr_indices_spec {F} (Ms : list (tensor F)) (skip : option nat) (inds : list (list nat)) (n s : nat) :
  let Ms' := skipl skip Ms in
  length inds = length Ms' -> Forall (fun l => length l = n) inds -> s < n ->
  nth s (sample_kr_indices Ms skip inds n) 0 = ravel (map nrows Ms') (tuple_at inds s).
Proof.
  intros Ms' Hl Hf Hs. unfold sample_kr_indices. fold Ms'.
  change (fun (acc : list nat) (p : nat * list nat) => map (fun q : nat * nat => fst q * fst p + snd q) (combine acc (snd p)))
    with idx_step.
  destruct (idx_fold_spec n s Hs (map nrows Ms') inds (repeat 0 n)) as [_ N].
  - now rewrite map_length.
  - exact Hf.
  - apply repeat_length.
  - cbv zeta in N. rewrite N. rewrite nth_repeat. lia.
Qed.

Section P.
Context {F : Type} (Op : rops F).
Hypothesis Rth : ring_theory (r0 Op) (r1 Op) (radd Op) (rmul Op) (rsub Op) (ropp Op) (@eq F).
Add Ring Fr5 : Rth.
Notation d := (r0 Op).
Infix "*r" := (rmul Op) (at level 40, left associativity).

Definition row_step (n R : nat) (acc : tensor F) (p : list nat * tensor F) : tensor F :=
  tabulate [n; R] (fun idx => get d acc idx *r get d (snd p) [nth (nth 0 idx 0) (fst p) 0; nth 1 idx 0]).

Lemma rows_fold_spec n R s r : s < n -> r < R -> forall (Ms : list (tensor F)) inds acc,
  length inds = length Ms -> shape acc = [n; R] ->
  get d (fold_left (row_step n R) (combine inds Ms) acc) [s; r]
  = get d acc [s; r] *r kr_entry Op Ms (tuple_at inds s) r /\
  shape (fold_left (row_step n R) (combine inds Ms) acc) = [n; R].
Proof.
  intros Hs Hr. induction Ms as [|M Ms IH]; intros [|l inds] acc Hl Ha; simpl in Hl; try discriminate.
  - cbn [combine fold_left tuple_at map]. rewrite kr_entry_nil. split; [ring | exact Ha].
  - injection Hl as Hl. cbn [combine fold_left tuple_at map].
    destruct (IH inds (row_step n R acc (l, M)) Hl eq_refl) as [G S]. split; [|exact S].
    rewrite G. unfold row_step. rewrite get_tabulate by (simpl; auto). cbn [fst snd nth].
    fold (tuple_at inds s). rewrite kr_entry_cons. ring.
Qed.

(* sampled_kr[s, r] = prod_k M_k[inds_k[s], r] *)
Theorem sample_kr_rows_spec (Ms : list (tensor F)) (skip : option nat) (inds : list (list nat)) (n R s r : nat) :
  let Ms' := skipl skip Ms in
  Ms' <> [] -> mats R Ms' -> length inds = length Ms' -> s < n -> r < R ->
  shape (sample_kr_rows Op Ms skip inds n) = [n; R] /\
  get d (sample_kr_rows Op Ms skip inds n) [s; r] = kr_entry Op Ms' (tuple_at inds s) r.
Proof.
  intros Ms' Hne Hm Hl Hs Hr. unfold sample_kr_rows. fold Ms'.
  assert (HR : ncols (hd (mk [] []) Ms') = R).
  { destruct Ms' as [|M0 rest]; [congruence|]. inversion Hm as [|? ? [_ Hs0] _]; subst. cbn [hd]. unfold ncols. now rewrite Hs0. }
  rewrite HR.
  change (fun (acc : tensor F) (p : list nat * tensor F) =>
            tabulate [n; R] (fun idx => get d acc idx *r get d (snd p) [nth (nth 0 idx 0) (fst p) 0; nth 1 idx 0]))
    with (row_step n R).
  destruct (rows_fold_spec n R s r Hs Hr Ms' inds (ones Op [n; R]) Hl eq_refl) as [G S].
  split; [exact S|]. rewrite G. unfold ones. rewrite get_tabulate by (simpl; auto). ring.
Qed.

(* the sampled row s is row `indices_kr[s]` of the full Khatri-Rao product of the non-skipped matrices *)
Theorem sample_khatri_rao_spec (Ms : list (tensor F)) (skip : option nat) (inds : list (list nat)) (n R : nat) :
  let Ms' := skipl skip Ms in
  Ms' <> [] -> mats R Ms' -> length inds = length Ms' -> Forall (fun l => length l = n) inds ->
  (forall s, s < n -> inb (map nrows Ms') (tuple_at inds s)) ->
  exists K, khatri_rao Op Ms None None skip = Ok K /\
    forall s r, s < n -> r < R ->
      nth s (sample_kr_indices Ms skip inds n) 0 < nrows K /\
      get d (sample_kr_rows Op Ms skip inds n) [s; r] = get d K [nth s (sample_kr_indices Ms skip inds n) 0; r].
Proof.
  intros Ms' Hne Hm Hl Hf Hin.
  destruct (khatri_rao_spec Op Rth Ms None None skip R Hne Hm ltac:(intros w0 E; discriminate E) ltac:(intros m0 E; discriminate E)) as [K [HK [WK [HsK HgK]]]]. fold Ms' in HsK, HgK.
  exists K. split; [exact HK|]. intros s r Hs Hr.
  rewrite (sample_kr_indices_spec Ms skip inds n s Hl Hf Hs). fold Ms'.
  split.
  - unfold nrows. rewrite HsK. cbn [nth]. apply ravel_lt. now apply Hin.
  - destruct (sample_kr_rows_spec Ms skip inds n R s r Hne Hm Hl Hs Hr) as [_ G]. rewrite G.
    rewrite HgK by auto. cbn [wv maskv]. fold Ms'. ring.
Qed.

End P.
