(* The stable insertion sorts of Model/Tenalg.v (sorted(zip(...), key=mode) in multi_mode_dot, the batch_order
   sort of the repaired core tensordot) are canonical on lists with distinct keys; hence
   - core tensordot does not depend on the order in which the batched mode pairs are listed,
   - multi_mode_dot (both backends, skip=None) does not depend on the order in which (operand, mode) pairs are listed. *)
From Coq Require Import List Arith ZArith Lia Bool Permutation.
From TLV Require Import Base.Shape Base.PyList Base.Tensor Base.BigSum Model.Base Model.Tenalg.
Import ListNotations.

Section G.
Context {A : Type} (key : A -> nat).
Fixpoint gins (x : A) (l : list A) : list A :=
  match l with [] => [x] | y :: r => if key x <=? key y then x :: y :: r else y :: gins x r end.
Definition gsort (l : list A) : list A := fold_right gins [] l.

Lemma gins_comm x y : key x <> key y -> forall l, gins x (gins y l) = gins y (gins x l).
Proof.
  intros Hne. induction l as [|z r IH]; cbn [gins].
  - destruct (Nat.leb_spec (key x) (key y)), (Nat.leb_spec (key y) (key x)); try reflexivity; lia.
  - destruct (Nat.leb_spec (key y) (key z)) as [Hyz|Hyz], (Nat.leb_spec (key x) (key z)) as [Hxz|Hxz]; cbn [gins].
    + destruct (Nat.leb_spec (key x) (key y)), (Nat.leb_spec (key y) (key x)); try lia.
      * apply Nat.leb_le in Hyz. rewrite Hyz. reflexivity.
      * apply Nat.leb_le in Hxz. rewrite Hxz. reflexivity.
    + destruct (Nat.leb_spec (key x) (key y)); [lia|]. destruct (Nat.leb_spec (key x) (key z)); [lia|].
      destruct (Nat.leb_spec (key y) (key z)); [reflexivity | lia].
    + destruct (Nat.leb_spec (key y) (key x)); [lia|]. destruct (Nat.leb_spec (key y) (key z)); [lia|].
      destruct (Nat.leb_spec (key x) (key z)); [reflexivity | lia].
    + destruct (Nat.leb_spec (key x) (key z)); [lia|]. destruct (Nat.leb_spec (key y) (key z)); [lia|].
      now rewrite IH.
Qed.

Lemma gsort_perm l l' : Permutation l l' -> NoDup (map key l) -> gsort l = gsort l'.
Proof.
  induction 1 as [| x l l' HP IH | x y l | l l' l'' HP1 IH1 HP2 IH2]; intros Hnd.
  - reflexivity.
  - cbn [gsort fold_right map] in *. inversion Hnd; subst. f_equal. now apply IH.
  - cbn [gsort fold_right map] in *. inversion Hnd as [|? ? Hnin _]; subst.
    apply gins_comm. intros E. apply Hnin. left. now symmetry.
  - rewrite IH1 by assumption. apply IH2.
    eapply Permutation_NoDup; [apply Permutation_map; exact HP1 | exact Hnd].
Qed.

End G.

(* sorting commutes with a key-preserving projection *)
Lemma gins_map {A B} (ka : A -> nat) (kb : B -> nat) (g : A -> B) : (forall a, kb (g a) = ka a) ->
  forall x l, map g (gins ka x l) = gins kb (g x) (map g l).
Proof.
  intros Hk x. induction l as [|y r IH]; cbn [gins map]; [reflexivity|].
  rewrite !Hk. destruct (ka x <=? ka y); cbn [map]; [reflexivity | now rewrite IH].
Qed.
Lemma gsort_map {A B} (ka : A -> nat) (kb : B -> nat) (g : A -> B) : (forall a, kb (g a) = ka a) ->
  forall l, map g (gsort ka l) = gsort kb (map g l).
Proof.
  intros Hk. induction l as [|x l IH]; cbn [gsort fold_right map]; [reflexivity|].
  fold (gsort ka l). fold (gsort kb (map g l)). rewrite (gins_map ka kb g Hk), IH. reflexivity.
Qed.

Lemma combine_fst_snd {X Y} (l : list (X * Y)) : combine (map fst l) (map snd l) = l.
Proof. induction l as [|[a b] l IH]; cbn; [reflexivity | now rewrite IH]. Qed.

Lemma forallb_perm {X} (P : X -> bool) l l' : Permutation l l' -> forallb P l = forallb P l'.
Proof.
  induction 1; cbn; auto.
  - now rewrite IHPermutation.
  - destruct (P x), (P y); reflexivity.
  - congruence.
Qed.

Lemma insert_pair_gins x l : insert_pair x l = gins fst x l.
Proof. induction l as [|y r IH]; cbn; [reflexivity | now rewrite IH]. Qed.
Lemma sort_pairs_gsort l : sort_pairs l = gsort fst l.
Proof. induction l as [|x l IH]; cbn; [reflexivity|]. fold (sort_pairs l). rewrite IH. apply insert_pair_gins. Qed.

Section P.
Context {F : Type} (Op : rops F).

(* batched tensordot: any listing of the same (batch mode of tensor1, batch mode of tensor2) pairs gives the same tensor *)
Theorem tensordot_batch_order (A B : tensor F) (m1 m2 : list nat) (l l' : list (nat * nat)) :
  Permutation l l' -> NoDup (map fst l) ->
  tensordot Op A B m1 m2 (map fst l) (map snd l) = tensordot Op A B m1 m2 (map fst l') (map snd l').
Proof.
  intros HP Hnd. unfold tensordot. rewrite !combine_fst_snd.
  rewrite !sort_pairs_gsort. rewrite (gsort_perm fst l l' HP Hnd).
  assert (Hv : validate_modes (shape A) (shape B) (map fst l) (map snd l)
             = validate_modes (shape A) (shape B) (map fst l') (map snd l')).
  { unfold validate_modes. rewrite !combine_fst_snd, !map_length, !Nat.eqb_refl. cbn [andb]. now apply forallb_perm. }
  rewrite Hv. reflexivity.
Qed.

Lemma insert_sorted_gins (x : @triple F) l : insert_sorted x l = gins (@t_mode F) x l.
Proof. induction l as [|y r IH]; cbn; [reflexivity | now rewrite IH]. Qed.
Lemma sort_by_mode_gsort (l : list (@triple F)) : sort_by_mode l = gsort (@t_mode F) l.
Proof. induction l as [|x l IH]; cbn; [reflexivity|]. fold (sort_by_mode l). rewrite IH. apply insert_sorted_gins. Qed.

(* without skip the loops only look at (operand, mode) *)
Lemma mmd_loop_noskip tr : forall (l l' : list (@triple F)) dec acc, map fst l = map fst l' ->
  mmd_loop Op l None tr dec acc = mmd_loop Op l' None tr dec acc.
Proof.
  induction l as [|[[M m] i] l IH]; intros [|[[M' m'] i'] l'] dec acc E; cbn [map fst] in E; try discriminate; [reflexivity|].
  injection E as E1 E2 E3. subst. cbn [mmd_loop is_skip].
  destruct (mode_dot Op acc (if tr then conj_t Op (transpose_rev Op M') else M') (m' - dec) false); cbn [rbind]; [|reflexivity].
  now apply IH.
Qed.
Lemma mmd_e_loop_noskip tr order : forall (l l' : list (@triple F)) st, map fst l = map fst l' ->
  mmd_e_loop Op l None tr order st = mmd_e_loop Op l' None tr order st.
Proof.
  induction l as [|[[M m] i] l IH]; intros [|[[M' m'] i'] l'] st E; cbn [map fst] in E; try discriminate; [reflexivity|].
  injection E as E1 E2 E3. subst. cbn [mmd_e_loop is_skip]. cbv zeta.
  destruct (negb (m' - s_dec st <? length (s_out st))); [reflexivity|].
  destruct (ndim M') as [|[|[|k]]]; try reflexivity; now apply IH.
Qed.

Lemma map_fst_zip3 (ops : list (tensor F * nat)) : map fst (zip3 (map fst ops) (Some (map snd ops))) = ops.
Proof.
  unfold zip3. rewrite combine_fst_snd, map_length.
  assert (H : forall (X Y : Type) (a : list X) (b : list Y), length a = length b -> map fst (combine a b) = a).
  { induction a; intros [|y b] Hl; cbn in *; try discriminate; [reflexivity|]. f_equal. apply IHa. lia. }
  apply H. now rewrite seq_length.
Qed.

Lemma sorted_ops (ops ops' : list (tensor F * nat)) : Permutation ops ops' -> NoDup (map snd ops) ->
  map fst (sort_by_mode (zip3 (map fst ops) (Some (map snd ops)))) =
  map fst (sort_by_mode (zip3 (map fst ops') (Some (map snd ops')))).
Proof.
  intros HP Hnd. rewrite !sort_by_mode_gsort.
  rewrite !(gsort_map (@t_mode F) snd fst) by reflexivity. rewrite !map_fst_zip3.
  now apply gsort_perm.
Qed.

Lemma mmd_e_fits_noskip sT tr : forall (l l' : list (@triple F)), map fst l = map fst l' ->
  mmd_e_fits sT tr None l = mmd_e_fits sT tr None l'.
Proof.
  induction l as [|[[M m] i] l IH]; intros [|[[M' m'] i'] l'] E; cbn [map fst] in E; try discriminate; [reflexivity|].
  injection E as E1 E2 E3. subst. cbn [mmd_e_fits forallb is_skip orb t_mode fst snd]. f_equal. now apply IH.
Qed.

(* multi_mode_dot (skip=None): the result does not depend on the order in which the (operand, mode) pairs are listed *)
Theorem multi_mode_dot_order (T : tensor F) (ops ops' : list (tensor F * nat)) (tr : bool) :
  Permutation ops ops' -> NoDup (map snd ops) ->
  multi_mode_dot Op T (map fst ops) (Some (map snd ops)) None tr = multi_mode_dot Op T (map fst ops') (Some (map snd ops')) None tr /\
  multi_mode_dot_e Op T (map fst ops) (Some (map snd ops)) None tr = multi_mode_dot_e Op T (map fst ops') (Some (map snd ops')) None tr.
Proof.
  intros HP Hnd. pose proof (sorted_ops ops ops' HP Hnd) as E. split.
  - unfold multi_mode_dot. now apply mmd_loop_noskip.
  - unfold multi_mode_dot_e. cbv zeta. now rewrite (mmd_e_loop_noskip tr (ndim T) _ _ _ E).
Qed.

End P.
