(* Support for the source tie of the core backend (harness/props/C02_coretie.py): the vocabulary into which the CURRENT Python
   source of core_tenalg's routines is translated on every run (a loop whose body may raise = fold_res of a regenerated step
   function; a list comprehension that drops one index = comp_skip; Python's `x is not None` / `i == skip` on an optional
   index), with the lemmas the generated proofs use.  Universal statements; nothing here is specific to one run. *)
From Coq Require Import List Arith ZArith Lia Bool.
From TLV Require Import Base.Shape Base.PyList Base.Tensor Model.Base Model.Tenalg Proofs.TenalgProofs Proofs.TenalgProofsValidate.
Import ListNotations.

Fixpoint fold_res {S X : Type} (step : S -> X -> res S) (l : list X) (st : S) : res S :=
  match l with [] => Ok st | x :: r => rbind (step st x) (fold_res step r) end.

Definition py_is_not_none {A} (o : option A) : bool := match o with Some _ => true | None => false end.
Definition py_is_none {A} (o : option A) : bool := match o with Some _ => false | None => true end.
Definition py_eq_opt (i : nat) (o : option nat) : bool := match o with Some s => Nat.eqb i s | None => false end.
Definition py_ne_opt (i : nat) (o : option nat) : bool := negb (py_eq_opt i o).
Lemma py_skip_test skip i : py_is_not_none skip && py_eq_opt i skip = is_skip skip i.
Proof. destruct skip; reflexivity. Qed.

(* [l[i] for i in range(len(l)) if i != s] *)
Definition comp_skip {A} (dflt : A) (s : nat) (l : list A) : list A :=
  map (fun i => nth i l dflt) (filter (fun i => negb (Nat.eqb i s)) (seq 0 (length l))).

Lemma map_nth_seq_app {A} (dflt : A) (l : list A) : forall pre,
  map (fun i => nth i (pre ++ l) dflt) (seq (length pre) (length l)) = l.
Proof.
  induction l as [|a l IH]; intros pre; [reflexivity|].
  cbn [length seq map]. rewrite app_nth2 by lia. rewrite Nat.sub_diag. cbn [nth]. f_equal.
  specialize (IH (pre ++ [a])). rewrite app_length, <- app_assoc in IH. cbn in IH.
  rewrite Nat.add_1_r in IH. exact IH.
Qed.
Lemma filter_all {A} (f : A -> bool) l : (forall x, In x l -> f x = true) -> filter f l = l.
Proof.
  induction l as [|a l IH]; intros H; [reflexivity|]. cbn. rewrite (H a (or_introl eq_refl)). f_equal.
  apply IH. intros x Hx. apply H. now right.
Qed.
Lemma comp_skip_gen {A} (dflt : A) (l : list A) : forall pre s,
  map (fun i => nth i (pre ++ l) dflt) (filter (fun i => negb (Nat.eqb i (length pre + s))) (seq (length pre) (length l)))
  = remove_nth s l.
Proof.
  induction l as [|a l IH]; intros pre s; [destruct s; reflexivity|].
  cbn [length seq filter]. destruct s as [|s].
  - rewrite Nat.add_0_r, Nat.eqb_refl. cbn [negb remove_nth].
    rewrite filter_all.
    + pose proof (map_nth_seq_app dflt l (pre ++ [a])) as H. rewrite app_length, <- app_assoc in H. cbn in H.
      rewrite Nat.add_1_r in H. exact H.
    + intros x Hx. apply in_seq in Hx. apply negb_true_iff, Nat.eqb_neq. lia.
  - replace (Nat.eqb (length pre) (length pre + S s)) with false by (symmetry; apply Nat.eqb_neq; lia).
    cbn [negb map remove_nth]. rewrite app_nth2 by lia. rewrite Nat.sub_diag. cbn [nth]. f_equal.
    specialize (IH (pre ++ [a]) s). rewrite app_length, <- app_assoc in IH. cbn in IH.
    rewrite Nat.add_1_r in IH. replace (length pre + S s) with (S (length pre) + s) by lia. exact IH.
Qed.
Lemma comp_skip_remove_nth {A} (dflt : A) s (l : list A) : comp_skip dflt s l = remove_nth s l.
Proof. exact (comp_skip_gen dflt l [] s). Qed.
(* if skip is not None: l = [l[i] for i in range(len(l)) if i != skip] *)
Lemma comp_skip_skipl {A} (dflt : A) skip (l : list A) :
  match skip with Some s => comp_skip dflt s l | None => l end = skipl skip l.
Proof. destruct skip; [apply comp_skip_remove_nth|reflexivity]. Qed.

(* enumerate(l) *)
Definition py_enumerate {A} (l : list A) : list (nat * A) := combine (seq 0 (length l)) l.

(* a loop and the recursive model function it implements: base case and one unrolling suffice *)
Lemma fold_res_sim {S X R} (step : S -> X -> res S) (k : S -> res R) (model : list X -> S -> res R) :
  (forall st, model [] st = k st) ->
  (forall x r st, model (x :: r) st = rbind (step st x) (model r)) ->
  forall l st, rbind (fold_res step l st) k = model l st.
Proof.
  intros Hb Hs. induction l as [|x l IH]; intros st; cbn [fold_res rbind]; [now rewrite Hb|].
  rewrite Hs. destruct (step st x); cbn [rbind]; [apply IH|reflexivity].
Qed.

(* reading a local that the loop may not have bound yet (UnboundLocalError) *)
Definition py_get {A} (o : option A) : res A := match o with Some a => Ok a | None => Err end.

(* for i, x in enumerate(l): (if not i: acc = x  else: acc = f(acc, x)); return acc *)
Lemma fold_first_then {A R} (f : A -> A -> A) (step : option A -> nat * A -> res (option A)) (k : option A -> res R) (k' : A -> res R) :
  (forall st x, step st (0, x) = Ok (Some x)) ->
  (forall a i x, step (Some a) (S i, x) = Ok (Some (f a x))) ->
  (forall o, k o = match o with Some a => k' a | None => Err end) ->
  forall l, rbind (fold_res step (py_enumerate l) None) k = match l with [] => Err | a :: r => k' (fold_left f r a) end.
Proof.
  intros H0 HS Hk l. destruct l as [|a r]; [cbn; now rewrite Hk|].
  unfold py_enumerate. cbn [length seq combine fold_res]. rewrite H0. cbn [rbind].
  assert (G : forall r j acc, fold_res step (combine (seq (S j) (length r)) r) (Some acc) = Ok (Some (fold_left f r acc))).
  { clear - HS. induction r as [|x r IH]; intros j acc; [reflexivity|].
    cbn [length seq combine fold_res fold_left]. rewrite HS. cbn [rbind]. apply IH. }
  rewrite G. cbn [rbind]. now rewrite Hk.
Qed.

Section Prims.
Context {F : Type} (Op : rops F).
(* np.dot of a vector or a matrix with a matrix: the inner dimensions must agree *)
Definition np_dot (A B : tensor F) : res (tensor F) :=
  match shape A with
  | [n] => if n =? nrows B then Ok (vecmat Op A B) else Err
  | [_; c] => if c =? nrows B then Ok (matmul Op A B) else Err
  | _ => Err
  end.
Lemma unfold_shape2 (T U : tensor F) k : unfold (r0 Op) T k = Ok U -> exists c, shape U = [nth k (shape T) 0; c].
Proof.
  unfold unfold, reshape_spec, infer_shape. destruct (k <? ndim T); [|discriminate].
  cbn [count_none filter length known fold_right rbind].
  destruct (Nat.eqb _ 0); [discriminate|]. destruct (Nat.eqb _ 0); [|discriminate].
  cbn. intros H; injection H as <-. eexists; reflexivity.
Qed.

(* Python indexing of a shape with an int that may be negative (IndexError when out of range); np.moveaxis in unfold / fold
   resolves the mode the same way *)
Definition py_nth_z (l : list nat) (z : Z) : res nat :=
  match py_index (length l) z with Some k => Ok (nth k l 0) | None => Err end.
Definition py_set_z (l : list nat) (z : Z) (v : nat) : res (list nat) :=
  match py_index (length l) z with Some k => Ok (set_nth k v l) | None => Err end.
Definition py_pop_z (l : list nat) (z : Z) : res (list nat) :=
  match py_index (length l) z with Some k => Ok (remove_nth k l) | None => Err end.
Definition unfold_z (T : tensor F) (z : Z) : res (tensor F) :=
  match py_index (ndim T) z with Some k => unfold (r0 Op) T k | None => Err end.
Definition fold_z (u : tensor F) (z : Z) (s : list nat) : res (tensor F) :=
  match py_index (length s) z with Some k => fold (r0 Op) u k s | None => Err end.
Lemma py_nth_z_some l z k : py_index (length l) z = Some k -> py_nth_z l z = Ok (nth k l 0).
Proof. intros H. unfold py_nth_z. now rewrite H. Qed.
Lemma py_nth_z_none l z : py_index (length l) z = None -> py_nth_z l z = Err.
Proof. intros H. unfold py_nth_z. now rewrite H. Qed.
Lemma py_nth_z_0 a l : py_nth_z (a :: l) 0%Z = Ok a.
Proof. unfold py_nth_z. change 0%Z with (Z.of_nat 0). rewrite (py_index_nat (length (a :: l)) 0) by (cbn; lia). reflexivity. Qed.
Lemma py_nth_z_1 a b l : py_nth_z (a :: b :: l) 1%Z = Ok b.
Proof. unfold py_nth_z. change 1%Z with (Z.of_nat 1). rewrite (py_index_nat (length (a :: b :: l)) 1) by (cbn; lia). reflexivity. Qed.
Lemma py_nth_z_1_short a : py_nth_z [a] 1%Z = Err.
Proof. reflexivity. Qed.
Lemma py_nth_z_nil z : py_nth_z [] z = Err.
Proof. unfold py_nth_z, py_index. cbn [length]. destruct ((0 <=? z) && (z <? Z.of_nat 0))%Z eqn:E1; [apply andb_true_iff in E1; destruct E1 as [A B]; apply Z.leb_le in A; apply Z.ltb_lt in B; cbn in B; lia|].
  destruct ((z <? 0) && (- Z.of_nat 0 <=? z))%Z eqn:E2; [apply andb_true_iff in E2; destruct E2 as [A B]; apply Z.ltb_lt in A; apply Z.leb_le in B; cbn in B; lia|]. reflexivity. Qed.
Lemma np_dot_mat (M U : tensor F) a b : shape M = [a; b] -> nrows U = b -> np_dot M U = Ok (matmul Op M U).
Proof. intros Hs Hu. unfold np_dot. rewrite Hs, Hu, Nat.eqb_refl. reflexivity. Qed.
Lemma np_dot_vec (v U : tensor F) a : shape v = [a] -> nrows U = a -> np_dot v U = Ok (vecmat Op v U).
Proof. intros Hs Hu. unfold np_dot. rewrite Hs, Hu, Nat.eqb_refl. reflexivity. Qed.
Lemma unfold_nrows (T U : tensor F) k : unfold (r0 Op) T k = Ok U -> nrows U = nth k (shape T) 0.
Proof. intros H. destruct (unfold_shape2 T U k H) as [c E]. unfold nrows. now rewrite E. Qed.
End Prims.

(* ------------------------------------------------------------------ khatri_rao: items, 2-D shapes, the broadcast step, the loops *)
Section KR.
Context {F : Type} (Op : rops F).
(* l[k] for a literal k: IndexError when the list is too short *)
Definition py_item (l : list (tensor F)) (k : nat) : res (tensor F) :=
  match nth_error l k with Some x => Ok x | None => Err end.
(* s1, s2 = T.shape(t): ValueError unless t is 2-D *)
Definition py_shape2 (t : tensor F) : res (nat * nat) := match shape t with [a; b] => Ok (a, b) | _ => Err end.
(* reshape(reshape(A, (s1, 1, s2)) * reshape(B, (1, s3, s4)), (-1, n)) for 2-D A, B with n columns each: the model's kr_step.
   Other column counts are outside the model (NumPy would broadcast a single column or raise): Err - unreachable after the
   validation loop of khatri_rao, as the generated theorem shows. *)
Definition kr_step_n (A B : tensor F) (n : nat) : res (tensor F) :=
  match shape A, shape B with
  | [_; c1], [_; c2] => if (c1 =? n) && (c2 =? n) then Ok (kr_step Op A B) else Err
  | _, _ => Err
  end.
Definition kr_step_chk (A B : tensor F) (n : nat) : res (tensor F) :=
  rbind (py_shape2 A) (fun _ => rbind (py_shape2 B) (fun _ => kr_step_n A B n)).
Lemma kr_step_chk_ok (A B : tensor F) a b n : shape A = [a; n] -> shape B = [b; n] -> kr_step_chk A B n = Ok (kr_step Op A B).
Proof. intros HA HB. unfold kr_step_chk, py_shape2, kr_step_n. rewrite HA, HB. cbn [rbind]. now rewrite Nat.eqb_refl. Qed.
Lemma kr_step_shape (A B : tensor F) a b n : shape A = [a; n] -> shape B = [b; n] -> shape (kr_step Op A B) = [a * b; n].
Proof. intros HA HB. unfold kr_step, nrows, ncols. rewrite HA, HB. reflexivity. Qed.
Lemma apply_w_shape w (M M' : tensor F) : apply_w Op w M = Ok M' -> shape M' = shape M.
Proof.
  unfold apply_w. destruct w as [w|]; [|intros H; injection H as <-; reflexivity].
  destruct (prod (shape w) =? ncols M); [intros H; injection H as <-; reflexivity|].
  destruct (prod (shape w) =? 1); [intros H; injection H as <-; reflexivity|discriminate].
Qed.

(* a loop that only checks *)
Lemma fold_res_check {X} (P : X -> bool) (step : unit -> X -> res unit) :
  (forall x, step tt x = if P x then Ok tt else Err) -> forall l, fold_res step l tt = if forallb P l then Ok tt else Err.
Proof.
  intros H. induction l as [|x l IH]; [reflexivity|]. cbn [fold_res forallb]. rewrite H.
  destruct (P x); cbn [rbind andb]; [exact IH|reflexivity].
Qed.
Lemma forallb_enumerate {X} (Q : X -> bool) (l : list X) : forall k,
  forallb (fun p => Q (snd p)) (combine (seq k (length l)) l) = forallb Q l.
Proof. induction l as [|x l IH]; intros k; [reflexivity|]. cbn [length seq combine forallb snd]. now rewrite IH. Qed.

(* the main loop of khatri_rao: first iteration starts from `first` (matrices[0], weighted), every iteration is one checked kr_step *)
Lemma kr_loop (step : option (tensor F) -> nat * tensor F -> res (option (tensor F))) (first : res (tensor F)) (n : nat) :
  (forall st e, step st (0, e) = rbind first (fun r => rbind (kr_step_chk r e n) (fun r' => Ok (Some r')))) ->
  (forall a i e, step (Some a) (S i, e) = rbind (kr_step_chk a e n) (fun r' => Ok (Some r'))) ->
  forall l, l <> [] -> Forall (fun M => exists b, shape M = [b; n]) l ->
  (forall R0, first = Ok R0 -> exists a, shape R0 = [a; n]) ->
  fold_res step (py_enumerate l) None = rbind first (fun R0 => Ok (Some (fold_left (kr_step Op) l R0))).
Proof.
  intros H0 HS l Hne Hl Hf. destruct l as [|e l]; [congruence|]. clear Hne.
  unfold py_enumerate. cbn [length seq combine fold_res]. rewrite H0.
  destruct first as [R0|]; cbn [rbind]; [|reflexivity].
  destruct (Hf R0 eq_refl) as [a Ha]. inversion Hl as [|? ? [b Hb] Hl']; subst.
  rewrite (kr_step_chk_ok R0 e a b n Ha Hb). cbn [rbind fold_left].
  pose proof (kr_step_shape R0 e a b n Ha Hb) as Hacc. revert Hacc. generalize (kr_step Op R0 e) as acc. generalize (a * b) as r.
  clear - HS Hl'. revert Hl'. generalize 0 as j.
  induction l as [|x l IH]; intros j Hl' r acc Hacc; [reflexivity|].
  cbn [length seq combine fold_res fold_left]. rewrite HS. inversion Hl' as [|? ? [b Hb] Hl'']; subst.
  rewrite (kr_step_chk_ok acc x r b n Hacc Hb). cbn [rbind].
  apply (IH (S j) Hl'' (r * b)). exact (kr_step_shape acc x r b n Hacc Hb).
Qed.
End KR.

(* ------------------------------------------------------------------ memory MTTKRP: list building loop, np.stack *)
Lemma fold_res_append_sim {X A} (f : X -> res A) (step : list A -> X -> res (list A)) :
  (forall acc x, step acc x = rbind (f x) (fun c => Ok (acc ++ [c]))) ->
  forall l acc, fold_res step l acc = rbind (collect (map f l)) (fun cs => Ok (acc ++ cs)).
Proof.
  intros H. induction l as [|x l IH]; intros acc; cbn [fold_res map collect rbind]; [now rewrite app_nil_r|].
  rewrite H. destruct (f x) as [c|]; cbn [rbind]; [|reflexivity]. rewrite IH.
  destruct (collect (map f l)) as [cs|]; cbn [rbind]; [|reflexivity]. now rewrite <- app_assoc.
Qed.
Section Stack.
Context {F : Type} (Op : rops F).
(* np.stack(parts, axis=1) of 1-D arrays of one common length (an empty list or differing shapes raise; other ranks: outside the model) *)
Definition np_stack1 (parts : list (tensor F)) : res (tensor F) :=
  match parts with
  | [] => Err
  | p :: _ => match shape p with
              | [n] => if forallb (fun q => nat_list_eq (shape q) [n]) parts then Ok (stack_cols Op n parts) else Err
              | _ => Err
              end
  end.
Lemma np_stack1_ok (g : nat -> tensor F) n R : 0 < R -> (forall r, shape (g r) = [n]) ->
  np_stack1 (map g (seq 0 R)) = Ok (stack_cols Op n (map g (seq 0 R))).
Proof.
  intros HR Hg. destruct R as [|R]; [lia|]. unfold np_stack1. cbn [seq map]. rewrite Hg.
  assert (E : forallb (fun q : tensor F => nat_list_eq (shape q) [n]) (g 0 :: map g (seq 1 R)) = true).
  { apply forallb_forall. intros q Hq. change (g 0 :: map g (seq 1 R)) with (map g (seq 0 (S R))) in Hq.
    apply in_map_iff in Hq. destruct Hq as [r [<- _]]. rewrite Hg. cbn. now rewrite Nat.eqb_refl. }
  now rewrite E.
Qed.
End Stack.

Lemma rbind_ok_id {A} (x : res A) : rbind x (fun h => Ok h) = x.
Proof. destruct x; reflexivity. Qed.
