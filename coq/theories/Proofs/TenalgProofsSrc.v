(* Support for the source tie of the core backend (harness/props/C02_coretie.py): the vocabulary into which the CURRENT Python
   source of core_tenalg's routines is translated on every run (a loop whose body may raise = fold_res of a regenerated step
   function; a list comprehension that drops one index = comp_skip; Python's `x is not None` / `i == skip` on an optional
   index), with the lemmas the generated proofs use.  Universal statements; nothing here is specific to one run. *)
From Coq Require Import List Arith ZArith Lia Bool.
From TLV Require Import Base.Shape Base.PyList Base.Tensor Model.Base Model.Tenalg Proofs.TenalgProofs Proofs.TenalgProofsValidate.
Import ListNotations.

Fixpoint fold_res {S X : Type} (step : S -> X -> res S) (l : list X) (st : S) : res S :=
  match l with [] => Ok st | x :: r => rbind (step st x) (fold_res step r) end.

Definition py_is_not_none {A} (o : option A) : bool := match o with Some _ => true | None => false end.
Definition py_is_none {A} (o : option A) : bool := match o with Some _ => false | None => true end.
Definition py_eq_opt (i : nat) (o : option nat) : bool := match o with Some s => Nat.eqb i s | None => false end.
Definition py_ne_opt (i : nat) (o : option nat) : bool := negb (py_eq_opt i o).
Lemma py_skip_test skip i : py_is_not_none skip && py_eq_opt i skip = is_skip skip i.
Proof. destruct skip; reflexivity. Qed.

(* [l[i] for i in range(len(l)) if i != s] *)
Definition comp_skip {A} (dflt : A) (s : nat) (l : list A) : list A :=
  map (fun i => nth i l dflt) (filter (fun i => negb (Nat.eqb i s)) (seq 0 (length l))).

Lemma map_nth_seq_app {A} (dflt : A) (l : list A) : forall pre,
  map (fun i => nth i (pre ++ l) dflt) (seq (length pre) (length l)) = l.
Proof.
  induction l as [|a l IH]; intros pre; [reflexivity|].
  cbn [length seq map]. rewrite app_nth2 by lia. rewrite Nat.sub_diag. cbn [nth]. f_equal.
  specialize (IH (pre ++ [a])). rewrite app_length, <- app_assoc in IH. cbn in IH.
  rewrite Nat.add_1_r in IH. exact IH.
Qed.
Lemma filter_all {A} (f : A -> bool) l : (forall x, In x l -> f x = true) -> filter f l = l.
Proof.
  induction l as [|a l IH]; intros H; [reflexivity|]. cbn. rewrite (H a (or_introl eq_refl)). f_equal.
  apply IH. intros x Hx. apply H. now right.
Qed.
Lemma comp_skip_gen {A} (dflt : A) (l : list A) : forall pre s,
  map (fun i => nth i (pre ++ l) dflt) (filter (fun i => negb (Nat.eqb i (length pre + s))) (seq (length pre) (length l)))
  = remove_nth s l.
Proof.
  induction l as [|a l IH]; intros pre s; [destruct s; reflexivity|].
  cbn [length seq filter]. destruct s as [|s].
  - rewrite Nat.add_0_r, Nat.eqb_refl. cbn [negb remove_nth].
    rewrite filter_all.
    + pose proof (map_nth_seq_app dflt l (pre ++ [a])) as H. rewrite app_length, <- app_assoc in H. cbn in H.
      rewrite Nat.add_1_r in H. exact H.
    + intros x Hx. apply in_seq in Hx. apply negb_true_iff, Nat.eqb_neq. lia.
  - replace (Nat.eqb (length pre) (length pre + S s)) with false by (symmetry; apply Nat.eqb_neq; lia).
    cbn [negb map remove_nth]. rewrite app_nth2 by lia. rewrite Nat.sub_diag. cbn [nth]. f_equal.
    specialize (IH (pre ++ [a]) s). rewrite app_length, <- app_assoc in IH. cbn in IH.
    rewrite Nat.add_1_r in IH. replace (length pre + S s) with (S (length pre) + s) by lia. exact IH.
Qed.
Lemma comp_skip_remove_nth {A} (dflt : A) s (l : list A) : comp_skip dflt s l = remove_nth s l.
Proof. exact (comp_skip_gen dflt l [] s). Qed.
(* if skip is not None: l = [l[i] for i in range(len(l)) if i != skip] *)
Lemma comp_skip_skipl {A} (dflt : A) skip (l : list A) :
  match skip with Some s => comp_skip dflt s l | None => l end = skipl skip l.
Proof. destruct skip; [apply comp_skip_remove_nth|reflexivity]. Qed.

(* enumerate(l) *)
Definition py_enumerate {A} (l : list A) : list (nat * A) := combine (seq 0 (length l)) l.

(* a loop and the recursive model function it implements: base case and one unrolling suffice *)
Lemma fold_res_sim {S X R} (step : S -> X -> res S) (k : S -> res R) (model : list X -> S -> res R) :
  (forall st, model [] st = k st) ->
  (forall x r st, model (x :: r) st = rbind (step st x) (model r)) ->
  forall l st, rbind (fold_res step l st) k = model l st.
Proof.
  intros Hb Hs. induction l as [|x l IH]; intros st; cbn [fold_res rbind]; [now rewrite Hb|].
  rewrite Hs. destruct (step st x); cbn [rbind]; [apply IH|reflexivity].
Qed.

(* reading a local that the loop may not have bound yet (UnboundLocalError) *)
Definition py_get {A} (o : option A) : res A := match o with Some a => Ok a | None => Err end.

(* for i, x in enumerate(l): (if not i: acc = x  else: acc = f(acc, x)); return acc *)
Lemma fold_first_then {A R} (f : A -> A -> A) (step : option A -> nat * A -> res (option A)) (k : option A -> res R) (k' : A -> res R) :
  (forall st x, step st (0, x) = Ok (Some x)) ->
  (forall a i x, step (Some a) (S i, x) = Ok (Some (f a x))) ->
  (forall o, k o = match o with Some a => k' a | None => Err end) ->
  forall l, rbind (fold_res step (py_enumerate l) None) k = match l with [] => Err | a :: r => k' (fold_left f r a) end.
Proof.
  intros H0 HS Hk l. destruct l as [|a r]; [cbn; now rewrite Hk|].
  unfold py_enumerate. cbn [length seq combine fold_res]. rewrite H0. cbn [rbind].
  assert (G : forall r j acc, fold_res step (combine (seq (S j) (length r)) r) (Some acc) = Ok (Some (fold_left f r acc))).
  { clear - HS. induction r as [|x r IH]; intros j acc; [reflexivity|].
    cbn [length seq combine fold_res fold_left]. rewrite HS. cbn [rbind]. apply IH. }
  rewrite G. cbn [rbind]. now rewrite Hk.
Qed.

Section Prims.
Context {F : Type} (Op : rops F).
(* np.dot of a vector or a matrix with a matrix: the inner dimensions must agree *)
Definition np_dot (A B : tensor F) : res (tensor F) :=
  match shape A with
  | [n] => if n =? nrows B then Ok (vecmat Op A B) else Err
  | [_; c] => if c =? nrows B then Ok (matmul Op A B) else Err
  | _ => Err
  end.
Lemma unfold_shape2 (T U : tensor F) k : unfold (r0 Op) T k = Ok U -> exists c, shape U = [nth k (shape T) 0; c].
Proof.
  unfold unfold, reshape_spec, infer_shape. destruct (k <? ndim T); [|discriminate].
  cbn [count_none filter length known fold_right rbind].
  destruct (Nat.eqb _ 0); [discriminate|]. destruct (Nat.eqb _ 0); [|discriminate].
  cbn. intros H; injection H as <-. eexists; reflexivity.
Qed.

(* Python indexing of a shape with an int that may be negative (IndexError when out of range); np.moveaxis in unfold / fold
   resolves the mode the same way *)
Definition py_nth_z (l : list nat) (z : Z) : res nat :=
  match py_index (length l) z with Some k => Ok (nth k l 0) | None => Err end.
Definition py_set_z (l : list nat) (z : Z) (v : nat) : res (list nat) :=
  match py_index (length l) z with Some k => Ok (set_nth k v l) | None => Err end.
Definition py_pop_z (l : list nat) (z : Z) : res (list nat) :=
  match py_index (length l) z with Some k => Ok (remove_nth k l) | None => Err end.
Definition unfold_z (T : tensor F) (z : Z) : res (tensor F) :=
  match py_index (ndim T) z with Some k => unfold (r0 Op) T k | None => Err end.
Definition fold_z (u : tensor F) (z : Z) (s : list nat) : res (tensor F) :=
  match py_index (length s) z with Some k => fold (r0 Op) u k s | None => Err end.
Lemma py_nth_z_some l z k : py_index (length l) z = Some k -> py_nth_z l z = Ok (nth k l 0).
Proof. intros H. unfold py_nth_z. now rewrite H. Qed.
Lemma py_nth_z_none l z : py_index (length l) z = None -> py_nth_z l z = Err.
Proof. intros H. unfold py_nth_z. now rewrite H. Qed.
Lemma py_nth_z_0 a l : py_nth_z (a :: l) 0%Z = Ok a.
Proof. unfold py_nth_z. change 0%Z with (Z.of_nat 0). rewrite (py_index_nat (length (a :: l)) 0) by (cbn; lia). reflexivity. Qed.
Lemma py_nth_z_1 a b l : py_nth_z (a :: b :: l) 1%Z = Ok b.
Proof. unfold py_nth_z. change 1%Z with (Z.of_nat 1). rewrite (py_index_nat (length (a :: b :: l)) 1) by (cbn; lia). reflexivity. Qed.
Lemma np_dot_mat (M U : tensor F) a b : shape M = [a; b] -> nrows U = b -> np_dot M U = Ok (matmul Op M U).
Proof. intros Hs Hu. unfold np_dot. rewrite Hs, Hu, Nat.eqb_refl. reflexivity. Qed.
Lemma np_dot_vec (v U : tensor F) a : shape v = [a] -> nrows U = a -> np_dot v U = Ok (vecmat Op v U).
Proof. intros Hs Hu. unfold np_dot. rewrite Hs, Hu, Nat.eqb_refl. reflexivity. Qed.
Lemma unfold_nrows (T U : tensor F) k : unfold (r0 Op) T k = Ok U -> nrows U = nth k (shape T) 0.
Proof. intros H. destruct (unfold_shape2 T U k H) as [c E]. unfold nrows. now rewrite E. Qed.
End Prims.
Lemma rbind_ok_id {A} (x : res A) : rbind x (fun h => Ok h) = x.
Proof. destruct x; reflexivity. Qed.
